/-
Helper lemmas for `Model/RewriteDecisions.lean`: every step of the rewrite-decision model keeps
`Spec.m` of the denotation (`toPat`) — part 1: list algebra of n-ary concatenations and alternations.
-/
import RegexVerif.Model.RewriteDecisions
import RegexVerif.Lemmas.Rewrites
import RegexVerif.Lemmas.ClassCanon
import RegexVerif.Lemmas.AutoAtomic

namespace RegexVerif.RewriteDecisions
open RegexVerif.Spec

/-! ## `toPats` -/

theorem toPats_eq_map (rtl : Bool) : ∀ (cs : List RNode), toPats rtl cs = cs.map (toPat rtl)
  | [] => by simp [toPats]
  | x :: xs => by simp [toPats, toPats_eq_map rtl xs]

theorem toPats_append (rtl : Bool) (a b : List RNode) : toPats rtl (a ++ b) = toPats rtl a ++ toPats rtl b := by
  simp [toPats_eq_map]

/-! ## n-ary concatenation -/

/-- the successes of a list of factors evaluated in pattern order (`rtl`: last factor first) -/
def ms (e : Env) (rtl : Bool) (l : List Pat) (st : St) : List St := m e (seqOf l) rtl st

theorem ms_nil (e : Env) (rtl : Bool) (st : St) : ms e rtl [] st = [st] := by simp [ms, seqOf, m]

theorem ms_single (e : Env) (rtl : Bool) (a : Pat) (st : St) : ms e rtl [a] st = m e a rtl st := by simp [ms, seqOf]

theorem ms_cons (e : Env) (rtl : Bool) (a : Pat) (l : List Pat) (st : St) :
    ms e rtl (a :: l) st = m e (.seq a (seqOf l)) rtl st := by
  cases l with
  | nil => simp [ms, seqOf, seq_empty_right]
  | cons b rest => simp [ms, seqOf]

theorem ms_cons_ltr (e : Env) (a : Pat) (l : List Pat) (st : St) :
    ms e false (a :: l) st = (m e a false st).flatMap (ms e false l) := by
  rw [ms_cons]; simp only [m, Bool.false_eq_true, if_false]; rfl

theorem ms_cons_rtl (e : Env) (a : Pat) (l : List Pat) (st : St) :
    ms e true (a :: l) st = (ms e true l st).flatMap (m e a true) := by
  rw [ms_cons]; simp only [m, if_true]; rfl

theorem ms_append_ltr (e : Env) : ∀ (l1 l2 : List Pat) (st : St),
    ms e false (l1 ++ l2) st = (ms e false l1 st).flatMap (ms e false l2)
  | [], l2, st => by simp [ms_nil]
  | a :: l1, l2, st => by
    rw [List.cons_append, ms_cons_ltr, ms_cons_ltr, List.flatMap_assoc]
    congr 1; funext y; exact ms_append_ltr e l1 l2 y

theorem ms_append_rtl (e : Env) : ∀ (l1 l2 : List Pat) (st : St),
    ms e true (l1 ++ l2) st = (ms e true l2 st).flatMap (ms e true l1)
  | [], l2, st => by
    have : (fun y => ms e true [] y) = fun y => [y] := by funext y; exact ms_nil e true y
    simp [this]
  | a :: l1, l2, st => by
    rw [List.cons_append, ms_cons_rtl, ms_append_rtl e l1 l2 st, List.flatMap_assoc]
    congr 1; funext y; rw [ms_cons_rtl]

/-- two factor lists with the same successes from every state (direction `rtl`) -/
def SeqEq (e : Env) (rtl : Bool) (l l' : List Pat) : Prop := ∀ st, ms e rtl l st = ms e rtl l' st

theorem SeqEq.refl (e : Env) (rtl : Bool) (l : List Pat) : SeqEq e rtl l l := fun _ => rfl
theorem SeqEq.symm {e : Env} {rtl : Bool} {l l' : List Pat} (h : SeqEq e rtl l l') : SeqEq e rtl l' l := fun st => (h st).symm
theorem SeqEq.trans {e : Env} {rtl : Bool} {a b c : List Pat} (h1 : SeqEq e rtl a b) (h2 : SeqEq e rtl b c) :
    SeqEq e rtl a c := fun st => (h1 st).trans (h2 st)

theorem SeqEq.append {e : Env} {rtl : Bool} {a a' b b' : List Pat} (h1 : SeqEq e rtl a a') (h2 : SeqEq e rtl b b') :
    SeqEq e rtl (a ++ b) (a' ++ b') := by
  intro st
  cases rtl with
  | false =>
    rw [ms_append_ltr, ms_append_ltr, h1 st]
    congr 1; funext y; exact h2 y
  | true =>
    rw [ms_append_rtl, ms_append_rtl, h2 st]
    congr 1; funext y; exact h1 y

theorem SeqEq.of_m {e : Env} {rtl : Bool} {a a' : Pat} (h : ∀ st, m e a rtl st = m e a' rtl st) : SeqEq e rtl [a] [a'] := by
  intro st; rw [ms_single, ms_single, h st]

/-- a nested concatenation may be spliced -/
theorem seqEq_splice (e : Env) (rtl : Bool) (l : List Pat) : SeqEq e rtl [seqOf l] l := by
  intro st; rw [ms_single]; rfl

/-- Empty may be dropped -/
theorem seqEq_empty (e : Env) (rtl : Bool) : SeqEq e rtl [.empty] [] := by
  intro st; rw [ms_single, ms_nil]; simp [m]

theorem ms_reverse_dir (e : Env) (rtl : Bool) (l : List Pat) (st : St) :
    m e (seqOf (dir rtl l)) rtl st = ms e rtl (dir rtl l) st := rfl

/-! ## n-ary alternation -/

/-- the successes of a list of branches -/
def ma (e : Env) (rtl : Bool) (l : List Pat) (st : St) : List St := l.flatMap (fun a => m e a rtl st)

theorem m_altOf' (e : Env) (rtl : Bool) (l : List Pat) (st : St) : m e (altOf l) rtl st = ma e rtl l st :=
  m_altOf e rtl st l

theorem ma_append (e : Env) (rtl : Bool) (a b : List Pat) (st : St) : ma e rtl (a ++ b) st = ma e rtl a st ++ ma e rtl b st := by
  simp [ma]

theorem ma_cons (e : Env) (rtl : Bool) (a : Pat) (l : List Pat) (st : St) : ma e rtl (a :: l) st = m e a rtl st ++ ma e rtl l st := by
  simp [ma]

theorem ma_nil (e : Env) (rtl : Bool) (st : St) : ma e rtl [] st = [] := rfl

/-! ## concatenations of nodes (storage order) -/

/-- the successes of a Concatenate with children `cs` (stored in emission order) -/
def mc (e : Env) (rtl : Bool) (cs : List RNode) (st : St) : List St := ms e rtl (dir rtl (toPats rtl cs)) st

theorem m_cat (e : Env) (rtl : Bool) (o : Nat) (cs : List RNode) (st : St) :
    m e (toPat rtl (.cat o cs)) rtl st = mc e rtl cs st := by
  simp [toPat, mc, ms]

/-- two child lists with the same successes -/
def CatEq (e : Env) (rtl : Bool) (cs cs' : List RNode) : Prop := ∀ st, mc e rtl cs st = mc e rtl cs' st

theorem CatEq.refl (e : Env) (rtl : Bool) (cs : List RNode) : CatEq e rtl cs cs := fun _ => rfl
theorem CatEq.symm {e : Env} {rtl : Bool} {a b : List RNode} (h : CatEq e rtl a b) : CatEq e rtl b a := fun st => (h st).symm
theorem CatEq.trans {e : Env} {rtl : Bool} {a b c : List RNode} (h1 : CatEq e rtl a b) (h2 : CatEq e rtl b c) :
    CatEq e rtl a c := fun st => (h1 st).trans (h2 st)

theorem dir_append {α : Type} (rtl : Bool) (a b : List α) :
    dir rtl (a ++ b) = if rtl then dir rtl b ++ dir rtl a else dir rtl a ++ dir rtl b := by
  cases rtl <;> simp [dir]

theorem CatEq.append {e : Env} {rtl : Bool} {a a' b b' : List RNode} (h1 : CatEq e rtl a a') (h2 : CatEq e rtl b b') :
    CatEq e rtl (a ++ b) (a' ++ b') := by
  intro st
  unfold mc
  rw [toPats_append, toPats_append, dir_append, dir_append]
  cases rtl with
  | false => exact SeqEq.append (e := e) (rtl := false) h1 h2 st
  | true => exact SeqEq.append (e := e) (rtl := true) h2 h1 st

theorem CatEq.cons {e : Env} {rtl : Bool} (x : RNode) {b b' : List RNode} (h : CatEq e rtl b b') :
    CatEq e rtl (x :: b) (x :: b') := CatEq.append (CatEq.refl e rtl [x]) h

theorem mc_single (e : Env) (rtl : Bool) (x : RNode) (st : St) : mc e rtl [x] st = m e (toPat rtl x) rtl st := by
  cases rtl <;> simp [mc, toPats, dir, ms_single]

theorem mc_nil (e : Env) (rtl : Bool) (st : St) : mc e rtl [] st = [st] := by
  cases rtl <;> simp [mc, toPats, dir, ms_nil]

theorem CatEq.of_m {e : Env} {rtl : Bool} {x y : RNode} (h : ∀ st, m e (toPat rtl x) rtl st = m e (toPat rtl y) rtl st) :
    CatEq e rtl [x] [y] := by
  intro st; rw [mc_single, mc_single, h st]

theorem catEq_empty (e : Env) (rtl : Bool) : CatEq e rtl [.empty] [] := by
  intro st; rw [mc_single, mc_nil]; simp [toPat, m]

theorem catEq_splice (e : Env) (rtl : Bool) (o : Nat) (cs : List RNode) : CatEq e rtl [.cat o cs] cs := by
  intro st; rw [mc_single, m_cat]

/-- `mkCat` (`replaceNodeIfUnnecessary`) keeps the successes -/
theorem m_mkCat (e : Env) (rtl : Bool) (o : Nat) (cs : List RNode) (st : St) :
    m e (toPat rtl (mkCat o cs)) rtl st = mc e rtl cs st := by
  match cs with
  | [] => simp [mkCat, toPat, m, mc_nil]
  | [c] => simp [mkCat, mc_single]
  | a :: b :: rest => simp [mkCat, m_cat]

theorem m_strPat_append (e : Env) (rtl : Bool) (a b : List Nat) :
    SeqEq e rtl [strPat a, strPat b] [strPat (a ++ b)] := by
  have h1 : SeqEq e rtl ([strPat a] ++ [strPat b]) (a.map lit ++ b.map lit) :=
    SeqEq.append (seqEq_splice e rtl _) (seqEq_splice e rtl _)
  have h2 : SeqEq e rtl [strPat (a ++ b)] (a.map lit ++ b.map lit) := by
    have := seqEq_splice e rtl ((a ++ b).map lit)
    simpa [strPat, List.map_append] using this
  exact h1.trans h2.symm

theorem toPat_strOf {rtl : Bool} {x : RNode} {o : Nat} {s : List Nat} (h : strOf x = some (o, s)) :
    toPat rtl x = strPat s := by
  cases x <;> simp [strOf] at h
  case chr o' p =>
    cases p <;> simp [strOf] at h
    obtain ⟨_, rfl⟩ := h
    simp [toPat, CP.pred, strPat, seqOf, lit]
  case multi o' cs =>
    obtain ⟨_, rfl⟩ := h
    simp [toPat]

/-- joining two adjacent One/Multi children -/
theorem catEq_join (e : Env) (rtl : Bool) {a b : RNode} {oa ob po : Nat} {sa sb : List Nat}
    (ha : strOf a = some (oa, sa)) (hb : strOf b = some (ob, sb)) :
    CatEq e rtl [a, b] [.multi po (if rtl then sb ++ sa else sa ++ sb)] := by
  intro st
  unfold mc
  cases rtl with
  | false =>
    simp only [toPats, dir, Bool.false_eq_true, if_false, toPat_strOf ha, toPat_strOf hb, toPat]
    exact m_strPat_append e false sa sb st
  | true =>
    simp only [toPats, dir, if_true, toPat_strOf ha, toPat_strOf hb, toPat, List.reverse_cons, List.reverse_nil,
      List.nil_append, List.cons_append]
    exact m_strPat_append e true sb sa st

theorem dropLast_append_of_getLast? {α : Type} {l : List α} {a : α} (h : l.getLast? = some a) : l.dropLast ++ [a] = l := by
  have hne : l ≠ [] := by intro h0; simp [h0] at h
  have := List.dropLast_concat_getLast hne
  rw [List.getLast?_eq_getLast hne] at h
  simp only [Option.some.injEq] at h
  rw [← h]; exact this

mutual
theorem catEq_flatCat (e : Env) (rtl : Bool) : ∀ (n : RNode), CatEq e rtl (flatCat n) [n]
  | .cat o cs => by
    rw [flatCat]
    exact (catEq_flatCats e rtl cs).trans (catEq_splice e rtl o cs).symm
  | .chr .. | .cloop .. | .multi .. | .empty | .nothing | .bump | .anchor .. | .ref .. | .alt .. | .loop .. | .cap ..
  | .look .. | .atomic .. | .refCond .. | .exprCond .. => by simp only [flatCat]; exact CatEq.refl e rtl _
theorem catEq_flatCats (e : Env) (rtl : Bool) : ∀ (cs : List RNode), CatEq e rtl (flatCats cs) cs
  | [] => by rw [flatCats]; exact CatEq.refl e rtl _
  | x :: xs => by
    rw [flatCats]
    exact CatEq.append (catEq_flatCat e rtl x) (catEq_flatCats e rtl xs)
end

/-- one step of `joinGo` on a child that is not Empty -/
theorem joinGo_cons (rtl : Bool) (out : List RNode) (w : Bool) (nd : RNode) (rest : List RNode) (hne : isEmpty nd = false) :
    joinGo rtl out w (nd :: rest) =
      match strOf nd with
      | none => joinGo rtl (out ++ [nd]) false rest
      | some (_, s) =>
        if !w then joinGo rtl (out ++ [nd]) true rest
        else
          match out.getLast?.bind strOf, out.dropLast with
          | some (po, ps), front =>
            joinGo rtl (front ++ [.multi po (if rtl then s ++ ps else ps ++ s)]) true rest
          | none, _ => joinGo rtl (out ++ [nd]) true rest := by
  cases nd <;> simp [isEmpty] at hne <;> simp only [joinGo] <;> rfl

theorem catEq_joinGo (e : Env) (rtl : Bool) : ∀ (rest out : List RNode) (w : Bool),
    CatEq e rtl (joinGo rtl out w rest) (out ++ rest)
  | [], out, w => by simp [joinGo]; exact CatEq.refl e rtl _
  | nd :: rest, out, w => by
    have hdrop : CatEq e rtl (out ++ rest) (out ++ RNode.empty :: rest) :=
      CatEq.append (CatEq.refl e rtl out) (CatEq.append (a := []) (a' := [.empty]) (catEq_empty e rtl).symm (CatEq.refl e rtl rest))
    have hkeep : ∀ w', CatEq e rtl (joinGo rtl (out ++ [nd]) w' rest) (out ++ nd :: rest) := fun w' => by
      have := catEq_joinGo e rtl rest (out ++ [nd]) w'
      simpa [List.append_assoc] using this
    by_cases hne : isEmpty nd = true
    · have : nd = .empty := by cases nd <;> simp_all [isEmpty]
      subst this
      simp only [joinGo]
      exact (catEq_joinGo e rtl rest out w).trans hdrop
    · rw [joinGo_cons rtl out w nd rest (by simpa using hne)]
      cases hs : strOf nd with
      | none => exact hkeep false
      | some os =>
        obtain ⟨so, s⟩ := os
        simp only
        by_cases hw : w = true
        · simp only [hw, Bool.not_true, Bool.false_eq_true, if_false]
          cases hl : out.getLast? with
          | none => simp only [Option.bind_none]; exact hkeep true
          | some last =>
            cases hls : strOf last with
            | none => simp only [Option.bind_some, hls]; exact hkeep true
            | some pq =>
              obtain ⟨po, ps⟩ := pq
              simp only [Option.bind_some, hls]
              have hout : out.dropLast ++ [last] = out := dropLast_append_of_getLast? hl
              have h1 := catEq_joinGo e rtl rest (out.dropLast ++ [.multi po (if rtl then s ++ ps else ps ++ s)]) true
              refine h1.trans ?_
              rw [List.append_assoc]
              conv => rhs; rw [← hout, List.append_assoc]
              refine CatEq.append (CatEq.refl e rtl _) ?_
              exact CatEq.append (a' := [last, nd]) (catEq_join e rtl hls hs).symm (CatEq.refl e rtl rest)
        · have hw' : w = false := by cases w <;> simp_all
          simp only [hw', Bool.not_false, if_true]
          exact hkeep true

theorem catEq_joinStrings (e : Env) (rtl : Bool) (cs : List RNode) : CatEq e rtl (joinStrings rtl cs) cs := by
  unfold joinStrings
  have := catEq_joinGo e rtl (flatCats cs) [] false
  exact (by simpa using this : CatEq e rtl _ (flatCats cs)).trans (catEq_flatCats e rtl cs)

/-! ## adjacent loops: an individual item followed by a loop over the same test (`aa*` ⇒ `a+`) -/

theorem canGo_shift (hi : Option Nat) (cnt : Nat) : canGo (hi.map (· + 1)) (cnt + 1) = canGo hi cnt := by
  cases hi <;> simp [canGo]

theorem iter_shift (f : St → List St) (lzy : Bool) (lo : Nat) (hi : Option Nat) :
    ∀ (fuel cnt : Nat) (st : St),
      iter f lzy (lo + 1) (hi.map (· + 1)) fuel (cnt + 1) st = iter f lzy lo hi fuel cnt st := by
  intro fuel
  induction fuel with
  | zero => intro cnt st; simp [iter]
  | succ fuel ih =>
    intro cnt st
    simp only [iter, canGo_shift, Nat.add_le_add_iff_right]
    have : ∀ st', iter f lzy (lo + 1) (hi.map (· + 1)) fuel (cnt + 1 + 1) st' = iter f lzy lo hi fuel (cnt + 1) st' :=
      fun st' => ih (cnt + 1) st'
    simp only [this]

theorem m_seq_ltr (e : Env) (a b : Pat) (st : St) : m e (.seq a b) false st = (m e a false st).flatMap (m e b false) := by
  simp [m]

theorem chr_then_loop (e : Env) (q : Pred) (lzy : Bool) (lo : Nat) (hi : Option Nat) (st : St) :
    m e (.seq (.chr q) (.quant lzy lo hi (.chr q))) false st
      = m e (.quant lzy (lo + 1) (hi.map (· + 1)) (.chr q)) false st := by
  have hfuel : e.n + (lo + 1) + 1 = (e.n + lo + 1) + 1 := by omega
  have hcg : canGo (hi.map (· + 1)) 0 = true := by cases hi <;> simp [canGo]
  rw [m_quant e lzy (lo + 1), hfuel, iter_chr_succ, m_seq_ltr, m_chr_ltr]
  have hlo : ¬ (lo + 1 ≤ 0) := by omega
  simp only [hcg, true_and, hlo, if_false, List.nil_append, List.append_nil]
  by_cases ha : acc e q st.pos = true
  · simp only [ha, if_true, List.flatMap_cons, List.flatMap_nil, List.append_nil]
    rw [iter_shift, m_quant]
    cases lzy <;> simp
  · simp only [ha]
    cases lzy <;> simp

theorem addHi_one (hi : Option Nat) : addHi hi (some 1) = hi.map (· + 1) := by
  cases hi <;> simp [addHi]

/-- the node-level statement, any kind of loop -/
theorem chr_cloop_coalesce (e : Env) (p : CP) (k : LK) (lo : Nat) (hi : Option Nat) (st : St) :
    m e (.seq (.chr p.pred) (cloopPat k p lo hi)) false st = m e (cloopPat k p (lo + 1) (addHi hi (some 1))) false st := by
  rw [addHi_one]
  cases k with
  | greedy => exact chr_then_loop e p.pred false lo hi st
  | lzy => exact chr_then_loop e p.pred true lo hi st
  | atomic =>
    simp only [cloopPat]
    rw [m_atomic, ← chr_then_loop e p.pred false lo hi st, m_seq_ltr, m_seq_ltr, m_chr_ltr]
    by_cases ha : acc e p.pred st.pos = true <;> simp [ha, m_atomic]

theorem combine_sound (e : Env) {cur nx cur' : RNode} {r : Option RNode}
    (h : combine false false cur nx = some (cur', r)) :
    r = none ∧ CatEq e false [cur'] [cur, nx] := by
  unfold combine at h
  simp only [Bool.false_eq_true, if_false] at h
  cases cur <;> cases nx <;> simp at h
  case chr.cloop o p o' k p' lo hi =>
    simp only [combineFull] at h
    split at h
    · rename_i hc
      obtain ⟨_, rfl⟩ := hc
      split at h
      · simp only [Option.some.injEq, Prod.mk.injEq] at h
        obtain ⟨rfl, rfl⟩ := h
        refine ⟨rfl, ?_⟩
        intro st
        unfold mc
        simp only [toPats, dir, Bool.false_eq_true, if_false, toPat, ms, seqOf]
        exact (chr_cloop_coalesce e p k lo hi st).symm
      · cases h
    · cases h

theorem catEq_coalesceGo (e : Env) : ∀ (rest : List RNode) (cur : RNode),
    CatEq e false (coalesceGo false false cur rest) (cur :: rest)
  | [], cur => by simp [coalesceGo]; exact CatEq.refl e false _
  | nx :: rest, cur => by
    simp only [coalesceGo]
    cases hc : combine false false cur nx with
    | none => exact CatEq.cons cur (catEq_coalesceGo e rest nx)
    | some pr =>
      obtain ⟨cur', r⟩ := pr
      obtain ⟨rfl, hce⟩ := combine_sound e hc
      simp only
      refine (catEq_coalesceGo e rest cur').trans ?_
      exact CatEq.append (a := [cur']) (a' := [cur, nx]) hce (CatEq.refl e false rest)

/-- right-to-left nothing is coalesced in the proved variant -/
theorem coalesceGo_rtl : ∀ (rest : List RNode) (cur : RNode), coalesceGo false true cur rest = cur :: rest
  | [], cur => by simp [coalesceGo]
  | nx :: rest, cur => by
    have : combine false true cur nx = none := by
      unfold combine; cases cur <;> cases nx <;> simp
    simp [coalesceGo, this, coalesceGo_rtl rest nx]

theorem catEq_coalesce (e : Env) (rtl : Bool) (cs : List RNode) : CatEq e rtl (coalesce false rtl cs) cs := by
  cases cs with
  | nil => exact CatEq.refl e rtl _
  | cons c cs =>
    cases rtl with
    | false => exact catEq_coalesceGo e cs c
    | true => rw [coalesce, coalesceGo_rtl]; exact CatEq.refl e true _

/-- in storage (= evaluation) order a Concatenate is evaluated front to back in both directions -/
theorem mc_append (e : Env) (rtl : Bool) (a b : List RNode) (st : St) :
    mc e rtl (a ++ b) st = (mc e rtl a st).flatMap (mc e rtl b) := by
  unfold mc
  rw [toPats_append, dir_append]
  cases rtl with
  | false => exact ms_append_ltr e _ _ st
  | true => exact ms_append_rtl e _ _ st

theorem mc_of_nothing (e : Env) (rtl : Bool) (cs : List RNode) (h : cs.any isNothing = true) (st : St) :
    mc e rtl cs st = [] := by
  rw [List.any_eq_true] at h
  obtain ⟨x, hx, hn⟩ := h
  have : x = .nothing := by cases x <;> simp_all [isNothing]
  subst this
  obtain ⟨a, b, rfl⟩ := List.append_of_mem hx
  rw [mc_append, show RNode.nothing :: b = [RNode.nothing] ++ b from rfl]
  rw [List.flatMap_eq_nil_iff]
  intro y _
  rw [mc_append, mc_single]
  simp [toPat, m]

/-- **`reduceConcatenation` keeps the successes** (the proved variant: no loop·loop coalescing) -/
theorem reduceCat_sound (e : Env) (rtl : Bool) (o : Nat) (cs : List RNode) (st : St) :
    m e (toPat rtl (reduceCat false rtl o cs)) rtl st = m e (toPat rtl (.cat o cs)) rtl st := by
  rw [m_cat]
  unfold reduceCat
  match cs with
  | [] => simp [toPat, m, mc_nil]
  | [c] => simp [mc_single]
  | a :: b :: rest =>
    simp only
    split
    · -- some child is Nothing: no success at all
      rename_i hany
      simp only [toPat, m]
      exact (mc_of_nothing e rtl _ hany st).symm
    · rw [m_mkCat]
      exact ((catEq_joinStrings e rtl _).trans (catEq_coalesce e rtl _)) st

/-! ## alternations of nodes

`h = false`: the same ordered successes; `h = true`: the same FIRST success (all that the enclosing
Atomic node keeps — prefix factoring inside an atomic group makes the new inner alternation atomic). -/

def LRel (h : Bool) (l l' : List St) : Prop := if h then l.head? = l'.head? else l = l'

theorem LRel.refl (h : Bool) (l : List St) : LRel h l l := by cases h <;> simp [LRel]
theorem LRel.of_eq {h : Bool} {l l' : List St} (he : l = l') : LRel h l l' := by subst he; exact LRel.refl h l
theorem LRel.symm {h : Bool} {l l' : List St} (h1 : LRel h l l') : LRel h l' l := by
  cases h <;> simp_all [LRel]
theorem LRel.trans {h : Bool} {a b c : List St} (h1 : LRel h a b) (h2 : LRel h b c) : LRel h a c := by
  cases h <;> simp_all [LRel]
theorem LRel.append {h : Bool} {a a' b b' : List St} (h1 : LRel h a a') (h2 : LRel h b b') : LRel h (a ++ b) (a' ++ b') := by
  cases h
  · simp_all [LRel]
  · simp only [LRel, if_true] at *; exact head?_append_congr h1 h2
theorem LRel.head {h : Bool} {a b : List St} (h1 : LRel h a b) : a.head? = b.head? := by
  cases h <;> simp_all [LRel]

/-- node-level relation -/
def NEq (h : Bool) (e : Env) (rtl : Bool) (n n' : RNode) : Prop :=
  ∀ st, LRel h (m e (toPat rtl n) rtl st) (m e (toPat rtl n') rtl st)

theorem NEq.refl (h : Bool) (e : Env) (rtl : Bool) (n : RNode) : NEq h e rtl n n := fun _ => LRel.refl _ _
theorem NEq.trans {h : Bool} {e : Env} {rtl : Bool} {a b c : RNode} (h1 : NEq h e rtl a b) (h2 : NEq h e rtl b c) :
    NEq h e rtl a c := fun st => (h1 st).trans (h2 st)
theorem NEq.of_eq {h : Bool} {e : Env} {rtl : Bool} {a b : RNode} (h1 : NEq false e rtl a b) : NEq h e rtl a b :=
  fun st => LRel.of_eq (by simpa [LRel] using h1 st)
theorem NEq.eq {e : Env} {rtl : Bool} {a b : RNode} (h1 : NEq false e rtl a b) (st : St) :
    m e (toPat rtl a) rtl st = m e (toPat rtl b) rtl st := by simpa [LRel] using h1 st
theorem NEq.headEq {h : Bool} {e : Env} {rtl : Bool} {a b : RNode} (h1 : NEq h e rtl a b) :
    HeadEq e rtl (toPat rtl a) (toPat rtl b) := fun st => (h1 st).head

/-- the successes of an Alternate with children `cs` -/
def mA (e : Env) (rtl : Bool) (cs : List RNode) (st : St) : List St := ma e rtl (toPats rtl cs) st

theorem m_alt (e : Env) (rtl : Bool) (o : Nat) (cs : List RNode) (st : St) :
    m e (toPat rtl (.alt o cs)) rtl st = mA e rtl cs st := by
  simp [toPat, mA, m_altOf']

theorem mA_append (e : Env) (rtl : Bool) (a b : List RNode) (st : St) : mA e rtl (a ++ b) st = mA e rtl a st ++ mA e rtl b st := by
  simp [mA, toPats_append, ma_append]

theorem mA_cons (e : Env) (rtl : Bool) (a : RNode) (b : List RNode) (st : St) :
    mA e rtl (a :: b) st = m e (toPat rtl a) rtl st ++ mA e rtl b st := by
  simp [mA, toPats, ma_cons]

theorem mA_nil (e : Env) (rtl : Bool) (st : St) : mA e rtl [] st = [] := rfl

theorem mA_single (e : Env) (rtl : Bool) (a : RNode) (st : St) : mA e rtl [a] st = m e (toPat rtl a) rtl st := by
  simp [mA_cons, mA_nil]

theorem m_mkAlt (e : Env) (rtl : Bool) (o : Nat) (cs : List RNode) (st : St) :
    m e (toPat rtl (mkAlt o cs)) rtl st = mA e rtl cs st := by
  match cs with
  | [] => simp [mkAlt, toPat, m, mA_nil]
  | [c] => simp [mkAlt, mA_single]
  | a :: b :: rest => simp [mkAlt, m_alt]

def AEq (h : Bool) (e : Env) (rtl : Bool) (cs cs' : List RNode) : Prop := ∀ st, LRel h (mA e rtl cs st) (mA e rtl cs' st)

theorem AEq.refl (h : Bool) (e : Env) (rtl : Bool) (cs : List RNode) : AEq h e rtl cs cs := fun _ => LRel.refl _ _
theorem AEq.trans {h : Bool} {e : Env} {rtl : Bool} {a b c : List RNode} (h1 : AEq h e rtl a b) (h2 : AEq h e rtl b c) :
    AEq h e rtl a c := fun st => (h1 st).trans (h2 st)
theorem AEq.symm {h : Bool} {e : Env} {rtl : Bool} {a b : List RNode} (h1 : AEq h e rtl a b) : AEq h e rtl b a :=
  fun st => (h1 st).symm
theorem AEq.append {h : Bool} {e : Env} {rtl : Bool} {a a' b b' : List RNode} (h1 : AEq h e rtl a a') (h2 : AEq h e rtl b b') :
    AEq h e rtl (a ++ b) (a' ++ b') := by
  intro st; rw [mA_append, mA_append]; exact (h1 st).append (h2 st)
theorem AEq.cons {h : Bool} {e : Env} {rtl : Bool} (x : RNode) {b b' : List RNode} (h2 : AEq h e rtl b b') :
    AEq h e rtl (x :: b) (x :: b') := AEq.append (a := [x]) (AEq.refl h e rtl [x]) h2
theorem AEq.of_eq {h : Bool} {e : Env} {rtl : Bool} {a b : List RNode} (h1 : AEq false e rtl a b) : AEq h e rtl a b :=
  fun st => LRel.of_eq (by simpa [LRel] using h1 st)
theorem AEq.of_node {h : Bool} {e : Env} {rtl : Bool} {x y : RNode} (h1 : NEq h e rtl x y) : AEq h e rtl [x] [y] := by
  intro st; rw [mA_single, mA_single]; exact h1 st

theorem aEq_nothing (h : Bool) (e : Env) (rtl : Bool) : AEq h e rtl [.nothing] [] := by
  intro st; rw [mA_single, mA_nil]; simp [toPat, m]; exact LRel.refl _ _

theorem aEq_splice (h : Bool) (e : Env) (rtl : Bool) (o : Nat) (cs : List RNode) : AEq h e rtl [.alt o cs] cs := by
  intro st; rw [mA_single, m_alt]; exact LRel.refl _ _

mutual
theorem aEq_flatAlt (h : Bool) (e : Env) (rtl : Bool) : ∀ (n : RNode), AEq h e rtl (flatAlt n) [n]
  | .alt o cs => by
    rw [flatAlt]
    exact (aEq_flatAlts h e rtl cs).trans (aEq_splice h e rtl o cs).symm
  | .chr .. | .cloop .. | .multi .. | .empty | .nothing | .bump | .anchor .. | .ref .. | .cat .. | .loop .. | .cap ..
  | .look .. | .atomic .. | .refCond .. | .exprCond .. => by simp only [flatAlt]; exact AEq.refl h e rtl _
theorem aEq_flatAlts (h : Bool) (e : Env) (rtl : Bool) : ∀ (cs : List RNode), AEq h e rtl (flatAlts cs) cs
  | [] => by rw [flatAlts]; exact AEq.refl h e rtl _
  | x :: xs => by
    rw [flatAlts]
    exact AEq.append (aEq_flatAlt h e rtl x) (aEq_flatAlts h e rtl xs)
end

/-- `removeRedundantEmptiesAndNothings`, proved variant: only Nothing goes -/
theorem aEq_removeEmptiesGo (h : Bool) (e : Env) (rtl : Bool) : ∀ (cs : List RNode) (seen : Bool),
    AEq h e rtl (removeEmptiesGo false seen cs) cs
  | [], _ => by simp [removeEmptiesGo]; exact AEq.refl h e rtl _
  | c :: cs, seen => by
    cases c <;> simp only [removeEmptiesGo, Bool.and_false, Bool.false_eq_true, if_false]
    case nothing =>
      exact (aEq_removeEmptiesGo h e rtl cs seen).trans
        (AEq.append (a := []) (a' := [.nothing]) (aEq_nothing h e rtl).symm (AEq.refl h e rtl cs))
    all_goals exact AEq.cons _ (aEq_removeEmptiesGo h e rtl cs _)

/-! ## prefix factoring -/

/-- what `reduce()` has to satisfy: with a non-Atomic parent the same successes, with an Atomic parent
    the same first success -/
def RedSound (e : Env) (rtl : Bool) (red : Bool → RNode → RNode) : Prop := ∀ pa n, NEq pa e rtl (red pa n) n

theorem flatMap_congr_mem {α β : Type} {l : List α} {f g : α → List β} (h : ∀ x ∈ l, f x = g x) :
    l.flatMap f = l.flatMap g := by
  induction l with
  | nil => rfl
  | cons x xs ih =>
    simp only [List.flatMap_cons]
    rw [h x (by simp), ih (fun y hy => h y (by simp [hy]))]

/-- **the core of both prefix extractions** (left-to-right): every branch of `group` is `X` followed
    by the branch `g b`, and `X` has at most one success: the alternation of the group is `X` followed by
    the alternation of the rests -/
theorem factor_core (e : Env) (X : Pat) (hX : AtMostOne e false X) (group : List RNode) (g : RNode → RNode)
    (hg : ∀ b ∈ group, ∀ st, m e (toPat false b) false st = m e (.seq X (toPat false (g b))) false st) (st : St) :
    mA e false group st = m e (.seq X (altOf (toPats false (group.map g)))) false st := by
  rw [m_seq_ltr]
  have hL : mA e false group st = group.flatMap (fun b => (m e X false st).flatMap (m e (toPat false (g b)) false)) := by
    unfold mA ma
    rw [toPats_eq_map, List.flatMap_map]
    apply flatMap_congr_mem
    intro b hb
    rw [hg b hb st, m_seq_ltr]
  rw [hL]
  have hR : ∀ y, m e (altOf (toPats false (group.map g))) false y = group.flatMap (fun b => m e (toPat false (g b)) false y) := by
    intro y
    rw [m_altOf', ma, toPats_eq_map, List.map_map, List.flatMap_map]
    rfl
  match hm : m e X false st, hX st with
  | [], _ => simp
  | [y], _ => simp [hR]

theorem toPat_strNode (rtl : Bool) (o : Nat) (t : List Nat) : toPat rtl (strNode o t) = strPat t := by
  match t with
  | [] => simp [strNode, toPat, strPat, seqOf]
  | [c] => simp [strNode, toPat, CP.pred, strPat, seqOf, lit]
  | a :: b :: rest => simp [strNode, toPat]

theorem atMostOne_strPat (e : Env) (rtl : Bool) (t : List Nat) : AtMostOne e rtl (strPat t) :=
  atMostOne_seqOf _ (fun x hx => by
    obtain ⟨c, _, rfl⟩ := List.mem_map.mp hx
    exact atMostOne_chr e rtl _)

theorem commonLen_take : ∀ (a b : List Nat), a.take (commonLen a b) = b.take (commonLen a b)
  | [], _ => by simp [commonLen]
  | _ :: _, [] => by simp [commonLen]
  | x :: xs, y :: ys => by
    simp only [commonLen]
    split
    · rename_i hxy; subst hxy; simp [commonLen_take xs ys]
    · simp

theorem shared_spec (so : Nat) : ∀ (rest : List RNode) (span : List Nat),
    (shared so span rest).2 <+: span ∧
      ∀ b ∈ rest.take (shared so span rest).1, ∃ s, startOf b = some (so, s) ∧ (shared so span rest).2 <+: s
  | [], span => by simp [shared]
  | b :: bs, span => by
    simp only [shared]
    cases hb : startOf b with
    | none => simp
    | some os =>
      obtain ⟨o', s⟩ := os
      simp only
      by_cases ho : o' = so
      · subst ho
        simp only [ne_eq, not_true_eq_false, if_false]
        by_cases hc : commonLen span s = 0
        · simp [hc]
        · simp only [hc, if_false]
          have ih := shared_spec o' bs (span.take (commonLen span s))
          refine ⟨ih.1.trans (List.take_prefix _ _), ?_⟩
          intro x hx
          simp only [List.take_succ_cons, List.mem_cons] at hx
          rcases hx with rfl | hx
          · refine ⟨s, hb, ih.1.trans ?_⟩
            rw [commonLen_take]; exact List.take_prefix _ _
          · exact ih.2 x hx
      · simp [ho]

/-- `processOneOrMulti`: a branch that starts with the text `pre ++ suf` is `pre` followed by the
    stripped branch -/
theorem stripPrefix_sound (e : Env) (b : RNode) (o : Nat) (pre suf : List Nat) (hb : startOf b = some (o, pre ++ suf))
    (st : St) :
    m e (toPat false b) false st = m e (.seq (strPat pre) (toPat false (stripPrefix pre.length b))) false st := by
  have key : ∀ (x : RNode), strOf x = some (o, pre ++ suf) →
      SeqEq e false [toPat false x] [strPat pre, toPat false (strNode o ((pre ++ suf).drop pre.length))] := by
    intro x hx
    rw [toPat_strOf hx, toPat_strNode, List.drop_left]
    exact (m_strPat_append e false pre suf).symm
  cases b
  case cat o' cs =>
    cases cs with
    | nil => simp [startOf] at hb
    | cons c cs =>
      simp only [startOf] at hb
      simp only [stripPrefix, hb]
      have h1 : SeqEq e false ([toPat false c] ++ toPats false cs)
          ([strPat pre, toPat false (strNode o ((pre ++ suf).drop pre.length))] ++ toPats false cs) :=
        SeqEq.append (key c hb) (SeqEq.refl e false _)
      have := h1 st
      simp only [toPat, toPats, dir, Bool.false_eq_true, if_false]
      rw [show m e (seqOf (toPat false c :: toPats false cs)) false st = ms e false ([toPat false c] ++ toPats false cs) st from rfl,
        this]
      simp only [List.cons_append, List.nil_append]
      rw [ms_cons]
  case chr o' p =>
    simp only [startOf] at hb
    simp only [stripPrefix, hb]
    have := key _ hb st
    rw [ms_single, ms_cons] at this
    simpa [seqOf] using this
  case multi o' cs =>
    simp only [startOf] at hb
    simp only [stripPrefix, hb]
    have := key _ hb st
    rw [ms_single, ms_cons] at this
    simpa [seqOf] using this
  all_goals simp [startOf, strOf] at hb

theorem lrel_seq_ltr (e : Env) (h : Bool) (P : Pat) {x x' : Pat}
    (hx : ∀ st, LRel h (m e x false st) (m e x' false st)) (st : St) :
    LRel h (m e (.seq P x) false st) (m e (.seq P x') false st) := by
  cases h with
  | false =>
    simp only [LRel, Bool.false_eq_true, if_false] at hx ⊢
    rw [m_seq_ltr, m_seq_ltr]
    congr 1; funext y; exact hx y
  | true =>
    simp only [LRel, if_true] at hx ⊢
    exact headEq_seq_ltr P (fun st => hx st) st

theorem aEq_map_pointwise (e : Env) (rtl : Bool) (f g : RNode → RNode) (l : List RNode)
    (hfg : ∀ b ∈ l, NEq false e rtl (f b) (g b)) : AEq false e rtl (l.map f) (l.map g) := by
  induction l with
  | nil => exact AEq.refl _ _ _ _
  | cons x xs ih =>
    simp only [List.map_cons]
    exact AEq.append (a := [f x]) (a' := [g x]) (AEq.of_node (hfg x (by simp))) (ih (fun b hb => hfg b (by simp [hb])))

/-- one extraction: the branches of `group` are replaced by `pre · (alternation of the rests)`, the
    new alternation being atomic when the parent is -/
theorem factor_step (e : Env) (red : Bool → RNode → RNode) (hred : RedSound e false red) (pa : Bool)
    (pre : RNode) (hX : AtMostOne e false (toPat false pre)) (group : List RNode) (g r : RNode → RNode)
    (hr : ∀ n, NEq false e false (r n) n)
    (hg : ∀ b ∈ group, ∀ st, m e (toPat false b) false st = m e (.seq (toPat false pre) (toPat false (g b))) false st)
    (o1 o2 : Nat) :
    AEq pa e false
      [red false (.cat o2 [pre,
        if pa then red false (.atomic (red true (.alt o1 (group.map (fun b => r (g b))))))
        else red false (.alt o1 (group.map (fun b => r (g b))))])]
      group := by
  intro st
  rw [mA_single, factor_core e _ hX group g hg st]
  -- the reduced concatenation
  have h1 := NEq.eq (hred false (.cat o2 [pre,
        if pa then red false (.atomic (red true (.alt o1 (group.map (fun b => r (g b))))))
        else red false (.alt o1 (group.map (fun b => r (g b))))])) st
  rw [h1]
  simp only [toPat, toPats, dir, Bool.false_eq_true, if_false, seqOf]
  apply lrel_seq_ltr
  intro y
  -- the inner alternation
  have hb : ∀ y, m e (toPat false (.alt o1 (group.map (fun b => r (g b))))) false y
      = m e (altOf (toPats false (group.map g))) false y := by
    intro y
    rw [m_alt, m_altOf']
    have := aEq_map_pointwise e false (fun b => r (g b)) g group (fun b _ => hr (g b)) y
    simpa [LRel, mA] using this
  cases pa with
  | false =>
    simp only [Bool.false_eq_true, if_false]
    refine LRel.of_eq ?_
    rw [NEq.eq (hred false _) y, hb y]
  | true =>
    simp only [if_true, LRel]
    rw [NEq.eq (hred false _) y]
    simp only [toPat]
    rw [m_atomic, head?_take_one, ← hb y]
    exact (hred true _ y).head

theorem aEq_factorTextGo (e : Env) (red : Bool → RNode → RNode) (hred : RedSound e false red) (pa : Bool) :
    ∀ (fuel : Nat) (cs : List RNode), AEq pa e false (factorTextGo red pa fuel cs) cs := by
  intro fuel
  induction fuel with
  | zero => intro cs; simp only [factorTextGo]; exact AEq.refl _ _ _ _
  | succ fuel ih =>
    intro cs
    match cs with
    | [] => simp only [factorTextGo]; exact AEq.refl _ _ _ _
    | [x] => simp only [factorTextGo]; exact AEq.refl _ _ _ _
    | x :: y :: rest =>
      simp only [factorTextGo]
      cases hx : startOf x with
      | none => exact AEq.refl _ _ _ _
      | some os =>
        obtain ⟨so, span⟩ := os
        simp only
        by_cases hk : (shared so span (y :: rest)).1 = 0
        · simp only [hk, if_true]
          exact AEq.cons x (ih (y :: rest))
        · simp only [hk, if_false]
          have hsp := shared_spec so (y :: rest) span
          have hsplit : x :: y :: rest =
              (x :: (y :: rest).take (shared so span (y :: rest)).1) ++ (y :: rest).drop (shared so span (y :: rest)).1 := by
            simp [List.take_append_drop]
          conv => rhs; rw [hsplit]
          refine AEq.append (a := [_]) ?_ (ih _)
          have hpre : toPat false (strNode so (shared so span (y :: rest)).2) = strPat (shared so span (y :: rest)).2 :=
            toPat_strNode false so _
          refine factor_step e red hred pa (strNode so (shared so span (y :: rest)).2)
            (by rw [hpre]; exact atMostOne_strPat e false _) _ (stripPrefix (shared so span (y :: rest)).2.length)
            (fun n => red false (red false n)) (fun n => (hred false _).trans (hred false _)) ?_ so so
          intro b hb st
          rw [hpre]
          simp only [List.mem_cons] at hb
          rcases hb with rfl | hb
          · obtain ⟨suf, hsuf⟩ := hsp.1
            exact stripPrefix_sound e b so _ suf (by rw [hsuf]; exact hx) st
          · obtain ⟨s, hs, ⟨suf, hsuf⟩⟩ := hsp.2 b hb
            exact stripPrefix_sound e b so _ suf (by rw [hsuf]; exact hs) st

theorem m_factorText (e : Env) (red : Bool → RNode → RNode) (hred : RedSound e false red) (pa : Bool) (o : Nat)
    (cs : List RNode) : NEq pa e false (factorText red pa o cs) (.alt o cs) := by
  intro st
  unfold factorText
  have h := aEq_factorTextGo e red hred pa cs.length cs st
  rw [m_alt]
  split
  · rename_i c hc
    rw [hc, mA_single] at h; exact h
  · rw [m_alt]; exact h

/-- a fixed repeater `x{n}` has the same successes in the three kinds -/
theorem repeater_kind_irrelevant (e : Env) (p : CP) (n : Nat) (k k' : LK) (st : St) :
    m e (cloopPat k p n (some n)) false st = m e (cloopPat k' p n (some n)) false st := by
  have hg : ∀ k, m e (cloopPat k p n (some n)) false st = m e (.quant false n (some n) (.chr p.pred)) false st := by
    intro k
    cases k with
    | greedy => rfl
    | lzy => exact AutoAtomic.repeater_lazy_eq_greedy e p.pred n st
    | atomic =>
      simp only [cloopPat]
      rw [m_atomic]
      exact take_one_of_length_le _ (atMostOne_quant_fixed false n (atMostOne_chr e false _) st)
  rw [hg k, hg k']

/-- what `samePrefix` accepts has the same successes (left-to-right): the same node, or — `fk` — the same
    fixed repeater in another kind -/
theorem samePrefix_m (e : Env) {fk : Bool} {a b : RNode} (h : samePrefix fk a b = true) (st : St) :
    m e (toPat false b) false st = m e (toPat false a) false st := by
  cases a <;> cases b <;> simp [samePrefix] at h
  case chr.chr o p o' p' => obtain ⟨rfl, rfl⟩ := h; rfl
  case cloop.cloop o k p lo hi o' k' p' lo' hi' =>
    obtain ⟨⟨⟨⟨rfl, hk⟩, rfl⟩, rfl⟩, rfl⟩ := h
    rcases hk with rfl | ⟨_, rfl⟩
    · rfl
    · exact repeater_kind_irrelevant e p lo k' k st

theorem countSame_spec (fk : Bool) (req : RNode) : ∀ (rest : List RNode),
    ∀ b ∈ rest.take (countSame fk req rest), ∃ c, firstOf b = some c ∧ samePrefix fk req c = true
  | [] => by simp [countSame]
  | b :: bs => by
    simp only [countSame]
    cases hb : firstOf b with
    | none => simp
    | some c =>
      simp only
      by_cases hs : samePrefix fk req c = true
      · simp only [hs, if_true, List.take_succ_cons, List.mem_cons]
        intro x hx
        rcases hx with rfl | hx
        · exact ⟨c, hb, hs⟩
        · exact countSame_spec fk req bs x hx
      · simp [hs]

theorem firstOf_sound (e : Env) {b req : RNode} (h : firstOf b = some req) (st : St) :
    m e (toPat false b) false st = m e (.seq (toPat false req) (toPat false (dropFirst b))) false st := by
  cases b <;> simp [firstOf] at h
  case cat o cs =>
    match cs, h with
    | c :: d :: ds, h =>
      simp only [firstOf, Option.some.injEq] at h
      subst h
      simp [toPat, toPats, dir, seqOf, dropFirst]

theorem atMostOne_fixedPrefix (e : Env) {req : RNode} (h : fixedPrefix req = true) : AtMostOne e false (toPat false req) := by
  cases req <;> simp [fixedPrefix] at h
  case chr o p => exact atMostOne_chr e false _
  case cloop o k p lo hi =>
    subst h
    cases k
    · exact atMostOne_quant_fixed false lo (atMostOne_chr e false _)
    · exact atMostOne_quant_fixed true lo (atMostOne_chr e false _)
    · exact atMostOne_atomic e false _

theorem aEq_factorSetGo (e : Env) (red : Bool → RNode → RNode) (hred : RedSound e false red) (fk pa : Bool) (o : Nat) :
    ∀ (fuel : Nat) (cs : List RNode), AEq pa e false (factorSetGo red fk pa o fuel cs) cs := by
  intro fuel
  induction fuel with
  | zero => intro cs; simp only [factorSetGo]; exact AEq.refl _ _ _ _
  | succ fuel ih =>
    intro cs
    match cs with
    | [] => simp only [factorSetGo]; exact AEq.refl _ _ _ _
    | [x] => simp only [factorSetGo]; exact AEq.refl _ _ _ _
    | x :: y :: rest =>
      simp only [factorSetGo]
      cases hx : firstOf x with
      | none => exact AEq.cons x (ih (y :: rest))
      | some req =>
        simp only
        by_cases hf : fixedPrefix req = true
        · simp only [hf, Bool.not_true, Bool.false_eq_true, if_false]
          by_cases hk : countSame fk req (y :: rest) = 0
          · simp only [hk, if_true]; exact AEq.cons x (ih (y :: rest))
          · simp only [hk, if_false]
            have hsplit : x :: y :: rest =
                (x :: (y :: rest).take (countSame fk req (y :: rest))) ++ (y :: rest).drop (countSame fk req (y :: rest)) := by
              simp [List.take_append_drop]
            conv => rhs; rw [hsplit]
            refine AEq.append (a := [_]) ?_ (ih _)
            refine factor_step e red hred pa req (atMostOne_fixedPrefix e hf) _ dropFirst (fun n => red false n)
              (fun n => hred false n) ?_ o o
            intro b hb st
            simp only [List.mem_cons] at hb
            rcases hb with rfl | hb
            · exact firstOf_sound e hx st
            · obtain ⟨c, hc, hsame⟩ := countSame_spec fk req (y :: rest) b hb
              rw [firstOf_sound e hc st, m_seq_ltr, m_seq_ltr, samePrefix_m e hsame st]
        · have : fixedPrefix req = false := by simpa using hf
          simp only [this, Bool.not_false, if_true]
          exact AEq.cons x (ih (y :: rest))

theorem m_factorSet (e : Env) (red : Bool → RNode → RNode) (hred : RedSound e false red) (pa : Bool) (o : Nat)
    (cs : List RNode) (fk : Bool := false) : NEq pa e false (factorSet red fk pa o cs) (.alt o cs) := by
  intro st
  unfold factorSet
  split
  · rw [m_mkAlt, m_alt]; exact aEq_factorSetGo e red hred fk pa o cs.length cs st
  · exact LRel.refl _ _

/-! ## merging One/Set branches (`reduceSingleLetterAndNestedAlternations`), proved variant: disjoint
category-free classes -/

/-- every rune of the input is a Unicode code point (`≤ unicode.MaxRune`; `canonicalize` drops what
    lies beyond) -/
def TextOK (e : Env) : Prop := ∀ r ∈ e.text, r ≤ Class.maxRune

theorem spec_inRanges_eq (rs : List (Nat × Nat)) (r : Nat) : Spec.inRanges rs r = Class.inRanges rs r := by
  simp [Spec.inRanges, Class.inRanges, Class.inRange]

theorem cls_mem_ranges (e : Env) (neg : Bool) (rs : List (Nat × Nat)) (r : Nat) :
    Cls.mem e false (.base neg rs []) r = (Class.Flat.memAlg (fun _ _ => false) { ranges := rs, cats := [], neg := neg } r) := by
  simp [Cls.mem, Class.Flat.memAlg, Class.Flat.pos, spec_inRanges_eq, Spec.inNames]

theorem norm1_cats (hs : Bool) (f : Class.Flat) : (Class.norm1 hs f).cats = f.cats := by
  unfold Class.norm1
  repeat' split
  all_goals rfl

theorem norm2_cats_nil (hs : Bool) (f : Class.Flat) (h : f.cats = []) : (Class.norm2 hs f).cats = [] := by
  unfold Class.norm2
  repeat' split
  all_goals first | exact h | rfl

theorem mergeCls_mem (e : Env) (rs rs' : List (Nat × Nat)) (s' : Cls)
    (h : mergeCls (.base false rs []) (.base false rs' []) = some s') (r : Nat) (hr : r ≤ Class.maxRune) :
    s'.mem e false r = (Spec.inRanges rs r || Spec.inRanges rs' r) := by
  unfold mergeCls at h
  simp only [addCats] at h
  split at h
  · rename_i hemp
    simp only [Bool.and_eq_true, List.isEmpty_iff] at hemp
    obtain ⟨rfl, rfl⟩ := hemp
    simp only [Option.some.injEq] at h
    subst h
    simp [Cls.mem, Spec.inRanges, Spec.inNames]
  · have hcats : (Class.norm2 false (Class.norm1 false
          ({ ranges := Class.mergeRanges (rs ++ rs'), cats := [] } : Class.Flat))).cats = [] :=
      norm2_cats_nil false _ (by rw [norm1_cats])
    · simp only [hcats, List.isEmpty_nil, Bool.not_true, Bool.and_false, Bool.false_and, Bool.false_eq_true, if_false,
        Option.some.injEq] at h
      subst h
      rw [cls_mem_ranges]
      have h2 := Class.norm2_mem (fun _ _ => false) false (Class.norm1 false
          ({ ranges := Class.mergeRanges (rs ++ rs'), cats := [] } : Class.Flat)) r hr
      have h1 := Class.norm1_mem (fun _ _ => false) false
          ({ ranges := Class.mergeRanges (rs ++ rs'), cats := [] } : Class.Flat) r hr
      have hflat : ∀ (f : Class.Flat), f.cats = [] →
          Class.Flat.memAlg (fun _ _ => false) { ranges := f.ranges, cats := [], neg := f.neg } r
            = Class.Flat.memAlg (fun _ _ => false) f r := by
        intro f hf
        simp [Class.Flat.memAlg, Class.Flat.pos, hf]
      rw [hflat _ hcats, h2, h1]
      simp only [Class.Flat.memAlg, Class.Flat.pos, Class.inCats_nil, Bool.or_false]
      rw [Class.mergeRanges_mem _ r hr, spec_inRanges_eq, spec_inRanges_eq]
      simp [Class.inRanges, List.any_append]

theorem stepChar_mem {e : Env} {rtl : Bool} {pos : Nat} {r pos' : Nat} (h : stepChar e rtl pos = some (r, pos')) :
    r ∈ e.text := by
  unfold stepChar at h
  split at h
  · split at h
    · cases h
    · simp only [Option.map_eq_some_iff, Prod.mk.injEq] at h
      obtain ⟨a, ha, rfl, _⟩ := h
      exact List.mem_of_getElem? ha
  · simp only [Option.map_eq_some_iff, Prod.mk.injEq] at h
    obtain ⟨a, ha, rfl, _⟩ := h
    exact List.mem_of_getElem? ha

/-- a test that is the disjoint union of two tests on the runes of the text -/
theorem m_chr_union (e : Env) (q p1 p2 : Pred)
    (hu : ∀ r ∈ e.text, q.test e r = (p1.test e r || p2.test e r) ∧ ¬ (p1.test e r = true ∧ p2.test e r = true))
    (rtl : Bool) (st : St) :
    m e (.chr q) rtl st = m e (.chr p1) rtl st ++ m e (.chr p2) rtl st := by
  simp only [m]
  cases hs : stepChar e rtl st.pos with
  | none => simp
  | some x =>
    obtain ⟨r, pos'⟩ := x
    obtain ⟨h1, h2⟩ := hu r (stepChar_mem hs)
    simp only [h1]
    cases ha : p1.test e r <;> cases hb : p2.test e r <;> simp_all

theorem letterCls_test (e : Env) {p : CP} {s : Cls} (h : letterCls p = some s) (r : Nat) :
    p.pred.test e r = s.mem e false r := by
  cases p <;> simp [letterCls] at h
  case one c =>
    subst h
    simp only [CP.pred, Pred.test, Bool.false_eq_true, if_false, Cls.mem, Spec.inRanges, Spec.inNames, List.any_cons, List.any_nil,
      Bool.or_false, Bool.false_and, bne_iff_ne, ne_eq]
    by_cases hcr : c = r
    · subst hcr; simp
    · have h1 : (c == r) = false := by simpa using hcr
      rw [h1]
      by_cases h2 : c ≤ r
      · have : ¬ r ≤ c := by omega
        simp [h2, this]
      · simp [h2]
  case set s0 => subst h; rfl

theorem clsDisjoint_spec {s0 s1 : Cls} (h : clsDisjoint s0 s1 = true) :
    ∃ rs rs', s0 = .base false rs [] ∧ s1 = .base false rs' [] ∧
      ∀ r, ¬ (Spec.inRanges rs r = true ∧ Spec.inRanges rs' r = true) := by
  unfold clsDisjoint at h
  split at h
  · rename_i rs rs'
    refine ⟨rs, rs', rfl, rfl, ?_⟩
    intro r ⟨h1, h2⟩
    simp only [Spec.inRanges, List.any_eq_true, Bool.and_eq_true, decide_eq_true_eq] at h1 h2
    obtain ⟨a, ha, ha1, ha2⟩ := h1
    obtain ⟨b, hb, hb1, hb2⟩ := h2
    simp only [List.all_eq_true, Bool.or_eq_true, decide_eq_true_eq] at h
    have := h a ha b hb
    omega
  · cases h

/-- **merging two letter branches with disjoint, category-free classes keeps the successes** -/
theorem merge_letters_sound (e : Env) (ht : TextOK e) (h : Bool) (rtl : Bool) (po' po o : Nat) (p1 p2 : CP) (s0 s1 s' : Cls)
    (h0 : letterCls p1 = some s0) (h1 : letterCls p2 = some s1) (hd : clsDisjoint s0 s1 = true)
    (hm : mergeCls s0 s1 = some s') :
    AEq h e rtl [.chr po' (.set s')] [.chr po p1, .chr o p2] := by
  obtain ⟨rs, rs', rfl, rfl, hdis⟩ := clsDisjoint_spec hd
  intro st
  refine LRel.of_eq ?_
  rw [mA_single, mA_cons, mA_single]
  simp only [toPat]
  apply m_chr_union
  intro r hr
  have hmem := mergeCls_mem e rs rs' s' hm r (ht r hr)
  rw [letterCls_test e h0, letterCls_test e h1]
  have e0 : Cls.mem e false (.base false rs []) r = Spec.inRanges rs r := by simp [Cls.mem, Spec.inNames]
  have e1 : Cls.mem e false (.base false rs' []) r = Spec.inRanges rs' r := by simp [Cls.mem, Spec.inNames]
  refine ⟨?_, ?_⟩
  · simp only [CP.pred, Pred.test]; rw [hmem, e0, e1]
  · rw [e0, e1]; exact hdis r

theorem merge_bind_spec {pp : CP} {S s : Cls}
    (hb : ((letterCls pp).bind (fun s0 => if false || clsDisjoint s0 S then mergeCls s0 S else none)) = some s) :
    ∃ s0, letterCls pp = some s0 ∧ clsDisjoint s0 S = true ∧ mergeCls s0 S = some s := by
  cases hl : letterCls pp with
  | none => simp [hl] at hb
  | some s0 =>
    simp only [hl, Option.bind_some, Bool.false_or] at hb
    by_cases hd : clsDisjoint s0 S = true
    · simp only [hd, if_true] at hb
      exact ⟨s0, rfl, hd, hb⟩
    · simp [hd] at hb

theorem aEq_mergeGo (e : Env) (ht : TextOK e) (h rtl : Bool) : ∀ (rest out : List RNode) (w c : Bool),
    AEq h e rtl (mergeGo false out w c rest) (out ++ rest)
  | [], out, w, c => by simp [mergeGo]; exact AEq.refl _ _ _ _
  | nd :: rest, out, w, c => by
    have hkeep : ∀ w' c', AEq h e rtl (mergeGo false (out ++ [nd]) w' c' rest) (out ++ nd :: rest) := fun w' c' => by
      have := aEq_mergeGo e ht h rtl rest (out ++ [nd]) w' c'
      simpa [List.append_assoc] using this
    have hmerge : ∀ (po o : Nat) (pp p2 : CP) (S s : Cls) (c' : Bool), nd = .chr o p2 → letterCls p2 = some S →
        out.getLast? = some (.chr po pp) →
        ((letterCls pp).bind (fun s0 => if false || clsDisjoint s0 S then mergeCls s0 S else none)) = some s →
        AEq h e rtl (mergeGo false (out.dropLast ++ [.chr (mergedOpts po pp) (.set s)]) true c' rest) (out ++ nd :: rest) := by
      intro po o pp p2 S s c' hnd hS hl hb
      obtain ⟨s0, h0, hd, hm⟩ := merge_bind_spec hb
      have hout : out.dropLast ++ [.chr po pp] = out := dropLast_append_of_getLast? hl
      refine (aEq_mergeGo e ht h rtl rest _ true c').trans ?_
      rw [List.append_assoc]
      conv => rhs; rw [← hout, List.append_assoc]
      refine AEq.append (AEq.refl _ _ _ _) ?_
      subst hnd
      exact AEq.append (a' := [.chr po pp, .chr o p2]) (merge_letters_sound e ht h rtl (mergedOpts po pp) po o pp p2 s0 S s h0 hS hd hm)
        (AEq.refl _ _ _ _)
    simp only [mergeGo]
    split
    · -- Nothing
      exact (aEq_mergeGo e ht h rtl rest out w c).trans
        (AEq.append (AEq.refl _ _ _ _) (AEq.append (a := []) (a' := [.nothing]) (aEq_nothing h e rtl).symm (AEq.refl _ _ _ _)))
    · -- One
      rename_i o ch
      split
      · exact hkeep _ _
      · split
        · rename_i _ _ po pp hl
          split
          · rename_i s hb
            exact hmerge po o pp (.one ch) _ s _ rfl rfl hl hb
          · exact hkeep _ _
        · exact hkeep _ _
    · -- Set
      rename_i o s1
      split
      · exact hkeep _ _
      · split
        · rename_i _ _ po pp hl
          split
          · rename_i s hb
            exact hmerge po o pp (.set s1) _ s _ rfl rfl hl hb
          · exact hkeep _ _
        · exact hkeep _ _
    · exact hkeep _ _

theorem aEq_mergeLetters (e : Env) (ht : TextOK e) (h rtl : Bool) (cs : List RNode) :
    AEq h e rtl (mergeLetters false cs) cs := by
  unfold mergeLetters
  have := aEq_mergeGo e ht h rtl (flatAlts cs) [] false false
  exact (by simpa using this : AEq h e rtl _ (flatAlts cs)).trans (aEq_flatAlts h e rtl cs)

/-! ## `reduceAlternation` -/

theorem nEq_mkAlt_mergeLetters (e : Env) (ht : TextOK e) (h rtl : Bool) (o : Nat) (cs : List RNode) :
    NEq h e rtl (mkAlt o (mergeLetters false cs)) (.alt o cs) := by
  intro st
  rw [m_mkAlt, m_alt]
  exact aEq_mergeLetters e ht h rtl cs st

theorem nEq_removeEmpties (e : Env) (h rtl : Bool) (o : Nat) (cs : List RNode) :
    NEq h e rtl (removeEmpties false o cs) (.alt o cs) := by
  intro st
  unfold removeEmpties
  rw [m_mkAlt, m_alt]
  exact aEq_removeEmptiesGo h e rtl cs false st

theorem reduceAltFrom_sound (e : Env) (red : Bool → RNode → RNode) (fk on pa rtl : Bool)
    (hred : rtl = false → RedSound e false red) (n1 : RNode) :
    NEq pa e rtl (reduceAltFrom red false fk on pa rtl n1) n1 := by
  unfold reduceAltFrom
  split
  · rename_i o1 cs1
    have h2 : NEq pa e rtl (if (on && !rtl) = true then factorText red pa o1 cs1 else .alt o1 cs1) (.alt o1 cs1) := by
      split
      · rename_i hc
        simp only [Bool.and_eq_true, Bool.not_eq_true'] at hc
        obtain ⟨_, rfl⟩ := hc
        exact m_factorText e red (hred rfl) pa o1 cs1
      · exact NEq.refl _ _ _ _
    split
    · rename_i o2 cs2 heq2
      rw [heq2] at h2
      refine NEq.trans ?_ h2
      have h3 : NEq pa e rtl (if (on && !rtl) = true then factorSet red fk pa o2 cs2 else .alt o2 cs2) (.alt o2 cs2) := by
        split
        · rename_i hc
          simp only [Bool.and_eq_true, Bool.not_eq_true'] at hc
          obtain ⟨_, rfl⟩ := hc
          exact m_factorSet e red (hred rfl) pa o2 cs2 fk
        · exact NEq.refl _ _ _ _
      split
      · rename_i o3 cs3 heq3
        rw [heq3] at h3
        exact NEq.trans (nEq_removeEmpties e pa rtl o3 cs3) h3
      · exact h3
    · exact h2
  · exact NEq.refl _ _ _ _

/-- **`reduceAlternation` (proved variant) keeps the successes** — the first success when the parent is Atomic -/
theorem reduceAlt_sound (e : Env) (ht : TextOK e) (red : Bool → RNode → RNode) (fk on pa rtl : Bool)
    (hred : rtl = false → RedSound e false red) (o : Nat) (cs : List RNode) :
    NEq pa e rtl (reduceAlt red false fk on pa rtl o cs) (.alt o cs) := by
  unfold reduceAlt
  match cs with
  | [] => intro st; simp [toPat, altOf, toPats]; exact LRel.refl _ _
  | [c] => intro st; simp [toPat, altOf, toPats]; exact LRel.refl _ _
  | a :: b :: rest =>
    simp only
    exact (reduceAltFrom_sound e red fk on pa rtl hred _).trans (nEq_mkAlt_mergeLetters e ht pa rtl o (a :: b :: rest))

/-! ## the alternation block of `reduceAtomic` -/

theorem aEq_trimGo (e : Env) (rtl : Bool) : ∀ (l : List RNode), AEq true e rtl (trimAfterEmpty.go l) l
  | [] => by simp [trimAfterEmpty.go]; exact AEq.refl _ _ _ _
  | [x] => by simp [trimAfterEmpty.go]; exact AEq.refl _ _ _ _
  | x :: y :: rest => by
    simp only [trimAfterEmpty.go]
    split
    · rename_i hx
      have : x = .empty := by cases x <;> simp_all [isEmpty]
      subst this
      intro st
      simp only [LRel, if_true]
      rw [mA_single, mA_cons]
      simp [toPat, m]
    · exact AEq.cons x (aEq_trimGo e rtl (y :: rest))

theorem aEq_trimAfterEmpty (e : Env) (rtl : Bool) (bs : List RNode) : AEq true e rtl (trimAfterEmpty bs) bs := by
  cases bs with
  | nil => exact AEq.refl _ _ _ _
  | cons b bs => exact AEq.cons b (aEq_trimGo e rtl bs)

/-- a branch that starts with the rune `c` fails unless the next rune is `c` -/
theorem firstChar_fails (e : Env) {b : RNode} {c : Nat} (h : firstChar b = some c) (st : St)
    (hne : e.text[st.pos]? ≠ some c) : m e (toPat false b) false st = [] := by
  unfold firstChar at h
  cases hs : startOf b with
  | none => simp [hs] at h
  | some os =>
    obtain ⟨o, s⟩ := os
    simp only [hs, Option.bind_some] at h
    cases s with
    | nil => simp at h
    | cons c' t =>
      simp only [List.head?_cons, Option.some.injEq] at h
      subst h
      rw [stripPrefix_sound e b o [c'] t (by simpa using hs) st, m_seq_ltr]
      have : m e (strPat [c']) false st = [] := by
        simp only [strPat, List.map_cons, List.map_nil, seqOf, lit]
        rw [m_chr_ltr]
        have : acc e (.one c' false) st.pos = false := by
          unfold acc
          cases hx : e.text[st.pos]? with
          | none => rfl
          | some r =>
            have : r ≠ c' := by intro hr; apply hne; rw [hx, hr]
            simp [Pred.test]; exact fun h => this h.symm
        simp [this]
      rw [this]; rfl

theorem mA_filter_first (e : Env) (st : St) : ∀ (l : List RNode), (∀ b ∈ l, (firstChar b).isSome = true) →
    mA e false l st = mA e false (l.filter (fun b => firstChar b == e.text[st.pos]?)) st
  | [], _ => rfl
  | b :: l, hall => by
    have ih := mA_filter_first e st l (fun x hx => hall x (by simp [hx]))
    rw [mA_cons, List.filter_cons]
    split
    · rw [mA_cons, ih]
    · rename_i hb
      have hsome := hall b (by simp)
      cases hc : firstChar b with
      | none => simp [hc] at hsome
      | some c =>
        have : e.text[st.pos]? ≠ some c := by
          intro h; apply hb; rw [hc, h]; simp
        rw [firstChar_fails e hc st this, List.nil_append, ih]

theorem filter_filter_eq {α : Type} (l : List α) (p q : α → Bool) : (l.filter p).filter q = l.filter (fun x => p x && q x) := by
  rw [List.filter_filter]; congr 1; funext x; exact Bool.and_comm _ _

theorem groupByFirst_spec : ∀ (fuel : Nat) (l : List RNode), l.length ≤ fuel →
    (∀ k : Option Nat, (groupByFirst fuel l).1.filter (fun b => firstChar b == k) = l.filter (fun b => firstChar b == k)) ∧
    (∀ b ∈ (groupByFirst fuel l).1, b ∈ l)
  | 0, l, h => by
    have : l = [] := List.eq_nil_of_length_eq_zero (by omega)
    subst this; simp [groupByFirst]
  | fuel + 1, [], _ => by simp [groupByFirst]
  | fuel + 1, x :: xs, h => by
    simp only [groupByFirst]
    have hlen : (xs.filter (fun b => firstChar b != firstChar x)).length ≤ fuel := by
      have := List.length_filter_le (fun b => firstChar b != firstChar x) xs
      simp only [List.length_cons] at h; omega
    obtain ⟨ih1, ih2⟩ := groupByFirst_spec fuel (xs.filter (fun b => firstChar b != firstChar x)) hlen
    refine ⟨?_, ?_⟩
    · intro k
      simp only [List.filter_cons, List.filter_append, ih1 k, filter_filter_eq]
      by_cases hk : (firstChar x == k) = true
      · have hk' : firstChar x = k := by simpa using hk
        subst hk'
        simp only [beq_self_eq_true, if_true, List.cons.injEq, true_and]
        have h1 : (fun b => (firstChar b == firstChar x) && (firstChar b == firstChar x)) = (fun b => firstChar b == firstChar x) := by
          funext b; simp
        have h2 : xs.filter (fun b => (firstChar b != firstChar x) && (firstChar b == firstChar x)) = [] := by
          rw [List.filter_eq_nil_iff]; intro b _; simp
        rw [h1, h2, List.append_nil]
      · simp only [hk, Bool.false_eq_true, if_false]
        have hne : firstChar x ≠ k := by simpa using hk
        have h1 : xs.filter (fun b => (firstChar b == firstChar x) && (firstChar b == k)) = [] := by
          rw [List.filter_eq_nil_iff]; intro b _
          simp only [Bool.and_eq_true, beq_iff_eq, not_and]
          intro hb hbk; exact hne (hb ▸ hbk)
        have h2 : (fun b => (firstChar b != firstChar x) && (firstChar b == k)) = (fun b => firstChar b == k) := by
          funext b
          by_cases hbk : firstChar b = k
          · subst hbk
            have : (firstChar b != firstChar x) = true := by simpa using fun h => hne h.symm
            simp [this]
          · have : (firstChar b == k) = false := by simpa using hbk
            simp [this]
        rw [h1, h2, List.nil_append]
    · intro b hb
      simp only [List.mem_cons, List.mem_append, List.mem_filter] at hb ⊢
      rcases hb with (rfl | ⟨hb, _⟩) | hb
      · exact Or.inl rfl
      · exact Or.inr hb
      · have := ih2 b hb
        simp only [List.mem_filter] at this
        exact Or.inr this.1

/-- the reordering of a run of branches that all start with a One/Multi keeps the ordered successes
    (not only the first): the branches with a different first rune all fail -/
theorem aEq_groupByFirst (e : Env) (l : List RNode) (hall : ∀ b ∈ l, (firstChar b).isSome = true) :
    AEq false e false (groupByFirst l.length l).1 l := by
  intro st
  simp only [LRel, Bool.false_eq_true, if_false]
  obtain ⟨h1, h2⟩ := groupByFirst_spec l.length l (Nat.le_refl _)
  rw [mA_filter_first e st _ (fun b hb => hall b (h2 b hb)), h1, ← mA_filter_first e st l hall]

theorem mem_takeWhile_pred {α : Type} {p : α → Bool} : ∀ {l : List α} {x : α}, x ∈ l.takeWhile p → p x = true
  | [], _, h => by simp at h
  | a :: l, x, h => by
    simp only [List.takeWhile_cons] at h
    split at h
    · simp only [List.mem_cons] at h
      rcases h with rfl | h
      · assumption
      · exact mem_takeWhile_pred h
    · simp at h

theorem aEq_reorderGo (e : Env) : ∀ (fuel : Nat) (l : List RNode), AEq false e false (reorderGo fuel l).1 l
  | 0, l => by simp [reorderGo]; exact AEq.refl _ _ _ _
  | fuel + 1, [] => by simp [reorderGo]; exact AEq.refl _ _ _ _
  | fuel + 1, x :: xs => by
    simp only [reorderGo]
    split
    · exact AEq.cons x (aEq_reorderGo e fuel xs)
    · rename_i hx
      have hx' : (firstChar x).isSome = true := by
        cases hf : firstChar x with
        | none => simp [hf] at hx
        | some _ => rfl
      have hrun : ∀ b ∈ x :: xs.takeWhile (fun b => (firstChar b).isSome), (firstChar b).isSome = true := by
        intro b hb
        simp only [List.mem_cons] at hb
        rcases hb with rfl | hb
        · exact hx'
        · exact mem_takeWhile_pred (p := fun b => (firstChar b).isSome) hb
      have hg : AEq false e false
          (if 3 ≤ (x :: xs.takeWhile (fun b => (firstChar b).isSome)).length then
              groupByFirst (x :: xs.takeWhile (fun b => (firstChar b).isSome)).length (x :: xs.takeWhile (fun b => (firstChar b).isSome))
            else (x :: xs.takeWhile (fun b => (firstChar b).isSome), false)).1
          (x :: xs.takeWhile (fun b => (firstChar b).isSome)) := by
        split
        · exact aEq_groupByFirst e _ hrun
        · exact AEq.refl _ _ _ _
      have hsplit : x :: xs = (x :: xs.takeWhile (fun b => (firstChar b).isSome)) ++ xs.dropWhile (fun b => (firstChar b).isSome) := by
        simp [List.takeWhile_append_dropWhile]
      split
      · rename_i hrest
        conv => rhs; rw [hsplit, hrest, List.append_nil]
        exact hg
      · rename_i y ys hrest
        conv => rhs; rw [hsplit, hrest]
        exact AEq.append hg (AEq.cons y (aEq_reorderGo e fuel ys))

theorem aEq_reorder (e : Env) (bs : List RNode) : AEq false e false (reorder bs).1 bs := aEq_reorderGo e _ bs

/-! ## `reduceSet`, `makeLoopAtomic`, `reduceAtomic` -/

theorem reduceCP_test (e : Env) (p : CP) (r : Nat) : (reduceCP p).pred.test e r = p.pred.test e r := by
  unfold reduceCP
  split
  · rename_i a b
    split
    · rename_i hab; subst hab
      exact letterCls_test e (p := .one a) rfl r
    · rfl
  · rename_i a b
    split
    · rename_i hab; subst hab
      have := letterCls_test e (p := .one a) rfl r
      simp only [CP.pred, Pred.test, Bool.false_eq_true, if_false] at this ⊢
      rw [this]
      simp [Cls.mem]
    · rfl
  · rfl

theorem m_chr_congr (e : Env) (p q : Pred) (h : ∀ r, p.test e r = q.test e r) (rtl : Bool) (st : St) :
    m e (.chr p) rtl st = m e (.chr q) rtl st := by
  simp only [m, h]

theorem reduceCP_chr (e : Env) (o : Nat) (p : CP) (rtl : Bool) (st : St) :
    m e (toPat rtl (.chr o (reduceCP p))) rtl st = m e (toPat rtl (.chr o p)) rtl st :=
  m_chr_congr e _ _ (reduceCP_test e p) rtl st

theorem reduceCP_cloop (e : Env) (o : Nat) (k : LK) (p : CP) (lo : Nat) (hi : Option Nat) (rtl : Bool) (st : St) :
    m e (toPat rtl (.cloop o k (reduceCP p) lo hi)) rtl st = m e (toPat rtl (.cloop o k p lo hi)) rtl st := by
  have hc : ∀ st, m e (.chr (reduceCP p).pred) rtl st = m e (.chr p.pred) rtl st :=
    fun st => m_chr_congr e _ _ (reduceCP_test e p) rtl st
  cases k <;> simp only [toPat, cloopPat]
  · exact quant_congr_dir false lo hi hc st
  · exact quant_congr_dir true lo hi hc st
  · exact atomic_congr_dir (fun st => quant_congr_dir false lo hi hc st) st

theorem strPat_replicate (c : Nat) : ∀ (n : Nat), strPat (List.replicate n c) = AutoAtomic.repPat (.one c false) n
  | 0 => by simp [strPat, seqOf, AutoAtomic.repPat]
  | 1 => by simp [strPat, seqOf, AutoAtomic.repPat, lit]
  | n + 2 => by
    have ih := strPat_replicate c (n + 1)
    simp only [strPat, List.replicate_succ, List.map_cons, seqOf, AutoAtomic.repPat, lit] at ih ⊢
    rw [ih]

/-- `makeLoopAtomic` on the single-character loop under an Atomic node (left-to-right) -/
theorem makeLoopAtomic_sound (e : Env) (o : Nat) (k : LK) (p : CP) (lo : Nat) (hi : Option Nat)
    (hh : k = .lzy → AutoAtomic.hiAtLeast hi lo = true) (st : St) :
    m e (toPat false (makeLoopAtomic (.cloop o k p lo hi))) false st = m e (.atomic (cloopPat k p lo hi)) false st := by
  cases k with
  | greedy => simp only [makeLoopAtomic, toPat, cloopPat]
  | atomic =>
    simp only [makeLoopAtomic, toPat, cloopPat]
    rw [m_atomic, m_atomic, m_atomic, List.take_take]; simp
  | lzy =>
    have hh := hh rfl
    simp only [makeLoopAtomic]
    -- the atomic lazy loop is the repeater of its minimum
    have hrep : m e (.atomic (cloopPat .lzy p lo hi)) false st
        = m e (.atomic (.quant false lo (some lo) (.chr p.pred))) false st := by
      simp only [cloopPat]
      rw [atomic_eq_of_headEq (headEq_lazy_min e false lo hi _ (AutoAtomic.canGo_of_hiAtLeast hh)) st, m_atomic, m_atomic,
        AutoAtomic.repeater_lazy_eq_greedy]
    have hone : m e (.atomic (.quant false lo (some lo) (.chr p.pred))) false st
        = m e (.quant false lo (some lo) (.chr p.pred)) false st := by
      rw [m_atomic]
      exact take_one_of_length_le _ (atMostOne_quant_fixed false lo (atMostOne_chr e false _) st)
    rw [hrep]
    by_cases h0 : lo = 0
    · subst h0
      simp only [if_true, toPat]
      rw [hone, AutoAtomic.repeater_successes]
      simp [m]
    · simp only [h0, if_false]
      cases p with
      | one c =>
        simp only
        split
        · simp only [toPat]
          rw [strPat_replicate, hone]
          exact AutoAtomic.repPat_eq_repeater e _ lo st
        · simp only [toPat, cloopPat]
      | notone c => simp only [toPat, cloopPat]
      | set s => simp only [toPat, cloopPat]

theorem atomic_idem' (e : Env) (p : Pat) (rtl : Bool) (st : St) : m e (.atomic (.atomic p)) rtl st = m e (.atomic p) rtl st := by
  rw [m_atomic, m_atomic, List.take_take]; simp

theorem atomic_mA_head (e : Env) (rtl : Bool) {cs cs' : List RNode} (h : AEq true e rtl cs cs') (o o' : Nat) (st : St) :
    m e (toPat rtl (.atomic (.alt o cs))) rtl st = m e (toPat rtl (.atomic (.alt o' cs'))) rtl st := by
  simp only [toPat]
  rw [m_atomic, m_atomic]
  apply take_one_congr
  have := h st
  simp only [LRel, if_true] at this
  rw [m_altOf', m_altOf']
  exact this

/-- **`reduceAtomic` (proved variant) keeps the successes**: nested Atomic nodes, Empty / Nothing,
    `makeLoopAtomic`, and for an alternation child: Empty first ⇒ Empty, the branches after an Empty
    branch dropped, the branches that start with a One/Multi grouped by their first rune. -/
theorem reduceAtomic_sound (e : Env) (red : Bool → RNode → RNode) (on rtl : Bool)
    (hred : rtl = false → RedSound e false red) :
    ∀ (b : RNode) (st : St), m e (toPat rtl (reduceAtomic red false on rtl (.atomic b))) rtl st = m e (toPat rtl (.atomic b)) rtl st
  | .atomic b, st => by
    rw [reduceAtomic, reduceAtomic_sound e red on rtl hred b st]
    simp only [toPat]
    rw [atomic_idem']
  | .empty, st => by simp [reduceAtomic, toPat, m]
  | .nothing, st => by simp [reduceAtomic, toPat, m]
  | .cloop o k p lo hi, st => by
    simp only [reduceAtomic]
    split
    · rfl
    · rename_i hc
      simp only [Bool.not_false, Bool.true_and, Bool.or_eq_true, Bool.and_eq_true, decide_eq_true_eq, Bool.not_eq_true',
        not_or, not_and] at hc
      cases rtl with
      | false =>
        have := makeLoopAtomic_sound e o k p lo hi (fun hk => by
          have := hc.2 hk
          simpa using this) st
        simpa [toPat] using this
      | true =>
        have hk : k ≠ .lzy := fun hk => by simp [hk] at hc
        cases k with
        | greedy => simp only [makeLoopAtomic, toPat, cloopPat]
        | atomic => simp only [makeLoopAtomic, toPat, cloopPat]; rw [atomic_idem']
        | lzy => exact absurd rfl hk
  | .alt o bs, st => by
    simp only [reduceAtomic]
    split
    · rfl
    · rename_i hc
      simp only [Bool.or_eq_true, Bool.not_eq_true', not_or] at hc
      have hrtl : rtl = false := by simpa using hc.2
      subst hrtl
      cases bs with
      | nil => rfl
      | cons b0 rest =>
        simp only
        split
        · rename_i hb0
          have : b0 = .empty := by cases b0 <;> simp_all [isEmpty]
          subst this
          simp only [toPat, toPats]
          rw [m_atomic, m_altOf']
          simp [ma, m]
        · have hto : AEq true e false (reorder (trimAfterEmpty (b0 :: rest))).1 (b0 :: rest) :=
            (AEq.of_eq (aEq_reorder e _)).trans (aEq_trimAfterEmpty e false _)
          split
          · -- reordered: the alternation is reduced again (its parent is the Atomic node)
            have hr := hred rfl true (.alt o (reorder (trimAfterEmpty (b0 :: rest))).1)
            have h2 : m e (toPat false (.atomic (red true (.alt o (reorder (trimAfterEmpty (b0 :: rest))).1)))) false st
                = m e (toPat false (.atomic (.alt o (reorder (trimAfterEmpty (b0 :: rest))).1))) false st := by
              simp only [toPat]
              exact atomic_eq_of_headEq (NEq.headEq hr) st
            rw [h2]
            exact atomic_mA_head e false hto o o st
          · exact atomic_mA_head e false hto o o st
  | .chr .., st | .multi .., st | .bump, st | .anchor .., st | .ref .., st | .cat .., st | .loop .., st | .cap .., st
  | .look .., st | .refCond .., st | .exprCond .., st => by simp only [reduceAtomic]

/-! ## `reduce()` -/

/-- **one `reduce()` (proved variant) keeps the successes of the node** — its first success when the
    parent is an Atomic node -/
theorem reduceNode_sound (e : Env) (ht : TextOK e) (fk on rtl : Bool) :
    ∀ (fuel : Nat) (pa : Bool) (n : RNode), NEq pa e rtl (reduceNode false fk on rtl fuel pa n) n := by
  intro fuel
  induction fuel with
  | zero => intro pa n; exact NEq.refl _ _ _ _
  | succ fuel ih =>
    intro pa n
    cases n <;> simp only [reduceNode]
    case alt o cs =>
      exact reduceAlt_sound e ht _ fk on pa rtl (fun h => by subst h; exact fun pa n => ih pa n) o cs
    case cat o cs => exact NEq.of_eq (fun st => LRel.of_eq (reduceCat_sound e rtl o cs st))
    case atomic b =>
      exact NEq.of_eq (fun st => LRel.of_eq
        (reduceAtomic_sound e _ on rtl (fun h => by subst h; exact fun pa n => ih pa n) b st))
    case chr o p => exact NEq.of_eq (fun st => LRel.of_eq (reduceCP_chr e o p rtl st))
    case cloop o k p lo hi => exact NEq.of_eq (fun st => LRel.of_eq (reduceCP_cloop e o k p lo hi rtl st))
    all_goals exact NEq.refl _ _ _ _

theorem redSound_reduceNode (e : Env) (ht : TextOK e) (on : Bool) (fuel : Nat) (fk : Bool := false) :
    RedSound e false (reduceNode false fk on false fuel) := fun pa n => reduceNode_sound e ht fk on false fuel pa n

/-! ## the ending walk: same first success -/

theorem headEq_altOf_map (e : Env) (rtl : Bool) (f : RNode → RNode)
    (hf : ∀ x, HeadEq e rtl (toPat rtl (f x)) (toPat rtl x)) :
    ∀ (bs : List RNode), HeadEq e rtl (altOf (toPats rtl (bs.map f))) (altOf (toPats rtl bs))
  | [] => HeadEq.refl _ _ _
  | b :: bs => by
    intro st
    have ih := headEq_altOf_map e rtl f hf bs st
    rw [m_altOf', m_altOf'] at ih ⊢
    simp only [List.map_cons, toPats, ma_cons]
    exact head?_append_congr (hf b st) ih

theorem headEq_seqOf_last (e : Env) (f : RNode → RNode) (hf : ∀ x, HeadEq e false (toPat false (f x)) (toPat false x)) :
    ∀ (cs : List RNode), HeadEq e false (seqOf (toPats false (lastMap f cs))) (seqOf (toPats false cs))
  | [] => HeadEq.refl _ _ _
  | [x] => by simp only [lastMap, toPats, seqOf]; exact hf x
  | x :: y :: rest => by
    have ih := headEq_seqOf_last e f hf (y :: rest)
    intro st
    have h1 : ∀ (l : List RNode), m e (seqOf (toPats false (x :: l))) false st
        = m e (.seq (toPat false x) (seqOf (toPats false l))) false st := by
      intro l; simp only [toPats]; exact ms_cons e false _ _ st
    rw [lastMap, h1, h1]
    exact headEq_seq_ltr _ ih st

/-- **`eliminateEndingBacktracking` as far as it is modelled (Atomic wrappers around the constructs in
    tail position, alternations there reduced again with an Atomic parent) keeps the first success** -/
theorem endElim_headEq (e : Env) (red : Bool → RNode → RNode) (hred : RedSound e false red) :
    ∀ (fuel : Nat) (rtl pa wrapOK : Bool) (n : RNode),
      HeadEq e rtl (toPat rtl (endElim red fuel rtl pa wrapOK n)) (toPat rtl n) := by
  intro fuel
  induction fuel with
  | zero => intro rtl pa wrapOK n; exact HeadEq.refl _ _ _
  | succ f ih =>
    intro rtl pa wrapOK n
    simp only [endElim]
    cases rtl with
    | true => simp only [if_true]; exact HeadEq.refl _ _ _
    | false =>
      simp only [Bool.false_eq_true, if_false]
      have wrap : ∀ (r x : RNode), HeadEq e false (toPat false r) (toPat false x) →
          HeadEq e false (toPat false (if wrapOK = true then RNode.atomic r else r)) (toPat false x) := by
        intro r x hrx
        cases wrapOK with
        | false => simpa using hrx
        | true =>
          simp only [if_true, toPat]
          exact (headEq_atomic e false (toPat false r)).symm.trans hrx
      cases n
      case alt o bs =>
        simp only
        split
        · -- wrapped in a new Atomic node and reduced again
          refine (ih false false false _).trans ?_
          have h1 : HeadEq e false (toPat false (red false (.atomic (red true (.alt o bs))))) (toPat false (.atomic (red true (.alt o bs)))) :=
            NEq.headEq (hred false _)
          refine h1.trans ?_
          simp only [toPat]
          exact (headEq_atomic e false _).symm.trans (NEq.headEq (hred true (.alt o bs)))
        · simp only [toPat]
          exact headEq_altOf_map e false _ (fun x => ih false false false x) bs
      case atomic b =>
        simp only [toPat]
        exact HeadEq.of_eq (atomic_eq_of_headEq (ih false true false b))
      case look bh ng b =>
        simp only [toPat]
        exact HeadEq.of_eq (fun st => look_eq_of_headEq ng (ih bh false false b) false st)
      case cap g b =>
        simp only [toPat]
        exact headEq_cap g (ih false false (!pa) b)
      case cat o cs =>
        simp only [toPat, dir, Bool.false_eq_true, if_false]
        exact headEq_seqOf_last e _ (fun x => ih false false (!pa) x) cs
      case refCond g y n =>
        simp only
        apply wrap
        simp only [toPat]
        exact headEq_refCond g (ih false false false y) (ih false false false n)
      case exprCond c y n =>
        simp only
        apply wrap
        simp only [toPat]
        exact headEq_exprCond (HeadEq.refl _ _ _) (ih false false false y) (ih false false false n)
      case loop lzy lo hi b =>
        simp only
        apply wrap
        cases lzy with
        | false =>
          simp only [Bool.false_eq_true, if_false]
          by_cases hc : hi = some 1
          · subst hc
            simp only [if_true, toPat]
            exact headEq_quant_hi_one false lo (ih false false false b)
          · simp only [hc, if_false]; exact HeadEq.refl _ _ _
        | true =>
          simp only [if_true]
          by_cases hc : lo = 1 ∧ AutoAtomic.hiAtLeast hi 1 = true
          · obtain ⟨rfl, hh⟩ := hc
            simp only [hh, and_self, if_true, toPat]
            have hcg := AutoAtomic.canGo_of_hiAtLeast hh
            exact (headEq_lazy_min e false 1 hi _ hcg).trans
              ((headEq_quant_hi_one true 1 (ih false false false b)).trans (headEq_lazy_min e false 1 hi _ hcg).symm)
          · simp only [hc, if_false]; exact HeadEq.refl _ _ _
      all_goals exact HeadEq.refl _ _ _

theorem endElim_rtl (red : Bool → RNode → RNode) (fuel : Nat) (pa w : Bool) (n : RNode) :
    endElim red fuel true pa w n = n := by
  cases fuel <;> simp [endElim]

theorem endElim_headEq' (e : Env) (ht : TextOK e) (on : Bool) (fuel f : Nat) (rtl pa w : Bool) (n : RNode) (fk : Bool := false) :
    HeadEq e rtl (toPat rtl (endElim (reduceNode false fk on rtl fuel) f rtl pa w n)) (toPat rtl n) := by
  cases rtl with
  | true => rw [endElim_rtl]; exact HeadEq.refl _ _ _
  | false => exact endElim_headEq e _ (redSound_reduceNode e ht on fuel fk) f false pa w n

/-! ## the bottom-up pass -/

mutual
/-- **`reduceAll` (proved variant) keeps the successes of every node** (the first success of an
    alternation whose parent is an Atomic node) -/
theorem reduceAll_sound (e : Env) (ht : TextOK e) (on dg : Bool) (fuel : Nat) :
    ∀ (n : RNode) (rtl pa : Bool), NEq pa e rtl (reduceAll false on dg fuel rtl pa n) n
  | .alt o cs, rtl, pa => by
    rw [reduceAll]
    split
    · refine (reduceNode_sound e ht false on rtl fuel pa _).trans (NEq.of_eq ?_)
      intro st
      rw [m_alt, m_alt]
      exact (reduceAlls_sound e ht on dg fuel cs rtl).1 st
    · exact reduceAltFrom_sound e _ false on pa rtl (fun h => by subst h; exact redSound_reduceNode e ht on fuel) _
  | .cat o cs, rtl, pa => by
    rw [reduceAll]
    split
    · refine (reduceNode_sound e ht false on rtl fuel pa _).trans (NEq.of_eq ?_)
      intro st
      rw [m_cat, m_cat]
      exact LRel.of_eq ((reduceAlls_sound e ht on dg fuel cs rtl).2 st)
    · exact NEq.refl _ _ _ _
  | .atomic b, rtl, pa => by
    rw [reduceAll]
    have hb : NEq pa e rtl (reduceNode false false on rtl fuel pa (.atomic (reduceAll false on dg fuel rtl dg b))) (.atomic b) := by
      refine (reduceNode_sound e ht false on rtl fuel pa _).trans (NEq.of_eq ?_)
      intro st
      simp only [toPat]
      exact LRel.of_eq (atomic_eq_of_headEq (NEq.headEq (reduceAll_sound e ht on dg fuel b rtl dg)) st)
    split
    · rename_i x hx
      rw [hx] at hb
      split
      · refine NEq.trans (NEq.of_eq ?_) hb
        intro st
        simp only [toPat]
        exact LRel.of_eq (atomic_eq_of_headEq (endElim_headEq' e ht on fuel fuel rtl true false x) st)
      · exact hb
    · exact hb
  | .loop lzy lo hi b, rtl, pa => by
    rw [reduceAll]
    refine NEq.of_eq (fun st => LRel.of_eq ?_)
    simp only [toPat]
    exact quant_congr_dir lzy lo hi (fun st => NEq.eq (reduceAll_sound e ht on dg fuel b rtl false) st) st
  | .cap g b, rtl, pa => by
    rw [reduceAll]
    refine NEq.of_eq (fun st => LRel.of_eq ?_)
    simp only [toPat]
    exact cap_congr_dir g (fun st => NEq.eq (reduceAll_sound e ht on dg fuel b rtl false) st) st
  | .look bh ng b, rtl, pa => by
    rw [reduceAll]
    refine NEq.of_eq (fun st => LRel.of_eq ?_)
    simp only [toPat]
    have h1 : HeadEq e bh (toPat bh (reduceAll false on dg fuel bh false b)) (toPat bh b) :=
      NEq.headEq (reduceAll_sound e ht on dg fuel b bh false)
    split
    · exact look_eq_of_headEq ng ((endElim_headEq' e ht on fuel fuel bh false false _).trans h1) rtl st
    · exact look_eq_of_headEq ng h1 rtl st
  | .refCond g y n, rtl, pa => by
    rw [reduceAll]
    refine NEq.of_eq (fun st => LRel.of_eq ?_)
    simp only [toPat]
    exact refCond_congr_dir g (fun st => NEq.eq (reduceAll_sound e ht on dg fuel y rtl false) st)
      (fun st => NEq.eq (reduceAll_sound e ht on dg fuel n rtl false) st) st
  | .exprCond c y n, rtl, pa => by
    rw [reduceAll]
    refine NEq.of_eq (fun st => LRel.of_eq ?_)
    simp only [toPat]
    have hc : HeadEq e rtl (toPat rtl (reduceAll false on dg fuel rtl false c)) (toPat rtl c) :=
      NEq.headEq (reduceAll_sound e ht on dg fuel c rtl false)
    have hc' : HeadEq e rtl
        (toPat rtl (if on = true then endElim (reduceNode false false on rtl fuel) fuel rtl false false (reduceAll false on dg fuel rtl false c)
          else reduceAll false on dg fuel rtl false c)) (toPat rtl c) := by
      split
      · exact (endElim_headEq' e ht on fuel fuel rtl false false _).trans hc
      · exact hc
    rw [exprCond_eq_of_headEq _ _ hc' st]
    exact exprCond_congr_dir (fun _ => rfl) (fun st => NEq.eq (reduceAll_sound e ht on dg fuel y rtl false) st)
      (fun st => NEq.eq (reduceAll_sound e ht on dg fuel n rtl false) st) st
  | .chr .., _, _ | .cloop .., _, _ | .multi .., _, _ | .empty, _, _ | .nothing, _, _ | .bump, _, _ | .anchor .., _, _
  | .ref .., _, _ => by simp only [reduceAll]; exact NEq.refl _ _ _ _
theorem reduceAlls_sound (e : Env) (ht : TextOK e) (on dg : Bool) (fuel : Nat) :
    ∀ (cs : List RNode) (rtl : Bool),
      AEq false e rtl (reduceAlls false on dg fuel rtl cs) cs ∧ CatEq e rtl (reduceAlls false on dg fuel rtl cs) cs
  | [], rtl => by rw [reduceAlls]; exact ⟨AEq.refl _ _ _ _, CatEq.refl _ _ _⟩
  | x :: xs, rtl => by
    rw [reduceAlls]
    have hx := reduceAll_sound e ht on dg fuel x rtl false
    have ih := reduceAlls_sound e ht on dg fuel xs rtl
    exact ⟨AEq.append (a := [_]) (a' := [x]) (AEq.of_node hx) ih.1,
      CatEq.append (a := [_]) (a' := [x]) (CatEq.of_m (fun st => NEq.eq hx st)) ih.2⟩
end

/-- **the whole model of the gated rewrites keeps the first success of the pattern** (and all
    successes below the ending walk) -/
theorem rewriteTop_headEq (e : Env) (ht : TextOK e) (fk dg : Bool) (fuel : Nat) (rtl : Bool) (n : RNode) :
    HeadEq e rtl (toPat rtl (rewriteTop false fk dg fuel rtl n)) (toPat rtl n) := by
  unfold rewriteTop
  exact (endElim_headEq' e ht true fuel fuel rtl false true _ fk).trans
    (NEq.headEq (reduceAll_sound e ht true dg fuel n rtl false))

/-! ## the bump-along marker -/

theorem catEq_bump (e : Env) (rtl : Bool) : CatEq e rtl [.bump] [] := by
  intro st; rw [mc_single, mc_nil]; simp [toPat, m]

/-- the marker is `Empty` for the specification: placing it changes no success -/
theorem placeBump_sound (e : Env) (rtl : Bool) : ∀ (n : RNode) (ia ab : Bool) (st : St),
    m e (toPat rtl (placeBump ia ab n)) rtl st = m e (toPat rtl n) rtl st
  | .atomic b, ia, ab, st => by
    rw [placeBump]
    simp only [toPat]
    exact atomic_congr_dir (fun st => placeBump_sound e rtl b true ab st) st
  | .cat o [], ia, ab, st => by simp only [placeBump]
  | .cat o (c :: cs), ia, ab, st => by
    rw [placeBump]
    split
    · rw [m_cat, m_cat]
      exact CatEq.cons c (CatEq.append (a := [.bump]) (a' := []) (catEq_bump e rtl) (CatEq.refl e rtl cs)) st
    · rw [m_cat, m_cat]
      exact CatEq.append (a := [_]) (a' := [c]) (CatEq.of_m (fun st => placeBump_sound e rtl c ia false st)) (CatEq.refl e rtl cs) st
  | .chr .., _, _, _ | .cloop .., _, _, _ | .multi .., _, _, _ | .empty, _, _, _ | .nothing, _, _, _ | .bump, _, _, _
  | .anchor .., _, _, _ | .ref .., _, _, _ | .alt .., _, _, _ | .loop .., _, _, _ | .cap .., _, _, _ | .look .., _, _, _
  | .refCond .., _, _, _ | .exprCond .., _, _, _ => by simp only [placeBump]

/-- the loop in front position, as a pattern -/
def bumpLoopPat (k : LK) (p : CP) (lo : Nat) : Pat := .quant (k == .lzy) lo none (.chr p.pred)

theorem front_seqOf_cons {L : Pat} {a : Bool} {F : Pat} (h : Front L a F) : ∀ (l : List Pat), Front L a (seqOf (F :: l))
  | [] => h
  | _ :: _ => Front.seq _ h

/-- **where the marker goes the pattern begins with the loop** (`Front`: first factor of nested
    concatenations, inside Atomic groups only for a greedy / atomic loop) -/
theorem bumpSite_front : ∀ (n : RNode) (ia ab : Bool) (k : LK) (p : CP) (lo : Nat),
    bumpSite ia ab n = some (k, p, lo) →
      Front (bumpLoopPat k p lo) (k != .lzy) (toPat false n) ∧ (k = .lzy → ia = false)
  | .atomic b, ia, ab, k, p, lo, h => by
    simp only [bumpSite] at h
    obtain ⟨h1, h2⟩ := bumpSite_front b true ab k p lo h
    have hk : k ≠ .lzy := fun hk => by have := h2 hk; cases this
    refine ⟨?_, fun hk' => absurd hk' hk⟩
    simp only [toPat]
    exact Front.atomic (by simpa using hk) h1
  | .cat o [], ia, ab, k, p, lo, h => by simp [bumpSite] at h
  | .cat o (c :: cs), ia, ab, k, p, lo, h => by
    simp only [bumpSite] at h
    by_cases hb : bumpLoop ia false c = true
    · simp only [hb, if_true] at h
      cases c
      case cloop o' k' p' lo' hi' =>
        simp only [Option.some.injEq, Prod.mk.injEq] at h
        obtain ⟨rfl, rfl, rfl⟩ := h
        cases hi' with
        | some _ => simp [bumpLoop] at hb
        | none =>
          simp only [bumpLoop, Bool.not_false, Bool.true_and, Bool.or_eq_true, bne_iff_ne, ne_eq, Bool.not_eq_true'] at hb
          simp only [toPat, toPats, dir, Bool.false_eq_true, if_false]
          refine ⟨front_seqOf_cons ?_ _, fun hk => by subst hk; simpa using hb⟩
          cases k'
          · exact Front.here
          · exact Front.here
          · exact Front.atomic rfl Front.here
      all_goals simp at h
    · simp only [hb, Bool.false_eq_true, if_false] at h
      obtain ⟨h1, h2⟩ := bumpSite_front c ia false k p lo h
      simp only [toPat, toPats, dir, Bool.false_eq_true, if_false]
      exact ⟨front_seqOf_cons h1 _, h2⟩
  | .chr .., _, _, _, _, _, h | .cloop .., _, _, _, _, _, h | .multi .., _, _, _, _, _, h | .empty, _, _, _, _, _, h
  | .nothing, _, _, _, _, _, h | .bump, _, _, _, _, _, h | .anchor .., _, _, _, _, _, h | .ref .., _, _, _, _, _, h
  | .alt .., _, _, _, _, _, h | .loop .., _, _, _, _, _, h | .cap .., _, _, _, _, _, h | .look .., _, _, _, _, _, h
  | .refCond .., _, _, _, _, _, h | .exprCond .., _, _, _, _, _, h => by simp [bumpSite] at h

end RegexVerif.RewriteDecisions
