/-
Helper lemmas for the adapter model `RegexVerif.Model.Compat` (C06, method by method).

The offset conversions are the theorems of C08 (`Props/C08.lean`): `byteRange_is_span`,
`stringByteMapper_eq`, `bytesToRunes_offsets_eq`, `readRunes_offsets_eq`, `byteOffsetSpec_strictMono`.
-/
import RegexVerif.Model.Compat
import RegexVerif.Lemmas.Scan
import RegexVerif.Props.C08

namespace RegexVerif.Lemmas.Compat
open RegexVerif RegexVerif.Utf8 RegexVerif.Compat RegexVerif.Lemmas.Utf8
open RegexVerif.Scan (takeK)
open RegexVerif.Lemmas.Scan (takeK_nil takeK_zero takeK_cons CntRel cntRel_deliver cntRel_skip)

/-! ### `Res` -/

@[simp] theorem bind_ok {α β : Type} (a : α) (f : α → Res β) : (Res.ok a).bind f = f a := rfl
@[simp] theorem bind_panic {α β : Type} (f : α → Res β) : (Res.panic : Res α).bind f = Res.panic := rfl
@[simp] theorem map_ok {α β : Type} (a : α) (f : α → β) : (Res.ok a).map f = Res.ok (f a) := rfl
@[simp] theorem map_panic {α β : Type} (f : α → β) : (Res.panic : Res α).map f = Res.panic := rfl

theorem mapM_ok {α β : Type} (f : α → Res β) (g : α → β) (l : List α) (h : ∀ x ∈ l, f x = .ok (g x)) :
    Res.mapM f l = .ok (l.map g) := by
  induction l with
  | nil => rfl
  | cons x xs ih =>
    rw [Res.mapM, h x (by simp), bind_ok, ih (fun y hy => h y (by simp [hy])), map_ok, List.map_cons]

/-! ### offsets -/

theorem off_zero (d : List (Int × Nat)) : off d 0 = 0 := by simp [off, byteOffsetSpec]

theorem off_mono (d : List (Int × Nat)) (i j : Nat) (h : i ≤ j) : off d i ≤ off d j := by
  obtain ⟨k, rfl⟩ : ∃ k, j = i + k := ⟨j - i, by omega⟩
  unfold off byteOffsetSpec
  rw [sum_take_add]; omega

theorem off_length (d : List (Int × Nat)) : off d d.length = byteLen d := by
  unfold off byteOffsetSpec byteLen
  rw [List.take_of_length_le (by simp [widths])]

theorem off_le_byteLen (d : List (Int × Nat)) (i : Nat) : off d i ≤ byteLen d := by
  by_cases h : i ≤ d.length
  · rw [← off_length]; exact off_mono d i _ h
  · unfold off byteOffsetSpec byteLen
    rw [List.take_of_length_le (by simp [widths]; omega)]
    exact Nat.le_refl _

theorem wf_width_pos (d : List (Int × Nat)) (hwf : WF d) : ∀ s ∈ d, 1 ≤ s.2 :=
  fun s hs => (width_pos s (hwf s hs)).1

theorem off_strictMono (d : List (Int × Nat)) (hw : ∀ s ∈ d, 1 ≤ s.2) (i j : Nat) (hij : i < j) (hj : j ≤ d.length) :
    off d i < off d j := by
  unfold off byteOffsetSpec
  apply sum_take_lt _ _ i j hij (by simpa [widths] using hj)
  intro w hw'
  obtain ⟨s, hs, rfl⟩ := List.mem_map.mp hw'
  exact hw s hs

theorem off_inj (d : List (Int × Nat)) (hw : ∀ s ∈ d, 1 ≤ s.2) (i j : Nat) (hi : i ≤ d.length) (hj : j ≤ d.length)
    (h : off d i = off d j) : i = j := by
  rcases Nat.lt_trichotomy i j with hlt | heq | hgt
  · have := off_strictMono d hw i j hlt hj; omega
  · exact heq
  · have := off_strictMono d hw j i hgt hi; omega

theorem off_cons_succ (s : Int × Nat) (rest : List (Int × Nat)) (i : Nat) :
    off (s :: rest) (i + 1) = s.2 + off rest i := by
  simp [off, byteOffsetSpec, widths]

theorem byteLen_cons (s : Int × Nat) (rest : List (Int × Nat)) : byteLen (s :: rest) = s.2 + byteLen rest := by
  simp [byteLen, widths]

/-- the width `step(pos)` reports at a rune boundary, and where `allMatches` goes after an empty
    match there -/
theorem stepWidth_off (d : List (Int × Nat)) (hw : ∀ s ∈ d, 1 ≤ s.2) (i : Nat) (hi : i ≤ d.length) :
    (if Std.stepWidth d (off d i) > 0 then off d i + Std.stepWidth d (off d i) else byteLen d + 1) =
      if i < d.length then off d (i + 1) else byteLen d + 1 := by
  induction d generalizing i with
  | nil => simp [Std.stepWidth]
  | cons s rest ih =>
    have hs : 1 ≤ s.2 := hw s (by simp)
    cases i with
    | zero =>
      simp only [off_zero, Std.stepWidth, if_true, List.length_cons, Nat.zero_lt_succ, Nat.zero_add]
      have : off (s :: rest) 1 = s.2 := by simp [off, byteOffsetSpec, widths]
      rw [this]; simp; omega
    | succ i =>
      have hi' : i ≤ rest.length := by simpa using hi
      have := ih (fun t ht => hw t (by simp [ht])) i hi'
      rw [off_cons_succ]
      have h1 : ¬ (s.2 + off rest i = 0) := by omega
      have h2 : ¬ (s.2 + off rest i < s.2) := by omega
      have h3 : s.2 + off rest i - s.2 = off rest i := by omega
      simp only [Std.stepWidth, h1, h2, h3, if_false, off_cons_succ, byteLen_cons, List.length_cons,
        Nat.add_lt_add_iff_right]
      generalize Std.stepWidth rest (off rest i) = sw at this ⊢
      by_cases hA : sw > 0 <;> by_cases hB : i < rest.length
      all_goals simp only [hA, hB, if_true, if_false] at this ⊢
      all_goals omega

theorem bytesOf_length (segs : List (Int × List Nat)) : (bytesOf segs).length = byteLen (decoded segs) := by
  induction segs with
  | nil => rfl
  | cons s rest ih =>
    simp only [bytesOf, List.flatMap_cons, List.length_append] at ih ⊢
    rw [ih]; simp [decoded, byteLen, widths]

theorem decoded_length (segs : List (Int × List Nat)) : (decoded segs).length = segs.length := by simp [decoded]

theorem bytesOfB_getD (b : Option (List (Int × List Nat))) : (bytesOfB b).getD [] = bytesOf (segsOf b) := by
  cases b <;> rfl

/-! ### slicing -/

theorem sliceStr_eq (s : List Nat) (lo hi : Nat) (h1 : lo ≤ hi) (h2 : hi ≤ s.length) :
    sliceStr s (lo : Int) (hi : Int) = .ok (Std.textS s lo hi) := by
  unfold sliceStr Std.textS
  rw [if_pos ⟨by omega, by omega, by omega⟩]
  simp

theorem sliceBytes_eq (b : Option (List Nat)) (lo hi : Nat) (h1 : lo ≤ hi) (h2 : hi ≤ (b.getD []).length) :
    sliceBytes b (lo : Int) (hi : Int) = .ok (Std.textB b lo hi) := by
  unfold sliceBytes Std.textB
  rw [if_pos ⟨by omega, by omega, by omega⟩]
  simp

theorem bytesOf_append (a b : List (Int × List Nat)) : bytesOf (a ++ b) = bytesOf a ++ bytesOf b := by
  simp [bytesOf]

theorem bytesOf_take_length (segs : List (Int × List Nat)) (i : Nat) :
    (bytesOf (segs.take i)).length = off (decoded segs) i := by
  rw [bytesOf_length]
  simp [byteLen, off, byteOffsetSpec, decoded, widths, List.map_take]

/-- slicing the input between two rune boundaries gives exactly the bytes of the runes in between -/
theorem textS_span (segs : List (Int × List Nat)) (i l : Nat) :
    Std.textS (bytesOf segs) (off (decoded segs) i) (off (decoded segs) (i + l)) = bytesOf ((segs.drop i).take l) := by
  have hA := bytesOf_take_length segs i
  have hB := bytesOf_take_length (segs.drop i) l
  have hsum : off (decoded segs) (i + l) = off (decoded segs) i + off (decoded (segs.drop i)) l := by
    simp only [off, byteOffsetSpec]
    rw [sum_take_add]
    simp [decoded, widths, List.map_drop]
  unfold Std.textS
  have e1 : bytesOf segs = bytesOf (segs.take i) ++ bytesOf (segs.drop i) := by
    rw [← bytesOf_append, List.take_append_drop]
  have e2 : bytesOf (segs.drop i) = bytesOf ((segs.drop i).take l) ++ bytesOf ((segs.drop i).drop l) := by
    rw [← bytesOf_append, List.take_append_drop]
  rw [e1, List.drop_left' hA, e2, hsum, Nat.add_sub_cancel_left, List.take_left' hB]

/-! ### conversions of one capture -/

theorem captureIndex_eq (d : List (Int × Nat)) (hwf : WF d) (c : Nat × Nat) (h : c.1 + c.2 ≤ d.length) :
    captureIndex d c = .ok [(off d c.1 : Int), (off d (c.1 + c.2) : Int)] := by
  unfold captureIndex
  rw [Props.C08.byteRange_is_span d hwf c.1 c.2 h]
  simp only [off, byteOffsetSpec, sum_take_add]

theorem captureString_eq (segs : List (Int × List Nat)) (hwf : WF (decoded segs)) (c : Nat × Nat)
    (h : c.1 + c.2 ≤ segs.length) :
    captureString segs c =
      .ok (Std.textS (bytesOf segs) (off (decoded segs) c.1) (off (decoded segs) (c.1 + c.2))) := by
  unfold captureString
  rw [Props.C08.byteRange_is_span (decoded segs) hwf c.1 c.2 (by rw [decoded_length]; exact h)]
  have hsum : byteOffsetSpec (decoded segs) c.1 + (((widths (decoded segs)).drop c.1).take c.2).sum =
      off (decoded segs) (c.1 + c.2) := by
    unfold off byteOffsetSpec; exact (sum_take_add _ _ _).symm
  simp only [hsum]
  exact sliceStr_eq _ _ _ (off_mono _ _ _ (by omega)) (by rw [bytesOf_length]; exact off_le_byteLen _ _)

theorem runeCaptureIndex_eq (items : List (Int × Nat)) (c : Nat × Nat) (h : c.1 + c.2 ≤ items.length) :
    runeCaptureIndex (readRunes items).2 c = .ok [(off items c.1 : Int), (off items (c.1 + c.2) : Int)] := by
  unfold runeCaptureIndex tableAt
  rw [(Props.C08.readRunes_offsets_eq items c.1 (by omega)).2, (Props.C08.readRunes_offsets_eq items (c.1 + c.2) h).2]
  rfl

/-- the flat index slice of a list of groups given as byte pairs -/
def locOfGroups (gs : List (Option (Nat × Nat))) : List Int :=
  gs.flatMap fun g =>
    match g with
    | none => [-1, -1]
    | some (s, e) => [(s : Int), (e : Int)]

theorem locOf_eq (m : SMatch) : Std.locOf m = locOfGroups (Std.groupsOf m) := by
  simp only [Std.locOf, locOfGroups, Std.groupsOf, List.flatMap_cons]
  show _ = [(m.lo : Int), (m.hi : Int)] ++ _
  simp only [List.cons_append, List.nil_append, List.cons.injEq, true_and]
  congr 1

/-- a rune group list seen in byte offsets -/
def groupsB (d : List (Int × Nat)) (gs : List (Option (Nat × Nat))) : List (Option (Nat × Nat)) :=
  gs.map fun g => g.map fun c => (off d c.1, off d (c.1 + c.2))

theorem groupsOf_toStd (d : List (Int × Nat)) (m : RMatch) : Std.groupsOf (toStd d m) = groupsB d m.groups := by
  simp [Std.groupsOf, toStd, groupsB, RMatch.groups]

theorem groupIndexes_eq (d : List (Int × Nat)) (conv : Nat × Nat → Res (List Int)) (gs : List (Option (Nat × Nat)))
    (h : ∀ g ∈ gs, ∀ c, g = some c → conv c = .ok [(off d c.1 : Int), (off d (c.1 + c.2) : Int)]) :
    groupIndexes conv gs = .ok (locOfGroups (groupsB d gs)) := by
  induction gs with
  | nil => rfl
  | cons g gs ih =>
    have ih' := ih (fun g' hg' => h g' (by simp [hg']))
    cases g with
    | none =>
      rw [groupIndexes, ih']
      simp [locOfGroups, groupsB]
    | some c =>
      rw [groupIndexes, h (some c) (by simp) c rfl, bind_ok]
      simp only [ih', map_ok]
      simp [locOfGroups, groupsB]

theorem valid_groups (n : Nat) (m : RMatch) (hv : m.Valid n) : ∀ g ∈ m.groups, ∀ c, g = some c → c.1 + c.2 ≤ n := by
  intro g hg c hc
  simp only [RMatch.groups, List.mem_cons] at hg
  rcases hg with rfl | hg
  · cases hc; exact hv.1
  · exact hv.2 g hg c hc

theorem matchIndexes_eq (d : List (Int × Nat)) (hwf : WF d) (m : RMatch) (hv : m.Valid d.length) :
    matchIndexes d m = .ok (Std.locOf (toStd d m)) := by
  unfold matchIndexes
  rw [locOf_eq, groupsOf_toStd]
  exact groupIndexes_eq d _ _ (fun g hg c hc => captureIndex_eq d hwf c (valid_groups _ m hv g hg c hc))

theorem matchRuneIndexes_eq (items : List (Int × Nat)) (m : RMatch) (hv : m.Valid items.length) :
    matchRuneIndexes (readRunes items).2 m = .ok (Std.locOf (toStd items m)) := by
  unfold matchRuneIndexes
  rw [locOf_eq, groupsOf_toStd]
  exact groupIndexes_eq items _ _ (fun g hg c hc => runeCaptureIndex_eq items c (valid_groups _ m hv g hg c hc))

theorem matchStrings_eq (segs : List (Int × List Nat)) (hwf : WF (decoded segs)) (m : RMatch)
    (hv : m.Valid segs.length) :
    matchStrings segs m = .ok (Std.submatchS (bytesOf segs) (toStd (decoded segs) m)) := by
  unfold matchStrings Std.submatchS
  rw [groupsOf_toStd, groupsB, List.map_map]
  apply mapM_ok
  intro g hg
  cases g with
  | none => rfl
  | some c =>
    simp only [Function.comp, Option.map_some]
    exact captureString_eq segs hwf c (valid_groups _ m hv _ hg c rfl)

/-- the byte-slice loop of `FindSubmatch` / `FindAllSubmatch` on an index slice whose pairs lie
    inside `b` -/
theorem submatchSlices_eq (b : Option (List Nat)) (gs : List (Option (Nat × Nat)))
    (h : ∀ g ∈ gs, ∀ s e, g = some (s, e) → s ≤ e ∧ e ≤ (b.getD []).length) :
    submatchSlices b (locOfGroups gs) =
      .ok (gs.map fun g => match g with
        | none => none
        | some (s, e) => Std.textB b s e) := by
  induction gs with
  | nil => rfl
  | cons g gs ih =>
    have ih' := ih (fun g' hg' => h g' (by simp [hg']))
    cases g with
    | none =>
      have : locOfGroups (none :: gs) = (-1) :: (-1) :: locOfGroups gs := by simp [locOfGroups]
      rw [this, submatchSlices, ih']
      simp
    | some p =>
      obtain ⟨s, e⟩ := p
      have : locOfGroups (some (s, e) :: gs) = (s : Int) :: (e : Int) :: locOfGroups gs := by simp [locOfGroups]
      obtain ⟨h1, h2⟩ := h (some (s, e)) (by simp) s e rfl
      rw [this, submatchSlices, ih', if_pos (by omega), sliceBytes_eq b s e h1 h2]
      simp

theorem groupsB_bounds (d : List (Int × Nat)) (gs : List (Option (Nat × Nat))) :
    ∀ g ∈ groupsB d gs, ∀ s e, g = some (s, e) → s ≤ e ∧ e ≤ byteLen d := by
  intro g hg s e hse
  simp only [groupsB, List.mem_map] at hg
  obtain ⟨g0, _, rfl⟩ := hg
  cases g0 with
  | none => simp at hse
  | some c =>
    simp only [Option.map_some, Option.some.injEq, Prod.mk.injEq] at hse
    obtain ⟨rfl, rfl⟩ := hse
    exact ⟨off_mono d _ _ (by omega), off_le_byteLen d _⟩

/-! ### the find-all loops of the adapter and of regexp2 over the match sequence -/

/-- where the match before ended in scan direction; `-1` when there is none -/
def prevEndOf (rtl : Bool) : Option RMatch → Int
  | none => -1
  | some p => keptEnd rtl p

/-- the sequence minus every empty match that lies exactly where the match before it (in the
    sequence) ended in scan direction: "empty matches abutting a preceding match are ignored" -/
def dropAbutting (rtl : Bool) : Option RMatch → List RMatch → List RMatch
  | _, [] => []
  | prev, m :: rest =>
    if m.len = 0 ∧ (m.index : Int) = prevEndOf rtl prev then dropAbutting rtl (some m) rest
    else m :: dropAbutting rtl (some m) rest

theorem prevEndOf_of_dropped (rtl : Bool) (prev : Option RMatch) (m : RMatch)
    (h : m.len = 0 ∧ (m.index : Int) = prevEndOf rtl prev) : prevEndOf rtl prev = prevEndOf rtl (some m) := by
  obtain ⟨h1, h2⟩ := h
  rw [← h2]
  cases rtl <;> simp [prevEndOf, keptEnd, h1]

theorem mem_dropAbutting (rtl : Bool) (prev : Option RMatch) (ms : List RMatch) (x : RMatch)
    (h : x ∈ dropAbutting rtl prev ms) : x ∈ ms := by
  induction ms generalizing prev with
  | nil => simp [dropAbutting] at h
  | cons m rest ih =>
    rw [dropAbutting] at h
    split at h
    · exact List.mem_cons_of_mem _ (ih _ h)
    · rcases List.mem_cons.mp h with rfl | h
      · simp
      · exact List.mem_cons_of_mem _ (ih _ h)

theorem mem_takeK {α : Type} (k : Int) (l : List α) (x : α) (h : x ∈ takeK k l) : x ∈ l := by
  unfold takeK at h
  split at h
  · exact h
  · exact List.mem_of_mem_take h

theorem go_iff (rtl : Bool) (prev : Option RMatch) (m : RMatch) :
    (m.len ≠ 0 ∨ (m.index : Int) ≠ prevEndOf rtl prev) ↔ ¬ (m.len = 0 ∧ (m.index : Int) = prevEndOf rtl prev) := by
  constructor
  · intro h hd; rcases h with h | h
    · exact h hd.1
    · exact h hd.2
  · intro hd
    by_cases h1 : m.len = 0
    · right; intro h2; exact hd ⟨h1, h2⟩
    · left; exact h1

/-- `forEachStringMatch` hands `f` the sequence minus abutting empty matches, truncated to `k` -/
theorem forEachLoop_eq {β : Type} (rtl : Bool) (f : RMatch → Res β) :
    ∀ (ms : List RMatch) (prev : Option RMatch) (k : Int),
      forEachLoop rtl f false ms (prevEndOf rtl prev) k = Res.mapM f (takeK k (dropAbutting rtl prev ms)) := by
  intro ms
  induction ms with
  | nil => intro prev k; simp [forEachLoop, dropAbutting, takeK_nil, Res.mapM]
  | cons m rest ih =>
    intro prev k
    rw [forEachLoop]
    by_cases hk : k = 0
    · simp [hk, takeK_zero, Res.mapM]
    · rw [if_neg hk, dropAbutting]
      by_cases hd : m.len = 0 ∧ (m.index : Int) = prevEndOf rtl prev
      · rw [if_neg (fun h => (go_iff rtl prev m).mp h hd), if_pos hd, prevEndOf_of_dropped rtl prev m hd, ih]
      · rw [if_pos ((go_iff rtl prev m).mpr hd), if_neg hd, takeK_cons _ _ _ hk, Res.mapM]
        congr 1
        funext x
        have hke : keptEnd rtl m = prevEndOf rtl (some m) := rfl
        by_cases hpos : k > 0
        · rw [if_pos hpos, if_pos hpos]
          by_cases h1 : k - 1 = 0
          · rw [if_pos h1, h1, takeK_zero]; rfl
          · rw [if_neg h1, hke, ih]
        · rw [if_neg hpos, if_neg hpos, hke, ih]

/-- regexp2's `findAllRunesIndex` appends the same matches -/
theorem r2FindAllLoop_eq (rtl : Bool) (mk : Nat → Nat → Nat × Nat) :
    ∀ (ms : List RMatch) (prev : Option RMatch) (k : Int),
      r2FindAllLoop rtl mk false ms (prevEndOf rtl prev) k =
        .val ((takeK k (dropAbutting rtl prev ms)).map fun m => mk m.index m.len) := by
  intro ms
  induction ms with
  | nil => intro prev k; simp [r2FindAllLoop, dropAbutting, takeK_nil]
  | cons m rest ih =>
    intro prev k
    rw [r2FindAllLoop]
    by_cases hk : k = 0
    · simp [hk, takeK_zero]
    · rw [if_neg hk, dropAbutting]
      by_cases hd : m.len = 0 ∧ (m.index : Int) = prevEndOf rtl prev
      · rw [if_neg (fun h => (go_iff rtl prev m).mp h hd), if_pos hd, prevEndOf_of_dropped rtl prev m hd, ih]
      · have hke : keptEnd rtl m = prevEndOf rtl (some m) := rfl
        rw [if_pos ((go_iff rtl prev m).mpr hd), if_neg hd, takeK_cons _ _ _ hk, hke, ih]
        rfl

/-- the matches the find-all methods deliver for limit `k` -/
def delivered (rtl : Bool) (ms : List RMatch) (k : Int) : List RMatch := takeK k (dropAbutting rtl none ms)

theorem delivered_zero (rtl : Bool) (ms : List RMatch) : delivered rtl ms 0 = [] := takeK_zero _

theorem mem_delivered (rtl : Bool) (ms : List RMatch) (k : Int) (x : RMatch) (h : x ∈ delivered rtl ms k) : x ∈ ms :=
  mem_dropAbutting rtl none ms x (mem_takeK k _ x h)

/-! ### the standard library's `allMatches` under `Walk` -/

/-- `prevMatchEnd` (a byte offset) after the match `prev` -/
def pmeB (d : List (Int × Nat)) : Option RMatch → Int
  | none => -1
  | some p => ((off d (p.index + p.len) : Nat) : Int)

theorem abut_iff (d : List (Int × Nat)) (hw : ∀ s ∈ d, 1 ≤ s.2) (prev : Option RMatch) (m : RMatch)
    (hm : m.index ≤ d.length) (hp : ∀ p, prev = some p → p.index + p.len ≤ d.length) :
    ((off d m.index : Nat) : Int) = pmeB d prev ↔ (m.index : Int) = prevEndOf false prev := by
  cases prev with
  | none => simp [pmeB, prevEndOf]
  | some p =>
    simp only [pmeB, prevEndOf, keptEnd, Bool.false_eq_true, if_false]
    constructor
    · intro h
      have : off d m.index = off d (p.index + p.len) := by omega
      have := off_inj d hw _ _ hm (hp p rfl) this
      omega
    · intro h
      have : m.index = p.index + p.len := by omega
      rw [this]

theorem nextPos_gt_of_empty (d : List (Int × Nat)) (hw : ∀ s ∈ d, 1 ≤ s.2) (m : RMatch) (hl : m.len = 0)
    (hmi : m.index ≤ d.length) : off d m.index < nextPos d m := by
  unfold nextPos
  simp only [hl, ne_eq, not_true_eq_false, if_false]
  split
  · exact off_strictMono d hw m.index (m.index + 1) (by omega) (by omega)
  · have := off_le_byteLen d m.index; omega

theorem allLoop_stop (ff : Nat → Option SMatch) (d : List (Int × Nat)) (endp cap g pos i : Nat) (pe : Int)
    (h : ¬ (i < cap ∧ pos ≤ endp)) : Std.allLoop ff d endp cap g pos i pe = [] := by
  cases g with
  | zero => rfl
  | succ g => rw [Std.allLoop, if_neg h]

theorem allLoop_walk (d : List (Int × Nat)) (hw : ∀ s ∈ d, 1 ≤ s.2) (ff : Nat → Option SMatch) (cap : Nat) :
    ∀ (ms : List RMatch) (pos fuel i : Nat) (prev : Option RMatch) (k : Int),
      Walk d ff pos ms → (∀ m ∈ ms, m.Valid d.length) → (∀ p, prev = some p → p.index + p.len ≤ d.length) →
      byteLen d + 2 - pos ≤ fuel → pmeB d prev ≤ (pos : Int) → CntRel (byteLen d) cap i pos k →
      Std.allLoop ff d (byteLen d) cap fuel pos i (pmeB d prev) =
        (takeK k (dropAbutting false prev ms)).map (toStd d) := by
  intro ms
  induction ms with
  | nil =>
    intro pos fuel i prev k hwalk _ _ _ _ _
    cases hwalk with
    | stop _ hnone =>
      simp only [dropAbutting, takeK_nil, List.map_nil]
      cases fuel with
      | zero => rfl
      | succ f =>
        rw [Std.allLoop]
        split
        · rename_i hc; rw [hnone hc.2]
        · rfl
  | cons m rest ih =>
    intro pos fuel i prev k hwalk hval hprev hfuel hpme hcnt
    cases hwalk with
    | step _ _ _ hle hff hrest =>
    have hv : m.Valid d.length := hval m (by simp)
    have hvr : ∀ m' ∈ rest, m'.Valid d.length := fun m' hm' => hval m' (by simp [hm'])
    have hmi : m.index ≤ d.length := by have := hv.1; omega
    have hend : off d (m.index + m.len) ≤ byteLen d := off_le_byteLen d _
    have hse : off d m.index ≤ off d (m.index + m.len) := off_mono d _ _ (by omega)
    have hposB : pos ≤ byteLen d := by omega
    have hprev' : ∀ p, some m = some p → p.index + p.len ≤ d.length := by
      intro p hp; cases hp; exact hv.1
    obtain ⟨f, rfl⟩ : ∃ f, fuel = f + 1 := ⟨fuel - 1, by omega⟩
    by_cases hi : i < cap
    case neg =>
      have hk : k = 0 := by rcases hcnt with h | h <;> omega
      rw [allLoop_stop _ _ _ _ _ _ _ _ (fun h => hi h.1), hk, takeK_zero]; rfl
    have hk : k ≠ 0 := by rcases hcnt with h | h <;> omega
    have hffp : ff pos = some (toStd d m) := hff pos (Nat.le_refl _) hle
    rw [Std.allLoop, if_pos ⟨hi, hposB⟩, hffp]
    simp only []
    have hlo : (toStd d m).lo = off d m.index := rfl
    have hhi : (toStd d m).hi = off d (m.index + m.len) := rfl
    rw [hlo, hhi, dropAbutting]
    by_cases he : off d (m.index + m.len) = pos
    · -- an empty match at pos
      have hl : m.len = 0 := by
        by_cases h0 : m.len = 0
        · exact h0
        · have := off_strictMono d hw m.index (m.index + m.len) (by omega) hv.1; omega
      have hs : off d m.index = pos := by rw [hl] at he; simpa using he
      have hnp : nextPos d m = (if Std.stepWidth d pos > 0 then pos + Std.stepWidth d pos else byteLen d + 1) := by
        rw [← hs, stepWidth_off d hw m.index hmi]; simp [nextPos, hl]
      have hnpgt : pos < nextPos d m := by
        have := nextPos_gt_of_empty d hw m hl hmi; omega
      have hpm : pmeB d (some m) = ((off d (m.index + m.len) : Nat) : Int) := rfl
      rw [if_pos he, ← hnp]
      by_cases hadj : ((off d m.index : Nat) : Int) = pmeB d prev
      · have hd : m.len = 0 ∧ (m.index : Int) = prevEndOf false prev := ⟨hl, (abut_iff d hw prev m hmi hprev).mp hadj⟩
        rw [if_pos hadj, if_pos hd, ← hpm]
        exact ih (nextPos d m) f i (some m) k hrest hvr hprev' (by omega) (by rw [hpm, he]; omega)
          (cntRel_skip hcnt _ (by omega))
      · have hd : ¬ (m.len = 0 ∧ (m.index : Int) = prevEndOf false prev) :=
          fun h => hadj ((abut_iff d hw prev m hmi hprev).mpr h.2)
        rw [if_neg hadj, if_neg hd, takeK_cons _ _ _ hk, List.map_cons, ← hpm]
        rw [ih (nextPos d m) f (i + 1) (some m) (if k > 0 then k - 1 else k) hrest hvr hprev' (by omega)
          (by rw [hpm, he]; omega) (cntRel_deliver hcnt hi hposB _ hnpgt)]
    · -- a match that ends behind pos
      have hgt : pos < off d (m.index + m.len) := by omega
      have hd : ¬ (m.len = 0 ∧ (m.index : Int) = prevEndOf false prev) := by
        intro h
        have hadj := (abut_iff d hw prev m hmi hprev).mpr h.2
        have : off d (m.index + m.len) = off d m.index := by rw [h.1]; rfl
        omega
      have hpm : pmeB d (some m) = ((off d (m.index + m.len) : Nat) : Int) := rfl
      rw [if_neg he, if_neg hd, takeK_cons _ _ _ hk, List.map_cons, ← hpm]
      congr 1
      have hcnt' := cntRel_deliver hcnt hi hposB (off d (m.index + m.len)) hgt
      by_cases hl : m.len = 0
      · -- an empty match behind pos: found again at its own position and ignored there
        have hs : off d (m.index + m.len) = off d m.index := by rw [hl]; rfl
        obtain ⟨f', rfl⟩ : ∃ f', f = f' + 1 := ⟨f - 1, by omega⟩
        by_cases hi' : i + 1 < cap
        case neg =>
          have hk' : (if k > 0 then k - 1 else k) = 0 := by rcases hcnt' with h | h <;> omega
          rw [allLoop_stop _ _ _ _ _ _ _ _ (fun h => hi' h.1), hk', takeK_zero]; rfl
        have hffe : ff (off d (m.index + m.len)) = some (toStd d m) := hff _ (by omega) (by omega)
        have hnp : nextPos d m =
            (if Std.stepWidth d (off d (m.index + m.len)) > 0 then off d (m.index + m.len) + Std.stepWidth d (off d (m.index + m.len))
              else byteLen d + 1) := by
          rw [hs, stepWidth_off d hw m.index hmi]; simp [nextPos, hl]
        have hnpgt : off d (m.index + m.len) < nextPos d m := by
          have := nextPos_gt_of_empty d hw m hl hmi; omega
        rw [Std.allLoop, if_pos ⟨hi', hend⟩, hffe]
        simp only []
        rw [hhi, hlo, if_pos rfl, ← hnp, hpm, if_pos (by rw [hs])]
        rw [← hpm]
        exact ih (nextPos d m) f' (i + 1) (some m) _ hrest hvr hprev' (by omega) (by rw [hpm]; omega)
          (cntRel_skip hcnt' _ (by omega))
      · have hnp : nextPos d m = off d (m.index + m.len) := by simp [nextPos, hl]
        rw [← hnp] at hcnt' ⊢
        exact ih (nextPos d m) f (i + 1) (some m) _ hrest hvr hprev' (by omega) (by rw [hpm, hnp]; omega) hcnt'

theorem allMatches_eq (d : List (Int × Nat)) (hwf : WF d) (a : Ans) (ff : Nat → Option SMatch)
    (h : EnginesAgree d a ff) (n : Int) :
    Std.allMatches ff d n = (delivered false a.ms n).map (toStd d) := by
  unfold Std.allMatches delivered
  have hcnt : CntRel (byteLen d) (if n < 0 then byteLen d + 1 else n.toNat) 0 0 n := by
    by_cases hn : n < 0
    · right; simp [hn]
    · left; simp only [hn, if_false]; omega
  have := allLoop_walk d (wf_width_pos d hwf) ff _ a.ms 0 (byteLen d + 2) 0 none n h.walk h.valid
    (by intro p hp; cases hp) (by omega) (by simp [pmeB]) hcnt
  simpa [pmeB] using this

/-! ### closed forms of the adapter's methods (any direction; no engine error; matches inside the input) -/

theorem nilIfEmpty_map {α β : Type} (g : α → β) (l : List α) : (nilIfEmpty l).map (List.map g) = nilIfEmpty (l.map g) := by
  cases l <;> rfl

theorem nilIfEmpty_nil {α : Type} : nilIfEmpty ([] : List α) = none := rfl

theorem findFirst_eq (a : Ans) (he : a.err = false) : findFirst a = .ok a.ms.head? := by
  unfold findFirst nextCall
  cases h : a.ms with
  | nil => simp [he, must]
  | cons m rest => simp [must]

theorem isMatch_eq (a : Ans) (he : a.err = false) : must (r2IsMatch a) = .ok a.ms.head?.isSome := by
  unfold r2IsMatch nextCall
  cases h : a.ms with
  | nil => simp [he, must, Call.map]
  | cons m rest => simp [must, Call.map]

/-- `forEachStringMatch` with a callback that cannot panic on a match inside the input -/
theorem forEach_closed {β : Type} (a : Ans) (he : a.err = false) (n : Int) (f : RMatch → Res β) (g : RMatch → β)
    (hf : ∀ m ∈ a.ms, f m = .ok (g m)) :
    forEachStringMatch a n f = .ok ((delivered a.rtl a.ms n).map g) := by
  unfold forEachStringMatch
  rw [he]
  have := forEachLoop_eq a.rtl f a.ms none n
  simp only [prevEndOf] at this
  rw [this]
  exact mapM_ok f g _ (fun m hm => hf m (mem_delivered _ _ _ m hm))

theorem r2FindAll_closed (a : Ans) (he : a.err = false) (mk : Nat → Nat → Nat × Nat) (n : Int) :
    must (r2FindAll a mk n) = .ok (nilIfEmpty ((delivered a.rtl a.ms n).map fun m => mk m.index m.len)) := by
  unfold r2FindAll
  by_cases hn : n = 0
  · simp [hn, delivered_zero, must, nilIfEmpty_nil]
  · rw [if_neg hn, he]
    have := r2FindAllLoop_eq a.rtl mk a.ms none n
    simp only [prevEndOf] at this
    rw [this]
    rfl

theorem FindAllStringSubmatchIndex_closed (a : Ans) (segs : List (Int × List Nat)) (hwf : WF (decoded segs))
    (he : a.err = false) (hv : ∀ m ∈ a.ms, m.Valid segs.length) (n : Int) :
    FindAllStringSubmatchIndex a segs n =
      .ok (nilIfEmpty ((delivered a.rtl a.ms n).map fun m => Std.locOf (toStd (decoded segs) m))) := by
  unfold FindAllStringSubmatchIndex
  by_cases hn : n = 0
  · simp [hn, delivered_zero, nilIfEmpty_nil]
  · rw [if_neg hn, forEach_closed a he n _ _ (fun m hm => matchIndexes_eq _ hwf m (by rw [decoded_length]; exact hv m hm))]
    rfl

theorem FindAllString_closed (a : Ans) (segs : List (Int × List Nat)) (hwf : WF (decoded segs))
    (he : a.err = false) (hv : ∀ m ∈ a.ms, m.Valid segs.length) (n : Int) :
    FindAllString a segs n =
      .ok (nilIfEmpty ((delivered a.rtl a.ms n).map fun m =>
        Std.textS (bytesOf segs) (off (decoded segs) m.index) (off (decoded segs) (m.index + m.len)))) := by
  unfold FindAllString
  by_cases hn : n = 0
  · simp [hn, delivered_zero, nilIfEmpty_nil]
  · rw [if_neg hn, forEach_closed a he n _ _ (fun m hm => captureString_eq segs hwf (m.index, m.len) (hv m hm).1)]
    rfl

theorem FindAllStringSubmatch_closed (a : Ans) (segs : List (Int × List Nat)) (hwf : WF (decoded segs))
    (he : a.err = false) (hv : ∀ m ∈ a.ms, m.Valid segs.length) (n : Int) :
    FindAllStringSubmatch a segs n =
      .ok (nilIfEmpty ((delivered a.rtl a.ms n).map fun m => Std.submatchS (bytesOf segs) (toStd (decoded segs) m))) := by
  unfold FindAllStringSubmatch
  by_cases hn : n = 0
  · simp [hn, delivered_zero, nilIfEmpty_nil]
  · rw [if_neg hn, forEach_closed a he n _ _ (fun m hm => matchStrings_eq segs hwf m (hv m hm))]
    rfl

/-- the overall span of a match as a byte pair -/
def spanB (d : List (Int × Nat)) (m : RMatch) : List Int := [(off d m.index : Int), (off d (m.index + m.len) : Int)]

theorem FindAllStringIndex_closed (a : Ans) (segs : List (Int × List Nat)) (hwf : WF (decoded segs))
    (he : a.err = false) (hv : ∀ m ∈ a.ms, m.Valid segs.length) (n : Int) :
    FindAllStringIndex a segs n = .ok (nilIfEmpty ((delivered a.rtl a.ms n).map (spanB (decoded segs)))) := by
  unfold FindAllStringIndex r2FindAllStringIndex
  simp only []
  rw [r2FindAll_closed a he, map_ok, nilIfEmpty_map, List.map_map]
  congr 2
  apply List.map_congr_left
  intro m hm
  have hvm := (hv m (mem_delivered _ _ _ m hm)).1
  simp only [Function.comp, spanB, off]
  rw [Props.C08.stringByteMapper_eq _ hwf m.index (by rw [decoded_length]; omega),
    Props.C08.stringByteMapper_eq _ hwf (m.index + m.len) (by rw [decoded_length]; omega)]

theorem mapM_map_ok {α β γ : Type} (f : α → Res β) (h : γ → α) (g : γ → β) (l : List γ)
    (H : ∀ x ∈ l, f (h x) = .ok (g x)) : Res.mapM f (l.map h) = .ok (l.map g) := by
  induction l with
  | nil => rfl
  | cons x xs ih =>
    rw [List.map_cons, Res.mapM, H x (by simp), bind_ok, ih (fun y hy => H y (by simp [hy])), map_ok, List.map_cons]

theorem nilIfEmpty_map_cons {α β : Type} (f : α → β) (x : α) (xs : List α) :
    nilIfEmpty ((x :: xs).map f) = some ((x :: xs).map f) := rfl

theorem FindAllIndex_closed (a : Ans) (b : Option (List (Int × List Nat))) (he : a.err = false)
    (hv : ∀ m ∈ a.ms, m.Valid (segsOf b).length) (n : Int) :
    FindAllIndex a b n = .ok (nilIfEmpty ((delivered a.rtl a.ms n).map (spanB (decoded (segsOf b))))) := by
  unfold FindAllIndex r2FindAllRunesIndex
  simp only []
  rw [r2FindAll_closed a he, bind_ok]
  have hmem : ∀ m ∈ delivered a.rtl a.ms n, m.index + m.len ≤ (decoded (segsOf b)).length := by
    intro m hm; rw [decoded_length]; exact (hv m (mem_delivered _ _ _ m hm)).1
  generalize delivered a.rtl a.ms n = l at hmem
  cases l with
  | nil => rfl
  | cons m0 l0 =>
    simp only [nilIfEmpty_map_cons]
    have key : ∀ m ∈ m0 :: l0, ∀ i, i ≤ m.index + m.len →
        offsetAt (bytesToRunesAndOffsets (decoded (segsOf b))).2 i = some (off (decoded (segsOf b)) i) := by
      intro m hm i hi
      exact (Props.C08.bytesToRunes_offsets_eq _ i (by have := hmem m hm; omega)).2
    cases hbo : (bytesToRunesAndOffsets (decoded (segsOf b))).2 with
    | none =>
      rw [hbo] at key
      simp only [offsetAt, Option.some.injEq] at key
      simp only [List.map_map]
      congr 2
      apply List.map_congr_left
      intro m hm
      simp only [Function.comp, spanB, ← key m hm m.index (by omega), ← key m hm (m.index + m.len) (by omega)]
    | some t =>
      rw [hbo] at key
      simp only [offsetAt] at key
      simp only []
      rw [mapM_map_ok _ _ (spanB (decoded (segsOf b)))]
      · rfl
      · intro m hm
        simp only [tableAt, key m hm m.index (by omega), key m hm (m.index + m.len) (by omega), bind_ok, map_ok, spanB]

/-- the spans of matches lie inside the byte slice -/
theorem span_in_bytes (b : Option (List (Int × List Nat))) (i l : Nat) :
    off (decoded (segsOf b)) i ≤ off (decoded (segsOf b)) (i + l) ∧
    off (decoded (segsOf b)) (i + l) ≤ ((bytesOfB b).getD []).length := by
  refine ⟨off_mono _ _ _ (by omega), ?_⟩
  rw [bytesOfB_getD, bytesOf_length]; exact off_le_byteLen _ _

theorem FindAll_closed (a : Ans) (b : Option (List (Int × List Nat))) (he : a.err = false)
    (hv : ∀ m ∈ a.ms, m.Valid (segsOf b).length) (n : Int) :
    FindAll a b n = .ok (nilIfEmpty ((delivered a.rtl a.ms n).map fun m =>
      Std.textB (bytesOfB b) (off (decoded (segsOf b)) m.index) (off (decoded (segsOf b)) (m.index + m.len)))) := by
  unfold FindAll
  rw [FindAllIndex_closed a b he hv n, bind_ok]
  generalize delivered a.rtl a.ms n = l
  cases l with
  | nil => rfl
  | cons m0 l0 =>
    simp only [nilIfEmpty_map_cons]
    rw [mapM_map_ok _ _ (fun m : RMatch =>
      Std.textB (bytesOfB b) (off (decoded (segsOf b)) m.index) (off (decoded (segsOf b)) (m.index + m.len)))]
    · rfl
    · intro m _
      obtain ⟨h1, h2⟩ := span_in_bytes b m.index m.len
      simp only [spanB]
      exact sliceBytes_eq _ _ _ h1 h2

theorem submatchSlices_toStd (b : Option (List (Int × List Nat))) (m : RMatch) :
    submatchSlices (bytesOfB b) (Std.locOf (toStd (decoded (segsOf b)) m)) =
      .ok (Std.submatchB (bytesOfB b) (toStd (decoded (segsOf b)) m)) := by
  rw [locOf_eq, submatchSlices_eq]
  · rfl
  · intro g hg s e hse
    rw [groupsOf_toStd] at hg
    have := groupsB_bounds _ _ g hg s e hse
    rw [bytesOfB_getD, bytesOf_length]
    exact this

theorem FindAllSubmatch_closed (a : Ans) (b : Option (List (Int × List Nat))) (hwf : WF (decoded (segsOf b)))
    (he : a.err = false) (hv : ∀ m ∈ a.ms, m.Valid (segsOf b).length) (n : Int) :
    FindAllSubmatch a b n = .ok (nilIfEmpty ((delivered a.rtl a.ms n).map fun m =>
      Std.submatchB (bytesOfB b) (toStd (decoded (segsOf b)) m))) := by
  unfold FindAllSubmatch FindAllSubmatchIndex
  rw [FindAllStringSubmatchIndex_closed a _ hwf he hv n, bind_ok]
  generalize delivered a.rtl a.ms n = l
  cases l with
  | nil => rfl
  | cons m0 l0 =>
    simp only [nilIfEmpty_map_cons]
    rw [mapM_map_ok _ _ (fun m : RMatch => Std.submatchB (bytesOfB b) (toStd (decoded (segsOf b)) m))]
    · rfl
    · intro m _
      exact submatchSlices_toStd b m

/-! ### the first match under `Walk` -/

theorem walk_head (d : List (Int × Nat)) (ff : Nat → Option SMatch) (ms : List RMatch) (h : Walk d ff 0 ms) :
    ff 0 = ms.head?.map (toStd d) := by
  cases h with
  | stop _ hn => simpa using hn (Nat.zero_le _)
  | step _ m rest hle hff _ => simpa using hff 0 (Nat.le_refl _) (Nat.zero_le _)

/-! ### closed forms of the single-match methods -/

theorem head_valid (a : Ans) (n : Nat) (hv : ∀ m ∈ a.ms, m.Valid n) (m : RMatch) (h : a.ms.head? = some m) : m.Valid n := by
  cases hms : a.ms with
  | nil => rw [hms] at h; simp at h
  | cons m0 rest => rw [hms] at h; simp at h; subst h; exact hv m0 (by simp [hms])

theorem FindStringIndex_closed (a : Ans) (segs : List (Int × List Nat)) (hwf : WF (decoded segs))
    (he : a.err = false) (hv : ∀ m ∈ a.ms, m.Valid segs.length) :
    FindStringIndex a segs = .ok (a.ms.head?.map (spanB (decoded segs))) := by
  unfold FindStringIndex
  rw [findFirst_eq a he, bind_ok]
  cases hh : a.ms.head? with
  | none => rfl
  | some m =>
    have := (head_valid a _ hv m hh).1
    simp only [Option.map_some]
    rw [captureIndex_eq _ hwf (m.index, m.len) (by rw [decoded_length]; exact this)]
    rfl

theorem FindString_closed (a : Ans) (segs : List (Int × List Nat)) (hwf : WF (decoded segs))
    (he : a.err = false) (hv : ∀ m ∈ a.ms, m.Valid segs.length) :
    FindString a segs = .ok (match a.ms.head? with
      | none => []
      | some m => Std.textS (bytesOf segs) (off (decoded segs) m.index) (off (decoded segs) (m.index + m.len))) := by
  unfold FindString
  rw [findFirst_eq a he, bind_ok]
  cases hh : a.ms.head? with
  | none => rfl
  | some m => exact captureString_eq segs hwf (m.index, m.len) (head_valid a _ hv m hh).1

theorem Find_closed (a : Ans) (b : Option (List (Int × List Nat))) (hwf : WF (decoded (segsOf b)))
    (he : a.err = false) (hv : ∀ m ∈ a.ms, m.Valid (segsOf b).length) :
    Find a b = .ok (match a.ms.head? with
      | none => none
      | some m => Std.textB (bytesOfB b) (off (decoded (segsOf b)) m.index) (off (decoded (segsOf b)) (m.index + m.len))) := by
  unfold Find FindIndex
  rw [FindStringIndex_closed a _ hwf he hv, bind_ok]
  cases hh : a.ms.head? with
  | none => rfl
  | some m =>
    obtain ⟨h1, h2⟩ := span_in_bytes b m.index m.len
    simp only [Option.map_some, spanB]
    exact sliceBytes_eq _ _ _ h1 h2

theorem FindStringSubmatchIndex_closed (a : Ans) (segs : List (Int × List Nat)) (hwf : WF (decoded segs))
    (he : a.err = false) (hv : ∀ m ∈ a.ms, m.Valid segs.length) :
    FindStringSubmatchIndex a segs = .ok (a.ms.head?.map fun m => Std.locOf (toStd (decoded segs) m)) := by
  unfold FindStringSubmatchIndex
  rw [findFirst_eq a he, bind_ok]
  cases hh : a.ms.head? with
  | none => rfl
  | some m =>
    simp only [Option.map_some]
    rw [matchIndexes_eq _ hwf m (by rw [decoded_length]; exact head_valid a _ hv m hh)]
    rfl

theorem FindStringSubmatch_closed (a : Ans) (segs : List (Int × List Nat)) (hwf : WF (decoded segs))
    (he : a.err = false) (hv : ∀ m ∈ a.ms, m.Valid segs.length) :
    FindStringSubmatch a segs = .ok (a.ms.head?.map fun m => Std.submatchS (bytesOf segs) (toStd (decoded segs) m)) := by
  unfold FindStringSubmatch
  rw [findFirst_eq a he, bind_ok]
  cases hh : a.ms.head? with
  | none => rfl
  | some m =>
    simp only [Option.map_some]
    rw [matchStrings_eq segs hwf m (head_valid a _ hv m hh)]
    rfl

theorem FindSubmatch_closed (a : Ans) (b : Option (List (Int × List Nat))) (hwf : WF (decoded (segsOf b)))
    (he : a.err = false) (hv : ∀ m ∈ a.ms, m.Valid (segsOf b).length) :
    FindSubmatch a b = .ok (a.ms.head?.map fun m => Std.submatchB (bytesOfB b) (toStd (decoded (segsOf b)) m)) := by
  unfold FindSubmatch FindSubmatchIndex
  rw [FindStringSubmatchIndex_closed a _ hwf he hv, bind_ok]
  cases hh : a.ms.head? with
  | none => rfl
  | some m =>
    simp only [Option.map_some]
    rw [submatchSlices_toStd b m]
    rfl

theorem readRunesR_eq (r : Reader) : must (readRunesR r) = .ok (readRunes r.items) := rfl

theorem FindReaderIndex_closed (a : Ans) (r : Reader) (he : a.err = false) (hv : ∀ m ∈ a.ms, m.Valid r.items.length) :
    FindReaderIndex a r = .ok (a.ms.head?.map (spanB r.items)) := by
  unfold FindReaderIndex
  rw [readRunesR_eq, bind_ok, findFirst_eq a he, bind_ok]
  cases hh : a.ms.head? with
  | none => rfl
  | some m =>
    simp only [Option.map_some]
    rw [runeCaptureIndex_eq r.items (m.index, m.len) (head_valid a _ hv m hh).1]
    rfl

theorem FindReaderSubmatchIndex_closed (a : Ans) (r : Reader) (he : a.err = false)
    (hv : ∀ m ∈ a.ms, m.Valid r.items.length) :
    FindReaderSubmatchIndex a r = .ok (a.ms.head?.map fun m => Std.locOf (toStd r.items m)) := by
  unfold FindReaderSubmatchIndex
  rw [readRunesR_eq, bind_ok, findFirst_eq a he, bind_ok]
  cases hh : a.ms.head? with
  | none => rfl
  | some m =>
    simp only [Option.map_some]
    rw [matchRuneIndexes_eq r.items m (head_valid a _ hv m hh)]
    rfl

theorem MatchReader_closed (a : Ans) (r : Reader) (he : a.err = false) :
    MatchReader a r = .ok a.ms.head?.isSome := by
  unfold MatchReader
  rw [readRunesR_eq, bind_ok, isMatch_eq a he]

/-! ### bridge to the `Engine` machinery of `Model/Scan.lean` (C07) -/

/-- a match of the sequence as a `Hit` of `Model/Scan.lean`: span and resume position -/
def hitOf (rtl : Bool) (m : RMatch) : Scan.Hit := ⟨m.index, m.len, Scan.scanEnd rtl (m.index, m.len)⟩

theorem prevEndOf_hit (rtl : Bool) (prev : Option RMatch) :
    Scan.prevEndOf rtl (prev.map (hitOf rtl)) = prevEndOf rtl prev := by
  cases prev with
  | none => rfl
  | some p => cases rtl <;> rfl

theorem dropAbutting_hits (rtl : Bool) (prev : Option RMatch) (ms : List RMatch) :
    (dropAbutting rtl prev ms).map (hitOf rtl) =
      Scan.keepNonAdjacent rtl (prev.map (hitOf rtl)) (ms.map (hitOf rtl)) := by
  induction ms generalizing prev with
  | nil => rfl
  | cons m rest ih =>
    have ih' := ih (some m)
    simp only [Option.map_some] at ih'
    rw [dropAbutting, List.map_cons, Scan.keepNonAdjacent, prevEndOf_hit]
    by_cases hd : m.len = 0 ∧ (m.index : Int) = prevEndOf rtl prev
    · rw [if_pos hd, if_pos (by exact hd), ih']
    · rw [if_neg hd, if_neg (by exact hd), List.map_cons, ih']

theorem takeK_map {α β : Type} (f : α → β) (k : Int) (l : List α) : (takeK k l).map f = takeK k (l.map f) := by
  unfold takeK
  split
  · rfl
  · simp [List.map_take]

/-- the matches the adapter's loops deliver are those of `Scan.compatForEach` / `Scan.findAll` whenever
    the sequence is the `iterate` of a `Scan.Engine` -/
theorem delivered_eq_scan (E : Scan.Engine) (rtl : Bool) (n : Nat) (ms : List RMatch)
    (h : ms.map (hitOf rtl) = Scan.iterate E rtl n) (k : Int) :
    (delivered rtl ms k).map (hitOf rtl) = Scan.compatForEach E rtl n k := by
  unfold delivered Scan.compatForEach
  have := Lemmas.Scan.compatLoop_eq E rtl n (n + 2) (Scan.firstMatch E rtl n) none k
  simp only [Scan.prevEndOf] at this
  rw [this, takeK_map, dropAbutting_hits, h]
  rfl

/-! ### the sample of the property file: `a(.)|(é)|y*` on "xa\xffé" (x, a, an invalid byte, a 2-byte rune) -/

/-- the input "xa\xffé" as decoding steps -/
def exSegs : List (Int × List Nat) := [(120, [120]), (97, [97]), (0xFFFD, [255]), (233, [195, 169])]

/-- regexp2's sequence, rune indices: empty at 0, "a\xff" with group 1 = "\xff", "é" with group 2, empty at 4 -/
def exAns : Ans :=
  ⟨false, [⟨0, 0, [none, none]⟩, ⟨1, 2, [some (2, 1), none]⟩, ⟨3, 1, [none, some (3, 1)]⟩, ⟨4, 0, [none, none]⟩], false⟩

/-- the standard library's searches from the byte positions 0, 1, 2, 3, 5 (4 is inside "é") -/
def exFF : Nat → Option SMatch
  | 0 => some ⟨0, 0, [none, none]⟩
  | 1 => some ⟨1, 3, [some (2, 3), none]⟩
  | 2 => some ⟨2, 2, [none, none]⟩
  | 3 => some ⟨3, 5, [none, some (3, 5)]⟩
  | 5 => some ⟨5, 5, [none, none]⟩
  | _ => none

theorem exSegs_wf : WF (decoded exSegs) := by decide

theorem exAgree : EnginesAgree (decoded exSegs) exAns exFF where
  noErr := rfl
  ltr := rfl
  valid := by decide
  walk := by
    refine Walk.step _ _ _ (by decide) ?_ (Walk.step _ _ _ (by decide) ?_ (Walk.step _ _ _ (by decide) ?_
      (Walk.step _ _ _ (by decide) ?_ (Walk.stop _ (fun h => absurd h (by decide))))))
    · intro q h1 h2
      change q ≤ 0 at h2
      obtain rfl : q = 0 := by omega
      decide
    · intro q h1 h2
      change 1 ≤ q at h1
      change q ≤ 1 at h2
      obtain rfl : q = 1 := by omega
      decide
    · intro q h1 h2
      change 3 ≤ q at h1
      change q ≤ 3 at h2
      obtain rfl : q = 3 := by omega
      decide
    · intro q h1 h2
      change 5 ≤ q at h1
      change q ≤ 5 at h2
      obtain rfl : q = 5 := by omega
      decide

end RegexVerif.Lemmas.Compat
