/-
Compiler correctness, part 7: the single-character repeaters — `Onerep/Notonerep/Setrep` (the fixed part) and
`Oneloop/Onelazy/Oneloopatomic` with their Notone / Set variants (the variable part), left to right.
-/
import RegexVerif.Lemmas.CompileStep
import RegexVerif.Lemmas.Rewrites

namespace RegexVerif.Compile
open RegexVerif.VM RegexVerif.Code RegexVerif.Writer RegexVerif.Generated.Opcodes RegexVerif RegexVerif.Spec
open RegexVerif.Lemmas.VM

section loops
variable {X : Setup} {TPx : TP} {sets : List (List Nat)} {a : Nat} {T S : List Int} {C : List (Nat × Nat × Nat)} {v : Int}

/-- the `for` loop of the single-character instructions counts the run of the predicate, up to `k` -/
theorem scan_spec (hrel : EnvRel TPx sets X.env X.se) {pred : Nat → Bool} {P : Pred} (hpr : ∀ r, pred r = P.test X.se r) :
    ∀ (k pos : Nat), pos + k ≤ X.se.n →
      VM.scan X.env pred false k (pos : Int) = .ok (min k (runLen X.se P pos)) := by
  intro k
  induction k with
  | zero => intro pos _; simp [VM.scan]
  | succ k ih =>
    intro pos hk
    obtain ⟨c, hc, hch⟩ := charAt_lt hrel pos (by omega)
    have hacc : acc X.se P pos = P.test X.se c := by simp [acc, hc]
    unfold VM.scan
    simp only [VM.forwardcharnext, Bool.false_eq_true, if_false, hch, Except.map]
    have e : (pos : Int) + 1 = ((pos + 1 : Nat) : Int) := by omega
    by_cases hp : pred c = true
    · have ha : acc X.se P pos = true := by rw [hacc, ← hpr]; exact hp
      rw [if_pos hp, e, ih (pos + 1) (by omega), runLen_of_acc ha]
      simp only [Except.ok.injEq]
      omega
    · have ha : acc X.se P pos = false := by rw [hacc, ← hpr]; simpa using hp
      rw [if_neg hp, runLen_of_not_acc ha]
      simp

/-- `Onerep / Notonerep / Setrep  x lo`: exactly `lo` characters of the predicate -/
theorem rep_delivers (hrel : EnvRel TPx sets X.env X.se) {i : Nat} {s : VMState} (hi : i ≤ X.se.n)
    (he : Entry X a i (T ++ [v]) S C s) {sel lo : Nat} {x : Int} {P : Pred} {ins : Instr} (hia : InstrAt X.p a ins)
    (hx : ins.args[0]? = some x) (hlo : ins.args[1]? = some (lo : Int))
    (hbody : VM.body X.p X.env s = VM.caseRep X.p X.env sel s) (hrtl : s.oper.rtl = false)
    (hpred : PredOk X sel x P) (hf : ∃ w, VM.fetch X.p (a + 3) = .ok w) :
    Delivers X (a + 3) T S S C (if lo ≤ runLen X.se P i then [⟨i + lo, C⟩] else []) s := by
  obtain ⟨pred, hcp, hpr⟩ := hpred
  have hop0 := hia.operand he.pc 0 x hx
  have hop1 := hia.operand he.pc 1 (lo : Int) hlo
  have hR := runLen_le X.se P i
  by_cases hfit : i + lo ≤ X.se.n
  · have hfc : ¬ (VM.forwardchars X.env s < (lo : Int)) := by
      simp only [VM.forwardchars, hrtl, Bool.false_eq_true, if_false, env_len hrel, he.tp]; omega
    have hsc := scan_spec hrel hpr lo i hfit
    by_cases hrun : lo ≤ runLen X.se P i
    · have hb : VM.body X.p X.env s = .ok (VM.textto s ((i : Int) + (lo : Int)), .advance 2) := by
        rw [hbody]; unfold VM.caseRep
        simp only [bind, Except.bind, hop1, hfc, if_false, hop0, hcp, hrtl, Int.toNat_natCast, he.tp, hsc, pure,
          Except.pure, VM.bump, Bool.false_eq_true]
        have : ¬ (min lo (runLen X.se P i) < lo) := by omega
        simp only [this, if_false]
        have : min lo (runLen X.se P i) = lo := by omega
        simp [this]
      rw [if_pos hrun]
      exact deliver_one (k := 2) he hb rfl rfl rfl rfl (by simp [VM.textto]) hf
    · have hb : VM.body X.p X.env s =
          .ok (VM.textto s (s.textpos + VM.bump s * (((min lo (runLen X.se P i) : Nat) : Int) + 1)), .back) := by
        rw [hbody]; unfold VM.caseRep
        simp only [bind, Except.bind, hop1, hfc, if_false, hop0, hcp, hrtl, Int.toNat_natCast, he.tp, hsc, pure,
          Except.pure]
        have : min lo (runLen X.se P i) < lo := by omega
        simp only [this, if_true]
      rw [if_neg hrun]
      exact deliver_none he hb rfl rfl rfl
  · have hfc : VM.forwardchars X.env s < (lo : Int) := by
      simp only [VM.forwardchars, hrtl, Bool.false_eq_true, if_false, env_len hrel, he.tp]; omega
    have hb : VM.body X.p X.env s = .ok (s, .back) := by
      rw [hbody]; unfold VM.caseRep
      simp only [bind, Except.bind, hop1, hfc, if_true, pure, Except.pure]
    have : ¬ lo ≤ runLen X.se P i := by omega
    rw [if_neg this]
    exact deliver_none he hb rfl rfl rfl

/-- the positions a greedy loop gives back, farthest first -/
def downFrom (i k : Nat) (C : List (Nat × Nat × Nat)) : List St :=
  (List.range (k + 1)).reverse.map (fun t => ⟨i + t, C⟩)

theorem downFrom_succ (i k : Nat) (C : List (Nat × Nat × Nat)) :
    downFrom i (k + 1) C = ⟨i + (k + 1), C⟩ :: downFrom i k C := by
  unfold downFrom
  rw [List.range_succ, List.reverse_append]
  simp

theorem downFrom_zero (i : Nat) (C : List (Nat × Nat × Nat)) : downFrom i 0 C = [⟨i, C⟩] := by
  simp [downFrom]

/-- frames of the greedy / lazy single-character loops -/
theorem loop_frame {ins : Instr} (hia : InstrAt X.p a ins) {o : VM.Op} (ho : Op.ofNat? (decode ins.op).op = some o)
    (hfd : VM.frameData o false = some 2) (u v : Int) : Framed X.p [(a : Int), u, v] := by
  refine Framed.one _ [u, v] ?_
  simp [VM.frameSize, savedPos_pos, hia.fetch, ho, hfd]

/-- backtracking into the frame `(pos = i + j, count = j)` of a greedy loop: the loop gives the characters back one
    at a time -/
theorem loopBack_delivers {i : Nat} {ins : Instr} (hia : InstrAt X.p a ins) {o : VM.Op}
    (ho : Op.ofNat? (decode ins.op).op = some o) (hfd : VM.frameData o false = some 2)
    (hbody : ∀ s2 : VMState, s2.oper = { decode ins.op with back := true } →
      VM.body X.p X.env s2 = VM.caseLoopBack s2)
    (hrtl : (decode ins.op).rtl = false) (hf : ∃ w, VM.fetch X.p (a + 3) = .ok w) :
    ∀ (j : Nat) (v : Int) (s : VMState), FailAt X ((a : Int) :: ((i + j : Nat) : Int) :: (j : Int) :: (T ++ [v])) S C s →
      Delivers X (a + 3) T S S C (downFrom i j C) s := by
  obtain ⟨w, hw⟩ := hf
  intro j
  induction j with
  | zero =>
    intro v s hfail
    obtain ⟨s2, chk, hst, hbe⟩ := fail_step hfail hia.fetch
    refine Delivers.of_step hst ?_
    rw [downFrom_zero]
    have hb : VM.body X.p X.env s2 = .ok (VM.textto { s2 with track := T ++ [v] } ((i + 0 : Nat) : Int), .advance 2) := by
      rw [hbody s2 hbe.op]; unfold VM.caseLoopBack
      simp [hbe.tr]
    refine Delivers.single (v := v) (Leads.of_step (step_adv hb (by simp only [VM.textto, hbe.pc]; exact hw)) (Leads.here ?_)) rfl
    exact ⟨by simp [VM.textto, hbe.pc], hw, by simp [VM.textto], rfl, hbe.st, hbe.cap⟩
  | succ j ih =>
    intro v s hfail
    obtain ⟨s2, chk, hst, hbe⟩ := fail_step hfail hia.fetch
    refine Delivers.of_step hst ?_
    rw [downFrom_succ]
    have hbump : VM.bump s2 = 1 := by simp [VM.bump, hbe.op, hrtl]
    have hb : VM.body X.p X.env s2 =
        .ok (VM.push2 (VM.textto { s2 with track := T ++ [v] } ((i + (j + 1) : Nat) : Int)) (((j + 1 : Nat) : Int) - 1)
          (((i + (j + 1) : Nat) : Int) - 1), .advance 2) := by
      rw [hbody s2 hbe.op]; unfold VM.caseLoopBack
      have : ((j + 1 : Nat) : Int) > 0 := by omega
      simp [hbe.tr, this, hbump]
    refine Delivers.cons (v := v) [(a : Int), ((i + j : Nat) : Int), (j : Int)] (loop_frame hia ho hfd _ _) ?_ ?_
    · have e1 : ((i + (j + 1) : Nat) : Int) - 1 = ((i + j : Nat) : Int) := by omega
      have e2 : ((j + 1 : Nat) : Int) - 1 = (j : Int) := by omega
      rw [e1, e2] at hb
      refine Leads.of_step (step_adv hb (by simp only [VM.push2, VM.textto, hbe.pc]; exact hw)) (Leads.here ?_)
      exact ⟨by simp [VM.push2, VM.textto, hbe.pc], hw, by simp [VM.push2, VM.textto],
        by simp [VM.push2, VM.textto, hbe.pc], hbe.st, hbe.cap⟩
    · intro s'' v' hf''
      exact ih v' s'' (by simpa using hf'')

/-- `Oneloop / Notoneloop / Setloop  x cmax` and the atomic variants: as many characters of the predicate as there
    are, up to `cmax` -/
theorem loop_delivers (hrel : EnvRel TPx sets X.env X.se) {i : Nat} {s : VMState} (hi : i ≤ X.se.n)
    (he : Entry X a i (T ++ [v]) S C s) {sel cmax : Nat} {atomic : Bool} {x : Int} {P : Pred} {ins : Instr}
    (hia : InstrAt X.p a ins) (hx : ins.args[0]? = some x) (hc : ins.args[1]? = some (cmax : Int)) {o : VM.Op}
    (ho : Op.ofNat? (decode ins.op).op = some o) (hfd : atomic = false → VM.frameData o false = some 2)
    (hbody : VM.body X.p X.env s = VM.caseLoop X.p X.env sel atomic s)
    (hback : atomic = false → ∀ s2 : VMState, s2.oper = { decode ins.op with back := true } →
      VM.body X.p X.env s2 = VM.caseLoopBack s2)
    (hrtl : (decode ins.op).rtl = false) (hpred : PredOk X sel x P) (hf : ∃ w, VM.fetch X.p (a + 3) = .ok w) :
    Delivers X (a + 3) T S S C
      (if atomic then [⟨i + min cmax (runLen X.se P i), C⟩] else downFrom i (min cmax (runLen X.se P i)) C) s := by
  obtain ⟨pred, hcp, hpr⟩ := hpred
  obtain ⟨w, hw⟩ := hf
  have hop0 := hia.operand he.pc 0 x hx
  have hop1 := hia.operand he.pc 1 (cmax : Int) hc
  have hR := runLen_le X.se P i
  have hsrtl : s.oper.rtl = false := by rw [he.oper hia]; exact hrtl
  -- the clipped maximum
  have hcl : ∃ c : Nat, (if (cmax : Int) > VM.forwardchars X.env s then VM.forwardchars X.env s else (cmax : Int)) = (c : Int) ∧
      c = min cmax (X.se.n - i) := by
    refine ⟨min cmax (X.se.n - i), ?_, rfl⟩
    simp only [VM.forwardchars, hsrtl, Bool.false_eq_true, if_false, env_len hrel, he.tp]
    split <;> omega
  obtain ⟨c, hce, hcv⟩ := hcl
  have hsc := scan_spec hrel hpr c i (by omega)
  have hk : min c (runLen X.se P i) = min cmax (runLen X.se P i) := by omega
  rw [hk] at hsc
  generalize hkdef : min cmax (runLen X.se P i) = k at hsc
  have hbump : VM.bump s = 1 := by simp [VM.bump, hsrtl]
  have hbcommon : VM.body X.p X.env s =
      (if k > 0 ∧ (!atomic) = true then
        .ok (VM.push2 (VM.textto s ((i : Int) + (k : Int))) ((k : Int) - 1) ((i : Int) + (k : Int) - 1), .advance 2)
       else .ok (VM.textto s ((i : Int) + (k : Int)), .advance 2)) := by
    rw [hbody]; unfold VM.caseLoop
    simp only [bind, Except.bind, hop1, hop0, hcp, hce, hsrtl, Int.toNat_natCast, he.tp, hsc, pure, Except.pure, hbump,
      Int.one_mul, VM.textto]
    try (split <;> rfl)
  cases atomic with
  | true =>
    simp only [if_true]
    have hb : VM.body X.p X.env s = .ok (VM.textto s ((i : Int) + (k : Int)), .advance 2) := by
      rw [hbcommon]; simp
    exact deliver_one (k := 2) he hb rfl rfl rfl rfl (by simp [VM.textto]) ⟨w, hw⟩
  | false =>
    simp only [Bool.false_eq_true, if_false]
    cases k with
    | zero =>
      rw [downFrom_zero]
      have hb : VM.body X.p X.env s = .ok (VM.textto s ((i : Int) + ((0 : Nat) : Int)), .advance 2) := by
        rw [hbcommon]; simp
      exact deliver_one (k := 2) he hb rfl rfl rfl rfl (by simp [VM.textto]) ⟨w, hw⟩
    | succ k =>
      rw [downFrom_succ]
      have hb : VM.body X.p X.env s = .ok (VM.push2 (VM.textto s ((i : Int) + ((k + 1 : Nat) : Int)))
          (((k + 1 : Nat) : Int) - 1) ((i : Int) + ((k + 1 : Nat) : Int) - 1), .advance 2) := by
        rw [hbcommon]; simp
      refine Delivers.cons (v := v) [(a : Int), ((i + k : Nat) : Int), (k : Int)] (loop_frame hia ho (hfd rfl) _ _) ?_ ?_
      · have e1 : (i : Int) + ((k + 1 : Nat) : Int) - 1 = ((i + k : Nat) : Int) := by omega
        have e2 : ((k + 1 : Nat) : Int) - 1 = (k : Int) := by omega
        have e3 : (i : Int) + ((k + 1 : Nat) : Int) = ((i + (k + 1) : Nat) : Int) := by omega
        rw [e1, e2, e3] at hb
        refine Leads.of_step (step_adv hb (by simp only [VM.push2, VM.textto, he.pc]; exact hw)) (Leads.here ?_)
        exact ⟨by simp [VM.push2, VM.textto, he.pc], hw, by simp [VM.push2, VM.textto],
          by simp [VM.push2, VM.textto, he.pc, he.tr], he.st, he.cap⟩
      · intro s'' v' hf''
        exact loopBack_delivers hia ho (hfd rfl) (hback rfl) hrtl ⟨w, hw⟩ k v' s'' (by simpa using hf'')

/-- the positions a lazy loop offers after the first one, nearest first -/
def upFrom (q k : Nat) (C : List (Nat × Nat × Nat)) : List St := (List.range k).map (fun t => ⟨q + 1 + t, C⟩)

theorem upFrom_succ (q k : Nat) (C : List (Nat × Nat × Nat)) :
    upFrom q (k + 1) C = ⟨q + 1, C⟩ :: upFrom (q + 1) k C := by
  unfold upFrom
  rw [List.range_succ_eq_map]
  simp only [List.map_cons, List.map_map, Nat.add_zero, List.cons.injEq, true_and]
  apply List.map_congr_left
  intro t _
  simp only [Function.comp, St.mk.injEq, and_true]
  omega

/-- backtracking into the frame `(pos = q, count = j)` of a lazy loop: one more character, if it is there -/
theorem lazyBack_delivers (hrel : EnvRel TPx sets X.env X.se) {sel : Nat} {x : Int} {P : Pred} {ins : Instr}
    (hia : InstrAt X.p a ins) (hx : ins.args[0]? = some x) {o : VM.Op}
    (ho : Op.ofNat? (decode ins.op).op = some o) (hfd : VM.frameData o false = some 2)
    (hbody : ∀ s2 : VMState, s2.oper = { decode ins.op with back := true } →
      VM.body X.p X.env s2 = VM.caseLazyBack X.p X.env sel s2)
    (hrtl : (decode ins.op).rtl = false) (hpred : PredOk X sel x P) (hf : ∃ w, VM.fetch X.p (a + 3) = .ok w) :
    ∀ (j q : Nat) (v : Int) (s : VMState), q + j + 1 ≤ X.se.n →
      FailAt X ((a : Int) :: (q : Int) :: (j : Int) :: (T ++ [v])) S C s →
      Delivers X (a + 3) T S S C (upFrom q (min (j + 1) (runLen X.se P q)) C) s := by
  obtain ⟨pred, hcp, hpr⟩ := hpred
  obtain ⟨w, hw⟩ := hf
  intro j
  induction j with
  | zero =>
    intro q v s hq hfail
    obtain ⟨s2, chk, hst, hbe⟩ := fail_step hfail hia.fetch
    refine Delivers.of_step hst ?_
    obtain ⟨c, hc, hch⟩ := charAt_lt hrel q (by omega)
    have hacc : acc X.se P q = P.test X.se c := by simp [acc, hc]
    have hop0 := hia.operand hbe.pc 0 x hx
    have hsrtl : s2.oper.rtl = false := by rw [hbe.op]; exact hrtl
    have hfn : VM.forwardcharnext X.env false (q : Int) = .ok (c, (q : Int) + 1) := by
      simp [VM.forwardcharnext, hch, Except.map]
    by_cases hp : pred c = true
    · have ha : acc X.se P q = true := by rw [hacc, ← hpr]; exact hp
      have hR := runLen_of_acc ha
      have : min (0 + 1) (runLen X.se P q) = 0 + 1 := by omega
      rw [this, upFrom_succ]
      have hb : VM.body X.p X.env s2 = .ok (VM.textto { s2 with track := T ++ [v] } ((q : Int) + 1), .advance 2) := by
        rw [hbody s2 hbe.op]; unfold VM.caseLazyBack
        simp only [hbe.tr, bind, Except.bind, hop0, hcp, hsrtl, hfn, hp, if_true, pure, Except.pure]
        simp
      have : upFrom (q + 1) 0 C = [] := rfl
      rw [this]
      refine Delivers.single (r := ⟨q + 1, C⟩) (v := v)
        (Leads.of_step (step_adv hb (by simp only [VM.textto, hbe.pc]; exact hw)) (Leads.here ?_)) rfl
      exact ⟨by simp [VM.textto, hbe.pc], hw, by simp [VM.textto], rfl, hbe.st, hbe.cap⟩
    · have ha : acc X.se P q = false := by rw [hacc, ← hpr]; simpa using hp
      rw [runLen_of_not_acc ha]
      have hb : VM.body X.p X.env s2 = .ok (VM.textto { s2 with track := T ++ [v] } ((q : Int) + 1), .back) := by
        rw [hbody s2 hbe.op]; unfold VM.caseLazyBack
        simp only [hbe.tr, bind, Except.bind, hop0, hcp, hsrtl, hfn, hp, pure, Except.pure]
        simp
      exact Delivers.fail (v := v) (Leads.here ⟨_, hb, rfl, hbe.st, hbe.cap⟩)
  | succ j ih =>
    intro q v s hq hfail
    obtain ⟨s2, chk, hst, hbe⟩ := fail_step hfail hia.fetch
    refine Delivers.of_step hst ?_
    obtain ⟨c, hc, hch⟩ := charAt_lt hrel q (by omega)
    have hacc : acc X.se P q = P.test X.se c := by simp [acc, hc]
    have hop0 := hia.operand hbe.pc 0 x hx
    have hsrtl : s2.oper.rtl = false := by rw [hbe.op]; exact hrtl
    have hbump : VM.bump s2 = 1 := by simp [VM.bump, hsrtl]
    have hfn : VM.forwardcharnext X.env false (q : Int) = .ok (c, (q : Int) + 1) := by
      simp [VM.forwardcharnext, hch, Except.map]
    by_cases hp : pred c = true
    · have ha : acc X.se P q = true := by rw [hacc, ← hpr]; exact hp
      have hR := runLen_of_acc ha
      have : min (j + 1 + 1) (runLen X.se P q) = min (j + 1) (runLen X.se P (q + 1)) + 1 := by omega
      rw [this, upFrom_succ]
      have hb : VM.body X.p X.env s2 = .ok (VM.push2 (VM.textto { s2 with track := T ++ [v] } ((q : Int) + 1))
          (((j + 1 : Nat) : Int) - 1) ((q : Int) + 1), .advance 2) := by
        rw [hbody s2 hbe.op]; unfold VM.caseLazyBack
        have hj : ((j + 1 : Nat) : Int) > 0 := by omega
        simp only [hbe.tr, bind, Except.bind, hop0, hcp, hsrtl, hfn, hp, if_true, pure, Except.pure, hj, hbump]
      refine Delivers.cons (v := v) [(a : Int), ((q + 1 : Nat) : Int), (j : Int)] (loop_frame hia ho hfd _ _) ?_ ?_
      · have e1 : (q : Int) + 1 = ((q + 1 : Nat) : Int) := by omega
        have e2 : ((j + 1 : Nat) : Int) - 1 = (j : Int) := by omega
        rw [e2, e1] at hb
        refine Leads.of_step (step_adv hb (by simp only [VM.push2, VM.textto, hbe.pc]; exact hw)) (Leads.here ?_)
        exact ⟨by simp [VM.push2, VM.textto, hbe.pc], hw, by simp [VM.push2, VM.textto],
          by simp [VM.push2, VM.textto, hbe.pc], hbe.st, hbe.cap⟩
      · intro s'' v' hf''
        exact ih (q + 1) v' s'' (by omega) (by simpa using hf'')
    · have ha : acc X.se P q = false := by rw [hacc, ← hpr]; simpa using hp
      rw [runLen_of_not_acc ha]
      have hb : VM.body X.p X.env s2 = .ok (VM.textto { s2 with track := T ++ [v] } ((q : Int) + 1), .back) := by
        rw [hbody s2 hbe.op]; unfold VM.caseLazyBack
        simp only [hbe.tr, bind, Except.bind, hop0, hcp, hsrtl, hfn, hp, pure, Except.pure]
        simp
      exact Delivers.fail (v := v) (Leads.here ⟨_, hb, rfl, hbe.st, hbe.cap⟩)

/-- `Onelazy / Notonelazy / Setlazy  x cmax`: first no character, then one more at a time -/
theorem lazy_delivers (hrel : EnvRel TPx sets X.env X.se) {i : Nat} {s : VMState} (hi : i ≤ X.se.n)
    (he : Entry X a i (T ++ [v]) S C s) {sel cmax : Nat} {x : Int} {P : Pred} {ins : Instr}
    (hia : InstrAt X.p a ins) (hx : ins.args[0]? = some x) (hc : ins.args[1]? = some (cmax : Int)) {o : VM.Op}
    (ho : Op.ofNat? (decode ins.op).op = some o) (hfd : VM.frameData o false = some 2)
    (hbody : VM.body X.p X.env s = VM.caseLazy X.p X.env s)
    (hback : ∀ s2 : VMState, s2.oper = { decode ins.op with back := true } →
      VM.body X.p X.env s2 = VM.caseLazyBack X.p X.env sel s2)
    (hrtl : (decode ins.op).rtl = false) (hpred : PredOk X sel x P) (hf : ∃ w, VM.fetch X.p (a + 3) = .ok w) :
    Delivers X (a + 3) T S S C (⟨i, C⟩ :: upFrom i (min cmax (runLen X.se P i)) C) s := by
  obtain ⟨w, hw⟩ := hf
  have hop1 := hia.operand he.pc 1 (cmax : Int) hc
  have hR := runLen_le X.se P i
  have hsrtl : s.oper.rtl = false := by rw [he.oper hia]; exact hrtl
  have hcl : ∃ c : Nat, (if (cmax : Int) > VM.forwardchars X.env s then VM.forwardchars X.env s else (cmax : Int)) = (c : Int) ∧
      c = min cmax (X.se.n - i) := by
    refine ⟨min cmax (X.se.n - i), ?_, rfl⟩
    simp only [VM.forwardchars, hsrtl, Bool.false_eq_true, if_false, env_len hrel, he.tp]
    split <;> omega
  obtain ⟨c, hce, hcv⟩ := hcl
  have hk : min c (runLen X.se P i) = min cmax (runLen X.se P i) := by omega
  rw [← hk]
  cases c with
  | zero =>
    have hb : VM.body X.p X.env s = .ok (s, .advance 2) := by
      rw [hbody]; unfold VM.caseLazy
      simp only [bind, Except.bind, hop1, hce, pure, Except.pure]
      simp
    have : upFrom i (min 0 (runLen X.se P i)) C = [] := by simp [upFrom]
    rw [this]
    exact deliver_one (k := 2) he hb rfl rfl rfl rfl he.tp ⟨w, hw⟩
  | succ c =>
    have hb : VM.body X.p X.env s = .ok (VM.push2 s (((c + 1 : Nat) : Int) - 1) s.textpos, .advance 2) := by
      rw [hbody]; unfold VM.caseLazy
      simp only [bind, Except.bind, hop1, hce, pure, Except.pure]
      have : ((c + 1 : Nat) : Int) > 0 := by omega
      simp only [this, if_true]
    refine Delivers.cons (v := v) [(a : Int), (i : Int), (c : Int)] (loop_frame hia ho hfd _ _) ?_ ?_
    · have e2 : ((c + 1 : Nat) : Int) - 1 = (c : Int) := by omega
      rw [e2] at hb
      refine Leads.of_step (step_adv hb (by simp only [VM.push2, he.pc]; exact hw)) (Leads.here ?_)
      exact ⟨by simp [VM.push2, he.pc], hw, by simp [VM.push2, he.tp],
        by simp [VM.push2, he.pc, he.tr, he.tp], he.st, he.cap⟩
    · intro s'' v' hf''
      exact lazyBack_delivers hrel hia hx ho hfd hback hrtl hpred ⟨w, hw⟩ c i v' s'' (by omega) (by simpa using hf'')

/-- which predicate family a loop node type belongs to: 0 One, 1 Notone, 2 Set -/
def selOf (t : Nat) : Nat :=
  if t == opOneloop || t == opOnelazy || t == opOneloopatomic then 0
  else if t == opNotoneloop || t == opNotonelazy || t == opNotoneloopatomic then 1 else 2

/-- the successes of the variable part, by kind of loop -/
def kindList (t i k : Nat) (C : List (Nat × Nat × Nat)) : List St :=
  if isAtomicT t then [⟨i + k, C⟩] else if isLazyT t then ⟨i, C⟩ :: upFrom i k C else downFrom i k C

/-- the variable part `t x cmax` of a single-character loop node of type `t` -/
theorem looppart_delivers (hrel : EnvRel TPx sets X.env X.se) {i : Nat} {s : VMState} (hi : i ≤ X.se.n)
    (he : Entry X a i (T ++ [v]) S C s) {t sel cmax : Nat} {ci : Bool} {x : Int} {P : Pred}
    (ht : t ∈ charloopTypes ++ setloopTypes) (hselv : sel = selOf t)
    (hia : InstrAt X.p a (i2 (t ||| bits false ci) x (cmax : Int))) (hpred : PredOk X sel x P)
    (hf : ∃ w, VM.fetch X.p (a + 3) = .ok w) :
    Delivers X (a + 3) T S S C (kindList t i (min cmax (runLen X.se P i)) C) s := by
  simp only [charloopTypes, setloopTypes, List.mem_append, List.mem_cons, List.not_mem_nil, or_false] at ht
  rcases ht with (rfl | rfl | rfl | rfl | rfl | rfl) | (rfl | rfl | rfl)
  · -- opNotoneloop
    have hdec := (decode_bits opNotoneloop (by decide) false ci).2
    have hoper : s.oper = ⟨opNotoneloop, false, false, false, ci⟩ := by rw [he.oper hia]; exact hdec
    have hop : Op.ofNat? s.oper.op = some .notoneloop := by rw [hoper]; rfl
    have hb : s.oper.back = false := by rw [hoper]
    have hb2 : s.oper.back2 = false := by rw [hoper]
    have hsel : sel = 1 := by rw [hselv]; rfl
    subst hsel
    have hback : ∀ s2 : VMState, s2.oper = { decode (i2 (opNotoneloop ||| bits false ci) x (cmax : Int)).op with back := true } →
        VM.body X.p X.env s2 = VM.caseLoopBack s2 := by
      intro s2 h2
      have h2' : s2.oper = ⟨opNotoneloop, false, true, false, ci⟩ := by rw [h2]; show { decode (opNotoneloop ||| bits false ci) with back := true } = _; rw [hdec]
      have hop2 : Op.ofNat? s2.oper.op = some .notoneloop := by rw [h2']; rfl
      have hbb : s2.oper.back = true := by rw [h2']
      have hbb2 : s2.oper.back2 = false := by rw [h2']
      simp only [body, hop2, modeOf, hbb, hbb2]
    have := loop_delivers hrel hi he (sel := 1) (atomic := false) hia rfl rfl (o := .notoneloop) (by show Op.ofNat? (decode (opNotoneloop ||| bits false ci)).op = _; rw [hdec]; rfl)
      (fun _ => rfl) (by simp only [body, hop, modeOf, hb, hb2]) (fun _ => hback) (by show (decode (opNotoneloop ||| bits false ci)).rtl = _; rw [hdec]) hpred hf
    exact this
  · -- opNotoneloopatomic
    have hdec := (decode_bits opNotoneloopatomic (by decide) false ci).2
    have hoper : s.oper = ⟨opNotoneloopatomic, false, false, false, ci⟩ := by rw [he.oper hia]; exact hdec
    have hop : Op.ofNat? s.oper.op = some .notoneloopatomic := by rw [hoper]; rfl
    have hb : s.oper.back = false := by rw [hoper]
    have hb2 : s.oper.back2 = false := by rw [hoper]
    have hsel : sel = 1 := by rw [hselv]; rfl
    subst hsel
    have := loop_delivers hrel hi he (sel := 1) (atomic := true) hia rfl rfl (o := .notoneloopatomic) (by show Op.ofNat? (decode (opNotoneloopatomic ||| bits false ci)).op = _; rw [hdec]; rfl)
      (fun h => by cases h) (by simp only [body, hop, modeOf, hb, hb2]) (fun h => by cases h) (by show (decode (opNotoneloopatomic ||| bits false ci)).rtl = _; rw [hdec]) hpred hf
    exact this
  · -- opNotonelazy
    have hdec := (decode_bits opNotonelazy (by decide) false ci).2
    have hoper : s.oper = ⟨opNotonelazy, false, false, false, ci⟩ := by rw [he.oper hia]; exact hdec
    have hop : Op.ofNat? s.oper.op = some .notonelazy := by rw [hoper]; rfl
    have hb : s.oper.back = false := by rw [hoper]
    have hb2 : s.oper.back2 = false := by rw [hoper]
    have hsel : sel = 1 := by rw [hselv]; rfl
    subst hsel
    have hback : ∀ s2 : VMState, s2.oper = { decode (i2 (opNotonelazy ||| bits false ci) x (cmax : Int)).op with back := true } →
        VM.body X.p X.env s2 = VM.caseLazyBack X.p X.env 1 s2 := by
      intro s2 h2
      have h2' : s2.oper = ⟨opNotonelazy, false, true, false, ci⟩ := by rw [h2]; show { decode (opNotonelazy ||| bits false ci) with back := true } = _; rw [hdec]
      have hop2 : Op.ofNat? s2.oper.op = some .notonelazy := by rw [h2']; rfl
      have hbb : s2.oper.back = true := by rw [h2']
      have hbb2 : s2.oper.back2 = false := by rw [h2']
      simp only [body, hop2, modeOf, hbb, hbb2]
    have := lazy_delivers hrel hi he (sel := 1) hia rfl rfl (o := .notonelazy) (by show Op.ofNat? (decode (opNotonelazy ||| bits false ci)).op = _; rw [hdec]; rfl)
      rfl (by simp only [body, hop, modeOf, hb, hb2]) hback (by show (decode (opNotonelazy ||| bits false ci)).rtl = _; rw [hdec]) hpred hf
    exact this
  · -- opOneloop
    have hdec := (decode_bits opOneloop (by decide) false ci).2
    have hoper : s.oper = ⟨opOneloop, false, false, false, ci⟩ := by rw [he.oper hia]; exact hdec
    have hop : Op.ofNat? s.oper.op = some .oneloop := by rw [hoper]; rfl
    have hb : s.oper.back = false := by rw [hoper]
    have hb2 : s.oper.back2 = false := by rw [hoper]
    have hsel : sel = 0 := by rw [hselv]; rfl
    subst hsel
    have hback : ∀ s2 : VMState, s2.oper = { decode (i2 (opOneloop ||| bits false ci) x (cmax : Int)).op with back := true } →
        VM.body X.p X.env s2 = VM.caseLoopBack s2 := by
      intro s2 h2
      have h2' : s2.oper = ⟨opOneloop, false, true, false, ci⟩ := by rw [h2]; show { decode (opOneloop ||| bits false ci) with back := true } = _; rw [hdec]
      have hop2 : Op.ofNat? s2.oper.op = some .oneloop := by rw [h2']; rfl
      have hbb : s2.oper.back = true := by rw [h2']
      have hbb2 : s2.oper.back2 = false := by rw [h2']
      simp only [body, hop2, modeOf, hbb, hbb2]
    have := loop_delivers hrel hi he (sel := 0) (atomic := false) hia rfl rfl (o := .oneloop) (by show Op.ofNat? (decode (opOneloop ||| bits false ci)).op = _; rw [hdec]; rfl)
      (fun _ => rfl) (by simp only [body, hop, modeOf, hb, hb2]) (fun _ => hback) (by show (decode (opOneloop ||| bits false ci)).rtl = _; rw [hdec]) hpred hf
    exact this
  · -- opOneloopatomic
    have hdec := (decode_bits opOneloopatomic (by decide) false ci).2
    have hoper : s.oper = ⟨opOneloopatomic, false, false, false, ci⟩ := by rw [he.oper hia]; exact hdec
    have hop : Op.ofNat? s.oper.op = some .oneloopatomic := by rw [hoper]; rfl
    have hb : s.oper.back = false := by rw [hoper]
    have hb2 : s.oper.back2 = false := by rw [hoper]
    have hsel : sel = 0 := by rw [hselv]; rfl
    subst hsel
    have := loop_delivers hrel hi he (sel := 0) (atomic := true) hia rfl rfl (o := .oneloopatomic) (by show Op.ofNat? (decode (opOneloopatomic ||| bits false ci)).op = _; rw [hdec]; rfl)
      (fun h => by cases h) (by simp only [body, hop, modeOf, hb, hb2]) (fun h => by cases h) (by show (decode (opOneloopatomic ||| bits false ci)).rtl = _; rw [hdec]) hpred hf
    exact this
  · -- opOnelazy
    have hdec := (decode_bits opOnelazy (by decide) false ci).2
    have hoper : s.oper = ⟨opOnelazy, false, false, false, ci⟩ := by rw [he.oper hia]; exact hdec
    have hop : Op.ofNat? s.oper.op = some .onelazy := by rw [hoper]; rfl
    have hb : s.oper.back = false := by rw [hoper]
    have hb2 : s.oper.back2 = false := by rw [hoper]
    have hsel : sel = 0 := by rw [hselv]; rfl
    subst hsel
    have hback : ∀ s2 : VMState, s2.oper = { decode (i2 (opOnelazy ||| bits false ci) x (cmax : Int)).op with back := true } →
        VM.body X.p X.env s2 = VM.caseLazyBack X.p X.env 0 s2 := by
      intro s2 h2
      have h2' : s2.oper = ⟨opOnelazy, false, true, false, ci⟩ := by rw [h2]; show { decode (opOnelazy ||| bits false ci) with back := true } = _; rw [hdec]
      have hop2 : Op.ofNat? s2.oper.op = some .onelazy := by rw [h2']; rfl
      have hbb : s2.oper.back = true := by rw [h2']
      have hbb2 : s2.oper.back2 = false := by rw [h2']
      simp only [body, hop2, modeOf, hbb, hbb2]
    have := lazy_delivers hrel hi he (sel := 0) hia rfl rfl (o := .onelazy) (by show Op.ofNat? (decode (opOnelazy ||| bits false ci)).op = _; rw [hdec]; rfl)
      rfl (by simp only [body, hop, modeOf, hb, hb2]) hback (by show (decode (opOnelazy ||| bits false ci)).rtl = _; rw [hdec]) hpred hf
    exact this
  · -- opSetloop
    have hdec := (decode_bits opSetloop (by decide) false ci).2
    have hoper : s.oper = ⟨opSetloop, false, false, false, ci⟩ := by rw [he.oper hia]; exact hdec
    have hop : Op.ofNat? s.oper.op = some .setloop := by rw [hoper]; rfl
    have hb : s.oper.back = false := by rw [hoper]
    have hb2 : s.oper.back2 = false := by rw [hoper]
    have hsel : sel = 2 := by rw [hselv]; rfl
    subst hsel
    have hback : ∀ s2 : VMState, s2.oper = { decode (i2 (opSetloop ||| bits false ci) x (cmax : Int)).op with back := true } →
        VM.body X.p X.env s2 = VM.caseLoopBack s2 := by
      intro s2 h2
      have h2' : s2.oper = ⟨opSetloop, false, true, false, ci⟩ := by rw [h2]; show { decode (opSetloop ||| bits false ci) with back := true } = _; rw [hdec]
      have hop2 : Op.ofNat? s2.oper.op = some .setloop := by rw [h2']; rfl
      have hbb : s2.oper.back = true := by rw [h2']
      have hbb2 : s2.oper.back2 = false := by rw [h2']
      simp only [body, hop2, modeOf, hbb, hbb2]
    have := loop_delivers hrel hi he (sel := 2) (atomic := false) hia rfl rfl (o := .setloop) (by show Op.ofNat? (decode (opSetloop ||| bits false ci)).op = _; rw [hdec]; rfl)
      (fun _ => rfl) (by simp only [body, hop, modeOf, hb, hb2]) (fun _ => hback) (by show (decode (opSetloop ||| bits false ci)).rtl = _; rw [hdec]) hpred hf
    exact this
  · -- opSetlazy
    have hdec := (decode_bits opSetlazy (by decide) false ci).2
    have hoper : s.oper = ⟨opSetlazy, false, false, false, ci⟩ := by rw [he.oper hia]; exact hdec
    have hop : Op.ofNat? s.oper.op = some .setlazy := by rw [hoper]; rfl
    have hb : s.oper.back = false := by rw [hoper]
    have hb2 : s.oper.back2 = false := by rw [hoper]
    have hsel : sel = 2 := by rw [hselv]; rfl
    subst hsel
    have hback : ∀ s2 : VMState, s2.oper = { decode (i2 (opSetlazy ||| bits false ci) x (cmax : Int)).op with back := true } →
        VM.body X.p X.env s2 = VM.caseLazyBack X.p X.env 2 s2 := by
      intro s2 h2
      have h2' : s2.oper = ⟨opSetlazy, false, true, false, ci⟩ := by rw [h2]; show { decode (opSetlazy ||| bits false ci) with back := true } = _; rw [hdec]
      have hop2 : Op.ofNat? s2.oper.op = some .setlazy := by rw [h2']; rfl
      have hbb : s2.oper.back = true := by rw [h2']
      have hbb2 : s2.oper.back2 = false := by rw [h2']
      simp only [body, hop2, modeOf, hbb, hbb2]
    have := lazy_delivers hrel hi he (sel := 2) hia rfl rfl (o := .setlazy) (by show Op.ofNat? (decode (opSetlazy ||| bits false ci)).op = _; rw [hdec]; rfl)
      rfl (by simp only [body, hop, modeOf, hb, hb2]) hback (by show (decode (opSetlazy ||| bits false ci)).rtl = _; rw [hdec]) hpred hf
    exact this
  · -- opSetloopatomic
    have hdec := (decode_bits opSetloopatomic (by decide) false ci).2
    have hoper : s.oper = ⟨opSetloopatomic, false, false, false, ci⟩ := by rw [he.oper hia]; exact hdec
    have hop : Op.ofNat? s.oper.op = some .setloopatomic := by rw [hoper]; rfl
    have hb : s.oper.back = false := by rw [hoper]
    have hb2 : s.oper.back2 = false := by rw [hoper]
    have hsel : sel = 2 := by rw [hselv]; rfl
    subst hsel
    have := loop_delivers hrel hi he (sel := 2) (atomic := true) hia rfl rfl (o := .setloopatomic) (by show Op.ofNat? (decode (opSetloopatomic ||| bits false ci)).op = _; rw [hdec]; rfl)
      (fun h => by cases h) (by simp only [body, hop, modeOf, hb, hb2]) (fun h => by cases h) (by show (decode (opSetloopatomic ||| bits false ci)).rtl = _; rw [hdec]) hpred hf
    exact this

/-- the fixed part `rep x lo` -/
theorem reppart_delivers (hrel : EnvRel TPx sets X.env X.se) {i : Nat} {s : VMState} (hi : i ≤ X.se.n)
    (he : Entry X a i (T ++ [v]) S C s) {r sel lo : Nat} {ci : Bool} {x : Int} {P : Pred}
    (hr : (r = opOnerep ∧ sel = 0) ∨ (r = opNotonerep ∧ sel = 1) ∨ (r = opSetrep ∧ sel = 2))
    (hia : InstrAt X.p a (i2 (r ||| bits false ci) x (lo : Int))) (hpred : PredOk X sel x P)
    (hf : ∃ w, VM.fetch X.p (a + 3) = .ok w) :
    Delivers X (a + 3) T S S C (if lo ≤ runLen X.se P i then [⟨i + lo, C⟩] else []) s := by
  rcases hr with ⟨rfl, rfl⟩ | ⟨rfl, rfl⟩ | ⟨rfl, rfl⟩
  · have hoper : s.oper = ⟨opOnerep, false, false, false, ci⟩ := by
      rw [he.oper hia]; exact (decode_bits opOnerep (by decide) false ci).2
    have hop : Op.ofNat? s.oper.op = some .onerep := by rw [hoper]; rfl
    have hb : s.oper.back = false := by rw [hoper]
    have hb2 : s.oper.back2 = false := by rw [hoper]
    exact rep_delivers hrel hi he hia rfl rfl (by simp only [body, hop, modeOf, hb, hb2]) (by rw [hoper]) hpred hf
  · have hoper : s.oper = ⟨opNotonerep, false, false, false, ci⟩ := by
      rw [he.oper hia]; exact (decode_bits opNotonerep (by decide) false ci).2
    have hop : Op.ofNat? s.oper.op = some .notonerep := by rw [hoper]; rfl
    have hb : s.oper.back = false := by rw [hoper]
    have hb2 : s.oper.back2 = false := by rw [hoper]
    exact rep_delivers hrel hi he hia rfl rfl (by simp only [body, hop, modeOf, hb, hb2]) (by rw [hoper]) hpred hf
  · have hoper : s.oper = ⟨opSetrep, false, false, false, ci⟩ := by
      rw [he.oper hia]; exact (decode_bits opSetrep (by decide) false ci).2
    have hop : Op.ofNat? s.oper.op = some .setrep := by rw [hoper]; rfl
    have hb : s.oper.back = false := by rw [hoper]
    have hb2 : s.oper.back2 = false := by rw [hoper]
    exact rep_delivers hrel hi he hia rfl rfl (by simp only [body, hop, modeOf, hb, hb2]) (by rw [hoper]) hpred hf

/-- the operand of the variable part, as a number of characters -/
def varMax (m n : Int) : Nat := if n > m then (repArg m n).toNat else 0

theorem capN_arith {m n : Int} {R N : Nat} (h0 : 0 ≤ m) (hmn : m ≤ n) (hn : n ≤ maxInt32) (hR : R ≤ N)
    (hN : N ≤ 2147483647) (hlo : m.toNat ≤ R) :
    capN (hiOf n) 0 R + 1 - m.toNat = min (varMax m n) (R - m.toNat) + 1 := by
  unfold varMax hiOf repArg maxInt32 at *
  by_cases hmax : n = 2147483647
  · subst hmax
    simp only [beq_self_eq_true, if_true, capN]
    split <;> omega
  · have : (n == 2147483647) = false := by simpa using hmax
    simp only [this, Bool.false_eq_true, if_false, capN]
    split <;> omega

theorem capN_small {m n : Int} {R : Nat} (hlo : ¬ m.toNat ≤ R) : capN (hiOf n) 0 R + 1 - m.toNat = 0 := by
  unfold hiOf capN
  split <;> omega

theorem kinds_excl : ∀ t ∈ charloopTypes ++ setloopTypes, ¬ (isAtomicT t = true ∧ isLazyT t = true) := by decide

/-- the specification of a single-character loop node, as the two instructions compute it -/
theorem m_loopPat (e : Spec.Env) {t : Nat} (ht : t ∈ charloopTypes ++ setloopTypes) {m n : Int} (P : Pred) (i : Nat)
    (C : List (Nat × Nat × Nat)) (h0 : 0 ≤ m) (hmn : m ≤ n) (hn : n ≤ maxInt32) (hN : e.n ≤ 2147483647) :
    Spec.m e (loopPat t m n (.chr P)) false ⟨i, C⟩ =
      (if m.toNat ≤ runLen e P i then [(⟨i + m.toNat, C⟩ : St)] else []).flatMap
        (fun r => kindList t r.pos (min (varMax m n) (runLen e P r.pos)) r.caps) := by
  have hR := runLen_le e P i
  have hgreedy : Spec.m e (.quant false m.toNat (hiOf n) (.chr P)) false ⟨i, C⟩ =
      if m.toNat ≤ runLen e P i then downFrom (i + m.toNat) (min (varMax m n) (runLen e P (i + m.toNat))) C else [] := by
    rw [charloop_successes]
    by_cases hlo : m.toNat ≤ runLen e P i
    · rw [if_pos hlo, capN_arith h0 hmn hn (show runLen e P i ≤ e.n by omega) hN hlo, runLen_add e P _ _ hlo]
      rfl
    · rw [if_neg hlo, capN_small hlo]; rfl
  have hlazy : Spec.m e (.quant true m.toNat (hiOf n) (.chr P)) false ⟨i, C⟩ =
      if m.toNat ≤ runLen e P i then
        ⟨i + m.toNat, C⟩ :: upFrom (i + m.toNat) (min (varMax m n) (runLen e P (i + m.toNat))) C else [] := by
    rw [lazy_charloop_successes]
    by_cases hlo : m.toNat ≤ runLen e P i
    · rw [if_pos hlo, capN_arith h0 hmn hn (show runLen e P i ≤ e.n by omega) hN hlo, runLen_add e P _ _ hlo]
      rw [List.range_succ_eq_map]
      simp only [List.map_cons, List.map_map, Nat.add_zero, upFrom, List.cons.injEq, true_and]
      apply List.map_congr_left
      intro j _
      simp only [Function.comp, St.mk.injEq, and_true]
      omega
    · rw [if_neg hlo, capN_small hlo]; rfl
  unfold loopPat kindList
  have hex := kinds_excl t ht
  by_cases hat : isAtomicT t = true
  · have hlz : isLazyT t = false := by
      cases h : isLazyT t
      · rfl
      · exact absurd ⟨hat, h⟩ hex
    simp only [hat, if_true, hlz, m_atomic, hgreedy]
    split
    · simp only [List.flatMap_cons, List.flatMap_nil, List.append_nil]
      generalize min (varMax m n) (runLen e P (i + m.toNat)) = k
      cases k with
      | zero => simp [downFrom_zero]
      | succ k => rw [downFrom_succ]; simp
    · simp
  · have hat' : isAtomicT t = false := by simpa using hat
    simp only [hat', Bool.false_eq_true, if_false]
    by_cases hlz : isLazyT t = true
    · simp only [hlz, if_true, hlazy]
      split <;> simp
    · have hlz' : isLazyT t = false := by simpa using hlz
      simp only [hlz', Bool.false_eq_true, if_false, hgreedy]
      split <;> simp

theorem kindList_zero (t i : Nat) (C : List (Nat × Nat × Nat)) : kindList t i 0 C = [⟨i, C⟩] := by
  unfold kindList
  split
  · rfl
  · split
    · simp [upFrom]
    · exact downFrom_zero i C

theorem charloop_families : ∀ t ∈ charloopTypes,
    (isOneFamily t = true ∧ selOf t = 0 ∧ isNotoneFamily t = false) ∨
    (isOneFamily t = false ∧ selOf t = 1 ∧ isNotoneFamily t = true) := by decide

theorem setloop_family : ∀ t ∈ setloopTypes, selOf t = 2 := by decide

/-- **a single-character loop node**: `rep x m` (when `m > 0`) followed by `t x (n − m)` (when `n > m`) -/
theorem loopnode_delivers (hrel : EnvRel TPx sets X.env X.se) (hN : X.se.n ≤ 2147483647) {i : Nat} {s : VMState}
    (hi : i ≤ X.se.n) (he : Entry X a i (T ++ [v]) S C s) {t r sel : Nat} {ci : Bool} {x m n : Int} {P : Pred}
    (ht : t ∈ charloopTypes ++ setloopTypes) (hselv : sel = selOf t)
    (hr : (r = opOnerep ∧ sel = 0) ∨ (r = opNotonerep ∧ sel = 1) ∨ (r = opSetrep ∧ sel = 2))
    (h0 : 0 ≤ m) (hmn : m ≤ n) (hn : n ≤ maxInt32)
    (hcode : CodeAt X.p a ((if m > 0 then [i2 (r ||| bits false ci) x m] else []) ++
      (if n > m then [i2 (t ||| bits false ci) x (repArg m n)] else [])))
    (hpred : (m > 0 ∨ n > m) → PredOk X sel x P) :
    Delivers X (a + repLen m n) T S S C (Spec.m X.se (loopPat t m n (.chr P)) false ⟨i, C⟩) s := by
  rw [m_loopPat X.se ht P i C h0 hmn hn hN]
  have hR := runLen_le X.se P i
  have hmid : Delivers X (a + (if m > 0 then 3 else 0)) T S S C
      (if m.toNat ≤ runLen X.se P i then [(⟨i + m.toNat, C⟩ : St)] else []) s := by
    by_cases hm : m > 0
    · have hc1 := hcode.left'
      rw [if_pos hm] at hc1 ⊢
      have hia := hc1.instr
      have hcast : ((m.toNat : Nat) : Int) = m := by omega
      rw [← hcast] at hia
      exact reppart_delivers hrel hi he hr hia (hpred (Or.inl hm)) (by simpa using hc1.fetch_end)
    · have : m.toNat = 0 := by omega
      rw [if_neg hm, this]
      simp only [Nat.zero_le, if_true, Nat.add_zero]
      exact Delivers.single (Leads.here he) rfl
  refine (Delivers.bind (X := X) (b := a + (if m > 0 then 3 else 0) + (if n > m then 3 else 0)) _ s hmid ?_).cast
    (by unfold repLen; omega) rfl
  intro r' hr' F s' v' _ he'
  have hr'eq : r' = ⟨i + m.toNat, C⟩ ∧ m.toNat ≤ runLen X.se P i := by
    split at hr'
    · next h => simp at hr'; exact ⟨hr', h⟩
    · simp at hr'
  obtain ⟨rfl, hlo⟩ := hr'eq
  have hc2 := hcode.right
  have hlen1 : codeLen (if m > 0 then [i2 (r ||| bits false ci) x m] else []) = if m > 0 then 3 else 0 := by
    split <;> simp
  rw [hlen1] at hc2
  by_cases hnm : n > m
  · rw [if_pos hnm] at hc2 ⊢
    have hia := hc2.instr
    have hcast : (((repArg m n).toNat : Nat) : Int) = repArg m n := by
      unfold repArg maxInt32 at *; split <;> omega
    rw [← hcast] at hia
    have hv : varMax m n = (repArg m n).toNat := by simp [varMax, hnm]
    rw [hv]
    exact looppart_delivers hrel (show i + m.toNat ≤ X.se.n by omega) he' ht hselv hia (hpred (Or.inr hnm))
      (by simpa using hc2.fetch_end)
  · have hv : varMax m n = 0 := by simp [varMax, hnm]
    rw [if_neg hnm, hv]
    simp only [Nat.zero_min, kindList_zero, Nat.add_zero]
    exact Delivers.single (v := v') (Leads.here he') rfl

end loops

end RegexVerif.Compile
