import RegexVerif.Model.Groups

/-!
Lemmas for C17.  Part A: lists (`idxOf?`, `isort`, association lists, a pigeonhole fact, decimal
names).  Part B: invariants of the pre-scan.  Part C/D: the two name-assignment passes.  Part E:
the consistency record every compiled pattern satisfies.
-/
namespace RegexVerif.Groups

/-! ## Part A — lists -/

theorem idxOf?_eq_none {x : Nat} {l : List Nat} : idxOf? x l = none ↔ x ∉ l := by
  induction l with
  | nil => simp [idxOf?]
  | cons y ys ih =>
    by_cases h : y = x
    · simp [idxOf?, h]
    · have hne : ¬ x = y := fun e => h e.symm
      simp [idxOf?, h, ih, hne]

theorem idxOf?_some_lt {x s : Nat} {l : List Nat} (h : idxOf? x l = some s) : s < l.length ∧ l[s]? = some x := by
  induction l generalizing s with
  | nil => simp [idxOf?] at h
  | cons y ys ih =>
    by_cases hy : y = x
    · simp [idxOf?, hy] at h; subst h; simp [hy]
    · simp only [idxOf?, hy, if_false, Option.map_eq_some_iff] at h
      obtain ⟨s', hs', rfl⟩ := h
      have := ih hs'
      exact ⟨by simp; exact this.1, by simpa using this.2⟩

theorem idxOf?_getElem {l : List Nat} (hnd : l.Nodup) {i : Nat} {x : Nat} (h : l[i]? = some x) :
    idxOf? x l = some i := by
  induction l generalizing i with
  | nil => simp at h
  | cons y ys ih =>
    rw [List.nodup_cons] at hnd
    cases i with
    | zero => simp at h; simp [idxOf?, h]
    | succ i =>
      simp at h
      have hx : x ∈ ys := List.mem_iff_getElem?.mpr ⟨i, h⟩
      have hne : ¬ y = x := fun e => hnd.1 (e ▸ hx)
      simp [idxOf?, hne, ih hnd.2 h]

theorem idxOf?_of_mem {x : Nat} {l : List Nat} (h : x ∈ l) : ∃ s, idxOf? x l = some s := by
  cases hs : idxOf? x l with
  | none => exact absurd h (idxOf?_eq_none.mp hs)
  | some s => exact ⟨s, rfl⟩

/-! insertion sort -/

theorem mem_insertSorted {x y : Nat} {l : List Nat} : y ∈ insertSorted x l ↔ y = x ∨ y ∈ l := by
  induction l with
  | nil => simp [insertSorted]
  | cons z zs ih =>
    by_cases h : x ≤ z
    · simp [insertSorted, h]
    · simp [insertSorted, h, ih]; constructor <;> (intro h'; rcases h' with h' | h' | h' <;> simp [h'])

theorem mem_isort {y : Nat} {l : List Nat} : y ∈ isort l ↔ y ∈ l := by
  induction l with
  | nil => simp [isort]
  | cons x xs ih => simp [isort, mem_insertSorted, ih]

theorem length_insertSorted (x : Nat) (l : List Nat) : (insertSorted x l).length = l.length + 1 := by
  induction l with
  | nil => simp [insertSorted]
  | cons z zs ih => by_cases h : x ≤ z <;> simp [insertSorted, h, ih]

theorem length_isort (l : List Nat) : (isort l).length = l.length := by
  induction l with
  | nil => simp [isort]
  | cons x xs ih => simp [isort, length_insertSorted, ih]

theorem pairwise_insertSorted {x : Nat} {l : List Nat} (hl : l.Pairwise (· < ·)) (hx : x ∉ l) :
    (insertSorted x l).Pairwise (· < ·) := by
  induction l with
  | nil => simp [insertSorted]
  | cons z zs ih =>
    rw [List.pairwise_cons] at hl
    by_cases h : x ≤ z
    · simp only [insertSorted, h, if_true, List.pairwise_cons]
      have hxz : x < z := by
        have : x ≠ z := fun e => hx (by simp [e])
        omega
      refine ⟨?_, hl.1, hl.2⟩
      intro a ha
      rcases List.mem_cons.mp ha with rfl | ha
      · exact hxz
      · exact Nat.lt_trans hxz (hl.1 a ha)
    · simp only [insertSorted, h, if_false, List.pairwise_cons]
      refine ⟨?_, ih hl.2 (fun hm => hx (by simp [hm]))⟩
      intro a ha
      rcases mem_insertSorted.mp ha with rfl | ha
      · omega
      · exact hl.1 a ha

theorem pairwise_isort {l : List Nat} (hnd : l.Nodup) : (isort l).Pairwise (· < ·) := by
  induction l with
  | nil => simp [isort]
  | cons x xs ih =>
    rw [List.nodup_cons] at hnd
    exact pairwise_insertSorted (ih hnd.2) (fun h => hnd.1 (mem_isort.mp h))

theorem nodup_of_pairwise_lt {l : List Nat} (h : l.Pairwise (· < ·)) : l.Nodup :=
  h.imp (fun hab => Nat.ne_of_lt hab)

/-- pigeonhole: a duplicate-free list of numbers below `n` has at most `n` elements, and with
    exactly `n` elements it contains every number below `n` -/
theorem nodup_bounded (n : Nat) : ∀ (l : List Nat), l.Nodup → (∀ x ∈ l, x < n) →
    l.length ≤ n ∧ (l.length = n → ∀ x, x < n → x ∈ l) := by
  induction n with
  | zero =>
    intro l _ hb
    cases l with
    | nil => simp
    | cons a t => exact absurd (hb a (by simp)) (Nat.not_lt_zero _)
  | succ n ih =>
    intro l hnd hb
    by_cases hn : n ∈ l
    · have hnd' : (l.erase n).Nodup := hnd.erase n
      have hb' : ∀ x ∈ l.erase n, x < n := by
        intro x hx
        have := (hnd.mem_erase_iff).mp hx
        have := hb x this.2
        omega
      have hlen : (l.erase n).length = l.length - 1 := List.length_erase_of_mem hn
      have hpos : 0 < l.length := List.length_pos_of_mem hn
      obtain ⟨h1, h2⟩ := ih _ hnd' hb'
      refine ⟨by omega, ?_⟩
      intro hl x hx
      by_cases hxn : x = n
      · exact hxn ▸ hn
      · have : x ∈ l.erase n := h2 (by omega) x (by omega)
        exact ((hnd.mem_erase_iff).mp this).2
    · have hb' : ∀ x ∈ l, x < n := by
        intro x hx
        have := hb x hx
        have : x ≠ n := fun e => hn (e ▸ hx)
        omega
      obtain ⟨h1, _⟩ := ih _ hnd hb'
      exact ⟨by omega, fun hl => by omega⟩

/-- a strictly increasing list of `n` numbers below `n` is `0, 1, …, n-1` -/
theorem sorted_full_eq_range : ∀ (l : List Nat), l.Pairwise (· < ·) → (∀ x ∈ l, x < l.length) →
    l = List.range l.length := by
  intro l hs hb
  have key : ∀ (l : List Nat) (a : Nat), l.Pairwise (· < ·) → (∀ x ∈ l, a ≤ x ∧ x < a + l.length) →
      l = List.range' a l.length := by
    intro l
    induction l with
    | nil => intro a _ _; simp
    | cons y ys ih =>
      intro a hs hb
      rw [List.pairwise_cons] at hs
      have hy := hb y (by simp)
      -- every element of ys is > y ≥ a, and < a + len; so ys lives in [a+1, a+1+len ys)
      have hys : ∀ x ∈ ys, a + 1 ≤ x ∧ x < (a + 1) + ys.length := by
        intro x hx
        have h1 := hs.1 x hx
        have h2 := hb x (by simp [hx])
        simp at h2
        omega
      have hrec := ih (a + 1) hs.2 hys
      -- y must equal a: otherwise ys (len ys elements, nodup) lives in [y+1, a+len ys+1) which is too small
      have hya : y = a := by
        by_cases h : y = a
        · exact h
        · exfalso
          have hys' : ∀ x ∈ ys.map (· - (a + 2)), x < ys.length - 1 := by
            intro x hx
            obtain ⟨z, hz, rfl⟩ := List.mem_map.mp hx
            have h1 := hs.1 z hz
            have h2 := (hys z hz).2
            omega
          have hnd : (ys.map (· - (a + 2))).Nodup := by
            have : ys.Pairwise (fun p q => p - (a + 2) ≠ q - (a + 2)) := by
              refine hs.2.imp₂ (fun p q hpq hpq' => ?_) (List.pairwise_of_forall_mem_list (fun p hp q hq => (⟨hs.1 p hp, hs.1 q hq⟩ : y < p ∧ y < q)))
              omega
            exact List.pairwise_map.mpr this
          have := (nodup_bounded (ys.length - 1) _ hnd hys').1
          simp at this
          cases ys with
          | nil => simp at hy; omega
          | cons z zs => simp at this; omega
      subst hya
      simp [List.range'_succ]
      exact hrec
  have := key l 0 hs (by intro x hx; have := hb x hx; omega)
  simpa [List.range_eq_range'] using this

/-! association lists -/

theorem lookup_setKey_self (k : String) (v : Nat) (l : List (String × Nat)) :
    (setKey k v l).lookup k = some v := by
  induction l with
  | nil => simp [setKey]
  | cons p rest ih =>
    obtain ⟨k', v'⟩ := p
    by_cases h : k' = k
    · simp [setKey, h]
    · have : (k == k') = false := by simp; exact fun e => h e.symm
      simp [setKey, h, List.lookup_cons, this, ih]

theorem lookup_setKey_ne {k k' : String} (h : k' ≠ k) (v : Nat) (l : List (String × Nat)) :
    (setKey k v l).lookup k' = l.lookup k' := by
  induction l with
  | nil =>
    have : (k' == k) = false := by simp [h]
    simp [setKey, List.lookup_cons, this]
  | cons p rest ih =>
    obtain ⟨k₁, v₁⟩ := p
    by_cases h1 : k₁ = k
    · subst h1
      have : (k' == k₁) = false := by simp [h]
      simp [setKey, List.lookup_cons, this]
    · simp [setKey, h1, List.lookup_cons, ih]

theorem keys_setKey_of_mem {k : String} {v : Nat} {l : List (String × Nat)} (h : k ∈ l.map Prod.fst) :
    (setKey k v l).map Prod.fst = l.map Prod.fst := by
  induction l with
  | nil => simp at h
  | cons p rest ih =>
    obtain ⟨k₁, v₁⟩ := p
    by_cases h1 : k₁ = k
    · simp [setKey, h1]
    · have : k ∈ rest.map Prod.fst := by
        simp at h
        rcases h with h | h
        · exact absurd h.symm h1
        · simpa using h
      simp [setKey, h1, ih this]

theorem lookup_isSome_iff_mem_keys {k : String} {l : List (String × Nat)} :
    (l.lookup k).isSome ↔ k ∈ l.map Prod.fst := by
  induction l with
  | nil => simp
  | cons p rest ih =>
    obtain ⟨k₁, v₁⟩ := p
    by_cases h : k = k₁
    · simp [List.lookup_cons, h]
    · have : (k == k₁) = false := by simp [h]
      simp [List.lookup_cons, this, ih, h]

theorem lookup_append_of_none {k : String} {l l' : List (String × Nat)} (h : l.lookup k = none) :
    (l ++ l').lookup k = l'.lookup k := by
  induction l with
  | nil => simp
  | cons p rest ih =>
    obtain ⟨k₁, v₁⟩ := p
    by_cases hk : k = k₁
    · simp [List.lookup_cons, hk] at h
    · have hb : (k == k₁) = false := by simp [hk]
      simp only [List.lookup_cons, hb] at h
      simp [List.lookup_cons, hb, ih h]

theorem lookup_append_of_some {k : String} {v : Nat} {l l' : List (String × Nat)} (h : l.lookup k = some v) :
    (l ++ l').lookup k = some v := by
  induction l with
  | nil => simp at h
  | cons p rest ih =>
    obtain ⟨k₁, v₁⟩ := p
    by_cases hk : k = k₁
    · simp [List.lookup_cons, hk] at h ⊢; exact h
    · have hb : (k == k₁) = false := by simp [hk]
      simp only [List.lookup_cons, hb] at h
      simp [List.lookup_cons, hb, ih h]

/-! decimal names (`strconv.Itoa`) -/

theorem itoa_toList (a : Nat) : (itoa a).toList = Nat.toDigits 10 a := by
  unfold itoa; exact Nat.toList_repr

theorem itoa_inj {a b : Nat} (h : itoa a = itoa b) : a = b := by
  have h' : (itoa a).toList = (itoa b).toList := by rw [h]
  rw [itoa_toList, itoa_toList] at h'
  have := congrArg (fun l => Nat.ofDigitChars 10 l 0) h'
  simpa using this

theorem itoa_ne_empty (a : Nat) : itoa a ≠ "" := by
  intro h
  have h' : (itoa a).toList = ("" : String).toList := by rw [h]
  rw [itoa_toList] at h'
  simp at h'

theorem itoa_digits (a : Nat) : (itoa a).toList.all Char.isDigit = true := by
  rw [itoa_toList, List.all_eq_true]
  intro c hc
  exact Nat.isDigit_of_mem_toDigits (by decide) (by decide) hc

theorem ofDigitChars_itoa (a : Nat) : Nat.ofDigitChars 10 (itoa a).toList 0 = a := by
  rw [itoa_toList]; simp

theorem toDigits_head_ne_zero : ∀ (n : Nat), 1 ≤ n → ∀ c rest, Nat.toDigits 10 n = c :: rest → c ≠ '0' := by
  intro n
  induction n using Nat.strongRecOn with
  | _ n ih =>
    intro hn c rest h
    by_cases hlt : n < 10
    · rw [Nat.toDigits_of_lt_base hlt] at h
      injection h with h _
      subst h
      have : n = 1 ∨ n = 2 ∨ n = 3 ∨ n = 4 ∨ n = 5 ∨ n = 6 ∨ n = 7 ∨ n = 8 ∨ n = 9 := by omega
      rcases this with h | h | h | h | h | h | h | h | h <;> subst h <;> decide
    · rw [Nat.toDigits_of_base_le (by decide) (by omega)] at h
      cases hd : Nat.toDigits 10 (n / 10) with
      | nil => exact absurd hd Nat.toDigits_ne_nil
      | cons c' r' =>
        rw [hd] at h
        simp at h
        exact h.1 ▸ ih (n / 10) (by omega) (by omega) c' r' hd

/-- the decimal string of a number has no leading zero (unless it is "0") -/
theorem itoa_canonical (n : Nat) (c : Char) (rest : List Char) (h : (itoa n).toList = c :: rest)
    (hr : rest ≠ []) : c ≠ '0' := by
  rw [itoa_toList] at h
  cases n with
  | zero => simp at h; exact absurd h.2 hr
  | succ k => exact toDigits_head_ne_zero (k + 1) (by omega) c rest h

end RegexVerif.Groups

namespace RegexVerif.Groups

/-! ## Part B — invariants of the pre-scan -/

structure CapsInv (s : PState) : Prop where
  nodup : s.caps.Nodup
  zero : 0 ∈ s.caps
  bound : ∀ c ∈ s.caps, c < s.captop
  /-- every number below `autocap` has been noted -/
  below : ∀ j, j < s.autocap → j ∈ s.caps

structure NamesInv (s : PState) : Prop where
  keys : (s.capnames.getD []).map Prod.fst = s.capnamelist
  nodup : s.capnamelist.Nodup

theorem noteSlot_caps_mem {i : Nat} {s : PState} {c : Nat} :
    c ∈ (noteSlot i s).caps ↔ c ∈ s.caps ∨ c = i := by
  unfold noteSlot
  by_cases h : i ∈ s.caps
  · simp [h]; intro e; exact e ▸ h
  · simp [h]

theorem noteSlot_names (i : Nat) (s : PState) :
    (noteSlot i s).capnames = s.capnames ∧ (noteSlot i s).capnamelist = s.capnamelist ∧
    (noteSlot i s).autocap = s.autocap := by
  unfold noteSlot; by_cases h : i ∈ s.caps <;> simp [h]

theorem noteSlot_captop_ge (i : Nat) (s : PState) : s.captop ≤ (noteSlot i s).captop := by
  unfold noteSlot; by_cases h : i ∈ s.caps <;> simp [h]
  split <;> omega

/-- `noteCaptureSlot` keeps the slot table duplicate-free and below `captop` -/
theorem noteSlot_inv {i : Nat} {s : PState} (h : s.caps.Nodup ∧ 0 ∈ s.caps ∧ ∀ c ∈ s.caps, c < s.captop) :
    (noteSlot i s).caps.Nodup ∧ 0 ∈ (noteSlot i s).caps ∧ ∀ c ∈ (noteSlot i s).caps, c < (noteSlot i s).captop := by
  obtain ⟨h1, h2, h3⟩ := h
  unfold noteSlot
  by_cases hi : i ∈ s.caps
  · simp [hi, h1, h2]; exact h3
  · simp only [hi, if_false]
    refine ⟨?_, by simp [h2], ?_⟩
    · rw [List.nodup_append]
      refine ⟨h1, by simp, ?_⟩
      intro a ha b hb
      simp at hb; subst hb
      exact fun e => hi (e ▸ ha)
    · intro c hc
      simp at hc
      rcases hc with hc | hc
      · have := h3 c hc; split <;> omega
      · subst hc; split <;> omega

theorem capsInv_noteSlot_consume {s : PState} (h : CapsInv s) :
    CapsInv (noteSlot s.autocap { s with autocap := s.autocap + 1 }) := by
  have hb := noteSlot_inv (i := s.autocap) (s := { s with autocap := s.autocap + 1 }) ⟨h.nodup, h.zero, h.bound⟩
  refine ⟨hb.1, hb.2.1, hb.2.2, ?_⟩
  intro j hj
  rw [(noteSlot_names _ _).2.2] at hj
  simp at hj
  rw [noteSlot_caps_mem]
  by_cases hj' : j < s.autocap
  · exact Or.inl (h.below j hj')
  · exact Or.inr (by omega)

theorem capsInv_noteSlot {s : PState} (k : Nat) (h : CapsInv s) : CapsInv (noteSlot k s) := by
  have hb := noteSlot_inv (i := k) (s := s) ⟨h.nodup, h.zero, h.bound⟩
  refine ⟨hb.1, hb.2.1, hb.2.2, ?_⟩
  intro j hj
  rw [(noteSlot_names _ _).2.2] at hj
  rw [noteSlot_caps_mem]
  exact Or.inl (h.below j hj)

theorem capsInv_init : CapsInv initState := by
  refine ⟨by simp [initState], by simp [initState], by simp [initState], ?_⟩
  intro j hj; simp [initState] at hj ⊢; omega

theorem namesInv_init : NamesInv initState := ⟨by simp [initState], by simp [initState]⟩

theorem CapsInv.congr {s t : PState} (h : CapsInv s) (h1 : t.caps = s.caps) (h2 : t.captop = s.captop)
    (h3 : t.autocap = s.autocap) : CapsInv t :=
  ⟨h1 ▸ h.nodup, h1 ▸ h.zero, by rw [h1, h2]; exact h.bound, by rw [h1, h3]; exact h.below⟩

theorem noteName_inv {cfg : Cfg} {name : String} {s s' : PState} (h : noteName cfg name s = some s')
    (hc : CapsInv s) (hn : NamesInv s) : CapsInv s' ∧ NamesInv s' := by
  unfold noteName at h
  simp only at h
  by_cases hex : ((s.capnames.getD []).lookup name).isSome = true
  · rw [if_pos hex] at h
    by_cases he : cfg.ecma = true
    · rw [if_pos he] at h; exact absurd h (by simp)
    · rw [if_neg he] at h
      injection h with h; subst h
      exact ⟨hc.congr rfl rfl rfl, ⟨by simpa using hn.keys, hn.nodup⟩⟩
  · rw [if_neg hex] at h
    have hnot : name ∉ s.capnamelist := by
      rw [← hn.keys]; exact fun hm => hex (lookup_isSome_iff_mem_keys.mpr hm)
    have hnd : (s.capnamelist ++ [name]).Nodup := by
      rw [List.nodup_append]
      refine ⟨hn.nodup, by simp, ?_⟩
      intro a ha b hb; simp at hb; subst hb; exact fun e => hnot (e ▸ ha)
    by_cases ho : cfg.ord = true
    · rw [if_pos ho] at h
      injection h with h; subst h
      let t : PState := { s with capnames := some (s.capnames.getD [] ++ [(name, s.autocap)]),
                                 capnamelist := s.capnamelist ++ [name] }
      have hct : CapsInv t := hc.congr rfl rfl rfl
      have hc1 : CapsInv (noteSlot t.autocap { t with autocap := t.autocap + 1 }) := capsInv_noteSlot_consume hct
      have hnm := noteSlot_names t.autocap { t with autocap := t.autocap + 1 }
      refine ⟨hc1, ?_⟩
      constructor
      · show ((noteSlot t.autocap { t with autocap := t.autocap + 1 }).capnames.getD []).map Prod.fst = (noteSlot t.autocap { t with autocap := t.autocap + 1 }).capnamelist
        rw [hnm.1, hnm.2.1]; simp [t, hn.keys]
      · show (noteSlot t.autocap { t with autocap := t.autocap + 1 }).capnamelist.Nodup
        rw [hnm.2.1]; exact hnd
    · rw [if_neg ho] at h
      injection h with h; subst h
      exact ⟨hc.congr rfl rfl rfl, ⟨by simp [hn.keys], hnd⟩⟩

theorem scanEvent_inv {cfg : Cfg} {e : Event} {s s' : PState} (h : scanEvent cfg s e = some s')
    (hc : CapsInv s) (hn : NamesInv s) : CapsInv s' ∧ NamesInv s' := by
  cases e with
  | noncap => simp [scanEvent] at h; subst h; exact ⟨hc, hn⟩
  | numbered0 k =>
    simp only [scanEvent] at h
    by_cases he : cfg.ecma
    · simp [he] at h; subst h; exact ⟨hc, hn⟩
    · simp only [he] at h
      by_cases ho : cfg.ord
      · simp only [ho, if_true] at h
        exact noteName_inv (by simpa using h) hc hn
      · simp [ho] at h; subst h
        have hnm := noteSlot_names k s
        exact ⟨capsInv_noteSlot k hc, ⟨by rw [hnm.1, hnm.2.1]; exact hn.keys, by rw [hnm.2.1]; exact hn.nodup⟩⟩
  | unnamed =>
    simp only [scanEvent] at h
    by_cases hx : cfg.explicitCapture
    · simp [hx] at h; subst h; exact ⟨hc, hn⟩
    · simp [hx] at h; subst h
      have hnm := noteSlot_names s.autocap { s with autocap := s.autocap + 1 }
      exact ⟨capsInv_noteSlot_consume hc, ⟨by rw [hnm.1, hnm.2.1]; exact hn.keys, by rw [hnm.2.1]; exact hn.nodup⟩⟩
  | named name => exact noteName_inv (by simpa [scanEvent] using h) hc hn
  | numbered k =>
    simp only [scanEvent] at h
    by_cases he : cfg.ecma
    · simp [he] at h; subst h; exact ⟨hc, hn⟩
    · simp only [he] at h
      by_cases ho : cfg.ord
      · simp only [ho, if_true] at h
        exact noteName_inv (by simpa using h) hc hn
      · simp [ho] at h; subst h
        have hnm := noteSlot_names k s
        exact ⟨capsInv_noteSlot k hc, ⟨by rw [hnm.1, hnm.2.1]; exact hn.keys, by rw [hnm.2.1]; exact hn.nodup⟩⟩

theorem scanEvents_inv {cfg : Cfg} : ∀ (evs : List Event) {s s' : PState}, scanEvents cfg evs s = some s' →
    CapsInv s → NamesInv s → CapsInv s' ∧ NamesInv s'
  | [], s, s', h, hc, hn => by simp [scanEvents] at h; subst h; exact ⟨hc, hn⟩
  | e :: es, s, s', h, hc, hn => by
    simp only [scanEvents] at h
    cases h1 : scanEvent cfg s e with
    | none => simp [h1] at h
    | some s1 =>
      simp [h1] at h
      have := scanEvent_inv h1 hc hn
      exact scanEvents_inv es h this.1 this.2

end RegexVerif.Groups

namespace RegexVerif.Groups

/-! ## Part C — `assignNameSlots` (no MaintainCaptureOrder) -/

theorem nextFree_spec (caps : List Nat) (top : Nat) (hb : ∀ c ∈ caps, c < top) :
    ∀ (f a : Nat), top ≤ f + a →
      nextFree caps f a ∉ caps ∧ a ≤ nextFree caps f a ∧ ∀ b, a ≤ b → b < nextFree caps f a → b ∈ caps
  | 0, a, h => by
    simp only [nextFree]
    exact ⟨fun hm => by have := hb a hm; omega, Nat.le_refl _, fun b h1 h2 => by omega⟩
  | f + 1, a, h => by
    simp only [nextFree]
    by_cases ha : a ∈ caps
    · rw [if_pos ha]
      obtain ⟨h1, h2, h3⟩ := nextFree_spec caps top hb f (a + 1) (by omega)
      refine ⟨h1, by omega, ?_⟩
      intro b hb1 hb2
      by_cases hba : b = a
      · exact hba ▸ ha
      · exact h3 b (by omega) hb2
    · rw [if_neg ha]
      exact ⟨ha, Nat.le_refl _, fun b h1 h2 => by omega⟩

/-- one round of the first loop of `assignNameSlots` -/
def assignStep (name : String) (s : PState) : PState :=
  let a := nextFree s.caps (s.captop - s.autocap) s.autocap
  let s1 := noteSlot a { s with autocap := a, capnames := some (setKey name a (s.capnames.getD [])) }
  { s1 with autocap := a + 1 }

theorem assignLoop_cons (name : String) (rest : List String) (s : PState) :
    assignLoop (name :: rest) s = assignLoop rest (assignStep name s) := rfl

theorem assignStep_spec (name : String) (s : PState) (hc : CapsInv s) :
    let a := nextFree s.caps (s.captop - s.autocap) s.autocap
    CapsInv (assignStep name s) ∧ (assignStep name s).capnames = some (setKey name a (s.capnames.getD [])) ∧
    (assignStep name s).capnamelist = s.capnamelist ∧ a ∉ s.caps ∧ s.autocap ≤ a ∧
    (∀ b, s.autocap ≤ b → b < a → b ∈ s.caps) ∧ (assignStep name s).autocap = a + 1 ∧
    (∀ c, c ∈ (assignStep name s).caps ↔ c ∈ s.caps ∨ c = a) := by
  intro a
  obtain ⟨h1, h2, h3⟩ := nextFree_spec s.caps s.captop hc.bound (s.captop - s.autocap) s.autocap (by omega)
  let t : PState := { s with autocap := a, capnames := some (setKey name a (s.capnames.getD [])) }
  have hnm := noteSlot_names a t
  have hinv := noteSlot_inv (i := a) (s := t) ⟨hc.nodup, hc.zero, hc.bound⟩
  have hmem : ∀ c, c ∈ (noteSlot a t).caps ↔ c ∈ s.caps ∨ c = a := fun c => noteSlot_caps_mem
  refine ⟨⟨hinv.1, hinv.2.1, hinv.2.2, ?_⟩, hnm.1, hnm.2.1, h1, h2, h3, rfl, hmem⟩
  intro j hj
  show j ∈ (noteSlot a t).caps
  rw [hmem]
  have hj' : j < a + 1 := hj
  by_cases hj1 : j < s.autocap
  · exact Or.inl (hc.below j hj1)
  · by_cases hj2 : j = a
    · exact Or.inr hj2
    · exact Or.inl (h3 j (by omega) (by omega))

theorem assignLoop_spec : ∀ (ns : List String) (s : PState) (cn : List (String × Nat)),
    s.capnames = some cn → CapsInv s → (∀ nm ∈ ns, nm ∈ cn.map Prod.fst) → ns.Nodup →
    ∃ cn', (assignLoop ns s).capnames = some cn' ∧ CapsInv (assignLoop ns s) ∧
      (assignLoop ns s).capnamelist = s.capnamelist ∧ cn'.map Prod.fst = cn.map Prod.fst ∧
      (∀ nm, nm ∉ ns → cn'.lookup nm = cn.lookup nm) ∧
      (∀ nm ∈ ns, ∃ k, cn'.lookup nm = some k ∧ k ∈ (assignLoop ns s).caps) ∧
      (∀ c ∈ s.caps, c ∈ (assignLoop ns s).caps)
  | [], s, cn, hcn, hc, _, _ => ⟨cn, by simpa [assignLoop] using hcn, by simpa [assignLoop] using hc, rfl, rfl,
      fun _ _ => rfl, fun _ h => by simp at h, fun c h => by simpa [assignLoop] using h⟩
  | name :: rest, s, cn, hcn, hc, hk, hnd => by
    rw [assignLoop_cons]
    obtain ⟨hc1, hn1, hl1, _, _, _, _, hmem⟩ := assignStep_spec name s hc
    rw [hcn] at hn1
    simp only [Option.getD_some] at hn1
    rw [List.nodup_cons] at hnd
    have hkeys : (setKey name (nextFree s.caps (s.captop - s.autocap) s.autocap) cn).map Prod.fst = cn.map Prod.fst :=
      keys_setKey_of_mem (hk name (by simp))
    obtain ⟨cn', h1, h2, h3, h4, h5, h6, h7⟩ := assignLoop_spec rest (assignStep name s) _ hn1 hc1
      (fun nm hm => by rw [hkeys]; exact hk nm (by simp [hm])) hnd.2
    refine ⟨cn', h1, h2, by rw [h3, hl1], by rw [h4, hkeys], ?_, ?_, ?_⟩
    · intro nm hnm
      simp at hnm
      rw [h5 nm hnm.2, lookup_setKey_ne hnm.1]
    · intro nm hnm
      rcases List.mem_cons.mp hnm with rfl | hr
      · refine ⟨nextFree s.caps (s.captop - s.autocap) s.autocap, ?_, ?_⟩
        · rw [h5 nm hnd.1, lookup_setKey_self]
        · exact h7 _ ((hmem _).mpr (Or.inr rfl))
      · exact h6 nm hr
    · intro c hcm
      exact h7 c ((hmem c).mpr (Or.inl hcm))

/-- what the merge loop of `assignNameSlots` produces -/
theorem mergeNames_spec : ∀ (js : List Nat) (old : List String) (next : Option Nat) (cn : List (String × Nat)),
    js.Nodup → (∀ nm ∈ old, nm ≠ "" ∧ ∀ k : Nat, nm ≠ itoa k) →
    next = old.head?.bind (fun n => cn.lookup n) →
    (mergeNames js old next cn).1.length = js.length ∧
    (∀ (i : Nat) (nm : String), (mergeNames js old next cn).1[i]? = some nm → (mergeNames js old next cn).2.lookup nm = js[i]?) ∧
    (∀ nm, (∀ j ∈ js, nm ≠ itoa j) → (mergeNames js old next cn).2.lookup nm = cn.lookup nm) ∧
    (∀ nm k, (mergeNames js old next cn).2.lookup nm = some k → cn.lookup nm = some k ∨ k ∈ js) ∧
    "" ∉ (mergeNames js old next cn).1
  | [], old, next, cn, _, _, _ => by simp [mergeNames]
  | j :: js, old, next, cn, hnd, hold, hnext => by
    rw [List.nodup_cons] at hnd
    by_cases hn : next = some j
    · cases old with
      | nil => simp [hn] at hnext
      | cons nm old' =>
        have hlk : cn.lookup nm = some j := by simpa [hn] using hnext.symm
        have hnm := hold nm (by simp)
        obtain ⟨h1, h2, h3, h4, h5⟩ := mergeNames_spec js old' (old'.head?.bind (fun n => cn.lookup n)) cn hnd.2
          (fun x hx => hold x (by simp [hx])) rfl
        have hr3 : (mergeNames js old' (old'.head?.bind (fun n => cn.lookup n)) cn).2.lookup nm = cn.lookup nm :=
          h3 nm (fun j' _ => hnm.2 j')
        simp only [mergeNames, hn, if_true]
        refine ⟨by simp [h1], ?_, ?_, ?_, ?_⟩
        · intro i x hx
          cases i with
          | zero => simp at hx; subst hx; simp [hr3, hlk]
          | succ i => simp at hx; simpa using h2 i x hx
        · intro x hx
          exact h3 x (fun j' hj' => hx j' (by simp [hj']))
        · intro x k hxk
          rcases h4 x k hxk with h | h
          · exact Or.inl h
          · exact Or.inr (by simp [h])
        · simp; exact ⟨fun e => hnm.1 e, h5⟩
    · have hold1 : ∀ x ∈ old, (setKey (itoa j) j cn).lookup x = cn.lookup x :=
        fun x hx => lookup_setKey_ne ((hold x hx).2 j) j cn
      have hnext' : next = old.head?.bind (fun n => (setKey (itoa j) j cn).lookup n) := by
        rw [hnext]
        cases old with
        | nil => rfl
        | cons x xs => simp [hold1 x (by simp)]
      obtain ⟨h1, h2, h3, h4, h5⟩ := mergeNames_spec js old next (setKey (itoa j) j cn) hnd.2 hold hnext'
      have hself : (mergeNames js old next (setKey (itoa j) j cn)).2.lookup (itoa j) = some j := by
        rw [h3 (itoa j) (fun j' hj' e => hnd.1 (itoa_inj e ▸ hj'))]
        exact lookup_setKey_self _ _ _
      simp only [mergeNames, hn, if_false]
      refine ⟨by simp [h1], ?_, ?_, ?_, ?_⟩
      · intro i x hx
        cases i with
        | zero => simp at hx; subst hx; simp [hself]
        | succ i => simp at hx; simpa using h2 i x hx
      · intro x hx
        rw [h3 x (fun j' hj' => hx j' (by simp [hj']))]
        exact lookup_setKey_ne (hx j (by simp)) j cn
      · intro x k hxk
        rcases h4 x k hxk with h | h
        · by_cases hxj : x = itoa j
          · subst hxj
            rw [lookup_setKey_self] at h
            injection h with h; exact Or.inr (by simp [h])
          · rw [lookup_setKey_ne hxj] at h; exact Or.inl h
        · exact Or.inr (by simp [h])
      · simp; exact ⟨fun e => itoa_ne_empty j e, h5⟩

end RegexVerif.Groups

namespace RegexVerif.Groups

/-- the numbers in use, ascending: `capnumlist` when there is a gap, else `0 … capcount-1` -/
def usedNumbers (caps : List Nat) (captop : Nat) : List Nat :=
  if caps.length < captop then isort caps else List.range caps.length

theorem usedNumbers_spec {caps : List Nat} {captop : Nat} (hnd : caps.Nodup) (hb : ∀ c ∈ caps, c < captop) :
    (usedNumbers caps captop).Pairwise (· < ·) ∧ (usedNumbers caps captop).length = caps.length ∧
    (∀ k, k ∈ usedNumbers caps captop ↔ k ∈ caps) ∧
    (¬ caps.length < captop → caps.length = captop) := by
  have hph := nodup_bounded captop caps hnd hb
  unfold usedNumbers
  by_cases h : caps.length < captop
  · rw [if_pos h]
    exact ⟨pairwise_isort hnd, length_isort _, fun k => mem_isort, fun h' => absurd h h'⟩
  · rw [if_neg h]
    have hlen : caps.length = captop := by omega
    refine ⟨List.pairwise_lt_range, by simp, ?_, fun _ => hlen⟩
    intro k
    simp only [List.mem_range]
    constructor
    · intro hk; exact hph.2 hlen k (by omega)
    · intro hk; have := hb k hk; omega

/-- consistency of the tables the pre-scan hands over -/
structure TInv (good : Prop) (ecma : Bool) (t : Tables) : Prop where
  nodup : t.caps.Nodup
  zero : 0 ∈ t.caps
  bound : ∀ c ∈ t.caps, c < t.captop
  cnl : t.capnumlist = if t.caps.length < t.captop then some (isort t.caps) else none
  both : t.caplist = none ↔ t.capnames = none
  dense_of_none : t.caplist = none → t.capnumlist = none
  len : ∀ cl, t.caplist = some cl → cl.length = t.caps.length
  /-- (`good`: no written name is a decimal number — fails only for `(?<k>…)` in pattern-order mode) -/
  name_num : good → ∀ cl cn, t.caplist = some cl → t.capnames = some cn → ∀ (i : Nat) (nm : String),
      cl[i]? = some nm → nm ≠ "" → cn.lookup nm = (usedNumbers t.caps t.captop)[i]?
  nonempty : good → ecma = false → ∀ cl, t.caplist = some cl → "" ∉ cl
  values : ∀ cn, t.capnames = some cn → ∀ nm k, cn.lookup nm = some k → k ∈ t.caps

theorem TInv.imp {g g' : Prop} {e : Bool} {t : Tables} (h : g' → g) (ht : TInv g e t) : TInv g' e t :=
  ⟨ht.nodup, ht.zero, ht.bound, ht.cnl, ht.both, ht.dense_of_none, ht.len, fun hg => ht.name_num (h hg),
   fun hg => ht.nonempty (h hg), ht.values⟩

theorem capnumlistOf_getD (s : PState) :
    (capnumlistOf s).getD (List.range s.caps.length) = usedNumbers s.caps s.captop := by
  unfold capnumlistOf usedNumbers
  by_cases h : s.caps.length < s.captop <;> simp [h]

theorem finishNames_inv (s : PState) (hc : CapsInv s) (hn : NamesInv s)
    (hgood : ∀ nm ∈ s.capnamelist, nm ≠ "" ∧ ∀ k : Nat, nm ≠ itoa k)
    (hvals : ∀ cn, s.capnames = some cn → ∀ nm ∈ s.capnamelist, ∃ k, cn.lookup nm = some k ∧ k ∈ s.caps) :
    TInv True false (finishNames s) ∧ (finishNames s).caps = s.caps ∧ (finishNames s).captop = s.captop ∧
    (∀ cn nm, s.capnames = some cn → nm ∈ s.capnamelist →
        ((finishNames s).capnames.bind fun c => c.lookup nm) = cn.lookup nm) := by
  obtain ⟨hu1, hu2, hu3, hu4⟩ := usedNumbers_spec hc.nodup hc.bound
  have hcnl : capnumlistOf s = if s.caps.length < s.captop then some (isort s.caps) else none := rfl
  unfold finishNames
  simp only
  by_cases hcond : (s.capnames.isSome || (capnumlistOf s).isSome) = true
  · rw [if_pos hcond]
    have hold : (if s.capnames.isSome = true then s.capnamelist else []) = s.capnamelist := by
      cases hcn : s.capnames with
      | none => have := hn.keys; simp [hcn] at this; simp [this]
      | some cn => simp
    rw [hold, capnumlistOf_getD]
    obtain ⟨m1, m2, m3, m4, m5⟩ := mergeNames_spec (usedNumbers s.caps s.captop) s.capnamelist
      (s.capnamelist.head?.bind fun n => (s.capnames.getD []).lookup n) (s.capnames.getD [])
      (nodup_of_pairwise_lt hu1) hgood rfl
    refine ⟨⟨hc.nodup, hc.zero, hc.bound, hcnl, by simp, by simp, ?_, ?_, ?_, ?_⟩, rfl, rfl, ?_⟩
    · intro cl hcl; simp at hcl; subst hcl; rw [m1, hu2]
    · intro _ cl cn hcl hcn i nm hi _
      simp at hcl hcn; subst hcl; subst hcn
      exact m2 i nm hi
    · intro _ _ cl hcl; simp at hcl; subst hcl; exact m5
    · intro cn hcn nm k hk
      simp at hcn; subst hcn
      rcases m4 nm k hk with h | h
      · -- a user name: its number was noted by the first loop
        cases hcn : s.capnames with
        | none => simp [hcn] at h
        | some cn0 =>
          simp [hcn] at h
          have hmem : nm ∈ s.capnamelist := by
            rw [← hn.keys, hcn]; simp only [Option.getD_some]
            exact lookup_isSome_iff_mem_keys.mp (by simp [h])
          obtain ⟨k', hk', hk'c⟩ := hvals cn0 hcn nm hmem
          rw [h] at hk'; injection hk' with hk'; exact hk' ▸ hk'c
      · exact (hu3 k).mp h
    · intro cn nm hcn hnm
      simp only [Option.bind_some]
      rw [m3 nm (fun j _ => (hgood nm hnm).2 j), hcn]; rfl
  · rw [if_neg hcond]
    simp at hcond
    refine ⟨⟨hc.nodup, hc.zero, hc.bound, hcnl, by simp, fun _ => hcond.2, by simp, by simp, by simp, by simp⟩, rfl, rfl, ?_⟩
    intro cn nm hcn; simp [hcond.1] at hcn

end RegexVerif.Groups

namespace RegexVerif.Groups

theorem assignNameSlots_inv (s0 : PState) (hc : CapsInv s0) (hn : NamesInv s0)
    (hgood : ∀ nm ∈ s0.capnamelist, nm ≠ "" ∧ ∀ k : Nat, nm ≠ itoa k) :
    TInv True false (assignNameSlots s0) ∧ (∀ c ∈ s0.caps, c ∈ (assignNameSlots s0).caps) ∧
    (∀ nm ∈ s0.capnamelist, ∃ k, ((assignNameSlots s0).capnames.bind fun c => c.lookup nm) = some k ∧
        k ∈ (assignNameSlots s0).caps) := by
  unfold assignNameSlots
  cases hcn : s0.capnames with
  | none =>
    have hnil : s0.capnamelist = [] := by have := hn.keys; simpa [hcn] using this.symm
    simp only [Option.isSome_none, Bool.false_eq_true, if_false]
    obtain ⟨h1, h2, _, _⟩ := finishNames_inv s0 hc hn hgood (fun cn h => by simp [hcn] at h)
    exact ⟨h1, fun c hcm => h2 ▸ hcm, fun nm hnm => by simp [hnil] at hnm⟩
  | some cn0 =>
    simp only [Option.isSome_some, if_true]
    have hkeys : cn0.map Prod.fst = s0.capnamelist := by have := hn.keys; simpa [hcn] using this
    obtain ⟨cn', a1, a2, a3, a4, _, a6, a7⟩ := assignLoop_spec s0.capnamelist s0 cn0 hcn hc
      (fun nm hm => hkeys ▸ hm) hn.nodup
    have hn' : NamesInv (assignLoop s0.capnamelist s0) :=
      ⟨by rw [a1, a3]; simp [a4, hkeys], by rw [a3]; exact hn.nodup⟩
    obtain ⟨h1, h2, _, h4⟩ := finishNames_inv (assignLoop s0.capnamelist s0) a2 hn' (by rw [a3]; exact hgood)
      (fun cn hcn' nm hnm => by
        rw [a1] at hcn'; injection hcn' with hcn'; subst hcn'
        exact a6 nm (by rw [a3] at hnm; exact hnm))
    refine ⟨h1, fun c hcm => h2 ▸ a7 c hcm, ?_⟩
    intro nm hnm
    obtain ⟨k, hk1, hk2⟩ := a6 nm hnm
    exact ⟨k, by rw [h4 cn' nm a1 (by rw [a3]; exact hnm), hk1], h2 ▸ hk2⟩

/-! ## Part D — `assignOrderedNameSlots` (MaintainCaptureOrder, ECMAScript) -/

/-- in pattern-order mode slots are handed out consecutively -/
structure OrdInv (s : PState) : Prop where
  caps : s.caps = List.range s.autocap
  captop : s.captop = s.autocap
  pos : 1 ≤ s.autocap
  vals : ∀ cn, s.capnames = some cn → ∀ nm k, cn.lookup nm = some k → k < s.autocap

theorem ordInv_init : OrdInv initState :=
  ⟨by simp [initState, List.range_succ], rfl, by simp [initState], by simp [initState]⟩

theorem ordInv_consume {s : PState} (h : OrdInv s) (cn' : Option (List (String × Nat))) (l' : List String)
    (hv : ∀ cn, cn' = some cn → ∀ nm k, cn.lookup nm = some k → k < s.autocap + 1) :
    OrdInv (noteSlot s.autocap { s with autocap := s.autocap + 1, capnames := cn', capnamelist := l' }) := by
  have hnot : s.autocap ∉ s.caps := by rw [h.caps]; simp
  unfold noteSlot
  simp only [hnot, if_false]
  refine ⟨by simp [h.caps, List.range_succ], by simp [h.captop], by simp, ?_⟩
  intro cn hcn; exact hv cn hcn

theorem noteName_ordInv {cfg : Cfg} (ho : cfg.ord = true) {name : String} {s s' : PState}
    (h : noteName cfg name s = some s') (hi : OrdInv s) : OrdInv s' := by
  unfold noteName at h
  simp only at h
  by_cases hex : ((s.capnames.getD []).lookup name).isSome = true
  · rw [if_pos hex] at h
    by_cases he : cfg.ecma = true
    · rw [if_pos he] at h; exact absurd h (by simp)
    · rw [if_neg he] at h
      injection h with h; subst h
      refine ⟨hi.caps, hi.captop, hi.pos, ?_⟩
      intro cn hcn nm k hk
      simp at hcn; subst hcn
      cases hc : s.capnames with
      | none => simp [hc] at hk
      | some c => simp [hc] at hk; exact hi.vals c hc nm k hk
  · rw [if_neg hex, if_pos ho] at h
    injection h with h; subst h
    apply ordInv_consume hi
    intro cn hcn nm k hk
    injection hcn with hcn; subst hcn
    cases hl : (s.capnames.getD []).lookup nm with
    | none =>
      rw [lookup_append_of_none hl] at hk
      by_cases hnm : nm = name
      · subst hnm; simp at hk; omega
      · have : (nm == name) = false := by simp [hnm]
        simp [List.lookup_cons, this] at hk
    | some k' =>
      rw [lookup_append_of_some hl] at hk
      injection hk with hk; subst hk
      cases hc : s.capnames with
      | none => simp [hc] at hl
      | some c => simp [hc] at hl; have := hi.vals c hc nm k' hl; omega

theorem scanEvent_ordInv {cfg : Cfg} (ho : cfg.ord = true) {e : Event} {s s' : PState}
    (h : scanEvent cfg s e = some s') (hi : OrdInv s) : OrdInv s' := by
  cases e with
  | noncap => simp [scanEvent] at h; subst h; exact hi
  | numbered0 k =>
    simp only [scanEvent] at h
    by_cases he : cfg.ecma = true
    · rw [if_pos he] at h; injection h with h; subst h; exact hi
    · rw [if_neg he, if_pos ho] at h
      exact noteName_ordInv ho h hi
  | unnamed =>
    simp only [scanEvent] at h
    by_cases hx : cfg.explicitCapture = true
    · rw [if_pos hx] at h; injection h with h; subst h; exact hi
    · rw [if_neg hx] at h; injection h with h; subst h
      exact ordInv_consume hi s.capnames s.capnamelist (fun cn hcn nm k hk => by have := hi.vals cn hcn nm k hk; omega)
  | named name => exact noteName_ordInv ho (by simpa [scanEvent] using h) hi
  | numbered k =>
    simp only [scanEvent] at h
    by_cases he : cfg.ecma = true
    · rw [if_pos he] at h; injection h with h; subst h; exact hi
    · rw [if_neg he, if_pos ho] at h
      exact noteName_ordInv ho h hi

theorem scanEvents_ordInv {cfg : Cfg} (ho : cfg.ord = true) : ∀ (evs : List Event) {s s' : PState},
    scanEvents cfg evs s = some s' → OrdInv s → OrdInv s'
  | [], s, s', h, hi => by simp [scanEvents] at h; subst h; exact hi
  | e :: es, s, s', h, hi => by
    simp only [scanEvents] at h
    cases h1 : scanEvent cfg s e with
    | none => simp [h1] at h
    | some s1 => simp [h1] at h; exact scanEvents_ordInv ho es h (scanEvent_ordInv ho h1 hi)

/-- where the names in `capnamelist` come from -/
theorem scanEvents_names {cfg : Cfg} : ∀ (evs : List Event) {s s' : PState}, scanEvents cfg evs s = some s' →
    ∀ nm ∈ s'.capnamelist, nm ∈ s.capnamelist ∨ Event.named nm ∈ evs ∨
      ∃ k, (Event.numbered k ∈ evs ∨ Event.numbered0 k ∈ evs) ∧ nm = itoa k ∧ cfg.ord = true
  | [], s, s', h, nm, hnm => by simp [scanEvents] at h; subst h; exact Or.inl hnm
  | e :: es, s, s', h, nm, hnm => by
    simp only [scanEvents] at h
    cases h1 : scanEvent cfg s e with
    | none => simp [h1] at h
    | some s1 =>
      simp [h1] at h
      have hname : ∀ (name : String) (t : PState), noteName cfg name s = some t →
          ∀ x ∈ t.capnamelist, x ∈ s.capnamelist ∨ x = name := by
        intro name t ht x hx
        unfold noteName at ht
        simp only at ht
        split at ht
        · split at ht
          · exact absurd ht (by simp)
          · injection ht with ht; subst ht; exact Or.inl hx
        · split at ht
          · injection ht with ht; subst ht
            rw [(noteSlot_names _ _).2.1] at hx
            simpa using hx
          · injection ht with ht; subst ht; simpa using hx
      rcases scanEvents_names es h nm hnm with hr | hr | ⟨k, hk, hk', hko⟩
      · -- nm was in the list after the first event
        cases e with
        | noncap => simp [scanEvent] at h1; subst h1; exact Or.inl hr
        | numbered0 k =>
          simp only [scanEvent] at h1
          by_cases he : cfg.ecma = true
          · rw [if_pos he] at h1; injection h1 with h1; subst h1; exact Or.inl hr
          · rw [if_neg he] at h1
            by_cases ho : cfg.ord = true
            · rw [if_pos ho] at h1
              rcases hname (itoa k) s1 h1 nm hr with h' | h'
              · exact Or.inl h'
              · exact Or.inr (Or.inr ⟨k, by simp, h', ho⟩)
            · rw [if_neg ho] at h1
              injection h1 with h1; subst h1
              rw [(noteSlot_names _ _).2.1] at hr; exact Or.inl hr
        | unnamed =>
          simp only [scanEvent] at h1
          split at h1
          · injection h1 with h1; subst h1; exact Or.inl hr
          · injection h1 with h1; subst h1
            rw [(noteSlot_names _ _).2.1] at hr; exact Or.inl hr
        | named name =>
          rcases hname name s1 (by simpa [scanEvent] using h1) nm hr with h' | h'
          · exact Or.inl h'
          · exact Or.inr (Or.inl (by simp [h']))
        | numbered k =>
          simp only [scanEvent] at h1
          by_cases he : cfg.ecma = true
          · rw [if_pos he] at h1; injection h1 with h1; subst h1; exact Or.inl hr
          · rw [if_neg he] at h1
            by_cases ho : cfg.ord = true
            · rw [if_pos ho] at h1
              rcases hname (itoa k) s1 h1 nm hr with h' | h'
              · exact Or.inl h'
              · exact Or.inr (Or.inr ⟨k, by simp, h', ho⟩)
            · rw [if_neg ho] at h1
              injection h1 with h1; subst h1
              rw [(noteSlot_names _ _).2.1] at hr; exact Or.inl hr
      · exact Or.inr (Or.inl (by simp [hr]))
      · exact Or.inr (Or.inr ⟨k, by rcases hk with hk | hk <;> simp [hk], hk', hko⟩)

end RegexVerif.Groups

namespace RegexVerif.Groups

/-- first loop of `assignOrderedNameSlots` (no gaps): a non-empty entry sits at the slot of its name -/
theorem placeNames_spec (cn : List (String × Nat)) : ∀ (names : List String) (cl : List String),
    (∀ nm ∈ names, (cn.lookup nm).isSome) →
    (∀ (i : Nat) (nm : String), cl[i]? = some nm → nm ≠ "" → cn.lookup nm = some i) →
    (placeNames none cn names cl).length = cl.length ∧
    (∀ (i : Nat) (nm : String), (placeNames none cn names cl)[i]? = some nm → nm ≠ "" → cn.lookup nm = some i)
  | [], cl, _, h => by simp [placeNames]; exact h
  | name :: rest, cl, hk, h => by
    simp only [placeNames]
    have hsome := hk name (by simp)
    obtain ⟨slot, hslot⟩ := Option.isSome_iff_exists.mp hsome
    have h' : ∀ (i : Nat) (nm : String), (cl.set slot name)[i]? = some nm → nm ≠ "" → cn.lookup nm = some i := by
      intro i nm hi hne
      rw [List.getElem?_set] at hi
      by_cases hsi : slot = i
      · subst hsi
        simp only [if_true] at hi
        split at hi
        · injection hi with hi; subst hi; exact hslot
        · exact absurd hi (by simp)
      · simp only [hsi, if_false] at hi
        exact h i nm hi hne
    have := placeNames_spec cn rest (cl.set slot name) (fun nm hm => hk nm (by simp [hm])) h'
    simp only [hslot, Option.getD_some]
    exact ⟨by simpa using this.1, this.2⟩

/-- second loop of `assignOrderedNameSlots` -/
theorem fillNames_spec : ∀ (slots : List Nat) (cl : List String) (cn : List (String × Nat)),
    slots.length = cl.length → slots.Nodup →
    (∀ (i : Nat) (nm : String), cl[i]? = some nm → nm ≠ "" → cn.lookup nm = slots[i]?) →
    (∀ j ∈ slots, cn.lookup (itoa j) = none) →
    (fillNames slots cl cn).1.length = cl.length ∧
    (∀ (i : Nat) (nm : String), (fillNames slots cl cn).1[i]? = some nm → (fillNames slots cl cn).2.lookup nm = slots[i]?) ∧
    "" ∉ (fillNames slots cl cn).1 ∧
    (∀ nm k, cn.lookup nm = some k → (fillNames slots cl cn).2.lookup nm = some k) ∧
    (∀ nm k, (fillNames slots cl cn).2.lookup nm = some k → cn.lookup nm = some k ∨ k ∈ slots)
  | [], [], cn, _, _, _, _ => by simp [fillNames]
  | [], _ :: _, cn, hl, _, _, _ => by simp at hl
  | _ :: _, [], cn, hl, _, _, _ => by simp at hl
  | slot :: slots, nm :: cl, cn, hl, hnd, hA, hB => by
    rw [List.nodup_cons] at hnd
    simp only [fillNames]
    by_cases hnm : nm = ""
    · -- unnamed slot: gets its decimal number, which is new in the map
      have hnone : cn.lookup (itoa slot) = none := hB slot (by simp)
      simp only [hnm, if_true, hnone, Option.isSome_none, Bool.false_eq_true, if_false]
      have hself : (cn ++ [(itoa slot, slot)]).lookup (itoa slot) = some slot := by
        rw [lookup_append_of_none hnone]; simp
      obtain ⟨r1, r2, r3, r4, r5⟩ := fillNames_spec slots cl (cn ++ [(itoa slot, slot)]) (by simpa using hl) hnd.2
        (fun i x hx hne => by
          have := hA (i + 1) x (by simpa using hx) hne
          simp at this
          cases hs : slots[i]? with
          | none => rw [hs] at this; rw [List.getElem?_eq_none_iff] at hs
                    have hlt : i < cl.length := by
                      have := (List.getElem?_eq_some_iff.mp hx).1; exact this
                    simp at hl; omega
          | some v => rw [hs] at this; exact lookup_append_of_some this)
        (fun j hj => by
          rw [lookup_append_of_none (hB j (by simp [hj]))]
          have hne : itoa j ≠ itoa slot := fun e => hnd.1 (itoa_inj e ▸ hj)
          have : (itoa j == itoa slot) = false := by simp [hne]
          simp [List.lookup_cons, this])
      refine ⟨by simp [r1], ?_, ?_, ?_, ?_⟩
      · intro i x hx
        cases i with
        | zero => simp at hx; subst hx; simp [r4 _ _ hself]
        | succ i => simp at hx; simpa using r2 i x hx
      · simp; exact ⟨fun e => itoa_ne_empty slot e, r3⟩
      · intro x k hk; exact r4 x k (lookup_append_of_some hk)
      · intro x k hk
        rcases r5 x k hk with h | h
        · cases hl' : cn.lookup x with
          | none =>
            rw [lookup_append_of_none hl'] at h
            by_cases hx : x = itoa slot
            · subst hx; simp at h; exact Or.inr (by simp [h])
            · have : (x == itoa slot) = false := by simp [hx]
              simp [List.lookup_cons, this] at h
          | some k' =>
            rw [lookup_append_of_some hl'] at h
            exact Or.inl h
        · exact Or.inr (by simp [h])
    · -- named slot: its name is in the map already
      have hlk : cn.lookup nm = some slot := by simpa using hA 0 nm (by simp) hnm
      simp only [hnm, if_false, hlk, Option.isSome_some, if_true]
      obtain ⟨r1, r2, r3, r4, r5⟩ := fillNames_spec slots cl cn (by simpa using hl) hnd.2
        (fun i x hx hne => by simpa using hA (i + 1) x (by simpa using hx) hne)
        (fun j hj => hB j (by simp [hj]))
      refine ⟨by simp [r1], ?_, ?_, r4, ?_⟩
      · intro i x hx
        cases i with
        | zero => simp at hx; subst hx; simp [r4 _ _ hlk]
        | succ i => simp at hx; simpa using r2 i x hx
      · simp; exact ⟨fun e => hnm e, r3⟩
      · intro x k hk
        rcases r5 x k hk with h | h
        · exact Or.inl h
        · exact Or.inr (by simp [h])

/-- what the second loop does to the map, whatever the names are -/
theorem fillNames_basic : ∀ (slots : List Nat) (cl : List String) (cn : List (String × Nat)),
    slots.length = cl.length →
    (fillNames slots cl cn).1.length = cl.length ∧
    (∀ nm k, cn.lookup nm = some k → (fillNames slots cl cn).2.lookup nm = some k) ∧
    (∀ nm k, (fillNames slots cl cn).2.lookup nm = some k → cn.lookup nm = some k ∨ k ∈ slots)
  | [], [], cn, _ => by simp [fillNames]
  | [], _ :: _, cn, hl => by simp at hl
  | _ :: _, [], cn, hl => by simp at hl
  | slot :: slots, nm :: cl, cn, hl => by
    simp only [fillNames]
    by_cases hsome : (cn.lookup (if nm = "" then itoa slot else nm)).isSome = true
    · simp only [hsome, if_true]
      obtain ⟨r1, r4, r5⟩ := fillNames_basic slots cl cn (by simpa using hl)
      refine ⟨by simp [r1], r4, ?_⟩
      intro x k hk
      rcases r5 x k hk with h | h
      · exact Or.inl h
      · exact Or.inr (by simp [h])
    · simp only [hsome, Bool.false_eq_true, if_false]
      have hnone : cn.lookup (if nm = "" then itoa slot else nm) = none := by
        cases h : cn.lookup (if nm = "" then itoa slot else nm) with
        | none => rfl
        | some v => simp [h] at hsome
      obtain ⟨r1, r4, r5⟩ := fillNames_basic slots cl (cn ++ [(if nm = "" then itoa slot else nm, slot)]) (by simpa using hl)
      refine ⟨by simp [r1], fun x k hk => r4 x k (lookup_append_of_some hk), ?_⟩
      intro x k hk
      rcases r5 x k hk with h | h
      · cases hl' : cn.lookup x with
        | none =>
          rw [lookup_append_of_none hl'] at h
          by_cases hx : x = (if nm = "" then itoa slot else nm)
          · rw [hx] at h; simp at h; exact Or.inr (by simp [h])
          · have : (x == (if nm = "" then itoa slot else nm)) = false := by simp [hx]
            simp [List.lookup_cons, this] at h
        | some k' => rw [lookup_append_of_some hl'] at h; exact Or.inl h
      · exact Or.inr (by simp [h])

theorem assignOrderedNameSlots_inv (cfg : Cfg) (s : PState) (hc : CapsInv s) (hn : NamesInv s) (ho : OrdInv s) :
    TInv (∀ nm ∈ s.capnamelist, nm ≠ "" ∧ ∀ k : Nat, nm ≠ itoa k) cfg.ecma (assignOrderedNameSlots cfg s) ∧
    (assignOrderedNameSlots cfg s).caps = s.caps ∧
    (∀ nm ∈ s.capnamelist, ((assignOrderedNameSlots cfg s).capnames.bind fun c => c.lookup nm) =
        (s.capnames.bind fun c => c.lookup nm)) := by
  have hlen : s.caps.length = s.captop := by rw [ho.caps, ho.captop]; simp
  have hcnl : capnumlistOf s = none := by unfold capnumlistOf; simp [hlen]
  have hcnl' : (if s.caps.length < s.captop then some (isort s.caps) else none) = (none : Option (List Nat)) := by simp [hlen]
  have hused : usedNumbers s.caps s.captop = List.range s.caps.length := by unfold usedNumbers; simp [hlen]
  unfold assignOrderedNameSlots
  by_cases hearly : (!cfg.ecma && s.capnames.isNone && decide (s.caps.length = s.captop)) = true
  · rw [if_pos hearly]
    have hnone : s.capnames = none := by simp at hearly; exact hearly.1.2
    have hnil : s.capnamelist = [] := by have := hn.keys; simpa [hnone] using this.symm
    refine ⟨⟨hc.nodup, hc.zero, hc.bound, hcnl'.symm, by simp, by simp, by simp, by simp, by simp, by simp⟩, rfl, ?_⟩
    intro nm hnm; simp [hnil] at hnm
  · rw [if_neg hearly]
    simp only [hcnl, Option.getD_none]
    have hkeys : ∀ nm ∈ s.capnamelist, ((s.capnames.getD []).lookup nm).isSome := by
      intro nm hnm; rw [← hn.keys] at hnm; exact lookup_isSome_iff_mem_keys.mpr hnm
    obtain ⟨p1, p2⟩ := placeNames_spec (s.capnames.getD []) s.capnamelist (List.replicate s.caps.length "") hkeys
      (by intro i nm hi hne; rw [List.getElem?_replicate] at hi; split at hi
          · injection hi with hi; exact absurd hi.symm hne
          · exact absurd hi (by simp))
    simp only [List.length_replicate] at p1
    have hvals0 : ∀ nm k, (s.capnames.getD []).lookup nm = some k → k ∈ s.caps := by
      intro nm k hk
      cases hcn : s.capnames with
      | none => simp [hcn] at hk
      | some c => simp [hcn] at hk; rw [ho.caps]; simp; exact ho.vals c hcn nm k hk
    have hdigit : (∀ nm ∈ s.capnamelist, nm ≠ "" ∧ ∀ k : Nat, nm ≠ itoa k) →
        ∀ j : Nat, (s.capnames.getD []).lookup (itoa j) = none := by
      intro hgood j
      cases hl : (s.capnames.getD []).lookup (itoa j) with
      | none => rfl
      | some v =>
        have hm : itoa j ∈ s.capnamelist := by
          rw [← hn.keys]; exact lookup_isSome_iff_mem_keys.mp (by simp [hl])
        exact absurd rfl ((hgood _ hm).2 j)
    by_cases he : cfg.ecma = true
    · rw [if_pos he]
      refine ⟨⟨hc.nodup, hc.zero, hc.bound, hcnl'.symm, by simp, by simp, ?_, ?_, by simp [he], ?_⟩, rfl, ?_⟩
      · intro cl hcl; simp at hcl; subst hcl; exact p1
      · intro _ cl cn hcl hcn i nm hi hne
        simp at hcl hcn; subst hcl; subst hcn
        rw [hused, p2 i nm hi hne]
        have hlt : i < s.caps.length := by
          have := (List.getElem?_eq_some_iff.mp hi).1; omega
        simp [List.getElem?_range hlt]
      · intro cn hcn nm k hk; simp at hcn; subst hcn; exact hvals0 nm k hk
      · intro nm _
        cases hcn : s.capnames <;> simp
    · rw [if_neg he]
      have hef : cfg.ecma = false := by simpa using he
      have hp1 : (List.range s.caps.length).length =
          (placeNames none (s.capnames.getD []) s.capnamelist (List.replicate s.caps.length "")).length := by simp [p1]
      obtain ⟨f1, f4, f5⟩ := fillNames_basic (List.range s.caps.length)
        (placeNames none (s.capnames.getD []) s.capnamelist (List.replicate s.caps.length "")) (s.capnames.getD []) hp1
      have hspec := fun (hgood : ∀ nm ∈ s.capnamelist, nm ≠ "" ∧ ∀ k : Nat, nm ≠ itoa k) =>
        fillNames_spec (List.range s.caps.length)
          (placeNames none (s.capnames.getD []) s.capnamelist (List.replicate s.caps.length "")) (s.capnames.getD [])
          hp1 List.nodup_range
          (by intro i nm hi hne
              rw [p2 i nm hi hne]
              have hlt : i < s.caps.length := by
                have := (List.getElem?_eq_some_iff.mp hi).1; omega
              simp [List.getElem?_range hlt])
          (fun j _ => hdigit hgood j)
      refine ⟨⟨hc.nodup, hc.zero, hc.bound, hcnl'.symm, by simp, by simp, ?_, ?_, ?_, ?_⟩, rfl, ?_⟩
      · intro cl hcl; simp at hcl; subst hcl; rw [f1, p1]
      · intro hgood cl cn hcl hcn i nm hi _
        simp at hcl hcn; subst hcl; subst hcn
        rw [hused]; exact (hspec hgood).2.1 i nm hi
      · intro hgood _ cl hcl; simp at hcl; subst hcl; exact (hspec hgood).2.2.1
      · intro cn hcn nm k hk
        simp at hcn; subst hcn
        rcases f5 nm k hk with h | h
        · exact hvals0 nm k h
        · rw [ho.caps]; simp at h ⊢; rw [ho.caps] at h; simpa using h
      · intro nm hnm
        obtain ⟨k, hk⟩ := Option.isSome_iff_exists.mp (hkeys nm hnm)
        simp only [Option.bind_some]
        rw [f4 nm k hk]
        cases hcn : s.capnames with
        | none => simp [hcn] at hk
        | some c => simp [hcn] at hk; simp [hk]

end RegexVerif.Groups

namespace RegexVerif.Groups

/-! ## Part E — every compiled pattern has consistent tables -/

/-- names written in the pattern are not empty and not all digits (an all-digit name is a number) -/
def GoodNames (evs : List Event) : Prop :=
  ∀ nm, Event.named nm ∈ evs → nm ≠ "" ∧ ∀ k : Nat, nm ≠ itoa k

/-- no explicitly numbered group `(?<k>…)` in pattern-order mode: there it is booked under the
    *name* "k", which can coincide with the automatic name of another slot (`(a)(?<1>b)`: names
    0, 1, 1), so names and numbers are not in one-to-one correspondence -/
def NoOrdNumbered (cfg : Cfg) (evs : List Event) : Prop :=
  cfg.ord = true → ∀ k, Event.numbered k ∉ evs ∧ Event.numbered0 k ∉ evs

theorem noteName_mono {cfg : Cfg} {name : String} {s t : PState} (h : noteName cfg name s = some t) :
    (∀ x ∈ s.capnamelist, x ∈ t.capnamelist) ∧ (NamesInv s → name ∈ t.capnamelist) ∧
    (∀ c ∈ s.caps, c ∈ t.caps) := by
  unfold noteName at h
  simp only at h
  by_cases hex : ((s.capnames.getD []).lookup name).isSome = true
  · rw [if_pos hex] at h
    by_cases he : cfg.ecma = true
    · rw [if_pos he] at h; exact absurd h (by simp)
    · rw [if_neg he] at h; injection h with h; subst h
      exact ⟨fun x hx => hx, fun hn => by rw [← hn.keys]; exact lookup_isSome_iff_mem_keys.mp hex, fun c hc => hc⟩
  · rw [if_neg hex] at h
    by_cases ho : cfg.ord = true
    · rw [if_pos ho] at h; injection h with h; subst h
      refine ⟨fun x hx => ?_, fun _ => ?_, fun c hc => noteSlot_caps_mem.mpr (Or.inl hc)⟩
      · rw [(noteSlot_names _ _).2.1]; simp [hx]
      · rw [(noteSlot_names _ _).2.1]; simp
    · rw [if_neg ho] at h; injection h with h; subst h
      exact ⟨fun x hx => by simp [hx], fun _ => by simp, fun c hc => hc⟩

theorem scanEvent_mono {cfg : Cfg} {e : Event} {s t : PState} (h : scanEvent cfg s e = some t) :
    (∀ x ∈ s.capnamelist, x ∈ t.capnamelist) ∧ (∀ c ∈ s.caps, c ∈ t.caps) ∧
    (∀ nm, e = .named nm → NamesInv s → nm ∈ t.capnamelist) := by
  cases e with
  | noncap => simp [scanEvent] at h; subst h; simp
  | numbered0 k =>
    simp only [scanEvent] at h
    split at h
    · injection h with h; subst h; simp
    · split at h
      · have := noteName_mono h; exact ⟨this.1, this.2.2, by simp⟩
      · injection h with h; subst h
        refine ⟨fun x hx => by rw [(noteSlot_names _ _).2.1]; exact hx, fun c hc => noteSlot_caps_mem.mpr (Or.inl hc), by simp⟩
  | unnamed =>
    simp only [scanEvent] at h
    split at h
    · injection h with h; subst h; simp
    · injection h with h; subst h
      refine ⟨fun x hx => by rw [(noteSlot_names _ _).2.1]; exact hx, fun c hc => noteSlot_caps_mem.mpr (Or.inl hc), by simp⟩
  | named name =>
    have := noteName_mono (cfg := cfg) (name := name) (s := s) (t := t) (by simpa [scanEvent] using h)
    exact ⟨this.1, this.2.2, fun nm hnm hn => by injection hnm with hnm; subst hnm; exact this.2.1 hn⟩
  | numbered k =>
    simp only [scanEvent] at h
    split at h
    · injection h with h; subst h; simp
    · split at h
      · have := noteName_mono h; exact ⟨this.1, this.2.2, by simp⟩
      · injection h with h; subst h
        refine ⟨fun x hx => by rw [(noteSlot_names _ _).2.1]; exact hx, fun c hc => noteSlot_caps_mem.mpr (Or.inl hc), by simp⟩

theorem scanEvents_mono {cfg : Cfg} : ∀ (evs : List Event) {s s' : PState}, scanEvents cfg evs s = some s' →
    CapsInv s → NamesInv s →
    (∀ x ∈ s.capnamelist, x ∈ s'.capnamelist) ∧ (∀ c ∈ s.caps, c ∈ s'.caps) ∧
    (∀ nm, Event.named nm ∈ evs → nm ∈ s'.capnamelist)
  | [], s, s', h, _, _ => by simp [scanEvents] at h; subst h; simp
  | e :: es, s, s', h, hc, hn => by
    simp only [scanEvents] at h
    cases h1 : scanEvent cfg s e with
    | none => simp [h1] at h
    | some s1 =>
      simp [h1] at h
      have hi := scanEvent_inv h1 hc hn
      have m1 := scanEvent_mono h1
      have m2 := scanEvents_mono es h hi.1 hi.2
      refine ⟨fun x hx => m2.1 x (m1.1 x hx), fun c hcm => m2.2.1 c (m1.2.1 c hcm), ?_⟩
      intro nm hnm
      rcases List.mem_cons.mp hnm with heq | hr
      · exact m2.1 nm (m1.2.2 nm heq.symm hn)
      · exact m2.2.2 nm hr

/-- the pre-scan as a whole -/
theorem countCaptures_inv {cfg : Cfg} {evs : List Event} {t : Tables} (h : countCaptures cfg evs = some t)
    (hg : GoodNames evs) :
    TInv (NoOrdNumbered cfg evs) cfg.ecma t ∧
    (∀ nm, Event.named nm ∈ evs → ∃ k, (t.capnames.bind fun c => c.lookup nm) = some k ∧ k ∈ t.caps) := by
  unfold countCaptures at h
  cases hs : scanEvents cfg evs initState with
  | none => simp [hs] at h
  | some s =>
    simp [hs] at h
    obtain ⟨hc, hn⟩ := scanEvents_inv evs hs capsInv_init namesInv_init
    have hmono := scanEvents_mono evs hs capsInv_init namesInv_init
    have hgood : NoOrdNumbered cfg evs → ∀ nm ∈ s.capnamelist, nm ≠ "" ∧ ∀ k : Nat, nm ≠ itoa k := by
      intro hno nm hnm
      rcases scanEvents_names evs hs nm hnm with h0 | h1 | ⟨k, hk, _, hko⟩
      · simp [initState] at h0
      · exact hg nm h1
      · rcases hk with hk | hk
        · exact absurd hk (hno hko k).1
        · exact absurd hk (hno hko k).2
    by_cases ho : cfg.ord = true
    · rw [if_pos ho] at h; subst h
      have hoi := scanEvents_ordInv ho evs hs ordInv_init
      obtain ⟨t1, t2, t3⟩ := assignOrderedNameSlots_inv cfg s hc hn hoi
      refine ⟨t1.imp hgood, ?_⟩
      intro nm hnm
      have hmem := hmono.2.2 nm hnm
      rw [t3 nm hmem, t2]
      have hsome : ((s.capnames.getD []).lookup nm).isSome := by
        rw [← hn.keys] at hmem; exact lookup_isSome_iff_mem_keys.mpr hmem
      obtain ⟨k, hk⟩ := Option.isSome_iff_exists.mp hsome
      cases hcn : s.capnames with
      | none => simp [hcn] at hk
      | some c =>
        simp [hcn] at hk
        refine ⟨k, by simp [hk], ?_⟩
        rw [hoi.caps]; simp; exact hoi.vals c hcn nm k hk
    · rw [if_neg ho] at h; subst h
      have hef : cfg.ecma = false := by
        cases he : cfg.ecma with
        | false => rfl
        | true => simp [Cfg.ord, he] at ho
      have hno : NoOrdNumbered cfg evs := fun h' => absurd h' ho
      obtain ⟨t1, _, t3⟩ := assignNameSlots_inv s hc hn (hgood hno)
      exact ⟨hef ▸ t1.imp (fun _ => trivial), fun nm hnm => t3 nm (hmono.2.2 nm hnm)⟩

/-- the tables of a compiled pattern, seen through `Maps` -/
def Maps.tables (m : Maps) : Tables :=
  { caps := m.caps, capnumlist := m.capnumlist, captop := m.captop, capnames := m.capnames, caplist := m.caplist }

structure MInv (good : Prop) (m : Maps) : Prop where
  t : TInv good m.ecma m.tables
  code : m.codeCaps = m.capnumlist
  size : m.capsize = m.caps.length

theorem assign_tables {evs : List Event} {cfg : Cfg} {m : Maps} (h : assign evs cfg = some m) :
    ∃ t, countCaptures cfg evs = some t ∧ m.tables = t ∧ m.ecma = cfg.ecma ∧
      groupNumbers cfg t evs 1 = some m.evNums ∧ (m.codeCaps, m.capsize) = writerCaps t := by
  unfold assign at h
  cases ht : countCaptures cfg evs with
  | none => simp [ht] at h
  | some t =>
    simp only [ht, Option.bind_some] at h
    cases hns : groupNumbers cfg t evs 1 with
    | none => simp [hns] at h
    | some ns =>
      simp only [hns, Option.map_some] at h
      injection h with h; subst h
      exact ⟨t, rfl, rfl, rfl, hns, rfl⟩

theorem assign_inv {evs : List Event} {cfg : Cfg} {m : Maps} (h : assign evs cfg = some m)
    (hg : GoodNames evs) :
    MInv (NoOrdNumbered cfg evs) m ∧ (∀ nm, Event.named nm ∈ evs → ∃ k, (m.capnames.bind fun c => c.lookup nm) = some k ∧ k ∈ m.caps) := by
  obtain ⟨t, ht, hmt, hme, _, hw⟩ := assign_tables h
  obtain ⟨hti, hnames⟩ := countCaptures_inv ht hg
  have hcaps : m.caps = t.caps := by rw [← hmt]; rfl
  have hcn : m.capnames = t.capnames := by rw [← hmt]; rfl
  have hcnl : m.capnumlist = t.capnumlist := by rw [← hmt]; rfl
  have hct : m.captop = t.captop := by rw [← hmt]; rfl
  refine ⟨⟨by rw [hmt, hme]; exact hti, ?_, ?_⟩, fun nm hnm => by rw [hcn, hcaps]; exact hnames nm hnm⟩
  · -- codeCaps = capnumlist
    have hc := hti.cnl
    unfold writerCaps at hw
    rw [hcnl]
    by_cases hlt : t.caps.length < t.captop
    · rw [if_pos hlt] at hc
      rw [hc] at hw ⊢
      have hne : ¬ t.captop = (isort t.caps).length := by rw [length_isort]; omega
      simp only [hne, if_false] at hw
      exact (Prod.mk.inj hw).1
    · rw [if_neg hlt] at hc
      rw [hc] at hw ⊢
      exact (Prod.mk.inj hw).1
  · have hc := hti.cnl
    have hlen := (usedNumbers_spec hti.nodup hti.bound).2.2.2
    unfold writerCaps at hw
    rw [hcaps]
    by_cases hlt : t.caps.length < t.captop
    · rw [if_pos hlt] at hc
      rw [hc] at hw
      have hne : ¬ t.captop = (isort t.caps).length := by rw [length_isort]; omega
      simp only [hne, if_false] at hw
      rw [(Prod.mk.inj hw).2, length_isort]
    · rw [if_neg hlt] at hc
      rw [hc] at hw
      rw [(Prod.mk.inj hw).2]; exact (hlen hlt).symm

end RegexVerif.Groups

namespace RegexVerif.Groups

/-! ### the lookup functions on consistent tables -/

theorem MInv.nums_eq {good : Prop} {m : Maps} (hm : MInv good m) : getGroupNumbers m = usedNumbers m.caps m.captop := by
  have hc : m.capnumlist = if m.caps.length < m.captop then some (isort m.caps) else none := hm.t.cnl
  unfold getGroupNumbers usedNumbers
  rw [hm.code, hc]
  by_cases hlt : m.caps.length < m.captop
  · simp [hlt]
  · simp [hlt, hm.size]

theorem MInv.used {good : Prop} {m : Maps} (hm : MInv good m) :
    (getGroupNumbers m).Pairwise (· < ·) ∧ (getGroupNumbers m).length = m.capsize ∧
    (∀ k, k ∈ getGroupNumbers m ↔ k ∈ m.caps) := by
  have h := usedNumbers_spec (caps := m.caps) (captop := m.captop) hm.t.nodup hm.t.bound
  rw [hm.nums_eq, hm.size]
  exact ⟨h.1, h.2.1, h.2.2.1⟩

/-- `mapCapnum` sends the `i`-th used number to slot `i` -/
theorem MInv.slotOf_getElem {good : Prop} {m : Maps} (hm : MInv good m) {i n : Nat} (h : (getGroupNumbers m)[i]? = some n) :
    slotOf m n = some i := by
  have hnd := nodup_of_pairwise_lt hm.used.1
  unfold slotOf
  unfold getGroupNumbers at h hnd
  cases hc : m.codeCaps with
  | none =>
    rw [hc] at h
    simp only at h ⊢
    have hlt : i < m.capsize := by
      have := (List.getElem?_eq_some_iff.mp h).1; simpa using this
    rw [List.getElem?_range hlt] at h
    exact h.symm
  | some l =>
    rw [hc] at h hnd
    exact idxOf?_getElem hnd h

theorem MInv.names_len {good : Prop} {m : Maps} (hm : MInv good m) : (getGroupNames m).length = m.capsize := by
  unfold getGroupNames
  cases hc : m.caplist with
  | none => simp
  | some cl => simp only; rw [hm.t.len cl hc, hm.size]; rfl

theorem MInv.dense_of_no_names {good : Prop} {m : Maps} (hm : MInv good m) (h : m.caplist = none) : m.codeCaps = none := by
  rw [hm.code]; exact hm.t.dense_of_none h

/-- `GetGroupNames()[i]` is the name of `GetGroupNumbers()[i]` -/
theorem MInv.aligned {good : Prop} {m : Maps} (hm : MInv good m) {i n : Nat} (h : (getGroupNumbers m)[i]? = some n) :
    (getGroupNames m)[i]? = some (groupNameFromNumber m n) := by
  have hlt : i < m.capsize := by
    have := (List.getElem?_eq_some_iff.mp h).1; rw [hm.used.2.1] at this; exact this
  have hslot := hm.slotOf_getElem h
  unfold getGroupNames groupNameFromNumber
  cases hcl : m.caplist with
  | none =>
    have hcc := hm.dense_of_no_names hcl
    unfold getGroupNumbers at h
    rw [hcc] at h
    simp only at h
    rw [List.getElem?_range hlt] at h
    injection h with h; subst h
    simp [hlt]
  | some cl =>
    have hlen : cl.length = m.capsize := by rw [hm.t.len cl hcl, hm.size]; rfl
    simp only
    unfold slotOf at hslot
    cases hcc : m.codeCaps with
    | none =>
      rw [hcc] at hslot
      injection hslot with hslot; subst hslot
      simp only
      rw [List.getD_eq_getElem?_getD, List.getElem?_eq_getElem (by omega)]; simp
    | some l =>
      rw [hcc] at hslot
      simp only at hslot ⊢
      rw [hslot]
      simp only
      rw [List.getD_eq_getElem?_getD, List.getElem?_eq_getElem (by omega)]; simp

/-- `GroupNumberFromName(GetGroupNames()[i]) = GetGroupNumbers()[i]` for every non-empty listed name -/
theorem MInv.number_of_listed_name {good : Prop} {m : Maps} (hm : MInv good m) {i : Nat} {nm : String}
    (hgood : good) (h : (getGroupNames m)[i]? = some nm) (hne : nm ≠ "") :
    groupNumberFromName m nm = (getGroupNumbers m)[i]? := by
  have hlt : i < m.capsize := by
    have := (List.getElem?_eq_some_iff.mp h).1; rw [hm.names_len] at this; exact this
  unfold getGroupNames at h
  unfold groupNumberFromName
  cases hcl : m.caplist with
  | none =>
    have hcn : m.capnames = none := hm.t.both.mp hcl
    have hcc := hm.dense_of_no_names hcl
    rw [hcl] at h
    simp only at h
    rw [List.getElem?_map, List.getElem?_range hlt] at h
    simp at h; subst h
    rw [hcn]
    simp only
    cases hl : (itoa i).toList with
    | nil =>
      have := itoa_toList i
      rw [hl] at this
      exact absurd this.symm Nat.toDigits_ne_nil
    | cons c rest =>
      simp only
      have hcan : ¬ ((c = '0' && !rest.isEmpty) = true) := by
        intro hc
        simp at hc
        exact itoa_canonical i c rest hl (by intro e; simp [e] at hc) hc.1
      have hd := itoa_digits i
      have ho := ofDigitChars_itoa i
      rw [hl] at hd ho
      rw [if_neg hcan, if_pos hd, ho, if_pos hlt]
      unfold getGroupNumbers
      rw [hcc]; simp [List.getElem?_range hlt]
  | some cl =>
    rw [hcl] at h
    simp only at h
    cases hcn : m.capnames with
    | none => exact absurd (hm.t.both.mpr hcn) (by simp [Maps.tables, hcl])
    | some cn =>
      simp only
      rw [hm.nums_eq]
      exact hm.t.name_num hgood cl cn hcl hcn i nm h hne

end RegexVerif.Groups

namespace RegexVerif.Groups

/-! ## Part F — the main parse -/

def countUnnamed : List Event → Nat
  | [] => 0
  | .unnamed :: es => countUnnamed es + 1
  | _ :: es => countUnnamed es

theorem explicitNumber_nonord {cfg : Cfg} {t : Tables} {k c : Nat} (ho : cfg.ord = false)
    (h : explicitNumber cfg t k = some c) : c = k ∧ k ∈ t.caps ∧ k ≠ 0 := by
  unfold explicitNumber at h
  split at h
  · exact absurd h (by simp)
  · rename_i h1
    simp only [ho, Bool.false_eq_true, if_false] at h
    split at h
    · rename_i h2
      injection h with h
      simp at h1
      exact ⟨h.symm, h2, h1.2⟩
    · exact absurd h (by simp)

theorem explicitNumber_ord {cfg : Cfg} {t : Tables} {k c : Nat} (ho : cfg.ord = true)
    (h : explicitNumber cfg t k = some c) :
    cfg.ecma = false ∧ k ≠ 0 ∧ (t.capnames.bind fun cn => cn.lookup (itoa k)) = some c := by
  unfold explicitNumber at h
  split at h
  · exact absurd h (by simp)
  · rename_i h1
    simp at h1
    exact ⟨h1.1, h1.2, h⟩

/-- what `groupNumbers` answers per event, when there is no pattern-order bookkeeping -/
theorem groupNumbers_spec {cfg : Cfg} {t : Tables} (ho : cfg.ord = false) : ∀ (evs : List Event) (a : Nat)
    (ns : List (Option Nat)), groupNumbers cfg t evs a = some ns →
    ns.length = evs.length ∧
    ∀ (i : Nat) (e : Event), evs[i]? = some e →
      match e with
      | .noncap => ns[i]? = some none
      | .unnamed => ns[i]? = some (if cfg.explicitCapture then none else some (a + countUnnamed (evs.take i)))
      | .named nm => ∃ k, (t.capnames.bind fun c => c.lookup nm) = some k ∧ ns[i]? = some (some k)
      | .numbered k => ns[i]? = some (some k) ∧ k ∈ t.caps ∧ k ≠ 0
      | .numbered0 k => ns[i]? = some (some k) ∧ k ∈ t.caps ∧ k ≠ 0
  | [], a, ns, h => by simp [groupNumbers] at h; subst h; simp
  | e :: es, a, ns, h => by
    -- the tail is parsed with `a'`; all cases share the shape `ns = x :: ns'`
    have step : ∀ (a' : Nat) (x : Option Nat) (ns' : List (Option Nat)), groupNumbers cfg t es a' = some ns' →
        ns = x :: ns' →
        (match e with
          | .noncap => x = none
          | .unnamed => x = (if cfg.explicitCapture then none else some a) ∧ a' = (if cfg.explicitCapture then a else a + 1)
          | .named nm => ∃ k, (t.capnames.bind fun c => c.lookup nm) = some k ∧ x = some k
          | .numbered k => x = some k ∧ k ∈ t.caps ∧ k ≠ 0
          | .numbered0 k => x = some k ∧ k ∈ t.caps ∧ k ≠ 0) →
        (e ≠ .unnamed → a' = a) →
        ns.length = (e :: es).length ∧ ∀ (i : Nat) (e' : Event), (e :: es)[i]? = some e' →
          match e' with
          | .noncap => ns[i]? = some none
          | .unnamed => ns[i]? = some (if cfg.explicitCapture then none else some (a + countUnnamed ((e :: es).take i)))
          | .named nm => ∃ k, (t.capnames.bind fun c => c.lookup nm) = some k ∧ ns[i]? = some (some k)
          | .numbered k => ns[i]? = some (some k) ∧ k ∈ t.caps ∧ k ≠ 0
          | .numbered0 k => ns[i]? = some (some k) ∧ k ∈ t.caps ∧ k ≠ 0 := by
      intro a' x ns' hrec hns hx ha'
      obtain ⟨hl, hr⟩ := groupNumbers_spec ho es a' ns' hrec
      subst hns
      refine ⟨by simp [hl], ?_⟩
      intro i e' hi
      cases i with
      | zero =>
        simp at hi; subst hi
        cases e with
        | noncap => simpa using hx
        | unnamed => simp [hx.1, countUnnamed]
        | named nm => obtain ⟨k, hk1, hk2⟩ := hx; exact ⟨k, hk1, by simp [hk2]⟩
        | numbered k => simpa using hx
        | numbered0 k => simpa using hx
      | succ i =>
        simp at hi
        have := hr i e' hi
        cases e' with
        | noncap => simpa using this
        | named nm => simpa using this
        | numbered k => simpa using this
        | numbered0 k => simpa using this
        | unnamed =>
          simp only [List.getElem?_cons_succ, List.take_succ_cons]
          rw [this]
          cases e with
          | unnamed =>
            by_cases hx' : cfg.explicitCapture = true
            · simp [hx']
            · simp [hx'] at hx ⊢; simp [countUnnamed, hx.2]; omega
          | noncap => simp [countUnnamed, ha' (by simp)]
          | named nm => simp [countUnnamed, ha' (by simp)]
          | numbered k => simp [countUnnamed, ha' (by simp)]
          | numbered0 k => simp [countUnnamed, ha' (by simp)]
    cases e with
    | noncap =>
      simp only [groupNumbers] at h
      cases hr : groupNumbers cfg t es a with
      | none => simp [hr] at h
      | some ns' => simp [hr] at h; exact step a none ns' hr h.symm rfl (fun _ => rfl)
    | unnamed =>
      simp only [groupNumbers] at h
      by_cases hx : cfg.explicitCapture = true
      · rw [if_pos hx] at h
        cases hr : groupNumbers cfg t es a with
        | none => simp [hr] at h
        | some ns' => simp [hr] at h; exact step a none ns' hr h.symm (by simp [hx]) (fun _ => rfl)
      · rw [if_neg hx] at h
        cases hr : groupNumbers cfg t es (a + 1) with
        | none => simp [hr] at h
        | some ns' => simp [hr] at h; exact step (a + 1) (some a) ns' hr h.symm (by simp [hx]) (fun hne => absurd rfl hne)
    | named nm =>
      simp only [groupNumbers] at h
      cases hk : (t.capnames.bind fun cn => cn.lookup nm) with
      | none => simp [hk] at h
      | some k =>
        simp only [hk, ho, Bool.false_and, Bool.false_eq_true, if_false] at h
        cases hr : groupNumbers cfg t es a with
        | none => simp [hr] at h
        | some ns' => simp [hr] at h; exact step a (some k) ns' hr h.symm ⟨k, hk, rfl⟩ (fun _ => rfl)
    | numbered k =>
      simp only [groupNumbers] at h
      cases hx : explicitNumber cfg t k with
      | none => simp [hx] at h
      | some c =>
        obtain ⟨hck, hkc, hk0⟩ := explicitNumber_nonord ho hx
        subst hck
        simp only [hx, ho, Bool.false_and, Bool.false_eq_true, if_false] at h
        cases hr : groupNumbers cfg t es a with
        | none => simp [hr] at h
        | some ns' => simp [hr] at h; exact step a (some c) ns' hr h.symm ⟨rfl, hkc, hk0⟩ (fun _ => rfl)
    | numbered0 k =>
      simp only [groupNumbers] at h
      cases hx : explicitNumber cfg t k with
      | none => simp [hx] at h
      | some c =>
        obtain ⟨hck, hkc, hk0⟩ := explicitNumber_nonord ho hx
        subst hck
        simp only [hx, ho, Bool.false_and, Bool.false_eq_true, if_false] at h
        cases hr : groupNumbers cfg t es a with
        | none => simp [hr] at h
        | some ns' => simp [hr] at h; exact step a (some c) ns' hr h.symm ⟨rfl, hkc, hk0⟩ (fun _ => rfl)

/-- without pattern-order bookkeeping the pre-scan hands the unnamed groups the numbers 1, 2, … -/
theorem scanEvents_autocap {cfg : Cfg} (ho : cfg.ord = false) : ∀ (evs : List Event) {s s' : PState},
    scanEvents cfg evs s = some s' →
    s'.autocap = s.autocap + (if cfg.explicitCapture then 0 else countUnnamed evs)
  | [], s, s', h => by simp [scanEvents] at h; subst h; simp [countUnnamed]
  | e :: es, s, s', h => by
    simp only [scanEvents] at h
    cases h1 : scanEvent cfg s e with
    | none => simp [h1] at h
    | some s1 =>
      simp [h1] at h
      have ih := scanEvents_autocap ho es h
      have hname : ∀ name, noteName cfg name s = some s1 → s1.autocap = s.autocap := by
        intro name hn
        unfold noteName at hn
        simp only [ho, Bool.false_eq_true, if_false] at hn
        split at hn
        · split at hn
          · exact absurd hn (by simp)
          · injection hn with hn; subst hn; rfl
        · injection hn with hn; subst hn; rfl
      cases e with
      | noncap => simp [scanEvent] at h1; subst h1; simpa [countUnnamed] using ih
      | numbered0 k =>
        simp only [scanEvent] at h1
        split at h1
        · injection h1 with h1; subst h1; simpa [countUnnamed] using ih
        · simp only [ho, Bool.false_eq_true, if_false] at h1
          injection h1 with h1; subst h1
          rw [(noteSlot_names _ _).2.2] at ih
          simpa [countUnnamed] using ih
      | unnamed =>
        simp only [scanEvent] at h1
        by_cases hx : cfg.explicitCapture = true
        · rw [if_pos hx] at h1; injection h1 with h1; subst h1; simpa [countUnnamed, hx] using ih
        · rw [if_neg hx] at h1; injection h1 with h1; subst h1
          rw [(noteSlot_names _ _).2.2] at ih
          simp [hx] at ih ⊢; simp [countUnnamed]; omega
      | named name =>
        have := hname name (by simpa [scanEvent] using h1)
        rw [this] at ih; simpa [countUnnamed] using ih
      | numbered k =>
        simp only [scanEvent] at h1
        split at h1
        · injection h1 with h1; subst h1; simpa [countUnnamed] using ih
        · simp only [ho, Bool.false_eq_true, if_false] at h1
          injection h1 with h1; subst h1
          rw [(noteSlot_names _ _).2.2] at ih
          simpa [countUnnamed] using ih

end RegexVerif.Groups

namespace RegexVerif.Groups

theorem countUnnamed_take_lt : ∀ (evs : List Event) (i : Nat), evs[i]? = some .unnamed →
    countUnnamed (evs.take i) < countUnnamed evs
  | [], i, h => by simp at h
  | e :: es, 0, h => by simp at h; subst h; simp [countUnnamed]
  | e :: es, i + 1, h => by
    simp at h
    have := countUnnamed_take_lt es i h
    cases e <;> simp [countUnnamed] <;> omega

/-- every group of the pattern captures into a number the tables know (no pattern-order mode) -/
theorem evNums_mem_caps {evs : List Event} {cfg : Cfg} {m : Maps} (h : assign evs cfg = some m)
    (ho : cfg.ord = false) (hg : GoodNames evs) :
    ∀ (i n : Nat), m.evNums[i]? = some (some n) → n ∈ m.caps := by
  obtain ⟨t, ht, hmt, _, hgn, _⟩ := assign_tables h
  obtain ⟨hti, _⟩ := countCaptures_inv ht hg
  have hcaps : m.caps = t.caps := by rw [← hmt]; rfl
  obtain ⟨hlen, hspec⟩ := groupNumbers_spec ho evs 1 m.evNums hgn
  intro i n hi
  have hlt : i < evs.length := by
    have := (List.getElem?_eq_some_iff.mp hi).1; omega
  have he : evs[i]? = some evs[i] := List.getElem?_eq_getElem hlt
  have hs := hspec i evs[i] he
  rw [hcaps]
  cases hev : evs[i] with
  | noncap => rw [hev] at hs; simp only at hs; rw [hs] at hi; simp at hi
  | named nm =>
    rw [hev] at hs; simp only at hs
    obtain ⟨k, hk1, hk2⟩ := hs
    rw [hk2] at hi; simp at hi; subst hi
    cases hcn : t.capnames with
    | none => simp [hcn] at hk1
    | some cn => simp [hcn] at hk1; exact hti.values cn hcn nm k hk1
  | numbered k => rw [hev] at hs; simp only at hs; rw [hs.1] at hi; simp at hi; subst hi; exact hs.2.1
  | numbered0 k => rw [hev] at hs; simp only at hs; rw [hs.1] at hi; simp at hi; subst hi; exact hs.2.1
  | unnamed =>
    rw [hev] at hs he; simp only at hs
    rw [hs] at hi
    by_cases hx : cfg.explicitCapture = true
    · simp [hx] at hi
    · simp [hx] at hi
      -- the pre-scan noted 1 … number of unnamed groups
      unfold countCaptures at ht
      cases hsc : scanEvents cfg evs initState with
      | none => simp [hsc] at ht
      | some s =>
        simp [hsc, ho] at ht
        obtain ⟨hc, hn⟩ := scanEvents_inv evs hsc capsInv_init namesInv_init
        have hauto := scanEvents_autocap ho evs hsc
        simp [hx, initState] at hauto
        have hcnt := countUnnamed_take_lt evs i he
        have hmem : n ∈ s.caps := hc.below n (by omega)
        have hgood : ∀ nm ∈ s.capnamelist, nm ≠ "" ∧ ∀ k : Nat, nm ≠ itoa k := by
          intro nm hnm
          rcases scanEvents_names evs hsc nm hnm with h0 | h1 | ⟨k, _, _, hko⟩
          · simp [initState] at h0
          · exact hg nm h1
          · simp [ho] at hko
        rw [← ht]
        exact (assignNameSlots_inv s hc hn hgood).2.1 n hmem

end RegexVerif.Groups

namespace RegexVerif.Groups

/-! ### pattern-order mode: the main parse hands out the numbers the pre-scan reserved -/

/-- the documented rule of MaintainCaptureOrder / ECMAScript: one pass, every unnamed group and
    every first occurrence of a name takes the next number, a repeated name shares.  An explicitly
    numbered group `(?<k>…)` counts as a group named "k" (with or without leading zeros). -/
def orderSpec (n : Bool) : List Event → List (String × Nat) → Nat → List (Option Nat)
  | [], _, _ => []
  | .unnamed :: es, seen, a =>
    if n then none :: orderSpec n es seen a else some a :: orderSpec n es seen (a + 1)
  | .named nm :: es, seen, a =>
    match seen.lookup nm with
    | some k => some k :: orderSpec n es seen a
    | none => some a :: orderSpec n es (seen ++ [(nm, a)]) (a + 1)
  | .numbered j :: es, seen, a =>
    match seen.lookup (itoa j) with
    | some k => some k :: orderSpec n es seen a
    | none => some a :: orderSpec n es (seen ++ [(itoa j, a)]) (a + 1)
  | .numbered0 j :: es, seen, a =>
    match seen.lookup (itoa j) with
    | some k => some k :: orderSpec n es seen a
    | none => some a :: orderSpec n es (seen ++ [(itoa j, a)]) (a + 1)
  | .noncap :: es, seen, a => none :: orderSpec n es seen a

theorem noteName_lookup_mono {cfg : Cfg} {name : String} {s t : PState} (h : noteName cfg name s = some t)
    {nm : String} {k : Nat} (hk : (s.capnames.getD []).lookup nm = some k) :
    (t.capnames.getD []).lookup nm = some k := by
  unfold noteName at h
  simp only at h
  split at h
  · split at h
    · exact absurd h (by simp)
    · injection h with h; subst h; simpa using hk
  · split at h
    · injection h with h; subst h
      rw [(noteSlot_names _ _).1]; simp only [Option.getD_some]
      exact lookup_append_of_some hk
    · injection h with h; subst h
      simp only [Option.getD_some]
      exact lookup_append_of_some hk

theorem scanEvents_lookup_mono {cfg : Cfg} : ∀ (evs : List Event) {s s' : PState}, scanEvents cfg evs s = some s' →
    ∀ {nm : String} {k : Nat}, (s.capnames.getD []).lookup nm = some k → (s'.capnames.getD []).lookup nm = some k
  | [], s, s', h, nm, k, hk => by simp [scanEvents] at h; subst h; exact hk
  | e :: es, s, s', h, nm, k, hk => by
    simp only [scanEvents] at h
    cases h1 : scanEvent cfg s e with
    | none => simp [h1] at h
    | some s1 =>
      simp [h1] at h
      apply scanEvents_lookup_mono es h
      cases e with
      | noncap => simp [scanEvent] at h1; subst h1; exact hk
      | numbered0 j =>
        simp only [scanEvent] at h1
        split at h1
        · injection h1 with h1; subst h1; exact hk
        · split at h1
          · exact noteName_lookup_mono h1 hk
          · injection h1 with h1; subst h1; rw [(noteSlot_names _ _).1]; exact hk
      | unnamed =>
        simp only [scanEvent] at h1
        split at h1
        · injection h1 with h1; subst h1; exact hk
        · injection h1 with h1; subst h1; rw [(noteSlot_names _ _).1]; exact hk
      | named name => exact noteName_lookup_mono (by simpa [scanEvent] using h1) hk
      | numbered j =>
        simp only [scanEvent] at h1
        split at h1
        · injection h1 with h1; subst h1; exact hk
        · split at h1
          · exact noteName_lookup_mono h1 hk
          · injection h1 with h1; subst h1; rw [(noteSlot_names _ _).1]; exact hk

/-- one step of the main parse, in any mode -/
theorem groupNumbers_peel {cfg : Cfg} {t : Tables} {e : Event} {es : List Event} {a : Nat} {ns : List (Option Nat)}
    (h : groupNumbers cfg t (e :: es) a = some ns) :
    ∃ a' x ns', groupNumbers cfg t es a' = some ns' ∧ ns = x :: ns' ∧
      ∀ nm, e = Event.named nm → x = (t.capnames.bind fun c => c.lookup nm) := by
  cases e with
  | noncap =>
    simp only [groupNumbers] at h
    obtain ⟨ns', hr, rfl⟩ := Option.map_eq_some_iff.mp h
    exact ⟨a, none, ns', hr, rfl, fun nm hnm => by cases hnm⟩
  | unnamed =>
    simp only [groupNumbers] at h
    split at h
    · obtain ⟨ns', hr, rfl⟩ := Option.map_eq_some_iff.mp h
      exact ⟨a, none, ns', hr, rfl, fun nm hnm => by cases hnm⟩
    · obtain ⟨ns', hr, rfl⟩ := Option.map_eq_some_iff.mp h
      exact ⟨a + 1, some a, ns', hr, rfl, fun nm hnm => by cases hnm⟩
  | named nm' =>
    simp only [groupNumbers] at h
    cases hl : (t.capnames.bind fun cn => cn.lookup nm') with
    | none => simp [hl] at h
    | some k =>
      simp only [hl] at h
      obtain ⟨ns', hr, rfl⟩ := Option.map_eq_some_iff.mp h
      exact ⟨_, some k, ns', hr, rfl, fun nm hnm => by injection hnm with hnm; subst hnm; exact hl.symm⟩
  | numbered k =>
    simp only [groupNumbers] at h
    cases hx : explicitNumber cfg t k with
    | none => simp [hx] at h
    | some c =>
      simp only [hx] at h
      obtain ⟨ns', hr, rfl⟩ := Option.map_eq_some_iff.mp h
      exact ⟨_, some c, ns', hr, rfl, fun nm hnm => by cases hnm⟩
  | numbered0 k =>
    simp only [groupNumbers] at h
    cases hx : explicitNumber cfg t k with
    | none => simp [hx] at h
    | some c =>
      simp only [hx] at h
      obtain ⟨ns', hr, rfl⟩ := Option.map_eq_some_iff.mp h
      exact ⟨_, some c, ns', hr, rfl, fun nm hnm => by cases hnm⟩

/-- one group booked under a name (written name, or the decimal string of an explicit number) in
    pattern-order mode: pre-scan and main parse agree -/
theorem ord_sync_name {cfg : Cfg} (ho : cfg.ord = true) (t : Tables) (sfin : PState)
    (hL : ∀ nm k, (sfin.capnames.getD []).lookup nm = some k → (t.capnames.bind fun c => c.lookup nm) = some k)
    (name : String) (es : List Event) (s s1 : PState) (h1' : noteName cfg name s = some s1)
    (h : scanEvents cfg es s1 = some sfin) (hoi : OrdInv s) (hc1 : CapsInv s1) (hn1 : NamesInv s1)
    (c : Nat) (hc : (t.capnames.bind fun cn => cn.lookup name) = some c)
    (ns' : List (Option Nat))
    (hr : groupNumbers cfg t es (if (cfg.ord && decide (c = s.autocap)) = true then s.autocap + 1 else s.autocap) = some ns')
    (ih : ∀ ns, groupNumbers cfg t es s1.autocap = some ns →
      ns = orderSpec cfg.explicitCapture es (s1.capnames.getD []) s1.autocap ∧
      ∀ (i k : Nat), ns[i]? = some (some k) → k ∈ sfin.caps) :
    (some c :: ns') =
      (match (s.capnames.getD []).lookup name with
       | some k => some k :: orderSpec cfg.explicitCapture es (s.capnames.getD []) s.autocap
       | none => some s.autocap :: orderSpec cfg.explicitCapture es (s.capnames.getD [] ++ [(name, s.autocap)]) (s.autocap + 1)) ∧
    ∀ (i k : Nat), (some c :: ns')[i]? = some (some k) → k ∈ sfin.caps := by
  have hmono := scanEvents_mono es h hc1 hn1
  have hfin : ∀ k, (s1.capnames.getD []).lookup name = some k → c = k := by
    intro k hk
    have := hL name k (scanEvents_lookup_mono es h hk)
    rw [hc] at this; injection this
  unfold noteName at h1'
  simp only at h1'
  cases hlk : (s.capnames.getD []).lookup name with
  | some k =>
    simp only [hlk, Option.isSome_some, if_true] at h1'
    split at h1'
    · exact absurd h1' (by simp)
    · injection h1' with h1'; subst h1'
      have hck : c = k := hfin k (by simpa using hlk)
      subst hck
      have hlt : c < s.autocap := by
        cases hcn : s.capnames with
        | none => simp [hcn] at hlk
        | some cc => simp [hcn] at hlk; exact hoi.vals cc hcn name c hlk
      have hne : ¬ c = s.autocap := by omega
      simp only [ho, Bool.true_and, decide_eq_true_eq, hne, if_false] at hr
      obtain ⟨i1, i2⟩ := ih ns' hr
      simp only [Option.getD_some] at i1
      refine ⟨by rw [i1], ?_⟩
      intro i k' hik
      cases i with
      | zero =>
        simp at hik; subst hik
        exact hmono.2.1 c (by show c ∈ s.caps; rw [hoi.caps]; simp; exact hlt)
      | succ i => simp at hik; exact i2 i k' hik
  | none =>
    simp only [hlk, Option.isSome_none, Bool.false_eq_true, if_false, ho, if_true] at h1'
    injection h1' with h1'; subst h1'
    have hca : c = s.autocap := hfin s.autocap (by
      rw [(noteSlot_names _ _).1]; simp only [Option.getD_some]
      rw [lookup_append_of_none hlk]; simp)
    subst hca
    simp only [ho, Bool.true_and, decide_true, if_true] at hr
    rw [(noteSlot_names _ _).1, (noteSlot_names _ _).2.2] at ih
    simp only [Option.getD_some] at ih
    obtain ⟨i1, i2⟩ := ih ns' hr
    refine ⟨by rw [i1], ?_⟩
    intro i k' hik
    cases i with
    | zero =>
      simp at hik; subst hik
      exact hmono.2.1 _ (noteSlot_caps_mem.mpr (Or.inr rfl))
    | succ i => simp at hik; exact i2 i k' hik

/-- the synchronisation of the two passes in pattern-order mode: whenever the main parse succeeds,
    it hands out exactly the numbers of the one-pass rule, all of them booked by the pre-scan -/
theorem groupNumbers_ord_sync {cfg : Cfg} (ho : cfg.ord = true) (t : Tables) (sfin : PState)
    (hL : ∀ nm k, (sfin.capnames.getD []).lookup nm = some k → (t.capnames.bind fun c => c.lookup nm) = some k) :
    ∀ (post : List Event) (s : PState), scanEvents cfg post s = some sfin →
      OrdInv s → CapsInv s → NamesInv s →
      ∀ ns, groupNumbers cfg t post s.autocap = some ns →
      ns = orderSpec cfg.explicitCapture post (s.capnames.getD []) s.autocap ∧
      ∀ (i k : Nat), ns[i]? = some (some k) → k ∈ sfin.caps
  | [], s, h, _, _, _, ns, hg => by
    simp [groupNumbers] at hg; subst hg; simp [orderSpec]
  | e :: es, s, h, hoi, hc, hn, ns, hg => by
    simp only [scanEvents] at h
    cases h1 : scanEvent cfg s e with
    | none => simp [h1] at h
    | some s1 =>
      simp [h1] at h
      have hi1 := scanEvent_inv h1 hc hn
      have ho1 := scanEvent_ordInv ho h1 hoi
      have ih := groupNumbers_ord_sync ho t sfin hL es s1 h ho1 hi1.1 hi1.2
      have hmono := scanEvents_mono es h hi1.1 hi1.2
      cases e with
      | noncap =>
        simp [scanEvent] at h1; subst h1
        simp only [groupNumbers] at hg
        obtain ⟨ns', hr, rfl⟩ := Option.map_eq_some_iff.mp hg
        obtain ⟨i1, i2⟩ := ih ns' hr
        refine ⟨by simp only [orderSpec]; rw [i1], ?_⟩
        intro i k hik
        cases i with
        | zero => simp at hik
        | succ i => simp at hik; exact i2 i k hik
      | unnamed =>
        simp only [scanEvent] at h1
        simp only [groupNumbers] at hg
        by_cases hx : cfg.explicitCapture = true
        · rw [if_pos hx] at h1 hg; injection h1 with h1; subst h1
          obtain ⟨ns', hr, rfl⟩ := Option.map_eq_some_iff.mp hg
          obtain ⟨i1, i2⟩ := ih ns' hr
          refine ⟨by simp only [orderSpec, hx, if_true]; rw [i1, hx], ?_⟩
          intro i k hik
          cases i with
          | zero => simp at hik
          | succ i => simp at hik; exact i2 i k hik
        · rw [if_neg hx] at h1 hg; injection h1 with h1; subst h1
          obtain ⟨ns', hr, rfl⟩ := Option.map_eq_some_iff.mp hg
          rw [(noteSlot_names _ _).1, (noteSlot_names _ _).2.2] at ih
          obtain ⟨i1, i2⟩ := ih ns' hr
          have hxf : cfg.explicitCapture = false := by simpa using hx
          refine ⟨by simp only [orderSpec, hxf, Bool.false_eq_true, if_false]; rw [i1, hxf], ?_⟩
          intro i k hik
          cases i with
          | zero =>
            simp at hik; subst hik
            exact hmono.2.1 _ (noteSlot_caps_mem.mpr (Or.inr rfl))
          | succ i => simp at hik; exact i2 i k hik
      | named name =>
        have h1' : noteName cfg name s = some s1 := by simpa [scanEvent] using h1
        simp only [groupNumbers] at hg
        cases hk : (t.capnames.bind fun cn => cn.lookup name) with
        | none => simp [hk] at hg
        | some c =>
          simp only [hk] at hg
          obtain ⟨ns', hr, rfl⟩ := Option.map_eq_some_iff.mp hg
          have := ord_sync_name ho t sfin hL name es s s1 h1' h hoi hi1.1 hi1.2 c hk ns' hr ih
          simpa only [orderSpec] using this
      | numbered j =>
        simp only [groupNumbers] at hg
        cases hx : explicitNumber cfg t j with
        | none => simp [hx] at hg
        | some c =>
          simp only [hx] at hg
          obtain ⟨ns', hr, rfl⟩ := Option.map_eq_some_iff.mp hg
          obtain ⟨he, _, hk⟩ := explicitNumber_ord ho hx
          have h1' : noteName cfg (itoa j) s = some s1 := by
            simp only [scanEvent, he, Bool.false_eq_true, if_false, ho, if_true] at h1; exact h1
          have := ord_sync_name ho t sfin hL (itoa j) es s s1 h1' h hoi hi1.1 hi1.2 c hk ns' hr ih
          simpa only [orderSpec] using this
      | numbered0 j =>
        simp only [groupNumbers] at hg
        cases hx : explicitNumber cfg t j with
        | none => simp [hx] at hg
        | some c =>
          simp only [hx] at hg
          obtain ⟨ns', hr, rfl⟩ := Option.map_eq_some_iff.mp hg
          obtain ⟨he, _, hk⟩ := explicitNumber_ord ho hx
          have h1' : noteName cfg (itoa j) s = some s1 := by
            simp only [scanEvent, he, Bool.false_eq_true, if_false, ho, if_true] at h1; exact h1
          have := ord_sync_name ho t sfin hL (itoa j) es s s1 h1' h hoi hi1.1 hi1.2 c hk ns' hr ih
          simpa only [orderSpec] using this

theorem assign_ord_spec {evs : List Event} {cfg : Cfg} {m : Maps} (h : assign evs cfg = some m)
    (ho : cfg.ord = true) :
    m.evNums = orderSpec cfg.explicitCapture evs [] 1 ∧
    ∀ (i k : Nat), m.evNums[i]? = some (some k) → k ∈ m.caps := by
  obtain ⟨t, ht, hmt, _, hgn, _⟩ := assign_tables h
  have hcaps : m.caps = t.caps := by rw [← hmt]; rfl
  unfold countCaptures at ht
  cases hs : scanEvents cfg evs initState with
  | none => simp [hs] at ht
  | some s =>
    simp [hs, ho] at ht
    obtain ⟨hc, hn⟩ := scanEvents_inv evs hs capsInv_init namesInv_init
    have hoi := scanEvents_ordInv ho evs hs ordInv_init
    obtain ⟨_, t2, t3⟩ := assignOrderedNameSlots_inv cfg s hc hn hoi
    rw [ht] at t2 t3
    have hL : ∀ nm k, (s.capnames.getD []).lookup nm = some k → (t.capnames.bind fun c => c.lookup nm) = some k := by
      intro nm k hk
      have hmem : nm ∈ s.capnamelist := by
        rw [← hn.keys]; exact lookup_isSome_iff_mem_keys.mp (by simp [hk])
      rw [t3 nm hmem]
      cases hcn : s.capnames with
      | none => simp [hcn] at hk
      | some c => simpa [hcn] using hk
    obtain ⟨g1, g2⟩ := groupNumbers_ord_sync ho t s hL evs initState hs ordInv_init capsInv_init namesInv_init
      m.evNums hgn
    refine ⟨g1, ?_⟩
    intro i k hik
    rw [hcaps, t2]
    exact g2 i k hik

/-- a named group captures into the number its name maps to (any mode) -/
theorem groupNumbers_named {cfg : Cfg} {t : Tables} {nm : String} : ∀ (es : List Event) (a : Nat) (ns : List (Option Nat)),
    groupNumbers cfg t es a = some ns → ∀ (i : Nat), es[i]? = some (Event.named nm) →
    ns[i]? = some (t.capnames.bind fun c => c.lookup nm)
  | [], _, _, _, i, hi => by simp at hi
  | e :: es, a, ns, h, i, hi => by
    obtain ⟨a', x, ns', hr, rfl, hx⟩ := groupNumbers_peel h
    cases i with
    | zero => simp at hi; simp [hx nm hi]
    | succ i => simp at hi; simpa using groupNumbers_named es a' ns' hr i hi

end RegexVerif.Groups

namespace RegexVerif.Groups

/-! ### which numbers the names get (default order) -/

/-- the numbers written explicitly, `(?<k>…)`, with or without leading zeros -/
def explicitNumbers : List Event → List Nat
  | [] => []
  | .numbered k :: es => k :: explicitNumbers es
  | .numbered0 k :: es => k :: explicitNumbers es
  | _ :: es => explicitNumbers es

/-- the distinct names of the pattern in order of first appearance -/
def namesInOrderFrom (acc : List String) : List Event → List String
  | [] => acc
  | .named nm :: es => if nm ∈ acc then namesInOrderFrom acc es else namesInOrderFrom (acc ++ [nm]) es
  | _ :: es => namesInOrderFrom acc es

def namesInOrder (evs : List Event) : List String := namesInOrderFrom [] evs

/-- "each name takes the least number above the previous one that is not an explicit number" -/
def ChainRule (lk : String → Option Nat) (E : Nat → Prop) : Nat → List String → Prop
  | _, [] => True
  | prev, nm :: rest =>
    ∃ k, lk nm = some k ∧ prev < k ∧ ¬ E k ∧ (∀ n, prev < n → n < k → E n) ∧ ChainRule lk E k rest

theorem ChainRule.congr {lk lk' : String → Option Nat} {E : Nat → Prop} : ∀ (ns : List String) (prev : Nat),
    (∀ nm ∈ ns, lk nm = lk' nm) → ChainRule lk E prev ns → ChainRule lk' E prev ns
  | [], _, _, _ => trivial
  | nm :: rest, prev, heq, ⟨k, h1, h2, h3, h4, h5⟩ =>
    ⟨k, by rw [← heq nm (by simp)]; exact h1, h2, h3, h4,
      ChainRule.congr rest k (fun x hx => heq x (by simp [hx])) h5⟩

theorem assignLoop_chain (E : Nat → Prop) : ∀ (ns : List String) (s : PState) (cn : List (String × Nat)),
    s.capnames = some cn → CapsInv s → (∀ nm ∈ ns, nm ∈ cn.map Prod.fst) → ns.Nodup →
    (∀ c, E c → c ∈ s.caps) → (∀ c ∈ s.caps, c < s.autocap ∨ E c) → 1 ≤ s.autocap →
    ∀ cn', (assignLoop ns s).capnames = some cn' →
      ChainRule (fun nm => cn'.lookup nm) E (s.autocap - 1) ns
  | [], _, _, _, _, _, _, _, _, _, _, _ => trivial
  | name :: rest, s, cn, hcn, hc, hk, hnd, hE1, hE2, hpos, cn', hfin => by
    rw [assignLoop_cons] at hfin
    obtain ⟨hc1, hn1, _, hnot, hge, hbetween, hauto, hmem⟩ := assignStep_spec name s hc
    rw [hcn] at hn1
    simp only [Option.getD_some] at hn1
    rw [List.nodup_cons] at hnd
    have hkeys : (setKey name (nextFree s.caps (s.captop - s.autocap) s.autocap) cn).map Prod.fst = cn.map Prod.fst :=
      keys_setKey_of_mem (hk name (by simp))
    have hk' : ∀ nm ∈ rest, nm ∈ (setKey name (nextFree s.caps (s.captop - s.autocap) s.autocap) cn).map Prod.fst :=
      fun nm hm => by rw [hkeys]; exact hk nm (by simp [hm])
    obtain ⟨cn'', a1, _, _, _, a5, _, _⟩ := assignLoop_spec rest (assignStep name s) _ hn1 hc1 hk' hnd.2
    rw [hfin] at a1; injection a1 with a1; subst a1
    have ih := assignLoop_chain E rest (assignStep name s) _ hn1 hc1 hk' hnd.2
      (fun c hc' => (hmem c).mpr (Or.inl (hE1 c hc')))
      (fun c hc' => by
        rw [hauto]
        rcases (hmem c).mp hc' with h | h
        · rcases hE2 c h with h' | h'
          · exact Or.inl (by omega)
          · exact Or.inr h'
        · exact Or.inl (by omega))
      (by rw [hauto]; omega) cn' hfin
    rw [hauto] at ih
    refine ⟨nextFree s.caps (s.captop - s.autocap) s.autocap, ?_, by omega, fun he => hnot (hE1 _ he), ?_, by simpa using ih⟩
    · show cn'.lookup name = _
      rw [a5 name hnd.1, lookup_setKey_self]
    · intro n h1 h2
      rcases hE2 n (hbetween n (by omega) h2) with h | h
      · omega
      · exact h

/-- the pre-scan collects the names in order of first appearance (default order) -/
theorem scanEvents_namelist {cfg : Cfg} (ho : cfg.ord = false) : ∀ (evs : List Event) {s s' : PState},
    scanEvents cfg evs s = some s' → NamesInv s → CapsInv s →
    s'.capnamelist = namesInOrderFrom s.capnamelist evs
  | [], s, s', h, _, _ => by simp [scanEvents] at h; subst h; rfl
  | e :: es, s, s', h, hn, hc => by
    simp only [scanEvents] at h
    cases h1 : scanEvent cfg s e with
    | none => simp [h1] at h
    | some s1 =>
      simp [h1] at h
      have hi := scanEvent_inv h1 hc hn
      have ih := scanEvents_namelist ho es h hi.2 hi.1
      rw [ih]
      cases e with
      | noncap => simp [scanEvent] at h1; subst h1; rfl
      | numbered0 k =>
        simp only [scanEvent] at h1
        split at h1
        · injection h1 with h1; subst h1; rfl
        · simp only [ho, Bool.false_eq_true, if_false] at h1
          injection h1 with h1; subst h1; rw [(noteSlot_names _ _).2.1]; rfl
      | unnamed =>
        simp only [scanEvent] at h1
        split at h1
        · injection h1 with h1; subst h1; rfl
        · injection h1 with h1; subst h1; rw [(noteSlot_names _ _).2.1]; rfl
      | numbered k =>
        simp only [scanEvent] at h1
        split at h1
        · injection h1 with h1; subst h1; rfl
        · simp only [ho, Bool.false_eq_true, if_false] at h1
          injection h1 with h1; subst h1; rw [(noteSlot_names _ _).2.1]; rfl
      | named name =>
        have h1' : noteName cfg name s = some s1 := by simpa [scanEvent] using h1
        unfold noteName at h1'
        simp only [ho, Bool.false_eq_true, if_false] at h1'
        by_cases hex : ((s.capnames.getD []).lookup name).isSome = true
        · have hmem : name ∈ s.capnamelist := by rw [← hn.keys]; exact lookup_isSome_iff_mem_keys.mp hex
          rw [if_pos hex] at h1'
          split at h1'
          · exact absurd h1' (by simp)
          · injection h1' with h1'; subst h1'
            simp [namesInOrderFrom, hmem]
        · have hmem : name ∉ s.capnamelist := by
            rw [← hn.keys]; exact fun hm => hex (lookup_isSome_iff_mem_keys.mpr hm)
          rw [if_neg hex] at h1'
          injection h1' with h1'; subst h1'
          simp [namesInOrderFrom, hmem]

/-- what the slot table holds after the pre-scan (default order): everything below `autocap`,
    plus the explicit numbers -/
theorem scanEvents_explicit {cfg : Cfg} (ho : cfg.ord = false) : ∀ (evs : List Event) (P : Nat → Prop) {s s' : PState},
    scanEvents cfg evs s = some s' → (∀ c ∈ s.caps, c < s.autocap ∨ P c) →
    (∀ c ∈ s'.caps, c < s'.autocap ∨ P c ∨ c ∈ explicitNumbers evs) ∧
    (cfg.ecma = false → ∀ k ∈ explicitNumbers evs, k ∈ s'.caps) ∧ (∀ c ∈ s.caps, c ∈ s'.caps)
  | [], P, s, s', h, hP => by
    simp [scanEvents] at h; subst h
    exact ⟨fun c hc => by rcases hP c hc with h | h <;> simp [h], by simp [explicitNumbers], fun c hc => hc⟩
  | e :: es, P, s, s', h, hP => by
    simp only [scanEvents] at h
    cases h1 : scanEvent cfg s e with
    | none => simp [h1] at h
    | some s1 =>
      simp [h1] at h
      have hname : ∀ name, noteName cfg name s = some s1 → s1.caps = s.caps ∧ s1.autocap = s.autocap := by
        intro name hn
        unfold noteName at hn
        simp only [ho, Bool.false_eq_true, if_false] at hn
        split at hn
        · split at hn
          · exact absurd hn (by simp)
          · injection hn with hn; subst hn; exact ⟨rfl, rfl⟩
        · injection hn with hn; subst hn; exact ⟨rfl, rfl⟩
      -- events that leave `caps`/`autocap` alone
      have same : s1.caps = s.caps → s1.autocap = s.autocap → explicitNumbers (e :: es) = explicitNumbers es →
          (∀ c ∈ s'.caps, c < s'.autocap ∨ P c ∨ c ∈ explicitNumbers (e :: es)) ∧
          (cfg.ecma = false → ∀ k ∈ explicitNumbers (e :: es), k ∈ s'.caps) ∧ (∀ c ∈ s.caps, c ∈ s'.caps) := by
        intro hc1 ha1 hex
        have ih := scanEvents_explicit ho es P h (by rw [hc1, ha1]; exact hP)
        rw [hex]; rw [hc1] at ih; exact ih
      cases e with
      | noncap => simp [scanEvent] at h1; subst h1; exact same rfl rfl rfl
      | numbered0 k =>
        simp only [scanEvent] at h1
        by_cases he : cfg.ecma = true
        · rw [if_pos he] at h1; injection h1 with h1; subst h1
          have ih := scanEvents_explicit ho es P h hP
          refine ⟨fun c hc => ?_, fun hef => by simp [hef] at he, ih.2.2⟩
          rcases ih.1 c hc with h' | h' | h'
          · exact Or.inl h'
          · exact Or.inr (Or.inl h')
          · exact Or.inr (Or.inr (by simp [explicitNumbers, h']))
        · rw [if_neg he] at h1
          simp only [ho, Bool.false_eq_true, if_false] at h1
          injection h1 with h1; subst h1
          have ih := scanEvents_explicit ho es (fun c => P c ∨ c = k) h (by
            intro c hc
            rw [(noteSlot_names _ _).2.2]
            rcases noteSlot_caps_mem.mp hc with h' | h'
            · rcases hP c h' with h'' | h''
              · exact Or.inl h''
              · exact Or.inr (Or.inl h'')
            · exact Or.inr (Or.inr h'))
          refine ⟨fun c hc => ?_, fun _ j hj => ?_, fun c hc => ih.2.2 c (noteSlot_caps_mem.mpr (Or.inl hc))⟩
          · rcases ih.1 c hc with h' | (h' | h') | h'
            · exact Or.inl h'
            · exact Or.inr (Or.inl h')
            · exact Or.inr (Or.inr (by simp [explicitNumbers, h']))
            · exact Or.inr (Or.inr (by simp [explicitNumbers, h']))
          · simp only [explicitNumbers, List.mem_cons] at hj
            rcases hj with rfl | hj
            · exact ih.2.2 _ (noteSlot_caps_mem.mpr (Or.inr rfl))
            · exact ih.2.1 (by simpa using he) j hj
      | named name =>
        have := hname name (by simpa [scanEvent] using h1)
        exact same this.1 this.2 rfl
      | unnamed =>
        simp only [scanEvent] at h1
        by_cases hx : cfg.explicitCapture = true
        · rw [if_pos hx] at h1; injection h1 with h1; subst h1; exact same rfl rfl rfl
        · rw [if_neg hx] at h1; injection h1 with h1; subst h1
          have ih := scanEvents_explicit ho es P h (by
            intro c hc
            rw [(noteSlot_names _ _).2.2]
            rcases noteSlot_caps_mem.mp hc with h' | h'
            · rcases hP c h' with h'' | h''
              · exact Or.inl (by simp; omega)
              · exact Or.inr h''
            · exact Or.inl (by simp; omega))
          exact ⟨ih.1, ih.2.1, fun c hc => ih.2.2 c (noteSlot_caps_mem.mpr (Or.inl hc))⟩
      | numbered k =>
        simp only [scanEvent] at h1
        by_cases he : cfg.ecma = true
        · rw [if_pos he] at h1; injection h1 with h1; subst h1
          have ih := scanEvents_explicit ho es P h hP
          refine ⟨fun c hc => ?_, fun hef => by simp [hef] at he, ih.2.2⟩
          rcases ih.1 c hc with h' | h' | h'
          · exact Or.inl h'
          · exact Or.inr (Or.inl h')
          · exact Or.inr (Or.inr (by simp [explicitNumbers, h']))
        · rw [if_neg he] at h1
          simp only [ho, Bool.false_eq_true, if_false] at h1
          injection h1 with h1; subst h1
          have ih := scanEvents_explicit ho es (fun c => P c ∨ c = k) h (by
            intro c hc
            rw [(noteSlot_names _ _).2.2]
            rcases noteSlot_caps_mem.mp hc with h' | h'
            · rcases hP c h' with h'' | h''
              · exact Or.inl h''
              · exact Or.inr (Or.inl h'')
            · exact Or.inr (Or.inr h'))
          refine ⟨fun c hc => ?_, fun _ j hj => ?_, fun c hc => ih.2.2 c (noteSlot_caps_mem.mpr (Or.inl hc))⟩
          · rcases ih.1 c hc with h' | (h' | h') | h'
            · exact Or.inl h'
            · exact Or.inr (Or.inl h')
            · exact Or.inr (Or.inr (by simp [explicitNumbers, h']))
            · exact Or.inr (Or.inr (by simp [explicitNumbers, h']))
          · simp only [explicitNumbers, List.mem_cons] at hj
            rcases hj with rfl | hj
            · exact ih.2.2 _ (noteSlot_caps_mem.mpr (Or.inr rfl))
            · exact ih.2.1 (by simpa using he) j hj

end RegexVerif.Groups

namespace RegexVerif.Groups

theorem assign_named_rule {evs : List Event} {cfg : Cfg} {m : Maps} (h : assign evs cfg = some m)
    (ho : cfg.ord = false) (hg : GoodNames evs) :
    ChainRule (groupNumberFromName m) (fun c => c ∈ explicitNumbers evs)
      (if cfg.explicitCapture then 0 else countUnnamed evs) (namesInOrder evs) := by
  obtain ⟨t, ht, hmt, _, _, _⟩ := assign_tables h
  have hcn : m.capnames = t.capnames := by rw [← hmt]; rfl
  have hef : cfg.ecma = false := by
    cases he : cfg.ecma with
    | false => rfl
    | true => simp [Cfg.ord, he] at ho
  unfold countCaptures at ht
  cases hsc : scanEvents cfg evs initState with
  | none => simp [hsc] at ht
  | some s =>
    simp [hsc, ho] at ht
    obtain ⟨hc, hn⟩ := scanEvents_inv evs hsc capsInv_init namesInv_init
    have hlist : s.capnamelist = namesInOrder evs := scanEvents_namelist ho evs hsc namesInv_init capsInv_init
    have hauto := scanEvents_autocap ho evs hsc
    have hexp := scanEvents_explicit ho evs (fun _ => False) hsc (by intro c hc; simp [initState] at hc ⊢; omega)
    have hgood : ∀ nm ∈ s.capnamelist, nm ≠ "" ∧ ∀ k : Nat, nm ≠ itoa k := by
      intro nm hnm
      rcases scanEvents_names evs hsc nm hnm with h0 | h1 | ⟨k, _, _, hko⟩
      · simp [initState] at h0
      · exact hg nm h1
      · simp [ho] at hko
    rw [← hlist]
    cases hcn0 : s.capnames with
    | none =>
      have : s.capnamelist = [] := by have := hn.keys; simpa [hcn0] using this.symm
      rw [this]; trivial
    | some cn0 =>
      have hkeys : cn0.map Prod.fst = s.capnamelist := by have := hn.keys; simpa [hcn0] using this
      obtain ⟨cn', a1, a2, a3, a4, _, a6, _⟩ := assignLoop_spec s.capnamelist s cn0 hcn0 hc
        (fun nm hm => hkeys ▸ hm) hn.nodup
      have chain := assignLoop_chain (fun c => c ∈ explicitNumbers evs) s.capnamelist s cn0 hcn0 hc
        (fun nm hm => hkeys ▸ hm) hn.nodup (fun c hc' => hexp.2.1 hef c hc')
        (fun c hc' => by rcases hexp.1 c hc' with h' | h' | h'
                         · exact Or.inl h'
                         · exact absurd h' id
                         · exact Or.inr h')
        (by rw [hauto]; simp [initState]) cn' a1
      have hprev : s.autocap - 1 = (if cfg.explicitCapture then 0 else countUnnamed evs) := by
        rw [hauto]; simp [initState]
      rw [hprev] at chain
      have hn' : NamesInv (assignLoop s.capnamelist s) :=
        ⟨by rw [a1, a3]; simp [a4, hkeys], by rw [a3]; exact hn.nodup⟩
      have ht' : t = finishNames (assignLoop s.capnamelist s) := by
        rw [← ht]; unfold assignNameSlots; simp [hcn0]
      obtain ⟨_, _, _, f4⟩ := finishNames_inv (assignLoop s.capnamelist s) a2 hn' (by rw [a3]; exact hgood)
        (fun cn hcn' nm hnm => by
          rw [a1] at hcn'; injection hcn' with hcn'; subst hcn'
          exact a6 nm (by rw [a3] at hnm; exact hnm))
      refine ChainRule.congr s.capnamelist _ ?_ chain
      intro nm hnm
      obtain ⟨k, hk, _⟩ := a6 nm hnm
      have hb := f4 cn' nm a1 (by rw [a3]; exact hnm)
      rw [← ht', ← hcn, hk] at hb
      show cn'.lookup nm = groupNumberFromName m nm
      unfold groupNumberFromName
      cases hmc : m.capnames with
      | none => simp [hmc] at hb
      | some c => simp [hmc] at hb; simp [hb, hk]

end RegexVerif.Groups
