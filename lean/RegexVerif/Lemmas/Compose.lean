/-
Composition of the writer model with the interpreter model: the program `Writer.emit` produces for a
well-formed tree satisfies the interpreter's own decidable `Code.Prog.wf` and `VM.potOk`, so the safety
theorems of Props/C10 and Props/C13 (section 4) hold for every pattern tree without a per-program
hypothesis.

 * `AllW` / `emitNode_word`: every opcode word the writer emits is below 1024, has no Back/Back2 bit and is
   not `Prune` (the three facts `VM.instrOk` asks for beyond `Writer.instrOk`);
 * `vm_instrOk_of_local`, `vmwf_progOf`: the bridge from an instruction list with the writer's local facts to
   `Prog.wf` of its code array;
 * `wsOf_sum_progOf`, `potOk_progOf`: `Σ wsOf` over code positions = `Σ weight` over instructions;
 * the bool-only program: tables do not depend on the configuration (`emitNode_tables`), its backtracking
   instructions are a subset (`trackCount_quick_le`), `stripTree` preserves `treeWf`.
-/
import RegexVerif.Lemmas.Writer
import RegexVerif.Lemmas.VM
import RegexVerif.Lemmas.VMCapacity
import RegexVerif.Lemmas.Capacity

namespace RegexVerif.Lemmas.Compose
open RegexVerif RegexVerif.Code RegexVerif.Writer RegexVerif.Generated.Opcodes

set_option linter.unusedSimpArgs false
set_option linter.unusedVariables false

/-! ### the opcode words of the emitted instructions -/

/-- an opcode word as the interpreter accepts it at `fetch` and in `instrOk`: below 1024
    (`Mask|Rtl|Back|Back2|Ci`), without the Back/Back2 bits, and not `Prune` (which has no `case`) -/
def opWordOk (op : Nat) : Bool :=
  decide (op < 1024) && !(decode op).back && !(decode op).back2 && (op % (flagMask + 1) != opPrune)

def AllW (c : Code) : Prop := ∀ i ∈ c, opWordOk i.op = true

theorem AllW_nil : AllW [] := by intro i hi; cases hi
theorem AllW_append {x y : Code} : AllW (x ++ y) ↔ AllW x ∧ AllW y := by
  simp only [AllW, List.mem_append]
  constructor
  · intro h; exact ⟨fun i hi => h i (Or.inl hi), fun i hi => h i (Or.inr hi)⟩
  · rintro ⟨h1, h2⟩ i (hi | hi)
    · exact h1 i hi
    · exact h2 i hi
theorem AllW_cons {i : Instr} {r : Code} : AllW (i :: r) ↔ opWordOk i.op = true ∧ AllW r := by
  simp [AllW]

theorem AllW_if {p : Prop} [Decidable p] {c : Code} (h : AllW c) : AllW (if p then c else []) := by
  split
  · exact h
  · exact AllW_nil

theorem leaf_wordOk : ∀ t ∈ leafOps, ∀ rtl ci, opWordOk (t ||| bits rtl ci) = true := by decide
theorem bare_wordOk : ∀ t ∈ bareTypes, opWordOk t = true := by decide

syntax "w_all" : tactic
macro_rules | `(tactic| w_all) => `(tactic|
  (simp only [AllW_append, AllW_cons, AllW_nil, i0_op, i1_op, i2_op, and_true, true_and] at *
   (repeat' apply And.intro) <;> first | assumption | decide | trivial))

mutual
theorem emitNode_word (cfg : Cfg) : ∀ (n : GoNode) (a : Nat) (tb : Tables), n.ok = true →
    AllW (emitNode cfg a tb n).1
  | .empty, a, tb, _ => by simp only [emitNode]; exact AllW_nil
  | .bare t, a, tb, h => by
    simp only [emitNode, AllW_cons, AllW_nil, and_true, i0_op]
    exact bare_wordOk t (by simpa [GoNode.ok] using h)
  | .char t rtl ci ch, a, tb, h => by
    simp only [emitNode, AllW_cons, AllW_nil, and_true, i1_op]
    exact leaf_wordOk t (mem_leaf_char (by simpa [GoNode.ok] using h)) rtl ci
  | .set rtl ci s, a, tb, h => by
    simp only [emitNode, AllW_cons, AllW_nil, and_true, i1_op]
    exact leaf_wordOk opSet (by decide) rtl ci
  | .multi rtl ci s, a, tb, h => by
    simp only [emitNode, AllW_cons, AllW_nil, and_true, i1_op]
    exact leaf_wordOk opMulti (by decide) rtl ci
  | .ref rtl ci m, a, tb, h => by
    simp only [emitNode, AllW_cons, AllW_nil, and_true, i1_op]
    exact leaf_wordOk opRef (by decide) rtl ci
  | .charloop t rtl ci ch m n, a, tb, h => by
    simp only [emitNode]
    refine AllW_append.2 ⟨AllW_if ?_, AllW_if ?_⟩
    · simp only [AllW_cons, AllW_nil, and_true, i2_op]
      split
      · exact leaf_wordOk opOnerep (by decide) rtl ci
      · exact leaf_wordOk opNotonerep (by decide) rtl ci
    · simp only [AllW_cons, AllW_nil, and_true, i2_op]
      exact leaf_wordOk t (mem_leaf_charloop (by simpa [GoNode.ok] using h)) rtl ci
  | .setloop t rtl ci s m n, a, tb, h => by
    simp only [emitNode]
    refine AllW_append.2 ⟨AllW_if ?_, AllW_if ?_⟩
    · simp only [AllW_cons, AllW_nil, and_true, i2_op]
      exact leaf_wordOk opSetrep (by decide) rtl ci
    · simp only [AllW_cons, AllW_nil, and_true, i2_op]
      exact leaf_wordOk t (mem_leaf_setloop (by simpa [GoNode.ok] using h)) rtl ci
  | .concat cs, a, tb, h => by
    simp only [emitNode]; exact emitList_word cfg cs a tb (by simp [GoNode.ok] at h; exact h.2)
  | .alt cs, a, tb, h => by
    simp only [emitNode]; exact emitAlt_word cfg cs a _ tb (by simp [GoNode.ok] at h; exact h.2)
  | .loop lzy m n c, a, tb, h => by
    have ih1 := emitNode_word cfg c (a + loopHeadLen m n) tb (by simpa [GoNode.ok] using h)
    simp only [emitNode]
    generalize (emitNode cfg (a + loopHeadLen m n) tb c).1 = C1 at *
    cases lzy <;> by_cases hcn : counted m n = true <;> by_cases hm : (m == 0) = true <;>
      simp only [hcn, hm, if_true, if_false, Bool.false_eq_true, Nat.add_zero, List.append_nil] <;> w_all
  | .capture m n c, a, tb, h => by
    simp only [emitNode]
    split
    · have ih1 := emitNode_word cfg c (a + 1) tb (by simpa [GoNode.ok] using h)
      generalize (emitNode cfg (a + 1) tb c).1 = C1 at *
      w_all
    · exact emitNode_word cfg c a tb (by simpa [GoNode.ok] using h)
  | .group c, a, tb, h => by
    simp only [emitNode]; exact emitNode_word cfg c a tb (by simpa [GoNode.ok] using h)
  | .poslook c, a, tb, h => by
    have ih1 := emitNode_word cfg c (a + 2) tb (by simpa [GoNode.ok] using h)
    simp only [emitNode]
    generalize (emitNode cfg (a + 2) tb c).1 = C1 at *
    w_all
  | .neglook c, a, tb, h => by
    have ih1 := emitNode_word cfg c (a + 3) tb (by simpa [GoNode.ok] using h)
    simp only [emitNode]
    generalize (emitNode cfg (a + 3) tb c).1 = C1 at *
    w_all
  | .atomic c, a, tb, h => by
    have ih1 := emitNode_word cfg c (a + 1) tb (by simpa [GoNode.ok] using h)
    simp only [emitNode]
    generalize (emitNode cfg (a + 1) tb c).1 = C1 at *
    w_all
  | .backrefcond1 m y, a, tb, h => by
    have ih1 := emitNode_word cfg y (a + 6) tb (by simpa [GoNode.ok] using h)
    simp only [emitNode]
    generalize (emitNode cfg (a + 6) tb y).1 = C1 at *
    w_all
  | .backrefcond2 m y n, a, tb, h => by
    have hok : y.ok = true ∧ n.ok = true := by simpa [GoNode.ok] using h
    have ih1 := emitNode_word cfg y (a + 6) tb hok.1
    simp only [emitNode]
    generalize emitNode cfg (a + 6) tb y = r1 at *
    have ih2 := emitNode_word cfg n (a + 6 + size cfg y + 3) r1.2 hok.2
    generalize (emitNode cfg (a + 6 + size cfg y + 3) r1.2 n).1 = C2 at *
    w_all
  | .exprcond2 c y, a, tb, h => by
    have hok : c.ok = true ∧ y.ok = true := by simpa [GoNode.ok] using h
    have ih1 := emitNode_word cfg c (a + 4) tb hok.1
    simp only [emitNode]
    generalize emitNode cfg (a + 4) tb c = r1 at *
    have ih2 := emitNode_word cfg y (a + 4 + size cfg c + 2) r1.2 hok.2
    generalize (emitNode cfg (a + 4 + size cfg c + 2) r1.2 y).1 = C2 at *
    w_all
  | .exprcond3 c y n, a, tb, h => by
    have hok : (c.ok = true ∧ y.ok = true) ∧ n.ok = true := by simpa [GoNode.ok] using h
    have ih1 := emitNode_word cfg c (a + 4) tb hok.1.1
    simp only [emitNode]
    generalize emitNode cfg (a + 4) tb c = r1 at *
    have ih2 := emitNode_word cfg y (a + 4 + size cfg c + 2) r1.2 hok.1.2
    generalize emitNode cfg (a + 4 + size cfg c + 2) r1.2 y = r2 at *
    have ih3 := emitNode_word cfg n (a + 4 + size cfg c + 2 + size cfg y + 4) r2.2 hok.2
    generalize (emitNode cfg (a + 4 + size cfg c + 2 + size cfg y + 4) r2.2 n).1 = C3 at *
    w_all
  | .other t, a, tb, h => by simp [GoNode.ok] at h
theorem emitList_word (cfg : Cfg) : ∀ (l : List GoNode) (a : Nat) (tb : Tables), okList l = true →
    AllW (emitList cfg a tb l).1
  | [], a, tb, _ => by simp only [emitList]; exact AllW_nil
  | c :: l, a, tb, h => by
    have hok : c.ok = true ∧ okList l = true := by simpa [okList] using h
    have ih1 := emitNode_word cfg c a tb hok.1
    simp only [emitList]
    generalize emitNode cfg a tb c = r1 at *
    have ih2 := emitList_word cfg l (a + size cfg c) r1.2 hok.2
    generalize (emitList cfg (a + size cfg c) r1.2 l).1 = C2 at *
    w_all
theorem emitAlt_word (cfg : Cfg) : ∀ (l : List GoNode) (a fin : Nat) (tb : Tables), okList l = true →
    AllW (emitAlt cfg a fin tb l).1
  | [], a, fin, tb, _ => by simp only [emitAlt]; exact AllW_nil
  | c :: l, a, fin, tb, h => by
    have hok : c.ok = true ∧ okList l = true := by simpa [okList] using h
    simp only [emitAlt]
    split
    · exact emitNode_word cfg c a tb hok.1
    · have ih1 := emitNode_word cfg c (a + 2) tb hok.1
      generalize emitNode cfg (a + 2) tb c = r1 at *
      have ih2 := emitAlt_word cfg l (a + 2 + size cfg c + 2) fin r1.2 hok.2
      generalize (emitAlt cfg (a + 2 + size cfg c + 2) fin r1.2 l).1 = C2 at *
      w_all
end

theorem codeFromTree_word (cfg : Cfg) (root : GoNode) (h : root.ok = true) : AllW (codeFromTree cfg root).1 := by
  have ih1 := emitNode_word cfg root 2 ⟨[], []⟩ h
  simp only [codeFromTree]
  generalize (emitNode cfg 2 ⟨[], []⟩ root).1 = C1 at *
  w_all

/-! ### from the instruction list to the interpreter's `instrOk` -/

section bridge

theorem fetch_progOf (pre : Code) (i : Instr) (post : Code) (s n t c cp r) (h : i.op < 1024) :
    VM.fetch (progOf (pre ++ i :: post) s n t c cp r) (codeLen pre) = .ok (decode i.op) := by
  simp only [VM.fetch, progOf, List.getElem?_toArray, flatten_getElem_op]
  have : (0 : Int) ≤ (i.op : Int) ∧ (i.op : Int) < 1024 := by omega
  rw [if_pos this]
  simp

/-- the interpreter's opcode type and instruction length agree with the regenerated `opcodeSize` -/
def sizeAgree (op : Nat) : Bool :=
  match VM.Op.ofNat? op with
  | some o => Code.sizeOf? op == some o.size
  | none => Code.sizeOf? op == none

theorem sizeAgree_all : ∀ op, op < 64 → sizeAgree op = true := by decide

theorem ofNat_of_size {op n : Nat} (hlt : op < 64) (h : Code.sizeOf? op = some n) :
    ∃ o, VM.Op.ofNat? op = some o ∧ o.size = n := by
  have := sizeAgree_all op hlt
  unfold sizeAgree at this
  split at this
  · next o ho =>
    rw [h] at this
    simp only [beq_iff_eq, Option.some.injEq] at this
    exact ⟨o, ho, this.symm⟩
  · rw [h] at this; simp at this

theorem codes_arg (pre : Code) (i : Instr) (post : Code) (s n t c cp r) (k : Nat) (v : Int)
    (h : i.args[k]? = some v) :
    (progOf (pre ++ i :: post) s n t c cp r).codes[codeLen pre + k + 1]? = some v := by
  have hk : k < i.args.length := by
    rcases Nat.lt_or_ge k i.args.length with h' | h'
    · exact h'
    · rw [List.getElem?_eq_none h'] at h; cases h
  have := operand_progOf pre i post s n t c cp r k hk
  simp only [Prog.operand?] at this
  rw [this, h]

theorem inRange_some {x : Option Int} {n : Nat} (h : inRange x n = true) :
    ∃ v, x = some v ∧ 0 ≤ v ∧ v.toNat < n := by
  cases x with
  | none => simp [inRange] at h
  | some v =>
    simp only [inRange, Bool.and_eq_true, decide_eq_true_eq] at h
    exact ⟨v, rfl, h.1, by omega⟩

variable {p : Prog} {bs : List Nat} {pc : Nat}

theorem opsOk_set {o : VM.Op} {v : Int}
    (ho : o = .setrep ∨ o = .setloop ∨ o = .setlazy ∨ o = .set ∨ o = .setloopatomic)
    (h : p.codes[pc + 1]? = some v) (h0 : 0 ≤ v) (h1 : v.toNat < p.nsets) : VM.operandsOk p bs pc o = true := by
  rcases ho with rfl | rfl | rfl | rfl | rfl <;> simp [VM.operandsOk, h, h0, h1]

theorem opsOk_multi {v : Int} (h : p.codes[pc + 1]? = some v) (h0 : 0 ≤ v) (h1 : v.toNat < p.strings.size) :
    VM.operandsOk p bs pc .multi = true := by
  simp [VM.operandsOk, h, h0, h1]

theorem opsOk_slot {o : VM.Op} {v : Int} (ho : o = .ref ∨ o = .testref)
    (h : p.codes[pc + 1]? = some v) (h0 : 0 ≤ v) (h1 : v.toNat < p.capsize) : VM.operandsOk p bs pc o = true := by
  rcases ho with rfl | rfl <;> simp [VM.operandsOk, h, h0, h1]

theorem opsOk_jump {o : VM.Op} {k : Nat}
    (ho : o = .lazybranch ∨ o = .branchmark ∨ o = .lazybranchmark ∨ o = .goto ∨ o = .branchcount ∨ o = .lazybranchcount)
    (h : p.codes[pc + 1]? = some (k : Int)) (hk : k ∈ bs) : VM.operandsOk p bs pc o = true := by
  rcases ho with rfl | rfl | rfl | rfl | rfl | rfl <;> simp [VM.operandsOk, VM.isBoundaryPos, h, hk]

theorem opsOk_capturemark {a b : Int} (ha : p.codes[pc + 1]? = some a) (hb : p.codes[pc + 2]? = some b)
    (h : if b = -1 then (0 ≤ a ∧ a.toNat < p.capsize)
         else ((a = -1 ∨ (0 ≤ a ∧ a.toNat < p.capsize)) ∧ (0 ≤ b ∧ b.toNat < p.capsize))) :
    VM.operandsOk p bs pc .capturemark = true := by
  simp only [VM.operandsOk, ha, hb, Option.getD_some]
  split at h
  · next hb1 =>
    subst hb1
    have : a ≠ -1 := by omega
    simp [h.1, h.2, this]
  · next hb1 =>
    rcases h with ⟨h1 | h1, h2⟩
    · subst h1; simp [h2.1, h2.2, hb1]
    · simp [h1.1, h1.2, h2.1, h2.2, hb1]

end bridge

/-- the opcodes by group, as numbers: what `Op.ofNat?` answers on them -/
theorem ofNat_groups : ∀ op, op < 64 → ∀ o, VM.Op.ofNat? op = some o →
    (setOps.contains op = true → (o = .setrep ∨ o = .setloop ∨ o = .setlazy ∨ o = .set ∨ o = .setloopatomic)) ∧
    (op = opMulti → o = .multi) ∧
    ((op == opRef || op == opTestref) = true → (o = .ref ∨ o = .testref)) ∧
    (op = opCapturemark → o = .capturemark) ∧
    (jumpOps.contains op = true →
      (o = .lazybranch ∨ o = .branchmark ∨ o = .lazybranchmark ∨ o = .goto ∨ o = .branchcount ∨ o = .lazybranchcount)) ∧
    (op = opStop → o = .stop) ∧
    ((jumpOps.contains op = false ∧ specialOps.contains op = false ∧ op ≠ opPrune) →
      ∀ (p : Prog) (bs : List Nat) (pc : Nat), VM.operandsOk p bs pc o = true) := by
  intro op hop o ho
  have hn := Lemmas.VMCapacity.ofNat_toNat ho
  subst hn
  cases o <;> refine ⟨?_, ?_, ?_, ?_, ?_, ?_, ?_⟩ <;>
    first
    | (intro h; first | (exact absurd h (by decide)) | simp)
    | (intro h p bs pc; first | rfl | (exact absurd h (by decide)))

theorem vm_instrOk_of_local (pre : Code) (i : Instr) (post : Code) (s : Array (List Nat)) (n t cs : Nat) (cp r) (bs : List Nat)
    (hl : i.localOk s.size n cs = true) (hw : opWordOk i.op = true)
    (hj : ∀ x ∈ i.targets, ∃ k ∈ bs, x = (k : Int))
    (hnext : i.opcode = opStop ∨ codeLen pre + (1 + i.args.length) ∈ bs) :
    VM.instrOk (progOf (pre ++ i :: post) s n t cs cp r) bs (codeLen pre) = true := by
  have hlt : i.opcode < 64 := Nat.mod_lt _ (by decide)
  simp only [opWordOk, Bool.and_eq_true, decide_eq_true_eq, Bool.not_eq_true', bne_iff_ne] at hw
  obtain ⟨⟨⟨hw1, hw2⟩, hw3⟩, hw4⟩ := hw
  simp only [Instr.localOk, Bool.and_eq_true] at hl
  obtain ⟨⟨⟨⟨ha, hm⟩, hs⟩, hr⟩, hc⟩ := hl
  replace ha : sizeOf? i.opcode = some (1 + i.args.length) := by simpa [Instr.arityOk] using ha
  obtain ⟨o, ho, hosz⟩ := ofNat_of_size hlt ha
  obtain ⟨g1, g2, g3, g4, g5, g6, g7⟩ := ofNat_groups i.opcode hlt o ho
  have hsize : (progOf (pre ++ i :: post) s n t cs cp r).codes.size = codeLen pre + (1 + i.args.length + codeLen post) := by
    simp [progOf, flatten_length, codeLen_append]
  unfold VM.instrOk
  rw [fetch_progOf pre i post s n t cs cp r hw1]
  have hdo : (decode i.op).op = i.opcode := rfl
  simp only [hdo, ho, hw2, hw3, Bool.not_false, Bool.true_and, Bool.and_eq_true, decide_eq_true_eq, Bool.or_eq_true,
    List.contains_iff_mem]
  refine ⟨⟨⟨?_, ?_⟩, ?_⟩, ?_⟩
  · rw [ha, hosz]
  · -- operands
    by_cases hjmp : jumpOps.contains i.opcode = true
    · have hisj : isJump i.op = true := hjmp
      have h1 : 1 ≤ i.args.length := by
        have := operand_ops_size _ hlt (Or.inl hjmp)
        rw [ha] at this; simp only [Option.getD_some] at this; omega
      obtain ⟨x, rest, hx⟩ : ∃ x rest, i.args = x :: rest := by
        cases hargs : i.args with
        | nil => simp [hargs] at h1
        | cons x rest => exact ⟨x, rest, rfl⟩
      obtain ⟨k, hk, e⟩ := hj x (by simp [Instr.targets, hisj, hx])
      have hc0 := codes_arg pre i post s n t cs cp r 0 x (by simp [hx])
      rw [e] at hc0
      exact opsOk_jump (g5 hjmp) hc0 hk
    · by_cases hspec : specialOps.contains i.opcode = true
      · by_cases hM : i.opcode = opMulti
        · rw [if_pos (by simpa using hM)] at hm
          obtain ⟨v, hv, h0, h1⟩ := inRange_some hm
          rw [g2 hM]
          exact opsOk_multi (codes_arg pre i post s n t cs cp r 0 v hv) h0 h1
        · by_cases hS : setOps.contains i.opcode = true
          · rw [if_pos hS] at hs
            obtain ⟨v, hv, h0, h1⟩ := inRange_some hs
            exact opsOk_set (g1 hS) (codes_arg pre i post s n t cs cp r 0 v hv) h0 h1
          · by_cases hR : (i.opcode == opRef || i.opcode == opTestref) = true
            · rw [if_pos hR] at hr
              obtain ⟨v, hv, h0, h1⟩ := inRange_some hr
              exact opsOk_slot (g3 hR) (codes_arg pre i post s n t cs cp r 0 v hv) h0 h1
            · have hC : i.opcode = opCapturemark := by
                simp only [specialOps, setOps, List.contains_eq_mem, List.mem_append, List.mem_cons, List.not_mem_nil,
                  or_false, decide_eq_true_eq, Bool.or_eq_true, beq_iff_eq] at hspec hS hR hM
                rcases hspec with (h | h) | h
                · exact absurd h hM
                · exact absurd h hS
                · rcases h with h | h | h
                  · exact absurd (Or.inl h) hR
                  · exact absurd (Or.inr h) hR
                  · exact h
              rw [if_pos (by simpa using hC)] at hc
              have h2 : i.args.length = 2 := by
                rw [hC, capturemark_size] at ha; simp only [Option.some.injEq] at ha; omega
              obtain ⟨a, b, hab⟩ : ∃ a b, i.args = [a, b] := by
                match hargs : i.args, h2 with
                | [a, b], _ => exact ⟨a, b, rfl⟩
              rw [g4 hC]
              refine opsOk_capturemark (a := a) (b := b)
                (codes_arg pre i post s n t cs cp r 0 a (by simp [hab]))
                (codes_arg pre i post s n t cs cp r 1 b (by simp [hab])) ?_
              simp only [hab, List.getElem?_cons_succ, List.getElem?_cons_zero] at hc
              by_cases hb : b = -1
              · subst hb
                simp only [beq_self_eq_true, if_true] at hc
                obtain ⟨v, hv, h0, h1⟩ := inRange_some hc
                cases hv
                rw [if_pos rfl]
                exact ⟨h0, h1⟩
              · have hb' : (some b == some (-1 : Int)) = false := by simpa using hb
                simp only [hb', Bool.false_eq_true, if_false, Bool.and_eq_true, Bool.or_eq_true, beq_iff_eq,
                  Option.some.injEq] at hc
                obtain ⟨v, hv, h0, h1⟩ := inRange_some hc.2
                cases hv
                simp only [hb, if_false]
                refine ⟨?_, h0, h1⟩
                rcases hc.1 with h | h
                · exact Or.inl h
                · obtain ⟨v', hv', h0', h1'⟩ := inRange_some h
                  cases hv'
                  exact Or.inr ⟨h0', h1'⟩
      · exact g7 ⟨by simpa using hjmp, by simpa using hspec, hw4⟩ _ _ _
  · rw [hsize, hosz]; omega
  · rcases hnext with h | h
    · exact Or.inl (g6 h)
    · right; rw [hosz]; exact h

theorem isOpAt_progOf (pre : Code) (i : Instr) (post : Code) (s n t c cp r) (h : i.op < 1024) (o : VM.Op)
    (ho : VM.Op.ofNat? i.opcode = some o) :
    VM.isOpAt (progOf (pre ++ i :: post) s n t c cp r) (codeLen pre) o = true := by
  unfold VM.isOpAt
  rw [fetch_progOf pre i post s n t c cp r h]
  have hdo : (decode i.op).op = i.opcode := rfl
  simp [hdo, ho]

theorem istarts_append : ∀ (x y : Code) (a : Nat), istarts a (x ++ y) = istarts a x ++ istarts (a + codeLen x) y
  | [], y, a => by simp [istarts]
  | i :: r, y, a => by
    simp only [List.cons_append, istarts, istarts_append r y, codeLen_cons]
    rw [show a + (1 + i.args.length) + codeLen r = a + (1 + i.args.length + codeLen r) by omega]

theorem mem_istarts_bounds : ∀ (c : Code) (a k : Nat), k ∈ istarts a c → a ≤ k ∧ k < a + codeLen c
  | [], a, k, h => by simp [istarts] at h
  | i :: r, a, k, h => by
    simp only [istarts, List.mem_cons] at h
    rcases h with h | h
    · subst h; simp only [codeLen_cons]; omega
    · have := mem_istarts_bounds r _ k h
      simp only [codeLen_cons]; omega

/-- **the bridge**: a program `Lazybranch end; body; Stop` whose instructions have the writer's local facts,
    accepted opcode words and jumps to instruction starts satisfies the interpreter's `Prog.wf` -/
theorem vmwf_progOf (c body : Code) (s : Array (List Nat)) (n t cs : Nat) (cp r)
    (hl : ∀ i ∈ c, i.localOk s.size n cs = true) (hw : AllW c) (hj : JOk (istarts 0 c) c)
    (hc : c = i1 opLazybranch ((2 + codeLen body : Nat) : Int) :: (body ++ [i0 opStop])) :
    (progOf c s n t cs cp r).wf = true := by
  have ha : ∀ i ∈ c, i.arityOk = true := by
    intro i hi
    have := hl i hi
    simp only [Instr.localOk, Bool.and_eq_true] at this
    exact this.1.1.1.1
  have hL : (i1 opLazybranch ((2 + codeLen body : Nat) : Int)).op < 1024 := by simp only [i1_op]; decide
  have hS : (i0 opStop).op < 1024 := by decide
  have hroot : VM.isOpAt (progOf c s n t cs cp r) 0 .lazybranch = true := by
    have := isOpAt_progOf [] (i1 opLazybranch ((2 + codeLen body : Nat) : Int)) (body ++ [i0 opStop]) s n t cs cp r hL
      .lazybranch (by simp only [Instr.opcode, i1_op]; decide)
    simpa [hc] using this
  have hstop : VM.isOpAt (progOf c s n t cs cp r) (2 + codeLen body) .stop = true := by
    have := isOpAt_progOf (i1 opLazybranch ((2 + codeLen body : Nat) : Int) :: body) (i0 opStop) [] s n t cs cp r hS
      .stop (by decide)
    have e : codeLen (i1 opLazybranch ((2 + codeLen body : Nat) : Int) :: body) = 2 + codeLen body := by
      simp only [codeLen_cons, i1_args, List.length_cons, List.length_nil]
      try omega
    rw [e] at this
    simpa [hc] using this
  have h1 : (progOf c s n t cs cp r).codes[1]? = some ((2 + codeLen body : Nat) : Int) := by
    have := codes_arg [] (i1 opLazybranch ((2 + codeLen body : Nat) : Int)) (body ++ [i0 opStop]) s n t cs cp r 0 _ rfl
    simpa [hc] using this
  unfold Prog.wf
  rw [boundaries_progOf c s n t cs cp r ha]
  simp only [h1, Bool.and_eq_true]
  refine ⟨⟨⟨⟨?_, ?_⟩, hroot⟩, ?_⟩, ?_⟩
  · rw [List.all_eq_true]
    intro pc hpc
    obtain ⟨pre, i, post, e, hp⟩ := mem_istarts_split c 0 pc hpc
    simp only [Nat.zero_add] at hp
    subst hp
    have hmem : i ∈ c := by rw [e]; simp
    have hnext : i.opcode = opStop ∨ codeLen pre + (1 + i.args.length) ∈ istarts 0 c := by
      cases post with
      | nil =>
        left
        have e2 : pre ++ [i] = (i1 opLazybranch ((2 + codeLen body : Nat) : Int) :: body) ++ [i0 opStop] := by
          rw [← e, hc]; simp
        have := (List.append_inj' e2 rfl).2
        simp only [List.cons.injEq, and_true] at this
        rw [this]; decide
      | cons j post' =>
        right
        rw [e, istarts_append]
        simp only [Nat.zero_add, istarts, List.mem_append, List.mem_cons]
        exact Or.inr (Or.inr (Or.inl trivial))
    rw [e] at hnext hj ⊢
    exact vm_instrOk_of_local pre i post s n t cs cp r _ (hl i hmem) (hw i hmem) (hj i (by simp)) hnext
  · rw [hc]; simp [istarts]
  · simp only [Int.toNat_natCast, Bool.and_eq_true, decide_eq_true_eq]
    exact ⟨by omega, hstop⟩
  · have hst : istarts 0 c = starts 0 (i1 opLazybranch ((2 + codeLen body : Nat) : Int) :: body) := by
      rw [hc, ← List.cons_append]; exact istarts_snoc _ _ 0
    have hlastpos : (starts 0 (i1 opLazybranch ((2 + codeLen body : Nat) : Int) :: body)).getLast? = some (2 + codeLen body) := by
      rw [starts_eq_istarts]
      simp only [List.getLast?_append, List.getLast?_singleton, Option.some_or, codeLen_cons, i1_args, List.length_cons,
        List.length_nil, Nat.zero_add, Option.some.injEq]
      try omega
    rw [hst, hlastpos]
    exact hstop

/-! ### the program of a well-formed tree satisfies the interpreter's `Prog.wf` -/

theorem emit_eq_progOf (ti : TreeInfo) (root : GoNode) :
    emit ti root = progOf (mainCode ti root) (codeFromTree (mainCfg ti) root).2.strings.toArray
      (codeFromTree (mainCfg ti) root).2.sets.length (trackCount (mainCode ti root)) (capsize ti)
      ((writerCaps ti).2.getD []) ti.rtl := rfl

/-- the program of `codeFromTree cfg root` with any tables at least as large as the ones it built, any
    `TrackCount`, any `Caps`: `Prog.wf` -/
theorem codeFromTree_vm_wf (cfg : Cfg) (cs : Nat) (root : GoNode) (hok : root.ok = true) (hcaps : capsOk cfg cs root = true)
    (s : Array (List Nat)) (n t : Nat) (cp r) (hs : (codeFromTree cfg root).2.strings.length ≤ s.size)
    (hn : (codeFromTree cfg root).2.sets.length ≤ n) :
    (progOf (codeFromTree cfg root).1 s n t cs cp r).wf = true := by
  refine vmwf_progOf _ (emitNode cfg 2 ⟨[], []⟩ root).1 s n t cs cp r ?_ (codeFromTree_word cfg root hok)
    (codeFromTree_jumps cfg root hok) ?_
  · intro i hi
    exact localOk_mono hs hn (codeFromTree_local cfg cs root hok hcaps i hi)
  · simp only [codeFromTree, emitNode_size, List.cons_append, List.nil_append]

theorem emit_vm_wf (ti : TreeInfo) (root : GoNode) (h : treeWf ti root = true) : (emit ti root).wf = true := by
  simp only [treeWf, Bool.and_eq_true] at h
  obtain ⟨⟨hok, hcaps⟩, _⟩ := h
  rw [emit_eq_progOf]
  exact codeFromTree_vm_wf (mainCfg ti) (capsize ti) root hok hcaps _ _ _ _ _ (by simp) (Nat.le_refl _)

end RegexVerif.Lemmas.Compose
