/-
Composition of the writer model with the interpreter model: the program `Writer.emit` produces for a
well-formed tree satisfies the interpreter's own decidable `Code.Prog.wf` and `VM.potOk`, so the safety
theorems of Props/C10 and Props/C13 (section 4) hold for every pattern tree without a per-program
hypothesis.

 * `AllW` / `emitNode_word`: every opcode word the writer emits is below 1024, has no Back/Back2 bit and is
   not `Prune` (the three facts `VM.instrOk` asks for beyond `Writer.instrOk`);
 * `vm_instrOk_of_local`, `vmwf_progOf`: the bridge from an instruction list with the writer's local facts to
   `Prog.wf` of its code array;
 * `wsOf_sum_progOf`, `potOk_progOf`: `Σ wsOf` over code positions = `Σ weight` over instructions;
 * the bool-only program: tables do not depend on the configuration (`emitNode_tables`), its backtracking
   instructions are a subset (`trackCount_quick_le`), `stripTree` preserves `treeWf`.
-/
import RegexVerif.Lemmas.Writer
import RegexVerif.Lemmas.VM
import RegexVerif.Lemmas.VMCapacity
import RegexVerif.Lemmas.Capacity

namespace RegexVerif.Lemmas.Compose
open RegexVerif RegexVerif.Code RegexVerif.Writer RegexVerif.Generated.Opcodes

set_option linter.unusedSimpArgs false
set_option linter.unusedVariables false

/-! ### the opcode words of the emitted instructions -/

/-- an opcode word as the interpreter accepts it at `fetch` and in `instrOk`: below 1024
    (`Mask|Rtl|Back|Back2|Ci`), without the Back/Back2 bits, and not `Prune` (which has no `case`) -/
def opWordOk (op : Nat) : Bool :=
  decide (op < 1024) && !(decode op).back && !(decode op).back2 && (op % (flagMask + 1) != opPrune)

def AllW (c : Code) : Prop := ∀ i ∈ c, opWordOk i.op = true

theorem AllW_nil : AllW [] := by intro i hi; cases hi
theorem AllW_append {x y : Code} : AllW (x ++ y) ↔ AllW x ∧ AllW y := by
  simp only [AllW, List.mem_append]
  constructor
  · intro h; exact ⟨fun i hi => h i (Or.inl hi), fun i hi => h i (Or.inr hi)⟩
  · rintro ⟨h1, h2⟩ i (hi | hi)
    · exact h1 i hi
    · exact h2 i hi
theorem AllW_cons {i : Instr} {r : Code} : AllW (i :: r) ↔ opWordOk i.op = true ∧ AllW r := by
  simp [AllW]

theorem AllW_if {p : Prop} [Decidable p] {c : Code} (h : AllW c) : AllW (if p then c else []) := by
  split
  · exact h
  · exact AllW_nil

theorem leaf_wordOk : ∀ t ∈ leafOps, ∀ rtl ci, opWordOk (t ||| bits rtl ci) = true := by decide
theorem bare_wordOk : ∀ t ∈ bareTypes, opWordOk t = true := by decide

syntax "w_all" : tactic
macro_rules | `(tactic| w_all) => `(tactic|
  (simp only [AllW_append, AllW_cons, AllW_nil, i0_op, i1_op, i2_op, and_true, true_and] at *
   (repeat' apply And.intro) <;> first | assumption | decide | trivial))

mutual
theorem emitNode_word (cfg : Cfg) : ∀ (n : GoNode) (a : Nat) (tb : Tables), n.ok = true →
    AllW (emitNode cfg a tb n).1
  | .empty, a, tb, _ => by simp only [emitNode]; exact AllW_nil
  | .bare t, a, tb, h => by
    simp only [emitNode, AllW_cons, AllW_nil, and_true, i0_op]
    exact bare_wordOk t (by simpa [GoNode.ok] using h)
  | .char t rtl ci ch, a, tb, h => by
    simp only [emitNode, AllW_cons, AllW_nil, and_true, i1_op]
    exact leaf_wordOk t (mem_leaf_char (by simpa [GoNode.ok] using h)) rtl ci
  | .set rtl ci s, a, tb, h => by
    simp only [emitNode, AllW_cons, AllW_nil, and_true, i1_op]
    exact leaf_wordOk opSet (by decide) rtl ci
  | .multi rtl ci s, a, tb, h => by
    simp only [emitNode, AllW_cons, AllW_nil, and_true, i1_op]
    exact leaf_wordOk opMulti (by decide) rtl ci
  | .ref rtl ci m, a, tb, h => by
    simp only [emitNode, AllW_cons, AllW_nil, and_true, i1_op]
    exact leaf_wordOk opRef (by decide) rtl ci
  | .charloop t rtl ci ch m n, a, tb, h => by
    simp only [emitNode]
    refine AllW_append.2 ⟨AllW_if ?_, AllW_if ?_⟩
    · simp only [AllW_cons, AllW_nil, and_true, i2_op]
      split
      · exact leaf_wordOk opOnerep (by decide) rtl ci
      · exact leaf_wordOk opNotonerep (by decide) rtl ci
    · simp only [AllW_cons, AllW_nil, and_true, i2_op]
      exact leaf_wordOk t (mem_leaf_charloop (by simpa [GoNode.ok] using h)) rtl ci
  | .setloop t rtl ci s m n, a, tb, h => by
    simp only [emitNode]
    refine AllW_append.2 ⟨AllW_if ?_, AllW_if ?_⟩
    · simp only [AllW_cons, AllW_nil, and_true, i2_op]
      exact leaf_wordOk opSetrep (by decide) rtl ci
    · simp only [AllW_cons, AllW_nil, and_true, i2_op]
      exact leaf_wordOk t (mem_leaf_setloop (by simpa [GoNode.ok] using h)) rtl ci
  | .concat cs, a, tb, h => by
    simp only [emitNode]; exact emitList_word cfg cs a tb (by simp [GoNode.ok] at h; exact h.2)
  | .alt cs, a, tb, h => by
    simp only [emitNode]; exact emitAlt_word cfg cs a _ tb (by simp [GoNode.ok] at h; exact h.2)
  | .loop lzy m n c, a, tb, h => by
    have ih1 := emitNode_word cfg c (a + loopHeadLen m n) tb (by simpa [GoNode.ok] using h)
    simp only [emitNode]
    generalize (emitNode cfg (a + loopHeadLen m n) tb c).1 = C1 at *
    cases lzy <;> by_cases hcn : counted m n = true <;> by_cases hm : (m == 0) = true <;>
      simp only [hcn, hm, if_true, if_false, Bool.false_eq_true, Nat.add_zero, List.append_nil] <;> w_all
  | .capture m n c, a, tb, h => by
    simp only [emitNode]
    split
    · have ih1 := emitNode_word cfg c (a + 1) tb (by simpa [GoNode.ok] using h)
      generalize (emitNode cfg (a + 1) tb c).1 = C1 at *
      w_all
    · exact emitNode_word cfg c a tb (by simpa [GoNode.ok] using h)
  | .group c, a, tb, h => by
    simp only [emitNode]; exact emitNode_word cfg c a tb (by simpa [GoNode.ok] using h)
  | .poslook c, a, tb, h => by
    have ih1 := emitNode_word cfg c (a + 2) tb (by simpa [GoNode.ok] using h)
    simp only [emitNode]
    generalize (emitNode cfg (a + 2) tb c).1 = C1 at *
    w_all
  | .neglook c, a, tb, h => by
    have ih1 := emitNode_word cfg c (a + 3) tb (by simpa [GoNode.ok] using h)
    simp only [emitNode]
    generalize (emitNode cfg (a + 3) tb c).1 = C1 at *
    w_all
  | .atomic c, a, tb, h => by
    have ih1 := emitNode_word cfg c (a + 1) tb (by simpa [GoNode.ok] using h)
    simp only [emitNode]
    generalize (emitNode cfg (a + 1) tb c).1 = C1 at *
    w_all
  | .backrefcond1 m y, a, tb, h => by
    have ih1 := emitNode_word cfg y (a + 6) tb (by simpa [GoNode.ok] using h)
    simp only [emitNode]
    generalize (emitNode cfg (a + 6) tb y).1 = C1 at *
    w_all
  | .backrefcond2 m y n, a, tb, h => by
    have hok : y.ok = true ∧ n.ok = true := by simpa [GoNode.ok] using h
    have ih1 := emitNode_word cfg y (a + 6) tb hok.1
    simp only [emitNode]
    generalize emitNode cfg (a + 6) tb y = r1 at *
    have ih2 := emitNode_word cfg n (a + 6 + size cfg y + 3) r1.2 hok.2
    generalize (emitNode cfg (a + 6 + size cfg y + 3) r1.2 n).1 = C2 at *
    w_all
  | .exprcond2 c y, a, tb, h => by
    have hok : c.ok = true ∧ y.ok = true := by simpa [GoNode.ok] using h
    have ih1 := emitNode_word cfg c (a + 4) tb hok.1
    simp only [emitNode]
    generalize emitNode cfg (a + 4) tb c = r1 at *
    have ih2 := emitNode_word cfg y (a + 4 + size cfg c + 2) r1.2 hok.2
    generalize (emitNode cfg (a + 4 + size cfg c + 2) r1.2 y).1 = C2 at *
    w_all
  | .exprcond3 c y n, a, tb, h => by
    have hok : (c.ok = true ∧ y.ok = true) ∧ n.ok = true := by simpa [GoNode.ok] using h
    have ih1 := emitNode_word cfg c (a + 4) tb hok.1.1
    simp only [emitNode]
    generalize emitNode cfg (a + 4) tb c = r1 at *
    have ih2 := emitNode_word cfg y (a + 4 + size cfg c + 2) r1.2 hok.1.2
    generalize emitNode cfg (a + 4 + size cfg c + 2) r1.2 y = r2 at *
    have ih3 := emitNode_word cfg n (a + 4 + size cfg c + 2 + size cfg y + 4) r2.2 hok.2
    generalize (emitNode cfg (a + 4 + size cfg c + 2 + size cfg y + 4) r2.2 n).1 = C3 at *
    w_all
  | .other t, a, tb, h => by simp [GoNode.ok] at h
theorem emitList_word (cfg : Cfg) : ∀ (l : List GoNode) (a : Nat) (tb : Tables), okList l = true →
    AllW (emitList cfg a tb l).1
  | [], a, tb, _ => by simp only [emitList]; exact AllW_nil
  | c :: l, a, tb, h => by
    have hok : c.ok = true ∧ okList l = true := by simpa [okList] using h
    have ih1 := emitNode_word cfg c a tb hok.1
    simp only [emitList]
    generalize emitNode cfg a tb c = r1 at *
    have ih2 := emitList_word cfg l (a + size cfg c) r1.2 hok.2
    generalize (emitList cfg (a + size cfg c) r1.2 l).1 = C2 at *
    w_all
theorem emitAlt_word (cfg : Cfg) : ∀ (l : List GoNode) (a fin : Nat) (tb : Tables), okList l = true →
    AllW (emitAlt cfg a fin tb l).1
  | [], a, fin, tb, _ => by simp only [emitAlt]; exact AllW_nil
  | c :: l, a, fin, tb, h => by
    have hok : c.ok = true ∧ okList l = true := by simpa [okList] using h
    simp only [emitAlt]
    split
    · exact emitNode_word cfg c a tb hok.1
    · have ih1 := emitNode_word cfg c (a + 2) tb hok.1
      generalize emitNode cfg (a + 2) tb c = r1 at *
      have ih2 := emitAlt_word cfg l (a + 2 + size cfg c + 2) fin r1.2 hok.2
      generalize (emitAlt cfg (a + 2 + size cfg c + 2) fin r1.2 l).1 = C2 at *
      w_all
end

theorem codeFromTree_word (cfg : Cfg) (root : GoNode) (h : root.ok = true) : AllW (codeFromTree cfg root).1 := by
  have ih1 := emitNode_word cfg root 2 ⟨[], []⟩ h
  simp only [codeFromTree]
  generalize (emitNode cfg 2 ⟨[], []⟩ root).1 = C1 at *
  w_all

/-! ### from the instruction list to the interpreter's `instrOk` -/

section bridge

theorem fetch_progOf (pre : Code) (i : Instr) (post : Code) (s n t c cp r) (h : i.op < 1024) :
    VM.fetch (progOf (pre ++ i :: post) s n t c cp r) (codeLen pre) = .ok (decode i.op) := by
  simp only [VM.fetch, progOf, List.getElem?_toArray, flatten_getElem_op]
  have : (0 : Int) ≤ (i.op : Int) ∧ (i.op : Int) < 1024 := by omega
  rw [if_pos this]
  simp

/-- the interpreter's opcode type and instruction length agree with the regenerated `opcodeSize` -/
def sizeAgree (op : Nat) : Bool :=
  match VM.Op.ofNat? op with
  | some o => Code.sizeOf? op == some o.size
  | none => Code.sizeOf? op == none

theorem sizeAgree_all : ∀ op, op < 64 → sizeAgree op = true := by decide

theorem ofNat_of_size {op n : Nat} (hlt : op < 64) (h : Code.sizeOf? op = some n) :
    ∃ o, VM.Op.ofNat? op = some o ∧ o.size = n := by
  have := sizeAgree_all op hlt
  unfold sizeAgree at this
  split at this
  · next o ho =>
    rw [h] at this
    simp only [beq_iff_eq, Option.some.injEq] at this
    exact ⟨o, ho, this.symm⟩
  · rw [h] at this; simp at this

theorem codes_arg (pre : Code) (i : Instr) (post : Code) (s n t c cp r) (k : Nat) (v : Int)
    (h : i.args[k]? = some v) :
    (progOf (pre ++ i :: post) s n t c cp r).codes[codeLen pre + k + 1]? = some v := by
  have hk : k < i.args.length := by
    rcases Nat.lt_or_ge k i.args.length with h' | h'
    · exact h'
    · rw [List.getElem?_eq_none h'] at h; cases h
  have := operand_progOf pre i post s n t c cp r k hk
  simp only [Prog.operand?] at this
  rw [this, h]

theorem inRange_some {x : Option Int} {n : Nat} (h : inRange x n = true) :
    ∃ v, x = some v ∧ 0 ≤ v ∧ v.toNat < n := by
  cases x with
  | none => simp [inRange] at h
  | some v =>
    simp only [inRange, Bool.and_eq_true, decide_eq_true_eq] at h
    exact ⟨v, rfl, h.1, by omega⟩

variable {p : Prog} {bs : List Nat} {pc : Nat}

theorem opsOk_set {o : VM.Op} {v : Int}
    (ho : o = .setrep ∨ o = .setloop ∨ o = .setlazy ∨ o = .set ∨ o = .setloopatomic)
    (h : p.codes[pc + 1]? = some v) (h0 : 0 ≤ v) (h1 : v.toNat < p.nsets) : VM.operandsOk p bs pc o = true := by
  rcases ho with rfl | rfl | rfl | rfl | rfl <;> simp [VM.operandsOk, h, h0, h1]

theorem opsOk_multi {v : Int} (h : p.codes[pc + 1]? = some v) (h0 : 0 ≤ v) (h1 : v.toNat < p.strings.size) :
    VM.operandsOk p bs pc .multi = true := by
  simp [VM.operandsOk, h, h0, h1]

theorem opsOk_slot {o : VM.Op} {v : Int} (ho : o = .ref ∨ o = .testref)
    (h : p.codes[pc + 1]? = some v) (h0 : 0 ≤ v) (h1 : v.toNat < p.capsize) : VM.operandsOk p bs pc o = true := by
  rcases ho with rfl | rfl <;> simp [VM.operandsOk, h, h0, h1]

theorem opsOk_jump {o : VM.Op} {k : Nat}
    (ho : o = .lazybranch ∨ o = .branchmark ∨ o = .lazybranchmark ∨ o = .goto ∨ o = .branchcount ∨ o = .lazybranchcount)
    (h : p.codes[pc + 1]? = some (k : Int)) (hk : k ∈ bs) : VM.operandsOk p bs pc o = true := by
  rcases ho with rfl | rfl | rfl | rfl | rfl | rfl <;> simp [VM.operandsOk, VM.isBoundaryPos, h, hk]

theorem opsOk_capturemark {a b : Int} (ha : p.codes[pc + 1]? = some a) (hb : p.codes[pc + 2]? = some b)
    (h : if b = -1 then (0 ≤ a ∧ a.toNat < p.capsize)
         else ((a = -1 ∨ (0 ≤ a ∧ a.toNat < p.capsize)) ∧ (0 ≤ b ∧ b.toNat < p.capsize))) :
    VM.operandsOk p bs pc .capturemark = true := by
  simp only [VM.operandsOk, ha, hb, Option.getD_some]
  split at h
  · next hb1 =>
    subst hb1
    have : a ≠ -1 := by omega
    simp [h.1, h.2, this]
  · next hb1 =>
    rcases h with ⟨h1 | h1, h2⟩
    · subst h1; simp [h2.1, h2.2, hb1]
    · simp [h1.1, h1.2, h2.1, h2.2, hb1]

end bridge

/-- the opcodes by group, as numbers: what `Op.ofNat?` answers on them -/
theorem ofNat_groups : ∀ op, op < 64 → ∀ o, VM.Op.ofNat? op = some o →
    (setOps.contains op = true → (o = .setrep ∨ o = .setloop ∨ o = .setlazy ∨ o = .set ∨ o = .setloopatomic)) ∧
    (op = opMulti → o = .multi) ∧
    ((op == opRef || op == opTestref) = true → (o = .ref ∨ o = .testref)) ∧
    (op = opCapturemark → o = .capturemark) ∧
    (jumpOps.contains op = true →
      (o = .lazybranch ∨ o = .branchmark ∨ o = .lazybranchmark ∨ o = .goto ∨ o = .branchcount ∨ o = .lazybranchcount)) ∧
    (op = opStop → o = .stop) ∧
    ((jumpOps.contains op = false ∧ specialOps.contains op = false ∧ op ≠ opPrune) →
      ∀ (p : Prog) (bs : List Nat) (pc : Nat), VM.operandsOk p bs pc o = true) := by
  intro op hop o ho
  have hn := Lemmas.VMCapacity.ofNat_toNat ho
  subst hn
  cases o <;> refine ⟨?_, ?_, ?_, ?_, ?_, ?_, ?_⟩ <;>
    first
    | (intro h; first | (exact absurd h (by decide)) | simp)
    | (intro h p bs pc; first | rfl | (exact absurd h (by decide)))

theorem vm_instrOk_of_local (pre : Code) (i : Instr) (post : Code) (s : Array (List Nat)) (n t cs : Nat) (cp r) (bs : List Nat)
    (hl : i.localOk s.size n cs = true) (hw : opWordOk i.op = true)
    (hj : ∀ x ∈ i.targets, ∃ k ∈ bs, x = (k : Int))
    (hnext : i.opcode = opStop ∨ codeLen pre + (1 + i.args.length) ∈ bs) :
    VM.instrOk (progOf (pre ++ i :: post) s n t cs cp r) bs (codeLen pre) = true := by
  have hlt : i.opcode < 64 := Nat.mod_lt _ (by decide)
  simp only [opWordOk, Bool.and_eq_true, decide_eq_true_eq, Bool.not_eq_true', bne_iff_ne] at hw
  obtain ⟨⟨⟨hw1, hw2⟩, hw3⟩, hw4⟩ := hw
  simp only [Instr.localOk, Bool.and_eq_true] at hl
  obtain ⟨⟨⟨⟨ha, hm⟩, hs⟩, hr⟩, hc⟩ := hl
  replace ha : sizeOf? i.opcode = some (1 + i.args.length) := by simpa [Instr.arityOk] using ha
  obtain ⟨o, ho, hosz⟩ := ofNat_of_size hlt ha
  obtain ⟨g1, g2, g3, g4, g5, g6, g7⟩ := ofNat_groups i.opcode hlt o ho
  have hsize : (progOf (pre ++ i :: post) s n t cs cp r).codes.size = codeLen pre + (1 + i.args.length + codeLen post) := by
    simp [progOf, flatten_length, codeLen_append]
  unfold VM.instrOk
  rw [fetch_progOf pre i post s n t cs cp r hw1]
  have hdo : (decode i.op).op = i.opcode := rfl
  simp only [hdo, ho, hw2, hw3, Bool.not_false, Bool.true_and, Bool.and_eq_true, decide_eq_true_eq, Bool.or_eq_true,
    List.contains_iff_mem]
  refine ⟨⟨⟨?_, ?_⟩, ?_⟩, ?_⟩
  · rw [ha, hosz]
  · -- operands
    by_cases hjmp : jumpOps.contains i.opcode = true
    · have hisj : isJump i.op = true := hjmp
      have h1 : 1 ≤ i.args.length := by
        have := operand_ops_size _ hlt (Or.inl hjmp)
        rw [ha] at this; simp only [Option.getD_some] at this; omega
      obtain ⟨x, rest, hx⟩ : ∃ x rest, i.args = x :: rest := by
        cases hargs : i.args with
        | nil => simp [hargs] at h1
        | cons x rest => exact ⟨x, rest, rfl⟩
      obtain ⟨k, hk, e⟩ := hj x (by simp [Instr.targets, hisj, hx])
      have hc0 := codes_arg pre i post s n t cs cp r 0 x (by simp [hx])
      rw [e] at hc0
      exact opsOk_jump (g5 hjmp) hc0 hk
    · by_cases hspec : specialOps.contains i.opcode = true
      · by_cases hM : i.opcode = opMulti
        · rw [if_pos (by simpa using hM)] at hm
          obtain ⟨v, hv, h0, h1⟩ := inRange_some hm
          rw [g2 hM]
          exact opsOk_multi (codes_arg pre i post s n t cs cp r 0 v hv) h0 h1
        · by_cases hS : setOps.contains i.opcode = true
          · rw [if_pos hS] at hs
            obtain ⟨v, hv, h0, h1⟩ := inRange_some hs
            exact opsOk_set (g1 hS) (codes_arg pre i post s n t cs cp r 0 v hv) h0 h1
          · by_cases hR : (i.opcode == opRef || i.opcode == opTestref) = true
            · rw [if_pos hR] at hr
              obtain ⟨v, hv, h0, h1⟩ := inRange_some hr
              exact opsOk_slot (g3 hR) (codes_arg pre i post s n t cs cp r 0 v hv) h0 h1
            · have hC : i.opcode = opCapturemark := by
                simp only [specialOps, setOps, List.contains_eq_mem, List.mem_append, List.mem_cons, List.not_mem_nil,
                  or_false, decide_eq_true_eq, Bool.or_eq_true, beq_iff_eq] at hspec hS hR hM
                rcases hspec with (h | h) | h
                · exact absurd h hM
                · exact absurd h hS
                · rcases h with h | h | h
                  · exact absurd (Or.inl h) hR
                  · exact absurd (Or.inr h) hR
                  · exact h
              rw [if_pos (by simpa using hC)] at hc
              have h2 : i.args.length = 2 := by
                rw [hC, capturemark_size] at ha; simp only [Option.some.injEq] at ha; omega
              obtain ⟨a, b, hab⟩ : ∃ a b, i.args = [a, b] := by
                match hargs : i.args, h2 with
                | [a, b], _ => exact ⟨a, b, rfl⟩
              rw [g4 hC]
              refine opsOk_capturemark (a := a) (b := b)
                (codes_arg pre i post s n t cs cp r 0 a (by simp [hab]))
                (codes_arg pre i post s n t cs cp r 1 b (by simp [hab])) ?_
              simp only [hab, List.getElem?_cons_succ, List.getElem?_cons_zero] at hc
              by_cases hb : b = -1
              · subst hb
                simp only [beq_self_eq_true, if_true] at hc
                obtain ⟨v, hv, h0, h1⟩ := inRange_some hc
                cases hv
                rw [if_pos rfl]
                exact ⟨h0, h1⟩
              · have hb' : (some b == some (-1 : Int)) = false := by simpa using hb
                simp only [hb', Bool.false_eq_true, if_false, Bool.and_eq_true, Bool.or_eq_true, beq_iff_eq,
                  Option.some.injEq] at hc
                obtain ⟨v, hv, h0, h1⟩ := inRange_some hc.2
                cases hv
                simp only [hb, if_false]
                refine ⟨?_, h0, h1⟩
                rcases hc.1 with h | h
                · exact Or.inl h
                · obtain ⟨v', hv', h0', h1'⟩ := inRange_some h
                  cases hv'
                  exact Or.inr ⟨h0', h1'⟩
      · exact g7 ⟨by simpa using hjmp, by simpa using hspec, hw4⟩ _ _ _
  · rw [hsize, hosz]; omega
  · rcases hnext with h | h
    · exact Or.inl (g6 h)
    · right; rw [hosz]; exact h

theorem isOpAt_progOf (pre : Code) (i : Instr) (post : Code) (s n t c cp r) (h : i.op < 1024) (o : VM.Op)
    (ho : VM.Op.ofNat? i.opcode = some o) :
    VM.isOpAt (progOf (pre ++ i :: post) s n t c cp r) (codeLen pre) o = true := by
  unfold VM.isOpAt
  rw [fetch_progOf pre i post s n t c cp r h]
  have hdo : (decode i.op).op = i.opcode := rfl
  simp [hdo, ho]

theorem istarts_append : ∀ (x y : Code) (a : Nat), istarts a (x ++ y) = istarts a x ++ istarts (a + codeLen x) y
  | [], y, a => by simp [istarts]
  | i :: r, y, a => by
    simp only [List.cons_append, istarts, istarts_append r y, codeLen_cons]
    rw [show a + (1 + i.args.length) + codeLen r = a + (1 + i.args.length + codeLen r) by omega]

theorem mem_istarts_bounds : ∀ (c : Code) (a k : Nat), k ∈ istarts a c → a ≤ k ∧ k < a + codeLen c
  | [], a, k, h => by simp [istarts] at h
  | i :: r, a, k, h => by
    simp only [istarts, List.mem_cons] at h
    rcases h with h | h
    · subst h; simp only [codeLen_cons]; omega
    · have := mem_istarts_bounds r _ k h
      simp only [codeLen_cons]; omega

/-- **the bridge**: a program `Lazybranch end; body; Stop` whose instructions have the writer's local facts,
    accepted opcode words and jumps to instruction starts satisfies the interpreter's `Prog.wf` -/
theorem vmwf_progOf (c body : Code) (s : Array (List Nat)) (n t cs : Nat) (cp r)
    (hl : ∀ i ∈ c, i.localOk s.size n cs = true) (hw : AllW c) (hj : JOk (istarts 0 c) c)
    (hc : c = i1 opLazybranch ((2 + codeLen body : Nat) : Int) :: (body ++ [i0 opStop])) :
    (progOf c s n t cs cp r).wf = true := by
  have ha : ∀ i ∈ c, i.arityOk = true := by
    intro i hi
    have := hl i hi
    simp only [Instr.localOk, Bool.and_eq_true] at this
    exact this.1.1.1.1
  have hL : (i1 opLazybranch ((2 + codeLen body : Nat) : Int)).op < 1024 := by simp only [i1_op]; decide
  have hS : (i0 opStop).op < 1024 := by decide
  have hroot : VM.isOpAt (progOf c s n t cs cp r) 0 .lazybranch = true := by
    have := isOpAt_progOf [] (i1 opLazybranch ((2 + codeLen body : Nat) : Int)) (body ++ [i0 opStop]) s n t cs cp r hL
      .lazybranch (by simp only [Instr.opcode, i1_op]; decide)
    simpa [hc] using this
  have hstop : VM.isOpAt (progOf c s n t cs cp r) (2 + codeLen body) .stop = true := by
    have := isOpAt_progOf (i1 opLazybranch ((2 + codeLen body : Nat) : Int) :: body) (i0 opStop) [] s n t cs cp r hS
      .stop (by decide)
    have e : codeLen (i1 opLazybranch ((2 + codeLen body : Nat) : Int) :: body) = 2 + codeLen body := by
      simp only [codeLen_cons, i1_args, List.length_cons, List.length_nil]
      try omega
    rw [e] at this
    simpa [hc] using this
  have h1 : (progOf c s n t cs cp r).codes[1]? = some ((2 + codeLen body : Nat) : Int) := by
    have := codes_arg [] (i1 opLazybranch ((2 + codeLen body : Nat) : Int)) (body ++ [i0 opStop]) s n t cs cp r 0 _ rfl
    simpa [hc] using this
  unfold Prog.wf
  rw [boundaries_progOf c s n t cs cp r ha]
  simp only [h1, Bool.and_eq_true]
  refine ⟨⟨⟨⟨?_, ?_⟩, hroot⟩, ?_⟩, ?_⟩
  · rw [List.all_eq_true]
    intro pc hpc
    obtain ⟨pre, i, post, e, hp⟩ := mem_istarts_split c 0 pc hpc
    simp only [Nat.zero_add] at hp
    subst hp
    have hmem : i ∈ c := by rw [e]; simp
    have hnext : i.opcode = opStop ∨ codeLen pre + (1 + i.args.length) ∈ istarts 0 c := by
      cases post with
      | nil =>
        left
        have e2 : pre ++ [i] = (i1 opLazybranch ((2 + codeLen body : Nat) : Int) :: body) ++ [i0 opStop] := by
          rw [← e, hc]; simp
        have := (List.append_inj' e2 rfl).2
        simp only [List.cons.injEq, and_true] at this
        rw [this]; decide
      | cons j post' =>
        right
        rw [e, istarts_append]
        simp only [Nat.zero_add, istarts, List.mem_append, List.mem_cons]
        exact Or.inr (Or.inr (Or.inl trivial))
    rw [e] at hnext hj ⊢
    exact vm_instrOk_of_local pre i post s n t cs cp r _ (hl i hmem) (hw i hmem) (hj i (by simp)) hnext
  · rw [hc]; simp [istarts]
  · simp only [Int.toNat_natCast, Bool.and_eq_true, decide_eq_true_eq]
    exact ⟨by omega, hstop⟩
  · have hst : istarts 0 c = starts 0 (i1 opLazybranch ((2 + codeLen body : Nat) : Int) :: body) := by
      rw [hc, ← List.cons_append]; exact istarts_snoc _ _ 0
    have hlastpos : (starts 0 (i1 opLazybranch ((2 + codeLen body : Nat) : Int) :: body)).getLast? = some (2 + codeLen body) := by
      rw [starts_eq_istarts]
      simp only [List.getLast?_append, List.getLast?_singleton, Option.some_or, codeLen_cons, i1_args, List.length_cons,
        List.length_nil, Nat.zero_add, Option.some.injEq]
      try omega
    rw [hst, hlastpos]
    exact hstop

/-! ### the program of a well-formed tree satisfies the interpreter's `Prog.wf` -/

theorem emit_eq_progOf (ti : TreeInfo) (root : GoNode) :
    emit ti root = progOf (mainCode ti root) (codeFromTree (mainCfg ti) root).2.strings.toArray
      (codeFromTree (mainCfg ti) root).2.sets.length (trackCount (mainCode ti root)) (capsize ti)
      ((writerCaps ti).2.getD []) ti.rtl := rfl

/-- the program of `codeFromTree cfg root` with any tables at least as large as the ones it built, any
    `TrackCount`, any `Caps`: `Prog.wf` -/
theorem codeFromTree_vm_wf (cfg : Cfg) (cs : Nat) (root : GoNode) (hok : root.ok = true) (hcaps : capsOk cfg cs root = true)
    (s : Array (List Nat)) (n t : Nat) (cp r) (hs : (codeFromTree cfg root).2.strings.length ≤ s.size)
    (hn : (codeFromTree cfg root).2.sets.length ≤ n) :
    (progOf (codeFromTree cfg root).1 s n t cs cp r).wf = true := by
  refine vmwf_progOf _ (emitNode cfg 2 ⟨[], []⟩ root).1 s n t cs cp r ?_ (codeFromTree_word cfg root hok)
    (codeFromTree_jumps cfg root hok) ?_
  · intro i hi
    exact localOk_mono hs hn (codeFromTree_local cfg cs root hok hcaps i hi)
  · simp only [codeFromTree, emitNode_size, List.cons_append, List.nil_append]

theorem emit_vm_wf (ti : TreeInfo) (root : GoNode) (h : treeWf ti root = true) : (emit ti root).wf = true := by
  simp only [treeWf, Bool.and_eq_true] at h
  obtain ⟨⟨hok, hcaps⟩, _⟩ := h
  rw [emit_eq_progOf]
  exact codeFromTree_vm_wf (mainCfg ti) (capsize ti) root hok hcaps _ _ _ _ _ (by simp) (Nat.le_refl _)

/-! ### the potential of an emitted program: `Σ wsOf` over code positions = `Σ weight` over instructions -/

/-- the weight `VM.wsOf` gives code position `pc` -/
def posWeight (p : Prog) (pc : Nat) : Nat :=
  if ((p.boundaries).getD []).contains pc then
    match VM.fetch p pc with
    | .ok w => Capacity.weight w.op
    | .error _ => 0
  else 0

theorem wsOf_eq (p : Prog) : VM.wsOf p = (List.range p.codes.size).map (posWeight p) := rfl

theorem sum_map_zero {l : List Nat} {f : Nat → Nat} (h : ∀ x ∈ l, f x = 0) : (l.map f).sum = 0 := by
  induction l with
  | nil => rfl
  | cons a r ih =>
    simp only [List.map_cons, List.sum_cons, h a (by simp), Nat.zero_add]
    exact ih (fun x hx => h x (by simp [hx]))

theorem posWeight_start (pre : Code) (i : Instr) (post : Code) (s n t cs cp r)
    (ha : ∀ j ∈ pre ++ i :: post, j.arityOk = true) (hw : i.op < 1024) :
    posWeight (progOf (pre ++ i :: post) s n t cs cp r) (codeLen pre) = Capacity.weight i.opcode := by
  unfold posWeight
  rw [boundaries_progOf _ s n t cs cp r ha, fetch_progOf pre i post s n t cs cp r hw]
  have hmem : codeLen pre ∈ istarts 0 (pre ++ i :: post) := by
    rw [istarts_append]; simp [istarts]
  have : (istarts 0 (pre ++ i :: post)).contains (codeLen pre) = true := by simpa using hmem
  simp only [Option.getD_some, this, if_true]
  rfl

theorem posWeight_inside (pre : Code) (i : Instr) (post : Code) (s n t cs cp r)
    (ha : ∀ j ∈ pre ++ i :: post, j.arityOk = true) (pc : Nat) (h1 : codeLen pre < pc)
    (h2 : pc < codeLen pre + (1 + i.args.length)) :
    posWeight (progOf (pre ++ i :: post) s n t cs cp r) pc = 0 := by
  unfold posWeight
  rw [boundaries_progOf _ s n t cs cp r ha]
  have hmem : pc ∉ istarts 0 (pre ++ i :: post) := by
    rw [istarts_append]
    simp only [Nat.zero_add, istarts, List.mem_append, List.mem_cons, not_or]
    refine ⟨?_, ?_, ?_⟩
    · intro h; have := mem_istarts_bounds pre 0 pc h; omega
    · omega
    · intro h; have := mem_istarts_bounds post _ pc h; omega
  have : (istarts 0 (pre ++ i :: post)).contains pc = false := by simpa using hmem
  simp only [Option.getD_some, this, Bool.false_eq_true, if_false]

theorem sum_range'_progOf (c : Code) (s n t cs cp r) (ha : ∀ j ∈ c, j.arityOk = true) (hw : AllW c) :
    ∀ (post pre : Code), c = pre ++ post →
      ((List.range' (codeLen pre) (codeLen post)).map (posWeight (progOf c s n t cs cp r))).sum =
        (Capacity.weights (post.map Instr.opcode)).sum
  | [], pre, _ => by simp [Capacity.weights]
  | i :: post, pre, e => by
    have ih := sum_range'_progOf c s n t cs cp r ha hw post (pre ++ [i]) (by simp [e])
    have hpre : codeLen (pre ++ [i]) = codeLen pre + (1 + i.args.length) := by simp [codeLen_append]
    rw [hpre] at ih
    have hiw : i.op < 1024 := by
      have := hw i (by simp [e])
      simp only [opWordOk, Bool.and_eq_true, decide_eq_true_eq] at this
      exact this.1.1.1
    have hsplit : List.range' (codeLen pre) (codeLen (i :: post)) =
        codeLen pre :: (List.range' (codeLen pre + 1) i.args.length ++
          List.range' (codeLen pre + (1 + i.args.length)) (codeLen post)) := by
      rw [codeLen_cons, show 1 + i.args.length + codeLen post = (i.args.length + codeLen post) + 1 by omega,
        List.range'_succ, ← List.range'_append_1]
      rw [show codeLen pre + 1 + i.args.length = codeLen pre + (1 + i.args.length) by omega]
    rw [hsplit]
    simp only [List.map_cons, List.map_append, List.sum_cons, List.sum_append, ih, Capacity.weights]
    subst e
    rw [posWeight_start pre i post s n t cs cp r ha hiw]
    rw [sum_map_zero (l := List.range' (codeLen pre + 1) i.args.length)]
    · omega
    · intro pc hpc
      rw [List.mem_range'_1] at hpc
      exact posWeight_inside pre i post s n t cs cp r ha pc (by omega) (by omega)

theorem wsOf_sum_progOf (c : Code) (s n t cs cp r) (ha : ∀ j ∈ c, j.arityOk = true) (hw : AllW c) :
    (VM.wsOf (progOf c s n t cs cp r)).sum = (Capacity.weights (c.map Instr.opcode)).sum := by
  rw [wsOf_eq, List.range_eq_range']
  have hsz : (progOf c s n t cs cp r).codes.size = codeLen c := by simp [progOf, flatten_length]
  rw [hsz]
  have := sum_range'_progOf c s n t cs cp r ha hw c [] rfl
  simpa using this

/-- `potOk` of a program given as an instruction list: from the bound `Σ weight ≤ 4·(number of backtracking
    instructions)` (`Props.C13.potential_le_need`) and a `TrackCount` at least that number -/
theorem potOk_progOf (c : Code) (s n t cs cp r) (ha : ∀ j ∈ c, j.arityOk = true) (hw : AllW c)
    (hpot : Capacity.phi (Capacity.weights (c.map Instr.opcode)) 0 ≤ Capacity.trackCount (c.map Instr.opcode) * 4)
    (ht : trackCount c ≤ t) : VM.potOk (progOf c s n t cs cp r) = true := by
  unfold VM.potOk
  rw [Lemmas.Capacity.phi_zero, wsOf_sum_progOf c s n t cs cp r ha hw]
  rw [Lemmas.Capacity.phi_zero, trackCount_map] at hpot
  simp only [decide_eq_true_eq]
  show _ ≤ 4 * t
  omega

/-- the statement of `Props.C13.potential_le_need` (proved there from the regenerated fingerprint table) -/
def PotBound : Prop := ∀ prog : List Nat,
  Capacity.count opNullmark prog ≤ Capacity.count opGoto prog →
    Capacity.phi (Capacity.weights prog) 0 ≤ Capacity.trackCount prog * 4

theorem codeFromTree_potOk (hP : PotBound) (cfg : Cfg) (cs : Nat) (root : GoNode) (hok : root.ok = true)
    (hcaps : capsOk cfg cs root = true) (s : Array (List Nat)) (n t : Nat) (cp r)
    (ht : trackCount (codeFromTree cfg root).1 ≤ t) :
    VM.potOk (progOf (codeFromTree cfg root).1 s n t cs cp r) = true := by
  have hl := codeFromTree_local cfg cs root hok hcaps
  have ha : ∀ i ∈ (codeFromTree cfg root).1, i.arityOk = true := by
    intro i hi
    have := hl i hi
    simp only [Instr.localOk, Bool.and_eq_true] at this
    exact this.1.1.1.1
  exact potOk_progOf _ s n t cs cp r ha (codeFromTree_word cfg root hok)
    (hP _ (codeFromTree_pairing cfg root hok)) ht

theorem emit_potOk (hP : PotBound) (ti : TreeInfo) (root : GoNode) (h : treeWf ti root = true) :
    VM.potOk (emit ti root) = true := by
  simp only [treeWf, Bool.and_eq_true] at h
  obtain ⟨⟨hok, hcaps⟩, _⟩ := h
  rw [emit_eq_progOf]
  exact codeFromTree_potOk hP (mainCfg ti) (capsize ti) root hok hcaps _ _ _ _ _ (Nat.le_refl _)

/-! ### the bool-only program -/

mutual
/-- the tables a fragment builds do not depend on the writer's configuration or on the offset -/
theorem emitNode_tables (cfg cfg' : Cfg) : ∀ (n : GoNode) (a a' : Nat) (tb : Tables),
    (emitNode cfg a tb n).2 = (emitNode cfg' a' tb n).2
  | .empty, a, a', tb => by simp [emitNode]
  | .bare t, a, a', tb => by simp [emitNode]
  | .char t rtl ci ch, a, a', tb => by simp [emitNode]
  | .set rtl ci s, a, a', tb => by simp [emitNode]
  | .multi rtl ci s, a, a', tb => by simp [emitNode]
  | .ref rtl ci m, a, a', tb => by simp [emitNode]
  | .charloop t rtl ci ch m n, a, a', tb => by simp [emitNode]
  | .setloop t rtl ci s m n, a, a', tb => by simp [emitNode]
  | .concat cs, a, a', tb => by simp only [emitNode]; exact emitList_tables cfg cfg' cs a a' tb
  | .alt cs, a, a', tb => by simp only [emitNode]; exact emitAlt_tables cfg cfg' cs a a' _ _ tb
  | .loop lzy m n c, a, a', tb => by simp only [emitNode]; exact emitNode_tables cfg cfg' c _ _ tb
  | .capture m n c, a, a', tb => by
    simp only [emitNode]
    split <;> split <;> exact emitNode_tables cfg cfg' c _ _ tb
  | .group c, a, a', tb => by simp only [emitNode]; exact emitNode_tables cfg cfg' c _ _ tb
  | .poslook c, a, a', tb => by simp only [emitNode]; exact emitNode_tables cfg cfg' c _ _ tb
  | .neglook c, a, a', tb => by simp only [emitNode]; exact emitNode_tables cfg cfg' c _ _ tb
  | .atomic c, a, a', tb => by simp only [emitNode]; exact emitNode_tables cfg cfg' c _ _ tb
  | .backrefcond1 m y, a, a', tb => by simp only [emitNode]; exact emitNode_tables cfg cfg' y _ _ tb
  | .backrefcond2 m y n, a, a', tb => by
    simp only [emitNode]
    rw [emitNode_tables cfg cfg' y (a + 6) (a' + 6) tb]
    exact emitNode_tables cfg cfg' n _ _ _
  | .exprcond2 c y, a, a', tb => by
    simp only [emitNode]
    rw [emitNode_tables cfg cfg' c (a + 4) (a' + 4) tb]
    exact emitNode_tables cfg cfg' y _ _ _
  | .exprcond3 c y n, a, a', tb => by
    simp only [emitNode]
    rw [emitNode_tables cfg cfg' c (a + 4) (a' + 4) tb]
    rw [emitNode_tables cfg cfg' y (a + 4 + size cfg c + 2) (a' + 4 + size cfg' c + 2) _]
    exact emitNode_tables cfg cfg' n _ _ _
  | .other t, a, a', tb => by simp [emitNode]
theorem emitList_tables (cfg cfg' : Cfg) : ∀ (l : List GoNode) (a a' : Nat) (tb : Tables),
    (emitList cfg a tb l).2 = (emitList cfg' a' tb l).2
  | [], a, a', tb => by simp [emitList]
  | c :: l, a, a', tb => by
    simp only [emitList]
    rw [emitNode_tables cfg cfg' c a a' tb]
    exact emitList_tables cfg cfg' l _ _ _
theorem emitAlt_tables (cfg cfg' : Cfg) : ∀ (l : List GoNode) (a a' fin fin' : Nat) (tb : Tables),
    (emitAlt cfg a fin tb l).2 = (emitAlt cfg' a' fin' tb l).2
  | [], a, a', fin, fin', tb => by simp [emitAlt]
  | c :: l, a, a', fin, fin', tb => by
    simp only [emitAlt]
    split
    · exact emitNode_tables cfg cfg' c a a' tb
    · simp only []
      rw [emitNode_tables cfg cfg' c (a + 2) (a' + 2) tb]
      exact emitAlt_tables cfg cfg' l _ _ _ _ _
end

theorem codeFromTree_tables (cfg cfg' : Cfg) (root : GoNode) : (codeFromTree cfg root).2 = (codeFromTree cfg' root).2 := by
  simp only [codeFromTree]
  exact emitNode_tables cfg cfg' root 2 2 _

/-- 1 if the opcode word backtracks -/
def tcw (op : Nat) : Nat := if Code.backtracks (op % (flagMask + 1)) then 1 else 0

theorem trackCount_cons' (i : Instr) (r : Code) : trackCount (i :: r) = tcw i.op + trackCount r := rfl
theorem trackCount_nil' : trackCount [] = 0 := rfl
theorem trackCount_append : ∀ (x y : Code), trackCount (x ++ y) = trackCount x + trackCount y
  | [], y => by simp [trackCount]
  | i :: r, y => by simp only [List.cons_append, trackCount_cons', trackCount_append r y]; omega

syntax "tc_norm" : tactic
macro_rules | `(tactic| tc_norm) => `(tactic|
  simp only [trackCount_append, trackCount_cons', trackCount_nil', i0_op, i1_op, i2_op, Nat.add_zero, Nat.zero_add] at *)

mutual
/-- the second writer emits a subset of the backtracking instructions of the first -/
theorem emitNode_tc_le (caps : Option (List (Int × Int))) (q : List Bool) : ∀ (n : GoNode) (a a' : Nat) (tb tb' : Tables),
    trackCount (emitNode ⟨caps, some q⟩ a tb n).1 ≤ trackCount (emitNode ⟨caps, none⟩ a' tb' n).1
  | .empty, a, a', tb, tb' => by simp [emitNode]
  | .bare t, a, a', tb, tb' => by simp [emitNode]
  | .char t rtl ci ch, a, a', tb, tb' => by simp [emitNode]
  | .set rtl ci s, a, a', tb, tb' => by simp only [emitNode]; tc_norm; omega
  | .multi rtl ci s, a, a', tb, tb' => by simp only [emitNode]; tc_norm; omega
  | .ref rtl ci m, a, a', tb, tb' => by simp only [emitNode]; tc_norm; omega
  | .charloop t rtl ci ch m n, a, a', tb, tb' => by simp [emitNode]
  | .setloop t rtl ci s m n, a, a', tb, tb' => by
    simp only [emitNode]
    by_cases h1 : m > 0 <;> by_cases h2 : n > m <;> simp only [h1, h2, if_true, if_false] <;> tc_norm <;> omega
  | .concat cs, a, a', tb, tb' => by simp only [emitNode]; exact emitList_tc_le caps q cs a a' tb tb'
  | .alt cs, a, a', tb, tb' => by simp only [emitNode]; exact emitAlt_tc_le caps q cs a a' _ _ tb tb'
  | .loop lzy m n c, a, a', tb, tb' => by
    have ih := emitNode_tc_le caps q c (a + loopHeadLen m n) (a' + loopHeadLen m n) tb tb'
    simp only [emitNode]
    generalize (emitNode ⟨caps, some q⟩ (a + loopHeadLen m n) tb c).1 = C1 at *
    generalize (emitNode ⟨caps, none⟩ (a' + loopHeadLen m n) tb' c).1 = C2 at *
    by_cases hcn : counted m n = true <;> by_cases hm : (m == 0) = true <;>
      simp only [hcn, hm, if_true, if_false, Bool.false_eq_true, List.append_nil] <;> tc_norm <;> omega
  | .capture m n c, a, a', tb, tb' => by
    simp only [emitNode, emitCapture_main, if_true]
    split
    · have ih := emitNode_tc_le caps q c (a + 1) (a' + 1) tb tb'
      tc_norm; omega
    · have ih := emitNode_tc_le caps q c a (a' + 1) tb tb'
      tc_norm; omega
  | .group c, a, a', tb, tb' => by simp only [emitNode]; exact emitNode_tc_le caps q c a a' tb tb'
  | .poslook c, a, a', tb, tb' => by
    have ih := emitNode_tc_le caps q c (a + 2) (a' + 2) tb tb'
    simp only [emitNode]; tc_norm; omega
  | .neglook c, a, a', tb, tb' => by
    have ih := emitNode_tc_le caps q c (a + 3) (a' + 3) tb tb'
    simp only [emitNode]; tc_norm; omega
  | .atomic c, a, a', tb, tb' => by
    have ih := emitNode_tc_le caps q c (a + 1) (a' + 1) tb tb'
    simp only [emitNode]; tc_norm; omega
  | .backrefcond1 m y, a, a', tb, tb' => by
    have ih := emitNode_tc_le caps q y (a + 6) (a' + 6) tb tb'
    simp only [emitNode]; tc_norm; omega
  | .backrefcond2 m y n, a, a', tb, tb' => by
    have ih := emitNode_tc_le caps q y (a + 6) (a' + 6) tb tb'
    have ih2 := emitNode_tc_le caps q n (a + 6 + size ⟨caps, some q⟩ y + 3) (a' + 6 + size ⟨caps, none⟩ y + 3)
      (emitNode ⟨caps, some q⟩ (a + 6) tb y).2 (emitNode ⟨caps, none⟩ (a' + 6) tb' y).2
    simp only [emitNode]; tc_norm; omega
  | .exprcond2 c y, a, a', tb, tb' => by
    have ih := emitNode_tc_le caps q c (a + 4) (a' + 4) tb tb'
    have ih2 := emitNode_tc_le caps q y (a + 4 + size ⟨caps, some q⟩ c + 2) (a' + 4 + size ⟨caps, none⟩ c + 2)
      (emitNode ⟨caps, some q⟩ (a + 4) tb c).2 (emitNode ⟨caps, none⟩ (a' + 4) tb' c).2
    simp only [emitNode]; tc_norm; omega
  | .exprcond3 c y n, a, a', tb, tb' => by
    have ih := emitNode_tc_le caps q c (a + 4) (a' + 4) tb tb'
    have ih2 := emitNode_tc_le caps q y (a + 4 + size ⟨caps, some q⟩ c + 2) (a' + 4 + size ⟨caps, none⟩ c + 2)
      (emitNode ⟨caps, some q⟩ (a + 4) tb c).2 (emitNode ⟨caps, none⟩ (a' + 4) tb' c).2
    have ih3 := emitNode_tc_le caps q n
      (a + 4 + size ⟨caps, some q⟩ c + 2 + size ⟨caps, some q⟩ y + 4) (a' + 4 + size ⟨caps, none⟩ c + 2 + size ⟨caps, none⟩ y + 4)
      (emitNode ⟨caps, some q⟩ (a + 4 + size ⟨caps, some q⟩ c + 2) (emitNode ⟨caps, some q⟩ (a + 4) tb c).2 y).2
      (emitNode ⟨caps, none⟩ (a' + 4 + size ⟨caps, none⟩ c + 2) (emitNode ⟨caps, none⟩ (a' + 4) tb' c).2 y).2
    simp only [emitNode]; tc_norm; omega
  | .other t, a, a', tb, tb' => by simp [emitNode]
theorem emitList_tc_le (caps : Option (List (Int × Int))) (q : List Bool) : ∀ (l : List GoNode) (a a' : Nat) (tb tb' : Tables),
    trackCount (emitList ⟨caps, some q⟩ a tb l).1 ≤ trackCount (emitList ⟨caps, none⟩ a' tb' l).1
  | [], a, a', tb, tb' => by simp [emitList]
  | c :: l, a, a', tb, tb' => by
    have ih := emitNode_tc_le caps q c a a' tb tb'
    have ih2 := emitList_tc_le caps q l (a + size ⟨caps, some q⟩ c) (a' + size ⟨caps, none⟩ c)
      (emitNode ⟨caps, some q⟩ a tb c).2 (emitNode ⟨caps, none⟩ a' tb' c).2
    simp only [emitList]; tc_norm; omega
theorem emitAlt_tc_le (caps : Option (List (Int × Int))) (q : List Bool) : ∀ (l : List GoNode) (a a' fin fin' : Nat) (tb tb' : Tables),
    trackCount (emitAlt ⟨caps, some q⟩ a fin tb l).1 ≤ trackCount (emitAlt ⟨caps, none⟩ a' fin' tb' l).1
  | [], a, a', fin, fin', tb, tb' => by simp [emitAlt]
  | c :: l, a, a', fin, fin', tb, tb' => by
    simp only [emitAlt]
    split
    · exact emitNode_tc_le caps q c a a' tb tb'
    · have ih := emitNode_tc_le caps q c (a + 2) (a' + 2) tb tb'
      have ih2 := emitAlt_tc_le caps q l (a + 2 + size ⟨caps, some q⟩ c + 2) (a' + 2 + size ⟨caps, none⟩ c + 2) fin fin'
        (emitNode ⟨caps, some q⟩ (a + 2) tb c).2 (emitNode ⟨caps, none⟩ (a' + 2) tb' c).2
      tc_norm; omega
end

theorem codeFromTree_tc_le (caps : Option (List (Int × Int))) (q : List Bool) (root : GoNode) :
    trackCount (codeFromTree ⟨caps, some q⟩ root).1 ≤ trackCount (codeFromTree ⟨caps, none⟩ root).1 := by
  have ih := emitNode_tc_le caps q root 2 2 ⟨[], []⟩ ⟨[], []⟩
  simp only [codeFromTree]; tc_norm; omega

mutual
/-- `capsOk` reads the configuration only through `mapCapnum`, which ignores the slot table of the second writer -/
theorem capsOk_quick (caps : Option (List (Int × Int))) (q : Option (List Bool)) (cs : Nat) : ∀ (n : GoNode),
    capsOk ⟨caps, q⟩ cs n = capsOk ⟨caps, none⟩ cs n
  | .empty => rfl
  | .bare _ => rfl
  | .char _ _ _ _ => rfl
  | .set _ _ _ => rfl
  | .multi _ _ _ => rfl
  | .ref _ _ _ => rfl
  | .charloop _ _ _ _ _ _ => rfl
  | .setloop _ _ _ _ _ _ => rfl
  | .concat l => by simp only [capsOk]; exact capsOkList_quick caps q cs l
  | .alt l => by simp only [capsOk]; exact capsOkList_quick caps q cs l
  | .loop _ _ _ c => by simp only [capsOk]; exact capsOk_quick caps q cs c
  | .capture m n c => by
    simp only [capsOk, capsOk_quick caps q cs c]
    rfl
  | .group c => by simp only [capsOk]; exact capsOk_quick caps q cs c
  | .poslook c => by simp only [capsOk]; exact capsOk_quick caps q cs c
  | .neglook c => by simp only [capsOk]; exact capsOk_quick caps q cs c
  | .atomic c => by simp only [capsOk]; exact capsOk_quick caps q cs c
  | .backrefcond1 m y => by simp only [capsOk, capsOk_quick caps q cs y]; rfl
  | .backrefcond2 m y n => by simp only [capsOk, capsOk_quick caps q cs y, capsOk_quick caps q cs n]; rfl
  | .exprcond2 c y => by simp only [capsOk, capsOk_quick caps q cs c, capsOk_quick caps q cs y]
  | .exprcond3 c y n => by simp only [capsOk, capsOk_quick caps q cs c, capsOk_quick caps q cs y, capsOk_quick caps q cs n]
  | .other _ => rfl
theorem capsOkList_quick (caps : Option (List (Int × Int))) (q : Option (List Bool)) (cs : Nat) : ∀ (l : List GoNode),
    capsOkList ⟨caps, q⟩ cs l = capsOkList ⟨caps, none⟩ cs l
  | [] => rfl
  | c :: l => by simp only [capsOkList, capsOk_quick caps q cs c, capsOkList_quick caps q cs l]
end

/-- `makeQuickCode`: the bool-only program is the second writer's code with the first program's tables,
    `TrackCount`, `Capsize` and `Caps` -/
theorem emitQuick_eq_progOf (ti : TreeInfo) (root : GoNode) (qp : Prog) (hq : emitQuick ti root = some qp) :
    qp = progOf (codeFromTree (quickCfg ti root) root).1 (codeFromTree (mainCfg ti) root).2.strings.toArray
      (codeFromTree (mainCfg ti) root).2.sets.length (trackCount (mainCode ti root)) (capsize ti)
      ((writerCaps ti).2.getD []) ti.rtl := by
  simp only [emitQuick, quickCodes] at hq
  split at hq
  · simp only [Option.map_some, Option.some.injEq] at hq
    rw [← hq]
    rfl
  · simp at hq

theorem emitQuick_vm_wf (ti : TreeInfo) (root : GoNode) (h : treeWf ti root = true) (qp : Prog)
    (hq : emitQuick ti root = some qp) : qp.wf = true := by
  simp only [treeWf, Bool.and_eq_true] at h
  obtain ⟨⟨hok, hcaps⟩, _⟩ := h
  rw [emitQuick_eq_progOf ti root qp hq]
  have htb := codeFromTree_tables (quickCfg ti root) (mainCfg ti) root
  refine codeFromTree_vm_wf (quickCfg ti root) (capsize ti) root hok ?_ _ _ _ _ _ ?_ ?_
  · rw [← hcaps]; exact capsOk_quick _ _ _ root
  · rw [htb]; simp
  · rw [htb]; exact Nat.le_refl _

theorem emitQuick_potOk (hP : PotBound) (ti : TreeInfo) (root : GoNode) (h : treeWf ti root = true) (qp : Prog)
    (hq : emitQuick ti root = some qp) : VM.potOk qp = true := by
  simp only [treeWf, Bool.and_eq_true] at h
  obtain ⟨⟨hok, hcaps⟩, _⟩ := h
  rw [emitQuick_eq_progOf ti root qp hq]
  refine codeFromTree_potOk hP (quickCfg ti root) (capsize ti) root hok ?_ _ _ _ _ _ ?_
  · rw [← hcaps]; exact capsOk_quick _ _ _ root
  · exact codeFromTree_tc_le _ _ root

/-! ### concrete trees for the non-vacuity examples (codes as `regexp2.MustCompile` produces them) -/

/-- the reduced tree of `(?:ab?)*c` -/
def tree1 : GoNode :=
  .capture 0 (-1) (.concat [.loop false 0 maxInt32 (.concat [.char opOne false false 97,
    .charloop opOneloopatomic false false 98 0 1]), .char opOne false false 99])
def info1 : TreeInfo := { captop := 1, capnumlist := none, caps := [(0, 0)], rtl := false }

/-- the reduced tree of `(a)|b\1` (the parser wraps the alternation into an atomic group) -/
def tree2 : GoNode :=
  .capture 0 (-1) (.atomic (.alt [.capture 1 (-1) (.char opOne false false 97),
    .concat [.char opOne false false 98, .ref false false 1]]))
def info2 : TreeInfo := { captop := 2, capnumlist := none, caps := [(0, 0), (1, 0)], rtl := false }

/-- the reduced tree of `(x)y`: slot 1 is never read, so a bool-only program exists -/
def tree3 : GoNode :=
  .capture 0 (-1) (.concat [.capture 1 (-1) (.char opOne false false 120), .char opOne false false 121])

example : (emit info1 tree1).codes.toList = [23, 18, 31, 30, 38, 11, 9, 97, 43, 98, 1, 24, 6, 9, 99, 32, 0, -1, 40] ∧
    (emit info1 tree1).trackcount = 5 ∧ (emit info1 tree1).codes = Lemmas.VM.demo.codes := by decide
example : (emit info2 tree2).codes.toList =
    [23, 22, 31, 34, 23, 14, 31, 9, 97, 32, 1, -1, 38, 18, 9, 98, 13, 1, 36, 32, 0, -1, 40] ∧
    (emit info2 tree2).trackcount = 9 ∧ (emit info2 tree2).capsize = 2 := by decide
example : (emit info2 tree3).codes.toList = [23, 14, 31, 31, 9, 120, 32, 1, -1, 9, 121, 32, 0, -1, 40] ∧
    (emitQuick info2 tree3).map (fun q => (q.codes.toList, q.trackcount)) =
      some ([23, 10, 31, 9, 120, 9, 121, 32, 0, -1, 40], 5) := by decide

end RegexVerif.Lemmas.Compose
