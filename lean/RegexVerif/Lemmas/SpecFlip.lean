/-
Helper lemmas for C20: the specification `Spec.m` is invariant under changing the case of input
letters when every character test of the pattern is case-insensitive and the oracle tables are
closed under simple case partners.
-/
import RegexVerif.Model.Spec

namespace RegexVerif.Spec

/-! ## definitions -/

/-- The oracle tables are closed under simple case partners: the partner relation is an involution
    (orbits of size ≤ 2), `\b`'s word test does not separate partners, and `'\n'` (which the anchors
    `^ $ \Z` test for) has no partner.  Closure of the named classes is *not* needed: under `ci` the
    class test `Cls.mem` already accepts a rune when it or its partner is in the positive part. -/
structure FoldOK (e : Env) : Prop where
  invol : ∀ r q, e.partner r = some q → e.partner q = some r
  wordClosed : ∀ r q, e.partner r = some q → e.isWord r = e.isWord q
  newlineFixed : e.partner 10 = none

/-- `t'` is `t` with the case of some letters changed: same length, pointwise equal up to simple
    case partners -/
inductive SameUpToCase (e : Env) : List Nat → List Nat → Prop
  | nil : SameUpToCase e [] []
  | cons {a b : Nat} {t t' : List Nat} :
      e.eqCi a b = true → SameUpToCase e t t' → SameUpToCase e (a :: t) (b :: t')

def Pred.isCi : Pred → Bool
  | .one _ ci => ci
  | .notone _ ci => ci
  | .set _ ci => ci

/-- every character test and every back-reference of the pattern is case-insensitive -/
def Pat.allCi : Pat → Bool
  | .empty => true
  | .nothing => true
  | .chr p => p.isCi
  | .anchor _ => true
  | .seq a b => a.allCi && b.allCi
  | .alt a b => a.allCi && b.allCi
  | .quant _ _ _ body => body.allCi
  | .cap _ body => body.allCi
  | .look _ _ body => body.allCi
  | .atomic body => body.allCi
  | .ref _ ci => ci
  | .refCond _ yes no => yes.allCi && no.allCi
  | .exprCond c yes no => c.allCi && yes.allCi && no.allCi

/-- every character test and every back-reference of the pattern is case-insensitive -/
def AllCi (p : Pat) : Prop := p.allCi = true

instance (p : Pat) : Decidable (AllCi p) := by unfold AllCi; infer_instance

/-! ## `eqCi` is an equivalence relation -/

theorem eqCi_refl (e : Env) (a : Nat) : e.eqCi a a = true := by simp [Env.eqCi]

theorem eqCi_iff (e : Env) (a b : Nat) : e.eqCi a b = true ↔ a = b ∨ e.partner a = some b := by
  simp [Env.eqCi]

theorem eqCi_symm {e : Env} (hf : FoldOK e) {a b : Nat} (h : e.eqCi a b = true) : e.eqCi b a = true := by
  rw [eqCi_iff] at *
  rcases h with h | h
  · exact Or.inl h.symm
  · exact Or.inr (hf.invol a b h)

theorem eqCi_trans {e : Env} (hf : FoldOK e) {a b c : Nat} (h1 : e.eqCi a b = true) (h2 : e.eqCi b c = true) :
    e.eqCi a c = true := by
  rw [eqCi_iff] at *
  rcases h1 with h1 | h1
  · subst h1; exact h2
  · rcases h2 with h2 | h2
    · subst h2; exact Or.inr h1
    · have h3 := hf.invol a b h1
      rw [h3] at h2
      exact Or.inl (Option.some.inj h2)

/-- both arguments of `eqCi` may be replaced by case-equal runes -/
theorem eqCi_congr {e : Env} (hf : FoldOK e) {a a' b b' : Nat} (ha : e.eqCi a a' = true) (hb : e.eqCi b b' = true) :
    e.eqCi a' b' = e.eqCi a b := by
  rw [Bool.eq_iff_iff]
  constructor
  · intro h; exact eqCi_trans hf (eqCi_trans hf ha h) (eqCi_symm hf hb)
  · intro h; exact eqCi_trans hf (eqCi_trans hf (eqCi_symm hf ha) h) hb

/-- case-equal runes are both `'\n'` or both not -/
theorem eqCi_newline {e : Env} (hf : FoldOK e) {a b : Nat} (h : e.eqCi a b = true) : (a = 10 ↔ b = 10) := by
  rw [eqCi_iff] at h
  rcases h with h | h
  · subst h; exact Iff.rfl
  · constructor
    · intro ha; subst ha; rw [hf.newlineFixed] at h; cases h
    · intro hb; subst hb; have := hf.invol a 10 h; rw [hf.newlineFixed] at this; cases this

theorem eqCi_isWord {e : Env} (hf : FoldOK e) {a b : Nat} (h : e.eqCi a b = true) : e.isWord b = e.isWord a := by
  rw [eqCi_iff] at h
  rcases h with h | h
  · subst h; rfl
  · exact (hf.wordClosed a b h).symm

/-! ## character tests -/

/-- the positive part of a ci class does not distinguish a rune from its partner -/
theorem cls_mem_partner {e : Env} (hf : FoldOK e) (c : Cls) {r q : Nat} (h : e.partner r = some q) :
    c.mem e true q = c.mem e true r := by
  induction c with
  | base neg rs ns =>
    have h' := hf.invol r q h
    simp only [Cls.mem, h, h', Bool.true_and]
    cases inRanges rs r <;> cases inRanges rs q <;> cases inNames e ns r <;> cases inNames e ns q <;> rfl
  | diff a b iha ihb => simp only [Cls.mem, iha, ihb]

theorem cls_mem_flip {e : Env} (hf : FoldOK e) (c : Cls) {r r' : Nat} (h : e.eqCi r r' = true) :
    c.mem e true r' = c.mem e true r := by
  rw [eqCi_iff] at h
  rcases h with h | h
  · subst h; rfl
  · exact cls_mem_partner hf c h

/-- **a case-insensitive character test does not distinguish case-equal runes** -/
theorem pred_test_flip {e : Env} (hf : FoldOK e) {r r' : Nat} (h : e.eqCi r r' = true) (p : Pred)
    (hp : p.isCi = true) : p.test e r' = p.test e r := by
  cases p with
  | one c ci =>
    simp only [Pred.isCi] at hp; subst hp
    simp only [Pred.test, if_true]
    exact eqCi_congr hf (eqCi_refl e c) h
  | notone c ci =>
    simp only [Pred.isCi] at hp; subst hp
    simp only [Pred.test, if_true]
    rw [eqCi_congr hf (eqCi_refl e c) h]
  | set c ci =>
    simp only [Pred.isCi] at hp; subst hp
    simp only [Pred.test]
    exact cls_mem_flip hf c h

/-- pattern side: the literal of a ci `one` may be replaced by a case-equal rune -/
theorem pred_one_flip_pattern {e : Env} (hf : FoldOK e) {c c' : Nat} (h : e.eqCi c c' = true) (r : Nat) :
    (Pred.one c' true).test e r = (Pred.one c true).test e r := by
  simp only [Pred.test, if_true]
  exact eqCi_congr hf h (eqCi_refl e r)

/-- pattern side: the literal of a ci `notone` may be replaced by a case-equal rune -/
theorem pred_notone_flip_pattern {e : Env} (hf : FoldOK e) {c c' : Nat} (h : e.eqCi c c' = true) (r : Nat) :
    (Pred.notone c' true).test e r = (Pred.notone c true).test e r := by
  simp only [Pred.test, if_true]
  rw [eqCi_congr hf h (eqCi_refl e r)]

/-! ## the tests do not look at the text -/

@[simp] theorem partner_text (e : Env) (t' : List Nat) (r : Nat) :
    ({ e with text := t' } : Env).partner r = e.partner r := rfl

@[simp] theorem eqCi_text (e : Env) (t' : List Nat) (a b : Nat) :
    ({ e with text := t' } : Env).eqCi a b = e.eqCi a b := rfl

@[simp] theorem isWord_text (e : Env) (t' : List Nat) (r : Nat) :
    ({ e with text := t' } : Env).isWord r = e.isWord r := rfl

@[simp] theorem isWord_text' (e : Env) (t' : List Nat) :
    ({ e with text := t' } : Env).isWord = e.isWord := rfl

@[simp] theorem n_text (e : Env) (t' : List Nat) : ({ e with text := t' } : Env).n = t'.length := rfl

theorem cls_mem_text (e : Env) (t' : List Nat) (ci : Bool) (c : Cls) (r : Nat) :
    c.mem { e with text := t' } ci r = c.mem e ci r := by
  induction c with
  | base neg rs ns => rfl
  | diff a b iha ihb => simp only [Cls.mem, iha, ihb]

theorem pred_test_text (e : Env) (t' : List Nat) (p : Pred) (r : Nat) :
    p.test { e with text := t' } r = p.test e r := by
  cases p with
  | one c ci => rfl
  | notone c ci => rfl
  | set c ci => simp only [Pred.test, cls_mem_text]

/-! ## texts equal up to case -/

theorem SameUpToCase.length_eq {e : Env} {t t' : List Nat} (h : SameUpToCase e t t') : t'.length = t.length := by
  induction h with
  | nil => rfl
  | cons _ _ ih => simp [ih]

/-- optional runes are both absent or both present and case-equal -/
def OptCi (e : Env) (o o' : Option Nat) : Prop :=
  (o = none ∧ o' = none) ∨ ∃ a b, o = some a ∧ o' = some b ∧ e.eqCi a b = true

theorem SameUpToCase.getElem? {e : Env} {t t' : List Nat} (h : SameUpToCase e t t') (i : Nat) :
    OptCi e t[i]? t'[i]? := by
  induction h generalizing i with
  | nil => exact Or.inl ⟨rfl, rfl⟩
  | cons hab _ ih =>
    cases i with
    | zero => exact Or.inr ⟨_, _, rfl, rfl, hab⟩
    | succ i => simpa using ih i

theorem SameUpToCase.drop {e : Env} {t t' : List Nat} (h : SameUpToCase e t t') (k : Nat) :
    SameUpToCase e (t.drop k) (t'.drop k) := by
  induction h generalizing k with
  | nil => simpa using SameUpToCase.nil
  | cons hab ht ih =>
    cases k with
    | zero => exact SameUpToCase.cons hab ht
    | succ k => simpa using ih k

theorem SameUpToCase.take {e : Env} {t t' : List Nat} (h : SameUpToCase e t t') (k : Nat) :
    SameUpToCase e (t.take k) (t'.take k) := by
  induction h generalizing k with
  | nil => simpa using SameUpToCase.nil
  | cons hab ht ih =>
    cases k with
    | zero => exact SameUpToCase.nil
    | succ k => simpa using SameUpToCase.cons hab (ih k)

/-- pointwise characterisation -/
theorem sameUpToCase_iff (e : Env) (t t' : List Nat) :
    SameUpToCase e t t' ↔
      t'.length = t.length ∧ ∀ (i a b : Nat), t[i]? = some a → t'[i]? = some b → e.eqCi a b = true := by
  constructor
  · intro h
    refine ⟨h.length_eq, ?_⟩
    intro i a b ha hb
    rcases h.getElem? i with ⟨h1, _⟩ | ⟨a', b', h1, h2, h3⟩
    · rw [h1] at ha; cases ha
    · rw [h1] at ha; rw [h2] at hb; cases ha; cases hb; exact h3
  · induction t generalizing t' with
    | nil =>
      intro ⟨hl, _⟩
      cases t' with
      | nil => exact SameUpToCase.nil
      | cons b t' => simp at hl
    | cons a t ih =>
      intro ⟨hl, hp⟩
      cases t' with
      | nil => simp at hl
      | cons b t' =>
        refine SameUpToCase.cons (hp 0 a b rfl rfl) (ih t' ⟨by simpa using hl, ?_⟩)
        intro i x y hx hy
        exact hp (i + 1) x y (by simpa using hx) (by simpa using hy)

/-! ## the text-dependent primitives -/

section flip
variable {e : Env} (hf : FoldOK e) {t' : List Nat} (ht : SameUpToCase e e.text t')
include hf ht

omit ht in
theorem optCi_newline {o o' : Option Nat} (h : OptCi e o o') : (o' == some 10) = (o == some 10) := by
  rcases h with ⟨h1, h2⟩ | ⟨a, b, h1, h2, h3⟩
  · rw [h1, h2]
  · rw [h1, h2]
    have := eqCi_newline hf h3
    rw [Bool.eq_iff_iff]; simp only [beq_iff_eq, Option.some.injEq]
    exact this.symm

omit ht in
theorem optCi_isWord {o o' : Option Nat} (h : OptCi e o o') :
    (o'.map e.isWord).getD false = (o.map e.isWord).getD false := by
  rcases h with ⟨h1, h2⟩ | ⟨a, b, h1, h2, h3⟩
  · rw [h1, h2]
  · rw [h1, h2]; simp only [Option.map_some, Option.getD_some]; exact eqCi_isWord hf h3

theorem anchorHolds_flip (a : Anchor) (p : Nat) :
    anchorHolds { e with text := t' } a p = anchorHolds e a p := by
  have hn : t'.length = e.n := ht.length_eq
  have hA : OptCi e e.text[p]? t'[p]? := ht.getElem? p
  have hB : OptCi e (if p = 0 then none else e.text[p - 1]?) (if p = 0 then none else t'[p - 1]?) := by
    by_cases hp : p = 0
    · simp only [hp, if_true]; exact Or.inl ⟨rfl, rfl⟩
    · simp only [hp, if_false]; exact ht.getElem? (p - 1)
  have h1 := optCi_newline hf hA
  have h2 := optCi_newline hf hB
  have h3 := optCi_isWord hf hA
  have h4 := optCi_isWord hf hB
  cases a <;> simp only [anchorHolds, n_text, isWord_text', hn, h1, h2, h3, h4]

omit hf in
theorem stepChar_flip (rtl : Bool) (pos : Nat) :
    (stepChar e rtl pos = none ∧ stepChar { e with text := t' } rtl pos = none) ∨
    ∃ r r' pos', stepChar e rtl pos = some (r, pos') ∧
      stepChar { e with text := t' } rtl pos = some (r', pos') ∧ e.eqCi r r' = true := by
  unfold stepChar
  cases rtl with
  | true =>
    simp only [if_true]
    by_cases hp : pos = 0
    · subst hp; exact Or.inl ⟨by simp, by simp⟩
    · simp only [hp, if_false]
      rcases ht.getElem? (pos - 1) with ⟨h1, h2⟩ | ⟨a, b, h1, h2, h3⟩
      · rw [h1, h2]; exact Or.inl ⟨rfl, rfl⟩
      · rw [h1, h2]; exact Or.inr ⟨a, b, pos - 1, rfl, rfl, h3⟩
  | false =>
    simp only [Bool.false_eq_true, if_false]
    rcases ht.getElem? pos with ⟨h1, h2⟩ | ⟨a, b, h1, h2, h3⟩
    · rw [h1, h2]; exact Or.inl ⟨rfl, rfl⟩
    · rw [h1, h2]; exact Or.inr ⟨a, b, pos + 1, rfl, rfl, h3⟩

omit ht in
/-- comparing two slices through `eqCi`: both may be replaced by case-equal slices -/
theorem zipWith_eqCi_flip {a a' : List Nat} (ha : SameUpToCase e a a') :
    ∀ {b b' : List Nat}, SameUpToCase e b b' →
      (List.zipWith (fun x y => e.eqCi x y) a' b').all id = (List.zipWith (fun x y => e.eqCi x y) a b).all id := by
  induction ha with
  | nil => intro b b' _; simp
  | cons hxy _ ih =>
    intro b b' hb
    cases hb with
    | nil => simp
    | cons huv hb' =>
      simp only [List.zipWith_cons_cons, List.all_cons, id]
      rw [ih hb', eqCi_congr hf hxy huv]

theorem sliceEq_flip (s t len : Nat) :
    sliceEq { e with text := t' } true s t len = sliceEq e true s t len := by
  unfold sliceEq
  have ha := (ht.drop s).take len
  have hb := (ht.drop t).take len
  simp only [if_true, eqCi_text, ha.length_eq, hb.length_eq, zipWith_eqCi_flip hf ha hb]

theorem refMatch_flip (rtl : Bool) (s len pos : Nat) :
    refMatch { e with text := t' } true rtl s len pos = refMatch e true rtl s len pos := by
  unfold refMatch
  simp only [sliceEq_flip hf ht]

/-! ## the specification -/

/-- **flip invariance of the list of successes**: for a pattern whose character tests and
    back-references are all case-insensitive, the ordered list of successes (positions and capture
    logs) is the same on two texts that are equal up to case. -/
theorem m_flip (p : Pat) (hp : AllCi p) :
    ∀ (rtl : Bool) (st : St), m { e with text := t' } p rtl st = m e p rtl st := by
  unfold AllCi at hp
  induction p with
  | empty => intro rtl st; rfl
  | nothing => intro rtl st; rfl
  | chr p =>
    intro rtl st
    simp only [Pat.allCi] at hp
    simp only [m]
    rcases stepChar_flip ht rtl st.pos with ⟨h1, h2⟩ | ⟨r, r', pos', h1, h2, h3⟩
    · rw [h1, h2]
    · rw [h1, h2]
      simp only [pred_test_text, pred_test_flip hf h3 p hp]
  | anchor a => intro rtl st; simp only [m, anchorHolds_flip hf ht]
  | seq a b iha ihb =>
    intro rtl st
    simp only [Pat.allCi, Bool.and_eq_true] at hp
    have ea := funext (iha hp.1 rtl)
    have eb := funext (ihb hp.2 rtl)
    simp only [m, ea, eb]
  | alt a b iha ihb =>
    intro rtl st
    simp only [Pat.allCi, Bool.and_eq_true] at hp
    simp only [m, iha hp.1 rtl st, ihb hp.2 rtl st]
  | quant lzy lo hi body ih =>
    intro rtl st
    simp only [Pat.allCi] at hp
    have eb := funext (ih hp rtl)
    have hn : t'.length = e.n := ht.length_eq
    simp only [m, eb, n_text, hn]
  | cap g body ih =>
    intro rtl st
    simp only [Pat.allCi] at hp
    simp only [m, ih hp rtl st]
  | look behind neg body ih =>
    intro rtl st
    simp only [Pat.allCi] at hp
    simp only [m, ih hp behind st]
  | atomic body ih =>
    intro rtl st
    simp only [Pat.allCi] at hp
    simp only [m, ih hp rtl st]
  | ref g ci =>
    intro rtl st
    simp only [Pat.allCi] at hp; subst hp
    simp only [m, refMatch_flip hf ht]
  | refCond g yes no ihy ihn =>
    intro rtl st
    simp only [Pat.allCi, Bool.and_eq_true] at hp
    simp only [m, ihy hp.1 rtl st, ihn hp.2 rtl st]
  | exprCond c yes no ihc ihy ihn =>
    intro rtl st
    simp only [Pat.allCi, Bool.and_eq_true] at hp
    have ey := funext (ihy hp.1.2 rtl)
    simp only [m, ihc hp.1.1 rtl st, ey, ihn hp.2 rtl st]

theorem attempt_flip (p : Pat) (hp : AllCi p) (rtl : Bool) (i : Nat) :
    attempt { e with text := t' } p rtl i = attempt e p rtl i := by
  unfold attempt
  rw [m_flip hf ht (.cap 0 p) (by simpa [AllCi, Pat.allCi] using hp)]

theorem find_flip (p : Pat) (hp : AllCi p) (rtl : Bool) (start : Nat) :
    find { e with text := t' } p rtl start = find e p rtl start := by
  unfold find
  have hn : t'.length = e.n := ht.length_eq
  rw [funext (attempt_flip hf ht p hp rtl)]
  simp only [n_text, hn]

end flip

/-! ## pattern side: the tests of the pattern may be replaced by equivalent ones -/

/-- membership of a rune in the ci closure of a range list: the rune or its partner is in a range -/
def ciRanges (e : Env) (rs : List (Nat × Nat)) (r : Nat) : Bool :=
  inRanges rs r || match e.partner r with
                   | some q => inRanges rs q
                   | none => false

theorem ciRanges_iff (e : Env) (rs : List (Nat × Nat)) (r : Nat) :
    ciRanges e rs r = true ↔ ∃ x, e.eqCi r x = true ∧ inRanges rs x = true := by
  unfold ciRanges
  constructor
  · intro h
    simp only [Bool.or_eq_true] at h
    rcases h with h | h
    · exact ⟨r, eqCi_refl e r, h⟩
    · cases hq : e.partner r with
      | none => simp [hq] at h
      | some q => simp only [hq] at h; exact ⟨q, (eqCi_iff e r q).mpr (Or.inr hq), h⟩
  · intro ⟨x, hx, hin⟩
    rw [eqCi_iff] at hx
    rcases hx with hx | hx
    · subst hx; simp [hin]
    · simp [hx, hin]

/-- a ci class looks at its range list only through the ci closure of the ranges -/
theorem cls_base_ranges_congr (e : Env) (neg : Bool) (rs rs' : List (Nat × Nat)) (ns : List (Nat × Bool)) (r : Nat)
    (h : ciRanges e rs' r = ciRanges e rs r) :
    (Cls.base neg rs' ns).mem e true r = (Cls.base neg rs ns).mem e true r := by
  unfold ciRanges at h
  simp only [Cls.mem, Bool.true_and]
  cases hq : e.partner r with
  | none =>
    simp only [hq, Bool.or_false] at h ⊢
    rw [h]
  | some q =>
    simp only [hq] at h ⊢
    generalize inRanges rs' r = a' at *
    generalize inRanges rs' q = c' at *
    generalize inRanges rs r = a at *
    generalize inRanges rs q = c at *
    generalize inNames e ns r = b
    generalize inNames e ns q = d
    cases a' <;> cases c' <;> cases a <;> cases c <;> cases b <;> cases d <;> simp_all

theorem inRanges_append_cons (rs₁ rs₂ : List (Nat × Nat)) (lo hi x : Nat) :
    inRanges (rs₁ ++ (lo, hi) :: rs₂) x = true ↔
      inRanges rs₁ x = true ∨ (lo ≤ x ∧ x ≤ hi) ∨ inRanges rs₂ x = true := by
  simp [inRanges, List.any_append]

/-- **pattern side, range endpoints**: in a ci class a range `lo-hi` may be replaced by a range
    `lo'-hi'` when every rune of either range is case-equal to some rune of the other
    (e.g. `a-z` by `A-Z`); the other ranges, the named classes and the negation flag stay. -/
theorem cls_range_flip_pattern {e : Env} (hf : FoldOK e) (neg : Bool) (rs₁ rs₂ : List (Nat × Nat))
    (ns : List (Nat × Bool)) (lo hi lo' hi' : Nat)
    (h1 : ∀ x, lo ≤ x → x ≤ hi → ∃ y, e.eqCi x y = true ∧ lo' ≤ y ∧ y ≤ hi')
    (h2 : ∀ y, lo' ≤ y → y ≤ hi' → ∃ x, e.eqCi y x = true ∧ lo ≤ x ∧ x ≤ hi) (r : Nat) :
    (Cls.base neg (rs₁ ++ (lo', hi') :: rs₂) ns).mem e true r =
      (Cls.base neg (rs₁ ++ (lo, hi) :: rs₂) ns).mem e true r := by
  apply cls_base_ranges_congr
  rw [Bool.eq_iff_iff, ciRanges_iff, ciRanges_iff]
  constructor
  · intro ⟨x, hx, hin⟩
    rw [inRanges_append_cons] at hin
    rcases hin with hin | ⟨ha, hb⟩ | hin
    · exact ⟨x, hx, (inRanges_append_cons ..).mpr (Or.inl hin)⟩
    · obtain ⟨y, hy, hc, hd⟩ := h2 x ha hb
      exact ⟨y, eqCi_trans hf hx hy, (inRanges_append_cons ..).mpr (Or.inr (Or.inl ⟨hc, hd⟩))⟩
    · exact ⟨x, hx, (inRanges_append_cons ..).mpr (Or.inr (Or.inr hin))⟩
  · intro ⟨x, hx, hin⟩
    rw [inRanges_append_cons] at hin
    rcases hin with hin | ⟨ha, hb⟩ | hin
    · exact ⟨x, hx, (inRanges_append_cons ..).mpr (Or.inl hin)⟩
    · obtain ⟨y, hy, hc, hd⟩ := h1 x ha hb
      exact ⟨y, eqCi_trans hf hx hy, (inRanges_append_cons ..).mpr (Or.inr (Or.inl ⟨hc, hd⟩))⟩
    · exact ⟨x, hx, (inRanges_append_cons ..).mpr (Or.inr (Or.inr hin))⟩

/-- a subtraction is equivalent when both operands are -/
theorem cls_diff_congr (e : Env) (ci : Bool) (a a' b b' : Cls) (r : Nat)
    (ha : a'.mem e ci r = a.mem e ci r) (hb : b'.mem e ci r = b.mem e ci r) :
    (Cls.diff a' b').mem e ci r = (Cls.diff a b).mem e ci r := by
  simp only [Cls.mem, ha, hb]

/-- two patterns of the same shape whose character tests accept the same runes -/
inductive PatTestEq (e : Env) : Pat → Pat → Prop
  | empty : PatTestEq e .empty .empty
  | nothing : PatTestEq e .nothing .nothing
  | chr {p p' : Pred} : (∀ r, p'.test e r = p.test e r) → PatTestEq e (.chr p) (.chr p')
  | anchor (a : Anchor) : PatTestEq e (.anchor a) (.anchor a)
  | seq {a a' b b' : Pat} : PatTestEq e a a' → PatTestEq e b b' → PatTestEq e (.seq a b) (.seq a' b')
  | alt {a a' b b' : Pat} : PatTestEq e a a' → PatTestEq e b b' → PatTestEq e (.alt a b) (.alt a' b')
  | quant (lzy : Bool) (lo : Nat) (hi : Option Nat) {b b' : Pat} :
      PatTestEq e b b' → PatTestEq e (.quant lzy lo hi b) (.quant lzy lo hi b')
  | cap (g : Nat) {b b' : Pat} : PatTestEq e b b' → PatTestEq e (.cap g b) (.cap g b')
  | look (behind neg : Bool) {b b' : Pat} : PatTestEq e b b' → PatTestEq e (.look behind neg b) (.look behind neg b')
  | atomic {b b' : Pat} : PatTestEq e b b' → PatTestEq e (.atomic b) (.atomic b')
  | ref (g : Nat) (ci : Bool) : PatTestEq e (.ref g ci) (.ref g ci)
  | refCond (g : Nat) {y y' n n' : Pat} :
      PatTestEq e y y' → PatTestEq e n n' → PatTestEq e (.refCond g y n) (.refCond g y' n')
  | exprCond {c c' y y' n n' : Pat} :
      PatTestEq e c c' → PatTestEq e y y' → PatTestEq e n n' → PatTestEq e (.exprCond c y n) (.exprCond c' y' n')

/-- **pattern side**: replacing the character tests of a pattern by tests that accept the same runes
    does not change the list of successes -/
theorem m_congr_tests {e : Env} {p p' : Pat} (h : PatTestEq e p p') :
    ∀ (rtl : Bool) (st : St), m e p' rtl st = m e p rtl st := by
  induction h with
  | empty => intro rtl st; rfl
  | nothing => intro rtl st; rfl
  | chr hp => intro rtl st; simp only [m, hp]
  | anchor a => intro rtl st; rfl
  | seq _ _ iha ihb =>
    intro rtl st
    have ea := funext (iha rtl)
    have eb := funext (ihb rtl)
    simp only [m, ea, eb]
  | alt _ _ iha ihb => intro rtl st; simp only [m, iha rtl st, ihb rtl st]
  | quant lzy lo hi _ ih =>
    intro rtl st
    have eb := funext (ih rtl)
    simp only [m, eb]
  | cap g _ ih => intro rtl st; simp only [m, ih rtl st]
  | look behind neg _ ih => intro rtl st; simp only [m, ih behind st]
  | atomic _ ih => intro rtl st; simp only [m, ih rtl st]
  | ref g ci => intro rtl st; rfl
  | refCond g _ _ ihy ihn => intro rtl st; simp only [m, ihy rtl st, ihn rtl st]
  | exprCond _ _ _ ihc ihy ihn =>
    intro rtl st
    have ey := funext (ihy rtl)
    simp only [m, ihc rtl st, ey, ihn rtl st]

theorem find_congr_tests {e : Env} {p p' : Pat} (h : PatTestEq e p p') (rtl : Bool) (start : Nat) :
    find e p' rtl start = find e p rtl start := by
  unfold find attempt
  have := funext (fun i => congrArg List.head? (m_congr_tests (PatTestEq.cap 0 h) rtl { pos := i, caps := [] }))
  rw [this]

/-! ## an executable sufficient check of `FoldOK` on finite tables -/

/-- every row `(r, q)` of the fold table has the reverse lookup `q ↦ r` and agrees on word-ness, and
    `'\n'` has no partner -/
def foldCheck (e : Env) : Bool :=
  e.fold.all (fun p => e.partner p.2 == some p.1 && e.isWord p.1 == e.isWord p.2) && e.partner 10 == none

theorem partner_mem {e : Env} {r q : Nat} (h : e.partner r = some q) : (r, q) ∈ e.fold := by
  unfold Env.partner at h
  rw [Option.map_eq_some_iff] at h
  obtain ⟨⟨a, b⟩, hfind, hb⟩ := h
  have h1 := List.mem_of_find?_eq_some hfind
  have h2 := List.find?_some hfind
  simp only [beq_iff_eq] at h2 hb
  subst h2; subst hb
  exact h1

theorem foldOK_of_check {e : Env} (h : foldCheck e = true) : FoldOK e := by
  unfold foldCheck at h
  simp only [Bool.and_eq_true, List.all_eq_true, beq_iff_eq] at h
  refine ⟨?_, ?_, h.2⟩
  · intro r q hp; exact (h.1 (r, q) (partner_mem hp)).1
  · intro r q hp; exact (h.1 (r, q) (partner_mem hp)).2

theorem SameUpToCase.symm {e : Env} (hf : FoldOK e) {t t' : List Nat} (h : SameUpToCase e t t') :
    SameUpToCase e t' t := by
  induction h with
  | nil => exact SameUpToCase.nil
  | cons hab _ ih => exact SameUpToCase.cons (eqCi_symm hf hab) ih

theorem SameUpToCase.refl (e : Env) (t : List Nat) : SameUpToCase e t t := by
  induction t with
  | nil => exact SameUpToCase.nil
  | cons a t ih => exact SameUpToCase.cons (eqCi_refl e a) ih

/-- `PatTestEq` does not depend on the text -/
theorem PatTestEq.text {e : Env} {p p' : Pat} (h : PatTestEq e p p') (t' : List Nat) :
    PatTestEq { e with text := t' } p p' := by
  induction h with
  | empty => exact .empty
  | nothing => exact .nothing
  | chr hp => exact .chr (fun r => (pred_test_text e t' _ r).trans ((hp r).trans (pred_test_text e t' _ r).symm))
  | anchor a => exact .anchor a
  | seq _ _ iha ihb => exact .seq iha ihb
  | alt _ _ iha ihb => exact .alt iha ihb
  | quant lzy lo hi _ ih => exact .quant lzy lo hi ih
  | cap g _ ih => exact .cap g ih
  | look behind neg _ ih => exact .look behind neg ih
  | atomic _ ih => exact .atomic ih
  | ref g ci => exact .ref g ci
  | refCond g _ _ ihy ihn => exact .refCond g ihy ihn
  | exprCond _ _ _ ihc ihy ihn => exact .exprCond ihc ihy ihn

end RegexVerif.Spec

/-! ## a concrete instance for the non-vacuity examples of Props/C20: letters a/A and b/B -/
namespace RegexVerif.Spec.FlipDemo
open RegexVerif.Spec

/-- oracle tables with the case pairs a↔A, b↔B (both directions listed), the four letters and `_`
    as word characters, and a named class 0 that is *not* closed under partners (only lower case) -/
def demoEnv (text : List Nat) : Env :=
  { text := text, textstart := 0,
    named := [(0, 97), (0, 98)],
    word := [97, 98, 65, 66, 95],
    fold := [(97, 65), (65, 97), (98, 66), (66, 98)] }

/-- "abAB" -/
def demoText : List Nat := [97, 98, 65, 66]
/-- "ABab" -/
def demoText' : List Nat := [65, 66, 97, 98]

/-- `(?i)(a)[a-b\p{0}-[a]]+?\1\B` : a ci literal in a group, a ci class with a range, a named class
    and a subtraction under a lazy loop, a ci back-reference, a non-boundary -/
def demoPat : Pat :=
  .seq (.cap 1 (.chr (.one 97 true)))
    (.seq (.quant true 1 none (.chr (.set (.diff (.base false [(97, 98)] [(0, false)]) (.base false [(97, 97)] [])) true)))
      (.seq (.ref 1 true) (.anchor .nonboundary)))

/-- the same pattern written in upper case: `(?i)(A)[A-B\p{0}-[A]]+?\1\B` -/
def demoPat' : Pat :=
  .seq (.cap 1 (.chr (.one 65 true)))
    (.seq (.quant true 1 none (.chr (.set (.diff (.base false [(65, 66)] [(0, false)]) (.base false [(65, 65)] [])) true)))
      (.seq (.ref 1 true) (.anchor .nonboundary)))

theorem demo_foldOK (text : List Nat) : FoldOK (demoEnv text) := foldOK_of_check (rfl)

theorem demo_same : SameUpToCase (demoEnv demoText) demoText demoText' :=
  .cons (by decide) (.cons (by decide) (.cons (by decide) (.cons (by decide) .nil)))

/-- the ranges a-b and A-B of the demo tables satisfy the two hypotheses -/
theorem demo_range (text : List Nat) :
    (∀ x, 97 ≤ x → x ≤ 98 → ∃ y, (demoEnv text).eqCi x y = true ∧ 65 ≤ y ∧ y ≤ 66) ∧
    (∀ y, 65 ≤ y → y ≤ 66 → ∃ x, (demoEnv text).eqCi y x = true ∧ 97 ≤ x ∧ x ≤ 98) := by
  constructor
  · intro x h1 h2
    have hx : x = 97 ∨ x = 98 := by omega
    rcases hx with rfl | rfl
    · exact ⟨65, rfl, by decide, by decide⟩
    · exact ⟨66, rfl, by decide, by decide⟩
  · intro y h1 h2
    have hy : y = 65 ∨ y = 66 := by omega
    rcases hy with rfl | rfl
    · exact ⟨97, rfl, by decide, by decide⟩
    · exact ⟨98, rfl, by decide, by decide⟩

/-- the character tests of `demoPat'` (upper case) accept the same runes as those of `demoPat` -/
theorem demo_patTestEq (text : List Nat) : PatTestEq (demoEnv text) demoPat demoPat' := by
  have hf := demo_foldOK text
  refine .seq (.cap 1 (.chr ?_)) (.seq (.quant true 1 none (.chr ?_)) (.seq (.ref 1 true) (.anchor .nonboundary)))
  · intro r; exact pred_one_flip_pattern hf (rfl) r
  · intro r
    simp only [Pred.test]
    apply cls_diff_congr
    · exact cls_range_flip_pattern hf false [] [] [(0, false)] 97 98 65 66 (demo_range text).1 (demo_range text).2 r
    · refine cls_range_flip_pattern hf false [] [] [] 97 97 65 65 ?_ ?_ r
      · intro x h1 h2; have : x = 97 := by omega
        subst this; exact ⟨65, rfl, by decide, by decide⟩
      · intro y h1 h2; have : y = 65 := by omega
        subst this; exact ⟨97, rfl, by decide, by decide⟩

end RegexVerif.Spec.FlipDemo
