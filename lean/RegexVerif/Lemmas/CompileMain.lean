/-
Compiler correctness, part 5: the simulation proper — by induction over the tree, the code the writer emits for a
node delivers, in order and on demand, exactly the successes the specification lists for the node's pattern.
-/
import RegexVerif.Lemmas.CompileStep
import RegexVerif.Lemmas.CompileLoop
import RegexVerif.Lemmas.CompileLoopR
import RegexVerif.Lemmas.CompileCut
import RegexVerif.Lemmas.CompileGLoop
import RegexVerif.Lemmas.CompileRef

namespace RegexVerif.Compile
open RegexVerif.VM RegexVerif.Code RegexVerif.Writer RegexVerif.Generated.Opcodes RegexVerif RegexVerif.Spec

/-- everything that is fixed while one program runs on one input -/
structure World where
  X : Setup
  TPx : TP
  /-- `w.caps` of the writer -/
  caps : Option (List (Int × Int))
  /-- the final string / set tables -/
  fin : Tables
  hrel : EnvRel TPx fin.sets X.env X.se
  hstr : X.p.strings = fin.strings.toArray
  hnsets : X.p.nsets = fin.sets.length
  hsl : ∀ g : Nat, X.sl g = (mapCapnum ⟨caps, none⟩ (g : Int)).toNat
  /-- the text is not longer than the "unbounded" repeat count `MaxInt32` -/
  hlen : X.se.n ≤ 2147483647
  /-- the tier up to which trees are considered in this world … -/
  k : Nat
  /-- … and from tier 4 (general loops: the iteration counter must stay below `MaxInt32`) on, strictly shorter -/
  hlenS : 4 ≤ k → X.se.n < 2147483647
  /-- from tier 6 (groups are read back) on: slots are group numbers, and the engine is not in ECMAScript mode (where
      a reference to a group without capture matches the empty string; the specification has no such rule) -/
  hid : 6 ≤ k → ∀ g, X.sl g = g
  hecma : 6 ≤ k → X.env.ecma = false

def World.cfg (W : World) : Cfg := ⟨W.caps, none⟩

theorem emitAlt_cons_cons (cfg : Cfg) (a fin : Nat) (tb : Tables) (c d : GoNode) (ds : List GoNode) :
    emitAlt cfg a fin tb (c :: d :: ds) =
      ([i1 opLazybranch ((a + 2 + size cfg c + 2 : Nat) : Int)] ++ (emitNode cfg (a + 2) tb c).1 ++ [i1 opGoto (fin : Int)] ++
        (emitAlt cfg (a + 2 + size cfg c + 2) fin (emitNode cfg (a + 2) tb c).2 (d :: ds)).1,
       (emitAlt cfg (a + 2 + size cfg c + 2) fin (emitNode cfg (a + 2) tb c).2 (d :: ds)).2) := by
  conv => lhs; rw [emitAlt]
  simp

theorem sizeAlt_cons_cons (cfg : Cfg) (c d : GoNode) (ds : List GoNode) :
    sizeAlt cfg (c :: d :: ds) = 2 + size cfg c + 2 + sizeAlt cfg (d :: ds) := by
  conv => lhs; rw [sizeAlt]
  simp

/-- the highest tier the simulation lemma covers so far -/
def maxTier : Nat := 8

section main
variable (W : World)

/-- `Capture`: `Setmark; ⟨body⟩; Capturemark slot -1` around a body that delivers `rs` -/
theorem capture_delivers {a i : Nat} {T S : List Int} {v : Int} {C : List (Nat × Nat × Nat)} {s : VMState} {g sz : Nat}
    {body : Code} {rs : List St}
    (hcode : CodeAt W.X.p a ([i0 opSetmark] ++ body ++ [i2 opCapturemark (W.X.sl g : Int) (-1)]))
    (hsz : codeLen body = sz) (hg : W.X.sl g < W.X.p.capsize) (he : Entry W.X a i (T ++ [v]) S C s)
    (hbody : ∀ s1, Entry W.X (a + 1) i ((a : Int) :: (T ++ [v])) ((i : Int) :: S) C s1 →
      Delivers W.X (a + 1 + sz) ((a : Int) :: T) ((i : Int) :: S) ((i : Int) :: S) C rs s1) :
    Delivers W.X (a + 1 + sz + 3) T S S C
      (rs.map (fun st' => { st' with caps := st'.caps ++ [(g, min i st'.pos, max i st'.pos - min i st'.pos)] })) s := by
  have h1 : CodeAt W.X.p a ([i0 opSetmark] ++ body) := hcode.left'
  have hset : InstrAt W.X.p a (i0 opSetmark) := (h1.left').instr
  have hcm : InstrAt W.X.p (a + 1 + sz) (i2 opCapturemark (W.X.sl g : Int) (-1)) := by
    have := hcode.right
    rw [codeLen_append, hsz] at this
    exact (this.cast (by simp; omega) rfl).instr
  have hend : ∃ w, VM.fetch W.X.p (a + 1 + sz + 3) = .ok w := by
    have := hcode.fetch_end
    simp only [codeLen_append, hsz] at this
    simpa [Nat.add_assoc] using this
  have hf1 : ∃ w, VM.fetch W.X.p (a + 1) = .ok w := by
    have := (h1.left').fetch_end
    simpa using this
  obtain ⟨s1, hr1, he1⟩ := setmark_leads he hset hf1
  refine Delivers.of_reach hr1 ?_
  rw [map_eq_flatMap_singleton]
  have hb := hbody s1 he1
  have hbind := Delivers.bind (X := W.X) (b := a + 1 + sz + 3) (S' := S)
    (g := fun st' => [{ st' with caps := st'.caps ++ [(g, min i st'.pos, max i st'.pos - min i st'.pos)] }])
    rs s1 hb ?_
  · have := Delivers.append (X := W.X) (b := a + 1 + sz + 3) (T := T) (S := S) (S' := S) (C0 := C)
      (F := [(a : Int)]) (setmark_frame hset) (ys := []) _ s1 (by simpa using hbind) ?_
    · simpa using this
    · intro s'' v' hf
      exact Delivers.fail (v := v') (setmark_back (by simpa using hf) hset)
  · intro r _ F s' v' hF he'
    refine Delivers.cons (v := v') [((a + 1 + sz : Nat) : Int), (i : Int)] (capturemark_frame hcm _) ?_ ?_
    · have := capturemark_leads he' hcm hg hend
      simpa using this
    · intro s'' v'' hf
      exact Delivers.fail (v := v'') (capturemark_back (by simpa using hf) hcm)

variable (hWk : W.k ≤ maxTier)
include hWk

mutual
/-- **the simulation lemma**: the code of a node of the fragment delivers the specification's successes of its
    pattern -/
theorem node_delivers : ∀ (n : GoNode) (d : Bool) (a : Nat) (tb : Tables) (pat : Pat),
    tier n ≤ W.k → toPat W.TPx d n = some pat → n.ok = true → capsOk W.cfg W.X.p.capsize n = true →
    boundsOk n = true → CodeAt W.X.p a (emitNode W.cfg a tb n).1 → TabExt (emitNode W.cfg a tb n).2 W.fin →
    ∀ (i : Nat) (T S : List Int) (v : Int) (C : List (Nat × Nat × Nat)) (s : VMState), St.wf W.X.se.n ⟨i, C⟩ →
      Entry W.X a i (T ++ [v]) S C s → Delivers W.X (a + size W.cfg n) T S S C (m W.X.se pat d ⟨i, C⟩) s
  | .empty, d, a, tb, pat, _, hp, _, _, _, _, _, i, T, S, v, C, s, _, he => by
    simp only [toPat, Option.some.injEq] at hp
    subst hp
    simp only [size, Nat.add_zero, m]
    exact Delivers.single (v := v) (Leads.here he) rfl
  | .bare t, d, a, tb, pat, ht, hp, _, _, _, hcode, _, i, T, S, v, C, s, hwf, he => by
    simp only [toPat] at hp
    simp only [emitNode] at hcode
    by_cases hne : t = opUpdateBumpalong
    · subst hne
      have hpe : pat = .empty := by
        have : bareToPat W.TPx opUpdateBumpalong = some .empty := rfl
        rw [this] at hp; exact (Option.some.inj hp).symm
      subst hpe
      have := updatebumpalong_delivers he hcode.instr (by simpa using hcode.fetch_end)
      simpa [size, m] using this
    · have := bare_delivers (d := d) W.hrel hwf.1 hp hne he hcode.instr (by simpa using hcode.fetch_end)
      simpa [size] using this
  | .char t rtl ci ch, d, a, tb, pat, _, hp, hok, _, _, hcode, _, i, T, S, v, C, s, hwf, he => by
    simp only [toPat] at hp
    simp only [emitNode] at hcode
    split at hp
    · next hc =>
      simp only [Bool.and_eq_true, beq_iff_eq, decide_eq_true_eq] at hc
      obtain ⟨hr, hch⟩ := hc
      subst hr
      have hia := hcode.instr
      have hf : ∃ w, VM.fetch W.X.p (a + 2) = .ok w := by simpa using hcode.fetch_end
      have ht64 : t < 64 := charTypes_lt t (by simpa [GoNode.ok] using hok)
      have hoper : s.oper = ⟨t, rtl, false, false, ci⟩ := by
        rw [he.oper hia]; exact (decode_bits t ht64 rtl ci).2
      have hb : s.oper.back = false := by rw [hoper]
      have hb2 : s.oper.back2 = false := by rw [hoper]
      have hrtl : s.oper.rtl = rtl := by rw [hoper]
      simp only [size]
      split at hp
      · next h1 =>
        cases hp
        have ht : t = opOne := beq_iff_eq.1 h1
        have hop : Op.ofNat? s.oper.op = some .one := by rw [hoper, ht]; rfl
        exact caseChar_delivers W.hrel hwf.1 he hia rfl (by simp only [body, hop, modeOf, hb, hb2]) hrtl
          (predOk_one W.X ch hch) hf
      · split at hp
        · next h2 =>
          cases hp
          have ht : t = opNotone := beq_iff_eq.1 h2
          have hop : Op.ofNat? s.oper.op = some .notone := by rw [hoper, ht]; rfl
          exact caseChar_delivers W.hrel hwf.1 he hia rfl (by simp only [body, hop, modeOf, hb, hb2]) hrtl
            (predOk_notone W.X ch hch) hf
        · cases hp
    · cases hp
  | .set rtl ci pl, d, a, tb, pat, _, hp, _, _, _, hcode, hext, i, T, S, v, C, s, hwf, he => by
    simp only [toPat] at hp
    simp only [emitNode, setKey_eq] at hcode hext
    split at hp
    · next hc =>
      simp only [Bool.and_eq_true, beq_iff_eq, Bool.not_eq_true'] at hc
      obtain ⟨hr, hci⟩ := hc
      subst hr; subst hci
      cases hrd : W.TPx.rd pl with
      | none => rw [hrd] at hp; cases hp
      | some cls =>
        rw [hrd] at hp
        simp only [Option.map_some, Option.some.injEq] at hp
        subst hp
        have hia := hcode.instr
        have hf : ∃ w, VM.fetch W.X.p (a + 2) = .ok w := by simpa using hcode.fetch_end
        have hoper : s.oper = ⟨opSet, rtl, false, false, false⟩ := by
          rw [he.oper hia]; exact (decode_bits opSet (by decide) rtl false).2
        have hop : Op.ofNat? s.oper.op = some .set := by rw [hoper]; rfl
        have hb : s.oper.back = false := by rw [hoper]
        have hb2 : s.oper.back2 = false := by rw [hoper]
        have hrtl : s.oper.rtl = rtl := by rw [hoper]
        have hget : W.fin.sets[(internKey id tb.sets pl).1]? = some pl := by
          obtain ⟨e, he'⟩ := hext.2
          rw [he']
          exact get_of_ext (internKey_get tb.sets pl)
        simp only [size]
        exact caseChar_delivers W.hrel hwf.1 he hia rfl (by simp only [body, hop, modeOf, hb, hb2]) hrtl
          (predOk_set W.hrel W.hnsets hget hrd) hf
    · cases hp
  | .multi rtl ci str, d, a, tb, pat, _, hp, _, _, _, hcode, hext, i, T, S, v, C, s, hwf, he => by
    simp only [toPat] at hp
    simp only [emitNode, strKey_eq] at hcode hext
    split at hp
    · next hc =>
      simp only [Bool.and_eq_true, beq_iff_eq, Bool.not_eq_true'] at hc
      obtain ⟨hr, hci⟩ := hc
      subst hr; subst hci
      cases hp
      have hia := hcode.instr
      have hf : ∃ w, VM.fetch W.X.p (a + 2) = .ok w := by simpa using hcode.fetch_end
      have hget : W.X.p.strings[(internKey id tb.strings str).1]? = some str := by
        obtain ⟨e, he'⟩ := hext.1
        rw [W.hstr, List.getElem?_toArray, he']
        exact get_of_ext (internKey_get tb.strings str)
      simp only [size]
      exact multi_delivers W.hrel hwf.1 he hia hget hf
    · cases hp
  | .ref rtl ci g, d, a, tb, pat, ht, hp, hok, hcaps, hbd, hcode, hext, i, T, S, v, C, s, hwf, he => by
    simp only [toPat] at hp
    simp only [emitNode] at hcode
    simp only [tier] at ht
    split at hp
    · next hc =>
      simp only [Bool.and_eq_true, beq_iff_eq, decide_eq_true_eq] at hc
      obtain ⟨hr, hg0⟩ := hc
      subst hr
      cases hp
      have hci : ci = false := by
        cases ci with
        | false => rfl
        | true => have := Nat.le_trans ht hWk; simp [maxTier] at this
      subst hci
      have h6 : 6 ≤ W.k := by simpa using ht
      have hslot := slotOk_iff.1 (by simpa [capsOk] using hcaps : slotOk W.cfg W.X.p.capsize g = true)
      have hsl : mapCapnum W.cfg g = ((g.toNat : Nat) : Int) := by
        have h1 := W.hsl g.toNat
        rw [W.hid h6] at h1
        have : ((g.toNat : Nat) : Int) = g := by omega
        rw [this] at h1
        have h2 : (mapCapnum W.cfg g).toNat = g.toNat := h1.symm
        omega
      rw [hsl] at hcode
      have := ref_delivers W.hrel hwf (W.hid h6) (g := g.toNat) (by omega) (W.hecma h6) he hcode.instr
        (by simpa using hcode.fetch_end)
      simpa [size] using this
    · cases hp
  | .charloop t rtl ci ch lo hi, d, a, tb, pat, _, hp, hok, _, hbd, hcode, _, i, T, S, v, C, s, hwf, he => by
    simp only [toPat] at hp
    simp only [emitNode] at hcode
    split at hp
    · next hc =>
      simp only [Bool.and_eq_true, beq_iff_eq, decide_eq_true_eq, List.contains_iff_mem] at hc
      obtain ⟨⟨hr, hch⟩, hty⟩ := hc
      subst hr
      cases hp
      simp only [boundsOk, Bool.and_eq_true, decide_eq_true_eq] at hbd
      obtain ⟨⟨⟨_, h0⟩, hmn⟩, hn⟩ := hbd
      simp only [size]
      cases rtl with
      | false =>
        rcases charloop_families t hty with ⟨h1, h2, h3⟩ | ⟨h1, h2, h3⟩
        · simp only [h1, if_true] at hcode
          simp only [h3, Bool.false_eq_true, if_false]
          exact loopnode_delivers W.hrel W.hlen hwf.1 he (List.mem_append_left _ hty) h2.symm (Or.inl ⟨rfl, rfl⟩) h0 hmn hn
            hcode (fun _ => predOk_one W.X ch hch)
        · simp only [h1, Bool.false_eq_true, if_false] at hcode
          simp only [h3, if_true]
          exact loopnode_delivers W.hrel W.hlen hwf.1 he (List.mem_append_left _ hty) h2.symm (Or.inr (Or.inl ⟨rfl, rfl⟩)) h0 hmn
            hn hcode (fun _ => predOk_notone W.X ch hch)
      | true =>
        rcases charloop_families t hty with ⟨h1, h2, h3⟩ | ⟨h1, h2, h3⟩
        · simp only [h1, if_true] at hcode
          simp only [h3, Bool.false_eq_true, if_false]
          exact loopnode_delivers_rtl W.hrel W.hlen hwf he (List.mem_append_left _ hty) h2.symm (Or.inl ⟨rfl, rfl⟩) h0 hmn hn
            hcode (fun _ => predOk_one W.X ch hch)
        · simp only [h1, Bool.false_eq_true, if_false] at hcode
          simp only [h3, if_true]
          exact loopnode_delivers_rtl W.hrel W.hlen hwf he (List.mem_append_left _ hty) h2.symm (Or.inr (Or.inl ⟨rfl, rfl⟩)) h0
            hmn hn hcode (fun _ => predOk_notone W.X ch hch)
    · cases hp
  | .setloop t rtl ci pl lo hi, d, a, tb, pat, _, hp, hok, _, hbd, hcode, hext, i, T, S, v, C, s, hwf, he => by
    simp only [toPat] at hp
    simp only [emitNode, setKey_eq] at hcode hext
    split at hp
    · next hc =>
      simp only [Bool.and_eq_true, beq_iff_eq, Bool.not_eq_true', List.contains_iff_mem] at hc
      obtain ⟨⟨hr, hci⟩, hty⟩ := hc
      subst hr; subst hci
      cases hrd : W.TPx.rd pl with
      | none => rw [hrd] at hp; cases hp
      | some cls =>
        rw [hrd] at hp
        simp only [Option.map_some, Option.some.injEq] at hp
        subst hp
        simp only [boundsOk, Bool.and_eq_true, decide_eq_true_eq] at hbd
        obtain ⟨⟨h0, hmn⟩, hn⟩ := hbd
        simp only [size]
        have hpo : (lo > 0 ∨ hi > lo) → PredOk W.X 2 ((internKey id tb.sets pl).1 : Int) (.set cls false) := by
          intro hne
          have hcond : (decide (lo > 0) || decide (hi > lo)) = true := by
            rcases hne with h | h <;> simp [h]
          rw [if_pos hcond] at hext
          have hget : W.fin.sets[(internKey id tb.sets pl).1]? = some pl := by
            obtain ⟨e, he'⟩ := hext.2
            rw [he']
            exact get_of_ext (internKey_get tb.sets pl)
          exact predOk_set W.hrel W.hnsets hget hrd
        cases rtl with
        | false =>
          exact loopnode_delivers W.hrel W.hlen hwf.1 he (List.mem_append_right _ hty) (setloop_family t hty).symm
            (Or.inr (Or.inr ⟨rfl, rfl⟩)) h0 hmn hn hcode hpo
        | true =>
          exact loopnode_delivers_rtl W.hrel W.hlen hwf he (List.mem_append_right _ hty) (setloop_family t hty).symm
            (Or.inr (Or.inr ⟨rfl, rfl⟩)) h0 hmn hn hcode hpo
    · cases hp
  | .concat cs, d, a, tb, pat, ht, hp, hok, hcaps, hbd, hcode, hext, i, T, S, v, C, s, hwf, he => by
    simp only [toPat] at hp
    cases hps : toPatList W.TPx d cs with
    | none => rw [hps] at hp; cases hp
    | some ps =>
      rw [hps] at hp
      simp only [Option.map_some, Option.some.injEq] at hp
      subst hp
      simp only [GoNode.ok, Bool.and_eq_true] at hok
      rw [m_nestSeq_dir]
      exact list_delivers cs d a tb ps (by simpa [tier] using ht) hps hok.2 (by simpa [capsOk] using hcaps)
        (by simpa [boundsOk] using hbd) (by simpa [emitNode] using hcode) (by simpa [emitNode] using hext)
        i T S v C s hwf he
  | .alt cs, d, a, tb, pat, ht, hp, hok, hcaps, hbd, hcode, hext, i, T, S, v, C, s, hwf, he => by
    simp only [toPat] at hp
    cases hps : toPatList W.TPx d cs with
    | none => rw [hps] at hp; cases hp
    | some ps =>
      rw [hps] at hp
      simp only [Option.map_some, Option.some.injEq] at hp
      subst hp
      simp only [GoNode.ok, Bool.and_eq_true, Bool.not_eq_true'] at hok
      have hne : cs ≠ [] := by intro h; subst h; simp at hok
      exact alt_delivers cs d a (a + sizeAlt W.cfg cs) tb ps hne rfl (by simpa [tier] using ht) hps hok.2
        (by simpa [capsOk] using hcaps) (by simpa [boundsOk] using hbd) (by simpa [emitNode] using hcode)
        (by simpa [emitNode] using hext) i T S v C s hwf he
  | .loop lzy lo hi c, d, a, tb, pat, ht, hp, hok, hcaps, hbd, hcode, hext, i, T, S, v, C, s, hwf, he => by
    simp only [toPat] at hp
    cases hpc : toPat W.TPx d c with
    | none => rw [hpc] at hp; cases hp
    | some pc =>
      rw [hpc] at hp
      simp only [Option.map_some, Option.some.injEq] at hp
      subst hp
      simp only [emitNode] at hcode hext
      simp only [boundsOk, Bool.and_eq_true, decide_eq_true_eq] at hbd
      obtain ⟨⟨⟨h0, hmn⟩, hnm⟩, hbc⟩ := hbd
      simp only [tier, Nat.max_le] at ht
      have hn : W.X.se.n < 2147483647 := W.hlenS ht.1
      have := gloopnode_delivers W.hrel hn (sz := size W.cfg c) (f := m W.X.se pc d) (d := d) h0 hmn hnm hcode
        (emitNode_size _ _ _ _) (fun st st' h => m_dir _ pc d st st' h)
        (fun st hst st' h => m_wf _ pc d st hst st' h)
        (fun p C' T' S' v' s' hwf' he' => node_delivers c d (a + loopHeadLen lo hi) tb pc ht.2 hpc
          (by simpa [GoNode.ok] using hok) (by simpa [capsOk] using hcaps) hbc (loop_body_codeAt hcode) hext p T' S' v' C' s'
          hwf' he') hwf he
      refine this.cast (by simp only [size]; omega) ?_
      simp only [m]
  | .capture g n c, d, a, tb, pat, ht, hp, hok, hcaps, hbd, hcode, hext, i, T, S, v, C, s, hwf, he => by
    simp only [toPat] at hp
    split at hp
    · next hc =>
      simp only [Bool.and_eq_true, beq_iff_eq, decide_eq_true_eq] at hc
      obtain ⟨hn, hg0⟩ := hc
      subst hn
      cases hpc : toPat W.TPx d c with
      | none => rw [hpc] at hp; cases hp
      | some pc =>
        rw [hpc] at hp
        simp only [Option.map_some, Option.some.injEq] at hp
        subst hp
        have hec : emitCapture W.cfg g (-1) = true := rfl
        simp only [emitNode, hec, if_true, mapCapnum_neg_one] at hcode hext
        simp only [capsOk, beq_self_eq_true, if_true, Bool.and_eq_true] at hcaps
        have hslot := slotOk_iff.1 hcaps.1
        have hsl : (W.X.sl g.toNat : Int) = mapCapnum W.cfg g := by
          rw [W.hsl]
          have : ((g.toNat : Nat) : Int) = g := by omega
          rw [this]
          show ((mapCapnum W.cfg g).toNat : Int) = _
          omega
        have hslt : W.X.sl g.toNat < W.X.p.capsize := by omega
        rw [← hsl] at hcode
        have := capture_delivers W (g := g.toNat) (sz := size W.cfg c) hcode (emitNode_size _ _ _ _) hslt he
          (rs := m W.X.se pc d ⟨i, C⟩) (fun s1 he1 =>
            node_delivers c d (a + 1) tb pc (by simpa [tier] using ht) hpc (by simpa [GoNode.ok] using hok) hcaps.2
              (by simpa [boundsOk] using hbd) ((hcode.left').right.cast (by simp) rfl) hext i ((a : Int) :: T) _ v C s1 hwf
              he1)
        refine this.cast (by simp only [size, hec, if_true]; omega) ?_
        simp only [m]
    · cases hp
  | .group c, d, a, tb, pat, ht, hp, hok, hcaps, hbd, hcode, hext, i, T, S, v, C, s, hwf, he => by
    simp only [toPat] at hp
    simp only [emitNode] at hcode hext
    simp only [size]
    exact node_delivers c d a tb pat (by simpa [tier] using ht) hp (by simpa [GoNode.ok] using hok)
      (by simpa [capsOk] using hcaps) (by simpa [boundsOk] using hbd) hcode hext i T S v C s hwf he
  | .poslook c, d, a, tb, pat, ht, hp, hok, hcaps, hbd, hcode, hext, i, T, S, v, C, s, hwf, he => by
    have htc : tier c ≤ W.k := by
      simp only [tier] at ht
      split at ht <;> (simp only [Nat.max_le] at ht; exact ht.2)
    simp only [toPat] at hp
    cases hdir : lookDir c with
    | none => rw [hdir] at hp; cases hp
    | some b =>
      rw [hdir] at hp
      simp only at hp
      cases hpc : toPat W.TPx b c with
      | none => rw [hpc] at hp; cases hp
      | some pc =>
        rw [hpc] at hp
        simp only [Option.map_some, Option.some.injEq] at hp
        subst hp
        simp only [emitNode] at hcode hext
        have := poslook_delivers (sz := size W.cfg c) (rs := m W.X.se pc b ⟨i, C⟩) W.hrel hwf.1 hcode
          (emitNode_size _ _ _ _) he (fun r hr => m_caps_ext W.X.se pc b ⟨i, C⟩ r hr)
          (fun s1 he1 => node_delivers c b (a + 2) tb pc htc hpc
            (by simpa [GoNode.ok] using hok) (by simpa [capsOk] using hcaps) (by simpa [boundsOk] using hbd)
            ((hcode.left').right.cast (by simp) rfl) hext i (((a + 1 : Nat) : Int) :: (a : Int) :: T) _ v C s1 hwf he1)
        refine this.cast (by simp only [size]; omega) ?_
        simp only [m]
        cases m W.X.se pc b ⟨i, C⟩ <;> simp [posLookRes]
  | .neglook c, d, a, tb, pat, ht, hp, hok, hcaps, hbd, hcode, hext, i, T, S, v, C, s, hwf, he => by
    have htc : tier c ≤ W.k := by
      simp only [tier] at ht
      split at ht <;> (simp only [Nat.max_le] at ht; exact ht.2)
    simp only [toPat] at hp
    cases hdir : lookDir c with
    | none => rw [hdir] at hp; cases hp
    | some b =>
      rw [hdir] at hp
      simp only at hp
      cases hpc : toPat W.TPx b c with
      | none => rw [hpc] at hp; cases hp
      | some pc =>
        rw [hpc] at hp
        simp only [Option.map_some, Option.some.injEq] at hp
        subst hp
        simp only [emitNode] at hcode hext
        have := neglook_delivers (sz := size W.cfg c) (rs := m W.X.se pc b ⟨i, C⟩) hcode
          (emitNode_size _ _ _ _) he (fun r hr => m_caps_ext W.X.se pc b ⟨i, C⟩ r hr)
          (fun s1 he1 => node_delivers c b (a + 3) tb pc htc hpc
            (by simpa [GoNode.ok] using hok) (by simpa [capsOk] using hcaps) (by simpa [boundsOk] using hbd)
            ((hcode.left').right.cast (by simp) rfl) hext i (((a + 1 : Nat) : Int) :: (i : Int) :: (a : Int) :: T) _ v C s1 hwf he1)
        refine this.cast (by simp only [size]; omega) ?_
        simp only [m]
        cases m W.X.se pc b ⟨i, C⟩ <;> simp [negLookRes]
  | .atomic c, d, a, tb, pat, ht, hp, hok, hcaps, hbd, hcode, hext, i, T, S, v, C, s, hwf, he => by
    simp only [toPat] at hp
    cases hpc : toPat W.TPx d c with
    | none => rw [hpc] at hp; cases hp
    | some pc =>
      rw [hpc] at hp
      simp only [Option.map_some, Option.some.injEq] at hp
      subst hp
      simp only [emitNode] at hcode hext
      simp only [tier, Nat.max_le] at ht
      have := atomic_delivers (sz := size W.cfg c) (rs := m W.X.se pc d ⟨i, C⟩) hcode
        (emitNode_size _ _ _ _) he (fun r hr => m_caps_ext W.X.se pc d ⟨i, C⟩ r hr)
        (fun s1 he1 => node_delivers c d (a + 1) tb pc ht.2 hpc
          (by simpa [GoNode.ok] using hok) (by simpa [capsOk] using hcaps) (by simpa [boundsOk] using hbd)
          ((hcode.left').right.cast (by simp) rfl) hext i ((a : Int) :: T) _ v C s1 hwf he1)
      refine this.cast (by simp only [size]; omega) ?_
      simp only [m]
  | .backrefcond1 g y, d, a, tb, pat, ht, hp, hok, hcaps, hbd, hcode, hext, i, T, S, v, C, s, hwf, he => by
    simp only [toPat] at hp
    simp only [tier, Nat.max_le] at ht
    split at hp
    · next hg0 =>
      cases hpy : toPat W.TPx d y with
      | none => rw [hpy] at hp; cases hp
      | some py =>
        rw [hpy] at hp
        simp only [Option.map_some, Option.some.injEq] at hp
        subst hp
        simp only [emitNode] at hcode hext
        simp only [capsOk, Bool.and_eq_true] at hcaps
        have hslot := slotOk_iff.1 hcaps.1
        have hsl : mapCapnum W.cfg g = ((g.toNat : Nat) : Int) := by
          have h1 := W.hsl g.toNat
          rw [W.hid ht.1] at h1
          have : ((g.toNat : Nat) : Int) = g := by omega
          rw [this] at h1
          have h2 : (mapCapnum W.cfg g).toNat = g.toNat := h1.symm
          omega
        rw [hsl] at hcode
        have hcy : CodeAt W.X.p (a + 6) (emitNode W.cfg (a + 6) tb y).1 :=
          ((hcode.left').right).cast (by simp [codeLen]) rfl
        have := backrefcond_delivers (szy := size W.cfg y) (szn := 0) (ycode := (emitNode W.cfg (a + 6) tb y).1) (ncode := [])
          (rsY := m W.X.se py d ⟨i, C⟩)
          (rsN := [⟨i, C⟩]) (W.hid ht.1) (g := g.toNat) (by omega) (hcode.cast rfl (by simp)) (emitNode_size _ _ _ _) rfl he
          (fun _ s1 he1 => node_delivers y d (a + 6) tb py ht.2 hpy (by simpa [GoNode.ok] using hok) hcaps.2
            (by simpa [boundsOk] using hbd) hcy hext i _ S v C s1 hwf he1)
          (fun _ s1 he1 => Delivers.single (v := v) (Leads.here (by simpa using he1)) rfl)
        refine this.cast (by simp only [size]; omega) ?_
        simp only [m]
    · cases hp
  | .backrefcond2 g y n, d, a, tb, pat, ht, hp, hok, hcaps, hbd, hcode, hext, i, T, S, v, C, s, hwf, he => by
    simp only [toPat] at hp
    simp only [tier, Nat.max_le] at ht
    split at hp
    · next hg0 =>
      cases hpy : toPat W.TPx d y with
      | none => rw [hpy] at hp; simp at hp
      | some py =>
        cases hpn : toPat W.TPx d n with
        | none => rw [hpy, hpn] at hp; simp at hp
        | some pn =>
          rw [hpy, hpn] at hp
          simp only [Option.some.injEq] at hp
          subst hp
          simp only [emitNode] at hcode hext
          simp only [capsOk, Bool.and_eq_true] at hcaps
          simp only [GoNode.ok, Bool.and_eq_true] at hok
          simp only [boundsOk, Bool.and_eq_true] at hbd
          have hslot := slotOk_iff.1 hcaps.1.1
          have hsl : mapCapnum W.cfg g = ((g.toNat : Nat) : Int) := by
            have h1 := W.hsl g.toNat
            rw [W.hid ht.1] at h1
            have : ((g.toNat : Nat) : Int) = g := by omega
            rw [this] at h1
            have h2 : (mapCapnum W.cfg g).toNat = g.toNat := h1.symm
            omega
          rw [hsl] at hcode
          have hcy : CodeAt W.X.p (a + 6) (emitNode W.cfg (a + 6) tb y).1 :=
            (((hcode.left').left').right).cast (by simp [codeLen]) rfl
          have hcn : CodeAt W.X.p (a + 6 + size W.cfg y + 3)
              (emitNode W.cfg (a + 6 + size W.cfg y + 3) (emitNode W.cfg (a + 6) tb y).2 n).1 := by
            have := hcode.right
            simp only [codeLen_append, emitNode_size] at this
            exact this.cast (by simp [codeLen] <;> omega) rfl
          have hexty : TabExt (emitNode W.cfg (a + 6) tb y).2 W.fin := (emitNode_ext W.cfg n _ _).trans hext
          have := backrefcond_delivers (szy := size W.cfg y) (szn := size W.cfg n) (rsY := m W.X.se py d ⟨i, C⟩)
            (rsN := m W.X.se pn d ⟨i, C⟩) (W.hid ht.1) (g := g.toNat) (by omega) hcode (emitNode_size _ _ _ _)
            (emitNode_size _ _ _ _) he
            (fun _ s1 he1 => node_delivers y d (a + 6) tb py ht.2.1 hpy hok.1 hcaps.1.2 hbd.1 hcy hexty i _ S v C s1 hwf he1)
            (fun _ s1 he1 => node_delivers n d (a + 6 + size W.cfg y + 3) _ pn ht.2.2 hpn hok.2 hcaps.2 hbd.2 hcn hext i _ S v C s1
              hwf he1)
          refine this.cast (by simp only [size]; omega) ?_
          simp only [m]
    · cases hp
  | .exprcond2 c y, d, a, tb, pat, ht, hp, hok, hcaps, hbd, hcode, hext, i, T, S, v, C, s, hwf, he => by
    simp only [toPat] at hp
    simp only [tier, Nat.max_le] at ht
    cases hpc : toPat W.TPx d c with
    | none => rw [hpc] at hp; simp at hp
    | some pc =>
      cases hpy : toPat W.TPx d y with
      | none => rw [hpc, hpy] at hp; simp at hp
      | some py =>
        rw [hpc, hpy] at hp
        simp only [Option.some.injEq] at hp
        subst hp
        simp only [emitNode] at hcode hext
        simp only [capsOk, Bool.and_eq_true] at hcaps
        simp only [GoNode.ok, Bool.and_eq_true] at hok
        simp only [boundsOk, Bool.and_eq_true] at hbd
        have hcc : CodeAt W.X.p (a + 4) (emitNode W.cfg (a + 4) tb c).1 :=
          (((((hcode.left').left').left').right)).cast (by simp [codeLen]) rfl
        have hcy : CodeAt W.X.p (a + 4 + size W.cfg c + 2)
            (emitNode W.cfg (a + 4 + size W.cfg c + 2) (emitNode W.cfg (a + 4) tb c).2 y).1 := by
          have := (hcode.left').right
          simp only [codeLen_append, emitNode_size] at this
          exact this.cast (by simp [codeLen] <;> omega) rfl
        have hextc : TabExt (emitNode W.cfg (a + 4) tb c).2 W.fin := (emitNode_ext W.cfg y _ _).trans hext
        have := exprcond_delivers (szc := size W.cfg c) (szy := size W.cfg y) (szn := 0) (ccode := (emitNode W.cfg (a + 4) tb c).1)
          (ycode := (emitNode W.cfg (a + 4 + size W.cfg c + 2) (emitNode W.cfg (a + 4) tb c).2 y).1) (ncode := [])
          (rsC := m W.X.se pc d ⟨i, C⟩) (rsY := fun r => m W.X.se py d ⟨i, r.caps⟩) (rsN := [⟨i, C⟩]) W.hrel hwf.1
          (hcode.cast rfl (by simp)) (emitNode_size _ _ _ _) (emitNode_size _ _ _ _) rfl he
          (fun r hr => m_caps_ext W.X.se pc d ⟨i, C⟩ r hr)
          (fun s1 he1 => node_delivers c d (a + 4) tb pc ht.2.1 hpc hok.1 hcaps.1 hbd.1 hcc hextc i _ _ v C s1 hwf he1)
          (fun r hr s1 v1 he1 => node_delivers y d (a + 4 + size W.cfg c + 2) _ py ht.2.2 hpy hok.2 hcaps.2 hbd.2 hcy hext i _ S v1
            r.caps s1 ⟨hwf.1, (m_wf W.X.se pc d ⟨i, C⟩ hwf r (List.mem_of_mem_head? hr)).2⟩ he1)
          (fun _ s1 v1 he1 => Delivers.single (v := v1) (Leads.here (by simpa using he1)) rfl)
        refine this.cast (by simp only [size]; omega) ?_
        simp only [m]
        cases m W.X.se pc d ⟨i, C⟩ <;> rfl
  | .exprcond3 c y n, d, a, tb, pat, ht, hp, hok, hcaps, hbd, hcode, hext, i, T, S, v, C, s, hwf, he => by
    simp only [toPat] at hp
    simp only [tier, Nat.max_le] at ht
    cases hpc : toPat W.TPx d c with
    | none => rw [hpc] at hp; simp at hp
    | some pc =>
      cases hpy : toPat W.TPx d y with
      | none => rw [hpc, hpy] at hp; simp at hp
      | some py =>
        cases hpn : toPat W.TPx d n with
        | none => rw [hpc, hpy, hpn] at hp; simp at hp
        | some pn =>
          rw [hpc, hpy, hpn] at hp
          simp only [Option.some.injEq] at hp
          subst hp
          simp only [emitNode] at hcode hext
          simp only [capsOk, Bool.and_eq_true] at hcaps
          simp only [GoNode.ok, Bool.and_eq_true] at hok
          simp only [boundsOk, Bool.and_eq_true] at hbd
          have hcc : CodeAt W.X.p (a + 4) (emitNode W.cfg (a + 4) tb c).1 :=
            ((((((hcode.left').left').left').left').right)).cast (by simp [codeLen]) rfl
          have hcy : CodeAt W.X.p (a + 4 + size W.cfg c + 2)
              (emitNode W.cfg (a + 4 + size W.cfg c + 2) (emitNode W.cfg (a + 4) tb c).2 y).1 := by
            have := ((hcode.left').left').right
            simp only [codeLen_append, emitNode_size] at this
            exact this.cast (by simp [codeLen] <;> omega) rfl
          have hcn : CodeAt W.X.p (a + 4 + size W.cfg c + 2 + size W.cfg y + 4)
              (emitNode W.cfg (a + 4 + size W.cfg c + 2 + size W.cfg y + 4)
                (emitNode W.cfg (a + 4 + size W.cfg c + 2) (emitNode W.cfg (a + 4) tb c).2 y).2 n).1 := by
            have := hcode.right
            simp only [codeLen_append, emitNode_size] at this
            exact this.cast (by simp [codeLen] <;> omega) rfl
          have hexty : TabExt (emitNode W.cfg (a + 4 + size W.cfg c + 2) (emitNode W.cfg (a + 4) tb c).2 y).2 W.fin :=
            (emitNode_ext W.cfg n _ _).trans hext
          have hextc : TabExt (emitNode W.cfg (a + 4) tb c).2 W.fin := (emitNode_ext W.cfg y _ _).trans hexty
          have := exprcond_delivers (szc := size W.cfg c) (szy := size W.cfg y) (szn := size W.cfg n)
            (rsC := m W.X.se pc d ⟨i, C⟩) (rsY := fun r => m W.X.se py d ⟨i, r.caps⟩)
            (rsN := m W.X.se pn d ⟨i, C⟩) W.hrel hwf.1 hcode (emitNode_size _ _ _ _) (emitNode_size _ _ _ _)
            (emitNode_size _ _ _ _) he (fun r hr => m_caps_ext W.X.se pc d ⟨i, C⟩ r hr)
            (fun s1 he1 => node_delivers c d (a + 4) tb pc ht.2.1 hpc hok.1.1 hcaps.1.1 hbd.1.1 hcc hextc i _ _ v C s1 hwf he1)
            (fun r hr s1 v1 he1 => node_delivers y d (a + 4 + size W.cfg c + 2) _ py ht.2.2.1 hpy hok.1.2 hcaps.1.2 hbd.1.2 hcy
              hexty i _ S v1 r.caps s1 ⟨hwf.1, (m_wf W.X.se pc d ⟨i, C⟩ hwf r (List.mem_of_mem_head? hr)).2⟩ he1)
            (fun _ s1 v1 he1 => node_delivers n d (a + 4 + size W.cfg c + 2 + size W.cfg y + 4) _ pn ht.2.2.2 hpn hok.2 hcaps.2 hbd.2
              hcn hext i _ S v1 C s1 hwf he1)
          refine this.cast (by simp only [size]; omega) ?_
          simp only [m]
          cases m W.X.se pc d ⟨i, C⟩ <;> rfl
  | .other t, d, a, tb, pat, ht, _, _, _, _, _, _, i, T, S, v, C, s, _, _ => by
    have ht := Nat.le_trans ht hWk; simp [tier, maxTier] at ht
/-- `Concatenate`: the children one after the other -/
theorem list_delivers : ∀ (cs : List GoNode) (d : Bool) (a : Nat) (tb : Tables) (ps : List Pat),
    tierList cs ≤ W.k → toPatList W.TPx d cs = some ps → okList cs = true →
    capsOkList W.cfg W.X.p.capsize cs = true → boundsOkList cs = true →
    CodeAt W.X.p a (emitList W.cfg a tb cs).1 → TabExt (emitList W.cfg a tb cs).2 W.fin →
    ∀ (i : Nat) (T S : List Int) (v : Int) (C : List (Nat × Nat × Nat)) (s : VMState), St.wf W.X.se.n ⟨i, C⟩ →
      Entry W.X a i (T ++ [v]) S C s → Delivers W.X (a + sizeList W.cfg cs) T S S C (seqList W.X.se d ps ⟨i, C⟩) s
  | [], d, a, tb, ps, _, hp, _, _, _, _, _, i, T, S, v, C, s, _, he => by
    simp only [toPatList, Option.some.injEq] at hp
    subst hp
    simp only [sizeList, Nat.add_zero, seqList]
    exact Delivers.single (v := v) (Leads.here he) rfl
  | c :: cs, d, a, tb, ps, ht, hp, hok, hcaps, hbd, hcode, hext, i, T, S, v, C, s, hwf, he => by
    simp only [toPatList] at hp
    cases hpc : toPat W.TPx d c with
    | none => rw [hpc] at hp; cases hp
    | some pc =>
      cases hps : toPatList W.TPx d cs with
      | none => rw [hpc, hps] at hp; cases hp
      | some ps' =>
        rw [hpc, hps] at hp
        simp only [Option.some.injEq] at hp
        subst hp
        simp only [okList, Bool.and_eq_true] at hok
        simp only [capsOkList, Bool.and_eq_true] at hcaps
        simp only [boundsOkList, Bool.and_eq_true] at hbd
        simp only [tierList, Nat.max_le] at ht
        simp only [emitList] at hcode hext
        have hext1 : TabExt (emitNode W.cfg a tb c).2 W.fin := (emitList_ext W.cfg cs _ _).trans hext
        have h1 := node_delivers c d a tb pc ht.1 hpc hok.1 hcaps.1 hbd.1 hcode.left' hext1 i T S v C s hwf he
        rw [seqList]
        have hcode2 : CodeAt W.X.p (a + size W.cfg c) (emitList W.cfg (a + size W.cfg c) (emitNode W.cfg a tb c).2 cs).1 :=
          hcode.right.cast (by rw [emitNode_size]) rfl
        refine (Delivers.bind (X := W.X) (b := a + size W.cfg c + sizeList W.cfg cs) _ s h1 ?_).cast
          (by simp only [sizeList]; omega) rfl
        intro r hr F s' v' hF he'
        have hwf' := m_wf W.X.se pc d ⟨i, C⟩ hwf r hr
        exact list_delivers cs d (a + size W.cfg c) _ ps' ht.2 hps hok.2 hcaps.2 hbd.2 hcode2 hext r.pos (F ++ T) S v' r.caps s'
          hwf' he'
/-- `Alternate`: `Lazybranch next; ⟨branch⟩; Goto end` for every branch but the last -/
theorem alt_delivers : ∀ (cs : List GoNode) (d : Bool) (a fin : Nat) (tb : Tables) (ps : List Pat), cs ≠ [] →
    fin = a + sizeAlt W.cfg cs → tierList cs ≤ W.k → toPatList W.TPx d cs = some ps → okList cs = true →
    capsOkList W.cfg W.X.p.capsize cs = true → boundsOkList cs = true →
    CodeAt W.X.p a (emitAlt W.cfg a fin tb cs).1 → TabExt (emitAlt W.cfg a fin tb cs).2 W.fin →
    ∀ (i : Nat) (T S : List Int) (v : Int) (C : List (Nat × Nat × Nat)) (s : VMState), St.wf W.X.se.n ⟨i, C⟩ →
      Entry W.X a i (T ++ [v]) S C s → Delivers W.X fin T S S C (m W.X.se (nestAlt ps) d ⟨i, C⟩) s
  | [], d, a, fin, tb, ps, hne, _, _, _, _, _, _, _, _, i, T, S, C, s, _, _, _ => absurd rfl hne
  | c :: cs, d, a, fin, tb, ps, _, hfin, ht, hp, hok, hcaps, hbd, hcode, hext, i, T, S, v, C, s, hwf, he => by
    simp only [toPatList] at hp
    cases hpc : toPat W.TPx d c with
    | none => rw [hpc] at hp; cases hp
    | some pc =>
      cases hps : toPatList W.TPx d cs with
      | none => rw [hpc, hps] at hp; cases hp
      | some ps' =>
        rw [hpc, hps] at hp
        simp only [Option.some.injEq] at hp
        subst hp
        simp only [okList, Bool.and_eq_true] at hok
        simp only [capsOkList, Bool.and_eq_true] at hcaps
        simp only [boundsOkList, Bool.and_eq_true] at hbd
        simp only [tierList, Nat.max_le] at ht
        cases cs with
        | nil =>
          simp only [toPatList, Option.some.injEq] at hps
          subst hps
          simp only [emitAlt, List.isEmpty_nil, if_true] at hcode hext
          simp only [sizeAlt, List.isEmpty_nil, if_true] at hfin
          subst hfin
          simp only [nestAlt, nest]
          exact node_delivers c d a tb pc ht.1 hpc hok.1 hcaps.1 hbd.1 hcode hext i T S v C s hwf he
        | cons d0 ds =>
          rw [emitAlt_cons_cons] at hcode hext
          rw [sizeAlt_cons_cons] at hfin
          simp only at hcode hext
          rw [m_nestAlt_cons]
          -- the pieces of the code
          have hc1 : CodeAt W.X.p a [i1 opLazybranch ((a + 2 + size W.cfg c + 2 : Nat) : Int)] :=
            (hcode.left').left'.left'
          have hlb := hc1.instr
          have hf2 : ∃ w, VM.fetch W.X.p (a + 2) = .ok w := by simpa using hc1.fetch_end
          have hc2 : CodeAt W.X.p (a + 2) (emitNode W.cfg (a + 2) tb c).1 :=
            ((hcode.left').left'.right).cast (by simp) rfl
          have hc3 : CodeAt W.X.p (a + 2 + size W.cfg c) [i1 opGoto (fin : Int)] := by
            have := (hcode.left').right
            simp only [codeLen_append, emitNode_size] at this
            exact this.cast (by simp; omega) rfl
          have hgo := hc3.instr
          have hc4 : CodeAt W.X.p (a + 2 + size W.cfg c + 2)
              (emitAlt W.cfg (a + 2 + size W.cfg c + 2) fin (emitNode W.cfg (a + 2) tb c).2 (d0 :: ds)).1 := by
            have := hcode.right
            simp only [codeLen_append, emitNode_size] at this
            exact this.cast (by simp; omega) rfl
          have hfnext : ∃ w, VM.fetch W.X.p (a + 2 + size W.cfg c + 2) = .ok w := by simpa using hc3.fetch_end
          have hffin : ∃ w, VM.fetch W.X.p fin = .ok w := by
            have := hc4.fetch_end
            rw [emitAlt_size] at this
            rw [hfin]
            simpa [Nat.add_assoc] using this
          have hext1 : TabExt (emitNode W.cfg (a + 2) tb c).2 W.fin := (emitAlt_ext W.cfg _ _ _ _).trans hext
          -- run
          obtain ⟨s1, hr1, he1⟩ := lazybranch_leads he hlb hf2
          refine Delivers.of_reach hr1 ?_
          have hfr : Framed W.X.p [(a : Int), (i : Int)] := lazybranch_frame hlb _
          refine Delivers.append (Sm := S) (C1 := C) (F := [(a : Int), (i : Int)]) hfr (m W.X.se pc d ⟨i, C⟩) s1 ?_ ?_
          · have hn := node_delivers c d (a + 2) tb pc ht.1 hpc hok.1 hcaps.1 hbd.1 hc2 hext1 i
              ([(a : Int), (i : Int)] ++ T) S v C s1 hwf (by simpa using he1)
            have := Delivers.bind (X := W.X) (b := fin) (S' := S) (g := fun r => [r]) _ s1 hn ?_
            · rwa [flatMap_singleton_id] at this
            · intro r _ F s' v' _ he'
              exact Delivers.single (v := v') (goto_leads he' hgo hffin) rfl
          · intro s'' v' hf
            obtain ⟨s2, hr2, he2⟩ := lazybranch_back (T := T ++ [v']) (by simpa using hf) hlb hfnext
            refine Delivers.of_reach hr2 ?_
            exact alt_delivers (d0 :: ds) d (a + 2 + size W.cfg c + 2) fin _ ps' (by simp) (by rw [hfin]; omega) ht.2 hps
              hok.2 hcaps.2 hbd.2 hc4 hext i T S v' C s2 hwf he2
end

end main

end RegexVerif.Compile
