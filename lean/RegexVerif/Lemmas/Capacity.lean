/-
Helper lemmas for C13: arithmetic of clampLimit/alloc0/grow/ensure, the potential `phi`, and the
per-opcode weight bound.
-/
import RegexVerif.Model.Capacity

namespace RegexVerif.Lemmas.Capacity
open RegexVerif.Capacity RegexVerif.Generated

/-! ### clampLimit, alloc0, grow -/

theorem clampLimit_le (L : Int) (n : Nat) : clampLimit L n ≤ n := by
  unfold clampLimit; split <;> omega

theorem clampLimit_le_limit (L : Int) (n : Nat) (h : 0 ≤ L) : (clampLimit L n : Int) ≤ L := by
  unfold clampLimit; split <;> omega

theorem clampLimit_eq (L : Int) (n : Nat) :
    clampLimit L n = if 0 ≤ L ∧ L < (n : Int) then L.toNat else n := rfl

theorem grow_some {L : Int} {len n : Nat} (h : grow L len = some n) :
    len < n ∧ n ≤ (if len = 0 then 1 else len * 2) ∧ (0 ≤ L → (n : Int) ≤ L) ∧
    (n = (if len = 0 then 1 else len * 2) ∨ (n : Int) = L) := by
  unfold grow clampLimit at h
  by_cases h0 : len = 0
  · subst h0
    simp only [Nat.zero_mul, if_true] at h ⊢
    split at h <;> split at h <;> simp at h <;> omega
  · have h2 : len * 2 ≠ 0 := by omega
    simp only [h2, h0, if_false] at h ⊢
    split at h <;> split at h <;> simp at h <;> omega

theorem grow_none {L : Int} {len : Nat} : grow L len = none ↔ (0 ≤ L ∧ L ≤ (len : Int)) := by
  unfold grow
  simp only [clampLimit]
  by_cases h0 : len = 0
  · subst h0
    simp
    split <;> omega
  · have : len * 2 ≠ 0 := by omega
    simp [this]
    split <;> omega

/-! ### ensure -/

/-- full specification of the `ensureStorage` loop (with enough fuel) -/
theorem ensureFuel_spec (L : Int) (tc used : Nat) :
    ∀ fuel len, used + tc * 4 ≤ fuel + len →
      let r := ensureFuel fuel L tc len used
      len ≤ r.1 ∧
      (r.2 = true → used + tc * 4 ≤ r.1 ∧ (r.1 = len ∨ len < used + tc * 4)) ∧
      (r.2 = false → 0 ≤ L ∧ (r.1 : Int) < (used + tc * 4 : Nat) ∧ ((len : Int) ≤ L → (r.1 : Int) = L)) ∧
      ((0 ≤ L → (len : Int) ≤ L) → (0 ≤ L → (r.1 : Int) ≤ L)) := by
  intro fuel
  induction fuel with
  | zero =>
    intro len h
    simp only [ensureFuel]
    split <;> simp <;> omega
  | succ f ih =>
    intro len h
    simp only [ensureFuel]
    split
    · rename_i hlt
      cases hg : grow L len with
      | none =>
        have := grow_none.mp hg
        simp
        omega
      | some n =>
        have hs := grow_some hg
        have := ih n (by omega)
        simp only at this ⊢
        obtain ⟨h1, h2, h3, h4⟩ := this
        refine ⟨by omega, ?_, ?_, ?_⟩
        · intro hr; have := h2 hr; omega
        · intro hr
          have := h3 hr
          refine ⟨this.1, this.2.1, ?_⟩
          intro hl
          apply this.2.2
          exact hs.2.2.1 this.1
        · intro hl h0
          apply h4 _ h0
          intro h0
          exact hs.2.2.1 h0
    · simp; omega

theorem ensure_spec (L : Int) (tc len used : Nat) :
    let r := ensure L tc len used
    len ≤ r.1 ∧
    (r.2 = true → used + tc * 4 ≤ r.1 ∧ (r.1 = len ∨ len < used + tc * 4)) ∧
    (r.2 = false → 0 ≤ L ∧ (r.1 : Int) < (used + tc * 4 : Nat) ∧ ((len : Int) ≤ L → (r.1 : Int) = L)) ∧
    ((0 ≤ L → (len : Int) ≤ L) → (0 ≤ L → (r.1 : Int) ≤ L)) :=
  ensureFuel_spec L tc used (used + tc * 4) len (by omega)

/-- exact success criterion: the check succeeds iff the demand fits under the limit -/
theorem ensure_ok_iff (L : Int) (tc len used : Nat) (hlen : 0 ≤ L → (len : Int) ≤ L) :
    (ensure L tc len used).2 = true ↔ (L < 0 ∨ ((used + tc * 4 : Nat) : Int) ≤ L) := by
  have h := ensure_spec L tc len used
  simp only at h
  obtain ⟨_, h2, h3, h4⟩ := h
  constructor
  · intro hr
    have := h2 hr
    by_cases h0 : 0 ≤ L
    · right; have := h4 hlen h0; omega
    · left; omega
  · intro hL
    cases hr : (ensure L tc len used).2 with
    | true => rfl
    | false =>
      have := h3 hr
      have := this.2.2
      rcases hL with hL | hL
      · omega
      · have h5 := this (hlen (by omega)); omega

theorem ensOf_spec (L : Int) (tc : Nat) : EnsSpec (tc * 4) (ensOf L tc) := by
  intro cap used c h
  unfold ensOf at h
  have hs := ensure_spec L tc cap used
  simp only at h hs
  split at h
  · rename_i hr
    injection h with h
    subst h
    have := hs.2.1 hr
    omega
  · simp at h

/-! ### the potential -/

theorem phi_step (ws : List Nat) (pc : Nat) : phi ws pc = weightAt ws pc + phi ws (pc + 1) := by
  unfold phi weightAt
  induction ws generalizing pc with
  | nil => simp
  | cons w ws ih =>
    cases pc with
    | zero => simp
    | succ n => simpa using ih n

theorem phi_add (ws : List Nat) (a d : Nat) : phi ws (a + d) ≤ phi ws a := by
  induction d with
  | zero => exact Nat.le_refl _
  | succ d ih => have := phi_step ws (a + d); rw [← Nat.add_assoc]; omega

theorem phi_anti (ws : List Nat) {a b : Nat} (h : a ≤ b) : phi ws b ≤ phi ws a := by
  have := phi_add ws a (b - a)
  rwa [Nat.add_sub_cancel' h] at this

theorem phi_forward (ws : List Nat) {a b : Nat} (h : a < b) : weightAt ws a + phi ws b ≤ phi ws a := by
  have h1 := phi_step ws a
  have h2 : phi ws b ≤ phi ws (a + 1) := phi_anti ws h
  omega

theorem phi_zero (ws : List Nat) : phi ws 0 = ws.sum := by simp [phi]

/-! ### weights of programs -/

/-- numbers outside the opcode range weigh nothing and are not counted -/
theorem weight_out {op : Nat} (h : Opcodes.numOpcodes ≤ op) : weight op = 0 := by
  unfold weight
  have : weightTable.length = Opcodes.numOpcodes := by simp [weightTable]
  rw [List.getElem?_eq_none (by omega)]
  rfl

theorem backtracks_out {op : Nat} (h : Opcodes.numOpcodes ≤ op) : backtracks op = false := by
  unfold backtracks
  have : Opcodes.opcodeBacktracks.length = Opcodes.numOpcodes := by decide
  rw [List.getElem?_eq_none (by omega)]
  rfl

/-- per opcode: what it may push is paid for by its being counted, with Nullmark paid by a Goto -/
def opBound (op : Nat) : Bool :=
  decide (weight op + (if op = Opcodes.opGoto then 4 else 0) ≤
    (if backtracks op then 4 else 0) + (if op = Opcodes.opNullmark then 1 else 0))

/-- the table fact itself is discharged in Props/C13 (`op_bound_table`, by `decide` over the regenerated
    tables) so that a change of the Go source shows up as a broken property obligation -/
def OpBoundTable : Prop := ∀ op, op < Opcodes.numOpcodes → opBound op = true

theorem opBound_all (hT : OpBoundTable) (op : Nat) :
    weight op + (if op = Opcodes.opGoto then 4 else 0) ≤
    (if backtracks op then 4 else 0) + (if op = Opcodes.opNullmark then 1 else 0) := by
  by_cases h : op < Opcodes.numOpcodes
  · have := hT op h
    unfold opBound at this
    exact of_decide_eq_true this
  · have h' : Opcodes.numOpcodes ≤ op := Nat.le_of_not_lt h
    rw [weight_out h', backtracks_out h']
    have h1 : op ≠ Opcodes.opGoto := by
      have : Opcodes.opGoto < Opcodes.numOpcodes := by decide
      omega
    simp [h1]

theorem weights_sum_bound (hT : OpBoundTable) (prog : List Nat) :
    (weights prog).sum + 4 * count Opcodes.opGoto prog ≤ 4 * trackCount prog + count Opcodes.opNullmark prog := by
  induction prog with
  | nil => simp [weights, count, trackCount]
  | cons op rest ih =>
    have hb := opBound_all hT op
    have e1 : (if backtracks op = true then 4 else 0) = 4 * (if backtracks op = true then 1 else 0) := by
      split <;> rfl
    have e2 : (if op = Opcodes.opGoto then 4 else 0) = 4 * (if op = Opcodes.opGoto then 1 else 0) := by
      split <;> rfl
    simp only [weights, count, trackCount, List.map_cons, List.sum_cons] at ih ⊢
    omega

/-! ### runs -/

theorem step_l {ens : Nat → Nat → Option Nat} {s s' : St} {m : Move} (h : step ens s m = some s') :
    s'.l = lstep s.l m := by
  unfold step at h
  simp only at h
  split at h
  · cases he : ens s.cap (lstep s.l m).used with
    | none => simp [he] at h
    | some c => simp [he] at h; subst h; rfl
  · injection h with h; subst h; rfl

theorem step_inv {ws : List Nat} {need : Nat} {ens : Nat → Nat → Option Nat}
    (hens : EnsSpec need ens) (hneed : phi ws 0 ≤ need)
    {s s' : St} {m : Move} (hinv : TrackInv ws s) (hl : legal ws s.l m) (h : step ens s m = some s') :
    TrackInv ws s' := by
  unfold TrackInv at hinv ⊢
  unfold step at h
  simp only at h
  split at h
  · -- through a check: free ≥ need ≥ Φ(0) ≥ Φ(t)
    cases he : ens s.cap (lstep s.l m).used with
    | none => simp [he] at h
    | some c =>
      simp [he] at h
      subst h
      have := (hens _ _ _ he).2
      have := phi_anti ws (Nat.zero_le (lstep s.l m).pc)
      simp only
      omega
  · rename_i hc
    injection h with h
    subst h
    cases m with
    | go k p t =>
      simp [checks] at hc
      simp only [legal] at hl
      have := phi_forward ws hc
      simp only [lstep]
      omega
    | pop q t =>
      simp [checks] at hc
      have := phi_anti ws hc
      simp only [lstep]
      omega

theorem peak_le {ws : List Nat} {s : St} {m : Move} (hinv : TrackInv ws s) (hl : legal ws s.l m) :
    peak s.l m ≤ s.cap := by
  unfold TrackInv at hinv
  unfold peak
  cases m with
  | go k p t =>
    simp only [legal] at hl
    have := phi_step ws s.l.pc
    simp only [lstep]
    omega
  | pop q t => simp only [lstep]; omega

theorem run_inv {ws : List Nat} {need : Nat} {ens : Nat → Nat → Option Nat}
    (hens : EnsSpec need ens) (hneed : phi ws 0 ≤ need) :
    ∀ (ms : List Move) (s s' : St), TrackInv ws s → LegalRun ws s.l ms → run ens s ms = some s' → TrackInv ws s' := by
  intro ms
  induction ms with
  | nil => intro s s' hinv _ h; simp [run] at h; subst h; exact hinv
  | cons m ms ih =>
    intro s s' hinv hl h
    simp only [run] at h
    cases hs : step ens s m with
    | none => simp [hs] at h
    | some s1 =>
      simp [hs] at h
      have h1 := step_inv hens hneed hinv hl.1 hs
      have := step_l hs
      exact ih s1 s' h1 (by rw [this]; exact hl.2) h

theorem run_l {ens : Nat → Nat → Option Nat} :
    ∀ (ms : List Move) (s s' : St), run ens s ms = some s' → s'.l = lrun s.l ms := by
  intro ms
  induction ms with
  | nil => intro s s' h; simp [run] at h; subst h; rfl
  | cons m ms ih =>
    intro s s' h
    simp only [run] at h
    cases hs : step ens s m with
    | none => simp [hs] at h
    | some s1 =>
      simp [hs] at h
      have := ih s1 s' h
      rw [this, step_l hs]
      rfl

theorem run_append {ens : Nat → Nat → Option Nat} :
    ∀ (ms : List Move) (m : Move) (s s' : St), run ens s (ms ++ [m]) = some s' →
      ∃ s1, run ens s ms = some s1 ∧ step ens s1 m = some s' := by
  intro ms
  induction ms with
  | nil =>
    intro m s s' h
    simp only [List.nil_append, run] at h
    cases hs : step ens s m with
    | none => simp [hs] at h
    | some s1 => simp [hs] at h; subst h; exact ⟨s, rfl, hs⟩
  | cons m0 ms ih =>
    intro m s s' h
    simp only [List.cons_append, run] at h ⊢
    cases hs : step ens s m0 with
    | none => simp [hs] at h
    | some s1 => simp [hs] at h ⊢; exact ih m s1 s' h

theorem legalRun_append {ws : List Nat} :
    ∀ (ms : List Move) (m : Move) (l : LSt), LegalRun ws l (ms ++ [m]) →
      LegalRun ws l ms ∧ legal ws (lrun l ms) m := by
  intro ms
  induction ms with
  | nil => intro m l h; simp [LegalRun] at h; exact ⟨trivial, h⟩
  | cons m0 ms ih =>
    intro m l h
    simp only [List.cons_append, LegalRun] at h
    have := ih m _ h.2
    exact ⟨⟨h.1, this.1⟩, this.2⟩

/-- an unlimited check never fails -/
theorem ensOf_unlimited (L : Int) (hL : L < 0) (tc len used : Nat) : ∃ c, ensOf L tc len used = some c := by
  unfold ensOf
  have := (ensure_ok_iff L tc len used (by omega)).mpr (Or.inl hL)
  simp [this]

theorem run_total {ens : Nat → Nat → Option Nat} (htot : ∀ cap used, ∃ c, ens cap used = some c) :
    ∀ (ms : List Move) (s : St), ∃ s', run ens s ms = some s' := by
  intro ms
  induction ms with
  | nil => intro s; exact ⟨s, rfl⟩
  | cons m ms ih =>
    intro s
    have : ∃ s1, step ens s m = some s1 := by
      unfold step
      simp only
      split
      · obtain ⟨c, hc⟩ := htot s.cap (lstep s.l m).used
        refine ⟨⟨lstep s.l m, c⟩, ?_⟩
        simp [hc]
      · exact ⟨_, rfl⟩
    obtain ⟨s1, h1⟩ := this
    obtain ⟨s', h'⟩ := ih s1
    exact ⟨s', by simp [run, h1, h']⟩

/-! ### capacities stay under the limit -/

theorem alloc0_le (L : Int) (tc : Nat) (h : 0 ≤ L) : (alloc0 L tc : Int) ≤ L := by
  unfold alloc0; exact clampLimit_le_limit L _ h

theorem ensOf_le {L : Int} {tc len used c : Nat} (h0 : 0 ≤ L) (hlen : (len : Int) ≤ L)
    (h : ensOf L tc len used = some c) : (c : Int) ≤ L := by
  unfold ensOf at h
  have hs := (ensure_spec L tc len used).2.2.2 (fun _ => hlen) h0
  simp only at h
  split at h
  · injection h with h; subst h; exact hs
  · simp at h

theorem step_cap_le {L : Int} {tc : Nat} (h0 : 0 ≤ L) {s s' : St} {m : Move} (hc : (s.cap : Int) ≤ L)
    (h : step (ensOf L tc) s m = some s') : (s'.cap : Int) ≤ L := by
  unfold step at h
  simp only at h
  split at h
  · cases he : ensOf L tc s.cap (lstep s.l m).used with
    | none => simp [he] at h
    | some c => simp [he] at h; subst h; exact ensOf_le h0 hc he
  · injection h with h; subst h; exact hc

theorem run_cap_le {L : Int} {tc : Nat} (h0 : 0 ≤ L) :
    ∀ (ms : List Move) (s s' : St), (s.cap : Int) ≤ L → run (ensOf L tc) s ms = some s' → (s'.cap : Int) ≤ L := by
  intro ms
  induction ms with
  | nil => intro s s' hc h; simp [run] at h; subst h; exact hc
  | cons m ms ih =>
    intro s s' hc h
    simp only [run] at h
    cases hs : step (ensOf L tc) s m with
    | none => simp [hs] at h
    | some s1 => simp [hs] at h; exact ih s1 s' (step_cap_le h0 hc hs) h

theorem start_inv {ws : List Nat} {need : Nat} {ens : Nat → Nat → Option Nat}
    (hens : EnsSpec need ens) (hneed : phi ws 0 ≤ need) {cap0 : Nat} {s0 : St}
    (h : start ens cap0 = some s0) : TrackInv ws s0 ∧ s0.l = ⟨0, 0⟩ := by
  unfold start at h
  cases he : ens cap0 0 with
  | none => simp [he] at h
  | some c =>
    simp [he] at h
    subst h
    have := (hens _ _ _ he).2
    refine ⟨?_, rfl⟩
    unfold TrackInv
    simp only
    omega

end RegexVerif.Lemmas.Capacity
