/-
Helper lemmas for C05 (pattern rewrites preserve meaning): semantic laws of the backtracking
specification `Spec.m` that justify the rewrites of /repo/syntax/tree.go.

Three notions of "same meaning" are used, from strongest to weakest:

* `m e p rtl st = m e q rtl st` — the same ordered list of successes (valid in every context);
* `EqMod e D rtl p q` — the same ordered list after deleting the successes that end at a position
  in the set `D` ("dead" positions: everything that follows the construct is known to fail there);
  this is the notion behind the auto-atomic loops;
* `HeadEq e rtl p q` — the same first success (valid where nothing backtracks into the construct:
  at the end of the pattern, inside atomic groups, lookarounds and conditions).
-/
import RegexVerif.Lemmas.Spec

namespace RegexVerif.Spec

/-! ## list facts -/

theorem take_one_of_length_le {α : Type} (l : List α) (h : l.length ≤ 1) : l.take 1 = l := by
  match l, h with
  | [], _ => rfl
  | [_], _ => rfl

theorem head?_take_one {α : Type} (l : List α) : (l.take 1).head? = l.head? := by
  cases l <;> rfl

theorem take_one_congr {α : Type} {l l' : List α} (h : l.head? = l'.head?) : l.take 1 = l'.take 1 := by
  cases l <;> cases l' <;> simp_all

theorem take_one_eq_iff {α : Type} {l l' : List α} : l.take 1 = l'.take 1 ↔ l.head? = l'.head? := by
  cases l <;> cases l' <;> simp

theorem head?_append_congr {α : Type} {l l' r r' : List α} (h1 : l.head? = l'.head?) (h2 : r.head? = r'.head?) :
    (l ++ r).head? = (l' ++ r').head? := by
  cases l <;> cases l' <;> simp_all

theorem head?_map_congr {α β : Type} (f : α → β) {l l' : List α} (h : l.head? = l'.head?) :
    (l.map f).head? = (l'.map f).head? := by
  cases l <;> cases l' <;> simp_all

theorem head?_flatMap_congr {α β : Type} (l : List α) (f g : α → List β)
    (h : ∀ x ∈ l, (f x).head? = (g x).head?) : (l.flatMap f).head? = (l.flatMap g).head? := by
  induction l with
  | nil => rfl
  | cons x xs ih =>
    simp only [List.flatMap_cons]
    exact head?_append_congr (h x (by simp)) (ih (fun y hy => h y (by simp [hy])))

/-- when `f` fails on every element of `l` except possibly its head, only the head matters -/
theorem flatMap_take_one_of_tail_dead {α β : Type} (l : List α) (f : α → List β)
    (h : ∀ x ∈ l.tail, f x = []) : l.flatMap f = (l.take 1).flatMap f := by
  cases l with
  | nil => rfl
  | cons x xs =>
    simp only [List.tail_cons] at h
    simp only [List.flatMap_cons, List.take_succ_cons, List.take_zero, List.flatMap_nil, List.append_nil]
    have : xs.flatMap f = [] := by
      rw [List.flatMap_eq_nil_iff]; exact h
    rw [this, List.append_nil]

theorem filter_flatMap' {α β : Type} (l : List α) (f : α → List β) (p : β → Bool) :
    (l.flatMap f).filter p = l.flatMap (fun x => (f x).filter p) := by
  induction l with
  | nil => rfl
  | cons x xs ih => simp only [List.flatMap_cons, List.filter_append, ih]

/-- a continuation that fails on everything `p` rejects cannot tell a list from its filtering -/
theorem flatMap_filter_of_dead {α β : Type} (l : List α) (f : α → List β) (p : α → Bool)
    (h : ∀ x, p x = false → f x = []) : (l.filter p).flatMap f = l.flatMap f := by
  induction l with
  | nil => rfl
  | cons x xs ih =>
    cases hp : p x
    · simp [hp, h x hp, ih]
    · simp [hp, ih]

/-! ## `m` respects extensional equality of sub-patterns -/

theorem m_funext {e : Env} {a a' : Pat} {rtl : Bool} (h : ∀ st, m e a rtl st = m e a' rtl st) :
    m e a rtl = m e a' rtl := funext h

theorem seq_congr_dir {e : Env} {a a' b b' : Pat} {rtl : Bool}
    (ha : ∀ st, m e a rtl st = m e a' rtl st) (hb : ∀ st, m e b rtl st = m e b' rtl st) (st : St) :
    m e (.seq a b) rtl st = m e (.seq a' b') rtl st := by
  simp only [m, m_funext ha, m_funext hb]

theorem alt_congr_dir {e : Env} {a a' b b' : Pat} {rtl : Bool}
    (ha : ∀ st, m e a rtl st = m e a' rtl st) (hb : ∀ st, m e b rtl st = m e b' rtl st) (st : St) :
    m e (.alt a b) rtl st = m e (.alt a' b') rtl st := by
  simp only [m, ha, hb]

theorem quant_congr_dir {e : Env} {a a' : Pat} {rtl : Bool} (lzy : Bool) (lo : Nat) (hi : Option Nat)
    (ha : ∀ st, m e a rtl st = m e a' rtl st) (st : St) :
    m e (.quant lzy lo hi a) rtl st = m e (.quant lzy lo hi a') rtl st := by
  simp only [m, m_funext ha]

theorem cap_congr_dir {e : Env} {a a' : Pat} {rtl : Bool} (g : Nat)
    (ha : ∀ st, m e a rtl st = m e a' rtl st) (st : St) :
    m e (.cap g a) rtl st = m e (.cap g a') rtl st := by
  simp only [m, ha]

theorem atomic_congr_dir {e : Env} {a a' : Pat} {rtl : Bool}
    (ha : ∀ st, m e a rtl st = m e a' rtl st) (st : St) :
    m e (.atomic a) rtl st = m e (.atomic a') rtl st := by
  simp only [m, ha]

/-- a lookaround evaluates its body in its own direction `behind`, whatever the outer direction -/
theorem look_congr_dir {e : Env} {a a' : Pat} (behind neg : Bool)
    (ha : ∀ st, m e a behind st = m e a' behind st) (rtl : Bool) (st : St) :
    m e (.look behind neg a) rtl st = m e (.look behind neg a') rtl st := by
  simp only [m, ha]

theorem refCond_congr_dir {e : Env} {a a' b b' : Pat} {rtl : Bool} (g : Nat)
    (ha : ∀ st, m e a rtl st = m e a' rtl st) (hb : ∀ st, m e b rtl st = m e b' rtl st) (st : St) :
    m e (.refCond g a b) rtl st = m e (.refCond g a' b') rtl st := by
  simp only [m, ha, hb]

theorem exprCond_congr_dir {e : Env} {c c' a a' b b' : Pat} {rtl : Bool}
    (hc : ∀ st, m e c rtl st = m e c' rtl st)
    (ha : ∀ st, m e a rtl st = m e a' rtl st) (hb : ∀ st, m e b rtl st = m e b' rtl st) (st : St) :
    m e (.exprCond c a b) rtl st = m e (.exprCond c' a' b') rtl st := by
  simp only [m, hc, m_funext ha, hb]

/-! ## `HeadEq`: the same first success -/

/-- `p` and `q` have the same highest-priority success from every state (direction `rtl`) -/
def HeadEq (e : Env) (rtl : Bool) (p q : Pat) : Prop :=
  ∀ st, (m e p rtl st).head? = (m e q rtl st).head?

theorem HeadEq.refl (e : Env) (rtl : Bool) (p : Pat) : HeadEq e rtl p p := fun _ => rfl

theorem HeadEq.symm {e : Env} {rtl : Bool} {p q : Pat} (h : HeadEq e rtl p q) : HeadEq e rtl q p :=
  fun st => (h st).symm

theorem HeadEq.trans {e : Env} {rtl : Bool} {p q r : Pat} (h1 : HeadEq e rtl p q) (h2 : HeadEq e rtl q r) :
    HeadEq e rtl p r := fun st => (h1 st).trans (h2 st)

theorem HeadEq.of_eq {e : Env} {rtl : Bool} {p q : Pat} (h : ∀ st, m e p rtl st = m e q rtl st) :
    HeadEq e rtl p q := fun st => by rw [h st]

/-- a construct nothing backtracks into may be wrapped in an atomic group -/
theorem headEq_atomic (e : Env) (rtl : Bool) (p : Pat) : HeadEq e rtl p (.atomic p) := by
  intro st; simp only [m, head?_take_one]

/-- left-to-right the second factor of a concatenation is evaluated last -/
theorem headEq_seq_ltr {e : Env} {x x' : Pat} (a : Pat) (h : HeadEq e false x x') :
    HeadEq e false (.seq a x) (.seq a x') := by
  intro st
  simp only [m, Bool.false_eq_true, if_false]
  exact head?_flatMap_congr _ _ _ (fun y _ => h y)

/-- right-to-left the first factor of a concatenation is evaluated last -/
theorem headEq_seq_rtl {e : Env} {a a' : Pat} (x : Pat) (h : HeadEq e true a a') :
    HeadEq e true (.seq a x) (.seq a' x) := by
  intro st
  simp only [m, if_true]
  exact head?_flatMap_congr _ _ _ (fun y _ => h y)

theorem headEq_alt {e : Env} {rtl : Bool} {a a' b b' : Pat} (ha : HeadEq e rtl a a') (hb : HeadEq e rtl b b') :
    HeadEq e rtl (.alt a b) (.alt a' b') := by
  intro st
  simp only [m]
  exact head?_append_congr (ha st) (hb st)

theorem headEq_cap {e : Env} {rtl : Bool} {a a' : Pat} (g : Nat) (h : HeadEq e rtl a a') :
    HeadEq e rtl (.cap g a) (.cap g a') := by
  intro st
  simp only [m]
  exact head?_map_congr _ (h st)

/-- inside an atomic group only the first success is used: full equality of the lists -/
theorem atomic_eq_of_headEq {e : Env} {rtl : Bool} {a a' : Pat} (h : HeadEq e rtl a a') (st : St) :
    m e (.atomic a) rtl st = m e (.atomic a') rtl st := by
  simp only [m]
  exact take_one_congr (h st)

/-- a lookaround only uses the first success of its body (in direction `behind`) -/
theorem look_eq_of_headEq {e : Env} {behind : Bool} {a a' : Pat} (neg : Bool) (h : HeadEq e behind a a')
    (rtl : Bool) (st : St) :
    m e (.look behind neg a) rtl st = m e (.look behind neg a') rtl st := by
  simp only [m]
  have := h st
  cases h1 : m e a behind st <;> cases h2 : m e a' behind st <;> simp_all

theorem headEq_refCond {e : Env} {rtl : Bool} {a a' b b' : Pat} (g : Nat)
    (ha : HeadEq e rtl a a') (hb : HeadEq e rtl b b') :
    HeadEq e rtl (.refCond g a b) (.refCond g a' b') := by
  intro st
  simp only [m]
  split
  · exact ha st
  · exact hb st

/-- the condition of an expression conditional is used through its first success only; the
    branches are in tail position -/
theorem headEq_exprCond {e : Env} {rtl : Bool} {c c' a a' b b' : Pat}
    (hc : HeadEq e rtl c c') (ha : HeadEq e rtl a a') (hb : HeadEq e rtl b b') :
    HeadEq e rtl (.exprCond c a b) (.exprCond c' a' b') := by
  intro st
  simp only [m]
  have := hc st
  cases h1 : m e c rtl st <;> cases h2 : m e c' rtl st <;> simp_all
  · exact hb st
  · exact ha _

/-- the condition alone: full equality -/
theorem exprCond_eq_of_headEq {e : Env} {rtl : Bool} {c c' : Pat} (a b : Pat) (hc : HeadEq e rtl c c') (st : St) :
    m e (.exprCond c a b) rtl st = m e (.exprCond c' a b) rtl st := by
  simp only [m]
  have := hc st
  cases h1 : m e c rtl st <;> cases h2 : m e c' rtl st <;> simp_all

/-! ## loops in tail position -/

theorem m_quant (e : Env) (lzy : Bool) (lo : Nat) (hi : Option Nat) (b : Pat) (rtl : Bool) (st : St) :
    m e (.quant lzy lo hi b) rtl st = iter (m e b rtl) lzy lo hi (e.n + lo + 1) 0 st := by
  rw [m]

theorem m_atomic (e : Env) (b : Pat) (rtl : Bool) (st : St) :
    m e (.atomic b) rtl st = (m e b rtl st).take 1 := by
  rw [m]

/-- a loop that may not iterate any more just stops -/
theorem iter_of_not_canGo (f : St → List St) (lzy : Bool) (lo : Nat) (hi : Option Nat) (fuel cnt : Nat) (st : St)
    (h : canGo hi cnt = false) : iter f lzy lo hi fuel cnt st = if lo ≤ cnt then [st] else [] := by
  cases fuel with
  | zero => rfl
  | succ fuel => cases lzy <;> simp [iter, h]

/-- an optional construct (`hi = 1`) in tail position: only the first success of its body matters -/
theorem iter_head_hi_one (f g : St → List St) (hfg : ∀ st, (f st).head? = (g st).head?)
    (lzy : Bool) (lo : Nat) (fuel : Nat) (st : St) :
    (iter f lzy lo (some 1) fuel 0 st).head? = (iter g lzy lo (some 1) fuel 0 st).head? := by
  cases fuel with
  | zero => rfl
  | succ fuel =>
    have hng : canGo (some 1) 1 = false := by simp [canGo]
    have hmore : ∀ (h : St → List St),
        (h st).flatMap (fun st' => if (st'.pos == st.pos && decide (lo ≤ 0 + 1)) = true then [st']
          else iter h lzy lo (some 1) fuel (0 + 1) st') = if lo ≤ 1 then h st else [] := by
      intro h
      by_cases hlo : lo ≤ 1
      · have : (fun st' : St => if (st'.pos == st.pos && decide (lo ≤ 0 + 1)) = true then [st']
            else iter h lzy lo (some 1) fuel (0 + 1) st') = fun st' => [st'] := by
          funext st'
          rw [iter_of_not_canGo _ _ _ _ _ _ _ hng]
          simp [hlo]
        rw [this]; simp [hlo]
      · have : (fun st' : St => if (st'.pos == st.pos && decide (lo ≤ 0 + 1)) = true then [st']
            else iter h lzy lo (some 1) fuel (0 + 1) st') = fun _ => [] := by
          funext st'
          rw [iter_of_not_canGo _ _ _ _ _ _ _ hng]
          simp [hlo]
        rw [this]; simp [hlo]
    simp only [iter, hmore]
    have hm : (if canGo (some 1) 0 = true then (if lo ≤ 1 then f st else []) else []).head?
        = (if canGo (some 1) 0 = true then (if lo ≤ 1 then g st else []) else []).head? := by
      split
      · split
        · exact hfg st
        · rfl
      · rfl
    cases lzy
    · simp only [Bool.false_eq_true, if_false]; exact head?_append_congr hm rfl
    · simp only [if_true]; exact head?_append_congr rfl hm

/-- `(?:x)?`-style loops in tail position -/
theorem headEq_quant_hi_one {e : Env} {rtl : Bool} {a a' : Pat} (lzy : Bool) (lo : Nat)
    (h : HeadEq e rtl a a') : HeadEq e rtl (.quant lzy lo (some 1) a) (.quant lzy lo (some 1) a') := by
  intro st
  simp only [m]
  exact iter_head_hi_one _ _ h lzy lo _ st

/-- a lazy loop in tail position stops at its minimum: the first success is the one with exactly
    `lo` iterations -/
theorem iter_lazy_head_min (f : St → List St) (lo : Nat) (hi : Option Nat)
    (hhi : ∀ c, c < lo → canGo hi c = true) :
    ∀ (fuel cnt : Nat) (st : St),
      (iter f true lo hi fuel cnt st).head? = (iter f true lo (some lo) fuel cnt st).head? := by
  intro fuel
  induction fuel with
  | zero => intro cnt st; rfl
  | succ fuel ih =>
    intro cnt st
    simp only [iter, if_true]
    by_cases hlo : lo ≤ cnt
    · simp [hlo]
    · have h1 : canGo hi cnt = true := hhi cnt (by omega)
      have h2 : canGo (some lo) cnt = true := by simp [canGo]; omega
      simp only [hlo, if_false, h1, h2, if_true, List.nil_append]
      apply head?_flatMap_congr
      intro y _
      split
      · rfl
      · exact ih (cnt + 1) y

theorem headEq_lazy_min (e : Env) (rtl : Bool) (lo : Nat) (hi : Option Nat) (a : Pat)
    (hhi : ∀ c, c < lo → canGo hi c = true) :
    HeadEq e rtl (.quant true lo hi a) (.quant true lo (some lo) a) := by
  intro st
  simp only [m]
  exact iter_lazy_head_min _ lo hi hhi _ 0 st

/-! ## `EqMod`: the same successes except at dead positions -/

/-- the successes that do not end at a dead position -/
def live (D : Nat → Bool) (l : List St) : List St := l.filter (fun t => !D t.pos)

/-- `p` and `q` have the same ordered successes once those ending at a position in `D` are deleted -/
def EqMod (e : Env) (D : Nat → Bool) (rtl : Bool) (p q : Pat) : Prop :=
  ∀ st, live D (m e p rtl st) = live D (m e q rtl st)

theorem EqMod.refl (e : Env) (D : Nat → Bool) (rtl : Bool) (p : Pat) : EqMod e D rtl p p := fun _ => rfl

theorem EqMod.symm {e : Env} {D : Nat → Bool} {rtl : Bool} {p q : Pat} (h : EqMod e D rtl p q) :
    EqMod e D rtl q p := fun st => (h st).symm

theorem EqMod.trans {e : Env} {D : Nat → Bool} {rtl : Bool} {p q r : Pat}
    (h1 : EqMod e D rtl p q) (h2 : EqMod e D rtl q r) : EqMod e D rtl p r := fun st => (h1 st).trans (h2 st)

theorem EqMod.of_eq {e : Env} {D : Nat → Bool} {rtl : Bool} {p q : Pat}
    (h : ∀ st, m e p rtl st = m e q rtl st) : EqMod e D rtl p q := fun st => by rw [h st]

/-- fewer dead positions: a stronger statement -/
theorem EqMod.mono {e : Env} {D D' : Nat → Bool} {rtl : Bool} {p q : Pat}
    (hD : ∀ i, D i = true → D' i = true) (h : EqMod e D rtl p q) : EqMod e D' rtl p q := by
  intro st
  have := congrArg (live D') (h st)
  simp only [live, List.filter_filter] at this
  have hf : (fun t : St => (!D' t.pos && !D t.pos)) = fun t => !D' t.pos := by
    funext t
    cases h1 : D t.pos <;> cases h2 : D' t.pos <;> simp_all
  simpa only [live, hf] using this

/-- with no dead positions it is plain equality -/
theorem EqMod.eq_of_none {e : Env} {rtl : Bool} {p q : Pat} (h : EqMod e (fun _ => false) rtl p q) (st : St) :
    m e p rtl st = m e q rtl st := by
  have := h st
  simp only [live, Bool.not_false] at this
  rwa [List.filter_eq_self.mpr (fun _ _ => rfl), List.filter_eq_self.mpr (fun _ _ => rfl)] at this

/-- **what `EqMod` is for**: if everything that follows (`k`) fails at dead positions, the two
    constructs are interchangeable in front of `k` (left-to-right) -/
theorem EqMod.seq_kill {e : Env} {D : Nat → Bool} {x x' : Pat} (k : Pat) (h : EqMod e D false x x')
    (hk : ∀ st, D st.pos = true → m e k false st = []) (st : St) :
    m e (.seq x k) false st = m e (.seq x' k) false st := by
  simp only [m, Bool.false_eq_true, if_false]
  have hd : ∀ t : St, (fun t : St => !D t.pos) t = false → m e k false t = [] := by
    intro t ht; exact hk t (by simpa using ht)
  rw [← flatMap_filter_of_dead (m e x false st) _ _ hd, ← flatMap_filter_of_dead (m e x' false st) _ _ hd]
  have := h st
  simp only [live] at this
  rw [this]

/-- right-to-left mirror: what follows in evaluation order is the first factor -/
theorem EqMod.seq_kill_rtl {e : Env} {D : Nat → Bool} {x x' : Pat} (k : Pat) (h : EqMod e D true x x')
    (hk : ∀ st, D st.pos = true → m e k true st = []) (st : St) :
    m e (.seq k x) true st = m e (.seq k x') true st := by
  simp only [m, if_true]
  have hd : ∀ t : St, (fun t : St => !D t.pos) t = false → m e k true t = [] := by
    intro t ht; exact hk t (by simpa using ht)
  rw [← flatMap_filter_of_dead (m e x true st) _ _ hd, ← flatMap_filter_of_dead (m e x' true st) _ _ hd]
  have := h st
  simp only [live] at this
  rw [this]

/-- closure: last factor of a concatenation (left-to-right) -/
theorem EqMod.seq_last {e : Env} {D : Nat → Bool} {x x' : Pat} (a : Pat) (h : EqMod e D false x x') :
    EqMod e D false (.seq a x) (.seq a x') := by
  intro st
  simp only [m, Bool.false_eq_true, if_false, live, filter_flatMap']
  congr 1
  funext y
  exact h y

/-- closure: both branches of an alternation -/
theorem EqMod.alt {e : Env} {D : Nat → Bool} {rtl : Bool} {a a' b b' : Pat}
    (ha : EqMod e D rtl a a') (hb : EqMod e D rtl b b') : EqMod e D rtl (.alt a b) (.alt a' b') := by
  intro st
  have h1 := ha st
  have h2 := hb st
  simp only [live] at h1 h2
  simp only [m, live, List.filter_append, h1, h2]

/-- closure: a capture group only appends to the capture log, positions are unchanged -/
theorem EqMod.cap {e : Env} {D : Nat → Bool} {rtl : Bool} {a a' : Pat} (g : Nat)
    (h : EqMod e D rtl a a') : EqMod e D rtl (.cap g a) (.cap g a') := by
  intro st
  have h1 := h st
  simp only [live] at h1
  simp only [m, live, List.filter_map]
  congr 1

/-- closure: the branches of a back-reference conditional -/
theorem EqMod.refCond {e : Env} {D : Nat → Bool} {rtl : Bool} {a a' b b' : Pat} (g : Nat)
    (ha : EqMod e D rtl a a') (hb : EqMod e D rtl b b') :
    EqMod e D rtl (.refCond g a b) (.refCond g a' b') := by
  intro st
  simp only [m]
  split
  · exact ha st
  · exact hb st

/-- closure: the branches of an expression conditional -/
theorem EqMod.exprCond {e : Env} {D : Nat → Bool} {rtl : Bool} {a a' b b' : Pat} (c : Pat)
    (ha : EqMod e D rtl a a') (hb : EqMod e D rtl b b') :
    EqMod e D rtl (.exprCond c a b) (.exprCond c a' b') := by
  intro st
  simp only [m]
  split
  · exact ha _
  · exact hb st

/-- a list whose non-head elements are all dead is, modulo dead positions, its own `take 1` -/
theorem live_take_one_of_tail_dead (D : Nat → Bool) (l : List St) (h : ∀ t ∈ l.tail, D t.pos = true) :
    live D l = live D (l.take 1) := by
  cases l with
  | nil => rfl
  | cons x xs =>
    simp only [List.tail_cons] at h
    simp only [live, List.take_succ_cons, List.take_zero, List.filter_cons]
    have : xs.filter (fun t => !D t.pos) = [] := by
      rw [List.filter_eq_nil_iff]; intro t ht; simp [h t ht]
    rw [this]
    split <;> simp

theorem eqMod_atomic_of_tail_dead {e : Env} {D : Nat → Bool} {rtl : Bool} {p : Pat}
    (h : ∀ st, ∀ t ∈ (m e p rtl st).tail, D t.pos = true) : EqMod e D rtl p (.atomic p) := by
  intro st
  simp only [m]
  exact live_take_one_of_tail_dead D _ (h st)

/-! ## single-character loops, left-to-right -/

/-- the rune at `pos` exists and is accepted by `p` -/
def acc (e : Env) (p : Pred) (pos : Nat) : Bool :=
  match e.text[pos]? with
  | some r => p.test e r
  | none => false

/-- the rune before `pos` exists and is accepted by `p` -/
def prevAcc (e : Env) (p : Pred) (pos : Nat) : Bool := pos != 0 && acc e p (pos - 1)

theorem m_chr_ltr (e : Env) (p : Pred) (st : St) :
    m e (.chr p) false st = if acc e p st.pos = true then [{ st with pos := st.pos + 1 }] else [] := by
  cases hx : e.text[st.pos]? with
  | none =>
    have hs : stepChar e false st.pos = none := by simp [stepChar, hx]
    simp [m, hs, acc, hx]
  | some r =>
    have hs : stepChar e false st.pos = some (r, st.pos + 1) := by simp [stepChar, hx]
    simp [m, hs, acc, hx]

/-- one unfolding of a character loop: it stops here, or (if allowed and the next rune is accepted)
    goes on from the next position -/
theorem iter_chr_succ (e : Env) (p : Pred) (lzy : Bool) (lo : Nat) (hi : Option Nat) (fuel cnt : Nat) (st : St) :
    iter (m e (.chr p) false) lzy lo hi (fuel + 1) cnt st =
      (if lzy = true then
        (if lo ≤ cnt then [st] else []) ++
          (if canGo hi cnt = true ∧ acc e p st.pos = true then
            iter (m e (.chr p) false) lzy lo hi fuel (cnt + 1) { st with pos := st.pos + 1 } else [])
      else
        (if canGo hi cnt = true ∧ acc e p st.pos = true then
            iter (m e (.chr p) false) lzy lo hi fuel (cnt + 1) { st with pos := st.pos + 1 } else []) ++
          (if lo ≤ cnt then [st] else [])) := by
  have hmore : (if canGo hi cnt = true then
        (m e (.chr p) false st).flatMap (fun st' =>
          if (st'.pos == st.pos && decide (lo ≤ cnt + 1)) = true then [st']
          else iter (m e (.chr p) false) lzy lo hi fuel (cnt + 1) st') else [])
      = (if canGo hi cnt = true ∧ acc e p st.pos = true then
            iter (m e (.chr p) false) lzy lo hi fuel (cnt + 1) { st with pos := st.pos + 1 } else []) := by
    by_cases hc : canGo hi cnt = true
    · by_cases ha : acc e p st.pos = true
      · simp [hc, ha, m_chr_ltr]
      · simp [hc, ha, m_chr_ltr]
    · simp [hc]
  simp only [iter, hmore]

/-- every success of a greedy character loop except the first has an accepted rune right after it
    (the loop could have gone on from there) -/
theorem charloop_tail_next (e : Env) (p : Pred) (lo : Nat) (hi : Option Nat) :
    ∀ (fuel cnt : Nat) (st : St),
      ∀ t ∈ (iter (m e (.chr p) false) false lo hi fuel cnt st).tail, acc e p t.pos = true := by
  intro fuel
  induction fuel with
  | zero =>
    intro cnt st t ht
    simp only [iter] at ht
    split at ht <;> simp at ht
  | succ fuel ih =>
    intro cnt st t ht
    rw [iter_chr_succ] at ht
    simp only [Bool.false_eq_true, if_false] at ht
    by_cases hc : canGo hi cnt = true ∧ acc e p st.pos = true
    · simp only [hc, and_self, if_true] at ht
      cases hm : iter (m e (.chr p) false) false lo hi fuel (cnt + 1) { st with pos := st.pos + 1 } with
      | nil =>
        rw [hm] at ht
        split at ht <;> simp at ht
      | cons x xs =>
        rw [hm] at ht
        simp only [List.cons_append, List.tail_cons, List.mem_append] at ht
        rcases ht with ht | ht
        · exact ih (cnt + 1) _ t (by rw [hm]; exact ht)
        · split at ht
          · simp at ht; subst ht; exact hc.2
          · simp at ht
    · simp only [hc, if_false, List.nil_append] at ht
      split at ht <;> simp at ht

/-- with a minimum of at least one iteration, every success of a character loop also has an
    accepted rune right before it -/
theorem charloop_all_prev (e : Env) (p : Pred) (lzy : Bool) (lo : Nat) (hi : Option Nat) (hlo : 1 ≤ lo) :
    ∀ (fuel cnt : Nat) (st : St), (1 ≤ cnt → prevAcc e p st.pos = true) →
      ∀ t ∈ iter (m e (.chr p) false) lzy lo hi fuel cnt st, prevAcc e p t.pos = true := by
  intro fuel
  induction fuel with
  | zero =>
    intro cnt st hst t ht
    simp only [iter] at ht
    split at ht
    · simp at ht; subst ht; exact hst (by omega)
    · simp at ht
  | succ fuel ih =>
    intro cnt st hst t ht
    rw [iter_chr_succ] at ht
    have hstop : t ∈ (if lo ≤ cnt then [st] else []) → prevAcc e p t.pos = true := by
      intro h
      split at h
      · simp at h; subst h; exact hst (by omega)
      · simp at h
    have hmore : t ∈ (if canGo hi cnt = true ∧ acc e p st.pos = true then
            iter (m e (.chr p) false) lzy lo hi fuel (cnt + 1) { st with pos := st.pos + 1 } else []) →
          prevAcc e p t.pos = true := by
      intro h
      split at h
      · rename_i hc
        refine ih (cnt + 1) _ ?_ t h
        intro _
        simp [prevAcc, hc.2]
      · simp at h
    split at ht
    · rw [List.mem_append] at ht; rcases ht with h | h
      · exact hstop h
      · exact hmore h
    · rw [List.mem_append] at ht; rcases ht with h | h
      · exact hmore h
      · exact hstop h

/-- a lazy character loop has the successes of the greedy one in the opposite order -/
theorem iter_chr_lazy_reverse (e : Env) (p : Pred) (lo : Nat) (hi : Option Nat) :
    ∀ (fuel cnt : Nat) (st : St),
      iter (m e (.chr p) false) true lo hi fuel cnt st
        = (iter (m e (.chr p) false) false lo hi fuel cnt st).reverse := by
  intro fuel
  induction fuel with
  | zero => intro cnt st; simp only [iter]; split <;> rfl
  | succ fuel ih =>
    intro cnt st
    rw [iter_chr_succ, iter_chr_succ]
    simp only [if_true, Bool.false_eq_true, if_false, List.reverse_append]
    have hs : (if lo ≤ cnt then [st] else []).reverse = (if lo ≤ cnt then [st] else []) := by
      split <;> rfl
    rw [hs]
    congr 1
    split
    · exact ih (cnt + 1) _
    · rfl

/-- **a greedy character loop is, modulo the positions where it could have gone on, atomic** -/
theorem charloop_eqMod_atomic (e : Env) (p : Pred) (lo : Nat) (hi : Option Nat) :
    EqMod e (acc e p) false (.quant false lo hi (.chr p)) (.atomic (.quant false lo hi (.chr p))) := by
  apply eqMod_atomic_of_tail_dead
  intro st t ht
  rw [m_quant] at ht
  exact charloop_tail_next e p lo hi _ 0 st t ht

/-- the same with the sharper dead set "between two accepted runes", for loops with `lo ≥ 1` -/
theorem charloop_eqMod_atomic_between (e : Env) (p : Pred) (lo : Nat) (hi : Option Nat) (hlo : 1 ≤ lo) :
    EqMod e (fun i => prevAcc e p i && acc e p i) false
      (.quant false lo hi (.chr p)) (.atomic (.quant false lo hi (.chr p))) := by
  apply eqMod_atomic_of_tail_dead
  intro st t ht
  rw [m_quant] at ht
  have h1 := charloop_tail_next e p lo hi _ 0 st t ht
  have h2 := charloop_all_prev e p false lo hi hlo _ 0 st (by omega) t (List.mem_of_mem_tail ht)
  simp [h1, h2]

/-- **a lazy character loop is, modulo the positions where it could have gone on, the atomic
    greedy loop** -/
theorem lazy_charloop_eqMod_atomic (e : Env) (p : Pred) (lo : Nat) (hi : Option Nat) :
    EqMod e (acc e p) false (.quant true lo hi (.chr p)) (.atomic (.quant false lo hi (.chr p))) := by
  intro st
  have h := charloop_eqMod_atomic e p lo hi st
  rw [m_atomic, m_quant] at h
  rw [m_atomic, m_quant, m_quant, iter_chr_lazy_reverse]
  simp only [live] at h ⊢
  rw [List.filter_reverse, h]
  cases iter (m e (.chr p) false) false lo hi (e.n + lo + 1) 0 st with
  | nil => rfl
  | cons x xs =>
    simp only [List.take_succ_cons, List.take_zero, List.filter_cons]
    split <;> rfl

/-! ## the successes of a character loop, explicitly -/

/-- length of the maximal run of runes accepted by `p` starting at `pos` -/
def runLen (e : Env) (p : Pred) (pos : Nat) : Nat := ((e.text.drop pos).takeWhile (p.test e)).length

theorem runLen_le (e : Env) (p : Pred) (pos : Nat) : runLen e p pos ≤ e.n - pos := by
  unfold runLen Env.n
  have := (List.takeWhile_sublist (p.test e) (l := e.text.drop pos)).length_le
  simpa using this

theorem runLen_of_acc {e : Env} {p : Pred} {pos : Nat} (h : acc e p pos = true) :
    runLen e p pos = runLen e p (pos + 1) + 1 := by
  unfold acc at h
  cases hx : e.text[pos]? with
  | none => rw [hx] at h; simp at h
  | some r =>
    rw [hx] at h
    simp only at h
    have hlt := (List.getElem?_eq_some_iff.mp hx).1
    have hget := (List.getElem?_eq_some_iff.mp hx).2
    unfold runLen
    rw [List.drop_eq_getElem_cons hlt, hget, List.takeWhile_cons, if_pos h]
    rfl

theorem runLen_of_not_acc {e : Env} {p : Pred} {pos : Nat} (h : acc e p pos = false) :
    runLen e p pos = 0 := by
  unfold acc at h
  unfold runLen
  cases hx : e.text[pos]? with
  | none =>
    have : e.text.length ≤ pos := by simpa using hx
    rw [List.drop_eq_nil_of_le this]; rfl
  | some r =>
    rw [hx] at h
    simp only at h
    have hlt := (List.getElem?_eq_some_iff.mp hx).1
    have hget := (List.getElem?_eq_some_iff.mp hx).2
    rw [List.drop_eq_getElem_cons hlt, hget, List.takeWhile_cons]
    simp [h]

theorem acc_of_runLen_pos {e : Env} {p : Pred} {pos : Nat} (h : 0 < runLen e p pos) : acc e p pos = true := by
  cases ha : acc e p pos
  · rw [runLen_of_not_acc ha] at h; omega
  · rfl

/-- inside the run the remaining run shrinks by the distance walked -/
theorem runLen_add (e : Env) (p : Pred) : ∀ (d pos : Nat), d ≤ runLen e p pos →
    runLen e p (pos + d) = runLen e p pos - d := by
  intro d
  induction d with
  | zero => intro pos _; simp
  | succ d ih =>
    intro pos h
    have ha : acc e p pos = true := acc_of_runLen_pos (by omega)
    have h1 := runLen_of_acc ha
    have := ih (pos + 1) (by omega)
    rw [show pos + (d + 1) = pos + 1 + d by omega, this]
    omega

/-- every position strictly inside the run holds an accepted rune -/
theorem acc_of_lt_runLen (e : Env) (p : Pred) (pos d : Nat) (h : d < runLen e p pos) : acc e p (pos + d) = true := by
  apply acc_of_runLen_pos
  rw [runLen_add e p d pos (by omega)]
  omega

/-- how many more iterations are possible: the run, cut by the upper bound -/
def capN (hi : Option Nat) (cnt R : Nat) : Nat :=
  match hi with
  | none => R
  | some h => min R (h - cnt)

theorem range_succ_reverse_map {β : Type} (n : Nat) (f : Nat → β) :
    (List.range (n + 1)).reverse.map f = (List.range n).reverse.map (fun j => f (j + 1)) ++ [f 0] := by
  rw [List.range_succ_eq_map]
  simp [List.map_reverse, Function.comp_def]

/-- **the successes of a greedy character loop with `cnt` iterations done**: the positions from
    the farthest reachable one down to the first one allowed by the lower bound, in this order,
    captures untouched.  (The fuel only has to exceed the run.) -/
theorem iter_chr_greedy (e : Env) (p : Pred) (lo : Nat) (hi : Option Nat) :
    ∀ (fuel cnt : Nat) (st : St), runLen e p st.pos < fuel →
      iter (m e (.chr p) false) false lo hi fuel cnt st =
        (List.range (capN hi cnt (runLen e p st.pos) + 1 - (lo - cnt))).reverse.map
          (fun j => { st with pos := st.pos + (lo - cnt) + j }) := by
  intro fuel
  induction fuel with
  | zero => intro cnt st h; omega
  | succ fuel ih =>
    intro cnt st hf
    rw [iter_chr_succ]
    simp only [Bool.false_eq_true, if_false]
    by_cases hc : canGo hi cnt = true ∧ acc e p st.pos = true
    · have hR := runLen_of_acc hc.2
      rw [if_pos hc, ih (cnt + 1) _ (by simp only; omega)]
      simp only
      have hK : capN hi cnt (runLen e p st.pos) = capN hi (cnt + 1) (runLen e p (st.pos + 1)) + 1 := by
        have h1 := hc.1
        unfold canGo at h1
        unfold capN
        cases hi with
        | none => simpa using hR
        | some h => simp at h1 ⊢; omega
      rw [hK]
      by_cases hlo : lo ≤ cnt
      · have e1 : lo - cnt = 0 := by omega
        have e2 : lo - (cnt + 1) = 0 := by omega
        rw [if_pos hlo, e1, e2, Nat.sub_zero, Nat.sub_zero]
        conv => rhs; rw [range_succ_reverse_map]
        congr 1
        apply List.map_congr_left
        intro j _
        congr 1; omega
      · have e1 : lo - cnt = (lo - (cnt + 1)) + 1 := by omega
        rw [if_neg hlo, List.append_nil, e1]
        have e3 : capN hi (cnt + 1) (runLen e p (st.pos + 1)) + 1 + 1 - (lo - (cnt + 1) + 1)
            = capN hi (cnt + 1) (runLen e p (st.pos + 1)) + 1 - (lo - (cnt + 1)) := by omega
        rw [e3]
        apply List.map_congr_left
        intro j _
        congr 1; omega
    · rw [if_neg hc, List.nil_append]
      have hK : capN hi cnt (runLen e p st.pos) = 0 := by
        by_cases ha : acc e p st.pos = true
        · have h1 : canGo hi cnt = false := by
            cases hcg : canGo hi cnt
            · rfl
            · exact absurd ⟨hcg, ha⟩ hc
          unfold canGo at h1
          unfold capN
          cases hi with
          | none => simp at h1
          | some h => simp at h1 ⊢; omega
        · have := runLen_of_not_acc (Bool.eq_false_iff.mpr ha)
          unfold capN
          cases hi with
          | none => simpa using this
          | some h => simp [this]
      rw [hK]
      by_cases hlo : lo ≤ cnt
      · have e1 : lo - cnt = 0 := by omega
        rw [if_pos hlo, e1]
        cases st; simp
      · rw [if_neg hlo]
        have : 0 + 1 - (lo - cnt) = 0 := by omega
        rw [this]; rfl

/-- **`charloop_successes`**: from `st`, the greedy loop `p{lo,hi}` succeeds exactly at the
    positions `st.pos + j` for `lo ≤ j ≤ min(run, hi)`, longest first, captures untouched -/
theorem charloop_successes (e : Env) (p : Pred) (lo : Nat) (hi : Option Nat) (st : St) :
    m e (.quant false lo hi (.chr p)) false st =
      (List.range (capN hi 0 (runLen e p st.pos) + 1 - lo)).reverse.map
        (fun j => { st with pos := st.pos + lo + j }) := by
  rw [m_quant, iter_chr_greedy e p lo hi _ 0 st (by have := runLen_le e p st.pos; omega)]
  simp

/-- the lazy loop: the same positions, shortest first -/
theorem lazy_charloop_successes (e : Env) (p : Pred) (lo : Nat) (hi : Option Nat) (st : St) :
    m e (.quant true lo hi (.chr p)) false st =
      (List.range (capN hi 0 (runLen e p st.pos) + 1 - lo)).map
        (fun j => { st with pos := st.pos + lo + j }) := by
  rw [m_quant, iter_chr_lazy_reverse, ← m_quant, charloop_successes]
  simp [List.map_reverse]

/-- membership form, either greediness -/
theorem mem_charloop (e : Env) (p : Pred) (lzy : Bool) (lo : Nat) (hi : Option Nat) (st t : St) :
    t ∈ m e (.quant lzy lo hi (.chr p)) false st ↔
      t.caps = st.caps ∧ st.pos + lo ≤ t.pos ∧ t.pos ≤ st.pos + capN hi 0 (runLen e p st.pos) := by
  have key : t ∈ (List.range (capN hi 0 (runLen e p st.pos) + 1 - lo)).map
        (fun j => ({ st with pos := st.pos + lo + j } : St)) ↔
      t.caps = st.caps ∧ st.pos + lo ≤ t.pos ∧ t.pos ≤ st.pos + capN hi 0 (runLen e p st.pos) := by
    simp only [List.mem_map, List.mem_range]
    constructor
    · rintro ⟨j, hj, rfl⟩
      simp only [true_and]
      omega
    · rintro ⟨h1, h2, h3⟩
      refine ⟨t.pos - (st.pos + lo), by omega, ?_⟩
      cases t
      simp only at h1 h2 h3 ⊢
      subst h1
      congr 1; omega
  cases lzy
  · rw [charloop_successes, List.map_reverse, List.mem_reverse]; exact key
  · rw [lazy_charloop_successes]; exact key

/-! ## continuations that fail at dead positions -/

/-- `k` has no success from a state at a dead position (left-to-right) -/
def Kills (e : Env) (D : Nat → Bool) (k : Pat) : Prop := ∀ st, D st.pos = true → m e k false st = []

/-- from a dead position `k` can only succeed without moving (so what follows `k` is again at a
    dead position): optional loops over something that fails there, anchors, lookarounds -/
def Stays (e : Env) (D : Nat → Bool) (k : Pat) : Prop :=
  ∀ st, D st.pos = true → ∀ t ∈ m e k false st, t.pos = st.pos

theorem Kills.stays {e : Env} {D : Nat → Bool} {k : Pat} (h : Kills e D k) : Stays e D k := by
  intro st hd t ht; rw [h st hd] at ht; simp at ht

theorem Kills.mono {e : Env} {D D' : Nat → Bool} {k : Pat} (hD : ∀ i, D' i = true → D i = true)
    (h : Kills e D k) : Kills e D' k := fun st hd => h st (hD _ hd)

/-- a character test disjoint from the loop's fails where the loop could have gone on -/
theorem kills_chr {e : Env} {p q : Pred} (h : ∀ r, p.test e r = true → q.test e r = false) :
    Kills e (acc e p) (.chr q) := by
  intro st hd
  rw [m_chr_ltr]
  have : acc e q st.pos = false := by
    unfold acc at hd ⊢
    cases hx : e.text[st.pos]? with
    | none => rfl
    | some r => rw [hx] at hd; exact h r hd
  simp [this]

theorem kills_nothing (e : Env) (D : Nat → Bool) : Kills e D .nothing := fun _ _ => by simp [m]

/-- `\z` fails wherever a rune follows -/
theorem kills_end (e : Env) (p : Pred) : Kills e (acc e p) (.anchor .end) := by
  intro st hd
  unfold acc at hd
  cases hx : e.text[st.pos]? with
  | none => rw [hx] at hd; simp at hd
  | some r =>
    have hlt := (List.getElem?_eq_some_iff.mp hx).1
    have : (st.pos == e.n) = false := by simp [Env.n]; omega
    simp [m, anchorHolds, this]

/-- `$` (multiline) fails in front of an accepted rune when the loop does not accept `'\n'` -/
theorem kills_eol {e : Env} {p : Pred} (hnl : p.test e 10 = false) : Kills e (acc e p) (.anchor .eol) := by
  intro st hd
  unfold acc at hd
  cases hx : e.text[st.pos]? with
  | none => rw [hx] at hd; simp at hd
  | some r =>
    rw [hx] at hd
    have hlt := (List.getElem?_eq_some_iff.mp hx).1
    have h1 : (st.pos == e.n) = false := by simp [Env.n]; omega
    have h2 : r ≠ 10 := by intro h; subst h; simp [hnl] at hd
    simp [m, anchorHolds, h1, hx, h2]

/-- `$` / `\Z` likewise -/
theorem kills_endz {e : Env} {p : Pred} (hnl : p.test e 10 = false) : Kills e (acc e p) (.anchor .endz) := by
  intro st hd
  unfold acc at hd
  cases hx : e.text[st.pos]? with
  | none => rw [hx] at hd; simp at hd
  | some r =>
    rw [hx] at hd
    have hlt := (List.getElem?_eq_some_iff.mp hx).1
    have h1 : (st.pos == e.n) = false := by simp [Env.n]; omega
    have h2 : r ≠ 10 := by intro h; subst h; simp [hnl] at hd
    simp [m, anchorHolds, h1, hx, h2]

/-- `\b` fails between two runes accepted by a loop over word characters only -/
theorem kills_boundary {e : Env} {p : Pred} (hw : ∀ r, p.test e r = true → e.isWord r = true) :
    Kills e (fun i => prevAcc e p i && acc e p i) (.anchor .boundary) := by
  intro st hd
  simp only [Bool.and_eq_true, prevAcc, bne_iff_ne, ne_eq] at hd
  obtain ⟨⟨h0, hp⟩, ha⟩ := hd
  unfold acc at hp ha
  cases hx : e.text[st.pos]? with
  | none => rw [hx] at ha; simp at ha
  | some r =>
    cases hy : e.text[st.pos - 1]? with
    | none => rw [hy] at hp; simp at hp
    | some q =>
      rw [hx] at ha; rw [hy] at hp
      simp [m, anchorHolds, h0, hx, hy, hw r ha, hw q hp]

/-- `\B` fails between … nothing of the kind: it fails right after an accepted *word* rune when
    the next rune is a *non-word* rune and vice versa; between two runes of the same kind it
    HOLDS.  (So there is no `kills_nonboundary` for loops over non-word characters — see the
    known finding KF2 in `Props/C05.lean`.) -/
theorem nonboundary_holds_between {e : Env} {p : Pred} (hw : ∀ r, p.test e r = true → e.isWord r = false)
    (st : St) (hd : (prevAcc e p st.pos && acc e p st.pos) = true) :
    m e (.anchor .nonboundary) false st = [st] := by
  simp only [Bool.and_eq_true, prevAcc, bne_iff_ne, ne_eq] at hd
  obtain ⟨⟨h0, hp⟩, ha⟩ := hd
  unfold acc at hp ha
  cases hx : e.text[st.pos]? with
  | none => rw [hx] at ha; simp at ha
  | some r =>
    cases hy : e.text[st.pos - 1]? with
    | none => rw [hy] at hp; simp at hp
    | some q =>
      rw [hx] at ha; rw [hy] at hp
      simp [m, anchorHolds, h0, hx, hy, hw r ha, hw q hp]

theorem kills_seq_first {e : Env} {D : Nat → Bool} {k1 : Pat} (k2 : Pat) (h : Kills e D k1) :
    Kills e D (.seq k1 k2) := by
  intro st hd
  simp [m, h st hd]

/-- a nullable first factor that cannot move at a dead position hands the dead position on -/
theorem kills_seq_stays {e : Env} {D : Nat → Bool} {k1 k2 : Pat} (h1 : Stays e D k1) (h2 : Kills e D k2) :
    Kills e D (.seq k1 k2) := by
  intro st hd
  simp only [m, Bool.false_eq_true, if_false, List.flatMap_eq_nil_iff]
  intro t ht
  exact h2 t (by rw [h1 st hd t ht]; exact hd)

theorem kills_alt {e : Env} {D : Nat → Bool} {k1 k2 : Pat} (h1 : Kills e D k1) (h2 : Kills e D k2) :
    Kills e D (.alt k1 k2) := by
  intro st hd; simp [m, h1 st hd, h2 st hd]

theorem kills_cap {e : Env} {D : Nat → Bool} {k : Pat} (g : Nat) (h : Kills e D k) : Kills e D (.cap g k) := by
  intro st hd; simp [m, h st hd]

theorem kills_atomic {e : Env} {D : Nat → Bool} {k : Pat} (h : Kills e D k) : Kills e D (.atomic k) := by
  intro st hd; simp [m, h st hd]

/-- a positive lookahead whose body fails -/
theorem kills_lookahead {e : Env} {D : Nat → Bool} {k : Pat} (h : Kills e D k) :
    Kills e D (.look false false k) := by
  intro st hd; simp [m, h st hd]

theorem kills_refCond {e : Env} {D : Nat → Bool} {k1 k2 : Pat} (g : Nat) (h1 : Kills e D k1) (h2 : Kills e D k2) :
    Kills e D (.refCond g k1 k2) := by
  intro st hd; simp only [m]; split
  · exact h1 st hd
  · exact h2 st hd

/-- a loop with at least one mandatory iteration of a body that fails -/
theorem kills_quant {e : Env} {D : Nat → Bool} {k : Pat} (lzy : Bool) {lo : Nat} (hi : Option Nat)
    (hlo : 1 ≤ lo) (h : Kills e D k) : Kills e D (.quant lzy lo hi k) := by
  intro st hd
  rw [m_quant]
  have hlo' : ¬ lo ≤ 0 := by omega
  cases lzy <;> simp [iter, h st hd, hlo']

/-- an optional loop of a body that fails succeeds only by doing nothing -/
theorem stays_quant {e : Env} {D : Nat → Bool} {k : Pat} (lzy : Bool) (lo : Nat) (hi : Option Nat)
    (h : Kills e D k) : Stays e D (.quant lzy lo hi k) := by
  intro st hd t ht
  rw [m_quant] at ht
  cases lzy <;> simp [iter, h st hd] at ht <;> rw [ht.2]

theorem stays_empty (e : Env) (D : Nat → Bool) : Stays e D .empty := by
  intro st _ t ht; simp [m] at ht; rw [ht]

theorem stays_anchor (e : Env) (D : Nat → Bool) (a : Anchor) : Stays e D (.anchor a) := by
  intro st _ t ht
  simp only [m] at ht
  split at ht
  · simp at ht; rw [ht]
  · simp at ht

theorem stays_look (e : Env) (D : Nat → Bool) (behind neg : Bool) (k : Pat) : Stays e D (.look behind neg k) := by
  intro st _ t ht
  simp only [m] at ht
  split at ht
  · split at ht
    · simp at ht; rw [ht]
    · simp at ht
  · split at ht
    · simp at ht
    · simp at ht; rw [ht]

theorem stays_seq {e : Env} {D : Nat → Bool} {k1 k2 : Pat} (h1 : Stays e D k1) (h2 : Stays e D k2) :
    Stays e D (.seq k1 k2) := by
  intro st hd t ht
  simp only [m, Bool.false_eq_true, if_false, List.mem_flatMap] at ht
  obtain ⟨y, hy, hty⟩ := ht
  have e1 := h1 st hd y hy
  have e2 := h2 y (by rw [e1]; exact hd) t hty
  omega

theorem stays_alt {e : Env} {D : Nat → Bool} {k1 k2 : Pat} (h1 : Stays e D k1) (h2 : Stays e D k2) :
    Stays e D (.alt k1 k2) := by
  intro st hd t ht
  simp only [m, List.mem_append] at ht
  rcases ht with ht | ht
  · exact h1 st hd t ht
  · exact h2 st hd t ht

theorem stays_cap {e : Env} {D : Nat → Bool} {k : Pat} (g : Nat) (h : Stays e D k) : Stays e D (.cap g k) := by
  intro st hd t ht
  simp only [m, List.mem_map] at ht
  obtain ⟨y, hy, rfl⟩ := ht
  exact h st hd y hy

theorem stays_atomic {e : Env} {D : Nat → Bool} {k : Pat} (h : Stays e D k) : Stays e D (.atomic k) := by
  intro st hd t ht
  rw [m_atomic] at ht
  exact h st hd t (List.mem_of_mem_take ht)

/-! ## descending into the body of a loop (`(?:x a*)+ k  ⇒  (?:x (?>a*))+ k`) -/

/-- if the bodies agree modulo dead positions and both fail *at* dead positions (the next
    iteration cannot start there), the loops agree modulo dead positions -/
theorem iter_eqMod {D : Nat → Bool} (f g : St → List St)
    (hfg : ∀ st, live D (f st) = live D (g st))
    (hf : ∀ st, D st.pos = true → f st = []) (hg : ∀ st, D st.pos = true → g st = [])
    (lzy : Bool) (lo : Nat) (hi : Option Nat) :
    ∀ (fuel cnt : Nat) (st : St),
      live D (iter f lzy lo hi fuel cnt st) = live D (iter g lzy lo hi fuel cnt st) := by
  -- from a dead state a loop yields at most that (dead) state
  have dead_iter : ∀ (h : St → List St), (∀ st, D st.pos = true → h st = []) →
      ∀ (fuel cnt : Nat) (st : St), D st.pos = true → live D (iter h lzy lo hi fuel cnt st) = [] := by
    intro h hh fuel cnt st hd
    have hstop : live D (if lo ≤ cnt then [st] else []) = [] := by
      split <;> simp [live, hd]
    cases fuel with
    | zero => simpa only [iter] using hstop
    | succ fuel =>
      simp only [iter, hh st hd, List.flatMap_nil, ite_self]
      cases lzy
      · simpa using hstop
      · simpa using hstop
  intro fuel
  induction fuel with
  | zero => intro cnt st; rfl
  | succ fuel ih =>
    intro cnt st
    have hmore : ∀ (h h' : St → List St), (∀ st, D st.pos = true → h st = []) →
        (∀ st, D st.pos = true → h' st = []) → live D (h st) = live D (h' st) →
        (∀ cnt st, live D (iter h lzy lo hi fuel cnt st) = live D (iter h' lzy lo hi fuel cnt st)) →
        live D ((h st).flatMap (fun st' =>
            if (st'.pos == st.pos && decide (lo ≤ cnt + 1)) = true then [st']
            else iter h lzy lo hi fuel (cnt + 1) st'))
          = (live D (h st)).flatMap (fun st' =>
            live D (if (st'.pos == st.pos && decide (lo ≤ cnt + 1)) = true then [st']
              else iter h' lzy lo hi fuel (cnt + 1) st')) := by
      intro h h' hh hh' _ hih
      unfold live
      rw [filter_flatMap', flatMap_filter_of_dead]
      · congr 1
        funext st'
        split
        · rfl
        · exact hih (cnt + 1) st'
      · intro st' hst'
        have hd : D st'.pos = true := by simpa using hst'
        split
        · simp [hd]
        · exact dead_iter h' hh' fuel (cnt + 1) st' hd
    have e1 := hmore f g hf hg (hfg st) ih
    have e2 := hmore g g hg hg rfl (fun _ _ => rfl)
    have hm : live D (if canGo hi cnt = true then (f st).flatMap (fun st' =>
            if (st'.pos == st.pos && decide (lo ≤ cnt + 1)) = true then [st']
            else iter f lzy lo hi fuel (cnt + 1) st') else [])
        = live D (if canGo hi cnt = true then (g st).flatMap (fun st' =>
            if (st'.pos == st.pos && decide (lo ≤ cnt + 1)) = true then [st']
            else iter g lzy lo hi fuel (cnt + 1) st') else []) := by
      split
      · rw [e1, e2, hfg st]
      · rfl
    simp only [iter]
    cases lzy
    · simp only [Bool.false_eq_true, if_false]
      unfold live at hm ⊢
      rw [List.filter_append, List.filter_append, hm]
    · simp only [if_true]
      unfold live at hm ⊢
      rw [List.filter_append, List.filter_append, hm]

theorem EqMod.quant {e : Env} {D : Nat → Bool} {b b' : Pat} (lzy : Bool) (lo : Nat) (hi : Option Nat)
    (h : EqMod e D false b b') (hb : Kills e D b) (hb' : Kills e D b') :
    EqMod e D false (.quant lzy lo hi b) (.quant lzy lo hi b') := by
  intro st
  rw [m_quant, m_quant]
  exact iter_eqMod _ _ h hb hb' lzy lo hi _ 0 st

/-! ## patterns with at most one success -/

/-- `x` never has more than one success (direction `rtl`): nothing to backtrack into -/
def AtMostOne (e : Env) (rtl : Bool) (x : Pat) : Prop := ∀ st, (m e x rtl st).length ≤ 1

theorem atMostOne_empty (e : Env) (rtl : Bool) : AtMostOne e rtl .empty := fun _ => by simp [m]
theorem atMostOne_nothing (e : Env) (rtl : Bool) : AtMostOne e rtl .nothing := fun _ => by simp [m]

theorem atMostOne_chr (e : Env) (rtl : Bool) (p : Pred) : AtMostOne e rtl (.chr p) := by
  intro st
  simp only [m]
  split
  · split <;> simp
  · simp

theorem atMostOne_anchor (e : Env) (rtl : Bool) (a : Anchor) : AtMostOne e rtl (.anchor a) := by
  intro st; simp only [m]; split <;> simp

theorem atMostOne_ref (e : Env) (rtl : Bool) (g : Nat) (ci : Bool) : AtMostOne e rtl (.ref g ci) := by
  intro st
  simp only [m]
  split
  · simp
  · split <;> simp

theorem atMostOne_atomic (e : Env) (rtl : Bool) (x : Pat) : AtMostOne e rtl (.atomic x) := by
  intro st; rw [m_atomic]; simp only [List.length_take]; omega

theorem atMostOne_look (e : Env) (rtl : Bool) (behind neg : Bool) (x : Pat) :
    AtMostOne e rtl (.look behind neg x) := by
  intro st
  simp only [m]
  split <;> split <;> simp

theorem length_flatMap_le_one {α β : Type} (l : List α) (f : α → List β) (hl : l.length ≤ 1)
    (hf : ∀ x ∈ l, (f x).length ≤ 1) : (l.flatMap f).length ≤ 1 := by
  match l, hl with
  | [], _ => simp
  | [x], _ => simpa using hf x (by simp)

theorem atMostOne_seq {e : Env} {rtl : Bool} {a b : Pat} (ha : AtMostOne e rtl a) (hb : AtMostOne e rtl b) :
    AtMostOne e rtl (.seq a b) := by
  intro st
  simp only [m]
  split
  · exact length_flatMap_le_one _ _ (hb st) (fun y _ => ha y)
  · exact length_flatMap_le_one _ _ (ha st) (fun y _ => hb y)

theorem atMostOne_cap {e : Env} {rtl : Bool} {a : Pat} (g : Nat) (ha : AtMostOne e rtl a) :
    AtMostOne e rtl (.cap g a) := by
  intro st; simp only [m, List.length_map]; exact ha st

/-- a repeater `x{n}` of a body with at most one success -/
theorem atMostOne_quant_fixed {e : Env} {rtl : Bool} {a : Pat} (lzy : Bool) (n : Nat) (ha : AtMostOne e rtl a) :
    AtMostOne e rtl (.quant lzy n (some n) a) := by
  intro st
  rw [m_quant]
  suffices h : ∀ (fuel cnt : Nat) (st : St), (iter (m e a rtl) lzy n (some n) fuel cnt st).length ≤ 1 from h _ 0 st
  intro fuel
  induction fuel with
  | zero => intro cnt st; simp only [iter]; split <;> simp
  | succ fuel ih =>
    intro cnt st
    simp only [iter]
    by_cases hc : n ≤ cnt
    · have : canGo (some n) cnt = false := by simp [canGo]; omega
      cases lzy <;> simp [this, hc]
    · have : canGo (some n) cnt = true := by simp [canGo]; omega
      have hm : ((m e a rtl st).flatMap (fun st' =>
          if (st'.pos == st.pos && decide (n ≤ cnt + 1)) = true then [st']
          else iter (m e a rtl) lzy n (some n) fuel (cnt + 1) st')).length ≤ 1 := by
        apply length_flatMap_le_one _ _ (ha st)
        intro y _
        split
        · simp
        · exact ih (cnt + 1) y
      cases lzy <;> simpa [this, hc] using hm

/-! ## alternation: prefix factoring, n-ary form, exclusive branches -/

theorem seq_empty_right (e : Env) (a : Pat) (rtl : Bool) (st : St) : m e (.seq a .empty) rtl st = m e a rtl st := by
  cases rtl <;> simp [m]

theorem seq_empty_left (e : Env) (a : Pat) (rtl : Bool) (st : St) : m e (.seq .empty a) rtl st = m e a rtl st := by
  cases rtl <;> simp [m]

theorem flatMap_append_of_length_le_one {α β : Type} (l : List α) (hl : l.length ≤ 1) (f g : α → List β) :
    l.flatMap f ++ l.flatMap g = l.flatMap (fun x => f x ++ g x) := by
  match l, hl with
  | [], _ => rfl
  | [x], _ => simp

/-- n-ary alternation: the right nesting of the binary one -/
def altOf : List Pat → Pat
  | [] => .nothing
  | [a] => a
  | a :: b :: rest => .alt a (altOf (b :: rest))

/-- n-ary concatenation -/
def seqOf : List Pat → Pat
  | [] => .empty
  | [a] => a
  | a :: b :: rest => .seq a (seqOf (b :: rest))

theorem m_altOf (e : Env) (rtl : Bool) (st : St) : ∀ (l : List Pat),
    m e (altOf l) rtl st = l.flatMap (fun a => m e a rtl st)
  | [] => by simp [altOf, m]
  | [a] => by simp [altOf]
  | a :: b :: rest => by
    have := m_altOf e rtl st (b :: rest)
    simp only [altOf, m, this, List.flatMap_cons]

/-- a literal string (a Multi node) has at most one success -/
theorem atMostOne_seqOf {e : Env} {rtl : Bool} : ∀ (l : List Pat), (∀ a ∈ l, AtMostOne e rtl a) → AtMostOne e rtl (seqOf l)
  | [], _ => atMostOne_empty e rtl
  | [a], h => h a (by simp)
  | a :: b :: rest, h =>
    atMostOne_seq (h a (by simp)) (atMostOne_seqOf (b :: rest) (fun x hx => h x (by simp [hx])))

/-- two branches that never both succeed from the same state -/
def Exclusive (e : Env) (rtl : Bool) (a b : Pat) : Prop := ∀ st, m e a rtl st = [] ∨ m e b rtl st = []

theorem Exclusive.symm {e : Env} {rtl : Bool} {a b : Pat} (h : Exclusive e rtl a b) : Exclusive e rtl b a :=
  fun st => (h st).symm

/-- branches that begin (left-to-right) with different literal runes are exclusive -/
theorem exclusive_of_first_rune (e : Env) {c d : Nat} (hcd : c ≠ d) (a b : Pat) :
    Exclusive e false (.seq (.chr (.one c false)) a) (.seq (.chr (.one d false)) b) := by
  intro st
  simp only [m, Bool.false_eq_true, if_false]
  cases hs : stepChar e false st.pos with
  | none => left; simp
  | some x =>
    obtain ⟨r, pos'⟩ := x
    by_cases h : c = r
    · right
      have : ¬ d = r := by omega
      simp [Pred.test, this]
    · left
      simp [Pred.test, h]

/-- … also when one or both branches are the bare rune -/
theorem exclusive_of_first_rune_bare (e : Env) {c d : Nat} (hcd : c ≠ d) :
    Exclusive e false (.chr (.one c false)) (.chr (.one d false)) := by
  intro st
  simp only [m]
  cases hs : stepChar e false st.pos with
  | none => left; rfl
  | some x =>
    obtain ⟨r, pos'⟩ := x
    by_cases h : c = r
    · right
      have : ¬ d = r := by omega
      simp [Pred.test, this]
    · left
      simp [Pred.test, h]

/-! ## the bump-along shortcut: a leading unbounded character loop -/

/-- starting inside the run, an unbounded character loop reaches only states it also reaches from
    the start of the run (either greediness) -/
theorem charloop_subset_within_run (e : Env) (p : Pred) (lzy : Bool) (lo : Nat) (i j : Nat)
    (caps : List (Nat × Nat × Nat)) (hij : i ≤ j) (hj : j ≤ i + runLen e p i) :
    ∀ t ∈ m e (.quant lzy lo none (.chr p)) false ⟨j, caps⟩,
      t ∈ m e (.quant lzy lo none (.chr p)) false ⟨i, caps⟩ := by
  intro t ht
  rw [mem_charloop] at ht ⊢
  have hr := runLen_add e p (j - i) i (by omega)
  rw [show i + (j - i) = j by omega] at hr
  simp only [capN] at ht ⊢
  refine ⟨ht.1, ?_, ?_⟩ <;> omega

/-- greedy: the successes from inside the run are an initial segment of those from its start -/
theorem charloop_prefix_within_run (e : Env) (p : Pred) (lo : Nat) (i j : Nat)
    (caps : List (Nat × Nat × Nat)) (hij : i ≤ j) (hj : j ≤ i + runLen e p i) :
    m e (.quant false lo none (.chr p)) false ⟨j, caps⟩
      <+: m e (.quant false lo none (.chr p)) false ⟨i, caps⟩ := by
  rw [charloop_successes, charloop_successes]
  have hr := runLen_add e p (j - i) i (by omega)
  rw [show i + (j - i) = j by omega] at hr
  simp only [capN, hr]
  by_cases hN : runLen e p i - (j - i) + 1 - lo = 0
  · rw [hN]; exact List.nil_prefix
  · have hsplit : runLen e p i + 1 - lo = (j - i) + (runLen e p i - (j - i) + 1 - lo) := by omega
    rw [hsplit, List.range_add, List.reverse_append, List.map_append]
    have hfirst : (List.map (fun x => j - i + x) (List.range (runLen e p i - (j - i) + 1 - lo))).reverse.map
          (fun x => ({ pos := i + lo + x, caps := caps } : St))
        = (List.range (runLen e p i - (j - i) + 1 - lo)).reverse.map
          (fun x => ({ pos := j + lo + x, caps := caps } : St)) := by
      rw [← List.map_reverse, List.map_map]
      apply List.map_congr_left
      intro x _
      simp only [Function.comp]
      congr 1; omega
    rw [hfirst]
    exact List.prefix_append _ _

/-- the positions in front of which a leading loop `L` may sit so that its bump-along marker is
    sound: first factor of (nested) concatenations and, when `allowAtomic`, inside atomic groups -/
inductive Front (L : Pat) (allowAtomic : Bool) : Pat → Prop
  | here : Front L allowAtomic L
  | seq {F : Pat} (k : Pat) : Front L allowAtomic F → Front L allowAtomic (.seq F k)
  | atomic {F : Pat} : allowAtomic = true → Front L allowAtomic F → Front L allowAtomic (.atomic F)

theorem prefix_flatMap {α β : Type} {l1 l2 : List α} (f : α → List β) (h : l1 <+: l2) :
    l1.flatMap f <+: l2.flatMap f := by
  obtain ⟨t, rfl⟩ := h
  rw [List.flatMap_append]; exact List.prefix_append _ _

theorem prefix_take_one {α : Type} {l1 l2 : List α} (h : l1 <+: l2) : l1.take 1 <+: l2.take 1 := by
  obtain ⟨t, rfl⟩ := h
  cases l1 with
  | nil => exact List.nil_prefix
  | cons x xs => simp

theorem eq_nil_of_prefix_nil {α : Type} {l1 l2 : List α} (h : l1 <+: l2) (h2 : l2 = []) : l1 = [] := by
  subst h2; exact List.prefix_nil.mp h

/-- greedy leading loop, any front context: prefix of successes -/
theorem front_prefix_within_run (e : Env) (p : Pred) (lo : Nat) (i j : Nat)
    (caps : List (Nat × Nat × Nat)) (hij : i ≤ j) (hj : j ≤ i + runLen e p i)
    {a : Bool} {F : Pat} (hF : Front (.quant false lo none (.chr p)) a F) :
    m e F false ⟨j, caps⟩ <+: m e F false ⟨i, caps⟩ := by
  induction hF with
  | here => exact charloop_prefix_within_run e p lo i j caps hij hj
  | seq k _ ih =>
    simp only [m, Bool.false_eq_true, if_false]
    exact prefix_flatMap _ ih
  | atomic _ _ ih =>
    rw [m_atomic, m_atomic]
    exact prefix_take_one ih

/-- either greediness, concatenation contexts only: subset of successes -/
theorem front_subset_within_run (e : Env) (p : Pred) (lzy : Bool) (lo : Nat) (i j : Nat)
    (caps : List (Nat × Nat × Nat)) (hij : i ≤ j) (hj : j ≤ i + runLen e p i)
    {F : Pat} (hF : Front (.quant lzy lo none (.chr p)) false F) :
    ∀ t ∈ m e F false ⟨j, caps⟩, t ∈ m e F false ⟨i, caps⟩ := by
  induction hF with
  | here => exact charloop_subset_within_run e p lzy lo i j caps hij hj
  | seq k _ ih =>
    intro t ht
    simp only [m, Bool.false_eq_true, if_false, List.mem_flatMap] at ht ⊢
    obtain ⟨y, hy, hty⟩ := ht
    exact ⟨y, ih y hy, hty⟩
  | atomic ha _ _ => cases ha

/-! ## loops in tail position whose body ends in a loop (`(?:abc*)*  ⇒  (?:ab(?>c*))*`) -/

/-- `l'` is `l` with some elements at dead positions removed -/
inductive DeadSub (D : Nat → Bool) : List St → List St → Prop
  | nil : DeadSub D [] []
  | keep (x : St) {l' l : List St} : DeadSub D l' l → DeadSub D (x :: l') (x :: l)
  | drop {x : St} {l' l : List St} : D x.pos = true → DeadSub D l' l → DeadSub D l' (x :: l)

theorem DeadSub.refl (D : Nat → Bool) : ∀ (l : List St), DeadSub D l l
  | [] => .nil
  | x :: xs => .keep x (DeadSub.refl D xs)

theorem DeadSub.append {D : Nat → Bool} {a' a b' b : List St} (h1 : DeadSub D a' a) (h2 : DeadSub D b' b) :
    DeadSub D (a' ++ b') (a ++ b) := by
  induction h1 with
  | nil => exact h2
  | keep x _ ih => exact .keep x ih
  | drop hx _ ih => exact .drop hx ih

theorem DeadSub.flatMap {D : Nat → Bool} {α : Type} (l : List α) (f' f : α → List St)
    (h : ∀ x ∈ l, DeadSub D (f' x) (f x)) : DeadSub D (l.flatMap f') (l.flatMap f) := by
  induction l with
  | nil => exact .nil
  | cons x xs ih =>
    simp only [List.flatMap_cons]
    exact (h x (by simp)).append (ih (fun y hy => h y (by simp [hy])))

theorem DeadSub.map {D : Nat → Bool} (φ : St → St) (hφ : ∀ s, (φ s).pos = s.pos) {l' l : List St}
    (h : DeadSub D l' l) : DeadSub D (l'.map φ) (l.map φ) := by
  induction h with
  | nil => exact .nil
  | keep x _ ih => exact .keep _ ih
  | drop hx _ ih => exact .drop (by rw [hφ]; exact hx) ih

theorem DeadSub.take_one {D : Nat → Bool} (l : List St) (h : ∀ t ∈ l.tail, D t.pos = true) :
    DeadSub D (l.take 1) l := by
  cases l with
  | nil => exact .nil
  | cons x xs =>
    simp only [List.tail_cons] at h
    simp only [List.take_succ_cons, List.take_zero]
    refine .keep x ?_
    induction xs with
    | nil => exact .nil
    | cons y ys ih => exact .drop (h y (by simp)) (ih (fun t ht => h t (by simp [ht])))

theorem DeadSub.mono {D D' : Nat → Bool} (hD : ∀ i, D i = true → D' i = true) {l' l : List St}
    (h : DeadSub D l' l) : DeadSub D' l' l := by
  induction h with
  | nil => exact .nil
  | keep x _ ih => exact .keep x ih
  | drop hx _ ih => exact .drop (hD _ hx) ih

/-- a continuation that fails at dead positions cannot tell the two lists apart -/
theorem DeadSub.flatMap_eq {D : Nat → Bool} {β : Type} (F : St → List β) (hF : ∀ s, D s.pos = true → F s = [])
    {l' l : List St} (h : DeadSub D l' l) : l.flatMap F = l'.flatMap F := by
  induction h with
  | nil => rfl
  | keep x _ ih => simp only [List.flatMap_cons, ih]
  | drop hx _ ih => simp only [List.flatMap_cons, hF _ hx, List.nil_append, ih]

theorem head?_flatMap_of_ne_nil {α β : Type} (l : List α) (F : α → List β) (hF : ∀ x ∈ l, F x ≠ []) :
    (l.flatMap F).head? = l.head?.bind (fun x => (F x).head?) := by
  cases l with
  | nil => rfl
  | cons x xs =>
    simp only [List.flatMap_cons, List.head?_cons, Option.bind_some]
    cases hx : F x with
    | nil => exact absurd hx (hF x (by simp))
    | cons y ys => rfl

/-- **a loop in tail position**: if the bodies have the same first success, the second body's
    successes are the first's minus some at dead positions, and the first body fails at dead
    positions, then the loops have the same first success -/
theorem iter_head_prune {D : Nat → Bool} (f g : St → List St)
    (hhead : ∀ st, (f st).head? = (g st).head?) (hsub : ∀ st, DeadSub D (g st) (f st))
    (hf : ∀ st, D st.pos = true → f st = [])
    (lzy : Bool) (lo : Nat) (hi : Option Nat) :
    ∀ (fuel cnt : Nat) (st : St),
      (iter f lzy lo hi fuel cnt st).head? = (iter g lzy lo hi fuel cnt st).head? := by
  -- once the lower bound is met a loop always has a success
  have ne_nil : ∀ (h : St → List St) (fuel cnt : Nat) (st : St), lo ≤ cnt → iter h lzy lo hi fuel cnt st ≠ [] := by
    intro h fuel cnt st hlo
    cases fuel with
    | zero => simp [iter, hlo]
    | succ fuel => cases lzy <;> simp [iter, hlo]
  -- below the lower bound a loop has no success from a dead state
  have dead_nil : ∀ (h : St → List St), (∀ st, D st.pos = true → h st = []) →
      ∀ (fuel cnt : Nat) (st : St), ¬ lo ≤ cnt → D st.pos = true → iter h lzy lo hi fuel cnt st = [] := by
    intro h hh fuel cnt st hlo hd
    cases fuel with
    | zero => simp [iter, hlo]
    | succ fuel => cases lzy <;> simp [iter, hlo, hh st hd]
  intro fuel
  induction fuel with
  | zero => intro cnt st; rfl
  | succ fuel ih =>
    intro cnt st
    have hmore : ((f st).flatMap (fun st' =>
            if (st'.pos == st.pos && decide (lo ≤ cnt + 1)) = true then [st']
            else iter f lzy lo hi fuel (cnt + 1) st')).head?
        = ((g st).flatMap (fun st' =>
            if (st'.pos == st.pos && decide (lo ≤ cnt + 1)) = true then [st']
            else iter g lzy lo hi fuel (cnt + 1) st')).head? := by
      have hpt : ∀ y, (if (y.pos == st.pos && decide (lo ≤ cnt + 1)) = true then [y]
            else iter f lzy lo hi fuel (cnt + 1) y).head?
          = (if (y.pos == st.pos && decide (lo ≤ cnt + 1)) = true then [y]
            else iter g lzy lo hi fuel (cnt + 1) y).head? := by
        intro y; split
        · rfl
        · exact ih (cnt + 1) y
      by_cases hlo : lo ≤ cnt + 1
      · rw [head?_flatMap_of_ne_nil, head?_flatMap_of_ne_nil, hhead st]
        · cases (g st).head? with
          | none => rfl
          | some y => exact hpt y
        · intro y _; split
          · simp
          · exact ne_nil g fuel (cnt + 1) y hlo
        · intro y _; split
          · simp
          · exact ne_nil f fuel (cnt + 1) y hlo
      · rw [DeadSub.flatMap_eq _ _ (hsub st)]
        · exact head?_flatMap_congr _ _ _ (fun y _ => hpt y)
        · intro y hy
          have : (y.pos == st.pos && decide (lo ≤ cnt + 1)) = false := by simp [hlo]
          rw [this]
          exact dead_nil f hf fuel (cnt + 1) y hlo hy
    have hm : (if canGo hi cnt = true then (f st).flatMap (fun st' =>
            if (st'.pos == st.pos && decide (lo ≤ cnt + 1)) = true then [st']
            else iter f lzy lo hi fuel (cnt + 1) st') else []).head?
        = (if canGo hi cnt = true then (g st).flatMap (fun st' =>
            if (st'.pos == st.pos && decide (lo ≤ cnt + 1)) = true then [st']
            else iter g lzy lo hi fuel (cnt + 1) st') else []).head? := by
      split
      · exact hmore
      · rfl
    simp only [iter]
    cases lzy
    · simp only [Bool.false_eq_true, if_false]; exact head?_append_congr hm rfl
    · simp only [if_true]; exact head?_append_congr rfl hm

/-- `b'` is `b` with successes at dead positions pruned, the first success kept -/
def Prunes (e : Env) (D : Nat → Bool) (b b' : Pat) : Prop :=
  HeadEq e false b b' ∧ ∀ st, DeadSub D (m e b' false st) (m e b false st)

theorem Prunes.refl (e : Env) (D : Nat → Bool) (b : Pat) : Prunes e D b b :=
  ⟨HeadEq.refl e false b, fun _ => DeadSub.refl D _⟩

/-- a greedy character loop made atomic -/
theorem prunes_charloop (e : Env) (p : Pred) (lo : Nat) (hi : Option Nat) :
    Prunes e (acc e p) (.quant false lo hi (.chr p)) (.atomic (.quant false lo hi (.chr p))) := by
  refine ⟨headEq_atomic e false _, fun st => ?_⟩
  rw [m_atomic]
  apply DeadSub.take_one
  intro t ht
  rw [m_quant] at ht
  exact charloop_tail_next e p lo hi _ 0 st t ht

theorem Prunes.mono {e : Env} {D D' : Nat → Bool} {b b' : Pat} (hD : ∀ i, D i = true → D' i = true)
    (h : Prunes e D b b') : Prunes e D' b b' := by
  exact ⟨h.1, fun st => (h.2 st).mono hD⟩

theorem Prunes.seq_last {e : Env} {D : Nat → Bool} {x x' : Pat} (a : Pat) (h : Prunes e D x x') :
    Prunes e D (.seq a x) (.seq a x') := by
  refine ⟨headEq_seq_ltr a h.1, fun st => ?_⟩
  simp only [m, Bool.false_eq_true, if_false]
  exact DeadSub.flatMap _ _ _ (fun y _ => h.2 y)

theorem Prunes.cap {e : Env} {D : Nat → Bool} {x x' : Pat} (g : Nat) (h : Prunes e D x x') :
    Prunes e D (.cap g x) (.cap g x') := by
  refine ⟨headEq_cap g h.1, fun st => ?_⟩
  simp only [m]
  exact DeadSub.map
    (fun st' => ({ st' with caps := st'.caps ++ [(g, min st.pos st'.pos, max st.pos st'.pos - min st.pos st'.pos)] } : St))
    (fun _ => rfl) (h.2 st)

/-- `(?:x L)*` in tail position: the trailing loop `L` of the body may be made atomic when the
    body cannot start where `L` gives back -/
theorem headEq_quant_prune {e : Env} {D : Nat → Bool} {b b' : Pat} (lzy : Bool) (lo : Nat) (hi : Option Nat)
    (h : Prunes e D b b') (hb : Kills e D b) :
    HeadEq e false (.quant lzy lo hi b) (.quant lzy lo hi b') := by
  intro st
  rw [m_quant, m_quant]
  exact iter_head_prune _ _ h.1 h.2 hb lzy lo hi _ 0 st

/-! ## scan level -/

theorem mem_take_drop_range {a d N x : Nat} (h : x ∈ ((List.range N).drop a).take d) : a ≤ x ∧ x < a + d := by
  obtain ⟨k, hk, hx⟩ := List.getElem_of_mem h
  simp only [List.getElem_take, List.getElem_drop, List.getElem_range] at hx
  simp only [List.length_take, List.length_drop, List.length_range] at hk
  omega

/-- skipping start positions at which the attempt is known to fail does not change `find` -/
theorem find_skip (e : Env) (p : Pat) (i s : Nat) (his : i < s)
    (hfail : ∀ j, i < j → j < s → attempt e p false j = none) :
    find e p false (i + 1) = find e p false s := by
  unfold find scanOrder
  simp only [Bool.false_eq_true, if_false]
  have hsplit : (List.range (e.n + 1)).drop (i + 1)
      = (((List.range (e.n + 1)).drop (i + 1)).take (s - (i + 1))) ++ (List.range (e.n + 1)).drop s := by
    conv => lhs; rw [← List.take_append_drop (s - (i + 1)) ((List.range (e.n + 1)).drop (i + 1))]
    rw [List.drop_drop]
    congr 2; omega
  rw [hsplit, List.findSome?_append]
  have : (((List.range (e.n + 1)).drop (i + 1)).take (s - (i + 1))).findSome? (attempt e p false) = none := by
    rw [List.findSome?_eq_none_iff]
    intro x hx
    have := mem_take_drop_range hx
    exact hfail x (by omega) (by omega)
  rw [this]; rfl

theorem attempt_eq_none_iff (e : Env) (p : Pat) (rtl : Bool) (i : Nat) :
    attempt e p rtl i = none ↔ m e p rtl ⟨i, []⟩ = [] := by
  unfold attempt
  simp only [m, List.head?_eq_none_iff, List.map_eq_nil_iff]

theorem attempt_congr_head {e : Env} {p q : Pat} {rtl : Bool} (h : HeadEq e rtl p q) (i : Nat) :
    attempt e p rtl i = attempt e q rtl i := by
  unfold attempt
  exact headEq_cap 0 h _

theorem find_congr_head {e : Env} {p q : Pat} {rtl : Bool} (h : HeadEq e rtl p q) (start : Nat) :
    find e p rtl start = find e q rtl start := by
  unfold find
  congr 1
  funext i
  exact attempt_congr_head h i

end RegexVerif.Spec
