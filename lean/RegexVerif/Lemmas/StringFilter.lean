/-
Helper lemmas for the raw-string prefix filters (model `RegexVerif.Model.StringFilter`): the byte-level
UTF-8 decoder (`decodeRune`, `decodeB`, `lastRuneSize`, `encodeRune`), the search primitives, the loop rule.
-/
import RegexVerif.Model.StringFilter
import RegexVerif.Lemmas.Utf8
import RegexVerif.Lemmas.Finders
import RegexVerif.Lemmas.Api

namespace RegexVerif.Lemmas.StringFilter
open RegexVerif RegexVerif.Utf8 RegexVerif.StringFilter RegexVerif.Scan
open RegexVerif.Finders hiding Step fixedStep

/-! ## `decodeRune` -/

/-- the shapes `utf8.DecodeRuneInString` distinguishes -/
inductive Shape : List Nat → Nat → Nat → Prop
  | empty : Shape [] 0xFFFD 0
  | ascii (b0 : Nat) (t : List Nat) : b0 < 0x80 → Shape (b0 :: t) b0 1
  | two (b0 b1 : Nat) (t : List Nat) : 0xC2 ≤ b0 → b0 < 0xE0 → 0x80 ≤ b1 → b1 ≤ 0xBF →
      Shape (b0 :: b1 :: t) ((b0 - 0xC0) * 64 + (b1 - 0x80)) 2
  | three (b0 b1 b2 : Nat) (t : List Nat) : 0xE0 ≤ b0 → b0 < 0xF0 →
      (if b0 = 0xE0 then 0xA0 else 0x80) ≤ b1 → b1 ≤ (if b0 = 0xED then 0x9F else 0xBF) → 0x80 ≤ b2 → b2 ≤ 0xBF →
      Shape (b0 :: b1 :: b2 :: t) ((b0 - 0xE0) * 4096 + (b1 - 0x80) * 64 + (b2 - 0x80)) 3
  | four (b0 b1 b2 b3 : Nat) (t : List Nat) : 0xF0 ≤ b0 → b0 < 0xF5 →
      (if b0 = 0xF0 then 0x90 else 0x80) ≤ b1 → b1 ≤ (if b0 = 0xF4 then 0x8F else 0xBF) → 0x80 ≤ b2 → b2 ≤ 0xBF →
      0x80 ≤ b3 → b3 ≤ 0xBF →
      Shape (b0 :: b1 :: b2 :: b3 :: t) ((b0 - 0xF0) * 262144 + (b1 - 0x80) * 4096 + (b2 - 0x80) * 64 + (b3 - 0x80)) 4
  | bad (b0 : Nat) (t : List Nat) : 0x80 ≤ b0 → Shape (b0 :: t) 0xFFFD 1

theorem decodeRune_two (b0 b1 : Nat) (t : List Nat) (h1 : 0xC2 ≤ b0) (h2 : b0 < 0xE0) (h3 : 0x80 ≤ b1) (h4 : b1 ≤ 0xBF) :
    decodeRune (b0 :: b1 :: t) = ((b0 - 0xC0) * 64 + (b1 - 0x80), 2) := by
  have a1 : ¬ b0 < 0x80 := by omega
  have a2 : ¬ b0 < 0xC2 := by omega
  simp [decodeRune, isCont, a1, a2, h2, h3, h4]

theorem decodeRune_three (b0 b1 b2 : Nat) (t : List Nat) (h1 : 0xE0 ≤ b0) (h2 : b0 < 0xF0)
    (h3 : (if b0 = 0xE0 then 0xA0 else 0x80) ≤ b1) (h4 : b1 ≤ (if b0 = 0xED then 0x9F else 0xBF)) (h5 : 0x80 ≤ b2) (h6 : b2 ≤ 0xBF) :
    decodeRune (b0 :: b1 :: b2 :: t) = ((b0 - 0xE0) * 4096 + (b1 - 0x80) * 64 + (b2 - 0x80), 3) := by
  have a1 : ¬ b0 < 0x80 := by omega
  have a2 : ¬ b0 < 0xC2 := by omega
  have a3 : ¬ b0 < 0xE0 := by omega
  simp [decodeRune, isCont, a1, a2, a3, h2, h3, h4, h5, h6]

theorem decodeRune_four (b0 b1 b2 b3 : Nat) (t : List Nat) (h1 : 0xF0 ≤ b0) (h2 : b0 < 0xF5)
    (h3 : (if b0 = 0xF0 then 0x90 else 0x80) ≤ b1) (h4 : b1 ≤ (if b0 = 0xF4 then 0x8F else 0xBF)) (h5 : 0x80 ≤ b2) (h6 : b2 ≤ 0xBF)
    (h7 : 0x80 ≤ b3) (h8 : b3 ≤ 0xBF) :
    decodeRune (b0 :: b1 :: b2 :: b3 :: t) =
      ((b0 - 0xF0) * 262144 + (b1 - 0x80) * 4096 + (b2 - 0x80) * 64 + (b3 - 0x80), 4) := by
  have a1 : ¬ b0 < 0x80 := by omega
  have a2 : ¬ b0 < 0xC2 := by omega
  have a3 : ¬ b0 < 0xE0 := by omega
  have a4 : ¬ b0 < 0xF0 := by omega
  simp [decodeRune, isCont, a1, a2, a3, a4, h2, h3, h4, h5, h6, h7, h8]

theorem decodeRune_shape (s : List Nat) : Shape s (decodeRune s).1 (decodeRune s).2 := by
  match s with
  | [] => exact Shape.empty
  | b0 :: t =>
    by_cases h1 : b0 < 0x80
    · simp only [decodeRune, h1, if_true]; exact Shape.ascii b0 t h1
    by_cases h2 : b0 < 0xC2
    · simp only [decodeRune, h1, h2, if_true, if_false]; exact Shape.bad b0 t (by omega)
    by_cases h3 : b0 < 0xE0
    · match t with
      | [] => simp only [decodeRune, h1, h2, h3, if_true, if_false]; exact Shape.bad b0 _ (by omega)
      | b1 :: t' =>
        simp only [decodeRune, h1, h2, h3, if_true, if_false]
        split
        · rename_i hc
          simp [isCont] at hc
          exact Shape.two b0 b1 t' (by omega) (by omega) hc.1 hc.2
        · exact Shape.bad b0 _ (by omega)
    by_cases h4 : b0 < 0xF0
    · match t with
      | [] => simp only [decodeRune, h1, h2, h3, h4, if_true, if_false]; exact Shape.bad b0 _ (by omega)
      | [_] => simp only [decodeRune, h1, h2, h3, h4, if_true, if_false]; exact Shape.bad b0 _ (by omega)
      | b1 :: b2 :: t' =>
        simp only [decodeRune, h1, h2, h3, h4, if_true, if_false]
        by_cases hc : (decide ((if b0 = 0xE0 then 0xA0 else 0x80) ≤ b1) && decide (b1 ≤ (if b0 = 0xED then 0x9F else 0xBF)) && isCont b2) = true
        · rw [if_pos hc]
          simp [isCont] at hc
          exact Shape.three b0 b1 b2 t' (by omega) (by omega) hc.1.1 hc.1.2 hc.2.1 hc.2.2
        · rw [if_neg hc]; exact Shape.bad b0 _ (by omega)
    by_cases h5 : b0 < 0xF5
    · match t with
      | [] => simp only [decodeRune, h1, h2, h3, h4, h5, if_true, if_false]; exact Shape.bad b0 _ (by omega)
      | [_] => simp only [decodeRune, h1, h2, h3, h4, h5, if_true, if_false]; exact Shape.bad b0 _ (by omega)
      | [_, _] => simp only [decodeRune, h1, h2, h3, h4, h5, if_true, if_false]; exact Shape.bad b0 _ (by omega)
      | b1 :: b2 :: b3 :: t' =>
        simp only [decodeRune, h1, h2, h3, h4, h5, if_true, if_false]
        by_cases hc : (decide ((if b0 = 0xF0 then 0x90 else 0x80) ≤ b1) && decide (b1 ≤ (if b0 = 0xF4 then 0x8F else 0xBF)) && isCont b2 && isCont b3) = true
        · rw [if_pos hc]
          simp [isCont] at hc
          exact Shape.four b0 b1 b2 b3 t' (by omega) (by omega) hc.1.1.1 hc.1.1.2 hc.1.2.1 hc.1.2.2 hc.2.1 hc.2.2
        · rw [if_neg hc]; exact Shape.bad b0 _ (by omega)
    · simp only [decodeRune, h1, h2, h3, h4, h5, if_false]; exact Shape.bad b0 t (by omega)

/-- case analysis on `decodeRune s` with the result named -/
theorem decodeRune_cases (s : List Nat) : ∃ r w, decodeRune s = (r, w) ∧ Shape s r w :=
  ⟨_, _, rfl, decodeRune_shape s⟩

theorem decodeRune_size_le (s : List Nat) : (decodeRune s).2 ≤ s.length := by
  obtain ⟨r, w, h, hs⟩ := decodeRune_cases s
  rw [h]; cases hs <;> simp

theorem decodeRune_size_pos (s : List Nat) (hne : s ≠ []) : 1 ≤ (decodeRune s).2 := by
  obtain ⟨r, w, h, hs⟩ := decodeRune_cases s
  rw [h]; cases hs <;> simp at hne ⊢

theorem decodeRune_size_le4 (s : List Nat) : (decodeRune s).2 ≤ 4 := by
  obtain ⟨r, w, h, hs⟩ := decodeRune_cases s
  rw [h]; cases hs <;> simp

theorem decodeRune_validRune (s : List Nat) : validRune (decodeRune s).1 = true := by
  obtain ⟨r, w, h, hs⟩ := decodeRune_cases s
  rw [h]
  cases hs with
  | empty => decide
  | bad => decide
  | ascii b0 t h1 => simp [validRune]; omega
  | two b0 b1 t h1 h2 h3 h4 => simp [validRune]; omega
  | three b0 b1 b2 t h1 h2 h3 h4 h5 h6 =>
    simp only [validRune, Bool.or_eq_true, Bool.and_eq_true, decide_eq_true_eq]
    split at h3 <;> split at h4 <;> omega
  | four b0 b1 b2 b3 t h1 h2 h3 h4 h5 h6 h7 h8 =>
    simp only [validRune, Bool.or_eq_true, Bool.and_eq_true, decide_eq_true_eq]
    split at h3 <;> split at h4 <;> omega

/-- the bytes behind the first one of a decoded sequence are continuation bytes -/
theorem decodeRune_cont (s : List Nat) (j : Nat) (h0 : 0 < j) (hj : j < (decodeRune s).2) :
    isCont (s.getD j 0) = true := by
  obtain ⟨r, w, h, hs⟩ := decodeRune_cases s
  rw [h] at hj
  cases hs with
  | empty => simp at hj
  | bad => simp at hj; omega
  | ascii b0 t h1 => simp at hj; omega
  | two b0 b1 t h1 h2 h3 h4 =>
    have : j = 1 := by simp at hj; omega
    subst this; simp [isCont, h3, h4]
  | three b0 b1 b2 t h1 h2 h3 h4 h5 h6 =>
    have : j = 1 ∨ j = 2 := by simp at hj; omega
    rcases this with rfl | rfl
    · simp [isCont]; split at h3 <;> split at h4 <;> omega
    · simp [isCont, h5, h6]
  | four b0 b1 b2 b3 t h1 h2 h3 h4 h5 h6 h7 h8 =>
    have : j = 1 ∨ j = 2 ∨ j = 3 := by simp at hj; omega
    rcases this with rfl | rfl | rfl
    · simp [isCont]; split at h3 <;> split at h4 <;> omega
    · simp [isCont, h5, h6]
    · simp [isCont, h7, h8]

/-- a decoded sequence other than a single invalid byte -/
def GoodSeq (s : List Nat) : Prop := (decodeRune s).1 ≠ 0xFFFD ∨ 2 ≤ (decodeRune s).2

/-- a well-formed sequence does not start with a continuation byte -/
theorem goodSeq_head (s : List Nat) (hg : GoodSeq s) : ∃ b t, s = b :: t ∧ isCont b = false := by
  obtain ⟨r, w, h, hs⟩ := decodeRune_cases s
  unfold GoodSeq at hg; rw [h] at hg
  cases hs with
  | empty => simp at hg
  | bad => simp at hg
  | ascii _ t h1 => exact ⟨_, t, rfl, by simp [isCont]; omega⟩
  | two b0 b1 t h1 h2 h3 h4 => exact ⟨b0, _, rfl, by simp [isCont]; omega⟩
  | three b0 b1 b2 t h1 h2 h3 h4 h5 h6 => exact ⟨b0, _, rfl, by simp [isCont]; omega⟩
  | four b0 b1 b2 b3 t h1 h2 h3 h4 h5 h6 h7 h8 => exact ⟨b0, _, rfl, by simp [isCont]; omega⟩

/-- decoding a well-formed sequence looks at its own bytes only -/
theorem decodeRune_prefix_congr (a b : List Nat) (hg : GoodSeq a)
    (hp : a.take (decodeRune a).2 = b.take (decodeRune a).2) : decodeRune b = decodeRune a := by
  obtain ⟨r, w, h, hs⟩ := decodeRune_cases a
  unfold GoodSeq at hg; rw [h] at hg hp ⊢
  cases hs with
  | empty => simp at hg
  | bad => simp at hg
  | ascii b0 t h1 =>
    match b with
    | [] => simp at hp
    | c0 :: t' =>
      simp at hp; subst hp
      simp [decodeRune, h1]
  | two b0 b1 t h1 h2 h3 h4 =>
    match b with
    | [] => simp at hp
    | [_] => simp at hp
    | c0 :: c1 :: t' =>
      simp at hp; obtain ⟨rfl, rfl⟩ := hp
      exact decodeRune_two _ _ _ h1 h2 h3 h4
  | three b0 b1 b2 t h1 h2 h3 h4 h5 h6 =>
    match b with
    | [] => simp at hp
    | [_] => simp at hp
    | [_, _] => simp at hp
    | c0 :: c1 :: c2 :: t' =>
      simp at hp; obtain ⟨rfl, rfl, rfl⟩ := hp
      exact decodeRune_three _ _ _ _ h1 h2 h3 h4 h5 h6
  | four b0 b1 b2 b3 t h1 h2 h3 h4 h5 h6 h7 h8 =>
    match b with
    | [] => simp at hp
    | [_] => simp at hp
    | [_, _] => simp at hp
    | [_, _, _] => simp at hp
    | c0 :: c1 :: c2 :: c3 :: t' =>
      simp at hp; obtain ⟨rfl, rfl, rfl, rfl⟩ := hp
      exact decodeRune_four _ _ _ _ _ h1 h2 h3 h4 h5 h6 h7 h8

/-- the bytes of a decoded rune other than U+FFFD are its encoding -/
theorem encode_of_decode (s : List Nat) (hr : (decodeRune s).1 ≠ 0xFFFD) :
    s.take (decodeRune s).2 = encodeRune (decodeRune s).1 := by
  obtain ⟨r, w, h, hs⟩ := decodeRune_cases s
  rw [h] at hr ⊢
  cases hs with
  | empty => simp at hr
  | bad => simp at hr
  | ascii b0 t h1 => simp [encodeRune, h1]
  | two b0 b1 t h1 h2 h3 h4 =>
    have a1 : ¬ (b0 - 192) * 64 + (b1 - 128) < 128 := by omega
    have a2 : (b0 - 192) * 64 + (b1 - 128) < 2048 := by omega
    change [b0, b1] = _
    unfold encodeRune
    rw [if_neg a1, if_pos a2]
    have e1 : 192 + ((b0 - 192) * 64 + (b1 - 128)) / 64 = b0 := by omega
    have e2 : 128 + ((b0 - 192) * 64 + (b1 - 128)) % 64 = b1 := by omega
    rw [e1, e2]
  | three b0 b1 b2 t h1 h2 h3 h4 h5 h6 =>
    have hv := decodeRune_validRune (b0 :: b1 :: b2 :: t)
    rw [h] at hv
    have hv' : ¬ ((!validRune ((b0 - 224) * 4096 + (b1 - 128) * 64 + (b2 - 128))) = true) := by simp at hv ⊢; exact hv
    have a1 : ¬ (b0 - 224) * 4096 + (b1 - 128) * 64 + (b2 - 128) < 128 := by split at h3 <;> omega
    have a2 : ¬ (b0 - 224) * 4096 + (b1 - 128) * 64 + (b2 - 128) < 2048 := by split at h3 <;> omega
    have a3 : (b0 - 224) * 4096 + (b1 - 128) * 64 + (b2 - 128) < 65536 := by split at h4 <;> omega
    have hb1 : 128 ≤ b1 ∧ b1 ≤ 191 := by split at h3 <;> split at h4 <;> omega
    change [b0, b1, b2] = _
    unfold encodeRune
    rw [if_neg a1, if_neg a2, if_neg hv', if_pos a3]
    have e1 : 224 + ((b0 - 224) * 4096 + (b1 - 128) * 64 + (b2 - 128)) / 4096 = b0 := by omega
    have e2 : 128 + ((b0 - 224) * 4096 + (b1 - 128) * 64 + (b2 - 128)) / 64 % 64 = b1 := by omega
    have e3 : 128 + ((b0 - 224) * 4096 + (b1 - 128) * 64 + (b2 - 128)) % 64 = b2 := by omega
    rw [e1, e2, e3]
  | four b0 b1 b2 b3 t h1 h2 h3 h4 h5 h6 h7 h8 =>
    have hv := decodeRune_validRune (b0 :: b1 :: b2 :: b3 :: t)
    rw [h] at hv
    have hv' : ¬ ((!validRune ((b0 - 240) * 262144 + (b1 - 128) * 4096 + (b2 - 128) * 64 + (b3 - 128))) = true) := by simp at hv ⊢; exact hv
    have hb1 : 128 ≤ b1 ∧ b1 ≤ 191 := by split at h3 <;> split at h4 <;> omega
    have a1 : ¬ (b0 - 240) * 262144 + (b1 - 128) * 4096 + (b2 - 128) * 64 + (b3 - 128) < 128 := by split at h3 <;> omega
    have a2 : ¬ (b0 - 240) * 262144 + (b1 - 128) * 4096 + (b2 - 128) * 64 + (b3 - 128) < 2048 := by split at h3 <;> omega
    have a3 : ¬ (b0 - 240) * 262144 + (b1 - 128) * 4096 + (b2 - 128) * 64 + (b3 - 128) < 65536 := by split at h3 <;> omega
    change [b0, b1, b2, b3] = _
    unfold encodeRune
    rw [if_neg a1, if_neg a2, if_neg hv', if_neg a3]
    have e1 : 240 + ((b0 - 240) * 262144 + (b1 - 128) * 4096 + (b2 - 128) * 64 + (b3 - 128)) / 262144 = b0 := by omega
    have e2 : 128 + ((b0 - 240) * 262144 + (b1 - 128) * 4096 + (b2 - 128) * 64 + (b3 - 128)) / 4096 % 64 = b1 := by omega
    have e3 : 128 + ((b0 - 240) * 262144 + (b1 - 128) * 4096 + (b2 - 128) * 64 + (b3 - 128)) / 64 % 64 = b2 := by omega
    have e4 : 128 + ((b0 - 240) * 262144 + (b1 - 128) * 4096 + (b2 - 128) * 64 + (b3 - 128)) % 64 = b3 := by omega
    rw [e1, e2, e3, e4]

/-! ## `decodeB`: the `range` loop -/

theorem decodeAux_fuel (f1 : Nat) : ∀ (f2 : Nat) (s : List Nat), s.length ≤ f1 → s.length ≤ f2 →
    decodeAux f1 s = decodeAux f2 s := by
  induction f1 with
  | zero =>
    intro f2 s h1 _
    have : s = [] := List.eq_nil_of_length_eq_zero (by omega)
    subst this
    cases f2 <;> rfl
  | succ f1 ih =>
    intro f2 s h1 h2
    match s, f2 with
    | [], 0 => rfl
    | [], _ + 1 => rfl
    | b :: t, 0 => simp at h2
    | b :: t, f2 + 1 =>
      simp only [decodeAux]
      congr 1
      apply ih
      · simp at h1 ⊢; omega
      · simp at h2 ⊢; omega

theorem decodeB_nil : decodeB [] = [] := rfl

theorem decodeB_unfold (s : List Nat) (hne : s ≠ []) :
    decodeB s = decodeRune s :: decodeB (s.drop (decodeRune s).2) := by
  match s with
  | [] => exact absurd rfl hne
  | b :: t =>
    have hw := decodeRune_size_pos (b :: t) (by simp)
    have hd : (b :: t).drop (decodeRune (b :: t)).2 = t.drop ((decodeRune (b :: t)).2 - 1) := by
      obtain ⟨w, hw'⟩ : ∃ w, (decodeRune (b :: t)).2 = w + 1 := ⟨(decodeRune (b :: t)).2 - 1, by omega⟩
      rw [hw']; simp
    rw [hd]
    unfold decodeB
    simp only [List.length_cons, decodeAux]
    congr 1
    apply decodeAux_fuel <;> simp

/-- induction along the `range` loop -/
theorem decode_induction {P : List Nat → Prop} (nil : P [])
    (step : ∀ s, s ≠ [] → P (s.drop (decodeRune s).2) → P s) : ∀ s, P s := by
  intro s
  generalize hn : s.length = n
  induction n using Nat.strongRecOn generalizing s with
  | _ n ih =>
    by_cases hne : s = []
    · subst hne; exact nil
    · apply step s hne
      have hw := decodeRune_size_pos s hne
      have hl : 0 < s.length := List.length_pos_iff.mpr hne
      exact ih (s.drop (decodeRune s).2).length (by simp; omega) _ rfl

theorem decodeB_eq_nil (s : List Nat) : decodeB s = [] ↔ s = [] := by
  constructor
  · intro h
    by_cases hne : s = []
    · exact hne
    · rw [decodeB_unfold s hne] at h; simp at h
  · intro h; subst h; rfl

/-- every segment is the decoding of a non-empty suffix -/
theorem mem_decodeB (s : List Nat) : ∀ seg ∈ decodeB s, ∃ u, u ≠ [] ∧ seg = decodeRune u := by
  induction s using decode_induction with
  | nil => simp [decodeB_nil]
  | step s hne ih =>
    intro seg hseg
    rw [decodeB_unfold s hne] at hseg
    rcases List.mem_cons.mp hseg with rfl | h
    · exact ⟨s, hne, rfl⟩
    · exact ih seg h

theorem width_pos (s : List Nat) : ∀ w ∈ (decodeB s).map (·.2), 1 ≤ w := by
  intro w hw
  obtain ⟨seg, hseg, rfl⟩ := List.mem_map.mp hw
  obtain ⟨u, hu, rfl⟩ := mem_decodeB s seg hseg
  exact decodeRune_size_pos u hu

theorem runesOf_valid (s : List Nat) : ∀ r ∈ runesOf s, validRune r = true := by
  intro r hr
  obtain ⟨seg, hseg, rfl⟩ := List.mem_map.mp hr
  obtain ⟨u, _, rfl⟩ := mem_decodeB s seg hseg
  exact decodeRune_validRune u

theorem byteOff_zero (s : List Nat) : byteOff s 0 = 0 := by simp [byteOff]

theorem byteOff_succ (s : List Nat) (hne : s ≠ []) (k : Nat) :
    byteOff s (k + 1) = (decodeRune s).2 + byteOff (s.drop (decodeRune s).2) k := by
  unfold byteOff
  rw [decodeB_unfold s hne]
  simp

theorem byteOff_len (s : List Nat) : byteOff s (decodeB s).length = s.length := by
  induction s using decode_induction with
  | nil => simp [decodeB_nil, byteOff]
  | step s hne ih =>
    rw [decodeB_unfold s hne, List.length_cons, byteOff_succ s hne, ih]
    have := decodeRune_size_le s
    simp; omega

theorem byteOff_mono (s : List Nat) (k j : Nat) (h : k ≤ j) : byteOff s k ≤ byteOff s j := by
  obtain ⟨d, rfl⟩ := Nat.exists_eq_add_of_le h
  unfold byteOff
  rw [Lemmas.Utf8.sum_take_add]; omega

theorem byteOff_lt (s : List Nat) (k j : Nat) (h : k < j) (hj : j ≤ (decodeB s).length) : byteOff s k < byteOff s j := by
  unfold byteOff
  exact Lemmas.Utf8.sum_take_lt _ (width_pos s) k j h (by simpa using hj)

theorem byteOff_le_len (s : List Nat) (k : Nat) : byteOff s k ≤ s.length := by
  by_cases h : k ≤ (decodeB s).length
  · rw [← byteOff_len s]; exact byteOff_mono s _ _ h
  · rw [← byteOff_len s]
    unfold byteOff
    rw [List.take_of_length_le (by simp; omega), List.take_of_length_le (by simp)]
    exact Nat.le_refl _

theorem byteOff_le_iff (s : List Nat) (k j : Nat) (hk : k ≤ (decodeB s).length) (hj : j ≤ (decodeB s).length) :
    byteOff s k ≤ byteOff s j ↔ k ≤ j := by
  constructor
  · intro h
    by_cases hkj : k ≤ j
    · exact hkj
    · have := byteOff_lt s j k (by omega) hk; omega
  · exact byteOff_mono s k j

theorem byteOff_inj (s : List Nat) (k j : Nat) (hk : k ≤ (decodeB s).length) (hj : j ≤ (decodeB s).length)
    (h : byteOff s k = byteOff s j) : k = j := by
  have h1 := (byteOff_le_iff s k j hk hj).mp (by omega)
  have h2 := (byteOff_le_iff s j k hj hk).mp (by omega)
  omega

/-- decoding from a rune boundary yields the rest of the decoding -/
theorem decodeB_drop (k : Nat) : ∀ (s : List Nat), k ≤ (decodeB s).length →
    decodeB (s.drop (byteOff s k)) = (decodeB s).drop k := by
  induction k with
  | zero => intro s _; simp [byteOff_zero]
  | succ k ih =>
    intro s hk
    have hne : s ≠ [] := by
      intro h; subst h; simp [decodeB_nil] at hk
    rw [byteOff_succ s hne, ← List.drop_drop]
    have hk' : k ≤ (decodeB (s.drop (decodeRune s).2)).length := by
      rw [decodeB_unfold s hne] at hk; simpa using hk
    rw [ih _ hk']
    conv => rhs; rw [decodeB_unfold s hne]
    simp

theorem byteOff_add (s : List Nat) (k j : Nat) (hk : k ≤ (decodeB s).length) :
    byteOff s (k + j) = byteOff s k + byteOff (s.drop (byteOff s k)) j := by
  unfold byteOff
  rw [Lemmas.Utf8.sum_take_add]
  congr 1
  have := decodeB_drop k s hk
  unfold byteOff at this
  rw [this]; simp

theorem runesOf_drop (s : List Nat) (k : Nat) (hk : k ≤ (decodeB s).length) :
    runesOf (s.drop (byteOff s k)) = (runesOf s).drop k := by
  unfold runesOf; rw [decodeB_drop k s hk]; simp

theorem runesOf_length (s : List Nat) : (runesOf s).length = (decodeB s).length := by simp [runesOf]

/-- the segment at rune index `k` is the decoding at byte offset `byteOff s k` -/
theorem decodeB_get (s : List Nat) (k : Nat) (hk : k < (decodeB s).length) :
    (decodeB s)[k]? = some (decodeRune (s.drop (byteOff s k))) ∧ s.drop (byteOff s k) ≠ [] := by
  have hd := decodeB_drop k s (by omega)
  have hne : s.drop (byteOff s k) ≠ [] := by
    intro h; rw [h, decodeB_nil] at hd
    have : ((decodeB s).drop k).length = 0 := by rw [← hd]; rfl
    simp at this; omega
  refine ⟨?_, hne⟩
  rw [decodeB_unfold _ hne] at hd
  have : ((decodeB s).drop k)[0]? = some (decodeRune (s.drop (byteOff s k))) := by rw [← hd]; rfl
  simpa using this

theorem runesOf_get (s : List Nat) (k : Nat) (hk : k < (decodeB s).length) :
    (runesOf s)[k]? = some (decodeRune (s.drop (byteOff s k))).1 := by
  unfold runesOf
  rw [List.getElem?_map, (decodeB_get s k hk).1]; rfl

theorem byteOff_succ_at (s : List Nat) (k : Nat) (hk : k < (decodeB s).length) :
    byteOff s (k + 1) = byteOff s k + (decodeRune (s.drop (byteOff s k))).2 := by
  rw [byteOff_add s k 1 (by omega)]
  congr 1
  rw [byteOff_succ _ (decodeB_get s k hk).2, byteOff_zero]; rfl

/-! ## rune boundaries -/

/-- `i` is the byte offset of a rune index of `s` (the end included) -/
def Bnd (s : List Nat) (i : Nat) : Prop := ∃ k, k ≤ (decodeB s).length ∧ byteOff s k = i

theorem bnd_le (s : List Nat) (i : Nat) (h : Bnd s i) : i ≤ s.length := by
  obtain ⟨k, _, rfl⟩ := h; exact byteOff_le_len s k

/-- a position that does not hold a continuation byte is a rune boundary -/
theorem bnd_of_not_cont : ∀ (s : List Nat) (i : Nat), i ≤ s.length →
    (i < s.length → isCont (s.getD i 0) = false) → Bnd s i := by
  intro s
  induction s using decode_induction with
  | nil => intro i hi _; exact ⟨0, by simp, by simp at hi; simp [byteOff_zero, hi]⟩
  | step s hne ih =>
    intro i hi hc
    by_cases h0 : i = 0
    · subst h0; exact ⟨0, by simp, byteOff_zero s⟩
    · have hw := decodeRune_size_le s
      by_cases hlt : i < (decodeRune s).2
      · have := decodeRune_cont s i (by omega) hlt
        rw [hc (by omega)] at this; simp at this
      · obtain ⟨k, hk, hoff⟩ := ih (i - (decodeRune s).2) (by simp; omega)
          (by
            intro h
            have := hc (by simp at h; omega)
            simp only [List.getD_eq_getElem?_getD, List.getElem?_drop] at this ⊢
            rwa [show (decodeRune s).2 + (i - (decodeRune s).2) = i by omega])
        refine ⟨k + 1, by rw [decodeB_unfold s hne]; simpa using hk, ?_⟩
        rw [byteOff_succ s hne, hoff]; omega

/-! ## `DecodeLastRuneInString` agrees with the forward decoding -/

theorem getD_drop (s : List Nat) (a j : Nat) : (s.drop a).getD j 0 = s.getD (a + j) 0 := by
  simp [List.getD_eq_getElem?_getD, List.getElem?_drop]

theorem getD_take (s : List Nat) (b i : Nat) (h : i < b) : (s.take b).getD i 0 = s.getD i 0 := by
  simp [List.getD_eq_getElem?_getD, List.getElem?_take, h]

/-- where the backward scan stops: at the nearest non-continuation byte below `j` (not below `lim`), or
    at `lim - 1` when `lim … j-1` are all continuation bytes -/
theorem scanBack_spec (t : List Nat) (lim : Nat) : ∀ j, lim ≤ j →
    (scanBack t lim j < j ∧ lim ≤ scanBack t lim j ∧ isCont (t.getD (scanBack t lim j) 0) = false ∧
      ∀ i, scanBack t lim j < i → i < j → isCont (t.getD i 0) = true) ∨
    ((∀ i, lim ≤ i → i < j → isCont (t.getD i 0) = true) ∧ scanBack t lim j = lim - 1) := by
  intro j
  induction j with
  | zero => intro h; right; exact ⟨fun i _ h2 => by omega, by simp [scanBack]; omega⟩
  | succ j ih =>
    intro h
    unfold scanBack
    by_cases h1 : j < lim
    · simp only [h1, if_true]
      right; exact ⟨fun i _ _ => by omega, by omega⟩
    · simp only [h1, if_false]
      cases hc : isCont (t.getD j 0) with
      | false =>
        simp only [Bool.not_false, if_true]
        left; exact ⟨by omega, by omega, hc, fun i _ _ => by omega⟩
      | true =>
        simp only [Bool.not_true, Bool.false_eq_true, if_false]
        rcases ih (by omega) with ⟨a1, a2, a3, a4⟩ | ⟨b1, b2⟩
        · left
          refine ⟨by omega, a2, a3, ?_⟩
          intro i hi1 hi2
          by_cases hij : i = j
          · subst hij; exact hc
          · exact a4 i hi1 (by omega)
        · right
          refine ⟨?_, b2⟩
          intro i hi1 hi2
          by_cases hij : i = j
          · subst hij; exact hc
          · exact b1 i hi1 (by omega)

theorem take_drop_take (s : List Nat) (b st n : Nat) (h : n ≤ b - st) :
    ((s.take b).drop st).take n = (s.drop st).take n := by
  rw [List.drop_take, List.take_take, Nat.min_eq_left h]

theorem goodSeq_of_width (u : List Nat) (h : 2 ≤ (decodeRune u).2) : GoodSeq u := Or.inr h

/-- **`DecodeLastRuneInString` on a prefix that ends at a rune boundary returns the width of the rune
    that ends there** — one byte for an invalid byte, the full width of a well-formed sequence. -/
theorem lastRuneSize_boundary (s : List Nat) (k : Nat) (hk : k < (decodeB s).length) :
    lastRuneSize (s.take (byteOff s (k + 1))) = (decodeRune (s.drop (byteOff s k))).2 := by
  have hne := (decodeB_get s k hk).2
  have hsucc := byteOff_succ_at s k hk
  have hble := byteOff_le_len s (k + 1)
  have hw1 := decodeRune_size_pos _ hne
  have hw4 := decodeRune_size_le4 (s.drop (byteOff s k))
  generalize ha : byteOff s k = a at *
  generalize hb : byteOff s (k + 1) = b at *
  generalize hwd : (decodeRune (s.drop a)).2 = w at *
  have hlen : (s.take b).length = b := by simp; omega
  have hcont : ∀ i, a < i → i < b → isCont (s.getD i 0) = true := by
    intro i h1 h2
    have := decodeRune_cont (s.drop a) (i - a) (by omega) (by omega)
    rwa [getD_drop, show a + (i - a) = i by omega] at this
  unfold lastRuneSize
  have hnemp : (s.take b).isEmpty = false := by
    cases hh : s.take b with
    | nil => rw [hh] at hlen; simp at hlen; omega
    | cons _ _ => rfl
  simp only [hnemp, hlen, Bool.false_eq_true, if_false]
  rw [getD_take s b (b - 1) (by omega)]
  by_cases hx : s.getD (b - 1) 0 < 0x80
  · simp only [hx, if_true]
    by_cases hw : w = 1
    · omega
    · have := hcont (b - 1) (by omega) (by omega)
      simp only [isCont, Bool.and_eq_true, decide_eq_true_eq] at this; omega
  · simp only [hx, if_false]
    rcases scanBack_spec (s.take b) (b - 4) (b - 1) (by omega) with ⟨a1, a2, a3, a4⟩ | ⟨b1, b2⟩
    · -- the scan stopped at a non-continuation byte
      generalize hst : scanBack (s.take b) (b - 4) (b - 1) = st at *
      rw [getD_take s b st (by omega)] at a3
      have hst_le : st ≤ a := by
        by_cases h : st ≤ a
        · exact h
        · have := hcont st (by omega) (by omega); rw [a3] at this; simp at this
      have hdrop : (s.take b).drop st = (s.drop st).take (b - st) := by rw [List.drop_take]
      by_cases hsa : st = a
      · subst hsa
        have hgood : GoodSeq (s.drop st) ∨ w = 1 := by
          by_cases hw : w = 1
          · right; exact hw
          · left; exact goodSeq_of_width _ (by omega)
        rcases hgood with hg | hw
        · have : decodeRune ((s.take b).drop st) = decodeRune (s.drop st) := by
            apply decodeRune_prefix_congr _ _ hg
            rw [hwd]; exact (take_drop_take s b st w (by omega)).symm
          rw [this, hwd]
          have : ¬ (st + w ≠ b) := by omega
          simp [this]
        · have h1 := decodeRune_size_pos ((s.take b).drop st) (by rw [hdrop]; intro h; have := congrArg List.length h; simp at this; omega)
          have h2 := decodeRune_size_le ((s.take b).drop st)
          have : ((s.take b).drop st).length = 1 := by simp; omega
          split <;> omega
      · -- a non-continuation byte strictly before the last boundary: only possible when the last rune is one byte
        have hlt : st < a := by omega
        have hw : w = 1 := by
          by_cases hw : w = 1
          · exact hw
          · -- then `a < b - 1`, and `a4` makes `s[a]` a continuation byte, but a good sequence starts at `a`
            exfalso
            obtain ⟨c, t', hc1, hc2⟩ := goodSeq_head (s.drop a) (goodSeq_of_width _ (by omega))
            have := a4 a hlt (by omega)
            rw [getD_take s b a (by omega)] at this
            have h0 : s.getD a 0 = c := by
              have := getD_drop s a 0; rw [hc1] at this; simpa using this.symm
            rw [h0, hc2] at this; simp at this
        by_cases hsz : st + (decodeRune ((s.take b).drop st)).2 ≠ b
        · simp [hsz]; omega
        · exfalso
          have hsz' : (decodeRune ((s.take b).drop st)).2 = b - st := by omega
          have hg : GoodSeq ((s.take b).drop st) := goodSeq_of_width _ (by omega)
          have hcongr : decodeRune (s.drop st) = decodeRune ((s.take b).drop st) := by
            apply decodeRune_prefix_congr _ _ hg
            exact take_drop_take s b st _ (by omega)
          obtain ⟨k', hk', hoff⟩ := bnd_of_not_cont s st (by omega) (fun _ => a3)
          have hk'lt : k' < (decodeB s).length := by
            by_cases h : k' < (decodeB s).length
            · exact h
            · have : k' = (decodeB s).length := by omega
              rw [this, byteOff_len] at hoff; omega
          have := byteOff_succ_at s k' hk'lt
          rw [hoff, hcongr, hsz'] at this
          have hkk : k' + 1 = k + 1 := byteOff_inj s _ _ (by omega) (by omega) (by omega)
          have : k' = k := by omega
          subst this; omega
    · -- every byte from `lim` on is a continuation byte
      generalize hst : scanBack (s.take b) (b - 4) (b - 1) = st at *
      have hw : w = 1 := by
        by_cases hw : w = 1
        · exact hw
        · exfalso
          obtain ⟨c, t', hc1, hc2⟩ := goodSeq_head (s.drop a) (goodSeq_of_width _ (by omega))
          have := b1 a (by omega) (by omega)
          rw [getD_take s b a (by omega)] at this
          have h0 : s.getD a 0 = c := by
            have := getD_drop s a 0; rw [hc1] at this; simpa using this.symm
          rw [h0, hc2] at this; simp at this
      have hdrop : (s.take b).drop st = (s.drop st).take (b - st) := by rw [List.drop_take]
      by_cases hsz : st + (decodeRune ((s.take b).drop st)).2 ≠ b
      · simp [hsz]; omega
      · have hsz' : (decodeRune ((s.take b).drop st)).2 = b - st := by omega
        by_cases hone : b - st = 1
        · simp [hsz]; omega
        · exfalso
          have hg : GoodSeq ((s.take b).drop st) := goodSeq_of_width _ (by omega)
          obtain ⟨c, t', hc1, hc2⟩ := goodSeq_head _ hg
          have h0 : s.getD st 0 = c := by
            have := getD_drop (s.take b) st 0; rw [hc1] at this
            rw [Nat.add_zero, getD_take s b st (by omega)] at this; simpa using this.symm
          have hcongr : decodeRune (s.drop st) = decodeRune ((s.take b).drop st) := by
            apply decodeRune_prefix_congr _ _ hg
            exact take_drop_take s b st _ (by omega)
          obtain ⟨k', hk', hoff⟩ := bnd_of_not_cont s st (by omega) (fun _ => by rw [h0]; exact hc2)
          have hk'lt : k' < (decodeB s).length := by
            by_cases h : k' < (decodeB s).length
            · exact h
            · have : k' = (decodeB s).length := by omega
              rw [this, byteOff_len] at hoff; omega
          have := byteOff_succ_at s k' hk'lt
          rw [hoff, hcongr, hsz'] at this
          have hkk : k' + 1 = k + 1 := byteOff_inj s _ _ (by omega) (by omega) (by omega)
          have : k' = k := by omega
          subst this; omega

/-- **`stringFixedDistanceCandidateStart` counts runes**: from the boundary of rune `ki` it reaches the boundary
    of rune `ki - d` when that is not below the rune `ks` of `startAt`, and fails otherwise. -/
theorem candidateStart_spec (s : List Nat) (ks : Nat) : ∀ (d ki : Nat), ki ≤ (decodeB s).length → ks ≤ ki →
    candidateStart s (byteOff s ks) d (byteOff s ki) = if ks + d ≤ ki then some (byteOff s (ki - d)) else none := by
  intro d
  induction d with
  | zero => intro ki _ h; simp [candidateStart, h]
  | succ d ih =>
    intro ki hki hks
    unfold candidateStart
    by_cases heq : ki = ks
    · subst heq
      have : ¬ (ki + (d + 1) ≤ ki) := by omega
      simp [this]
    · have hlt : ks < ki := by omega
      have : ¬ (byteOff s ki ≤ byteOff s ks) := by
        have := byteOff_lt s ks ki hlt hki; omega
      simp only [this, if_false]
      obtain ⟨k', rfl⟩ : ∃ k', ki = k' + 1 := ⟨ki - 1, by omega⟩
      rw [lastRuneSize_boundary s k' (by omega)]
      have hw := decodeRune_size_pos _ (decodeB_get s k' (by omega)).2
      have hs := byteOff_succ_at s k' (by omega)
      have hne : ¬ ((decodeRune (s.drop (byteOff s k'))).2 = 0) := by omega
      simp only [hne, if_false]
      rw [show byteOff s (k' + 1) - (decodeRune (s.drop (byteOff s k'))).2 = byteOff s k' by omega]
      rw [ih k' (by omega) (by omega)]
      by_cases h : ks + d ≤ k'
      · have h' : ks + (d + 1) ≤ k' + 1 := by omega
        simp only [h, h', if_true]
        congr 2; omega
      · have h' : ¬ (ks + (d + 1) ≤ k' + 1) := by omega
        simp [h, h']

/-! ## the search primitives return the FIRST hit -/

theorem firstSuffix_some (P : List Nat → Bool) : ∀ (s : List Nat) (i j : Nat), firstSuffix P s i = some j →
    ∃ d, j = i + d ∧ d ≤ s.length ∧ P (s.drop d) = true ∧ ∀ d', d' < d → P (s.drop d') = false := by
  intro s
  induction s with
  | nil =>
    intro i j h
    simp only [firstSuffix] at h
    split at h
    · rename_i hp; exact ⟨0, by simp at h; omega, by simp, by simpa using hp, fun d' hd => by omega⟩
    · simp at h
  | cons b t ih =>
    intro i j h
    simp only [firstSuffix] at h
    split at h
    · rename_i hp; exact ⟨0, by simp at h; omega, by simp, by simpa using hp, fun d' hd => by omega⟩
    · rename_i hp
      obtain ⟨d, h1, h2, h3, h4⟩ := ih (i + 1) j h
      refine ⟨d + 1, by omega, by simp; omega, by simpa using h3, ?_⟩
      intro d' hd'
      cases d' with
      | zero => simpa using hp
      | succ d' => simpa using h4 d' (by omega)

theorem firstSuffix_none (P : List Nat → Bool) : ∀ (s : List Nat) (i : Nat), firstSuffix P s i = none →
    ∀ d, P (s.drop d) = false := by
  intro s
  induction s with
  | nil =>
    intro i h d
    simp only [firstSuffix] at h
    split at h
    · simp at h
    · rename_i hp; simpa using hp
  | cons b t ih =>
    intro i h d
    simp only [firstSuffix] at h
    split at h
    · simp at h
    · rename_i hp
      cases d with
      | zero => simpa using hp
      | succ d => simpa using ih (i + 1) h d

/-- a search of `input[s:]` for the first suffix satisfying `P`, in absolute offsets -/
def idxOf (P : List Nat → Bool) (input : List Nat) (s : Nat) : Option Nat :=
  (firstSuffix P (input.drop s) 0).map (s + ·)

theorem idxOf_some (P : List Nat → Bool) (input : List Nat) (s i : Nat) (h : idxOf P input s = some i) :
    s ≤ i ∧ i ≤ max s input.length ∧ P (input.drop i) = true ∧ ∀ i', s ≤ i' → i' < i → P (input.drop i') = false := by
  unfold idxOf at h
  cases hf : firstSuffix P (input.drop s) 0 with
  | none => rw [hf] at h; simp at h
  | some j =>
    rw [hf] at h
    simp only [Option.map_some, Option.some.injEq] at h
    obtain ⟨d, h1, h2, h3, h4⟩ := firstSuffix_some P _ 0 j hf
    subst h
    refine ⟨by omega, by simp at h2; omega, by rw [List.drop_drop] at h3; rwa [show s + j = s + d by omega], ?_⟩
    intro i' hi1 hi2
    have := h4 (i' - s) (by omega)
    rw [List.drop_drop] at this
    rwa [show s + (i' - s) = i' by omega] at this

theorem idxOf_none (P : List Nat → Bool) (input : List Nat) (s : Nat) (h : idxOf P input s = none) :
    ∀ i', s ≤ i' → P (input.drop i') = false := by
  unfold idxOf at h
  cases hf : firstSuffix P (input.drop s) 0 with
  | some j => rw [hf] at h; simp at h
  | none =>
    intro i' hi
    have := firstSuffix_none P _ 0 hf (i' - s)
    rw [List.drop_drop] at this
    rwa [show s + (i' - s) = i' by omega] at this

theorem firstSeg_some (Q : Nat → Bool) : ∀ (segs : List (Nat × Nat)) (off j : Nat), firstSeg Q segs off = some j →
    ∃ k r w, segs[k]? = some (r, w) ∧ Q r = true ∧ j = off + ((segs.map (·.2)).take k).sum ∧
      ∀ k' r' w', k' < k → segs[k']? = some (r', w') → Q r' = false := by
  intro segs
  induction segs with
  | nil => intro off j h; simp [firstSeg] at h
  | cons sg t ih =>
    intro off j h
    obtain ⟨r, w⟩ := sg
    simp only [firstSeg] at h
    split at h
    · rename_i hq
      refine ⟨0, r, w, rfl, hq, by simp at h ⊢; omega, fun k' _ _ hk _ => by omega⟩
    · rename_i hq
      obtain ⟨k, r1, w1, h1, h2, h3, h4⟩ := ih (off + w) j h
      refine ⟨k + 1, r1, w1, by simpa using h1, h2, by simp at h3 ⊢; omega, ?_⟩
      intro k' r' w' hk' hget
      cases k' with
      | zero => simp at hget; rw [← hget.1]; simpa using hq
      | succ k' => exact h4 k' r' w' (by omega) (by simpa using hget)

theorem firstSeg_none (Q : Nat → Bool) : ∀ (segs : List (Nat × Nat)) (off : Nat), firstSeg Q segs off = none →
    ∀ seg ∈ segs, Q seg.1 = false := by
  intro segs
  induction segs with
  | nil => intro _ _ seg h; simp at h
  | cons sg t ih =>
    intro off h seg hseg
    obtain ⟨r, w⟩ := sg
    simp only [firstSeg] at h
    split at h
    · simp at h
    · rename_i hq
      rcases List.mem_cons.mp hseg with rfl | hm
      · simpa using hq
      · exact ih (off + w) h seg hm

/-! ## runes ↔ bytes: where a literal of runes occurs, its bytes occur, and conversely the place is a boundary -/

/-- no U+FFFD among the runes of the literal: it is valid UTF-8 and holds no literal U+FFFD
    (`!strings.ContainsRune(lit, utf8.RuneError)`) -/
def Clean (lit : List Nat) : Prop := ∀ seg ∈ decodeB lit, seg.1 ≠ 0xFFFD

theorem runesOf_unfold (s : List Nat) (hne : s ≠ []) :
    runesOf s = (decodeRune s).1 :: runesOf (s.drop (decodeRune s).2) := by
  unfold runesOf; rw [decodeB_unfold s hne]; rfl

theorem clean_head (lit : List Nat) (hne : lit ≠ []) (hc : Clean lit) :
    (decodeRune lit).1 ≠ 0xFFFD ∧ Clean (lit.drop (decodeRune lit).2) := by
  unfold Clean at *
  rw [decodeB_unfold lit hne] at hc
  exact ⟨hc _ (by simp), fun seg hs => hc seg (by simp [hs])⟩

/-- where the runes of a clean literal occur in the decoded text, its bytes occur in the string -/
theorem bytes_of_runes_exact : ∀ (lit u : List Nat), Clean lit →
    prefixOf eqExact (runesOf lit) (runesOf u) = true → lit <+: u := by
  intro lit
  induction lit using decode_induction with
  | nil => intro u _ _; exact List.nil_prefix
  | step lit hne ih =>
    intro u hc hp
    obtain ⟨hr, hc'⟩ := clean_head lit hne hc
    rw [runesOf_unfold lit hne] at hp
    have hune : u ≠ [] := by
      intro h; subst h; simp [runesOf, decodeB_nil, prefixOf] at hp
    rw [runesOf_unfold u hune] at hp
    simp only [prefixOf, eqExact, Bool.and_eq_true, beq_iff_eq] at hp
    obtain ⟨heq, hrest⟩ := hp
    have e1 := encode_of_decode lit hr
    have e2 := encode_of_decode u (by rw [heq]; exact hr)
    rw [heq] at e2
    have hw : (decodeRune u).2 = (decodeRune lit).2 := by
      have l1 := congrArg List.length e1
      have l2 := congrArg List.length e2
      have := decodeRune_size_le lit
      have := decodeRune_size_le u
      simp at l1 l2; omega
    have := ih (u.drop (decodeRune lit).2) hc' (by rw [hw] at hrest; exact hrest)
    rw [← List.take_append_drop (decodeRune lit).2 lit, ← List.take_append_drop (decodeRune lit).2 u]
    rw [e1, ← hw, e2]
    rw [hw]
    exact (List.prefix_append_right_inj _).mpr this

/-- an occurrence of a non-empty clean literal starts on a rune boundary -/
theorem bnd_of_clean_prefix (s lit : List Nat) (i : Nat) (hne : lit ≠ []) (hc : Clean lit) (hp : lit <+: s.drop i) :
    Bnd s i := by
  obtain ⟨b, t, hb, hcont⟩ := goodSeq_head lit (Or.inl (clean_head lit hne hc).1)
  obtain ⟨rest, hrest⟩ := hp
  have hlt : i < s.length := by
    have := congrArg List.length hrest
    rw [hb] at this; simp at this; omega
  apply bnd_of_not_cont s i (by omega)
  intro _
  have : s.getD i 0 = b := by
    have := getD_drop s i 0
    rw [← hrest, hb] at this; simpa using this.symm
  rw [this]; exact hcont

theorem runesOf_ascii (lit : List Nat) (h : isASCIIString lit = true) : runesOf lit = lit := by
  induction lit with
  | nil => rfl
  | cons c ps ih =>
    simp only [isASCIIString, List.all_cons, Bool.and_eq_true, decide_eq_true_eq] at h
    have hd : decodeRune (c :: ps) = (c, 1) := by simp [decodeRune, h.1]
    rw [runesOf_unfold _ (by simp), hd]
    simp only [List.drop_succ_cons, List.drop_zero]
    rw [ih (by simpa [isASCIIString] using h.2)]

theorem clean_ascii (lit : List Nat) (h : isASCIIString lit = true) : Clean lit := by
  intro seg hseg
  have : seg.1 ∈ runesOf lit := List.mem_map.mpr ⟨seg, hseg, rfl⟩
  rw [runesOf_ascii lit h] at this
  simp only [isASCIIString, List.all_eq_true, decide_eq_true_eq] at h
  have := h _ this
  omega

theorem fold_lt (c : Nat) (h : c < 128) : foldASCII c < 128 := by unfold foldASCII; split <;> omega
theorem lt_of_fold_lt (t : Nat) (h : foldASCII t < 128) : t < 128 := by unfold foldASCII at h; split at h <;> omega

/-- a decoded rune below 0x80 is one ASCII byte -/
theorem ascii_of_decode (u : List Nat) (hne : u ≠ []) (h : (decodeRune u).1 < 0x80) :
    ∃ t, u = (decodeRune u).1 :: t ∧ (decodeRune u).2 = 1 := by
  obtain ⟨r, w, hd, hs⟩ := decodeRune_cases u
  rw [hd] at h ⊢
  cases hs with
  | empty => exact absurd rfl hne
  | bad => simp at h
  | ascii _ t h1 => exact ⟨t, rfl, rfl⟩
  | two b0 b1 t h1 h2 h3 h4 => simp at h; omega
  | three b0 b1 b2 t h1 h2 h3 h4 h5 h6 => simp at h; split at h3 <;> omega
  | four b0 b1 b2 b3 t h1 h2 h3 h4 h5 h6 h7 h8 => simp at h; split at h3 <;> omega

/-- the same under ASCII case folding, for an ASCII literal -/
theorem bytes_of_runes_fold : ∀ (lit u : List Nat), isASCIIString lit = true →
    prefixOf eqAsciiFold lit (runesOf u) = true → prefixOf eqAsciiFold lit u = true := by
  intro lit
  induction lit with
  | nil => intro u _ _; rfl
  | cons c ps ih =>
    intro u ha hp
    simp only [isASCIIString, List.all_cons, Bool.and_eq_true, decide_eq_true_eq] at ha
    have hune : u ≠ [] := by
      intro h; subst h; simp [runesOf, decodeB_nil, prefixOf] at hp
    rw [runesOf_unfold u hune] at hp
    simp only [prefixOf, Bool.and_eq_true] at hp
    obtain ⟨heq, hrest⟩ := hp
    have hlt : (decodeRune u).1 < 128 := by
      apply lt_of_fold_lt
      simp only [eqAsciiFold, beq_iff_eq] at heq
      rw [heq]; exact fold_lt c ha.1
    obtain ⟨t, hu, hw⟩ := ascii_of_decode u hune hlt
    rw [hw] at hrest
    rw [hu]
    simp only [prefixOf, Bool.and_eq_true]
    refine ⟨heq, ih t (by simpa [isASCIIString] using ha.2) ?_⟩
    have : u.drop 1 = t := by rw [hu]; rfl
    rwa [this] at hrest

/-- an occurrence of a non-empty ASCII literal under ASCII folding starts on a rune boundary -/
theorem bnd_of_fold_prefix (s lit : List Nat) (i : Nat) (hne : lit ≠ []) (ha : isASCIIString lit = true)
    (hp : prefixOf eqAsciiFold lit (s.drop i) = true) : Bnd s i := by
  match lit, hne with
  | c :: ps, _ =>
    simp only [isASCIIString, List.all_cons, Bool.and_eq_true, decide_eq_true_eq] at ha
    cases hd : s.drop i with
    | nil => rw [hd] at hp; simp [prefixOf] at hp
    | cons t ts =>
      rw [hd] at hp
      simp only [prefixOf, Bool.and_eq_true, eqAsciiFold, beq_iff_eq] at hp
      have hlt : t < 128 := lt_of_fold_lt t (by rw [hp.1]; exact fold_lt c ha.1)
      have hi : i < s.length := by
        have := congrArg List.length hd; simp at this; omega
      apply bnd_of_not_cont s i (by omega)
      intro _
      have : s.getD i 0 = t := by
        have := getD_drop s i 0; rw [hd] at this; simpa using this.symm
      rw [this]; simp [isCont]; omega

/-- the bytes at the boundary of rune `k` are the encoding of that rune (other than U+FFFD) -/
theorem encode_at (s : List Nat) (k ch : Nat) (h : (runesOf s)[k]? = some ch) (hne : ch ≠ 0xFFFD) :
    k < (decodeB s).length ∧ encodeRune ch <+: s.drop (byteOff s k) := by
  have hk : k < (decodeB s).length := by
    have := List.getElem?_eq_some_iff.mp h
    obtain ⟨hlt, _⟩ := this
    rwa [runesOf_length] at hlt
  refine ⟨hk, ?_⟩
  rw [runesOf_get s k hk] at h
  simp only [Option.some.injEq] at h
  have := encode_of_decode (s.drop (byteOff s k)) (by rw [h]; exact hne)
  rw [h] at this
  rw [← this]; exact List.take_prefix _ _

/-! ## `helpers.IndexStringIgnoreCaseASCII` returns the first occurrence under ASCII folding -/

theorem prefixOf_length (eq : Nat → Nat → Bool) : ∀ (pre u : List Nat), prefixOf eq pre u = true → pre.length ≤ u.length := by
  intro pre
  induction pre with
  | nil => intro u _; simp
  | cons c ps ih =>
    intro u h
    cases u with
    | nil => simp [prefixOf] at h
    | cons t ts =>
      simp only [prefixOf, Bool.and_eq_true] at h
      have := ih ts h.2; simp; omega

theorem prefixOf_take (eq : Nat → Nat → Bool) : ∀ (pre u : List Nat) (n : Nat), pre.length ≤ n →
    prefixOf eq pre (u.take n) = prefixOf eq pre u := by
  intro pre
  induction pre with
  | nil => intro u n _; rfl
  | cons c ps ih =>
    intro u n h
    cases u with
    | nil => simp
    | cons t ts =>
      cases n with
      | zero => simp at h
      | succ n =>
        simp only [List.take_succ_cons, prefixOf]
        rw [ih ts n (by simpa using h)]

/-- the byte at offset `j` of `s` folds to the same letter as `ch` -/
def foldHit (s : List Nat) (ch j : Nat) : Prop := ∃ b, s[j]? = some b ∧ foldASCII b = foldASCII ch

theorem headSat_drop (Q : Nat → Bool) (s : List Nat) (j : Nat) :
    headSat Q (s.drop j) = true ↔ ∃ b, s[j]? = some b ∧ Q b = true := by
  cases h : s.drop j with
  | nil =>
    have : s.length ≤ j := by simpa using h
    simp [headSat, List.getElem?_eq_none this]
  | cons b t =>
    have : s[j]? = some b := by
      have := congrArg (·[0]?) h; simpa using this
    simp [headSat, this]

theorem indexByteP_some (Q : Nat → Bool) (s : List Nat) (i : Nat) (h : indexByteP Q s = some i) :
    (∃ b, s[i]? = some b ∧ Q b = true) ∧ ∀ j, j < i → ∀ b, s[j]? = some b → Q b = false := by
  obtain ⟨d, h1, _, h3, h4⟩ := firstSuffix_some _ s 0 i h
  have : i = d := by omega
  subst this
  refine ⟨(headSat_drop Q s i).mp h3, ?_⟩
  intro j hj b hb
  cases hq : Q b with
  | false => rfl
  | true =>
    have := (headSat_drop Q s j).mpr ⟨b, hb, hq⟩
    rw [h4 j hj] at this; simp at this

theorem indexByteP_none (Q : Nat → Bool) (s : List Nat) (h : indexByteP Q s = none) :
    ∀ (j b : Nat), s[j]? = some b → Q b = false := by
  intro j b hb
  cases hq : Q b with
  | false => rfl
  | true =>
    have := (headSat_drop Q s j).mpr ⟨b, hb, hq⟩
    rw [firstSuffix_none _ s 0 h j] at this; simp at this

theorem indexByte_some (s : List Nat) (c i : Nat) (h : indexByte s c = some i) :
    s[i]? = some c ∧ ∀ j, j < i → s[j]? ≠ some c := by
  obtain ⟨⟨b, hb, hq⟩, h2⟩ := indexByteP_some _ s i h
  simp only [beq_iff_eq] at hq; subst hq
  exact ⟨hb, fun j hj hc => by have := h2 j hj _ hc; simp at this⟩

theorem indexByte_none (s : List Nat) (c : Nat) (h : indexByte s c = none) : ∀ (j : Nat), s[j]? ≠ some c := by
  intro j hc
  have := indexByteP_none _ s h j c hc; simp at this

theorem fold_eq_iff (b ch : Nat) : foldASCII b = foldASCII ch ↔
    (b = foldASCII ch ∨ (97 ≤ foldASCII ch ∧ foldASCII ch ≤ 122 ∧ b = foldASCII ch - 32)) := by
  unfold foldASCII
  split <;> split <;> omega

/-- `indexASCIIByteIgnoreCase(s, ch)` is the first byte that folds like `ch` -/
theorem indexASCIIByteIgnoreCase_spec (s : List Nat) (ch : Nat) :
    (∀ i, indexASCIIByteIgnoreCase s ch = some i → foldHit s ch i ∧ ∀ j, j < i → ¬ foldHit s ch j) ∧
    (indexASCIIByteIgnoreCase s ch = none → ∀ j, ¬ foldHit s ch j) := by
  have hit_iff : ∀ j, foldHit s ch j ↔ (s[j]? = some (foldASCII ch) ∨
      (97 ≤ foldASCII ch ∧ foldASCII ch ≤ 122 ∧ s[j]? = some (foldASCII ch - 32))) := by
    intro j
    constructor
    · rintro ⟨b, hb, hf⟩
      rcases (fold_eq_iff b ch).mp hf with h | ⟨h1, h2, h3⟩
      · left; rw [hb, h]
      · right; exact ⟨h1, h2, by rw [hb, h3]⟩
    · rintro (h | ⟨h1, h2, h3⟩)
      · exact ⟨_, h, (fold_eq_iff _ ch).mpr (Or.inl rfl)⟩
      · exact ⟨_, h3, (fold_eq_iff _ ch).mpr (Or.inr ⟨h1, h2, rfl⟩)⟩
  unfold indexASCIIByteIgnoreCase
  simp only
  by_cases hr : foldASCII ch < 97 ∨ foldASCII ch > 122
  · simp only [hr, if_true]
    constructor
    · intro i h
      obtain ⟨a1, a2⟩ := indexByte_some s _ i h
      refine ⟨(hit_iff i).mpr (Or.inl a1), ?_⟩
      intro j hj hh
      rcases (hit_iff j).mp hh with h' | ⟨h1, h2, _⟩
      · exact a2 j hj h'
      · omega
    · intro h j hh
      rcases (hit_iff j).mp hh with h' | ⟨h1, h2, _⟩
      · exact indexByte_none s _ h j h'
      · omega
  · simp only [hr, if_false]
    have hr' : 97 ≤ foldASCII ch ∧ foldASCII ch ≤ 122 := by omega
    cases hl : indexByte s (foldASCII ch) with
    | none =>
      have nl := indexByte_none s _ hl
      simp only
      constructor
      · intro i h
        obtain ⟨a1, a2⟩ := indexByte_some s _ i h
        refine ⟨(hit_iff i).mpr (Or.inr ⟨hr'.1, hr'.2, a1⟩), ?_⟩
        intro j hj hh
        rcases (hit_iff j).mp hh with h' | ⟨_, _, h'⟩
        · exact nl j h'
        · exact a2 j hj h'
      · intro h j hh
        rcases (hit_iff j).mp hh with h' | ⟨_, _, h'⟩
        · exact nl j h'
        · exact indexByte_none s _ h j h'
    | some l =>
      obtain ⟨l1, l2⟩ := indexByte_some s _ l hl
      cases hu : indexByte s (foldASCII ch - 32) with
      | none =>
        have nu := indexByte_none s _ hu
        simp only
        constructor
        · intro i h
          simp only [Option.some.injEq] at h; subst h
          refine ⟨(hit_iff l).mpr (Or.inl l1), ?_⟩
          intro j hj hh
          rcases (hit_iff j).mp hh with h' | ⟨_, _, h'⟩
          · exact l2 j hj h'
          · exact nu j h'
        · intro h; simp at h
      | some u =>
        obtain ⟨u1, u2⟩ := indexByte_some s _ u hu
        simp only
        constructor
        · intro i h
          by_cases hul : u < l
          · simp only [hul, if_true, Option.some.injEq] at h; subst h
            refine ⟨(hit_iff u).mpr (Or.inr ⟨hr'.1, hr'.2, u1⟩), ?_⟩
            intro j hj hh
            rcases (hit_iff j).mp hh with h' | ⟨_, _, h'⟩
            · exact l2 j (by omega) h'
            · exact u2 j hj h'
          · simp only [hul, if_false, Option.some.injEq] at h; subst h
            refine ⟨(hit_iff l).mpr (Or.inl l1), ?_⟩
            intro j hj hh
            rcases (hit_iff j).mp hh with h' | ⟨_, _, h'⟩
            · exact l2 j hj h'
            · exact u2 j (by omega) h'
        · intro h; split at h <;> simp at h

/-- `pre` occurs in `s` at byte offset `j` under ASCII case folding -/
def foldOcc (s pre : List Nat) (j : Nat) : Prop := prefixOf eqAsciiFold pre (s.drop j) = true

theorem foldOcc_fits (s pre : List Nat) (j : Nat) (h : foldOcc s pre j) : j + pre.length ≤ max j s.length := by
  have := prefixOf_length _ _ _ h; simp at this; omega

theorem foldOcc_head (s : List Nat) (c : Nat) (ps : List Nat) (j : Nat) (h : foldOcc s (c :: ps) j) : foldHit s c j := by
  unfold foldOcc at h
  cases hd : s.drop j with
  | nil => rw [hd] at h; simp [prefixOf] at h
  | cons t ts =>
    rw [hd] at h
    simp only [prefixOf, Bool.and_eq_true, eqAsciiFold, beq_iff_eq] at h
    have : s[j]? = some t := by
      have := congrArg (·[0]?) hd; simpa using this
    exact ⟨t, this, h.1⟩

theorem foldHit_drop (s : List Nat) (c start j : Nat) : foldHit (s.drop start) c j ↔ foldHit s c (start + j) := by
  unfold foldHit; simp [List.getElem?_drop]

theorem isicLoop_spec (s : List Nat) (c : Nat) (ps : List Nat) (hlen : (c :: ps).length ≤ s.length) :
    ∀ (fuel start : Nat), s.length + 1 ≤ start + fuel → (∀ j, j < start → ¬ foldOcc s (c :: ps) j) →
      (∀ i, isicLoop s (c :: ps) (s.length - (c :: ps).length) fuel start = some i →
        foldOcc s (c :: ps) i ∧ ∀ j, j < i → ¬ foldOcc s (c :: ps) j) ∧
      (isicLoop s (c :: ps) (s.length - (c :: ps).length) fuel start = none → ∀ j, ¬ foldOcc s (c :: ps) j) := by
  intro fuel
  induction fuel with
  | zero =>
    intro start hf hinv
    simp only [isicLoop]
    refine ⟨fun i h => by simp at h, fun _ j hj => ?_⟩
    by_cases hjs : j < start
    · exact hinv j hjs hj
    · have := foldOcc_fits s _ j hj; simp at this hlen; omega
  | succ fuel ih =>
    intro start hf hinv
    have late : ∀ j, s.length - (c :: ps).length < j → ¬ foldOcc s (c :: ps) j := by
      intro j hj ho
      have := foldOcc_fits s _ j ho; simp at this hlen hj; omega
    unfold isicLoop
    by_cases hse : start ≤ s.length - (c :: ps).length
    · simp only [hse, if_true, List.headD_cons]
      obtain ⟨sp1, sp2⟩ := indexASCIIByteIgnoreCase_spec (s.drop start) c
      cases hoff : indexASCIIByteIgnoreCase (s.drop start) c with
      | none =>
        simp only
        refine ⟨fun i h => by simp at h, fun _ j hj => ?_⟩
        by_cases hjs : j < start
        · exact hinv j hjs hj
        · have := sp2 hoff (j - start)
          rw [foldHit_drop, show start + (j - start) = j by omega] at this
          exact this (foldOcc_head s c ps j hj)
      | some offset =>
        obtain ⟨o1, o2⟩ := sp1 offset hoff
        simp only
        have skip : ∀ j, j < start + offset → ¬ foldOcc s (c :: ps) j := by
          intro j hj ho
          by_cases hjs : j < start
          · exact hinv j hjs ho
          · have := o2 (j - start) (by omega)
            rw [foldHit_drop, show start + (j - start) = j by omega] at this
            exact this (foldOcc_head s c ps j ho)
        by_cases hgt : start + offset > s.length - (c :: ps).length
        · simp only [hgt, if_true]
          refine ⟨fun i h => by simp at h, fun _ j hj => ?_⟩
          by_cases hjs : j < start + offset
          · exact skip j hjs hj
          · exact late j (by omega) hj
        · simp only [hgt, if_false]
          have heq : equalStringIgnoreCaseASCII ((s.drop (start + offset)).take (c :: ps).length) (c :: ps) =
              prefixOf eqAsciiFold (c :: ps) (s.drop (start + offset)) := by
            unfold equalStringIgnoreCaseASCII
            have : ¬ (((s.drop (start + offset)).take (c :: ps).length).length < (c :: ps).length) := by
              simp at hgt hlen ⊢; omega
            simp only [this, if_false]
            exact prefixOf_take _ _ _ _ (Nat.le_refl _)
          rw [heq]
          cases hocc : prefixOf eqAsciiFold (c :: ps) (s.drop (start + offset)) with
          | true =>
            simp only [if_true]
            refine ⟨fun i h => ?_, fun h => by simp at h⟩
            simp only [Option.some.injEq] at h; subst h
            exact ⟨hocc, skip⟩
          | false =>
            simp only [Bool.false_eq_true, if_false]
            apply ih (start + offset + 1) (by omega)
            intro j hj
            by_cases hje : j = start + offset
            · subst hje; unfold foldOcc; rw [hocc]; simp
            · exact skip j (by omega)
    · simp only [hse, if_false]
      refine ⟨fun i h => by simp at h, fun _ j hj => ?_⟩
      by_cases hjs : j < start
      · exact hinv j hjs hj
      · exact late j (by omega) hj

/-- **`helpers.IndexStringIgnoreCaseASCII(s, prefix)`** returns the first byte offset at which `prefix` occurs
    in `s` under ASCII case folding, and `-1` only when it occurs nowhere. -/
theorem indexStringIgnoreCaseASCII_spec (s pre : List Nat) :
    (∀ i, indexStringIgnoreCaseASCII s pre = some i → foldOcc s pre i ∧ ∀ j, j < i → ¬ foldOcc s pre j) ∧
    (indexStringIgnoreCaseASCII s pre = none → ∀ j, ¬ foldOcc s pre j) := by
  unfold indexStringIgnoreCaseASCII
  cases pre with
  | nil =>
    simp only [List.isEmpty_nil, if_true]
    exact ⟨fun i h => by simp at h; subst h; exact ⟨rfl, fun j hj => by omega⟩, fun h => by simp at h⟩
  | cons c ps =>
    simp only [List.isEmpty_cons, Bool.false_eq_true, if_false]
    by_cases hl : s.length < (c :: ps).length
    · simp only [hl, if_true]
      refine ⟨fun i h => by simp at h, fun _ j hj => ?_⟩
      have := prefixOf_length _ _ _ hj; simp at this hl; omega
    · simp only [hl, if_false]
      exact isicLoop_spec s c ps (by omega) (s.length + 1) 0 (by omega) (fun j hj => by omega)

/-! ## soundness of a filter answer; the loop rule -/

/-- what a sound answer `(candidate, ok)` from `startAt` is: "no" only if no attempt succeeds at a rune position
    whose byte offset is `≥ startAt`; a candidate is a rune boundary `≥ startAt` before which (from `startAt`)
    no attempt succeeds.  Rune positions `p` and byte offsets are related by `byteOff` (one rune per invalid byte). -/
def FilterPost (s : List Nat) (attempt : Nat → Option (Nat × Nat)) (startAt : Nat) (r : Nat × Bool) : Prop :=
  (r.2 = false → ∀ p, p ≤ (decodeB s).length → startAt ≤ byteOff s p → attempt p = none) ∧
  (r.2 = true → Bnd s r.1 ∧ startAt ≤ r.1 ∧
    ∀ p, p ≤ (decodeB s).length → startAt ≤ byteOff s p → byteOff s p < r.1 → attempt p = none)

/-- a filter is sound on the input `s` for the attempts of a program on the decoded runes of `s` -/
def StrFilterSound (s : List Nat) (attempt : Nat → Option (Nat × Nat)) (f : Filter) : Prop :=
  ∀ startAt, Bnd s startAt → FilterPost s attempt startAt (f s startAt)

theorem loop_rule (guard : Nat → Bool) (idx : Nat → Option Nat) (step : Nat → Step)
    (Inv : Nat → Prop) (Post : Nat × Bool → Prop) (bound : Nat)
    (hguard : ∀ s, guard s = true → s < bound)
    (hexit : ∀ s, Inv s → guard s = false → Post (0, false))
    (hnone : ∀ s, Inv s → guard s = true → idx s = none → Post (0, false))
    (hsome : ∀ s i, Inv s → guard s = true → idx s = some i →
      match step i with
      | .found c => Post (c, true)
      | .giveUp => Post (0, false)
      | .next s' => s < s' ∧ Inv s') :
    ∀ (fuel s : Nat), bound ≤ s + fuel → Inv s → Post (loop guard idx step fuel s) := by
  intro fuel
  induction fuel with
  | zero =>
    intro s hb hinv
    unfold loop
    apply hexit s hinv
    cases hg : guard s with
    | false => rfl
    | true => have := hguard s hg; omega
  | succ fuel ih =>
    intro s hb hinv
    unfold loop
    cases hg : guard s with
    | false => simpa using hexit s hinv hg
    | true =>
      simp only [if_true]
      cases hi : idx s with
      | none => simpa using hnone s hinv hg hi
      | some i =>
        have hstep := hsome s i hinv hg hi
        cases hs : step i with
        | found q => rw [hs] at hstep; simpa [hs] using hstep
        | giveUp => rw [hs] at hstep; simpa [hs] using hstep
        | next s' =>
          rw [hs] at hstep
          simp only [hs]
          exact ih s' (by omega) hstep.2

theorem byteOff_ge (s : List Nat) (k : Nat) (hk : k ≤ (decodeB s).length) : k ≤ byteOff s k := by
  unfold byteOff
  have h := Lemmas.Utf8.sum_eq_len_add_extra (((decodeB s).map (·.2)).take k)
    (fun w hw => width_pos s w (List.mem_of_mem_take hw))
  rw [h]; simp; omega

/-- the bytes that remain from a rune position are at least as many as the runes that remain -/
theorem remaining_bytes (s : List Nat) (p : Nat) (hp : p ≤ (decodeB s).length) :
    byteOff s p + ((decodeB s).length - p) ≤ s.length := by
  have h1 := byteOff_add s p ((decodeB s).length - p) hp
  rw [show p + ((decodeB s).length - p) = (decodeB s).length by omega, byteOff_len] at h1
  have h2 := byteOff_ge (s.drop (byteOff s p)) ((decodeB s).length - p)
    (by rw [decodeB_drop p s hp]; simp)
  omega

/-- the first guard of every filter: fewer bytes than `MinRequiredLength` remain -/
theorem minBytes_false (s : List Nat) (attempt : Nat → Option (Nat × Nat)) (minLen c : Nat)
    (hM : MinLenSound false (decodeB s).length minLen attempt)
    (h : hasMinRequiredBytes s c minLen = false) (hc : c ≤ s.length) :
    ∀ p, p ≤ (decodeB s).length → c ≤ byteOff s p → attempt p = none := by
  intro p hp hcp
  cases ha : attempt p with
  | none => rfl
  | some m =>
    exfalso
    have := Lemmas.Finders.minLen_ltr hM p hp (by rw [ha]; simp)
    have hr := remaining_bytes s p hp
    simp only [hasMinRequiredBytes, Bool.and_eq_false_iff, Bool.or_eq_false_iff, decide_eq_false_iff_not] at h
    omega

/-- **The shared argument of the three fixed-distance filters.**  `Hit k`: the searched item sits at rune `k`.
    If every match from rune `p` has a hit at `p + d`, the byte search `idx` returns the first hit at or after
    the search position, on a rune boundary, and the loop resumes no further than one rune behind a rejected
    hit, then the loop's answer is sound. -/
theorem fixedLoop_sound (input : List Nat) (attempt : Nat → Option (Nat × Nat)) (minLen d ks : Nat)
    (hks : ks ≤ (decodeB input).length)
    (Hit : Nat → Prop) (Good : Nat → Prop) (guard : Nat → Bool) (idx : Nat → Option Nat) (step : Nat → Step) (next : Nat → Nat)
    (hM : MinLenSound false (decodeB input).length minLen attempt)
    (hFact : ∀ p, p ≤ (decodeB input).length → attempt p ≠ none → Hit (p + d))
    (hHitlt : ∀ k, Hit k → k < (decodeB input).length)
    (hguardB : ∀ s, guard s = true → s < input.length + 1)
    (hG0 : Good (byteOff input ks))
    (hexit : ∀ s, Good s → guard s = false → ∀ k, Hit k → s ≤ byteOff input k → False)
    (hnone : ∀ s, Good s → guard s = true → idx s = none → ∀ k, Hit k → s ≤ byteOff input k → False)
    (hsome : ∀ s i, Good s → guard s = true → idx s = some i →
      s ≤ i ∧ step i = fixedStep input (byteOff input ks) d minLen i (next i) ∧
      ∃ ki, ki < (decodeB input).length ∧ byteOff input ki = i ∧
        (∀ k, Hit k → s ≤ byteOff input k → i ≤ byteOff input k) ∧
        i < next i ∧ next i ≤ byteOff input (ki + 1) ∧ Good (next i)) :
    FilterPost input attempt (byteOff input ks) (loop guard idx step (input.length + 2) (byteOff input ks)) := by
  have hn := byteOff_le_len input ks
  apply loop_rule guard idx step
    (fun s => byteOff input ks ≤ s ∧ Good s ∧
      ∀ p, ks ≤ p → p ≤ (decodeB input).length → attempt p ≠ none → s ≤ byteOff input (p + d))
    (FilterPost input attempt (byteOff input ks)) (input.length + 1) hguardB
  · -- guard fails
    rintro s ⟨h1, h2, h3⟩ hg
    refine ⟨fun _ p hp hsp => ?_, fun h => by simp at h⟩
    cases ha : attempt p with
    | none => rfl
    | some m =>
      exfalso
      have hne : attempt p ≠ none := by rw [ha]; simp
      have hkp : ks ≤ p := (byteOff_le_iff input ks p hks hp).mp hsp
      exact hexit s h2 hg (p + d) (hFact p hp hne) (h3 p hkp hp hne)
  · rintro s ⟨h1, h2, h3⟩ hg hi
    refine ⟨fun _ p hp hsp => ?_, fun h => by simp at h⟩
    cases ha : attempt p with
    | none => rfl
    | some m =>
      exfalso
      have hne : attempt p ≠ none := by rw [ha]; simp
      have hkp : ks ≤ p := (byteOff_le_iff input ks p hks hp).mp hsp
      exact hnone s h2 hg hi (p + d) (hFact p hp hne) (h3 p hkp hp hne)
  · rintro s i ⟨h1, h2, h3⟩ hg hi
    obtain ⟨hsi, hstep, ki, hki, hoff, hmin, hnx1, hnx2, hnx3⟩ := hsome s i h2 hg hi
    rw [hstep]
    subst hoff
    have hkski : ks ≤ ki := (byteOff_le_iff input ks ki hks (by omega)).mp (by omega)
    -- every match from `ks` on has its hit at or after `ki`
    have hall : ∀ p, ks ≤ p → p ≤ (decodeB input).length → attempt p ≠ none → ki ≤ p + d := by
      intro p hkp hp hne
      have hh := hFact p hp hne
      have := hmin (p + d) hh (h3 p hkp hp hne)
      exact (byteOff_le_iff input ki (p + d) (by omega) (by have := hHitlt _ hh; omega)).mp this
    unfold fixedStep
    rw [candidateStart_spec input ks d ki (by omega) hkski]
    by_cases hd : ks + d ≤ ki
    · simp only [hd, if_true]
      cases hmb : hasMinRequiredBytes input (byteOff input (ki - d)) minLen with
      | true =>
        simp only [if_true]
        refine ⟨fun h => by simp at h, fun _ => ⟨⟨ki - d, by omega, rfl⟩, byteOff_mono input _ _ (by omega), ?_⟩⟩
        intro p hp hsp hlt
        cases ha : attempt p with
        | none => rfl
        | some m =>
          exfalso
          have hne : attempt p ≠ none := by rw [ha]; simp
          have hkp : ks ≤ p := (byteOff_le_iff input ks p hks hp).mp hsp
          have := hall p hkp hp hne
          have := byteOff_mono input (ki - d) p (by omega)
          omega
      | false =>
        simp only [Bool.false_eq_true, if_false]
        refine ⟨fun _ p hp hsp => ?_, fun h => by simp at h⟩
        cases ha : attempt p with
        | none => rfl
        | some m =>
          exfalso
          have hne : attempt p ≠ none := by rw [ha]; simp
          have hkp : ks ≤ p := (byteOff_le_iff input ks p hks hp).mp hsp
          have h1' := hall p hkp hp hne
          have := minBytes_false input attempt minLen _ hM hmb (byteOff_le_len input _) p hp
            (byteOff_mono input (ki - d) p (by omega))
          rw [ha] at this; simp at this
    · simp only [hd, if_false]
      refine ⟨by omega, by omega, hnx3, ?_⟩
      intro p hkp hp hne
      have hh := hFact p hp hne
      have := byteOff_mono input (ki + 1) (p + d) (by omega)
      omega
  · omega
  · exact ⟨Nat.le_refl _, hG0, fun p hkp hp hne => byteOff_mono input _ _ (by omega)⟩

/-! ## the fixed-distance filters -/

theorem runesOf_ne_nil (lit : List Nat) (hne : lit ≠ []) : runesOf lit ≠ [] := by
  intro h
  have : decodeB lit = [] := by simpa [runesOf] using h
  exact hne ((decodeB_eq_nil lit).mp this)

/-- the runes of a non-empty clean literal at rune `k` of the input: `k` is inside the input and the bytes of the
    literal stand at the byte offset of `k` -/
theorem hit_bytes_exact (input lit : List Nat) (k : Nat) (hne : lit ≠ []) (hc : Clean lit)
    (h : prefixOf eqExact (runesOf lit) ((runesOf input).drop k) = true) :
    k < (decodeB input).length ∧ lit <+: input.drop (byteOff input k) := by
  have hk : k < (decodeB input).length := by
    by_cases hk : k < (decodeB input).length
    · exact hk
    · exfalso
      rw [List.drop_eq_nil_of_le (by rw [runesOf_length]; omega)] at h
      cases hr : runesOf lit with
      | nil => exact runesOf_ne_nil lit hne hr
      | cons r rs => rw [hr] at h; simp [prefixOf] at h
  refine ⟨hk, bytes_of_runes_exact lit _ hc ?_⟩
  rw [runesOf_drop input k (by omega)]; exact h

theorem prefix_length_le {l1 l2 : List Nat} (h : l1 <+: l2) : l1.length ≤ l2.length := h.length_le

/-- **`stringFixedDistanceStringFilter`**: if every match has the (clean, non-empty) literal `d` RUNES after its
    start and `MinRequiredLength` (in runes) is sound, the filter — which walks BYTES — loses no match. -/
theorem fixedStringFilter_sound (lit : List Nat) (d minLen : Nat) (input : List Nat) (attempt : Nat → Option (Nat × Nat))
    (hne : lit ≠ []) (hc : Clean lit)
    (hC : ∀ p, p ≤ (decodeB input).length → attempt p ≠ none → occursAt eqExact (runesOf lit) (runesOf input) (p + d) = true)
    (hM : MinLenSound false (decodeB input).length minLen attempt) :
    StrFilterSound input attempt (fixedStringFilterBody lit d minLen) := by
  rintro _ ⟨ks, hks, rfl⟩
  unfold fixedStringFilterBody
  cases hmb : hasMinRequiredBytes input (byteOff input ks) minLen with
  | false =>
    simp only [Bool.not_false, if_true]
    exact ⟨fun _ => minBytes_false input attempt minLen _ hM hmb (byteOff_le_len input ks), fun h => by simp at h⟩
  | true =>
    simp only [Bool.not_true, Bool.false_eq_true, if_false]
    apply fixedLoop_sound input attempt minLen d ks hks
      (fun k => prefixOf eqExact (runesOf lit) ((runesOf input).drop k) = true) (fun _ => True)
      _ (idxOf (fun u => lit.isPrefixOf u) input) _ (fun i => i + 1) hM
    · intro p hp hne'; exact hC p hp hne'
    · intro k hk; exact (hit_bytes_exact input lit k hne hc hk).1
    · intro s hg; simp at hg; omega
    · trivial
    · intro s _ hg k hk hsk
      obtain ⟨_, hp⟩ := hit_bytes_exact input lit k hne hc hk
      have hl := prefix_length_le hp
      rw [List.length_drop] at hl
      have hb := byteOff_le_len input k
      have hpos : 0 < lit.length := List.length_pos_iff.mpr hne
      simp only [decide_eq_false_iff_not] at hg; omega
    · intro s _ _ hi k hk hsk
      obtain ⟨_, hp⟩ := hit_bytes_exact input lit k hne hc hk
      have := idxOf_none _ input s hi (byteOff input k) hsk
      rw [List.isPrefixOf_iff_prefix.mpr hp] at this; simp at this
    · intro s i _ _ hi
      obtain ⟨h1, h2, h3, h4⟩ := idxOf_some _ input s i hi
      have hp : lit <+: input.drop i := List.isPrefixOf_iff_prefix.mp h3
      obtain ⟨ki, hki, hoff⟩ := bnd_of_clean_prefix input lit i hne hc hp
      have hilt : i < input.length := by
        have := prefix_length_le hp
        have : 0 < lit.length := List.length_pos_iff.mpr hne
        simp at *; omega
      have hkilt : ki < (decodeB input).length := by
        by_cases h : ki < (decodeB input).length
        · exact h
        · have : ki = (decodeB input).length := by omega
          rw [this, byteOff_len] at hoff; omega
      refine ⟨h1, rfl, ki, hkilt, hoff, ?_, by omega, ?_, trivial⟩
      · intro k hk hsk
        obtain ⟨_, hpk⟩ := hit_bytes_exact input lit k hne hc hk
        by_cases hle : i ≤ byteOff input k
        · exact hle
        · have := h4 (byteOff input k) hsk (by omega)
          rw [List.isPrefixOf_iff_prefix.mpr hpk] at this; simp at this
      · have := byteOff_lt input ki (ki + 1) (by omega) (by omega); omega

/-- an ASCII rune at rune `k`: the byte at the byte offset of `k` is that rune -/
theorem ascii_at (input : List Nat) (k c : Nat) (h : (runesOf input)[k]? = some c) (hc : c < 128) :
    k < (decodeB input).length ∧ input[byteOff input k]? = some c ∧ byteOff input (k + 1) = byteOff input k + 1 := by
  have hk : k < (decodeB input).length := by
    obtain ⟨hlt, _⟩ := List.getElem?_eq_some_iff.mp h
    rwa [runesOf_length] at hlt
  rw [runesOf_get input k hk] at h
  simp only [Option.some.injEq] at h
  obtain ⟨t, hu, hw⟩ := ascii_of_decode _ (decodeB_get input k hk).2 (by rw [h]; exact hc)
  refine ⟨hk, ?_, by rw [byteOff_succ_at input k hk, hw]⟩
  have := congrArg (·[0]?) hu
  simp only [List.getElem?_drop, Nat.add_zero, List.getElem?_cons_zero] at this
  rw [this, h]

/-- a byte below 0x80 stands on a rune boundary -/
theorem bnd_of_ascii_byte (input : List Nat) (i b : Nat) (h : input[i]? = some b) (hb : b < 128) :
    ∃ ki, ki < (decodeB input).length ∧ byteOff input ki = i := by
  have hi : i < input.length := by
    obtain ⟨hlt, _⟩ := List.getElem?_eq_some_iff.mp h; exact hlt
  obtain ⟨ki, hki, hoff⟩ := bnd_of_not_cont input i (by omega) (by
    intro _
    have : input.getD i 0 = b := by simp [List.getD_eq_getElem?_getD, h]
    rw [this]; simp [isCont]; omega)
  refine ⟨ki, ?_, hoff⟩
  by_cases hh : ki < (decodeB input).length
  · exact hh
  · have : ki = (decodeB input).length := by omega
    rw [this, byteOff_len] at hoff; omega

/-- **`stringFixedDistanceSetFilter`** with an ASCII scanner test `Q` (one of `Chars`, or the `Range`): if every
    match has a rune satisfying `Q` at `d` runes after its start, the filter loses no match. -/
theorem setFilter_sound (sc : Scanner) (Q : Nat → Bool) (minLen : Nat) (input : List Nat) (attempt : Nat → Option (Nat × Nat))
    (hQ : ∀ c, Q c = true → c < 128)
    (hidx : ∀ u, sc.index u = indexByteP Q u)
    (hC : ∀ p, p ≤ (decodeB input).length → attempt p ≠ none → memAt Q (runesOf input) (p + sc.distance) = true)
    (hM : MinLenSound false (decodeB input).length minLen attempt) :
    StrFilterSound input attempt (setFilterBody sc minLen) := by
  rintro _ ⟨ks, hks, rfl⟩
  unfold setFilterBody
  cases hmb : hasMinRequiredBytes input (byteOff input ks) minLen with
  | false =>
    simp only [Bool.not_false, if_true]
    exact ⟨fun _ => minBytes_false input attempt minLen _ hM hmb (byteOff_le_len input ks), fun h => by simp at h⟩
  | true =>
    simp only [Bool.not_true, Bool.false_eq_true, if_false]
    have hidx' : (fun s => (sc.index (input.drop s)).map (s + ·)) = idxOf (headSat Q) input := by
      funext s; rw [hidx]; rfl
    rw [hidx']
    have hitB : ∀ k, memAt Q (runesOf input) k = true →
        k < (decodeB input).length ∧ headSat Q (input.drop (byteOff input k)) = true ∧
        byteOff input (k + 1) = byteOff input k + 1 := by
      intro k hk
      unfold memAt at hk
      cases hg : (runesOf input)[k]? with
      | none => rw [hg] at hk; simp at hk
      | some c =>
        rw [hg] at hk
        obtain ⟨a1, a2, a3⟩ := ascii_at input k c hg (hQ c hk)
        exact ⟨a1, (headSat_drop Q input _).mpr ⟨c, a2, hk⟩, a3⟩
    apply fixedLoop_sound input attempt minLen sc.distance ks hks
      (fun k => memAt Q (runesOf input) k = true) (fun _ => True)
      _ (idxOf (headSat Q) input) _ (fun i => i + 1) hM
    · exact hC
    · intro k hk; exact (hitB k hk).1
    · intro s hg; simp at hg; omega
    · trivial
    · intro s _ hg k hk hsk
      obtain ⟨a1, _, a3⟩ := hitB k hk
      have := byteOff_le_len input (k + 1)
      simp at hg; omega
    · intro s _ _ hi k hk hsk
      have := idxOf_none _ input s hi (byteOff input k) hsk
      rw [(hitB k hk).2.1] at this; simp at this
    · intro s i _ _ hi
      obtain ⟨h1, h2, h3, h4⟩ := idxOf_some _ input s i hi
      obtain ⟨b, hb, hqb⟩ := (headSat_drop Q input i).mp h3
      obtain ⟨ki, hkilt, hoff⟩ := bnd_of_ascii_byte input i b hb (hQ b hqb)
      refine ⟨h1, rfl, ki, hkilt, hoff, ?_, by omega, ?_, trivial⟩
      · intro k hk hsk
        by_cases hle : i ≤ byteOff input k
        · exact hle
        · have := h4 (byteOff input k) hsk (by omega)
          rw [(hitB k hk).2.1] at this; simp at this
      · have := byteOff_lt input ki (ki + 1) (by omega) (by omega); omega

/-! ### `strings.IndexRune` from a rune boundary -/

theorem encodeRune_head (ch : Nat) (h1 : ¬ ch < 0x80) : ∃ b t, encodeRune ch = b :: t ∧ isCont b = false := by
  unfold encodeRune
  simp only [h1, if_false]
  split
  · exact ⟨_, _, rfl, by simp [isCont]; omega⟩
  · split
    · exact ⟨_, _, rfl, by simp [isCont]⟩
    · split
      · exact ⟨_, _, rfl, by simp [isCont]; omega⟩
      · exact ⟨_, _, rfl, by simp [isCont]; omega⟩

theorem lt_len_of_bnd (input : List Nat) (ki i : Nat) (hki : ki ≤ (decodeB input).length) (hoff : byteOff input ki = i)
    (hi : i < input.length) : ki < (decodeB input).length := by
  by_cases h : ki < (decodeB input).length
  · exact h
  · have : ki = (decodeB input).length := by omega
    rw [this, byteOff_len] at hoff; omega

theorem indexRune_spec (input : List Nat) (ch s : Nat) (hB : Bnd input s) :
    (∀ i, (indexRune (input.drop s) ch).map (s + ·) = some i →
      s ≤ i ∧ ∃ ki, ki < (decodeB input).length ∧ byteOff input ki = i ∧
        ∀ k, (runesOf input)[k]? = some ch → s ≤ byteOff input k → i ≤ byteOff input k) ∧
    ((indexRune (input.drop s) ch).map (s + ·) = none →
      ∀ k, (runesOf input)[k]? = some ch → s ≤ byteOff input k → False) := by
  unfold indexRune
  by_cases h1 : ch < 0x80
  · -- a byte
    simp only [h1, if_true]
    have hidx : (indexByte (input.drop s) ch).map (s + ·) = idxOf (headSat (· == ch)) input s := rfl
    rw [hidx]
    have hitB : ∀ k, (runesOf input)[k]? = some ch → headSat (· == ch) (input.drop (byteOff input k)) = true := by
      intro k hk
      obtain ⟨_, a2, _⟩ := ascii_at input k ch hk h1
      exact (headSat_drop _ input _).mpr ⟨ch, a2, by simp⟩
    constructor
    · intro i hi
      obtain ⟨a1, a2, a3, a4⟩ := idxOf_some _ input s i hi
      obtain ⟨b, hb, hqb⟩ := (headSat_drop _ input i).mp a3
      simp only [beq_iff_eq] at hqb; subst hqb
      obtain ⟨ki, hkilt, hoff⟩ := bnd_of_ascii_byte input i b hb h1
      refine ⟨a1, ki, hkilt, hoff, ?_⟩
      intro k hk hsk
      by_cases hle : i ≤ byteOff input k
      · exact hle
      · have := a4 (byteOff input k) hsk (by omega)
        rw [hitB k hk] at this; simp at this
    · intro hi k hk hsk
      have := idxOf_none _ input s hi (byteOff input k) hsk
      rw [hitB k hk] at this; simp at this
  · simp only [h1, if_false]
    by_cases h2 : ch = 0xFFFD
    · -- U+FFFD: the `range` loop from `s`
      simp only [h2, if_true]
      obtain ⟨ks, hks, rfl⟩ := hB
      rw [decodeB_drop ks input hks]
      constructor
      · intro i hi
        cases hf : firstSeg (· == 0xFFFD) ((decodeB input).drop ks) 0 with
        | none => rw [hf] at hi; simp at hi
        | some j =>
          rw [hf] at hi
          simp only [Option.map_some, Option.some.injEq] at hi
          obtain ⟨k', r, w, g1, g2, g3, g4⟩ := firstSeg_some _ _ 0 j hf
          have hk'lt : ks + k' < (decodeB input).length := by
            have := (List.getElem?_eq_some_iff.mp g1).1
            simp at this; omega
          have hj : j = byteOff (input.drop (byteOff input ks)) k' := by
            have e := decodeB_drop ks input hks
            show j = (((decodeB (input.drop (byteOff input ks))).map (·.2)).take k').sum
            rw [e]; simpa using g3
          have hoff : byteOff input (ks + k') = i := by
            rw [byteOff_add input ks k' hks, ← hj]; exact hi
          refine ⟨by omega, ks + k', hk'lt, hoff, ?_⟩
          intro k hk hsk
          have hklt : k < (decodeB input).length := by
            have := (List.getElem?_eq_some_iff.mp hk).1; rwa [runesOf_length] at this
          have hksk : ks ≤ k := (byteOff_le_iff input ks k hks (by omega)).mp hsk
          rw [← hoff]
          apply byteOff_mono
          by_cases hle : ks + k' ≤ k
          · exact hle
          · exfalso
            have hseg : ((decodeB input).drop ks)[k - ks]? = (decodeB input)[k]? := by
              rw [List.getElem?_drop]; congr 1; omega
            cases hs : (decodeB input)[k]? with
            | none =>
              have := List.getElem?_eq_none_iff.mp hs; omega
            | some seg =>
              have hr : seg.1 = 0xFFFD := by
                unfold runesOf at hk
                rw [List.getElem?_map, hs] at hk
                simpa using hk
              have := g4 (k - ks) seg.1 seg.2 (by omega) (by rw [hseg, hs])
              rw [hr] at this; simp at this
      · intro hi k hk hsk
        cases hf : firstSeg (· == 0xFFFD) ((decodeB input).drop ks) 0 with
        | some j => rw [hf] at hi; simp at hi
        | none =>
          have hklt : k < (decodeB input).length := by
            have := (List.getElem?_eq_some_iff.mp hk).1; rwa [runesOf_length] at this
          have hksk : ks ≤ k := (byteOff_le_iff input ks k hks (by omega)).mp hsk
          cases hs : (decodeB input)[k]? with
          | none => have := List.getElem?_eq_none_iff.mp hs; omega
          | some seg =>
            have hr : seg.1 = 0xFFFD := by
              unfold runesOf at hk
              rw [List.getElem?_map, hs] at hk
              simpa using hk
            have hmem : seg ∈ (decodeB input).drop ks := by
              apply List.mem_iff_getElem?.mpr
              exact ⟨k - ks, by rw [List.getElem?_drop, show ks + (k - ks) = k by omega]; exact hs⟩
            have := firstSeg_none _ _ 0 hf seg hmem
            rw [hr] at this; simp at this
    · simp only [h2, if_false]
      cases hv : validRune ch with
      | false =>
        simp only [Bool.not_false, if_true, Option.map_none]
        refine ⟨fun i hi => by simp at hi, fun _ k hk _ => ?_⟩
        have := runesOf_valid input ch (List.mem_of_getElem? hk)
        rw [hv] at this; simp at this
      | true =>
        simp only [Bool.not_true, Bool.false_eq_true, if_false]
        have hidx : (indexBytes (input.drop s) (encodeRune ch)).map (s + ·) = idxOf (fun u => (encodeRune ch).isPrefixOf u) input s := rfl
        rw [hidx]
        have hitB : ∀ k, (runesOf input)[k]? = some ch → (encodeRune ch).isPrefixOf (input.drop (byteOff input k)) = true := by
          intro k hk
          exact List.isPrefixOf_iff_prefix.mpr (encode_at input k ch hk h2).2
        constructor
        · intro i hi
          obtain ⟨a1, a2, a3, a4⟩ := idxOf_some _ input s i hi
          have hp : encodeRune ch <+: input.drop i := List.isPrefixOf_iff_prefix.mp a3
          obtain ⟨b, t, hbt, hcont⟩ := encodeRune_head ch h1
          obtain ⟨rest, hrest⟩ := hp
          have hilt : i < input.length := by
            have := congrArg List.length hrest
            rw [hbt] at this; simp at this; omega
          have hgi : input.getD i 0 = b := by
            have := getD_drop input i 0
            rw [← hrest, hbt] at this; simpa using this.symm
          obtain ⟨ki, hki, hoff⟩ := bnd_of_not_cont input i (by omega) (fun _ => by rw [hgi]; exact hcont)
          refine ⟨a1, ki, lt_len_of_bnd input ki i hki hoff hilt, hoff, ?_⟩
          intro k hk hsk
          by_cases hle : i ≤ byteOff input k
          · exact hle
          · have := a4 (byteOff input k) hsk (by omega)
            rw [hitB k hk] at this; simp at this
        · intro hi k hk hsk
          have := idxOf_none _ input s hi (byteOff input k) hsk
          rw [hitB k hk] at this; simp at this

/-- **`stringFixedDistanceCharFilter`**: if every match has the rune `ch` `d` RUNES after its start — for U+FFFD
    that includes every invalid byte of the input — the filter loses no match.  (The resumption
    `searchAt = byteIndex + size` uses the width of the rune actually found: one byte for an invalid byte.) -/
theorem fixedCharFilter_sound (ch d minLen : Nat) (input : List Nat) (attempt : Nat → Option (Nat × Nat))
    (hC : ∀ p, p ≤ (decodeB input).length → attempt p ≠ none → (runesOf input)[p + d]? = some ch)
    (hM : MinLenSound false (decodeB input).length minLen attempt) :
    StrFilterSound input attempt (fixedCharFilterBody ch d minLen) := by
  rintro _ ⟨ks, hks, rfl⟩
  unfold fixedCharFilterBody
  cases hmb : hasMinRequiredBytes input (byteOff input ks) minLen with
  | false =>
    simp only [Bool.not_false, if_true]
    exact ⟨fun _ => minBytes_false input attempt minLen _ hM hmb (byteOff_le_len input ks), fun h => by simp at h⟩
  | true =>
    simp only [Bool.not_true, Bool.false_eq_true, if_false]
    apply fixedLoop_sound input attempt minLen d ks hks
      (fun k => (runesOf input)[k]? = some ch) (Bnd input)
      _ _ _ (fun i => i + (decodeRune (input.drop i)).2) hM hC
    · intro k hk
      have := (List.getElem?_eq_some_iff.mp hk).1; rwa [runesOf_length] at this
    · intro s hg; simp at hg; omega
    · exact ⟨ks, hks, rfl⟩
    · intro s _ hg k hk hsk
      have := byteOff_le_len input k
      simp at hg; omega
    · intro s hB _ hi k hk hsk
      exact (indexRune_spec input ch s hB).2 hi k hk hsk
    · intro s i hB _ hi
      obtain ⟨a1, ki, hkilt, hoff, hmin⟩ := (indexRune_spec input ch s hB).1 i hi
      have hw := decodeRune_size_pos _ (decodeB_get input ki hkilt).2
      have hsucc := byteOff_succ_at input ki hkilt
      rw [hoff] at hw hsucc
      refine ⟨a1, ?_, ki, hkilt, hoff, hmin, by omega, by omega, ⟨ki + 1, by omega, hsucc⟩⟩
      have hne : ¬ ((decodeRune (input.drop i)).2 = 0) := by omega
      simp only [hne, if_false]
      unfold StringFilter.fixedStep
      cases candidateStart input (byteOff input ks) d i with
      | none => rfl
      | some c => simp only; cases hasMinRequiredBytes input c minLen <;> rfl

/-! ## the prefix filters -/

/-- a relative search result `r` from `s` is the FIRST place `≥ s` where `Occ` holds -/
def FirstOcc (Occ : Nat → Prop) (s : Nat) (r : Option Nat) : Prop :=
  (∀ o, r = some o → Occ (s + o) ∧ ∀ j, s ≤ j → j < s + o → ¬ Occ j) ∧ (r = none → ∀ j, s ≤ j → ¬ Occ j)

/-- `pre` (bytes) occurs at byte offset `j`: exactly, or under ASCII folding -/
def occB (ic : Bool) (input pre : List Nat) (j : Nat) : Prop :=
  if ic then foldOcc input pre j else pre <+: input.drop j

theorem firstOcc_search (ic : Bool) (input pre : List Nat) (s : Nat) :
    FirstOcc (occB ic input pre) s
      (if ic then indexStringIgnoreCaseASCII (input.drop s) pre else indexBytes (input.drop s) pre) := by
  cases ic with
  | true =>
    simp only [if_true, occB]
    obtain ⟨h1, h2⟩ := indexStringIgnoreCaseASCII_spec (input.drop s) pre
    have hd : ∀ j, foldOcc (input.drop s) pre j ↔ foldOcc input pre (s + j) := by
      intro j; unfold foldOcc; rw [List.drop_drop]
    constructor
    · intro o ho
      obtain ⟨a, b⟩ := h1 o ho
      refine ⟨(hd o).mp a, fun j hj1 hj2 hc => b (j - s) (by omega) ((hd _).mpr (by rwa [show s + (j - s) = j by omega]))⟩
    · intro hn j hj hc
      exact h2 hn (j - s) ((hd _).mpr (by rwa [show s + (j - s) = j by omega]))
  | false =>
    simp only [Bool.false_eq_true, if_false, occB]
    constructor
    · intro o ho
      have : idxOf (fun u => pre.isPrefixOf u) input s = some (s + o) := by
        unfold idxOf; unfold indexBytes at ho; rw [ho]; rfl
      obtain ⟨_, _, a3, a4⟩ := idxOf_some _ input s _ this
      exact ⟨List.isPrefixOf_iff_prefix.mp a3, fun j hj1 hj2 hc => by
        have := a4 j hj1 hj2; rw [List.isPrefixOf_iff_prefix.mpr hc] at this; simp at this⟩
    · intro hn j hj hc
      have : idxOf (fun u => pre.isPrefixOf u) input s = none := by
        unfold idxOf; unfold indexBytes at hn; rw [hn]; rfl
      have := idxOf_none _ input s this j hj
      rw [List.isPrefixOf_iff_prefix.mpr hc] at this; simp at this

/-- the condition under which the byte search for `pre` is meaningful: valid UTF-8 without U+FFFD, or ASCII when
    the comparison folds ASCII case -/
def PrefixOK (ic : Bool) (pre : List Nat) : Prop := if ic then isASCIIString pre = true else Clean pre

/-- the rune-level fact: the runes of `pre` stand at rune `p` (exactly, or under ASCII folding) -/
def runeOcc (ic : Bool) (input pre : List Nat) (p : Nat) : Prop :=
  occursAt (if ic then eqAsciiFold else eqExact) (runesOf pre) (runesOf input) p = true

theorem occB_of_runeOcc (ic : Bool) (input pre : List Nat) (p : Nat) (hp : p ≤ (decodeB input).length)
    (hok : PrefixOK ic pre) (h : runeOcc ic input pre p) : occB ic input pre (byteOff input p) := by
  unfold runeOcc occursAt at h
  rw [← runesOf_drop input p hp] at h
  cases ic with
  | true =>
    simp only [PrefixOK, if_true] at hok
    simp only [if_true, occB] at h ⊢
    rw [runesOf_ascii pre hok] at h
    exact bytes_of_runes_fold pre _ hok h
  | false =>
    simp only [PrefixOK, Bool.false_eq_true, if_false] at hok
    simp only [Bool.false_eq_true, if_false, occB] at h ⊢
    exact bytes_of_runes_exact pre _ hok h

theorem bnd_of_occB (ic : Bool) (input pre : List Nat) (j : Nat) (hne : pre ≠ []) (hok : PrefixOK ic pre)
    (h : occB ic input pre j) : Bnd input j := by
  cases ic with
  | true =>
    simp only [PrefixOK, if_true] at hok
    simp only [if_true, occB] at h
    exact bnd_of_fold_prefix input pre j hne hok h
  | false =>
    simp only [PrefixOK, Bool.false_eq_true, if_false] at hok
    simp only [Bool.false_eq_true, if_false, occB] at h
    exact bnd_of_clean_prefix input pre j hne hok h

theorem occB_nil (ic : Bool) (input : List Nat) (j : Nat) : occB ic input [] j := by
  cases ic <;> simp [occB, foldOcc, prefixOf]

/-- **`stringIndexPrefixFilter`** (case-sensitive, or ASCII ignore-case): if every match starts with the runes
    of the prefix, the first BYTE occurrence of the prefix at or after `startAt` is a sound candidate. -/
theorem prefixFilter_sound (pre : List Nat) (ic : Bool) (minLen : Nat) (input : List Nat) (attempt : Nat → Option (Nat × Nat))
    (hne : pre ≠ []) (hok : PrefixOK ic pre)
    (hP : ∀ p, p ≤ (decodeB input).length → attempt p ≠ none → runeOcc ic input pre p)
    (hM : MinLenSound false (decodeB input).length minLen attempt) :
    StrFilterSound input attempt (prefixFilterBody pre ic minLen) := by
  rintro _ ⟨ks, hks, rfl⟩
  unfold prefixFilterBody
  cases hmb : hasMinRequiredBytes input (byteOff input ks) minLen with
  | false =>
    simp only [Bool.not_false, if_true]
    exact ⟨fun _ => minBytes_false input attempt minLen _ hM hmb (byteOff_le_len input ks), fun h => by simp at h⟩
  | true =>
    simp only [Bool.not_true, Bool.false_eq_true, if_false]
    obtain ⟨f1, f2⟩ := firstOcc_search ic input pre (byteOff input ks)
    have hocc : ∀ p, p ≤ (decodeB input).length → attempt p ≠ none → occB ic input pre (byteOff input p) :=
      fun p hp hne' => occB_of_runeOcc ic input pre p hp hok (hP p hp hne')
    cases hr : (if ic then indexStringIgnoreCaseASCII (input.drop (byteOff input ks)) pre else indexBytes (input.drop (byteOff input ks)) pre) with
    | none =>
      simp only
      refine ⟨fun _ p hp hsp => ?_, fun h => by simp at h⟩
      cases ha : attempt p with
      | none => rfl
      | some m => exact absurd (hocc p hp (by rw [ha]; simp)) (f2 hr _ hsp)
    | some o =>
      simp only
      obtain ⟨g1, g2⟩ := f1 o hr
      refine ⟨fun h => by simp at h, fun _ => ⟨bnd_of_occB ic input pre _ hne hok g1, by omega, ?_⟩⟩
      intro p hp hsp hlt
      cases ha : attempt p with
      | none => rfl
      | some m => exact absurd (hocc p hp (by rw [ha]; simp)) (g2 _ hsp hlt)

/-! ### `indexAnyPrefixFallback` -/

theorem foldl_bestOf (srch : List Nat → Option Nat) : ∀ (prefixes : List (List Nat)) (init : Option Nat),
    let best := prefixes.foldl (fun b pre => bestOf b (srch pre)) init
    (best = none → init = none ∧ ∀ pre ∈ prefixes, srch pre = none) ∧
    (∀ b, best = some b → (init = some b ∨ ∃ pre ∈ prefixes, srch pre = some b) ∧
      (∀ i, init = some i → b ≤ i) ∧ ∀ pre ∈ prefixes, ∀ o, srch pre = some o → b ≤ o) := by
  intro prefixes
  induction prefixes with
  | nil =>
    intro init
    simp only [List.foldl_nil]
    exact ⟨fun h => ⟨h, by simp⟩, fun b h => ⟨Or.inl h, fun i hi => by rw [h] at hi; simp at hi; omega, by simp⟩⟩
  | cons pre rest ih =>
    intro init
    simp only [List.foldl_cons]
    obtain ⟨i1, i2⟩ := ih (bestOf init (srch pre))
    have hb : ∀ v, bestOf init (srch pre) = some v →
        (init = some v ∨ srch pre = some v) ∧ (∀ i, init = some i → v ≤ i) ∧ (∀ o, srch pre = some o → v ≤ o) := by
      intro v hv
      unfold bestOf at hv
      cases hs : srch pre with
      | none => rw [hs] at hv; simp at hv; exact ⟨Or.inl hv, fun i hi => by rw [hv] at hi; simp at hi; omega, fun o ho => by simp at ho⟩
      | some o =>
        rw [hs] at hv
        cases hi : init with
        | none => rw [hi] at hv; simp at hv; subst hv; exact ⟨Or.inr rfl, fun i h => by simp at h, fun o' ho' => by simp at ho'; omega⟩
        | some b =>
          rw [hi] at hv; simp only at hv
          split at hv
          · simp at hv; subst hv
            exact ⟨Or.inr rfl, fun i h => by simp at h; omega, fun o' ho' => by simp at ho'; omega⟩
          · simp at hv; subst hv
            exact ⟨Or.inl rfl, fun i h => by simp at h; omega, fun o' ho' => by simp at ho'; omega⟩
    have hn : bestOf init (srch pre) = none → init = none ∧ srch pre = none := by
      intro h
      unfold bestOf at h
      cases hs : srch pre with
      | none => rw [hs] at h; simp at h; exact ⟨h, rfl⟩
      | some o => rw [hs] at h; cases init <;> simp at h; split at h <;> simp at h
    constructor
    · intro h
      obtain ⟨a, b⟩ := i1 h
      obtain ⟨c, d⟩ := hn a
      exact ⟨c, fun p hp => by rcases List.mem_cons.mp hp with rfl | hp; exact d; exact b p hp⟩
    · intro b h
      obtain ⟨a1, a2, a3⟩ := i2 b h
      refine ⟨?_, ?_, ?_⟩
      · rcases a1 with a1 | ⟨p, hp, hs⟩
        · rcases (hb b a1).1 with h' | h'
          · exact Or.inl h'
          · exact Or.inr ⟨pre, by simp, h'⟩
        · exact Or.inr ⟨p, by simp [hp], hs⟩
      · intro i hi
        cases hv : bestOf init (srch pre) with
        | none => rw [(hn hv).1] at hi; simp at hi
        | some v => have := a2 v hv; have := (hb v hv).2.1 i hi; omega
      · intro p hp o ho
        rcases List.mem_cons.mp hp with rfl | hp
        · cases hv : bestOf init (srch p) with
          | none => rw [(hn hv).2] at ho; simp at ho
          | some v => have := a2 v hv; have := (hb v hv).2.2 o ho; omega
        · exact a3 p hp o ho

/-- **`indexAnyPrefixFallback`**: if every match starts with the runes of ONE of the prefixes, the smallest first
    byte occurrence over all prefixes is a sound candidate (every prefix is searched in the whole rest of the
    input — the seeded change C02b truncated the haystack). -/
theorem prefixesFallback_sound (prefixes : List (List Nat)) (ic : Bool) (minLen : Nat) (input : List Nat)
    (attempt : Nat → Option (Nat × Nat))
    (hok : ∀ pre ∈ prefixes, PrefixOK ic pre)
    (hP : ∀ p, p ≤ (decodeB input).length → attempt p ≠ none → ∃ pre ∈ prefixes, runeOcc ic input pre p)
    (hM : MinLenSound false (decodeB input).length minLen attempt) :
    StrFilterSound input attempt (indexAnyPrefixFallback prefixes ic minLen) := by
  rintro _ ⟨ks, hks, rfl⟩
  unfold indexAnyPrefixFallback
  cases hmb : hasMinRequiredBytes input (byteOff input ks) minLen with
  | false =>
    simp only [Bool.not_false, if_true]
    exact ⟨fun _ => minBytes_false input attempt minLen _ hM hmb (byteOff_le_len input ks), fun h => by simp at h⟩
  | true =>
    simp only [Bool.not_true, Bool.false_eq_true, if_false]
    have hsp := foldl_bestOf (fun pre => if ic then indexStringIgnoreCaseASCII (input.drop (byteOff input ks)) pre
        else indexBytes (input.drop (byteOff input ks)) pre) prefixes none
    simp only at hsp
    obtain ⟨s1, s2⟩ := hsp
    have hocc : ∀ p, p ≤ (decodeB input).length → attempt p ≠ none → ∃ pre ∈ prefixes, occB ic input pre (byteOff input p) := by
      intro p hp hne'
      obtain ⟨pre, hpre, ho⟩ := hP p hp hne'
      exact ⟨pre, hpre, occB_of_runeOcc ic input pre p hp (hok pre hpre) ho⟩
    cases hbest : prefixes.foldl (fun best pre => bestOf best (if ic then indexStringIgnoreCaseASCII (input.drop (byteOff input ks)) pre
        else indexBytes (input.drop (byteOff input ks)) pre)) none with
    | none =>
      simp only
      refine ⟨fun _ p hp hsp => ?_, fun h => by simp at h⟩
      cases ha : attempt p with
      | none => rfl
      | some m =>
        exfalso
        obtain ⟨pre, hpre, ho⟩ := hocc p hp (by rw [ha]; simp)
        exact (firstOcc_search ic input pre (byteOff input ks)).2 ((s1 hbest).2 pre hpre) _ hsp ho
    | some b =>
      simp only
      obtain ⟨t1, _, t3⟩ := s2 b hbest
      rcases t1 with t1 | ⟨pre0, hpre0, hs0⟩
      · simp at t1
      · obtain ⟨g1, g2⟩ := (firstOcc_search ic input pre0 (byteOff input ks)).1 b hs0
        refine ⟨fun h => by simp at h, fun _ => ⟨?_, by omega, ?_⟩⟩
        · by_cases hemp : pre0 = []
          · -- the empty prefix occurs at once
            subst hemp
            have : b = 0 := by
              by_cases hb0 : b = 0
              · exact hb0
              · exact absurd (occB_nil ic input (byteOff input ks)) (g2 _ (Nat.le_refl _) (by omega))
            subst this; exact ⟨ks, hks, rfl⟩
          · exact bnd_of_occB ic input pre0 _ hemp (hok pre0 hpre0) g1
        · intro p hp hsp hlt
          cases ha : attempt p with
          | none => rfl
          | some m =>
            exfalso
            obtain ⟨pre, hpre, ho⟩ := hocc p hp (by rw [ha]; simp)
            obtain ⟨f1, f2⟩ := firstOcc_search ic input pre (byteOff input ks)
            cases hs : (if ic then indexStringIgnoreCaseASCII (input.drop (byteOff input ks)) pre
                else indexBytes (input.drop (byteOff input ks)) pre) with
            | none => exact f2 hs _ hsp ho
            | some o =>
              have := t3 pre hpre o hs
              exact (f1 o hs).2 _ hsp (by omega) ho

/-! ### `asciiStringSetPrefixFilter.index` -/

theorem head_of_prefix (input : List Nat) (c : Nat) (t : List Nat) (j : Nat) (h : (c :: t) <+: input.drop j) :
    input[j]? = some c := by
  obtain ⟨rest, hr⟩ := h
  have := congrArg (·[0]?) hr
  simp only [List.cons_append, List.getElem?_cons_zero, List.getElem?_drop, Nat.add_zero] at this
  exact this.symm

theorem asciiSetFilter_sound (f : AsciiSetFilter) (input : List Nat) (attempt : Nat → Option (Nat × Nat))
    (hne : ∀ pre ∈ f.prefixes, pre ≠ [] ∧ isASCIIString pre = true)
    (hfirst : ∀ pre ∈ f.prefixes, ∀ c t, pre = c :: t → f.firstChars.contains c = true)
    (hP : ∀ p, p ≤ (decodeB input).length → attempt p ≠ none → ∃ pre ∈ f.prefixes, runeOcc false input pre p)
    (hM : MinLenSound false (decodeB input).length f.minRequiredBytes attempt) :
    StrFilterSound input attempt f.index := by
  rintro _ ⟨ks, hks, rfl⟩
  unfold AsciiSetFilter.index
  cases hmb : hasMinRequiredBytes input (byteOff input ks) f.minRequiredBytes with
  | false =>
    simp only [Bool.not_false, if_true]
    exact ⟨fun _ => minBytes_false input attempt _ _ hM hmb (byteOff_le_len input ks), fun h => by simp at h⟩
  | true =>
    simp only [Bool.not_true, Bool.false_eq_true, if_false]
    have hocc : ∀ p, p ≤ (decodeB input).length → attempt p ≠ none → ∃ pre ∈ f.prefixes, pre <+: input.drop (byteOff input p) := by
      intro p hp hne'
      obtain ⟨pre, hpre, ho⟩ := hP p hp hne'
      have := occB_of_runeOcc false input pre p hp (by simpa [PrefixOK] using clean_ascii pre (hne pre hpre).2) ho
      exact ⟨pre, hpre, by simpa [occB] using this⟩
    have hidx : (fun s => (indexByteP (fun b => f.firstChars.contains b) (input.drop s)).map (s + ·)) =
        idxOf (headSat (fun b => f.firstChars.contains b)) input := by funext s; rfl
    rw [hidx]
    -- an occurrence of a prefix at `j` puts a first character at `j`
    have hhead : ∀ j pre, pre ∈ f.prefixes → pre <+: input.drop j →
        headSat (fun b => f.firstChars.contains b) (input.drop j) = true ∧ j < input.length := by
      intro j pre hpre hp
      match pre, (hne pre hpre).1 with
      | c :: t, _ =>
        have hg := head_of_prefix input c t j hp
        exact ⟨(headSat_drop _ input j).mpr ⟨c, hg, hfirst _ hpre c t rfl⟩, (List.getElem?_eq_some_iff.mp hg).1⟩
    have post_none : ∀ s, byteOff input ks ≤ s →
        (∀ j, byteOff input ks ≤ j → ¬ ∃ pre ∈ f.prefixes, pre <+: input.drop j) →
        FilterPost input attempt (byteOff input ks) (0, false) := by
      intro s _ hno
      refine ⟨fun _ p hp hsp => ?_, fun h => by simp at h⟩
      cases ha : attempt p with
      | none => rfl
      | some m => exact absurd (hocc p hp (by rw [ha]; simp)) (hno _ hsp)
    apply loop_rule _ _ _
      (fun s => byteOff input ks ≤ s ∧ ∀ j, byteOff input ks ≤ j → j < s → ¬ ∃ pre ∈ f.prefixes, pre <+: input.drop j)
      (FilterPost input attempt (byteOff input ks)) (input.length + 1)
    · intro s hg; simp at hg; omega
    · rintro s ⟨h1, h2⟩ hg
      apply post_none s h1
      intro j hj ⟨pre, hpre, hp⟩
      have := (hhead j pre hpre hp).2
      simp at hg
      exact h2 j hj (by omega) ⟨pre, hpre, hp⟩
    · rintro s ⟨h1, h2⟩ _ hi
      apply post_none s h1
      intro j hj ⟨pre, hpre, hp⟩
      by_cases hjs : j < s
      · exact h2 j hj hjs ⟨pre, hpre, hp⟩
      · have := idxOf_none _ input s hi j (by omega)
        rw [(hhead j pre hpre hp).1] at this; simp at this
    · rintro s i ⟨h1, h2⟩ _ hi
      obtain ⟨a1, a2, a3, a4⟩ := idxOf_some _ input s i hi
      have skip : ∀ j, byteOff input ks ≤ j → j < i → ¬ ∃ pre ∈ f.prefixes, pre <+: input.drop j := by
        intro j hj hji ⟨pre, hpre, hp⟩
        by_cases hjs : j < s
        · exact h2 j hj hjs ⟨pre, hpre, hp⟩
        · have := a4 j (by omega) hji
          rw [(hhead j pre hpre hp).1] at this; simp at this
      cases hany : (f.bucket (input.getD i 0)).any (fun p => decide (p.length ≤ input.length - i) && p.isPrefixOf (input.drop i)) with
      | true =>
        simp only [if_true]
        obtain ⟨pre, hpre, hq⟩ := List.any_eq_true.mp hany
        simp only [Bool.and_eq_true] at hq
        have hmem : pre ∈ f.prefixes := (List.mem_filter.mp hpre).1
        have hp : pre <+: input.drop i := List.isPrefixOf_iff_prefix.mp hq.2
        refine ⟨fun h => by simp at h, fun _ => ⟨?_, by omega, ?_⟩⟩
        · exact bnd_of_clean_prefix input pre i (hne pre hmem).1 (clean_ascii pre (hne pre hmem).2) hp
        · intro p hp' hsp hlt
          cases ha : attempt p with
          | none => rfl
          | some m => exact absurd (hocc p hp' (by rw [ha]; simp)) (skip _ hsp hlt)
      | false =>
        simp only [Bool.false_eq_true, if_false]
        refine ⟨by omega, by omega, ?_⟩
        intro j hj hji ⟨pre, hpre, hp⟩
        by_cases hje : j = i
        · subst hje
          match pre, (hne pre hpre).1, hp with
          | c :: t, _, hp =>
            have hg := head_of_prefix input c t j hp
            have hb : (c :: t) ∈ f.bucket (input.getD j 0) := by
              unfold AsciiSetFilter.bucket
              apply List.mem_filter.mpr
              refine ⟨hpre, ?_⟩
              simp [List.getD_eq_getElem?_getD, hg]
            have hfalse := List.any_eq_false.mp hany _ hb
            have hl := prefix_length_le hp
            rw [List.length_drop] at hl
            simp only [Bool.and_eq_true, decide_eq_true_eq, not_and] at hfalse
            exact hfalse hl (List.isPrefixOf_iff_prefix.mpr hp)
        · exact skip j hj (by omega) ⟨pre, hpre, hp⟩
    · omega
    · exact ⟨Nat.le_refl _, fun j h1 h2 => by omega⟩

theorem compile_spec (prefixes : List (List Nat)) (minLen : Nat) (f : AsciiSetFilter)
    (h : compileASCIIStringSetPrefixFilter prefixes false minLen = some f) :
    f.prefixes = prefixes ∧ f.minRequiredBytes = minLen ∧
    (∀ pre ∈ prefixes, pre ≠ [] ∧ isASCIIString pre = true) ∧
    (∀ pre ∈ prefixes, ∀ c t, pre = c :: t → f.firstChars.contains c = true) := by
  unfold compileASCIIStringSetPrefixFilter at h
  simp only [Bool.false_eq_true, if_false] at h
  split at h
  · simp at h
  · rename_i hall
    split at h
    · simp at h
    · split at h
      · simp at h
      · simp only [Option.some.injEq] at h
        subst h
        have hall' : ∀ pre ∈ prefixes, pre ≠ [] ∧ isASCIIString pre = true := by
          have hall2 : ∀ x, x ∈ prefixes → ¬ x = [] ∧ isASCIIString x = true := by simpa using hall
          exact hall2
        refine ⟨rfl, rfl, hall', ?_⟩
        intro pre hpre c t hct
        subst hct
        have hasc := (hall' _ hpre).2
        simp only [isASCIIString, List.all_cons, Bool.and_eq_true, decide_eq_true_eq] at hasc
        simp only [List.contains_iff_mem, List.mem_filter, List.mem_range]
        exact ⟨by omega, List.any_eq_true.mpr ⟨_, hpre, by simp⟩⟩

/-! ### `stringLiteralAfterLoopFilter` -/

/-- the literal of a `LiteralAfterLoop` record at rune `k` of the decoded text -/
def litAtB (l : LitB) (text : List Nat) (k : Nat) : Prop :=
  if l.str.isEmpty = false then
    occursAt (if l.strIgnoreCase then eqAsciiFold else eqExact) (runesOf l.str) text k = true
  else if l.chars.isEmpty = false then memAt (fun c => l.chars.contains c) text k = true
  else text[k]? = some l.char

theorem sanitize_valid (c : Nat) (h : validRune c = true) : sanitize c = c := by simp [sanitize, h]

theorem literalAfterLoopFilter_sound (l : LitB) (minLen : Nat) (input : List Nat) (attempt : Nat → Option (Nat × Nat))
    (hstr : l.str.isEmpty = false → PrefixOK l.strIgnoreCase l.str)
    (hL : ∀ p, p ≤ (decodeB input).length → attempt p ≠ none → ∃ k, p ≤ k ∧ litAtB l (runesOf input) k)
    (hM : MinLenSound false (decodeB input).length minLen attempt) :
    StrFilterSound input attempt (literalAfterLoopFilterBody l minLen) := by
  rintro _ ⟨ks, hks, rfl⟩
  unfold literalAfterLoopFilterBody
  cases hmb : hasMinRequiredBytes input (byteOff input ks) minLen with
  | false =>
    simp only [Bool.not_false, if_true]
    exact ⟨fun _ => minBytes_false input attempt minLen _ hM hmb (byteOff_le_len input ks), fun h => by simp at h⟩
  | true =>
    simp only [Bool.not_true, Bool.false_eq_true, if_false]
    cases hhas : stringHasLiteralAfterLoop input (byteOff input ks) l with
    | true =>
      simp only [Bool.not_true, Bool.false_eq_true, if_false]
      exact ⟨fun h => by simp at h, fun _ => ⟨⟨ks, hks, rfl⟩, Nat.le_refl _, fun p _ h1 h2 => by omega⟩⟩
    | false =>
      simp only [Bool.not_false, if_true]
      refine ⟨fun _ p hp hsp => ?_, fun h => by simp at h⟩
      cases ha : attempt p with
      | none => rfl
      | some m =>
        exfalso
        obtain ⟨k, hpk, hlit⟩ := hL p hp (by rw [ha]; simp)
        have hksp : ks ≤ p := (byteOff_le_iff input ks p hks hp).mp hsp
        unfold stringHasLiteralAfterLoop at hhas
        unfold litAtB at hlit
        cases hse : l.str.isEmpty with
        | false =>
          simp only [hse, Bool.not_false, if_true] at hhas hlit
          have hok := hstr hse
          have hne : l.str ≠ [] := by intro h; rw [h] at hse; simp at hse
          -- the rune occurrence lies inside the input
          have hk : k < (decodeB input).length := by
            by_cases hk : k < (decodeB input).length
            · exact hk
            · exfalso
              unfold occursAt at hlit
              rw [List.drop_eq_nil_of_le (by rw [runesOf_length]; omega)] at hlit
              cases hr : runesOf l.str with
              | nil => exact runesOf_ne_nil _ hne hr
              | cons r rs => rw [hr] at hlit; simp [prefixOf] at hlit
          have hob := occB_of_runeOcc l.strIgnoreCase input l.str k (by omega) hok hlit
          have hfs := firstOcc_search l.strIgnoreCase input l.str (byteOff input ks)
          have hnone : (if l.strIgnoreCase then indexStringIgnoreCaseASCII (input.drop (byteOff input ks)) l.str
              else indexBytes (input.drop (byteOff input ks)) l.str) = none := by
            cases hci : l.strIgnoreCase <;> simp only [hci, if_true, Bool.false_eq_true, if_false] at hhas ⊢ <;>
              simpa using hhas
          exact hfs.2 hnone _ (byteOff_mono input ks k (by omega)) hob
        | true =>
          simp only [hse, Bool.not_true, Bool.false_eq_true, if_false] at hhas hlit
          cases hce : l.chars.isEmpty with
          | false =>
            simp only [hce, Bool.not_false, if_true] at hhas hlit
            unfold indexAnyRunes at hhas
            rw [decodeB_drop ks input hks] at hhas
            have hnone : firstSeg (fun c => (l.chars.map sanitize).contains c) ((decodeB input).drop ks) 0 = none := by
              simpa using hhas
            unfold memAt at hlit
            cases hg : (runesOf input)[k]? with
            | none => rw [hg] at hlit; simp at hlit
            | some c =>
              rw [hg] at hlit
              simp only at hlit
              have hklt : k < (decodeB input).length := by
                have := (List.getElem?_eq_some_iff.mp hg).1; rwa [runesOf_length] at this
              cases hs : (decodeB input)[k]? with
              | none => have := List.getElem?_eq_none_iff.mp hs; omega
              | some seg =>
                have hr : seg.1 = c := by
                  unfold runesOf at hg
                  rw [List.getElem?_map, hs] at hg
                  simpa using hg
                have hmem : seg ∈ (decodeB input).drop ks := by
                  apply List.mem_iff_getElem?.mpr
                  exact ⟨k - ks, by rw [List.getElem?_drop, show ks + (k - ks) = k by omega]; exact hs⟩
                have := firstSeg_none _ _ 0 hnone seg hmem
                rw [hr] at this
                have hv := runesOf_valid input c (List.mem_of_getElem? hg)
                have hin : (l.chars.map sanitize).contains c = true := by
                  simp only [List.contains_iff_mem, List.mem_map]
                  exact ⟨c, by simpa using hlit, sanitize_valid c hv⟩
                rw [hin] at this; simp at this
          | true =>
            simp only [hce, Bool.not_true, Bool.false_eq_true, if_false] at hhas hlit
            unfold containsRune at hhas
            have hnone : (indexRune (input.drop (byteOff input ks)) l.char).map (byteOff input ks + ·) = none := by
              cases hi : indexRune (input.drop (byteOff input ks)) l.char with
              | none => rfl
              | some _ => rw [hi] at hhas; simp at hhas
            exact (indexRune_spec input l.char _ ⟨ks, hks, rfl⟩).2 hnone k hlit (byteOff_mono input ks k (by omega))

/-! ## `newStringPrefixFilter`: whatever is installed is sound -/

/-- `charInFixedDistanceSet` on the fields the filter reads (no `CharSet`) -/
def setMemB (s : SetB) (ch : Nat) : Bool :=
  if !s.chars.isEmpty then (if s.negated then !s.chars.contains ch else s.chars.contains ch)
  else match s.range with
    | some (lo, hi) => if s.negated then !(decide (lo ≤ ch) && decide (ch ≤ hi)) else decide (lo ≤ ch) && decide (ch ≤ hi)
    | none => false

/-- the facts `newStringPrefixFilter`'s choice consumes, per find mode, about the attempts of the program on the
    DECODED input (`runesOf input`); positions and distances in RUNES.  These are the fact predicates of the
    candidate finders (C03 `OptFacts`, delivered by C04) with the literal taken as the runes of the published
    string; for the two ignore-case modes the comparison is ASCII folding, which is what the byte search
    performs (`findLeadingStringsLeftToRight` itself compares with `unicode.ToLower` — a weaker fact). -/
def StrFactsSound (o : StrOpts) (input : List Nat) (attempt : Nat → Option (Nat × Nat)) : Prop :=
  MinLenSound false (decodeB input).length o.minLen attempt ∧
  match o.mode with
  | .leadingStringLtr => ∀ p, p ≤ (decodeB input).length → attempt p ≠ none → runeOcc false input o.leadingPrefix p
  | .leadingStringOrdinalIgnoreCaseLtr => ∀ p, p ≤ (decodeB input).length → attempt p ≠ none → runeOcc true input o.leadingPrefix p
  | .leadingStringsLtr => ∀ p, p ≤ (decodeB input).length → attempt p ≠ none → ∃ pre ∈ o.prefixes, runeOcc false input pre p
  | .leadingStringsOrdinalIgnoreCaseLtr => ∀ p, p ≤ (decodeB input).length → attempt p ≠ none → ∃ pre ∈ o.prefixes, runeOcc true input pre p
  | .leadingSetLtr => ∀ set rest, o.sets = set :: rest → (set.range.isSome = true → set.chars = []) ∧
      ∀ p, p ≤ (decodeB input).length → attempt p ≠ none → memAt (setMemB set) (runesOf input) (p + set.distance.toNat) = true
  | .fixedDistanceCharLtr => ∀ p, p ≤ (decodeB input).length → attempt p ≠ none → (runesOf input)[p + o.fixedDistance.toNat]? = some o.fixedChar
  | .fixedDistanceStringLtr => ∀ p, p ≤ (decodeB input).length → attempt p ≠ none →
      occursAt eqExact (runesOf o.fixedString) (runesOf input) (p + o.fixedDistance.toNat) = true
  | .literalAfterLoopLtr => ∀ l, o.literalAfterLoop = some l →
      ∀ p, p ≤ (decodeB input).length → attempt p ≠ none → ∃ k, p ≤ k ∧ litAtB l (runesOf input) k
  | _ => True

theorem clean_of_not_containsRune (s : List Nat) (h : containsRune s 0xFFFD = false) : Clean s := by
  unfold containsRune indexRune at h
  simp only [show ¬ (0xFFFD < 0x80) by decide, if_false, if_true] at h
  have hn : firstSeg (· == 0xFFFD) (decodeB s) 0 = none := by
    cases hf : firstSeg (· == 0xFFFD) (decodeB s) 0 with
    | none => rfl
    | some _ => rw [hf] at h; simp at h
  intro seg hseg
  have := firstSeg_none _ _ 0 hn seg hseg
  simpa using this

theorem all_ascii_of_not_any (prefixes : List (List Nat)) (h : prefixes.any (fun p => !isASCIIString p) = false) :
    ∀ pre ∈ prefixes, isASCIIString pre = true := by
  intro pre hpre
  have := List.any_eq_false.mp h pre hpre
  simpa using this

theorem prefixes_sound (prefixes : List (List Nat)) (ic : Bool) (minLen : Nat) (f : Filter) (input : List Nat)
    (attempt : Nat → Option (Nat × Nat))
    (hinst : stringIndexPrefixesFilter prefixes ic minLen = some f)
    (hclean : ∀ pre ∈ prefixes, Clean pre)
    (hP : ∀ p, p ≤ (decodeB input).length → attempt p ≠ none → ∃ pre ∈ prefixes, runeOcc ic input pre p)
    (hM : MinLenSound false (decodeB input).length minLen attempt) : StrFilterSound input attempt f := by
  unfold stringIndexPrefixesFilter at hinst
  split at hinst
  · simp at hinst
  · split at hinst
    · simp at hinst
    · rename_i hasc
      have hok : ∀ pre ∈ prefixes, PrefixOK ic pre := by
        intro pre hpre
        cases ic with
        | false => simpa [PrefixOK] using hclean pre hpre
        | true =>
          simp only [PrefixOK, if_true]
          have : prefixes.any (fun p => !isASCIIString p) = false := by simpa using hasc
          exact all_ascii_of_not_any prefixes this pre hpre
      cases hc : compileASCIIStringSetPrefixFilter prefixes ic minLen with
      | none =>
        rw [hc] at hinst; simp only [Option.some.injEq] at hinst; subst hinst
        exact prefixesFallback_sound prefixes ic minLen input attempt hok hP hM
      | some af =>
        rw [hc] at hinst; simp only [Option.some.injEq] at hinst; subst hinst
        have hic : ic = false := by
          cases ic with
          | false => rfl
          | true => simp [compileASCIIStringSetPrefixFilter] at hc
        subst hic
        obtain ⟨c1, c2, c3, c4⟩ := compile_spec prefixes minLen af hc
        apply asciiSetFilter_sound af input attempt
        · rw [c1]; exact c3
        · rw [c1]; exact c4
        · rw [c1]; exact hP
        · rw [c2]; exact hM

/-- **`stringFilter_dispatch_sound`** (lemma form): see `Props.C03.stringFilter_dispatch_sound` -/
theorem dispatch_sound (code : CodeB) (o : StrOpts) (k : Kind) (f : Filter) (input : List Nat)
    (attempt : Nat → Option (Nat × Nat))
    (ho : code.opts = some o) (hinst : newStringPrefixFilter code = some (k, f))
    (hF : StrFactsSound o input attempt) : StrFilterSound input attempt f := by
  unfold newStringPrefixFilter at hinst
  rw [ho] at hinst
  simp only at hinst
  split at hinst
  · simp at hinst
  · split at hinst
    · simp at hinst
    · split at hinst
      · simp at hinst
      · rename_i hre
        have hre' : hasRuneError o = false := by simpa using hre
        unfold hasRuneError at hre'
        simp only [Bool.or_eq_false_iff] at hre'
        obtain ⟨⟨⟨e1, e2⟩, e3⟩, e4⟩ := hre'
        obtain ⟨hM, hfact⟩ := hF
        cases hm : o.mode <;> simp only [hm] at hinst hfact <;> try (simp at hinst; done)
        case leadingStringLtr =>
          unfold stringIndexPrefixFilter at hinst
          split at hinst
          · simp at hinst
          · rename_i hne
            simp only [Bool.false_and, Bool.false_eq_true, if_false, Option.map_some, Option.some.injEq, Prod.mk.injEq] at hinst
            obtain ⟨_, rfl⟩ := hinst
            exact prefixFilter_sound _ false _ input attempt (by intro h; rw [h] at hne; simp at hne)
              (by simpa [PrefixOK] using clean_of_not_containsRune _ e1) hfact hM
        case leadingStringOrdinalIgnoreCaseLtr =>
          unfold stringIndexPrefixFilter at hinst
          split at hinst
          · simp at hinst
          · rename_i hne
            split at hinst
            · simp at hinst
            · rename_i hasc
              simp only [Option.map_some, Option.some.injEq, Prod.mk.injEq] at hinst
              obtain ⟨_, rfl⟩ := hinst
              exact prefixFilter_sound _ true _ input attempt (by intro h; rw [h] at hne; simp at hne)
                (by simpa [PrefixOK] using hasc) hfact hM
        case leadingStringsLtr =>
          cases hs : stringIndexPrefixesFilter o.prefixes false o.minLen with
          | none => rw [hs] at hinst; simp at hinst
          | some g =>
            rw [hs] at hinst
            simp only [Option.map_some, Option.some.injEq, Prod.mk.injEq] at hinst
            obtain ⟨_, rfl⟩ := hinst
            refine prefixes_sound _ false _ g input attempt hs ?_ hfact hM
            intro pre hpre
            exact clean_of_not_containsRune pre (by simpa using List.any_eq_false.mp e4 pre hpre)
        case leadingStringsOrdinalIgnoreCaseLtr =>
          cases hs : stringIndexPrefixesFilter o.prefixes true o.minLen with
          | none => rw [hs] at hinst; simp at hinst
          | some g =>
            rw [hs] at hinst
            simp only [Option.map_some, Option.some.injEq, Prod.mk.injEq] at hinst
            obtain ⟨_, rfl⟩ := hinst
            refine prefixes_sound _ true _ g input attempt hs ?_ hfact hM
            intro pre hpre
            exact clean_of_not_containsRune pre (by simpa using List.any_eq_false.mp e4 pre hpre)
        case leadingSetLtr =>
          cases hsets : o.sets with
          | nil => rw [hsets] at hinst; simp at hinst
          | cons set rest =>
            rw [hsets] at hinst
            simp only at hinst
            split at hinst
            · simp at hinst
            · obtain ⟨hwf, hmem⟩ := hfact set rest hsets
              unfold stringFixedDistanceSetFilter at hinst
              cases hsc : newASCIISetStringScanner set with
              | none => rw [hsc] at hinst; simp at hinst
              | some sc =>
                rw [hsc] at hinst
                simp only [Option.map_some, Option.some.injEq, Prod.mk.injEq] at hinst
                obtain ⟨_, rfl⟩ := hinst
                unfold newASCIISetStringScanner at hsc
                split at hsc
                · simp at hsc
                · rename_i hneg
                  simp only [Bool.or_eq_true, decide_eq_true_eq, not_or, Bool.not_eq_true] at hneg
                  cases hrg : set.range with
                  | some lh =>
                    obtain ⟨lo, hi⟩ := lh
                    rw [hrg] at hsc
                    simp only at hsc
                    split at hsc
                    · simp at hsc
                    · rename_i hhi
                      simp only [Option.some.injEq] at hsc; subst hsc
                      have hch := hwf (by rw [hrg]; rfl)
                      apply setFilter_sound _ (fun b => decide (lo ≤ b) && decide (b ≤ hi)) _ input attempt
                      · intro c hc; simp at hc; omega
                      · intro u; simp [Scanner.index]
                      · intro p hp hne'
                        have := hmem p hp hne'
                        have hfun : setMemB set = fun b => decide (lo ≤ b) && decide (b ≤ hi) := by
                          funext b; simp [setMemB, hch, hrg, hneg.1]
                        rw [hfun] at this; exact this
                      · exact hM
                  | none =>
                    rw [hrg] at hsc
                    simp only at hsc
                    split at hsc
                    · simp at hsc
                    · rename_i hce
                      split at hsc
                      · simp at hsc
                      · rename_i hasc
                        simp only [Option.some.injEq] at hsc; subst hsc
                        apply setFilter_sound _ (fun b => set.chars.contains b) _ input attempt
                        · intro c hc
                          have hasc' : ∀ x, x ∈ set.chars → x ≤ 127 := by simpa using hasc
                          have := hasc' c (by simpa using hc)
                          omega
                        · intro u; simp [Scanner.index]
                        · intro p hp hne'
                          have := hmem p hp hne'
                          have hfun : setMemB set = fun b => set.chars.contains b := by
                            funext b; simp [setMemB, hce, hneg.1]
                          rw [hfun] at this; exact this
                        · exact hM
        case fixedDistanceCharLtr =>
          unfold stringFixedDistanceCharFilter at hinst
          split at hinst
          · simp at hinst
          · simp only [Option.map_some, Option.some.injEq, Prod.mk.injEq] at hinst
            obtain ⟨_, rfl⟩ := hinst
            exact fixedCharFilter_sound _ _ _ input attempt hfact hM
        case fixedDistanceStringLtr =>
          unfold stringFixedDistanceStringFilter at hinst
          split at hinst
          · simp at hinst
          · rename_i hg
            simp only [Option.map_some, Option.some.injEq, Prod.mk.injEq] at hinst
            obtain ⟨_, rfl⟩ := hinst
            simp only [Bool.or_eq_true, not_or, Bool.not_eq_true] at hg
            exact fixedStringFilter_sound _ _ _ input attempt (by intro h; rw [h] at hg; simp at hg)
              (clean_of_not_containsRune _ e2) hfact hM
        case literalAfterLoopLtr =>
          unfold stringLiteralAfterLoopFilter at hinst
          cases hl : o.literalAfterLoop with
          | none => rw [hl] at hinst; simp at hinst
          | some l =>
            rw [hl] at hinst e3
            simp only at hinst e3
            split at hinst
            · simp at hinst
            · split at hinst
              · simp at hinst
              · rename_i hci
                simp only [Option.map_some, Option.some.injEq, Prod.mk.injEq] at hinst
                obtain ⟨_, rfl⟩ := hinst
                apply literalAfterLoopFilter_sound l _ input attempt _ (hfact l hl) hM
                intro hse
                cases hic : l.strIgnoreCase with
                | false => simpa [PrefixOK] using clean_of_not_containsRune _ e3
                | true =>
                  simp only [PrefixOK, if_true]
                  simp only [hic, Bool.true_and, Bool.or_eq_true, not_or, Bool.not_eq_true, Bool.not_eq_false'] at hci
                  simpa using hci.2

/-- where no filter is sound, none is installed: right-to-left programs, `\G`, a U+FFFD in one of the literal
    strings (an invalid input byte decodes to U+FFFD but does not contain its three bytes) -/
theorem dispatch_none (code : CodeB)
    (h : code.rightToLeft = true ∨ code.usesStartAnchor = true ∨ ∃ o, code.opts = some o ∧ hasRuneError o = true) :
    newStringPrefixFilter code = none := by
  unfold newStringPrefixFilter
  cases ho : code.opts with
  | none => rfl
  | some o =>
    simp only
    rcases h with h | h | ⟨o', ho', h⟩
    · simp [h]
    · simp [h]
    · rw [ho] at ho'; simp only [Option.some.injEq] at ho'; subst ho'
      simp [h]

/-! ## from the byte filter to the `FilterSound` hypothesis of `Model/Api.lean` -/

theorem widths_decode (input : List Nat) : widths (decode input) = (decodeB input).map (·.2) := by
  simp [widths, decode]

/-- `decodeStringWithStart` / `getRunesAndStart` map the byte offset of rune `k` back to `k` -/
theorem runeStart_byteOff (input : List Nat) (k : Nat) (hk : k ≤ (decodeB input).length) :
    runeStart (decode input) ((byteOff input k : Nat) : Int) = (k : Int) := by
  have := Lemmas.Utf8.runeStartLoop_at (decode input)
    (by
      intro sg hsg
      have : sg.2 ∈ widths (decode input) := List.mem_map.mpr ⟨sg, hsg, rfl⟩
      rw [widths_decode] at this
      exact width_pos input _ this)
    0 0 k (-1) (by simp [decode]; exact hk)
  rw [widths_decode] at this
  simp only [Nat.zero_add] at this
  exact this

theorem installed_has_opts (code : CodeB) (kf : Kind × Filter) (h : newStringPrefixFilter code = some kf) :
    ∃ o, code.opts = some o := by
  unfold newStringPrefixFilter at h
  cases ho : code.opts with
  | none => rw [ho] at h; simp at h
  | some o => exact ⟨o, rfl⟩

/-- a sound byte filter (or none) gives the hypothesis `FilterSound` of the entry-point theorems -/
theorem runeFilter_sound (filter : Option Filter) (input : List Nat) (attempt : Nat → Option (Nat × Nat))
    (h : ∀ f, filter = some f → StrFilterSound input attempt f) :
    Api.FilterSound attempt (decodeB input).length (runeFilter filter input) := by
  have hrf : ∀ c, runeFilter filter input 0 = some c →
      ∃ kc, kc ≤ (decodeB input).length ∧ c = kc ∧ ∀ p, p < kc → attempt p = none := by
    intro c hc
    unfold runeFilter findStringMatchStart at hc
    have e1 : ¬ ((-1 : Int) > (input.length : Int)) := by omega
    have e2 : ¬ ((-1 : Int) ≥ 0 ∧ (!isStringRuneBoundary input (-1 : Int).toNat) = true) := by omega
    simp only [e1, e2, if_false, show ((-1 : Int) < 0) by omega, if_true, Bool.false_eq_true] at hc
    unfold findStringPrefixCandidate at hc
    cases hf : filter with
    | none =>
      rw [hf] at hc
      simp only [if_true] at hc
      have := runeStart_byteOff input 0 (Nat.zero_le _)
      rw [byteOff_zero] at this
      rw [this] at hc
      simp at hc
      exact ⟨0, Nat.zero_le _, by omega, fun p hp => by omega⟩
    | some f =>
      rw [hf] at hc
      simp only [Bool.false_eq_true, if_false] at hc
      have hpost := h f hf 0 ⟨0, Nat.zero_le _, byteOff_zero input⟩
      cases hok : (f input 0).2 with
      | false => simp [hok] at hc
      | true =>
        simp only [hok, Bool.not_true, Bool.false_eq_true, if_false] at hc
        obtain ⟨⟨kc, hkc, hoff⟩, _, hskip⟩ := hpost.2 hok
        split at hc
        · simp only [if_true] at hc
          have := runeStart_byteOff input 0 (Nat.zero_le _)
          rw [byteOff_zero] at this
          rw [this] at hc
          simp at hc
          exact ⟨0, Nat.zero_le _, by omega, fun p hp => by omega⟩
        · simp only [if_true] at hc
          rw [← hoff, runeStart_byteOff input kc hkc] at hc
          have hc' : c = kc := by
            have : ¬ ((kc : Int) < 0) := by omega
            simp only [this, if_false, Option.some.injEq] at hc
            omega
          refine ⟨kc, hkc, hc', ?_⟩
          intro p hp
          apply hskip p (by omega) (Nat.zero_le _)
          rw [← hoff]; exact byteOff_lt input p kc hp hkc
  constructor
  · intro hnone p hp
    unfold runeFilter findStringMatchStart at hnone
    have e1 : ¬ ((-1 : Int) > (input.length : Int)) := by omega
    have e2 : ¬ ((-1 : Int) ≥ 0 ∧ (!isStringRuneBoundary input (-1 : Int).toNat) = true) := by omega
    simp only [e1, e2, if_false, show ((-1 : Int) < 0) by omega, if_true, Bool.false_eq_true] at hnone
    unfold findStringPrefixCandidate at hnone
    cases hf : filter with
    | none => rw [hf] at hnone; simp at hnone
    | some f =>
      rw [hf] at hnone
      simp only [Bool.false_eq_true, if_false] at hnone
      have hpost := h f hf 0 ⟨0, Nat.zero_le _, byteOff_zero input⟩
      cases hok : (f input 0).2 with
      | false => exact hpost.1 hok p hp (Nat.zero_le _)
      | true =>
        simp only [hok, Bool.not_true, Bool.false_eq_true, if_false] at hnone
        split at hnone <;> simp at hnone
  · intro c hc p hpc hp
    obtain ⟨kc, _, rfl, hsk⟩ := hrf c hc
    exact hsk p hpc

end RegexVerif.Lemmas.StringFilter
