/-
Specifications of `scanGroupOpen` and its cases, and of `scanPythonNamedBackref`.
-/
import RegexVerif.Lemmas.ParserTac

namespace RegexVerif.Parser

variable {α β γ : Type}
variable (E : Env)

attribute [local irreducible] wp

/-! ## `scanGroupOpen` -/

theorem scans_groupOpenPlain (o : Opts) : Scans E (groupOpenPlain o) := by
  intro s hs
  unfold groupOpenPlain
  wp_run

theorem scansF_groupOpenDefault (start : Nat) : ScansF E (start + 1) 0 start (groupOpenDefault E start) := by
  intro s ha hs
  unfold groupOpenDefault
  wp_run

theorem scansF_groupOpenAngle (start : Nat) (o : Opts) (close : Nat) :
    ScansF E start 0 start (groupOpenAngle E start o close) := by
  intro s ha hs
  unfold groupOpenAngle
  wp_run

theorem scansF_groupOpenPython (start : Nat) (o : Opts) : ScansF E start 0 start (groupOpenPython E start o) := by
  intro s ha hs
  unfold groupOpenPython
  wp_run


theorem scansF_groupOpenSwitch (start : Nat) (o : Opts) (ch : Nat) :
    ScansF E (start + 2) 0 start (groupOpenSwitch E start o ch) := by
  intro s ha hs
  unfold groupOpenSwitch
  wp_run


/-- `groupOpenIsPlain` reads at most two runes and changes nothing; `false` means the next rune is `?` -/
theorem wp_groupOpenIsPlain {Q : Bool → PS → Prop} {R : PS → Prop} {s : PS}
    (h : ∀ b, (b = false → s.pos < E.pat.length) → Q b s) : wp (groupOpenIsPlain E) Q R s := by
  unfold groupOpenIsPlain
  wp_simp3
  refine ⟨?_, ?_⟩ <;> intro h1
  · refine ⟨by omega, ?_⟩
    intro c _
    refine ⟨?_, ?_⟩ <;> intro h2
    · refine ⟨by omega, ?_⟩
      intro c' _
      exact h _ (fun _ => by omega)
    · exact h _ (fun _ => by omega)
  · refine ⟨?_, ?_⟩ <;> intro h2
    · omega
    · apply h
      intro hb
      simp at hb

theorem scans_scanGroupOpen : Scans E (scanGroupOpen E) := by
  intro s hs
  unfold scanGroupOpen
  wp_simp3
  apply wp_groupOpenIsPlain
  intro b hb
  wp_run


theorem scans_scanPythonNamedBackref : ScansK E 3 (scanPythonNamedBackref E) := by
  intro s hs
  unfold scanPythonNamedBackref
  wp_run


end RegexVerif.Parser
