/-
Specifications (`Scans`) of `parseProperty`, the backslash scanners and the group openers.
-/
import RegexVerif.Lemmas.ParserScan

namespace RegexVerif.Parser

variable {α β γ : Type}
variable (E : Env)

theorem scans_parseProperty : Scans E (parseProperty E) := by
  intro s hs
  have hcw := countWhile_drop_le E (fun c => E.orc.isWord c || c == 45 || c == 61) (s.pos + 1)
  unfold parseProperty
  wp_auto

macro_rules | `(tactic| wp_callee) => `(tactic| refine wp_call _ (scans_parseProperty _) (by adv) ?_ ?_)

end RegexVerif.Parser
