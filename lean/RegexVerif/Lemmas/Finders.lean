/-
Helper lemmas for the candidate-finder models (Model/Finders.lean): specifications of the search
primitives, a Hoare-style rule for the shared skipping loop, and the soundness of every modelled
finder (`Scan.FinderSound`) from the fact it consumes.  The property-level statements are restated
with their meaning for the Go code in `Props/C03.lean`.
-/
import RegexVerif.Model.Finders
import RegexVerif.Lemmas.Scan
import RegexVerif.Lemmas.BoyerMooreScan

namespace RegexVerif.Lemmas.Finders
open RegexVerif RegexVerif.Finders RegexVerif.Scan RegexVerif.Lemmas.Scan

/-! ### search primitives -/

theorem findUp_some (P : Nat → Bool) : ∀ (k q r : Nat), findUp P k q = some r →
    q ≤ r ∧ r < q + k ∧ P r = true ∧ ∀ p, q ≤ p → p < r → P p = false := by
  intro k
  induction k with
  | zero => intro q r h; simp [findUp] at h
  | succ k ih =>
    intro q r h
    unfold findUp at h
    by_cases hP : P q = true
    · rw [if_pos hP] at h
      injection h with h; subst h
      exact ⟨Nat.le_refl _, by omega, hP, fun p h1 h2 => by omega⟩
    · rw [if_neg hP] at h
      obtain ⟨h1, h2, h3, h4⟩ := ih (q + 1) r h
      refine ⟨by omega, by omega, h3, ?_⟩
      intro p hp1 hp2
      by_cases hpq : p = q
      · subst hpq; simpa using hP
      · exact h4 p (by omega) hp2

theorem findUp_none (P : Nat → Bool) : ∀ (k q : Nat), findUp P k q = none →
    ∀ p, q ≤ p → p < q + k → P p = false := by
  intro k
  induction k with
  | zero => intro q _ p h1 h2; omega
  | succ k ih =>
    intro q h p h1 h2
    unfold findUp at h
    by_cases hP : P q = true
    · rw [if_pos hP] at h; simp at h
    · rw [if_neg hP] at h
      by_cases hpq : p = q
      · subst hpq; simpa using hP
      · exact ih (q + 1) h p (by omega) (by omega)

theorem findDown_some (P : Nat → Bool) : ∀ (q r : Nat), findDown P q = some r →
    r ≤ q ∧ P r = true ∧ ∀ p, r < p → p ≤ q → P p = false := by
  intro q
  induction q with
  | zero =>
    intro r h
    unfold findDown at h
    by_cases hP : P 0 = true
    · rw [if_pos hP] at h; injection h with h; subst h
      exact ⟨Nat.le_refl _, hP, fun p h1 h2 => by omega⟩
    · rw [if_neg hP] at h; simp at h
  | succ q ih =>
    intro r h
    unfold findDown at h
    by_cases hP : P (q + 1) = true
    · rw [if_pos hP] at h; injection h with h; subst h
      exact ⟨Nat.le_refl _, hP, fun p h1 h2 => by omega⟩
    · rw [if_neg hP] at h
      obtain ⟨h1, h2, h3⟩ := ih r h
      refine ⟨by omega, h2, ?_⟩
      intro p hp1 hp2
      by_cases hpq : p = q + 1
      · subst hpq; simpa using hP
      · exact h3 p hp1 (by omega)

theorem findDown_none (P : Nat → Bool) : ∀ (q : Nat), findDown P q = none → ∀ p, p ≤ q → P p = false := by
  intro q
  induction q with
  | zero =>
    intro h p hp
    unfold findDown at h
    by_cases hP : P 0 = true
    · rw [if_pos hP] at h; simp at h
    · have : p = 0 := by omega
      subst this; simpa using hP
  | succ q ih =>
    intro h p hp
    unfold findDown at h
    by_cases hP : P (q + 1) = true
    · rw [if_pos hP] at h; simp at h
    · rw [if_neg hP] at h
      by_cases hpq : p = q + 1
      · subst hpq; simpa using hP
      · exact ih h p (by omega)

theorem prefixOf_length (eq : Nat → Nat → Bool) : ∀ (pat ts : List Nat), prefixOf eq pat ts = true → pat.length ≤ ts.length := by
  intro pat
  induction pat with
  | nil => intro ts _; simp
  | cons c ps ih =>
    intro ts h
    cases ts with
    | nil => simp [prefixOf] at h
    | cons t ts =>
      simp only [prefixOf, Bool.and_eq_true] at h
      have := ih ts h.2
      simp; omega

/-- an occurrence fits into the input -/
theorem occursAt_fits (eq : Nat → Nat → Bool) (pat text : List Nat) (q : Nat) (h : occursAt eq pat text q = true) :
    q + pat.length ≤ text.length ∨ pat = [] := by
  unfold occursAt at h
  have := prefixOf_length eq pat _ h
  simp at this
  cases pat with
  | nil => right; rfl
  | cons c ps => left; simp at this ⊢; omega

theorem occursAt_fits' (eq : Nat → Nat → Bool) (pat text : List Nat) (q : Nat) (hne : pat ≠ [])
    (h : occursAt eq pat text q = true) : q + pat.length ≤ text.length := by
  rcases occursAt_fits eq pat text q h with h | h
  · exact h
  · exact absurd h hne

theorem prefixOf_exact : ∀ (pat ts : List Nat), prefixOf eqExact pat ts = true ↔ ts.take pat.length = pat := by
  intro pat
  induction pat with
  | nil => intro ts; simp [prefixOf]
  | cons c ps ih =>
    intro ts
    cases ts with
    | nil => simp [prefixOf]
    | cons t ts =>
      simp only [prefixOf, Bool.and_eq_true, eqExact, beq_iff_eq, List.length_cons, List.take_succ_cons,
        List.cons.injEq]
      rw [← ih ts]

/-- with the exact comparison, "occurs at `q`" is the form in which C04 delivers the leading prefix:
    the text from `q` on begins with the pattern -/
theorem occursAt_exact (pat text : List Nat) (q : Nat) :
    occursAt eqExact pat text q = true ↔ (text.drop q).take pat.length = pat :=
  prefixOf_exact pat (text.drop q)

theorem memAt_lt (S : Nat → Bool) (text : List Nat) (i : Nat) (h : memAt S text i = true) : i < text.length := by
  unfold memAt at h
  cases hg : text[i]? with
  | none => rw [hg] at h; simp at h
  | some c =>
    have := List.getElem?_eq_some_iff.mp hg
    exact this.1

theorem getElem?_some_lt (text : List Nat) (i c : Nat) (h : text[i]? = some c) : i < text.length :=
  (List.getElem?_eq_some_iff.mp h).1

/-! ### the skipping loop -/

/-- Hoare rule for `searchLoop`: an invariant `Inv` on the search start that every exit turns into
    `Post`.  `bound` is any number no guard-passing search start reaches (`n + 1`). -/
theorem searchLoop_rule (guard : Nat → Bool) (idx : Nat → Option Nat) (step : Nat → Step)
    (Inv : Nat → Prop) (Post : Option Nat → Prop) (bound : Nat)
    (hguard : ∀ s, guard s = true → s < bound)
    (hexit : ∀ s, Inv s → guard s = false → Post none)
    (hnone : ∀ s, Inv s → guard s = true → idx s = none → Post none)
    (hsome : ∀ s i, Inv s → guard s = true → idx s = some i →
      s ≤ i ∧ match step i with
        | .found q => Post (some q)
        | .giveUp => Post none
        | .next => Inv (i + 1)) :
    ∀ (fuel s : Nat), bound ≤ s + fuel → Inv s → Post (searchLoop guard idx step fuel s) := by
  intro fuel
  induction fuel with
  | zero =>
    intro s hb hinv
    unfold searchLoop
    apply hexit s hinv
    cases hg : guard s with
    | false => rfl
    | true => have := hguard s hg; omega
  | succ fuel ih =>
    intro s hb hinv
    unfold searchLoop
    cases hg : guard s with
    | false => simpa using hexit s hinv hg
    | true =>
      simp only [if_true]
      cases hi : idx s with
      | none => simpa using hnone s hinv hg hi
      | some i =>
        obtain ⟨hle, hstep⟩ := hsome s i hinv hg hi
        cases hs : step i with
        | found q => rw [hs] at hstep; simp only [hs]; exact hstep
        | giveUp => rw [hs] at hstep; simp only [hs]; exact hstep
        | next =>
          rw [hs] at hstep
          simp only [hs]
          exact ih (i + 1) (by omega) hstep

/-! ### the post-conditions `FinderSound` asks for -/

/-- what `FinderSound false n` asks of the answer from `pos` -/
def LtrPost (attempt : Nat → Option (Nat × Nat)) (n pos : Nat) (r : Bool × Nat) : Prop :=
  pos ≤ r.2 ∧ r.2 ≤ n ∧
  (r.1 = true → ∀ p, pos ≤ p → p < r.2 → attempt p = none) ∧
  (r.1 = false → ∀ p, pos ≤ p → p ≤ n → attempt p = none)

/-- what `FinderSound true n` asks of the answer from `pos` -/
def RtlPost (attempt : Nat → Option (Nat × Nat)) (pos : Nat) (r : Bool × Nat) : Prop :=
  r.2 ≤ pos ∧
  (r.1 = true → ∀ p, r.2 < p → p ≤ pos → attempt p = none) ∧
  (r.1 = false → ∀ p, p ≤ pos → attempt p = none)

/-- what `FinderSound false n` asks of the answer from `pos`: a `false` answer vouches for the positions
    up to and including the one the finder left -/
def LtrSkip (attempt : Nat → Option (Nat × Nat)) (n pos : Nat) (r : Bool × Nat) : Prop :=
  pos ≤ r.2 ∧ r.2 ≤ n ∧
  (r.1 = true → ∀ p, pos ≤ p → p < r.2 → attempt p = none) ∧
  (r.1 = false → ∀ p, pos ≤ p → p ≤ r.2 → attempt p = none)

/-- what `FinderSound true n` asks of the answer from `pos` -/
def RtlSkip (attempt : Nat → Option (Nat × Nat)) (pos : Nat) (r : Bool × Nat) : Prop :=
  r.2 ≤ pos ∧
  (r.1 = true → ∀ p, r.2 < p → p ≤ pos → attempt p = none) ∧
  (r.1 = false → ∀ p, r.2 ≤ p → p ≤ pos → attempt p = none)

theorem ltrSkip_of_post {attempt : Nat → Option (Nat × Nat)} {n pos : Nat} {r : Bool × Nat}
    (h : LtrPost attempt n pos r) : LtrSkip attempt n pos r :=
  ⟨h.1, h.2.1, h.2.2.1, fun hf p h1 h2 => h.2.2.2 hf p h1 (by have := h.2.1; omega)⟩

theorem rtlSkip_of_post {attempt : Nat → Option (Nat × Nat)} {pos : Nat} {r : Bool × Nat}
    (h : RtlPost attempt pos r) : RtlSkip attempt pos r :=
  ⟨h.1, h.2.1, fun hf p _ h2 => h.2.2 hf p h2⟩

theorem finderSound_ltr_skip (n : Nat) (finder : Nat → Bool × Nat) (attempt : Nat → Option (Nat × Nat))
    (h : ∀ pos, pos ≤ n → LtrSkip attempt n pos (finder pos)) : FinderSound false n finder attempt := by
  intro pos hpos
  simpa [LtrSkip] using h pos hpos

theorem finderSound_rtl_skip (n : Nat) (finder : Nat → Bool × Nat) (attempt : Nat → Option (Nat × Nat))
    (h : ∀ pos, pos ≤ n → RtlSkip attempt pos (finder pos)) : FinderSound true n finder attempt := by
  intro pos hpos
  simpa [RtlSkip] using h pos hpos

/-- the searching finders satisfy the stronger post-condition (a `false` answer leaves the position at
    the end of the scan, so it vouches for everything ahead) -/
theorem finderSound_ltr (n : Nat) (finder : Nat → Bool × Nat) (attempt : Nat → Option (Nat × Nat))
    (h : ∀ pos, pos ≤ n → LtrPost attempt n pos (finder pos)) : FinderSound false n finder attempt :=
  finderSound_ltr_skip n finder attempt fun pos hpos => ltrSkip_of_post (h pos hpos)

theorem finderSound_rtl (n : Nat) (finder : Nat → Bool × Nat) (attempt : Nat → Option (Nat × Nat))
    (h : ∀ pos, pos ≤ n → RtlPost attempt pos (finder pos)) : FinderSound true n finder attempt :=
  finderSound_rtl_skip n finder attempt fun pos hpos => rtlSkip_of_post (h pos hpos)

/-- the option form: a candidate `q` skips only failing positions; no candidate means all fail -/
def LtrOpt (attempt : Nat → Option (Nat × Nat)) (n pos : Nat) : Option Nat → Prop
  | some q => pos ≤ q ∧ q ≤ n ∧ ∀ p, pos ≤ p → p < q → attempt p = none
  | none => ∀ p, pos ≤ p → p ≤ n → attempt p = none

theorem ltrPost_of_opt (attempt : Nat → Option (Nat × Nat)) (n pos : Nat) (hpos : pos ≤ n) (o : Option Nat)
    (h : LtrOpt attempt n pos o) : LtrPost attempt n pos (ltrResult n o) := by
  cases o with
  | none => exact ⟨hpos, Nat.le_refl _, by simp [ltrResult], fun _ => h⟩
  | some q =>
    obtain ⟨h1, h2, h3⟩ := h
    exact ⟨h1, h2, fun _ => h3, by simp [ltrResult]⟩

def RtlOpt (attempt : Nat → Option (Nat × Nat)) (pos : Nat) : Option Nat → Prop
  | some q => q ≤ pos ∧ ∀ p, q < p → p ≤ pos → attempt p = none
  | none => ∀ p, p ≤ pos → attempt p = none

theorem rtlPost_of_opt (attempt : Nat → Option (Nat × Nat)) (pos : Nat) (o : Option Nat)
    (h : RtlOpt attempt pos o) : RtlPost attempt pos (rtlResult o) := by
  cases o with
  | none => exact ⟨Nat.zero_le _, by simp [rtlResult], fun _ => h⟩
  | some q =>
    obtain ⟨h1, h2⟩ := h
    exact ⟨h1, fun _ => h2, by simp [rtlResult]⟩

/-- a position whose necessary condition is false is a failing position -/
theorem fails_of_not {attempt : Nat → Option (Nat × Nat)} {C : Nat → Prop} {n : Nat}
    (hC : ∀ p, p ≤ n → attempt p ≠ none → C p) (p : Nat) (hp : p ≤ n) (h : ¬ C p) : attempt p = none := by
  cases ha : attempt p with
  | none => rfl
  | some m => exact absurd (hC p hp (by rw [ha]; simp)) h

/-! ### "first position satisfying a necessary condition" -/

/-- a forward search for the first position satisfying a necessary condition `C` of a match, over
    the `k` candidates from `pos`; positions beyond the candidates are known to fail -/
theorem findUp_opt (C : Nat → Bool) (attempt : Nat → Option (Nat × Nat)) (n pos k : Nat)
    (hk : pos + k ≤ n + 1)
    (hC : ∀ p, p ≤ n → attempt p ≠ none → C p = true)
    (hbeyond : ∀ p, pos + k ≤ p → p ≤ n → attempt p = none) :
    LtrOpt attempt n pos (findUp C k pos) := by
  have hfail : ∀ p, p ≤ n → C p = false → attempt p = none := by
    intro p hp hcp
    apply fails_of_not (C := fun p => C p = true) hC p hp
    simp [hcp]
  cases h : findUp C k pos with
  | none =>
    intro p h1 h2
    by_cases hp : p < pos + k
    · exact hfail p h2 (findUp_none C k pos h p h1 hp)
    · exact hbeyond p (by omega) h2
  | some q =>
    obtain ⟨h1, h2, _, h4⟩ := findUp_some C k pos q h
    exact ⟨h1, by omega, fun p hp1 hp2 => hfail p (by omega) (h4 p hp1 hp2)⟩

/-- a backward search from `pos` for the first position satisfying a necessary condition -/
theorem findDown_opt (C : Nat → Bool) (attempt : Nat → Option (Nat × Nat)) (n pos : Nat) (hpos : pos ≤ n)
    (hC : ∀ p, p ≤ n → attempt p ≠ none → C p = true) :
    RtlOpt attempt pos (findDown C pos) := by
  have hfail : ∀ p, p ≤ n → C p = false → attempt p = none := by
    intro p hp hcp
    apply fails_of_not (C := fun p => C p = true) hC p hp
    simp [hcp]
  cases h : findDown C pos with
  | none =>
    intro p h1
    exact hfail p (by omega) (findDown_none C pos h p h1)
  | some q =>
    obtain ⟨h1, _, h3⟩ := findDown_some C pos q h
    exact ⟨h1, fun p hp1 hp2 => hfail p (by omega) (h3 p hp1 hp2)⟩

/-! ### `NoSearch` -/

theorem finderNoSearch_sound (rtl : Bool) (n : Nat) (attempt : Nat → Option (Nat × Nat)) :
    FinderSound rtl n finderNoSearch attempt := by
  intro pos hpos
  cases rtl
  · simp only [Bool.false_eq_true, if_false, finderNoSearch]
    exact ⟨Nat.le_refl _, hpos, fun _ p h1 h2 => by omega, by simp⟩
  · simp only [if_true, finderNoSearch]
    exact ⟨Nat.le_refl _, fun _ p h1 h2 => by omega, by simp⟩

/-! ### the facts the finders consume -/

/-- each anchor bit of `Code.Anchors` that is set holds at the position of every successful attempt
    (C04: `leadingAnchor_sound`, in the terms of `Spec.anchorHolds`) -/
structure AnchorFacts (a : Anchors) (text : List Nat) (textstart : Nat) (attempt : Nat → Option (Nat × Nat)) : Prop where
  beginning : a.beginning = true → ∀ p, p ≤ text.length → attempt p ≠ none → p = 0
  start : a.start = true → ∀ p, p ≤ text.length → attempt p ≠ none → p = textstart
  endZ : a.endZ = true → ∀ p, p ≤ text.length → attempt p ≠ none →
    p = text.length ∨ (p + 1 = text.length ∧ text[p]? = some 10)
  «end» : a.«end» = true → ∀ p, p ≤ text.length → attempt p ≠ none → p = text.length

/-- the Boyer-Moore prefix occurs at every successful attempt position: starting there left-to-right,
    ending there right-to-left (C04: `leadingPrefix_sound_runes`) -/
def BmFact (lower : Nat → Nat) (b : Bm) (rtl : Bool) (text : List Nat) (attempt : Nat → Option (Nat × Nat)) : Prop :=
  ∀ p, p ≤ text.length → attempt p ≠ none → bmIsMatch lower b rtl text p = true

/-- the first character of every match is in the first-character set: `text[p]` left-to-right,
    `text[p-1]` right-to-left -/
def FcFact (mem : Nat → Bool) (rtl : Bool) (text : List Nat) (attempt : Nat → Option (Nat × Nat)) : Prop :=
  ∀ p, p ≤ text.length → attempt p ≠ none →
    if rtl then 1 ≤ p ∧ memAt mem text (p - 1) = true else memAt mem text p = true

/-- `MinRequiredLength` in the form the left-to-right helpers use it -/
theorem minLen_ltr {n L : Nat} {attempt : Nat → Option (Nat × Nat)} (hM : MinLenSound false n L attempt)
    (p : Nat) (hp : p ≤ n) (h : attempt p ≠ none) : p + L ≤ n := by
  cases ha : attempt p with
  | none => exact absurd ha h
  | some m =>
    have := hM p m.1 m.2 hp ha
    simp at this; omega

/-! ### path 1: anchors -/

theorem finderAnchors_ltr (lower : Nat → Nat) (a : Anchors) (bm : Option Bm) (text : List Nat) (textstart : Nat)
    (attempt : Nat → Option (Nat × Nat))
    (hA : AnchorFacts a text textstart attempt)
    (hB : ∀ b, bm = some b → BmFact lower b false text attempt) :
    FinderSound false text.length (finderAnchors lower a bm false text textstart) attempt := by
  apply finderSound_ltr_skip
  intro pos hpos
  unfold finderAnchors
  simp only [Bool.not_false, if_true]
  split
  · -- early exit: Beginning behind us, or Start behind us
    rename_i hex
    refine ⟨hpos, Nat.le_refl _, by simp, ?_⟩
    intro _ p h1 h2
    simp only [Bool.or_eq_true, Bool.and_eq_true, decide_eq_true_eq] at hex
    rcases hex with ⟨hb, hp0⟩ | ⟨hs, hps⟩
    · apply fails_of_not (hA.beginning hb) p h2; omega
    · apply fails_of_not (hA.start hs) p h2; omega
  · -- the jump to the pinned position
    have hjump : ∀ pos', pos' = (if a.endZ && decide (pos + 1 < text.length) then text.length - 1
          else if a.«end» && decide (pos < text.length) then text.length else pos) →
        pos ≤ pos' ∧ pos' ≤ text.length ∧ ∀ p, pos ≤ p → p < pos' → attempt p = none := by
      intro pos' hpos'
      by_cases hz : (a.endZ && decide (pos + 1 < text.length)) = true
      · rw [if_pos hz] at hpos'
        simp only [Bool.and_eq_true, decide_eq_true_eq] at hz
        subst hpos'
        refine ⟨by omega, by omega, ?_⟩
        intro p h1 h2
        apply fails_of_not (hA.endZ hz.1) p (by omega); omega
      · rw [if_neg hz] at hpos'
        by_cases he : (a.«end» && decide (pos < text.length)) = true
        · rw [if_pos he] at hpos'
          simp only [Bool.and_eq_true, decide_eq_true_eq] at he
          subst hpos'
          refine ⟨by omega, Nat.le_refl _, ?_⟩
          intro p h1 h2
          apply fails_of_not (hA.«end» he.1) p (by omega); omega
        · rw [if_neg he] at hpos'
          subst hpos'
          exact ⟨Nat.le_refl _, hpos, fun p h1 h2 => by omega⟩
    obtain ⟨h1, h2, h3⟩ := hjump _ rfl
    cases bm with
    | none => exact ⟨h1, h2, fun _ => h3, by simp⟩
    | some b =>
      refine ⟨h1, h2, fun _ => h3, ?_⟩
      intro hf p hp1 hp2
      simp only at hf hp2
      by_cases hpq : p < (if a.endZ && decide (pos + 1 < text.length) then text.length - 1
          else if a.«end» && decide (pos < text.length) then text.length else pos)
      · exact h3 p hp1 hpq
      · have : p = (if a.endZ && decide (pos + 1 < text.length) then text.length - 1
          else if a.«end» && decide (pos < text.length) then text.length else pos) := by omega
        apply fails_of_not (hB b rfl) p (by omega)
        rw [this, hf]; simp

theorem finderAnchors_rtl (lower : Nat → Nat) (a : Anchors) (bm : Option Bm) (text : List Nat) (textstart : Nat)
    (attempt : Nat → Option (Nat × Nat))
    (hA : AnchorFacts a text textstart attempt)
    (hB : ∀ b, bm = some b → BmFact lower b true text attempt) :
    FinderSound true text.length (finderAnchors lower a bm true text textstart) attempt := by
  apply finderSound_rtl_skip
  intro pos hpos
  unfold finderAnchors
  simp only [Bool.not_true, Bool.false_eq_true, if_false]
  split
  · -- early exit: End / EndZ / Start cannot hold at or below pos
    rename_i hex
    refine ⟨Nat.zero_le _, by simp, ?_⟩
    intro _ p _ h2
    simp only [Bool.or_eq_true, Bool.and_eq_true, decide_eq_true_eq] at hex
    rcases hex with (⟨he, hp0⟩ | ⟨hz, hzz⟩) | ⟨hs, hps⟩
    · apply fails_of_not (hA.«end» he) p (by omega); omega
    · apply fails_of_not (hA.endZ hz) p (by omega)
      rcases hzz with hlt | ⟨heq, hnl⟩
      · omega
      · intro hc
        rcases hc with hc | ⟨hc1, hc2⟩
        · omega
        · have : p = pos := by omega
          subst this
          simp [hc2] at hnl
    · apply fails_of_not (hA.start hs) p (by omega); omega
  · have hjump : ∀ pos', pos' = (if a.beginning && decide (0 < pos) then 0 else pos) →
        pos' ≤ pos ∧ ∀ p, pos' < p → p ≤ pos → attempt p = none := by
      intro pos' hpos'
      by_cases hb : (a.beginning && decide (0 < pos)) = true
      · rw [if_pos hb] at hpos'
        simp only [Bool.and_eq_true, decide_eq_true_eq] at hb
        subst hpos'
        refine ⟨Nat.zero_le _, ?_⟩
        intro p h1 h2
        apply fails_of_not (hA.beginning hb.1) p (by omega); omega
      · rw [if_neg hb] at hpos'
        subst hpos'
        exact ⟨Nat.le_refl _, fun p h1 h2 => by omega⟩
    obtain ⟨h1, h3⟩ := hjump _ rfl
    cases bm with
    | none => exact ⟨h1, fun _ => h3, by simp⟩
    | some b =>
      refine ⟨h1, fun _ => h3, ?_⟩
      intro hf p hp1 hp2
      simp only at hf hp1
      by_cases hpq : (if a.beginning && decide (0 < pos) then 0 else pos) < p
      · exact h3 p hpq hp2
      · have : p = (if a.beginning && decide (0 < pos) then 0 else pos) := by omega
        apply fails_of_not (hB b rfl) p (by omega)
        rw [this, hf]; simp

/-! ### path 2: Boyer-Moore scan -/

/-- `newBmPrefix` accepts the pattern (non-empty, no rune above U+FFFF): the compiled program has a
    `Code.BmPrefix` only then -/
def BmBuilt (b : Bm) (rtl : Bool) : Prop := (BoyerMoore.build b.pat b.ci rtl).isSome = true

/-- the soundness of the SPECIFICATION of the scan (first position in scan order at which `IsMatch` holds) -/
theorem finderBmScanSpec_sound (lower : Nat → Nat) (b : Bm) (rtl : Bool) (text : List Nat)
    (attempt : Nat → Option (Nat × Nat)) (hB : BmFact lower b rtl text attempt) :
    FinderSound rtl text.length (finderBmScanSpec lower b rtl text) attempt := by
  cases rtl
  · apply finderSound_ltr
    intro pos hpos
    simp only [finderBmScanSpec, Bool.false_eq_true, if_false]
    apply ltrPost_of_opt _ _ _ hpos
    apply findUp_opt _ _ _ _ _ (by omega) hB
    intro p h1 h2; omega
  · apply finderSound_rtl
    intro pos hpos
    simp only [finderBmScanSpec, if_true]
    apply rtlPost_of_opt
    exact findDown_opt _ _ _ _ hpos hB

/-- **the Boyer-Moore scan computes its specification**: with the tables of `newBmPrefix` and the skip loop
    of `Scan`, the finder returns the first position in scan order at which `IsMatch` holds, and gives up
    exactly when there is none -/
theorem finderBmScan_eq_spec (lower : Nat → Nat) (b : Bm) (rtl : Bool) (text : List Nat) (hW : BmBuilt b rtl)
    (pos : Nat) (hpos : pos ≤ text.length) :
    finderBmScan lower b rtl text pos = finderBmScanSpec lower b rtl text pos := by
  obtain ⟨pat, ci⟩ := b
  unfold BmBuilt at hW
  simp only [] at hW
  cases hb : BoyerMoore.build pat ci rtl with
  | none => rw [hb] at hW; simp at hW
  | some t =>
    obtain ⟨hne, _, _, _, _, _⟩ := Lemmas.BoyerMoore.build_some pat ci rtl t hb
    have hspec := Lemmas.BoyerMoore.scan_spec lower pat ci rtl t hb text pos 0 text.length (Nat.zero_le _) hpos (Nat.le_refl _)
    unfold finderBmScan finderBmScanSpec
    simp only [hb]
    have hfit : ∀ q, occursAt (Bm.eq lower ⟨pat, ci⟩) pat text q = true → q + pat.length ≤ text.length :=
      fun q h => occursAt_fits' _ pat text q hne h
    cases rtl with
    | false =>
      simp only [Bool.false_eq_true, if_false]
      congr 1
      simp only [Bool.false_eq_true, if_false] at hspec
      cases hs : BoyerMoore.scan lower t text pos 0 text.length with
      | none =>
        rw [hs] at hspec
        cases hf : findUp (bmIsMatch lower ⟨pat, ci⟩ false text) (text.length + 1 - pos) pos with
        | none => rfl
        | some r =>
          exfalso
          obtain ⟨h1, h2, h3, _⟩ := findUp_some _ _ _ _ hf
          have hfits := hfit r (by simpa [bmIsMatch] using h3)
          rw [hspec r ⟨h1, hfits⟩] at h3; simp at h3
      | some i =>
        rw [hs] at hspec
        obtain ⟨⟨x1, x2⟩, x3, x4⟩ := hspec
        cases hf : findUp (bmIsMatch lower ⟨pat, ci⟩ false text) (text.length + 1 - pos) pos with
        | none =>
          exfalso
          have := findUp_none _ _ _ hf i x1 (by omega)
          rw [this] at x3; simp at x3
        | some r =>
          obtain ⟨h1, h2, h3, h4⟩ := findUp_some _ _ _ _ hf
          congr 1
          by_cases hlt : i < r
          · have := h4 i x1 hlt; rw [this] at x3; simp at x3
          · by_cases hgt : r < i
            · have := x4 r ⟨h1, hgt⟩; rw [this] at h3; simp at h3
            · omega
    | true =>
      simp only [if_true]
      congr 1
      simp only [if_true] at hspec
      cases hs : BoyerMoore.scan lower t text pos 0 text.length with
      | none =>
        rw [hs] at hspec
        cases hf : findDown (bmIsMatch lower ⟨pat, ci⟩ true text) pos with
        | none => rfl
        | some r =>
          exfalso
          obtain ⟨h1, h2, _⟩ := findDown_some _ _ _ hf
          have hl : pat.length ≤ r := by
            simp only [bmIsMatch, if_true, Bool.and_eq_true, decide_eq_true_eq] at h2; exact h2.1
          rw [hspec r ⟨h1, by omega⟩] at h2; simp at h2
      | some i =>
        rw [hs] at hspec
        obtain ⟨⟨x1, x2⟩, x3, x4⟩ := hspec
        cases hf : findDown (bmIsMatch lower ⟨pat, ci⟩ true text) pos with
        | none =>
          exfalso
          have := findDown_none _ _ hf i x1
          rw [this] at x3; simp at x3
        | some r =>
          obtain ⟨h1, h2, h3⟩ := findDown_some _ _ _ hf
          congr 1
          by_cases hlt : i < r
          · have := x4 r ⟨hlt, h1⟩; rw [this] at h2; simp at h2
          · by_cases hgt : r < i
            · have := h3 i hgt x1; rw [this] at x3; simp at x3
            · omega

theorem finderBmScan_sound (lower : Nat → Nat) (b : Bm) (rtl : Bool) (text : List Nat)
    (attempt : Nat → Option (Nat × Nat)) (hW : BmBuilt b rtl) (hB : BmFact lower b rtl text attempt) :
    FinderSound rtl text.length (finderBmScan lower b rtl text) attempt := by
  intro pos hpos
  rw [finderBmScan_eq_spec lower b rtl text hW pos hpos]
  exact finderBmScanSpec_sound lower b rtl text attempt hB pos hpos

/-! ### path 4: first-character set -/

theorem finderFc_sound (mem : Nat → Bool) (rtl : Bool) (text : List Nat)
    (attempt : Nat → Option (Nat × Nat)) (hF : FcFact mem rtl text attempt) :
    FinderSound rtl text.length (finderFc mem rtl text) attempt := by
  cases rtl
  · apply finderSound_ltr
    intro pos hpos
    simp only [finderFc, Bool.false_eq_true, if_false]
    apply ltrPost_of_opt _ _ _ hpos
    have hC : ∀ p, p ≤ text.length → attempt p ≠ none → memAt mem text p = true := by
      intro p hp ha; simpa using hF p hp ha
    apply findUp_opt _ _ _ _ _ (by omega) hC
    intro p h1 h2
    have : p = text.length := by omega
    apply fails_of_not hC p h2
    intro hm
    have := memAt_lt mem text p hm
    omega
  · apply finderSound_rtl
    intro pos hpos
    simp only [finderFc, if_true]
    apply rtlPost_of_opt
    apply findDown_opt _ _ _ _ hpos
    intro p hp ha
    have := hF p hp ha
    simp only [if_true] at this
    simp [this.1, this.2]

/-! ### path 3: the optimized helpers -/

theorem finderTrailingEnd_sound (n L : Nat) (attempt : Nat → Option (Nat × Nat))
    (hT : ∀ p, p ≤ n → attempt p ≠ none → p + L = n) :
    FinderSound false n (finderTrailingEnd n L) attempt := by
  apply finderSound_ltr
  intro pos hpos
  unfold finderTrailingEnd
  split
  · rename_i h
    refine ⟨h.2, by omega, ?_, by simp⟩
    intro _ p h1 h2
    apply fails_of_not hT p (by omega); omega
  · rename_i h
    refine ⟨hpos, Nat.le_refl _, by simp, ?_⟩
    intro _ p h1 h2
    apply fails_of_not hT p h2
    intro hc; apply h; omega

theorem finderLeadingString_sound (lower : Nat → Nat) (pat : List Nat) (ignoreCase : Bool) (text : List Nat)
    (minLen : Nat) (attempt : Nat → Option (Nat × Nat))
    (hP : ∀ p, p ≤ text.length → attempt p ≠ none → occursAt (stringEq lower ignoreCase pat) pat text p = true)
    (hM : MinLenSound false text.length minLen attempt) :
    FinderSound false text.length (finderLeadingString lower pat ignoreCase text minLen) attempt := by
  apply finderSound_ltr
  intro pos hpos
  unfold finderLeadingString
  simp only
  split
  · exact ⟨Nat.le_refl _, hpos, fun _ p h1 h2 => by omega, by simp⟩
  · have hopt := findUp_opt (occursAt (stringEq lower ignoreCase pat) pat text) attempt text.length pos
      (text.length + 1 - pos) (by omega) hP (fun p h1 h2 => by omega)
    cases hf : findUp (occursAt (stringEq lower ignoreCase pat) pat text) (text.length + 1 - pos) pos with
    | none =>
      rw [hf] at hopt
      exact ⟨hpos, Nat.le_refl _, by simp, fun _ => hopt⟩
    | some start =>
      rw [hf] at hopt
      obtain ⟨h1, h2, h3⟩ := hopt
      simp only
      by_cases hl : hasLen minLen text.length start = true
      · rw [if_pos hl]
        exact ⟨h1, h2, fun _ => h3, by simp⟩
      · rw [if_neg hl]
        refine ⟨hpos, Nat.le_refl _, by simp, ?_⟩
        intro _ p hp1 hp2
        by_cases hps : p < start
        · exact h3 p hp1 hps
        · apply fails_of_not (C := fun p => p + minLen ≤ text.length) (fun p hp ha => minLen_ltr hM p hp ha) p hp2
          simp [hasLen] at hl
          omega

theorem occursAt_head (eq : Nat → Nat → Bool) (c : Nat) (rest text : List Nat) (i : Nat)
    (h : occursAt eq (c :: rest) text i = true) : ∃ t, text[i]? = some t ∧ eq t c = true := by
  unfold occursAt at h
  cases hd : text.drop i with
  | nil => rw [hd] at h; simp [prefixOf] at h
  | cons t ts =>
    rw [hd] at h
    simp only [prefixOf, Bool.and_eq_true] at h
    refine ⟨t, ?_, h.1⟩
    have : (text.drop i)[0]? = some t := by rw [hd]; rfl
    rw [List.getElem?_drop] at this
    simpa using this

/-- the facts `findLeadingStringsLeftToRight` consumes: one of the prefixes occurs at every match;
    for the skipping path (case-sensitive, first runes present) additionally that no prefix is empty
    and that `firstRunes` holds the first rune of each (`leadingPrefixFirstRunes`) -/
structure StringsFacts (lower : Nat → Nat) (prefixes : List (List Nat)) (firstRunes : List Nat) (ignoreCase : Bool)
    (text : List Nat) (attempt : Nat → Option (Nat × Nat)) : Prop where
  occurs : ∀ p, p ≤ text.length → attempt p ≠ none →
    ∃ pre, pre ∈ prefixes ∧ occursAt (if ignoreCase then eqLower lower else eqExact) pre text p = true
  nonempty : ignoreCase = false → firstRunes.isEmpty = false → ∀ pre, pre ∈ prefixes → pre ≠ []
  first : ignoreCase = false → firstRunes.isEmpty = false →
    ∀ pre, pre ∈ prefixes → ∀ c rest, pre = c :: rest → c ∈ firstRunes

theorem finderLeadingStrings_sound (lower : Nat → Nat) (prefixes : List (List Nat)) (firstRunes : List Nat)
    (ignoreCase : Bool) (text : List Nat) (minLen : Nat) (attempt : Nat → Option (Nat × Nat))
    (hP : StringsFacts lower prefixes firstRunes ignoreCase text attempt)
    (hM : MinLenSound false text.length minLen attempt) :
    FinderSound false text.length (finderLeadingStrings lower prefixes firstRunes ignoreCase text minLen) attempt := by
  apply finderSound_ltr
  intro pos hpos
  unfold finderLeadingStrings
  simp only
  split
  · -- no prefixes: no attempt can succeed
    rename_i hemp
    refine ⟨Nat.le_refl _, hpos, fun _ p h1 h2 => by omega, ?_⟩
    intro _ p _ hp2
    apply fails_of_not hP.occurs p hp2
    intro ⟨pre, hpre, _⟩
    simp [List.isEmpty_iff] at hemp
    rw [hemp] at hpre; simp at hpre
  · split
    · -- position by position
      apply ltrPost_of_opt _ _ _ hpos
      apply findUp_opt _ _ _ _ _ (by omega)
      · intro p hp ha
        obtain ⟨pre, hpre, hocc⟩ := hP.occurs p hp ha
        exact List.any_eq_true.mpr ⟨pre, hpre, hocc⟩
      · intro p h1 h2
        apply fails_of_not (C := fun p => p + minLen ≤ text.length) (fun p hp ha => minLen_ltr hM p hp ha) p h2
        omega
    · -- skipping between possible first runes
      rename_i _ hslow
      simp only [Bool.or_eq_true, not_or, Bool.not_eq_true] at hslow
      obtain ⟨hic, hfr⟩ := hslow
      have hne := hP.nonempty hic hfr
      have hfirst := hP.first hic hfr
      have hocc : ∀ p, p ≤ text.length → attempt p ≠ none →
          ∃ c rest, (c :: rest) ∈ prefixes ∧ occursAt eqExact (c :: rest) text p = true := by
        intro p hp ha
        obtain ⟨pre, hpre, ho⟩ := hP.occurs p hp ha
        rw [hic] at ho
        simp only [Bool.false_eq_true, if_false] at ho
        cases pre with
        | nil => exact absurd rfl (hne _ hpre)
        | cons c rest => exact ⟨c, rest, hpre, ho⟩
      have htail : ∀ p, p ≤ text.length → text.length < p + max minLen 1 → attempt p = none := by
        intro p hp hlt
        apply fails_of_not (C := fun p => p + max minLen 1 ≤ text.length) _ p hp (by omega)
        intro p hp ha
        have h1 := minLen_ltr hM p hp ha
        obtain ⟨c, rest, _, ho⟩ := hocc p hp ha
        have h2 := occursAt_fits' eqExact (c :: rest) text p (by simp) ho
        simp at h2
        omega
      have hnotfirst : ∀ i, i ≤ text.length → memAt (fun c => firstRunes.contains c) text i = false → attempt i = none := by
        intro i hi hm
        apply fails_of_not (C := fun i => memAt (fun c => firstRunes.contains c) text i = true) _ i hi (by rw [hm]; simp)
        intro p hp ha
        obtain ⟨c, rest, hpre, ho⟩ := hocc p hp ha
        obtain ⟨t, ht, heq⟩ := occursAt_head eqExact c rest text p ho
        have : t = c := by simpa [eqExact] using heq
        subst this
        simp [memAt, ht, hfirst _ hpre t rest rfl]
      have hcheck : ∀ i, i ≤ text.length → anyPrefixWithFirst prefixes text i = false → attempt i = none := by
        intro i hi hm
        apply fails_of_not (C := fun i => anyPrefixWithFirst prefixes text i = true) _ i hi (by rw [hm]; simp)
        intro p hp ha
        obtain ⟨c, rest, hpre, ho⟩ := hocc p hp ha
        obtain ⟨t, ht, heq⟩ := occursAt_head eqExact c rest text p ho
        have : t = c := by simpa [eqExact] using heq
        subst this
        unfold anyPrefixWithFirst
        apply List.any_eq_true.mpr
        exact ⟨t :: rest, hpre, by simp [ht, ho]⟩
      apply ltrPost_of_opt _ _ _ hpos
      apply searchLoop_rule _ _ _ (fun s => pos ≤ s ∧ ∀ p, pos ≤ p → p < s → attempt p = none)
        (LtrOpt attempt text.length pos) (text.length + 1)
      · intro s hg; simp at hg; omega
      · intro s hinv hg p h1 h2
        simp at hg
        by_cases hps : p < s
        · exact hinv.2 p h1 hps
        · exact htail p h2 (by omega)
      · intro s hinv hg hi p h1 h2
        simp at hg
        by_cases hps : p < s
        · exact hinv.2 p h1 hps
        · by_cases hpk : p < s + (text.length + 1 - max minLen 1 - s)
          · exact hnotfirst p h2 (findUp_none _ _ _ hi p (by omega) hpk)
          · exact htail p h2 (by omega)
      · intro s i hinv hg hi
        simp at hg
        obtain ⟨h1, h2, _, h4⟩ := findUp_some _ _ _ _ hi
        refine ⟨h1, ?_⟩
        have hbefore : ∀ p, pos ≤ p → p < i → attempt p = none := by
          intro p hp1 hp2
          by_cases hps : p < s
          · exact hinv.2 p hp1 hps
          · exact hnotfirst p (by omega) (h4 p (by omega) hp2)
        by_cases hc : anyPrefixWithFirst prefixes text i = true
        · simp only [hc, if_true]
          exact ⟨by omega, by omega, hbefore⟩
        · simp only [hc, Bool.false_eq_true, if_false]
          refine ⟨by omega, ?_⟩
          intro p hp1 hp2
          by_cases hpi : p = i
          · subst hpi; exact hcheck p (by omega) (by simpa using hc)
          · exact hbefore p hp1 (by omega)
      · omega
      · exact ⟨Nat.le_refl _, fun p h1 h2 => by omega⟩

/-! ### fixed-distance literal (char / string) -/

/-- what the loop body decides on a literal (or primary-set character) found at index `i`, in terms
    of the candidate start `i - d` -/
def StepOK (attempt : Nat → Option (Nat × Nat)) (d n minLen i : Nat) : Step → Prop
  | .found q => q = i - d ∧ q + minLen ≤ n
  | .giveUp => n < i - d + minLen
  | .next => attempt (i - d) = none

/-- the loop shared by `findFixedDistanceCharLeftToRight`, `…StringLeftToRight` and `…SetsLeftToRight`:
    `C i` = "the literal / a character of the primary set is at index `i`", a necessary condition of
    a match starting at `i - d` -/
theorem fixedLoop_opt (C : Nat → Bool) (guard : Nat → Bool) (kf : Nat → Nat) (step : Nat → Step) (d n minLen pos : Nat)
    (attempt : Nat → Option (Nat × Nat))
    (hC : ∀ p, p ≤ n → attempt p ≠ none → C (p + d) = true)
    (hM : ∀ p, p ≤ n → attempt p ≠ none → p + minLen ≤ n)
    (hguard : ∀ s, guard s = true → s < n + 1)
    (hCn : ∀ i, C i = true → i < n)
    (hCfalse : ∀ s i, s ≤ i → (guard s = false ∨ s + kf s ≤ i) → C i = false)
    (hstep : ∀ i, C i = true → pos + d ≤ i → StepOK attempt d n minLen i (step i)) :
    LtrOpt attempt n pos (searchLoop guard (fun s => findUp C (kf s) s) step (n + 1) (pos + d)) := by
  have hfail : ∀ p, p ≤ n → C (p + d) = false → attempt p = none := by
    intro p hp hc
    apply fails_of_not (C := fun p => C (p + d) = true) hC p hp
    rw [hc]; simp
  apply searchLoop_rule _ _ _ (fun s => pos + d ≤ s ∧ ∀ p, pos ≤ p → p + d < s → attempt p = none)
    (LtrOpt attempt n pos) (n + 1) hguard
  · intro s hinv hg p h1 h2
    by_cases hps : p + d < s
    · exact hinv.2 p h1 hps
    · exact hfail p h2 (hCfalse s (p + d) (by omega) (Or.inl hg))
  · intro s hinv _ hi p h1 h2
    by_cases hps : p + d < s
    · exact hinv.2 p h1 hps
    · by_cases hpk : p + d < s + kf s
      · exact hfail p h2 (findUp_none _ _ _ hi (p + d) (by omega) hpk)
      · exact hfail p h2 (hCfalse s (p + d) (by omega) (Or.inr (by omega)))
  · intro s i hinv _ hi
    obtain ⟨h1, _, h3, h4⟩ := findUp_some _ _ _ _ hi
    have hin := hCn i h3
    refine ⟨h1, ?_⟩
    have hbefore : ∀ p, pos ≤ p → p < i - d → attempt p = none := by
      intro p hp1 hp2
      by_cases hps : p + d < s
      · exact hinv.2 p hp1 hps
      · exact hfail p (by omega) (h4 (p + d) (by omega) (by omega))
    have hst := hstep i h3 (by omega)
    cases hs : step i with
    | found q =>
      rw [hs] at hst
      obtain ⟨hq, hql⟩ := hst
      subst hq
      exact ⟨by omega, by omega, hbefore⟩
    | giveUp =>
      rw [hs] at hst
      intro p hp1 hp2
      by_cases hps : p < i - d
      · exact hbefore p hp1 hps
      · apply fails_of_not hM p hp2
        simp only [StepOK] at hst; omega
    | next =>
      rw [hs] at hst
      refine ⟨by omega, ?_⟩
      intro p hp1 hp2
      by_cases hps : p < i - d
      · exact hbefore p hp1 hps
      · have : p = i - d := by omega
        rw [this]; exact hst
  · omega
  · exact ⟨Nat.le_refl _, fun p h1 h2 => by omega⟩

theorem fixedStep_ok (attempt : Nat → Option (Nat × Nat)) (d n minLen pos i : Nat) (hi : pos + d ≤ i) :
    StepOK attempt d n minLen i (fixedStep d n minLen pos i) := by
  unfold fixedStep
  simp only
  by_cases hfound : (decide (pos ≤ i - d) && hasLen minLen n (i - d)) = true
  · rw [if_pos hfound]
    simp only [Bool.and_eq_true, decide_eq_true_eq, hasLen] at hfound
    exact ⟨rfl, hfound.2⟩
  · rw [if_neg hfound]
    by_cases hgive : decide (n < i - d + minLen) = true
    · rw [if_pos hgive]
      simpa [StepOK] using hgive
    · rw [if_neg hgive]
      simp only [decide_eq_true_eq] at hgive
      simp only [Bool.and_eq_true, decide_eq_true_eq, hasLen] at hfound
      exfalso
      apply hfound
      exact ⟨by omega, by omega⟩

theorem finderFixedChar_sound (c d : Nat) (text : List Nat) (minLen : Nat) (attempt : Nat → Option (Nat × Nat))
    (hC : ∀ p, p ≤ text.length → attempt p ≠ none → text[p + d]? = some c)
    (hM : MinLenSound false text.length minLen attempt) :
    FinderSound false text.length (finderFixedChar c d text minLen) attempt := by
  apply finderSound_ltr
  intro pos hpos
  unfold finderFixedChar
  apply ltrPost_of_opt _ _ _ hpos
  refine fixedLoop_opt (fun i => text[i]? == some c) _ (fun s => text.length - s) _ d _ minLen pos attempt
    ?_ ?_ ?_ ?_ ?_ (fun i _ hi => fixedStep_ok attempt d text.length minLen pos i hi)
  · intro p hp ha; simp [hC p hp ha]
  · exact fun p hp ha => minLen_ltr hM p hp ha
  · intro s hg; simp at hg; omega
  · intro i hi
    simp only [beq_iff_eq] at hi
    exact getElem?_some_lt text i c hi
  · intro s i hsi hor
    have : text.length ≤ i := by
      rcases hor with hg | hk
      · simp at hg; omega
      · omega
    simp [List.getElem?_eq_none this]

theorem finderFixedString_sound (lit : List Nat) (d : Nat) (text : List Nat) (minLen : Nat)
    (attempt : Nat → Option (Nat × Nat))
    (hC : ∀ p, p ≤ text.length → attempt p ≠ none → occursAt eqExact lit text (p + d) = true)
    (hM : MinLenSound false text.length minLen attempt) :
    FinderSound false text.length (finderFixedString lit d text minLen) attempt := by
  apply finderSound_ltr
  intro pos hpos
  unfold finderFixedString
  simp only
  split
  · exact ⟨Nat.le_refl _, hpos, fun _ p h1 h2 => by omega, by simp⟩
  · rename_i hne
    have hne' : lit ≠ [] := by simpa [List.isEmpty_iff] using hne
    apply ltrPost_of_opt _ _ _ hpos
    refine fixedLoop_opt (occursAt eqExact lit text) _ (fun s => text.length + 1 - s) _ d _ minLen pos attempt
      ?_ ?_ ?_ ?_ ?_ (fun i _ hi => fixedStep_ok attempt d text.length minLen pos i hi)
    · exact hC
    · exact fun p hp ha => minLen_ltr hM p hp ha
    · intro s hg; simp at hg; omega
    · intro i hi
      have := occursAt_fits' eqExact lit text i hne' hi
      have hl : 0 < lit.length := List.length_pos_iff.mpr hne'
      omega
    · intro s i hsi hor
      cases ho : occursAt eqExact lit text i with
      | false => rfl
      | true =>
        have := occursAt_fits' eqExact lit text i hne' ho
        have hl : 0 < lit.length := List.length_pos_iff.mpr hne'
        rcases hor with hg | hk
        · simp at hg; omega
        · omega

/-! ### fixed-distance sets (and `LeadingSet_LeftToRight`) -/

theorem finderFixedSets_sound (sets : List FDSet) (text : List Nat) (minLen : Nat) (attempt : Nat → Option (Nat × Nat))
    (hwf : ∃ primary rest, sets = primary :: rest ∧ primary.set.isSome = true)
    (hS : ∀ p, p ≤ text.length → attempt p ≠ none → fixedSetsMatchAt sets text p = true)
    (hM : MinLenSound false text.length minLen attempt) :
    FinderSound false text.length (finderFixedSets sets text minLen) attempt := by
  obtain ⟨primary, rest, hsets, hset⟩ := hwf
  apply finderSound_ltr
  intro pos hpos
  subst hsets
  unfold finderFixedSets
  simp only
  have hnone : primary.set.isNone = false := by
    cases h : primary.set with
    | none => rw [h] at hset; simp at hset
    | some _ => rfl
  rw [hnone]
  simp only [Bool.false_eq_true, if_false]
  apply ltrPost_of_opt _ _ _ hpos
  refine fixedLoop_opt (memAt primary.mem text) _ (fun s => text.length - s) _ primary.distance _ minLen pos attempt
    ?_ (fun p hp ha => minLen_ltr hM p hp ha) ?_ ?_ ?_ ?_
  · intro p hp ha
    have := hS p hp ha
    simp only [fixedSetsMatchAt, List.all_cons, Bool.and_eq_true] at this
    exact this.1
  · intro s hg; simp at hg; omega
  · intro i hi; exact memAt_lt _ _ _ hi
  · intro s i hsi hor
    cases hm : memAt primary.mem text i with
    | false => rfl
    | true =>
      have := memAt_lt _ _ _ hm
      rcases hor with hg | hk
      · simp at hg; omega
      · omega
  · intro i _ hi
    show StepOK attempt primary.distance text.length minLen i
      (if decide (text.length < i - primary.distance + minLen) = true then Step.giveUp
       else if (decide (pos ≤ i - primary.distance) && hasLen minLen text.length (i - primary.distance) &&
          fixedSetsMatchAt (primary :: rest) text (i - primary.distance)) = true then Step.found (i - primary.distance)
       else Step.next)
    by_cases hgive : decide (text.length < i - primary.distance + minLen) = true
    · rw [if_pos hgive]
      simpa [StepOK] using hgive
    · rw [if_neg hgive]
      simp only [decide_eq_true_eq] at hgive
      by_cases hfound : (decide (pos ≤ i - primary.distance) && hasLen minLen text.length (i - primary.distance) &&
          fixedSetsMatchAt (primary :: rest) text (i - primary.distance)) = true
      · rw [if_pos hfound]
        exact ⟨rfl, by omega⟩
      · rw [if_neg hfound]
        simp only [StepOK]
        apply fails_of_not hS _ (by omega)
        intro hmatch
        apply hfound
        simp only [Bool.and_eq_true, decide_eq_true_eq, hasLen]
        exact ⟨⟨by omega, by omega⟩, hmatch⟩

/-! ### literal after a leading set loop -/

theorem walkBack_spec (S : Nat → Bool) (text : List Nat) (lo : Nat) : ∀ (i : Nat), lo ≤ i →
    lo ≤ walkBack S text lo i ∧ walkBack S text lo i ≤ i ∧
    (∀ j, walkBack S text lo i ≤ j → j < i → memAt S text j = true) ∧
    (walkBack S text lo i = lo ∨ (0 < walkBack S text lo i ∧ memAt S text (walkBack S text lo i - 1) = false)) := by
  intro i
  induction i with
  | zero =>
    intro h
    have : lo = 0 := by omega
    subst this
    simp [walkBack]
  | succ i ih =>
    intro h
    unfold walkBack
    by_cases hc : (decide (lo < i + 1) && memAt S text i) = true
    · rw [if_pos hc]
      simp only [Bool.and_eq_true, decide_eq_true_eq] at hc
      obtain ⟨h1, h2, h3, h4⟩ := ih (by omega)
      refine ⟨h1, by omega, ?_, h4⟩
      intro j hj1 hj2
      by_cases hji : j = i
      · subst hji; exact hc.2
      · exact h3 j hj1 (by omega)
    · rw [if_neg hc]
      refine ⟨h, Nat.le_refl _, fun j h1 h2 => by omega, ?_⟩
      simp only [Bool.and_eq_true, decide_eq_true_eq, not_and, Bool.not_eq_true] at hc
      by_cases hlo : lo < i + 1
      · right; exact ⟨by omega, by simpa using hc hlo⟩
      · left; omega

theorem litAt_lt (lower : Nat → Nat) (l : LitAfterLoop) (text : List Nat) (k : Nat)
    (h : l.litAt lower text k = true) : k < text.length := by
  unfold LitAfterLoop.litAt at h
  by_cases hs : l.str.isEmpty = true
  · simp only [hs, Bool.not_true, Bool.false_eq_true, if_false] at h
    by_cases hc : l.chars.isEmpty = true
    · simp only [hc, Bool.not_true, Bool.false_eq_true, if_false, beq_iff_eq] at h
      exact getElem?_some_lt text k _ h
    · simp only [hc, Bool.not_false, if_true] at h
      exact memAt_lt _ _ _ h
  · simp only [hs, Bool.not_false, if_true] at h
    have hne : l.str ≠ [] := by simpa [List.isEmpty_iff] using hs
    have := occursAt_fits' _ l.str text k hne h
    have hl : 0 < l.str.length := List.length_pos_iff.mpr hne
    omega

/-- the fact `findLiteralAfterLoopLeftToRight` consumes: from the start of every match, a run of
    loop-set characters leads to an occurrence of the literal -/
def LitAfterLoopFact (lower : Nat → Nat) (l : LitAfterLoop) (S : Nat → Bool) (text : List Nat)
    (attempt : Nat → Option (Nat × Nat)) : Prop :=
  ∀ p, p ≤ text.length → attempt p ≠ none →
    ∃ k, p ≤ k ∧ l.litAt lower text k = true ∧ ∀ j, p ≤ j → j < k → memAt S text j = true

theorem finderLiteralAfterLoop_sound (lower : Nat → Nat) (l : LitAfterLoop) (S : Nat → Bool) (text : List Nat)
    (minLen : Nat) (attempt : Nat → Option (Nat × Nat))
    (hset : l.loopSet = some S)
    (hL : LitAfterLoopFact lower l S text attempt)
    (hM : MinLenSound false text.length minLen attempt) :
    FinderSound false text.length (finderLiteralAfterLoop lower l text minLen) attempt := by
  apply finderSound_ltr
  intro pos hpos
  unfold finderLiteralAfterLoop
  simp only [hset]
  apply ltrPost_of_opt _ _ _ hpos
  -- invariant: every witness literal of a successful position at or after `pos` lies at or after `s`
  apply searchLoop_rule _ _ _
    (fun s => pos ≤ s ∧ ∀ p k, pos ≤ p → p ≤ text.length → attempt p ≠ none →
      p ≤ k → l.litAt lower text k = true → (∀ j, p ≤ j → j < k → memAt S text j = true) → s ≤ k)
    (LtrOpt attempt text.length pos) (text.length + 1)
  · intro s hg; simp at hg; omega
  · intro s hinv hg p h1 h2
    simp at hg
    cases ha : attempt p with
    | none => rfl
    | some m =>
      exfalso
      have hne : attempt p ≠ none := by rw [ha]; simp
      obtain ⟨k, hk1, hk2, hk3⟩ := hL p h2 hne
      have := hinv.2 p k h1 h2 hne hk1 hk2 hk3
      have := litAt_lt lower l text k hk2
      omega
  · intro s hinv hg hi p h1 h2
    simp at hg
    cases ha : attempt p with
    | none => rfl
    | some m =>
      exfalso
      have hne : attempt p ≠ none := by rw [ha]; simp
      obtain ⟨k, hk1, hk2, hk3⟩ := hL p h2 hne
      have h5 := hinv.2 p k h1 h2 hne hk1 hk2 hk3
      have h6 := litAt_lt lower l text k hk2
      have := findUp_none _ _ _ hi k h5 (by omega)
      rw [this] at hk2; simp at hk2
  · intro s i hinv hg hi
    simp at hg
    obtain ⟨h1, h2, h3, h4⟩ := findUp_some _ _ _ _ hi
    refine ⟨h1, ?_⟩
    obtain ⟨w1, w2, w3, w4⟩ := walkBack_spec S text pos i (by omega)
    -- a successful position at or after `pos` whose witness is `i` or later starts no earlier than `start`
    have hge : ∀ p k, pos ≤ p → p ≤ text.length → attempt p ≠ none → p ≤ k → l.litAt lower text k = true →
        (∀ j, p ≤ j → j < k → memAt S text j = true) → (i ≤ k ∧ (p ≤ i → walkBack S text pos i ≤ p)) := by
      intro p k hp1 hp2 hne hk1 hk2 hk3
      have hsk := hinv.2 p k hp1 hp2 hne hk1 hk2 hk3
      have hik : i ≤ k := by
        by_cases hlt : k < i
        · have := h4 k hsk hlt
          rw [this] at hk2; simp at hk2
        · omega
      refine ⟨hik, ?_⟩
      intro hpi
      by_cases hlt : p < walkBack S text pos i
      · exfalso
        rcases w4 with heq | ⟨hpos', hnot⟩
        · omega
        · have := hk3 (walkBack S text pos i - 1) (by omega) (by omega)
          rw [this] at hnot; simp at hnot
      · omega
    by_cases hl : hasLen minLen text.length (walkBack S text pos i) = true
    · simp only [hl, if_true]
      simp only [hasLen, decide_eq_true_eq] at hl
      refine ⟨w1, by omega, ?_⟩
      intro p hp1 hp2
      cases ha : attempt p with
      | none => rfl
      | some m =>
        exfalso
        have hne : attempt p ≠ none := by rw [ha]; simp
        obtain ⟨k, hk1, hk2, hk3⟩ := hL p (by omega) hne
        have := (hge p k hp1 (by omega) hne hk1 hk2 hk3).2 (by omega)
        omega
    · simp only [hl, Bool.false_eq_true, if_false]
      simp only [hasLen, decide_eq_true_eq] at hl
      refine ⟨by omega, ?_⟩
      intro p k hp1 hp2 hne hk1 hk2 hk3
      obtain ⟨hik, hstart⟩ := hge p k hp1 hp2 hne hk1 hk2 hk3
      by_cases hki : k = i
      · exfalso
        have := hstart (by omega)
        have := minLen_ltr hM p hp2 hne
        omega
      · omega
  · omega
  · refine ⟨Nat.le_refl _, ?_⟩
    intro p k hp1 _ _ hk1 _ _
    omega

/-! ### the required-landmark chain -/

/-- from `lb` on the remaining landmarks occur in order: some alternative of the next landmark matches with
    its core at `c ≥ lb`, and the rest of the chain from the earliest end of that alternative's core -/
def LmChainAt (text : List Nat) : List (List LmAlt) → Nat → Prop
  | [], _ => True
  | alts :: rest, lb => ∃ c alt, lb ≤ c ∧ alt ∈ alts ∧ (lmAltMatch text c alt).isSome = true ∧
      LmChainAt text rest (c + alt.minWidth)

/-- the landmark chain is present from position `p`: a run of leading-loop characters `[p, a)`, then a run
    `[a, c)` of characters that are leading whitespace of some alternative of the first landmark, then an
    alternative of the first landmark with its core at `c` (as `requiredLandmarkAlternativeMatch` tests it),
    then every later landmark in order, each core starting no earlier than the previous core's start plus
    the SHORTEST width of the alternative used -/
def LandmarkAt (S : Nat → Bool) (first : List LmAlt) (rest : List (List LmAlt)) (text : List Nat) (p : Nat) : Prop :=
  ∃ a c alt, p ≤ a ∧ a ≤ c ∧ (∀ j, p ≤ j → j < a → memAt S text j = true) ∧
    (∀ j, a ≤ j → j < c → memAt (lmLeadingWs first) text j = true) ∧
    alt ∈ first ∧ (lmAltMatch text c alt).isSome = true ∧ LmChainAt text rest (c + alt.minWidth)

/-- the fact `findRequiredLandmarkChainLeftToRight` consumes: the chain is present from every successful
    attempt position -/
def LandmarkFact (S : Nat → Bool) (first : List LmAlt) (rest : List (List LmAlt)) (text : List Nat)
    (attempt : Nat → Option (Nat × Nat)) : Prop :=
  ∀ p, p ≤ text.length → attempt p ≠ none → LandmarkAt S first rest text p

theorem runOf_le (S : Nat → Bool) (text : List Nat) (start maxRepeat : Nat) : ∀ (fuel e : Nat), e ≤ text.length →
    runOf S text start maxRepeat fuel e ≤ text.length := by
  intro fuel
  induction fuel with
  | zero => intro e h; simpa [runOf] using h
  | succ fuel ih =>
    intro e h
    unfold runOf
    split
    · rename_i hc
      simp only [Bool.and_eq_true, decide_eq_true_eq] at hc
      exact ih (e + 1) (by omega)
    · exact h

/-- giving repetitions back stops at the last admissible end followed by whitespace, at the minimum at the latest -/
theorem giveBack_spec (W : Option (Nat → Bool)) (text : List Nat) (start minRepeat : Nat) : ∀ (e : Nat),
    start + minRepeat ≤ e →
    start + minRepeat ≤ giveBack W text start minRepeat e ∧ giveBack W text start minRepeat e ≤ e ∧
    (∀ z, start + minRepeat ≤ z → z ≤ e → z < text.length → optMemAt W text z = true →
      z ≤ giveBack W text start minRepeat e) ∧
    (giveBack W text start minRepeat e = start + minRepeat ∨
      (giveBack W text start minRepeat e < text.length ∧ optMemAt W text (giveBack W text start minRepeat e) = true)) := by
  intro e
  induction e with
  | zero =>
    intro h
    have h0 : giveBack W text start minRepeat 0 = 0 := rfl
    rw [h0]
    exact ⟨h, Nat.le_refl _, fun z _ z2 _ _ => z2, Or.inl (by omega)⟩
  | succ e ih =>
    intro h
    unfold giveBack
    by_cases hc : (decide (minRepeat < e + 1 - start) && (decide (text.length ≤ e + 1) || !optMemAt W text (e + 1))) = true
    · rw [if_pos hc]
      simp only [Bool.and_eq_true, decide_eq_true_eq, Bool.or_eq_true, Bool.not_eq_true'] at hc
      obtain ⟨h1, h2, h3, h4⟩ := ih (by omega)
      refine ⟨h1, by omega, ?_, h4⟩
      intro z z1 z2 z3 z4
      by_cases hz : z = e + 1
      · subst hz
        rcases hc.2 with hn | hw
        · omega
        · rw [hw] at z4; simp at z4
      · exact h3 z z1 (by omega) z3 z4
    · rw [if_neg hc]
      refine ⟨h, Nat.le_refl _, fun z _ z2 _ _ => z2, ?_⟩
      simp only [Bool.and_eq_true, decide_eq_true_eq, Bool.or_eq_true, Bool.not_eq_true', not_and, not_or,
        Nat.not_le, Bool.not_eq_false] at hc
      by_cases hm : minRepeat < e + 1 - start
      · right; exact hc hm
      · left; omega

/-- the core of an alternative is at least as wide as its minimum and ends inside the input -/
theorem lmCore_some (text : List Nat) (c : Nat) (alt : LmAlt) (e : Nat) (h : lmCore text c alt = some e) :
    c < e ∧ e ≤ text.length := by
  unfold lmCore at h
  simp only [] at h
  by_cases hl : alt.literal.isEmpty = true
  · simp only [hl, Bool.not_true, Bool.false_eq_true, if_false] at h
    cases hs : alt.set with
    | none => simp [hs] at h
    | some S =>
      simp only [hs] at h
      by_cases hm : 0 < alt.minRepeat
      · simp only [hm, if_true] at h
        by_cases hrun : runOf S text c (if alt.maxRepeat ≤ 0 then alt.minRepeat else alt.maxRepeat.toNat) (text.length + 1) c - c < alt.minRepeat
        · rw [if_pos hrun] at h; simp at h
        · rw [if_neg hrun] at h
          have hbound : runOf S text c (if alt.maxRepeat ≤ 0 then alt.minRepeat else alt.maxRepeat.toNat) (text.length + 1) c ≤ text.length := by
            by_cases hcn : c ≤ text.length
            · exact runOf_le S text c _ (text.length + 1) c hcn
            · exfalso
              apply hrun
              have : runOf S text c (if alt.maxRepeat ≤ 0 then alt.minRepeat else alt.maxRepeat.toNat) (text.length + 1) c = c := by
                unfold runOf
                have : ¬ c < text.length := by omega
                simp [this]
              rw [this]; omega
          by_cases hgb : (alt.reqAfter && alt.trailWs.isSome) = true
          · rw [if_pos hgb] at h
            injection h with h
            subst h
            have hge : c + alt.minRepeat ≤ runOf S text c (if alt.maxRepeat ≤ 0 then alt.minRepeat else alt.maxRepeat.toNat) (text.length + 1) c := by omega
            obtain ⟨g1, g2, _, _⟩ := giveBack_spec alt.trailWs text c alt.minRepeat _ hge
            exact ⟨by omega, by omega⟩
          · rw [if_neg hgb] at h
            injection h with h
            subst h
            exact ⟨by omega, hbound⟩
      · simp [hm] at h
  · simp only [hl, Bool.not_false, if_true] at h
    by_cases hfit : (decide (text.length < c + alt.literal.length) || !occursAt eqExact alt.literal text c) = true
    · rw [if_pos hfit] at h; simp at h
    · rw [if_neg hfit] at h
      injection h with h
      subst h
      simp only [Bool.or_eq_true, decide_eq_true_eq, not_or, Nat.not_lt] at hfit
      have hne : alt.literal ≠ [] := by simpa [List.isEmpty_iff] using hl
      have := List.length_pos_iff.mpr hne
      exact ⟨by omega, by omega⟩

/-- an alternative that matches has its core where it was tried, inside the input -/
theorem lmAltMatch_some (text : List Nat) (c : Nat) (alt : LmAlt) (mt : LmMatch)
    (h : lmAltMatch text c alt = some mt) : mt.coreStart = c ∧ c < text.length := by
  unfold lmAltMatch at h
  simp only [] at h
  split at h
  · simp at h
  · cases hc : lmCore text c alt with
    | none => rw [hc] at h; simp at h
    | some e =>
      rw [hc] at h
      simp only [] at h
      obtain ⟨h1, h2⟩ := lmCore_some text c alt e hc
      split at h
      · simp at h
      · injection h with h; subst h; exact ⟨rfl, by omega⟩

theorem lmMinEnd_le (cs : Nat) : ∀ (alts : List LmAlt) (e0 : Nat),
    alts.foldl (fun minEnd other => if cs + other.minWidth < minEnd then cs + other.minWidth else minEnd) e0 ≤ e0 ∧
    ∀ o, o ∈ alts →
      alts.foldl (fun minEnd other => if cs + other.minWidth < minEnd then cs + other.minWidth else minEnd) e0 ≤ cs + o.minWidth := by
  intro alts
  induction alts with
  | nil => intro e0; simp
  | cons a rest ih =>
    intro e0
    simp only [List.foldl_cons]
    by_cases hlt : cs + a.minWidth < e0
    · simp only [hlt, if_true]
      obtain ⟨h1, h2⟩ := ih (cs + a.minWidth)
      refine ⟨by omega, ?_⟩
      intro o ho
      simp only [List.mem_cons] at ho
      rcases ho with rfl | ho
      · exact h1
      · exact h2 o ho
    · simp only [hlt, if_false]
      obtain ⟨h1, h2⟩ := ih e0
      refine ⟨h1, ?_⟩
      intro o ho
      simp only [List.mem_cons] at ho
      rcases ho with rfl | ho
      · omega
      · exact h2 o ho

/-- `findNextRequiredLandmarkRunes`: the first position at or after `i` where an alternative matches, and an
    earliest end that no alternative's core can undercut -/
theorem lmFindNext_spec (text : List Nat) (alts : List LmAlt) : ∀ (fuel i : Nat), text.length ≤ i + fuel →
    match lmFindNext text alts fuel i with
    | some (mt, minEnd) => i ≤ mt.coreStart ∧ mt.coreStart < text.length ∧
        (∀ c, i ≤ c → c < mt.coreStart → ∀ alt, alt ∈ alts → lmAltMatch text c alt = none) ∧
        (∀ o, o ∈ alts → minEnd ≤ mt.coreStart + o.minWidth)
    | none => ∀ c, i ≤ c → ∀ alt, alt ∈ alts → lmAltMatch text c alt = none := by
  intro fuel
  induction fuel with
  | zero =>
    intro i h
    simp only [lmFindNext]
    intro c hc alt _
    cases hm : lmAltMatch text c alt with
    | none => rfl
    | some mt => have := (lmAltMatch_some text c alt mt hm).2; omega
  | succ fuel ih =>
    intro i h
    unfold lmFindNext
    by_cases hin : i < text.length
    · rw [if_pos hin]
      cases hf : alts.findSome? (lmAltMatch text i) with
      | some mt =>
        simp only []
        obtain ⟨alt, halt, hm⟩ := List.exists_of_findSome?_eq_some hf
        obtain ⟨hcs, _⟩ := lmAltMatch_some text i alt mt hm
        refine ⟨by omega, by omega, fun c h1 h2 => by omega, ?_⟩
        intro o ho
        exact (lmMinEnd_le mt.coreStart alts mt.«end»).2 o ho
      | none =>
        simp only []
        have hnone : ∀ alt, alt ∈ alts → lmAltMatch text i alt = none := by
          intro alt halt
          exact (List.findSome?_eq_none_iff.mp hf) alt halt
        have := ih (i + 1) (by omega)
        cases hr : lmFindNext text alts fuel (i + 1) with
        | none =>
          rw [hr] at this
          intro c hc alt halt
          by_cases hci : c = i
          · subst hci; exact hnone alt halt
          · exact this c (by omega) alt halt
        | some r =>
          rw [hr] at this
          obtain ⟨mt, minEnd⟩ := r
          obtain ⟨x1, x2, x3, x4⟩ := this
          refine ⟨by omega, x2, ?_, x4⟩
          intro c hc1 hc2 alt halt
          by_cases hci : c = i
          · subst hci; exact hnone alt halt
          · exact x3 c (by omega) hc2 alt halt
    · rw [if_neg hin]
      intro c hc alt _
      cases hm : lmAltMatch text c alt with
      | none => rfl
      | some mt => have := (lmAltMatch_some text c alt mt hm).2; omega

/-- if the remaining landmarks occur in order from `lb`, the inner loop of the finder succeeds from any
    earlier start -/
theorem lmRest_of_chain (text : List Nat) : ∀ (rest : List (List LmAlt)) (lb lb' : Nat),
    LmChainAt text rest lb → lb' ≤ lb → lmRest text rest lb' = true := by
  intro rest
  induction rest with
  | nil => intro lb lb' _ _; rfl
  | cons alts rest ih =>
    intro lb lb' hch hle
    obtain ⟨c, alt, hc1, halt, hm, hrest⟩ := hch
    unfold lmRest
    have hspec := lmFindNext_spec text alts (text.length + 1) lb' (by omega)
    cases hf : lmFindNext text alts (text.length + 1) lb' with
    | none =>
      rw [hf] at hspec
      have := hspec c (by omega) alt halt
      rw [this] at hm; simp at hm
    | some r =>
      rw [hf] at hspec
      obtain ⟨mt, minEnd⟩ := r
      obtain ⟨x1, x2, x3, x4⟩ := hspec
      simp only []
      have hcs : mt.coreStart ≤ c := by
        by_cases hlt : c < mt.coreStart
        · have := x3 c (by omega) hlt alt halt
          rw [this] at hm; simp at hm
        · omega
      have := x4 alt halt
      exact ih (c + alt.minWidth) minEnd hrest (by omega)

theorem lmLoop_range (S : Nat → Bool) (first : List LmAlt) (rest : List (List LmAlt)) (text : List Nat)
    (minLen pos : Nat) : ∀ (fuel s q : Nat), pos ≤ s →
    lmLoop S first rest text minLen pos fuel s = some q → pos ≤ q ∧ q ≤ text.length := by
  intro fuel
  induction fuel with
  | zero => intro s q _ h; simp [lmLoop] at h
  | succ fuel ih =>
    intro s q hs h
    unfold lmLoop at h
    split at h
    · have hspec := lmFindNext_spec text first (text.length + 1) s (by omega)
      cases hf : lmFindNext text first (text.length + 1) s with
      | none => rw [hf] at h; simp at h
      | some r =>
        rw [hf] at h hspec
        obtain ⟨mt, e⟩ := r
        obtain ⟨x1, x2, _, _⟩ := hspec
        simp only [] at h
        split at h
        · obtain ⟨w1, w2, _, _⟩ := walkBack_spec (lmLeadingWs first) text pos mt.coreStart (by omega)
          obtain ⟨v1, v2, _, _⟩ := walkBack_spec S text pos (walkBack (lmLeadingWs first) text pos mt.coreStart) w1
          split at h
          · injection h with h; subst h; exact ⟨v1, by omega⟩
          · exact ih (mt.coreStart + 1) q (by omega) h
        · simp at h
    · simp at h

theorem finderLandmarkChain_sound (ch : LmChain) (S : Nat → Bool) (first : List LmAlt) (rest : List (List LmAlt))
    (text : List Nat) (minLen : Nat) (attempt : Nat → Option (Nat × Nat))
    (hS : ch.loopSet = some S) (hL : ch.landmarks = first :: rest)
    (hF : LandmarkFact S first rest text attempt)
    (hM : MinLenSound false text.length minLen attempt) :
    FinderSound false text.length (finderLandmarkChain ch text minLen) attempt := by
  apply finderSound_ltr
  intro pos hpos
  unfold finderLandmarkChain
  simp only [hS, hL]
  apply ltrPost_of_opt _ _ _ hpos
  -- only the first iteration decides: later ones run when no position from `pos` on can match
  show LtrOpt attempt text.length pos (lmLoop S first rest text minLen pos (text.length + 1) pos)
  have hnone : ∀ {P : Prop}, (∀ p, pos ≤ p → p ≤ text.length → attempt p ≠ none → P) →
      (¬ P → ∀ p, pos ≤ p → p ≤ text.length → attempt p = none) := by
    intro P h hnp p h1 h2
    cases ha : attempt p with
    | none => rfl
    | some m => exact absurd (h p h1 h2 (by rw [ha]; simp)) hnp
  unfold lmLoop
  by_cases hg : pos + minLen ≤ text.length
  · rw [if_pos hg]
    have hspec := lmFindNext_spec text first (text.length + 1) pos (by omega)
    cases hf : lmFindNext text first (text.length + 1) pos with
    | none =>
      rw [hf] at hspec
      simp only [LtrOpt]
      apply hnone (P := False) _ (fun h => h)
      intro p h1 h2 hne
      obtain ⟨a, c, alt, y1, y2, _, _, y5, y6, _⟩ := hF p h2 hne
      have := hspec c (by omega) alt y5
      rw [this] at y6; simp at y6
    | some r =>
      rw [hf] at hspec
      obtain ⟨mt, firstMinEnd⟩ := r
      obtain ⟨x1, x2, x3, x4⟩ := hspec
      simp only []
      -- every matching position at or after `pos` has its first landmark at or after the one found
      have hreal : ∀ p, pos ≤ p → p ≤ text.length → attempt p ≠ none →
          lmRest text rest firstMinEnd = true ∧
          walkBack S text pos (walkBack (lmLeadingWs first) text pos mt.coreStart) ≤ p := by
        intro p h1 h2 hne
        obtain ⟨a, c, alt, y1, y2, y3, y4, y5, y6, y7⟩ := hF p h2 hne
        have hcs : mt.coreStart ≤ c := by
          by_cases hlt : c < mt.coreStart
          · have := x3 c (by omega) hlt alt y5
            rw [this] at y6; simp at y6
          · omega
        refine ⟨lmRest_of_chain text rest _ _ y7 (by have := x4 alt y5; omega), ?_⟩
        obtain ⟨w1, w2, w3, w4⟩ := walkBack_spec (lmLeadingWs first) text pos mt.coreStart (by omega)
        have hc1a : walkBack (lmLeadingWs first) text pos mt.coreStart ≤ a := by
          rcases w4 with heq | ⟨hpos', hnot⟩
          · omega
          · by_cases hgt : a < walkBack (lmLeadingWs first) text pos mt.coreStart
            · have := y4 (walkBack (lmLeadingWs first) text pos mt.coreStart - 1) (by omega) (by omega)
              rw [this] at hnot; simp at hnot
            · omega
        obtain ⟨v1, v2, v3, v4⟩ := walkBack_spec S text pos _ w1
        rcases v4 with heq | ⟨hpos', hnot⟩
        · omega
        · by_cases hgt : p < walkBack S text pos (walkBack (lmLeadingWs first) text pos mt.coreStart)
          · have := y3 (walkBack S text pos (walkBack (lmLeadingWs first) text pos mt.coreStart) - 1) (by omega) (by omega)
            rw [this] at hnot; simp at hnot
          · omega
      by_cases hrest : lmRest text rest firstMinEnd = true
      · rw [if_pos hrest]
        obtain ⟨w1, w2, _, _⟩ := walkBack_spec (lmLeadingWs first) text pos mt.coreStart (by omega)
        obtain ⟨v1, v2, _, _⟩ := walkBack_spec S text pos _ w1
        by_cases hlen : hasLen minLen text.length (walkBack S text pos (walkBack (lmLeadingWs first) text pos mt.coreStart)) = true
        · rw [if_pos hlen]
          refine ⟨v1, by omega, ?_⟩
          intro p hp1 hp2
          cases ha : attempt p with
          | none => rfl
          | some m =>
            have := (hreal p hp1 (by omega) (by rw [ha]; simp)).2
            omega
        · rw [if_neg hlen]
          simp only [hasLen, decide_eq_true_eq] at hlen
          have hno : ∀ p, pos ≤ p → p ≤ text.length → attempt p = none := by
            apply hnone (P := False) _ (fun h => h)
            intro p h1 h2 hne
            have := (hreal p h1 h2 hne).2
            have := minLen_ltr hM p h2 hne
            omega
          cases hr : lmLoop S first rest text minLen pos text.length (mt.coreStart + 1) with
          | none => exact hno
          | some q =>
            obtain ⟨q1, q2⟩ := lmLoop_range S first rest text minLen pos _ _ q (by omega) hr
            exact ⟨q1, q2, fun p hp1 hp2 => hno p hp1 (by omega)⟩
      · rw [if_neg hrest]
        apply hnone (P := False) _ (fun h => h)
        intro p h1 h2 hne
        exact hrest (hreal p h1 h2 hne).1
  · rw [if_neg hg]
    intro p h1 h2
    cases ha : attempt p with
    | none => rfl
    | some m =>
      have := minLen_ltr hM p h2 (by rw [ha]; simp)
      omega

/-! ### the dispatch of `findFirstCharDefault` -/

theorem finderSound_congr (rtl : Bool) (n : Nat) (f g : Nat → Bool × Nat) (attempt : Nat → Option (Nat × Nat))
    (h : ∀ pos, f pos = g pos) (hg : FinderSound rtl n g attempt) : FinderSound rtl n f attempt := by
  intro pos hpos
  rw [h pos]
  exact hg pos hpos

/-- the fact consumed by the helper that `findFirstCharOptimized` selects for the mode (for the
    required-landmark chain: `LandmarkFact`) -/
def OptFacts (lower : Nat → Nat) (o : FindOpts) (text : List Nat) (attempt : Nat → Option (Nat × Nat)) : Prop :=
  match o.mode with
  | .trailingAnchorFixedLengthLtrEnd => ∀ p, p ≤ text.length → attempt p ≠ none → p + o.minLen = text.length
  | .leadingStringLtr =>
    ∀ p, p ≤ text.length → attempt p ≠ none → occursAt (stringEq lower false o.leadingPrefix) o.leadingPrefix text p = true
  | .leadingStringOrdinalIgnoreCaseLtr =>
    ∀ p, p ≤ text.length → attempt p ≠ none → occursAt (stringEq lower true o.leadingPrefix) o.leadingPrefix text p = true
  | .leadingStringsLtr => StringsFacts lower o.prefixes o.firstRunes false text attempt
  | .leadingStringsOrdinalIgnoreCaseLtr => StringsFacts lower o.prefixes o.firstRunes true text attempt
  | .leadingSetLtr | .fixedDistanceSetsLtr =>
    (∃ primary rest, o.sets = primary :: rest ∧ primary.set.isSome = true) ∧
    ∀ p, p ≤ text.length → attempt p ≠ none → fixedSetsMatchAt o.sets text p = true
  | .fixedDistanceCharLtr => ∀ p, p ≤ text.length → attempt p ≠ none → text[p + o.fixedDistance]? = some o.fixedChar
  | .fixedDistanceStringLtr =>
    ∀ p, p ≤ text.length → attempt p ≠ none → occursAt eqExact o.fixedString text (p + o.fixedDistance) = true
  | .literalAfterLoopLtr =>
    ∃ l S, o.literalAfterLoop = some l ∧ l.loopSet = some S ∧ LitAfterLoopFact lower l S text attempt
  | .requiredLandmarkChainLtr =>
    ∃ ch S first rest, o.chain = some ch ∧ ch.loopSet = some S ∧ ch.landmarks = first :: rest ∧
      LandmarkFact S first rest text attempt
  | _ => True

/-- the published facts of the path `findFirstCharDefault` takes are true at every successful attempt -/
structure FactsSound (f : Facts) (text : List Nat) (textstart : Nat) (attempt : Nat → Option (Nat × Nat)) : Prop where
  anchors : f.anchors.any = true → AnchorFacts f.anchors text textstart attempt
  bm : ∀ b, f.bm = some b → BmFact f.lower b f.rtl text attempt
  /-- well-formedness of the compiled program: a `Code.BmPrefix` exists only for a pattern `newBmPrefix` accepts -/
  bmBuilt : f.anchors.any = false → ∀ b, f.bm = some b → BmBuilt b f.rtl
  opt : f.anchors.any = false → f.bm = none → shouldUse f.opts = true →
    f.rtl = false ∧ MinLenSound false text.length f.opts.minLen attempt ∧ OptFacts f.lower f.opts text attempt
  fc : f.anchors.any = false → f.bm = none → shouldUse f.opts = false →
    ∀ mem, f.fc = some mem → FcFact mem f.rtl text attempt

theorem finderDefault_sound (f : Facts) (text : List Nat) (textstart : Nat) (attempt : Nat → Option (Nat × Nat))
    (h : FactsSound f text textstart attempt) :
    FinderSound f.rtl text.length (finderDefault f text textstart) attempt := by
  by_cases ha : f.anchors.any = true
  · apply finderSound_congr _ _ _ (finderAnchors f.lower f.anchors f.bm f.rtl text textstart)
    · intro pos; simp [finderDefault, ha]
    · cases hr : f.rtl with
      | false => exact finderAnchors_ltr _ _ _ _ _ _ (h.anchors ha) (fun b hb => by have := h.bm b hb; rwa [hr] at this)
      | true => exact finderAnchors_rtl _ _ _ _ _ _ (h.anchors ha) (fun b hb => by have := h.bm b hb; rwa [hr] at this)
  · have ha' : f.anchors.any = false := by simpa using ha
    cases hb : f.bm with
    | some b =>
      apply finderSound_congr _ _ _ (finderBmScan f.lower b f.rtl text)
      · intro pos; simp [finderDefault, ha', hb]
      · exact finderBmScan_sound _ _ _ _ _ (h.bmBuilt ha' b hb) (h.bm b hb)
    | none =>
      by_cases hsu : shouldUse f.opts = true
      · obtain ⟨hrtl, hM, hO⟩ := h.opt ha' hb hsu
        rw [hrtl]
        have hcongr : ∀ g : Nat → Bool × Nat, (∀ pos, finderOptimized f.lower f.opts text pos = some (g pos)) →
            FinderSound false text.length g attempt →
            FinderSound false text.length (finderDefault f text textstart) attempt := by
          intro g hg hs
          apply finderSound_congr _ _ _ g _ ?_ hs
          intro pos; simp [finderDefault, ha', hb, hsu, hg pos]
        unfold OptFacts at hO
        cases hm : f.opts.mode <;> rw [hm] at hO <;> simp only [] at hO
        all_goals first
          | (exfalso; simp [shouldUse, hm] at hsu; done)
          | skip
        · -- trailing End anchor with fixed length
          exact hcongr _ (fun pos => by simp [finderOptimized, hm])
            (finderTrailingEnd_sound _ _ _ hO)
        · exact hcongr _ (fun pos => by simp [finderOptimized, hm])
            (finderLeadingString_sound _ _ _ _ _ _ hO hM)
        · exact hcongr _ (fun pos => by simp [finderOptimized, hm])
            (finderLeadingStrings_sound _ _ _ _ _ _ _ hO hM)
        · exact hcongr _ (fun pos => by simp [finderOptimized, hm])
            (finderLeadingStrings_sound _ _ _ _ _ _ _ hO hM)
        · exact hcongr _ (fun pos => by simp [finderOptimized, hm])
            (finderFixedSets_sound _ _ _ _ hO.1 hO.2 hM)
        · exact hcongr _ (fun pos => by simp [finderOptimized, hm])
            (finderFixedChar_sound _ _ _ _ _ hO hM)
        · exact hcongr _ (fun pos => by simp [finderOptimized, hm])
            (finderFixedString_sound _ _ _ _ _ hO hM)
        · exact hcongr _ (fun pos => by simp [finderOptimized, hm])
            (finderFixedSets_sound _ _ _ _ hO.1 hO.2 hM)
        · obtain ⟨l, S, hl, hS, hL⟩ := hO
          exact hcongr _ (fun pos => by simp [finderOptimized, hm, hl])
            (finderLiteralAfterLoop_sound _ _ _ _ _ _ hS hL hM)
        · obtain ⟨ch, S, first, rest, hch, hS, hL, hF⟩ := hO
          exact hcongr _ (fun pos => by simp [finderOptimized, hm, hch])
            (finderLandmarkChain_sound ch S first rest text _ attempt hS hL hF hM)
      · have hsu' : shouldUse f.opts = false := by simpa using hsu
        cases hfc : f.fc with
        | none =>
          apply finderSound_congr _ _ _ finderNoSearch
          · intro pos; simp [finderDefault, ha', hb, hsu', hfc]
          · exact finderNoSearch_sound _ _ _
        | some mem =>
          apply finderSound_congr _ _ _ (finderFc mem f.rtl text)
          · intro pos; simp [finderDefault, ha', hb, hsu', hfc]
          · exact finderFc_sound _ _ _ _ (h.fc ha' hb hsu' mem hfc)

/-! ### `leadingPrefixFirstRunes` is complete -/

theorem firstRunes_fold (c : Nat) : ∀ (l : List (List Nat)) (acc : List Nat),
    (c ∈ acc ∨ ∃ rest, (c :: rest) ∈ l) →
    c ∈ l.foldl (fun first p =>
      match p with
      | c :: _ => if first.contains c then first else first ++ [c]
      | [] => first) acc := by
  intro l
  induction l with
  | nil => intro acc h; rcases h with h | ⟨_, h⟩; exact h; simp at h
  | cons p ps ih =>
    intro acc h
    simp only [List.foldl_cons]
    apply ih
    rcases h with h | ⟨rest, h⟩
    · left
      cases p with
      | nil => exact h
      | cons d _ =>
        simp only
        split
        · exact h
        · simp [h]
    · simp only [List.mem_cons] at h
      rcases h with h | h
      · left
        subst h
        simp only
        split
        · rename_i hc; simpa using hc
        · simp
      · right; exact ⟨rest, h⟩

theorem leadingPrefixFirstRunes_complete (prefixes : List (List Nat)) :
    ∀ pre, pre ∈ prefixes → ∀ c rest, pre = c :: rest → c ∈ leadingPrefixFirstRunes prefixes := by
  intro pre hpre c rest hc
  subst hc
  exact firstRunes_fold c prefixes [] (Or.inr ⟨rest, hpre⟩)

/-! ### scaffolding for the non-vacuity examples of Props/C03 -/

namespace Demo

/-- a left-to-right attempt table: success exactly at `a` and `b`, with length `len` -/
theorem succ_of {len a b p : Nat}
    (h : (fun p => if p = a ∨ p = b then some (p, len) else none : Nat → Option (Nat × Nat)) p ≠ none) :
    p = a ∨ p = b := by
  by_cases hp : p = a ∨ p = b
  · exact hp
  · simp [hp] at h

/-- a right-to-left attempt table: success exactly at (ending at) 3 and 5, length 2 -/
theorem succRtl_of {p : Nat}
    (h : (fun p => if p = 3 ∨ p = 5 then some (p - 2, 2) else none : Nat → Option (Nat × Nat)) p ≠ none) :
    p = 3 ∨ p = 5 := by
  by_cases hp : p = 3 ∨ p = 5
  · exact hp
  · simp [hp] at h

end Demo

end RegexVerif.Lemmas.Finders
