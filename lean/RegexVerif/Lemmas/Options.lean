import RegexVerif.Model.Options

namespace RegexVerif.Options

theorem applySeq_append (o : Opts) (a b : List (Flag × Bool)) :
    applySeq o (a ++ b) = applySeq (applySeq o a) b := by
  induction a generalizing o with
  | nil => rfl
  | cons p a ih => obtain ⟨f, v⟩ := p; simp [applySeq, ih]

/-- `(?O)` read by `scanOptions` on top of `o`: the union -/
theorem applySeq_onSeq (o O : Opts) :
    applySeq o (onSeq O) =
      { i := o.i || O.i, m := o.m || O.m, n := o.n || O.n, s := o.s || O.s, x := o.x || O.x } := by
  obtain ⟨oi, om, on, os, ox⟩ := o
  obtain ⟨i, m, n, s, x⟩ := O
  cases i <;> cases m <;> cases n <;> cases s <;> cases x <;> simp [onSeq, applySeq, Opts.set]

theorem applySeq_none_onSeq (O : Opts) : applySeq Opts.none (onSeq O) = O := by
  rw [applySeq_onSeq]; simp [Opts.none]

/-- `(?-O)` on top of `o`: the difference -/
theorem applySeq_offSeq (o O : Opts) :
    applySeq o (offSeq O) =
      { i := o.i && !O.i, m := o.m && !O.m, n := o.n && !O.n, s := o.s && !O.s, x := o.x && !O.x } := by
  obtain ⟨oi, om, on, os, ox⟩ := o
  obtain ⟨i, m, n, s, x⟩ := O
  cases i <;> cases m <;> cases n <;> cases s <;> cases x <;> simp [offSeq, onSeq, applySeq, Opts.set]

theorem resolve_cons (o : Opts) (p : Pat) (ps : List Pat) :
    resolve o (p :: ps) = (resolveOne o p).1 ++ resolve (resolveOne o p).2 ps := by
  simp [resolve]

theorem resolve_nil (o : Opts) : resolve o [] = [] := by simp [resolve]

/-- options in force after the items `ps` of one group body -/
def optsAfter (o : Opts) : List Pat → Opts
  | [] => o
  | p :: ps => optsAfter (resolveOne o p).2 ps

theorem resolve_append (o : Opts) (a b : List Pat) :
    resolve o (a ++ b) = resolve o a ++ resolve (optsAfter o a) b := by
  induction a generalizing o with
  | nil => simp [resolve_nil, optsAfter]
  | cons p a ih => simp [resolve_cons, optsAfter, ih]

theorem leaves_append (a b : List Tok) : leaves (a ++ b) = leaves a ++ leaves b := by
  induction a with
  | nil => rfl
  | cons t a ih => cases t <;> simp [leaves, ih]

/-- groups and scoped groups leave the options as they found them; only a bare `(?…)` changes them -/
theorem resolveOne_snd (o : Opts) (p : Pat) :
    (resolveOne o p).2 = match p with
      | .opt seq => applySeq o seq
      | _ => o := by
  cases p <;> simp [resolveOne]

/-! the stack machine computes `resolve` -/

mutual
theorem run_flatten_aux (o : Opts) (st : List Opts) (rest : List Src) :
    (ps : List Pat) → run o st (flatten ps ++ rest) = resolve o ps ++ run (optsAfter o ps) st rest
  | [] => by simp [flatten, resolve_nil, optsAfter]
  | p :: ps => by
    have h1 := run_flattenOne_aux o st (flatten ps ++ rest) p
    have h2 := run_flatten_aux (resolveOne o p).2 st rest ps
    simp only [flatten, List.append_assoc, resolve_cons, optsAfter]
    rw [h1, h2]
theorem run_flattenOne_aux (o : Opts) (st : List Opts) (rest : List Src) :
    (p : Pat) → run o st (flattenOne p ++ rest) = (resolveOne o p).1 ++ run (resolveOne o p).2 st rest
  | .leaf id => by simp [flattenOne, run, resolveOne]
  | .bar id => by simp [flattenOne, run, resolveOne]
  | .opt seq => by simp [flattenOne, run, resolveOne]
  | .group id k body => by
    have h := run_flatten_aux o (o :: st) (.gclose id :: rest) body
    simp only [flattenOne, List.cons_append, List.append_assoc, List.nil_append, run, resolveOne]
    rw [h]; simp [run]
  | .scoped id seq body => by
    have h := run_flatten_aux (applySeq o seq) (o :: st) (.gclose id :: rest) body
    simp only [flattenOne, List.cons_append, List.append_assoc, List.nil_append, run, resolveOne]
    rw [h]; simp [run]
end

end RegexVerif.Options
