/-
Soundness of the grouping-stack typing, part 3: the switch as a whole, `advance` / `goTo` / `backtrack`, one step,
the start state, runs.
-/
import RegexVerif.Lemmas.StackTypingCases

namespace RegexVerif.Lemmas.StackTypingSound
open RegexVerif RegexVerif.Code RegexVerif.VM RegexVerif.StackTyping RegexVerif.Lemmas.VM
open RegexVerif.Lemmas.StackTyping RegexVerif.Lemmas.StackTypingCap

section flowfacts
variable {p : Prog} {bs : List Nat} {env : Env} {a : Assign} {s : VMState} {w : Word} {o : Op}

/-- what the typing says about the instruction at the current position -/
theorem flow_at (hty : TypingW p bs a) (c : Ctx p bs env s w o) {S : STy} (hS : a.get s.codepos = some S) :
    ∃ succs, flow p s.codepos o S = some succs ∧ ∀ x ∈ succs, NextOk a x.1 x.2 := by
  obtain ⟨o', succs, ho', hfl, hs⟩ := hty.closed s.codepos c.pcIn S hS
  rw [ctx_opAt c] at ho'
  cases ho'
  exact ⟨succs, hfl, hs⟩

variable {S : STy} {succs : List (Nat × STy)} {pc : Nat}

theorem flow_next (hflow : flow p pc o S = some succs) (hsucc : ∀ x ∈ succs, NextOk a x.1 x.2)
    {q : Nat} {T : STy} (hshape : flow p pc o S = some [(q, T)]) : NextOk a q T := by
  rw [hshape] at hflow
  cases hflow
  exact hsucc (q, T) (by simp)

theorem target_some {t : Int} (ht : p.codes[pc + 1]? = some t) {t' : Nat} (h : target p pc = some t') : t.toNat = t' :=
  target_spec h t ht

theorem flow_target (ho : o = .goto ∨ o = .lazybranch) (hflow : flow p pc o S = some succs)
    (hsucc : ∀ x ∈ succs, NextOk a x.1 x.2) :
    (∀ t, p.codes[pc + 1]? = some t → NextOk a t.toNat S) ∧ (o = .lazybranch → NextOk a (pc + 2) S) := by
  rcases ho with rfl | rfl
  · simp only [flow, Option.map_eq_some_iff] at hflow
    obtain ⟨t', ht', rfl⟩ := hflow
    refine ⟨fun t ht => ?_, fun h => by cases h⟩
    rw [target_some ht ht']; exact hsucc (t', S) (by simp)
  · simp only [flow, Option.map_eq_some_iff] at hflow
    obtain ⟨t', ht', rfl⟩ := hflow
    refine ⟨fun t ht => ?_, fun _ => hsucc (pc + 2, S) (by simp [Op.size])⟩
    rw [target_some ht ht']; exact hsucc (t', S) (by simp)

theorem flow_mark (ho : o = .branchmark ∨ o = .lazybranchmark) (hflow : flow p pc o S = some succs)
    (hsucc : ∀ x ∈ succs, NextOk a x.1 x.2) :
    ∃ K R, S = K :: R ∧ StackTyping.isMark K = true ∧ NextOk a (pc + 2) R ∧
      ∀ t, p.codes[pc + 1]? = some t → NextOk a t.toNat (.pos :: R) := by
  cases S with
  | nil => rcases ho with rfl | rfl <;> simp [flow] at hflow
  | cons K R =>
    have : StackTyping.isMark K = true ∧ ∃ t', target p pc = some t' ∧ succs = [(pc + 2, R), (t', .pos :: R)] := by
      rcases ho with rfl | rfl <;>
      · simp only [flow] at hflow
        split at hflow
        · next hm =>
          simp only [Option.map_eq_some_iff] at hflow
          obtain ⟨t', ht', rfl⟩ := hflow
          exact ⟨hm, t', ht', rfl⟩
        · cases hflow
    obtain ⟨hm, t', ht', rfl⟩ := this
    refine ⟨K, R, rfl, hm, hsucc (pc + 2, R) (by simp), fun t ht => ?_⟩
    rw [target_some ht ht']; exact hsucc (t', .pos :: R) (by simp)

theorem flow_count (ho : o = .branchcount ∨ o = .lazybranchcount) (hflow : flow p pc o S = some succs)
    (hsucc : ∀ x ∈ succs, NextOk a x.1 x.2) :
    ∃ K R, S = .count :: K :: R ∧ StackTyping.isMark K = true ∧ NextOk a (pc + 3) R ∧
      ∀ t, p.codes[pc + 1]? = some t → NextOk a t.toNat (.count :: .pos :: R) := by
  have : ∃ K R, S = .count :: K :: R ∧ StackTyping.isMark K = true ∧
      ∃ t', target p pc = some t' ∧ succs = [(pc + 3, R), (t', .count :: .pos :: R)] := by
    rcases ho with rfl | rfl <;>
    · simp only [flow] at hflow
      split at hflow
      · next K R =>
        split at hflow
        · next hm =>
          simp only [Option.map_eq_some_iff] at hflow
          obtain ⟨t', ht', rfl⟩ := hflow
          exact ⟨K, R, rfl, hm, t', ht', rfl⟩
        · cases hflow
      · cases hflow
  obtain ⟨K, R, rfl, hm, t', ht', rfl⟩ := this
  refine ⟨K, R, rfl, hm, hsucc (pc + 3, R) (by simp), fun t ht => ?_⟩
  rw [target_some ht ht']; exact hsucc (t', .count :: .pos :: R) (by simp)

theorem flow_pos (ho : o = .getmark ∨ o = .capturemark) (hflow : flow p pc o S = some succs)
    (hsucc : ∀ x ∈ succs, NextOk a x.1 x.2) : ∃ R, S = .pos :: R ∧ NextOk a (pc + o.size) R := by
  rcases ho with rfl | rfl
  · simp only [flow] at hflow
    split at hflow
    · next R => cases hflow; exact ⟨R, rfl, hsucc (pc + Op.size .getmark, R) (by simp)⟩
    · cases hflow
  · simp only [flow] at hflow
    split at hflow
    · next R => cases hflow; exact ⟨R, rfl, hsucc (pc + Op.size .capturemark, R) (by simp)⟩
    · cases hflow

theorem flow_pair (ho : o = .backjump ∨ o = .forejump) (hflow : flow p pc o S = some succs)
    (hsucc : ∀ x ∈ succs, NextOk a x.1 x.2) :
    ∃ R, S = .cdepth :: .tdepth :: R ∧ (o = .forejump → NextOk a (pc + 1) R) := by
  rcases ho with rfl | rfl
  · simp only [flow] at hflow
    split at hflow
    · next R => exact ⟨R, rfl, fun h => by cases h⟩
    · cases hflow
  · simp only [flow] at hflow
    split at hflow
    · next R => cases hflow; exact ⟨R, rfl, fun _ => hsucc (pc + 1, R) (by simp [Op.size])⟩
    · cases hflow

end flowfacts

section body
variable {p : Prog} {bs : List Nat} {env : Env} {a : Assign} {s : VMState} {w : Word} {o : Op}

/-- **every case of the switch** keeps the typing part of the invariant and raises no discipline fault -/
theorem tbody_ok (hty : TypingW p bs a) (c : Ctx p bs env s w o) (hsh : TShape p bs env.len a s o) :
    TBodyOk p bs env.len a s.codepos (body p env s) := by
  have hop : Op.ofNat? s.oper.op = some o := by rw [c.oop]; exact c.facts.op
  have hlen : -1 ≤ (-1 : Int) ∧ (-1 : Int) ≤ env.len := ⟨by omega, by have := c.tp0; have := c.tpn; omega⟩
  unfold TShape at hsh
  cases hb : s.oper.back <;> cases hb2 : s.oper.back2 <;> simp only [hb, hb2] at hsh
  · -- forward cases
    rcases hsh with ⟨σ, ⟨core, tp, htr, hg, hv, hcap⟩, S, hS, hsub⟩ | ⟨ht, hst, hcr, hpc, hcap⟩ | ⟨ht, hstop⟩
    · have h : FwdH p bs env a s S σ core tp := ⟨hS, hsub, htr, hg, hv, hcap⟩
      obtain ⟨succs, hflow, hsucc⟩ := flow_at hty c hS
      have nofr : ∀ {o' : Op}, frameData o' false = none → ∀ (d : List Int) (dl : Int) (τ : RTy) (cl : Int),
          frameData o' false = some d.length → subTy (erase τ) S = true →
          FrameTy p env.len s.codepos o' false S d dl τ cl τ cl := by
        intro o' h0 d dl τ cl h1; rw [h0] at h1; cases h1
      cases o with
      | stop => simp only [body, hop, modeOf, hb, hb2]; exact trivial
      | prune => simp [flow] at hflow
      | nothing => simp only [body, hop, modeOf, hb, hb2]; exact nothing_fwd h
      | lazybranch =>
        simp only [body, hop, modeOf, hb, hb2]
        exact lazybranch_fwd c rfl h ((flow_target (Or.inr rfl) hflow hsucc).2 rfl)
      | goto => simp only [body, hop, modeOf, hb, hb2]; exact goto_fwd h (flow_target (Or.inl rfl) hflow hsucc).1
      | setmark =>
        simp only [body, hop, modeOf, hb, hb2]
        exact setmark_fwd c (Or.inl rfl) _ .pos (Or.inl ⟨rfl, rfl⟩) ⟨c.tp0, c.tpn⟩ h (flow_next hflow hsucc rfl)
      | nullmark =>
        simp only [body, hop, modeOf, hb, hb2]
        exact setmark_fwd c (Or.inr rfl) _ .mark (Or.inr ⟨rfl, rfl⟩) hlen h (flow_next hflow hsucc rfl)
      | setcount =>
        simp only [body, hop, modeOf, hb, hb2]
        exact setcount_fwd c _ .pos (Or.inl ⟨rfl, rfl⟩) ⟨c.tp0, c.tpn⟩ h (flow_next hflow hsucc rfl)
      | nullcount =>
        simp only [body, hop, modeOf, hb, hb2]
        exact setcount_fwd c _ .mark (Or.inr ⟨rfl, rfl⟩) hlen h (flow_next hflow hsucc rfl)
      | setjump => simp only [body, hop, modeOf, hb, hb2]; exact setjump_fwd c rfl h (flow_next hflow hsucc rfl)
      | getmark =>
        simp only [body, hop, modeOf, hb, hb2]
        obtain ⟨R, hS', hn⟩ := flow_pos (Or.inl rfl) hflow hsucc
        exact getmark_fwd c rfl h hS' hn
      | capturemark =>
        simp only [body, hop, modeOf, hb, hb2]
        obtain ⟨R, hS', hn⟩ := flow_pos (Or.inr rfl) hflow hsucc
        exact capturemark_fwd c rfl h hS' hn
      | branchmark =>
        simp only [body, hop, modeOf, hb, hb2]
        obtain ⟨K, R, hS', hK, hn, hj⟩ := flow_mark (Or.inl rfl) hflow hsucc
        exact branchmark_fwd c rfl h hS' hK hn hj
      | lazybranchmark =>
        simp only [body, hop, modeOf, hb, hb2]
        obtain ⟨K, R, hS', hK, hn, hj⟩ := flow_mark (Or.inr rfl) hflow hsucc
        exact lazybranchmark_fwd c rfl h hS' hK hn
      | branchcount =>
        simp only [body, hop, modeOf, hb, hb2]
        obtain ⟨K, R, hS', hK, hn, hj⟩ := flow_count (Or.inl rfl) hflow hsucc
        exact branchcount_fwd c rfl h hS' hK hn hj
      | lazybranchcount =>
        simp only [body, hop, modeOf, hb, hb2]
        obtain ⟨K, R, hS', hK, hn, hj⟩ := flow_count (Or.inr rfl) hflow hsucc
        exact lazybranchcount_fwd c rfl h hS' hK hn hj
      | backjump =>
        simp only [body, hop, modeOf, hb, hb2]
        obtain ⟨R, hS', _⟩ := flow_pair (Or.inl rfl) hflow hsucc
        exact backjump_fwd h hS'
      | forejump =>
        simp only [body, hop, modeOf, hb, hb2]
        obtain ⟨R, hS', hn⟩ := flow_pair (Or.inr rfl) hflow hsucc
        exact forejump_fwd c rfl h hS' (hn rfl)
      | updatebumpalong =>
        simp only [body, hop, modeOf, hb, hb2]; exact updatebumpalong_fwd h (flow_next hflow hsucc rfl)
      | onerep => simp only [body, hop, modeOf, hb, hb2]; exact neutral_fwd c h (flow_next hflow hsucc rfl) (nofr rfl) _ (caseRep_eff 0 rfl)
      | notonerep => simp only [body, hop, modeOf, hb, hb2]; exact neutral_fwd c h (flow_next hflow hsucc rfl) (nofr rfl) _ (caseRep_eff 1 rfl)
      | setrep => simp only [body, hop, modeOf, hb, hb2]; exact neutral_fwd c h (flow_next hflow hsucc rfl) (nofr rfl) _ (caseRep_eff 2 rfl)
      | oneloop => simp only [body, hop, modeOf, hb, hb2]; exact neutral_fwd c h (flow_next hflow hsucc rfl) (fun d dl τ cl _ hs => ⟨hs, rfl, rfl⟩) _ (caseLoop_eff 0 false rfl (fun _ => rfl))
      | notoneloop => simp only [body, hop, modeOf, hb, hb2]; exact neutral_fwd c h (flow_next hflow hsucc rfl) (fun d dl τ cl _ hs => ⟨hs, rfl, rfl⟩) _ (caseLoop_eff 1 false rfl (fun _ => rfl))
      | setloop => simp only [body, hop, modeOf, hb, hb2]; exact neutral_fwd c h (flow_next hflow hsucc rfl) (fun d dl τ cl _ hs => ⟨hs, rfl, rfl⟩) _ (caseLoop_eff 2 false rfl (fun _ => rfl))
      | oneloopatomic => simp only [body, hop, modeOf, hb, hb2]; exact neutral_fwd c h (flow_next hflow hsucc rfl) (nofr rfl) _ (caseLoop_eff 0 true rfl (fun h => by cases h))
      | notoneloopatomic => simp only [body, hop, modeOf, hb, hb2]; exact neutral_fwd c h (flow_next hflow hsucc rfl) (nofr rfl) _ (caseLoop_eff 1 true rfl (fun h => by cases h))
      | setloopatomic => simp only [body, hop, modeOf, hb, hb2]; exact neutral_fwd c h (flow_next hflow hsucc rfl) (nofr rfl) _ (caseLoop_eff 2 true rfl (fun h => by cases h))
      | onelazy => simp only [body, hop, modeOf, hb, hb2]; exact neutral_fwd c h (flow_next hflow hsucc rfl) (fun d dl τ cl _ hs => ⟨hs, rfl, rfl⟩) _ (caseLazy_eff rfl rfl)
      | notonelazy => simp only [body, hop, modeOf, hb, hb2]; exact neutral_fwd c h (flow_next hflow hsucc rfl) (fun d dl τ cl _ hs => ⟨hs, rfl, rfl⟩) _ (caseLazy_eff rfl rfl)
      | setlazy => simp only [body, hop, modeOf, hb, hb2]; exact neutral_fwd c h (flow_next hflow hsucc rfl) (fun d dl τ cl _ hs => ⟨hs, rfl, rfl⟩) _ (caseLazy_eff rfl rfl)
      | one => simp only [body, hop, modeOf, hb, hb2]; exact neutral_fwd c h (flow_next hflow hsucc rfl) (nofr rfl) _ (caseChar_eff 0 rfl)
      | notone => simp only [body, hop, modeOf, hb, hb2]; exact neutral_fwd c h (flow_next hflow hsucc rfl) (nofr rfl) _ (caseChar_eff 1 rfl)
      | set => simp only [body, hop, modeOf, hb, hb2]; exact neutral_fwd c h (flow_next hflow hsucc rfl) (nofr rfl) _ (caseChar_eff 2 rfl)
      | multi => simp only [body, hop, modeOf, hb, hb2]; exact neutral_fwd c h (flow_next hflow hsucc rfl) (nofr rfl) _ (caseMulti_eff rfl)
      | ref => simp only [body, hop, modeOf, hb, hb2]; exact neutral_fwd c h (flow_next hflow hsucc rfl) (nofr rfl) _ (caseRef_eff rfl hcap)
      | testref => simp only [body, hop, modeOf, hb, hb2]; exact neutral_fwd c h (flow_next hflow hsucc rfl) (nofr rfl) _ (caseTestref_eff rfl)
      | bol => simp only [body, hop, modeOf, hb, hb2]; exact neutral_fwd c h (flow_next hflow hsucc rfl) (nofr rfl) _ (caseBol_eff rfl)
      | eol => simp only [body, hop, modeOf, hb, hb2]; exact neutral_fwd c h (flow_next hflow hsucc rfl) (nofr rfl) _ (caseEol_eff rfl)
      | boundary => simp only [body, hop, modeOf, hb, hb2]; exact neutral_fwd c h (flow_next hflow hsucc rfl) (nofr rfl) _ (caseBoundary_eff rfl _ _)
      | nonboundary => simp only [body, hop, modeOf, hb, hb2]; exact neutral_fwd c h (flow_next hflow hsucc rfl) (nofr rfl) _ (caseBoundary_eff rfl _ _)
      | ecmaboundary => simp only [body, hop, modeOf, hb, hb2]; exact neutral_fwd c h (flow_next hflow hsucc rfl) (nofr rfl) _ (caseBoundary_eff rfl _ _)
      | nonecmaboundary => simp only [body, hop, modeOf, hb, hb2]; exact neutral_fwd c h (flow_next hflow hsucc rfl) (nofr rfl) _ (caseBoundary_eff rfl _ _)
      | beginning => simp only [body, hop, modeOf, hb, hb2]; exact neutral_fwd c h (flow_next hflow hsucc rfl) (nofr rfl) _ (assertion_eff rfl _)
      | start => simp only [body, hop, modeOf, hb, hb2]; exact neutral_fwd c h (flow_next hflow hsucc rfl) (nofr rfl) _ (assertion_eff rfl _)
      | end_ => simp only [body, hop, modeOf, hb, hb2]; exact neutral_fwd c h (flow_next hflow hsucc rfl) (nofr rfl) _ (assertion_eff rfl _)
      | endz => simp only [body, hop, modeOf, hb, hb2]; exact neutral_fwd c h (flow_next hflow hsucc rfl) (nofr rfl) _ (caseEndZ_eff rfl)
    · -- the very first iteration: `Lazybranch` at 0 on empty stacks
      have ho : o = .lazybranch := Classical.byContradiction fun hne => codepos_ne_zero c hne hpc
      subst ho
      have hS : a.get s.codepos = some [] := by rw [hpc]; exact hty.zero
      obtain ⟨succs, hflow, hsucc⟩ := flow_at hty c hS
      simp only [body, hop, modeOf, hb, hb2]
      have hn := (flow_target (Or.inr rfl) hflow hsucc).2 rfl
      rw [hpc] at hn
      exact lazybranch_init ht hst hcr hpc hcap (hn.succ (σ := []) rfl)
    · subst hstop
      simp only [body, hop, modeOf, hb, hb2]; exact trivial
  · -- Back2 cases
    obtain ⟨d, core, tp, S, τ, τ', cl', htr, hfd, hS, hft, hg, hv, hcap⟩ := hsh
    have b : BackH p bs env a s o true S d core tp τ τ' cl' := ⟨htr, hfd, hS, hft, hg, hv, hcap⟩
    cases o with
    | branchmark => simp only [body, hop, modeOf, hb, hb2]; exact restore_back (Or.inr ⟨rfl, rfl⟩) b
    | lazybranchmark => simp only [body, hop, modeOf, hb, hb2]; exact lazybranchmark_back2 rfl b
    | branchcount => simp only [body, hop, modeOf, hb, hb2]; exact branchcount_back2 rfl b
    | lazybranchcount => simp only [body, hop, modeOf, hb, hb2]; exact lazybranchcount_back2 rfl b
    | _ => simp [frameData] at hfd
  · -- Back cases
    rcases hsh with ⟨d, core, tp, S, τ, τ', cl', htr, hfd, hS, hft, hg, hv, hcap⟩ | ⟨hpc, tp, ht⟩
    · have b : BackH p bs env a s o false S d core tp τ τ' cl' := ⟨htr, hfd, hS, hft, hg, hv, hcap⟩
      obtain ⟨succs, hflow, hsucc⟩ := flow_at hty c hS
      cases o with
      | oneloop => simp only [body, hop, modeOf, hb, hb2]; obtain ⟨x, y, rfl⟩ := len2 hfd; exact neutral_back c (by simp) b (flow_next hflow hsucc rfl) _ (caseLoopBack_eff (by rw [htr]; rfl))
      | notoneloop => simp only [body, hop, modeOf, hb, hb2]; obtain ⟨x, y, rfl⟩ := len2 hfd; exact neutral_back c (by simp) b (flow_next hflow hsucc rfl) _ (caseLoopBack_eff (by rw [htr]; rfl))
      | setloop => simp only [body, hop, modeOf, hb, hb2]; obtain ⟨x, y, rfl⟩ := len2 hfd; exact neutral_back c (by simp) b (flow_next hflow hsucc rfl) _ (caseLoopBack_eff (by rw [htr]; rfl))
      | onelazy => simp only [body, hop, modeOf, hb, hb2]; obtain ⟨x, y, rfl⟩ := len2 hfd; exact neutral_back c (by simp) b (flow_next hflow hsucc rfl) _ (caseLazyBack_eff 0 (by rw [htr]; rfl))
      | notonelazy => simp only [body, hop, modeOf, hb, hb2]; obtain ⟨x, y, rfl⟩ := len2 hfd; exact neutral_back c (by simp) b (flow_next hflow hsucc rfl) _ (caseLazyBack_eff 1 (by rw [htr]; rfl))
      | setlazy => simp only [body, hop, modeOf, hb, hb2]; obtain ⟨x, y, rfl⟩ := len2 hfd; exact neutral_back c (by simp) b (flow_next hflow hsucc rfl) _ (caseLazyBack_eff 2 (by rw [htr]; rfl))
      | lazybranch => simp only [body, hop, modeOf, hb, hb2]; exact lazybranch_back rfl b (flow_target (Or.inr rfl) hflow hsucc).1
      | setmark => simp only [body, hop, modeOf, hb, hb2]; exact pop1_back (Or.inl rfl) b
      | nullmark => simp only [body, hop, modeOf, hb, hb2]; exact pop1_back (Or.inr rfl) b
      | setcount => simp only [body, hop, modeOf, hb, hb2]; exact pop2_back (Or.inl rfl) b
      | nullcount => simp only [body, hop, modeOf, hb, hb2]; exact pop2_back (Or.inr (Or.inl rfl)) b
      | setjump => simp only [body, hop, modeOf, hb, hb2]; exact pop2_back (Or.inr (Or.inr rfl)) b
      | getmark => simp only [body, hop, modeOf, hb, hb2]; exact restore_back (Or.inl ⟨rfl, rfl⟩) b
      | capturemark => simp only [body, hop, modeOf, hb, hb2]; exact capturemark_back rfl b
      | forejump => simp only [body, hop, modeOf, hb, hb2]; exact forejump_back rfl b
      | branchmark =>
        simp only [body, hop, modeOf, hb, hb2]
        obtain ⟨K, R, hS', hK, hn, hj⟩ := flow_mark (Or.inl rfl) hflow hsucc
        exact branchmark_back c rfl b (fun K' R' e => by rw [hS'] at e; cases e; exact hn)
      | lazybranchmark =>
        simp only [body, hop, modeOf, hb, hb2]
        obtain ⟨K, R, hS', hK, hn, hj⟩ := flow_mark (Or.inr rfl) hflow hsucc
        exact lazybranchmark_back c rfl b (fun K' R' t e ht => by rw [hS'] at e; cases e; exact hj t ht)
      | branchcount =>
        simp only [body, hop, modeOf, hb, hb2]
        obtain ⟨K, R, hS', hK, hn, hj⟩ := flow_count (Or.inl rfl) hflow hsucc
        exact branchcount_back c rfl b (fun K' R' e => by rw [hS'] at e; cases e; exact hn)
      | lazybranchcount =>
        simp only [body, hop, modeOf, hb, hb2]
        obtain ⟨K, R, hS', hK, hn, hj⟩ := flow_count (Or.inr rfl) hflow hsucc
        exact lazybranchcount_back c rfl b (fun K' R' t e ht => by rw [hS'] at e; cases e; exact hj t ht)
      | _ => simp [frameData] at hfd
    · have ho : o = .lazybranch := Classical.byContradiction fun hne => codepos_ne_zero c hne hpc
      subst ho
      simp only [body, hop, modeOf, hb, hb2]
      exact lazybranch_back_root c hpc ht

end body

/-! ### one step -/

section stepping
variable {p : Prog} {bs : List Nat} {env : Env} {a : Assign}

/-- the conclusion of the step theorem: no structural and no discipline fault, and the invariant again -/
def TStepOk (p : Prog) (bs : List Nat) (env : Env) (a : Assign) : Outcome → Prop
  | .fault f => f.structural = false ∧ disc f = false
  | .stop _ => True
  | .next s' _ => TInv p bs env a s'

theorem fetch_err {pos : Nat} {f : Fault} (h : fetch p pos = .error f) : f.structural = true := by
  unfold fetch at h
  split at h
  · cases h; rfl
  · split at h <;> cases h; rfl

/-- a state entered forwards -/
theorem tinv_enter {s' : VMState} {w' : Word} (hinv : Inv p bs env s') (hf : fetch p s'.codepos = .ok w')
    (ho : s'.oper = w')
    (hT : (∃ σ, ChainS p bs env.len a s' σ ∧ Succ a s'.codepos σ) ∨
      (s'.track = [] ∧ ∃ wt, fetch p s'.codepos = .ok wt ∧ Op.ofNat? wt.op = some .stop)) :
    TInv p bs env a s' := by
  obtain ⟨w2, o2, c2, sh2⟩ := hinv
  refine ⟨w2, o2, c2, sh2, ?_⟩
  have hw : w2 = w' := by have := c2.facts.fetch; rw [hf] at this; cases this; rfl
  subst hw
  unfold TShape
  rw [ho, c2.facts.noback, c2.facts.noback2]
  rcases hT with h | ⟨h1, wt, h2, h3⟩
  · exact Or.inl h
  · exact Or.inr (Or.inr ⟨h1, (instr_unique c2.facts h2 h3).2⟩)

theorem tfinish_ok {s : VMState} (s1 : VMState) (e : Exit) (hcp : s1.codepos = s.codepos)
    (hold : StepOk p bs env (finish p (s1, e))) (hT : TMid p bs env.len a s.codepos s1 e) :
    TStepOk p bs env a (finish p (s1, e)) := by
  cases e with
  | halt => exact trivial
  | advance i =>
    simp only [finish, doAdvance] at hold ⊢
    cases hf : fetch p (s1.codepos + i + 1) with
    | error f => rw [hf] at hold; simp only [StepOk] at hold; rw [fetch_err hf] at hold; cases hold
    | ok w' =>
      rw [hf] at hold
      obtain ⟨σ, hch, hs⟩ := hT
      exact tinv_enter hold hf rfl (Or.inl ⟨σ, hch, by rw [← hcp] at hs; exact hs⟩)
  | goto t =>
    simp only [finish, doGoto] at hold ⊢
    split
    · next ht => rw [if_pos ht] at hold; cases hold
    · next ht =>
      rw [if_neg ht] at hold
      cases hf : fetch p t.toNat with
      | error f => rw [hf] at hold; simp only [StepOk] at hold; rw [fetch_err hf] at hold; cases hold
      | ok w' =>
        rw [hf] at hold
        refine tinv_enter hold hf rfl ?_
        rcases hT with ⟨σ, hch, hs⟩ | ⟨h1, h2⟩
        · exact Or.inl ⟨σ, hch, hs⟩
        · exact Or.inr ⟨h1, h2⟩
  | back =>
    obtain ⟨σ, core, tp, htr, hg, hv, hcap⟩ := hT
    simp only [finish, doBacktrack] at hold ⊢
    generalize hcl : crawlLen s1 = cl at hg
    cases hg with
    | root =>
      rw [htr] at hold ⊢
      simp only [List.cons_append, List.nil_append] at hold ⊢
      have hsp : savedPos 0 = (0, false) := by decide
      simp only [hsp] at hold ⊢
      cases hf : fetch p 0 with
      | error f => rw [hf] at hold; simp only [StepOk] at hold; rw [fetch_err hf] at hold; cases hold
      | ok w' =>
        rw [hf] at hold
        simp only [Bool.false_eq_true, ite_false] at hold ⊢
        obtain ⟨w2, o2, c2, sh2⟩ := hold
        refine ⟨w2, o2, c2, sh2, ?_⟩
        have hw : w2 = w' := by have := c2.facts.fetch; simp only at this; rw [hf] at this; cases this; rfl
        subst hw
        unfold TShape
        simp only [c2.facts.noback2]
        refine Or.inr ⟨?_, tp, rfl⟩
        first | rfl | trivial
    | cons cc o' d rest S τ0 τ' cl0 cl' h1 h2 h3 h4 h5 _hlen h6 =>
      rw [htr] at hold ⊢
      simp only [List.cons_append] at hold ⊢
      obtain ⟨w3, hf3, ho3⟩ := opAt_spec h2
      rw [hf3] at hold ⊢
      simp only at hold ⊢
      obtain ⟨w2, o2, c2, sh2⟩ := hold
      refine ⟨w2, o2, c2, sh2, ?_⟩
      obtain ⟨hw, hoo⟩ := instr_unique c2.facts hf3 ho3
      subst hw hoo
      unfold TShape
      cases hb2 : (savedPos cc).2 with
      | true =>
        simp only [hb2, ite_true, c2.facts.noback]
        rw [hb2] at h3 h5
        rw [← hcl] at h5
        exact ⟨d, rest, tp, S, σ, τ', cl', by simp, h3, h4, h5, h6, hv, hcap⟩
      | false =>
        simp only [hb2, Bool.false_eq_true, ite_false, c2.facts.noback2]
        rw [hb2] at h3 h5
        rw [← hcl] at h5
        exact Or.inl ⟨d, rest, tp, S, σ, τ', cl', by simp, h3, h4, h5, h6, hv, hcap⟩

/-- **One iteration of the interpreter loop keeps the invariant and raises neither a structural nor a discipline
    fault** (`stackUnderflow`, `tracktoRange`, `textposRange`, `crawlUnderflow`, `capRange`). -/
theorem tstep_ok (hwf : WF p bs) (hty : TypingW p bs a) {s : VMState} (hinv : TInv p bs env a s) :
    TStepOk p bs env a (step p env s) := by
  obtain ⟨w, o, c, hsh, htsh⟩ := hinv
  have hold := step_ok hwf ⟨w, o, c, hsh⟩
  have hb := body_ok c hsh
  have htb := tbody_ok hty c htsh
  cases hbody : body p env s with
  | error f =>
    rw [step_of_body_error _ _ hbody] at hold ⊢
    rw [hbody] at htb
    exact ⟨hold, htb⟩
  | ok r =>
    obtain ⟨s1, e⟩ := r
    rw [step_of_body_ok _ _ hbody] at hold ⊢
    rw [hbody] at htb hb
    exact tfinish_ok s1 e hb.1 hold htb

/-- the start state of an attempt satisfies the invariant -/
theorem tinit_inv (hwf : WF p bs) (pos : Int) (h0 : 0 ≤ pos) (hn : pos ≤ env.len) :
    ∃ s0, init p pos = .ok s0 ∧ TInv p bs env a s0 := by
  obtain ⟨s0, hi, ⟨w, o, c, sh⟩, hcp, htr⟩ := init_inv (env := env) hwf pos h0 hn
  refine ⟨s0, hi, w, o, c, sh, ?_⟩
  have hst : s0.stack = [] ∧ s0.cap.crawl = [] ∧ CapOk env.len p.capsize s0.cap := by
    unfold init at hi
    cases hf : fetch p 0 with
    | error f => rw [hf] at hi; cases hi
    | ok w0 => rw [hf] at hi; simp only [Except.map] at hi; cases hi; exact ⟨rfl, rfl, capOk_init _ _⟩
  unfold TShape
  have hb : s0.oper.back = false ∧ s0.oper.back2 = false := by
    unfold init at hi
    cases hf : fetch p 0 with
    | error f => rw [hf] at hi; cases hi
    | ok w0 =>
      rw [hf] at hi; simp only [Except.map] at hi; cases hi
      have := c.facts.fetch
      simp only at this
      rw [hf] at this; cases this
      exact ⟨c.facts.noback, c.facts.noback2⟩
  rw [hb.1, hb.2]
  exact Or.inr (Or.inl ⟨htr, hst.1, hst.2.1, hcp, hst.2.2⟩)

/-- **no fault, ever**: a run from a state satisfying the invariant ends in no structural fault and in
    none of `stackUnderflow`, `tracktoRange`, `textposRange`, `crawlUnderflow`, `capRange` -/
theorem trun_ok (hwf : WF p bs) (hty : TypingW p bs a) : ∀ (fuel : Nat) (s : VMState), TInv p bs env a s →
    ∀ f, (run p env fuel s).1 = .fault f → f.structural = false ∧ disc f = false := by
  intro fuel
  induction fuel with
  | zero => intro s _ f h; simp [run] at h
  | succ fuel ih =>
    intro s hs f h
    have hst := tstep_ok hwf hty hs
    unfold run at h
    cases hstep : step p env s with
    | fault g =>
      rw [hstep] at h hst
      simp only [Final.fault.injEq] at h
      subst h
      exact hst
    | stop s' => rw [hstep] at h; simp at h
    | next s' chk =>
      rw [hstep] at h hst
      exact ih s' hst f h

/-- the thirteen fault kinds are the eight structural and the five discipline faults -/
theorem no_fault_left (f : Fault) (h1 : f.structural = false) (h2 : disc f = false) : False := by
  cases f <;> first | (exact absurd h1 (by decide)) | (exact absurd h2 (by decide))

end stepping

end RegexVerif.Lemmas.StackTypingSound
