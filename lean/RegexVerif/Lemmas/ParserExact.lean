/-
Exact behaviour of the head of a turn of `scanRegex` when the position stands on a `(` that does not start a `(?#`
comment (the state `condExpr` leaves after `(?(`): nothing is skipped, the `(` is the special rune of the turn.
-/
import RegexVerif.Lemmas.ParserShape
import RegexVerif.Lemmas.ParserTac

namespace RegexVerif.Parser
open RegexVerif.EscapeParse (isSpaceCh isSpecialCh isQuantCh isDigitCh isTrueQuant isTrueBrace dropDigits)
variable (E : Env)

/-- the position stands on a `(` that does not start a `(?#` comment -/
def AtParen (s : PS) : Prop :=
  E.pat[s.pos]? = some 40 ∧ ¬(E.pat[s.pos + 1]? = some 63 ∧ E.pat[s.pos + 2]? = some 35)

theorem scanBlank_atParen (s : PS) (h : AtParen E s) : scanBlank E s = .ok () s := by
  have hd := drop_eq_cons_of_getElem? h.1
  unfold scanBlank
  simp only [hd]
  have hb : blankGo s.options.x .normal (40 :: E.pat.drop (s.pos + 1)) 0 = (0, false) := by
    unfold blankGo
    have h1 : isSpaceCh 40 = false := by decide
    simp [h1]
    intro a b
    exact absurd ⟨a, by simpa [Nat.add_assoc] using b⟩ h.2
  rw [hb]
  rfl

theorem skipOrdinary_atParen (s : PS) (n : Nat) (h : E.pat[s.pos]? = some 40) : skipOrdinary E (n + 1) s = .ok () s := by
  have hlt := (List.getElem?_eq_some_iff.mp h).1
  unfold skipOrdinary iter
  have hcr : E.pat.length - s.pos ≠ 0 := by omega
  have h1 : isSpecialCh 40 = true := by decide
  have h2 : isStopperXCh 40 = true := by decide
  simp [bind, M.bind, charsRight, opts, rightChar, h, hcr, isTrueQuantifier, pure, M.pure]
  cases hx : s.options.x <;> cases hd : E.pat.drop s.pos <;> simp [h1, h2, M.pure, pure]

theorem stepRun_atParen (s : PS) (h : AtParen E s) : stepRun E s = .ok (s.pos, s.pos) s := by
  have hlt := (List.getElem?_eq_some_iff.mp h.1).1
  unfold stepRun
  simp only [bind, M.bind, scanBlank_atParen E s h, textpos, charsRight, skipOrdinary_atParen E s _ h.1, pure, M.pure]

theorem stepLiteral_same (p : Nat) (isQ b : Bool) (s : PS) : stepLiteral E p p isQ b s = .ok b s := by
  unfold stepLiteral
  simp [pure, M.pure]

theorem stepIsPythonRef_ignore (o : Opts) (s : PS) (h : s.ignoreNextParen = true) :
    stepIsPythonRef E o s = .ok false s := by
  unfold stepIsPythonRef
  simp [h]

/-! ## After `(?(`: the state `condExpr` leaves -/

/-- `condExpr` leaves `ignoreNextParen` set and the position on the inner `(` (not the start of a `(?#` comment) -/
def Rew (s : PS) : Prop := s.ignoreNextParen = true ∧ AtParen E s

theorem mrgc_fact : H (fun _ => True) (moveRightGetChar E) (fun c s' => 1 ≤ s'.pos ∧ E.pat[s'.pos - 1]? = some c) := by
  unfold H
  intro s c s' _ hm
  unfold moveRightGetChar at hm
  simp only [bind, M.bind, rightChar, moveRight, modify, pure, M.pure, Nat.add_zero] at hm
  cases hc : E.pat[s.pos]? with
  | none => simp [hc] at hm
  | some x =>
    simp only [hc, Res.ok.injEq] at hm
    obtain ⟨rfl, rfl⟩ := hm
    exact ⟨by dsimp only; omega, by dsimp only; simpa using hc⟩

attribute [local irreducible] wp

theorem wp_condExpr_rew (o : Opts) (pp : Nat) (s : PS) (h1 : 1 ≤ pp) (h2 : pp ≤ E.pat.length) (h40 : E.pat[pp - 1]? = some 40) :
    wp (condExpr E o pp) (fun r s' => r ≠ none → Rew E s') (fun _ => True) s := by
  unfold condExpr
  wp_run
  all_goals
    refine ⟨rfl, h40, ?_⟩
    rintro ⟨ha, hb⟩
    dsimp only at ha hb
    first
      | (have := (List.getElem?_eq_some_iff.mp hb).1; omega)
      | (simp_all; done)

/-- the result of `groupOpenIsPlain` (a pure read): when it answers "not plain", the rune at the position is `?` and the
    next one, if any, is not `)` -/
theorem wp_gip_exact (s : PS) :
    wp (groupOpenIsPlain E) (fun b s' => s' = s ∧ (b = false → E.pat[s.pos]? = some 63 ∧ ¬ E.pat[s.pos + 1]? = some 41))
      (fun _ => True) s := by
  unfold groupOpenIsPlain
  wp_run
  all_goals (rename_i h; have := (List.getElem?_eq_some_iff.mp h).1; omega)

/-! ### helpers of the partial-correctness logic -/

theorem H_pre' {α : Type} {P : PS → Prop} {C : Prop} {m : M α} {Q : α → PS → Prop} (h : C → H P m Q) :
    H (fun s => P s ∧ C) m Q := by
  intro s a s' hp hm
  exact h hp.2 s a s' hp.1 hm

/-- a pure read keeps any assertion on the state -/
theorem H_opts {P : PS → Prop} : H P opts (fun _ => P) := by
  intro s a s' hp hm; unfold opts at hm; cases hm; exact hp
theorem H_textpos {P : PS → Prop} : H P textpos (fun p s' => P s' ∧ p = s'.pos) := by
  intro s a s' hp hm; unfold textpos at hm; cases hm; exact ⟨hp, rfl⟩
theorem H_charsRight {P : PS → Prop} : H P (charsRight E) (fun _ => P) := by
  intro s a s' hp hm; unfold charsRight at hm; cases hm; exact hp
theorem H_modify' {P : PS → Prop} {f : PS → PS} {Q : Unit → PS → Prop} (h : ∀ s, P s → Q () (f s)) : H P (modify f) Q := by
  intro s a s' hp hm
  unfold modify at hm
  cases hm
  exact h _ hp

/-- a value fact as a triple -/
theorem H_of_ret {α : Type} {P : PS → Prop} {m : M α} {R : α → Prop} (h : Ret m R) : H P m (fun r _ => R r) := by
  unfold Ret at h
  exact fun s a s' _ hm => h s a s' trivial hm

/-! ### which branches of `scanGroupOpen` return an ExprCond / nothing -/

def NotExprOpt (r : Option RNode) : Prop := ∀ g, r = some g → g.t ≠ .exprCond
def IsSomeOpt (r : Option RNode) : Prop := r ≠ none

theorem notExpr_none : NotExprOpt none := fun _ h => nomatch h
theorem notExpr_some {g : RNode} (h : g.t ≠ .exprCond) : NotExprOpt (some g) := by
  intro g' hg; cases hg; exact h

syntax "ne_close" : tactic
macro_rules
  | `(tactic| ne_close) => `(tactic| first
      | exact notExpr_none
      | exact notExpr_some (by intro h; cases h)
      | exact ret_breakRecognize _ _ _)

syntax "some_close" : tactic
macro_rules
  | `(tactic| some_close) => `(tactic| first
      | exact (fun h => nomatch h)
      | exact ret_breakRecognize _ _ _)

theorem ne_gnClose (start close : Nat) (c u : Option Nat) : Ret (gnClose E start close c u) NotExprOpt := by
  unfold gnClose; ret_run; all_goals ne_close
theorem ne_scanGroupName (start close : Nat) : Ret (scanGroupName E start close) NotExprOpt := by
  unfold scanGroupName; ret_run; all_goals first | ne_close | exact ne_gnClose E _ _ _ _
theorem ne_condEarly (o : Opts) : Ret (condEarly E o) NotExprOpt := by
  unfold condEarly; ret_run; all_goals ne_close
theorem ne_groupOpenPlain (o : Opts) : Ret (groupOpenPlain o) NotExprOpt := by
  unfold groupOpenPlain; ret_run; all_goals ne_close
theorem ne_groupOpenDefault (start : Nat) : Ret (groupOpenDefault E start) NotExprOpt := by
  unfold groupOpenDefault; ret_run; all_goals ne_close
theorem ne_groupOpenAngle (start : Nat) (o : Opts) (close : Nat) : Ret (groupOpenAngle E start o close) NotExprOpt := by
  unfold groupOpenAngle; ret_run
  all_goals first | ne_close | exact ne_scanGroupName E _ _ | exact ne_gnClose E _ _ _ _
theorem ne_groupOpenPython (start : Nat) (o : Opts) : Ret (groupOpenPython E start o) NotExprOpt := by
  unfold groupOpenPython; ret_run; all_goals ne_close

theorem some_gnClose (start close : Nat) (c u : Option Nat) : Ret (gnClose E start close c u) IsSomeOpt := by
  unfold gnClose; ret_run; all_goals some_close
theorem some_scanGroupName (start close : Nat) : Ret (scanGroupName E start close) IsSomeOpt := by
  unfold scanGroupName; ret_run; all_goals first | some_close | exact some_gnClose E _ _ _ _
theorem some_condExpr (o : Opts) (pp : Nat) : Ret (condExpr E o pp) IsSomeOpt := by
  unfold condExpr; ret_run; all_goals some_close
theorem some_groupOpenPlain (o : Opts) : Ret (groupOpenPlain o) IsSomeOpt := by
  unfold groupOpenPlain; ret_run; all_goals some_close
theorem some_groupOpenAngle (start : Nat) (o : Opts) (close : Nat) : Ret (groupOpenAngle E start o close) IsSomeOpt := by
  unfold groupOpenAngle; ret_run
  all_goals first | some_close | exact some_scanGroupName E _ _ | exact some_gnClose E _ _ _ _
theorem some_groupOpenPython (start : Nat) (o : Opts) : Ret (groupOpenPython E start o) IsSomeOpt := by
  unfold groupOpenPython; ret_run; all_goals some_close
theorem some_scanCondition : Ret (scanCondition E) IsSomeOpt := by
  unfold scanCondition
  apply Ret.bind; intro o
  apply Ret.bind; intro pp
  apply Ret.bind; intro r
  split
  · exact Ret.pure (fun h => nomatch h)
  · exact some_condExpr E o pp

attribute [local irreducible] H

/-! ### (B) a returned ExprCond comes with the rewound state -/

/-- what `scanGroupOpen` promises about an ExprCond it returns -/
def RewPost (r : Option RNode) (s' : PS) : Prop := ∀ g, r = some g → g.t = .exprCond → Rew E s'

theorem H_trivial {α : Type} (m : M α) : H (fun _ => True) m (fun _ _ => True) := by
  unfold H; intros; trivial

theorem H_ne_rew {P : PS → Prop} {m : M (Option RNode)} (h : Ret m NotExprOpt) : H P m (RewPost E) := by
  unfold Ret at h
  unfold H at *
  intro s r s' _ hm g hg ht
  exact absurd ht (h s r s' trivial hm g hg)

/-- the rune just consumed -/
def Prev (ch : Nat) (s : PS) : Prop := 1 ≤ s.pos ∧ E.pat[s.pos - 1]? = some ch

theorem prev_le {ch : Nat} {s : PS} (h : Prev E ch s) : s.pos ≤ E.pat.length := by
  have := (List.getElem?_eq_some_iff.mp h.2).1
  have := h.1
  omega

theorem scanCondition_rew : H (Prev E 40) (scanCondition E) (RewPost E) := by
  unfold scanCondition
  apply H.bind (Q1 := fun _ => Prev E 40) H_opts
  intro o
  apply H.bind (Q1 := fun pp _ => 1 ≤ pp ∧ pp ≤ E.pat.length ∧ E.pat[pp - 1]? = some 40)
  · exact H.conseq H_textpos (fun _ h => h) (fun pp s' h => by
      obtain ⟨hp, rfl⟩ := h
      exact ⟨hp.1, prev_le E hp, hp.2⟩)
  intro pp
  apply H.bind (Q1 := fun r _ => (1 ≤ pp ∧ pp ≤ E.pat.length ∧ E.pat[pp - 1]? = some 40) ∧ NotExprOpt r)
  · have hne := ne_condEarly E o
    unfold Ret at hne
    unfold H at *
    intro s r s' hp hm
    exact ⟨hp, hne s r s' trivial hm⟩
  intro r
  apply H_pre'
  intro hne
  cases r with
  | some nd =>
    apply H.pure
    intro s _ g hg ht
    exact absurd ht (hne g hg)
  | none =>
    unfold H
    intro s r s' hp hm
    have hm' : condExpr E o pp s = .ok r s' := hm
    have := wp_condExpr_rew E o pp s hp.1 hp.2.1 hp.2.2
    unfold wp at this
    rw [hm'] at this
    intro g hg _
    exact this (by rw [hg]; exact fun h => nomatch h)

theorem groupOpenSwitch_rew (start : Nat) (o : Opts) (ch : Nat) : H (Prev E ch) (groupOpenSwitch E start o ch) (RewPost E) := by
  unfold groupOpenSwitch
  refine H.ite (fun _ => ?_) (fun _ => ?_)
  · exact H_ne_rew E (Ret.pure (notExpr_some (by intro h; cases h)))
  refine H.ite (fun _ => ?_) (fun _ => ?_)
  · exact H_ne_rew E (by ret_run; all_goals ne_close)
  refine H.ite (fun _ => ?_) (fun _ => ?_)
  · exact H_ne_rew E (by ret_run; all_goals ne_close)
  refine H.ite (fun _ => ?_) (fun _ => ?_)
  · exact H_ne_rew E (Ret.pure (notExpr_some (by intro h; cases h)))
  refine H.ite (fun _ => ?_) (fun _ => ?_)
  · exact H_ne_rew E (ne_groupOpenAngle E _ _ _)
  refine H.ite (fun _ => ?_) (fun _ => ?_)
  · exact H_ne_rew E (ne_groupOpenAngle E _ _ _)
  refine H.ite (fun h40 => ?_) (fun _ => ?_)
  · subst h40
    exact scanCondition_rew E
  refine H.ite (fun _ => ?_) (fun _ => ?_)
  · exact H_ne_rew E (ne_groupOpenPython E _ _)
  · exact H_ne_rew E (ne_groupOpenDefault E _)

/-- **(B)** when `scanGroupOpen` returns an ExprCond node, `ignoreNextParen` is set and the position stands on the `(`
    that opens the condition -/
theorem scanGroupOpen_rew : H (fun _ => True) (scanGroupOpen E) (RewPost E) := by
  unfold scanGroupOpen
  apply H.bind (Q1 := fun _ _ => True) (H.conseq (Q := fun _ _ => True) (H_trivial _) (fun _ h => h) (fun _ _ h => h))
  intro start
  apply H.bind (Q1 := fun _ _ => True) (H.conseq (Q := fun _ _ => True) (H_trivial _) (fun _ h => h) (fun _ _ h => h))
  intro o
  apply H.bind (Q1 := fun _ _ => True) (H.conseq (Q := fun _ _ => True) (H_trivial _) (fun _ h => h) (fun _ _ h => h))
  intro b
  refine H.ite (fun _ => ?_) (fun _ => ?_)
  · exact H_ne_rew E (ne_groupOpenPlain o)
  apply H.bind (Q1 := fun _ _ => True) (H.conseq (Q := fun _ _ => True) (H_trivial _) (fun _ h => h) (fun _ _ h => h))
  intro _
  apply H.bind (Q1 := fun _ _ => True) (H.conseq (Q := fun _ _ => True) (H_trivial _) (fun _ h => h) (fun _ _ h => h))
  intro _
  apply H.bind (Q1 := fun _ _ => True) (H.conseq (Q := fun _ _ => True) (H_trivial _) (fun _ h => h) (fun _ _ h => h))
  intro cr
  refine H.ite (fun _ => ?_) (fun _ => ?_)
  · exact H_ne_rew E (ret_breakRecognize E _ _)
  apply H.bind (Q1 := fun ch s' => Prev E ch s') (mrgc_fact E)
  intro ch
  exact groupOpenSwitch_rew E start o ch

/-! ### (A) under an ExprCond that waits for its condition, `scanGroupOpen` opens a group -/

/-- the ExprCond waits, the rune just consumed is `ch` -/
def PendPrev (ch : Nat) (s : PS) : Prop := s.group.t = .exprCond ∧ Prev E ch s

theorem H_false {α : Type} {m : M α} {Q : α → PS → Prop} : H (fun _ => False) m Q := by
  unfold H; intro s a s' h; exact h.elim

theorem groupOpenDefault_some (start ch : Nat) (hne : ch ≠ 41) :
    H (PendPrev E ch) (groupOpenDefault E start) (fun r _ => r ≠ none) := by
  unfold groupOpenDefault
  apply H.bind (Q1 := fun _ s => s.group.t = .exprCond ∧ E.pat[s.pos]? = some ch)
  · unfold H
    intro s a s' hp hm
    unfold moveLeft at hm
    split at hm
    · cases hm
    · cases hm
      exact ⟨hp.1, hp.2.2⟩
  intro _
  apply H.bind (Q1 := fun a s => (s.group.t = .exprCond ∧ E.pat[s.pos]? = some ch) ∧ a.group.t = .exprCond)
  · unfold H
    intro s a s' hp hm
    unfold get at hm
    cases hm
    exact ⟨hp, hp.1⟩
  intro s0
  apply H_pre'
  intro hs0
  dsimp only
  rw [if_neg (by simp [hs0])]
  apply H.bind (Q1 := fun _ s => s.group.t = .exprCond ∧ E.pat[s.pos]? = some ch) (H_charsRight E)
  intro cr
  refine H.ite (fun _ => H_of_ret (ret_breakRecognize E _ _)) (fun _ => ?_)
  apply H.bind (Q1 := fun c _ => True ∧ c = ch)
  · unfold H
    intro s c s' hp hm
    unfold moveRightGetChar at hm
    simp only [bind, M.bind, rightChar, moveRight, modify, pure, M.pure, Nat.add_zero] at hm
    rw [hp.2] at hm
    simp only [Res.ok.injEq] at hm
    exact ⟨trivial, hm.1.symm⟩
  intro c
  apply H_pre'
  intro hc
  subst hc
  rw [if_neg hne]
  refine H.ite (fun _ => H_of_ret (ret_breakRecognize E _ _)) (fun _ => ?_)
  apply H.bind (Q1 := fun _ _ => True) (H_trivial _)
  intro o
  exact H.pure (fun _ _ h => nomatch h)

theorem H_some {P : PS → Prop} {m : M (Option RNode)} (h : Ret m IsSomeOpt) : H P m (fun r _ => r ≠ none) :=
  H_of_ret h

theorem groupOpenSwitch_some (start : Nat) (o : Opts) (ch : Nat) (hne : ch ≠ 41) :
    H (PendPrev E ch) (groupOpenSwitch E start o ch) (fun r _ => r ≠ none) := by
  unfold groupOpenSwitch
  refine H.ite (fun _ => ?_) (fun _ => ?_)
  · exact H.pure (fun _ _ h => nomatch h)
  refine H.ite (fun _ => ?_) (fun _ => ?_)
  · exact H_some (by unfold IsSomeOpt; ret_run; all_goals some_close)
  refine H.ite (fun _ => ?_) (fun _ => ?_)
  · exact H_some (by unfold IsSomeOpt; ret_run; all_goals some_close)
  refine H.ite (fun _ => ?_) (fun _ => ?_)
  · exact H.pure (fun _ _ h => nomatch h)
  refine H.ite (fun _ => ?_) (fun _ => ?_)
  · exact H_some (some_groupOpenAngle E _ _ _)
  refine H.ite (fun _ => ?_) (fun _ => ?_)
  · exact H_some (some_groupOpenAngle E _ _ _)
  refine H.ite (fun _ => ?_) (fun _ => ?_)
  · exact H_some (some_scanCondition E)
  refine H.ite (fun _ => ?_) (fun _ => ?_)
  · exact H_some (some_groupOpenPython E _ _)
  · exact groupOpenDefault_some E start ch hne

/-- **(A)** while the group under construction is an ExprCond, `scanGroupOpen` opens a group (it cannot return
    "options only": the rune after `(?` is re-read by the default case and is not `)`, because `(?)` counts as plain) -/
theorem scanGroupOpen_some : H (fun s => s.group.t = .exprCond) (scanGroupOpen E) (fun r _ => r ≠ none) := by
  unfold scanGroupOpen
  apply H.bind (Q1 := fun _ s => s.group.t = .exprCond) (H.conseq H_textpos (fun _ h => h) (fun _ _ h => h.1))
  intro start
  apply H.bind (Q1 := fun _ s => s.group.t = .exprCond) H_opts
  intro o
  apply H.bind (Q1 := fun b s => s.group.t = .exprCond ∧
      (b = false → E.pat[s.pos]? = some 63 ∧ ¬ E.pat[s.pos + 1]? = some 41))
  · unfold H
    intro s b s' hp hm
    have := wp_gip_exact E s
    unfold wp at this
    rw [hm] at this
    obtain ⟨rfl, h2⟩ := this
    exact ⟨hp, h2⟩
  intro b
  refine H.ite (fun _ => H_some (some_groupOpenPlain o)) (fun hb => ?_)
  have hbf : b = false := by simpa using hb
  apply H.bind (Q1 := fun _ s => s.group.t = .exprCond ∧ ¬ E.pat[s.pos + 1]? = some 41)
  · apply H_modify'
    intro s hp
    exact ⟨hp.1, (hp.2 hbf).2⟩
  intro _
  apply H.bind (Q1 := fun _ s => s.group.t = .exprCond ∧ ¬ E.pat[s.pos]? = some 41)
  · unfold moveRight
    apply H_modify'
    intro s hp
    exact hp
  intro _
  apply H.bind (Q1 := fun _ s => s.group.t = .exprCond ∧ ¬ E.pat[s.pos]? = some 41) (H_charsRight E)
  intro cr
  refine H.ite (fun _ => H_of_ret (ret_breakRecognize E _ _)) (fun _ => ?_)
  apply H.bind (Q1 := fun ch s => PendPrev E ch s ∧ ch ≠ 41)
  · unfold H
    intro s c s' hp hm
    have hf := mrgc_fact E
    unfold H at hf
    have h1 := hf s c s' trivial hm
    unfold moveRightGetChar at hm
    simp only [bind, M.bind, rightChar, moveRight, modify, pure, M.pure, Nat.add_zero] at hm
    cases hc : E.pat[s.pos]? with
    | none => simp [hc] at hm
    | some x =>
      simp only [hc, Res.ok.injEq] at hm
      obtain ⟨rfl, rfl⟩ := hm
      refine ⟨⟨hp.1, h1⟩, ?_⟩
      intro h41
      subst h41
      exact hp.2 hc
  intro ch
  apply H_pre'
  intro hne
  exact groupOpenSwitch_some E start o ch hne

end RegexVerif.Parser
