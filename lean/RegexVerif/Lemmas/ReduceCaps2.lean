/-
Joint J1, second half: `toR` / `fromR` translate between `capN` and `capR`; `reduce`, `elim`, `finalOptimize`,
`reduceRoot` keep `capN`; `toGo` turns `capN` into `Writer.capsOk`.  See `Lemmas/ReduceCaps.lean`.
-/
import RegexVerif.Lemmas.ReduceCaps

namespace RegexVerif.Reduce
open RegexVerif
open RegexVerif.RewriteDecisions (RNode CP LK)

/-! ### the tag of a wrapped node gives its type and numbers back -/

theorem unpack_pack_t (a t o : Nat) (m n : Int) (ha : a < 4) (ht : t < 64) :
    (unpackTag (packTag a t o m n)).t = t := by
  simp only [unpackTag, packTag, tagBase]
  omega

theorem unpack_pack_m (a t o : Nat) (m n : Int) (ha : a < 4) (ht : t < 64) (hm : -1 ≤ m) (hm2 : m ≤ maxInt32) :
    (unpackTag (packTag a t o m n)).m = m := by
  simp only [unpackTag, packTag, tagBase, maxInt32] at *
  omega

theorem unpack_pack_n (a t o : Nat) (m n : Int) (ha : a < 4) (ht : t < 64) (hn : -1 ≤ n) :
    (unpackTag (packTag a t o m n)).n = n := by
  simp only [unpackTag, packTag, tagBase] at *
  omega

theorem isTag_pack (a t o : Nat) (m n : Int) : isTag (packTag a t o m n) = true := by
  unfold isTag packTag tagBase
  exact decide_eq_true (by omega)

theorem unpack_o_lt (tag : Nat) : (unpackTag tag).o < tagBase := by
  simp only [unpackTag, tagBase]
  omega

section
variable (sl : Int → Bool)

theorem capQ_other {t : Nat} (h13 : t ≠ 13) (h33 : t ≠ 33) (h28 : t ≠ 28) (h29 : t ≠ 29) (m n : Int) :
    capQ sl t m n = true := by
  simp [capQ, h13, h33, h28, h29]

theorem capQ_bounds {t : Nat} {m n : Int} (h : capQ sl t m n = true) :
    ((t = 13 ∨ t = 33 ∨ t = 28 ∨ t = 29) → -1 ≤ m ∧ m ≤ maxInt32) ∧ (t = 28 → -1 ≤ n) := by
  unfold capQ at h
  unfold maxInt32 at *
  by_cases h1 : t = 13
  · subst h1; simp at h; omega
  · by_cases h2 : t = 33
    · subst h2; simp at h; omega
    · by_cases h3 : t = 28
      · subst h3; simp at h; omega
      · by_cases h4 : t = 29
        · subst h4; simp at h; omega
        · omega

theorem capQ_congr {t : Nat} {m n m' n' : Int} (h : capQ sl t m n = true)
    (hm : (t = 13 ∨ t = 33 ∨ t = 28 ∨ t = 29) → m' = m) (hn : t = 28 → n' = n) : capQ sl t m' n' = true := by
  by_cases h1 : t = 13 ∨ t = 33 ∨ t = 28 ∨ t = 29
  · rw [hm h1]
    by_cases h2 : t = 28
    · rw [hn h2]; exact h
    · rcases h1 with h1 | h1 | h1 | h1
      · subst h1; simpa [capQ] using h
      · subst h1; simpa [capQ] using h
      · exact absurd h1 h2
      · subst h1; simpa [capQ] using h
  · exact capQ_other sl (fun h => h1 (Or.inl h)) (fun h => h1 (Or.inr (Or.inl h))) (fun h => h1 (Or.inr (Or.inr (Or.inl h))))
      (fun h => h1 (Or.inr (Or.inr (Or.inr h)))) _ _

theorem tagQ_pack (a t o : Nat) (m n : Int) (ha : a < 4) (ht : t < 64) (h : capQ sl t m n = true) :
    tagQ sl (packTag a t o m n) = true := by
  unfold tagQ
  rw [isTag_pack, unpack_pack_t a t o m n ha ht]
  simp only [Bool.not_true, Bool.false_or]
  have hb := capQ_bounds sl h
  exact capQ_congr sl h (fun h1 => unpack_pack_m a t o m n ha ht (hb.1 h1).1 (hb.1 h1).2)
    (fun h1 => unpack_pack_n a t o m n ha ht (hb.2 h1))

theorem tagQ_of_lt {o : Nat} (h : o < tagBase) : tagQ sl o = true := by
  unfold tagQ isTag
  have : decide (tagBase ≤ o) = false := decide_eq_false (by omega)
  rw [this]; rfl

/-! ### `capN` basics -/

theorem capN_mk (t o ch : Nat) (str : List Nat) (set : Option Class.Class) (m n : Int) (kids : List Node) :
    capN sl (.mk t o ch str set m n kids) = (decide (o < tagBase) && capQ sl t m n && capNs sl kids) := by
  rw [capN]

theorem capN_iff (x : Node) : capN sl x = (decide (x.o < tagBase) && capQ sl x.t x.m x.n && capNs sl x.kids) := by
  cases x; rw [capN]; rfl

theorem capNs_cons (x : Node) (xs : List Node) : capNs sl (x :: xs) = (capN sl x && capNs sl xs) := by rw [capNs]
theorem capNs_nil : capNs sl [] = true := by rw [capNs]

theorem capNs_iff_all : ∀ (l : List Node), capNs sl l = true ↔ ∀ x ∈ l, capN sl x = true
  | [] => by simp [capNs_nil]
  | x :: xs => by simp [capNs_cons, capNs_iff_all xs]

theorem capNs_append (a b : List Node) : capNs sl (a ++ b) = (capNs sl a && capNs sl b) := by
  induction a with
  | nil => simp [capNs_nil]
  | cons x xs ih => simp [capNs_cons, ih, Bool.and_assoc]

theorem capN_o {x : Node} (h : capN sl x = true) : x.o < tagBase := by
  rw [capN_iff] at h
  simp only [Bool.and_eq_true, decide_eq_true_eq] at h
  exact h.1.1

theorem capN_q {x : Node} (h : capN sl x = true) : capQ sl x.t x.m x.n = true := by
  rw [capN_iff] at h
  simp only [Bool.and_eq_true, decide_eq_true_eq] at h
  exact h.1.2

theorem capN_kids {x : Node} (h : capN sl x = true) : capNs sl x.kids = true := by
  rw [capN_iff] at h
  simp only [Bool.and_eq_true, decide_eq_true_eq] at h
  exact h.2

theorem capN_of {x : Node} (ho : x.o < tagBase) (hq : capQ sl x.t x.m x.n = true) (hk : capNs sl x.kids = true) :
    capN sl x = true := by
  rw [capN_iff, hq, hk]; simp [ho]

theorem capN_mk_of {t o ch : Nat} {str : List Nat} {set : Option Class.Class} {m n : Int} {kids : List Node}
    (ho : o < tagBase) (hq : capQ sl t m n = true) (hk : capNs sl kids = true) :
    capN sl (.mk t o ch str set m n kids) = true := by
  rw [capN_mk, hq, hk]; simp [ho]

theorem zero_lt_tagBase : 0 < tagBase := by unfold tagBase; omega
theorem n64_lt_tagBase : 64 < tagBase := by unfold tagBase; omega

theorem capN_head {k : Node} {rest : List Node} {x : Node} (hx : capN sl x = true) (hk : x.kids = k :: rest) :
    capN sl k = true := by
  have := capN_kids sl hx
  rw [hk, capNs_cons] at this
  simp only [Bool.and_eq_true] at this
  exact this.1

theorem capN_withKids {x : Node} {ks : List Node} (hx : capN sl x = true) (hk : capNs sl ks = true) :
    capN sl (x.withKids ks) = true := by
  cases x with
  | mk t o ch str set m n kids =>
    have h1 := capN_o sl hx
    have h2 := capN_q sl hx
    exact capN_of sl h1 h2 hk

theorem capN_withO {x : Node} (hx : capN sl x = true) {o : Nat} (ho : o < tagBase) : capN sl (x.withO o) = true := by
  cases x with
  | mk t o' ch str set m n kids =>
    exact capN_mk_of sl ho (capN_q sl hx) (capN_kids sl hx)

theorem capN_withMN {x : Node} (hx : capN sl x = true) {m n : Int} (hq : capQ sl x.t m n = true) :
    capN sl (x.withMN m n) = true := by
  cases x with
  | mk t o ch str set m' n' kids =>
    exact capN_mk_of sl (capN_o sl hx) hq (capN_kids sl hx)

theorem capN_withT {x : Node} (hx : capN sl x = true) {t : Nat} (hq : capQ sl t x.m x.n = true) :
    capN sl (x.withT t) = true := by
  cases x with
  | mk t' o ch str set m' n' kids =>
    exact capN_mk_of sl (capN_o sl hx) hq (capN_kids sl hx)

theorem capN_bare (t o : Nat) (ho : o < tagBase) (hq : capQ sl t 0 0 = true) : capN sl (bareNode t o) = true :=
  capN_of sl ho hq (capNs_nil sl)

theorem capN_fixShape {x : Node} (h : capN sl x = true) : capN sl (fixShape x) = true := by
  unfold fixShape
  split
  · exact h
  · exact capN_bare sl _ _ (capN_o sl h) rfl

theorem capNs_take (k : Nat) {l : List Node} (h : capNs sl l = true) : capNs sl (l.take k) = true := by
  rw [capNs_iff_all] at *
  exact fun x hx => h x (List.mem_of_mem_take hx)

theorem capNs_map (g : Node → Node) (l : List Node) (hg : ∀ x, capN sl x = true → capN sl (g x) = true)
    (h : capNs sl l = true) : capNs sl (l.map g) = true := by
  rw [capNs_iff_all] at *
  intro y hy
  rcases List.mem_map.mp hy with ⟨x, hx, rfl⟩
  exact hg x (h x hx)

/-- the versions with the shape carried along (the functions mapped over children need both) -/
theorem capNs_map' (g : Node → Node) (l : List Node)
    (hg : ∀ x, okN x = true → capN sl x = true → capN sl (g x) = true)
    (ho : okNs l = true) (h : capNs sl l = true) : capNs sl (l.map g) = true := by
  rw [capNs_iff_all] at *
  rw [okNs_iff_all] at ho
  intro y hy
  rcases List.mem_map.mp hy with ⟨x, hx, rfl⟩
  exact hg x (ho x hx) (h x hx)

theorem capNs_mapLast' (g : Node → Node) (hg : ∀ x, okN x = true → capN sl x = true → capN sl (g x) = true) :
    ∀ (l : List Node), okNs l = true → capNs sl l = true → capNs sl (mapLast g l) = true
  | [], _, _ => by simp [mapLast, capNs_nil]
  | [x], ho, h => by
    simp only [okNs_cons, okNs_nil, Bool.and_true] at ho
    simp only [capNs_cons, capNs_nil, Bool.and_true] at h
    simp [mapLast, capNs_cons, capNs_nil, hg x ho h]
  | x :: y :: rest, ho, h => by
    rw [okNs_cons] at ho
    rw [capNs_cons] at h
    simp only [Bool.and_eq_true] at h ho
    simp [mapLast, capNs_cons, h.1, capNs_mapLast' g hg (y :: rest) ho.2 h.2]

theorem capNs_mapTail' (g : Node → Node) (hg : ∀ x, okN x = true → capN sl x = true → capN sl (g x) = true)
    (l : List Node) (ho : okNs l = true) (h : capNs sl l = true) : capNs sl (mapTail g l) = true := by
  cases l with
  | nil => simp [mapTail, capNs_nil]
  | cons x xs =>
    rw [okNs_cons] at ho
    rw [capNs_cons] at h
    simp only [Bool.and_eq_true] at h ho
    simp [mapTail, capNs_cons, h.1, capNs_map' sl g xs hg ho.2 h.2]

/-! ### `fromR` -/

theorem capN_unwrap {tag : Nat} {x : Node} (ht : isTag tag = true) (hq : tagQ sl tag = true) (h : capN sl x = true) :
    capN sl (unwrap tag x) = true := by
  unfold unwrap
  apply capN_fixShape
  apply capN_mk_of
  · exact unpack_o_lt tag
  · unfold tagQ at hq
    simpa [ht] using hq
  · exact capNs_take sl _ (capN_kids sl h)

theorem mod_lt_tagBase (o : Nat) : o % 65536 < tagBase := by
  unfold tagBase; omega

theorem not_isTag_lt {o : Nat} (h : ¬ isTag o = true) : o < tagBase := by
  unfold isTag at h
  simpa using h

mutual
theorem fromR_caps : ∀ (r : RNode), capR sl r = true → capN sl (fromR r) = true
  | .chr o p, _ => by
    cases p <;> (simp only [fromR, cpNode]; exact capN_mk_of sl (mod_lt_tagBase o) rfl (capNs_nil sl))
  | .cloop o k p lo hi, _ => by
    cases k <;> cases p <;> (simp only [fromR, cpNode, cloopType]; exact capN_mk_of sl (mod_lt_tagBase o) rfl (capNs_nil sl))
  | .multi o cs, _ => by simp only [fromR]; exact capN_mk_of sl (mod_lt_tagBase o) rfl (capNs_nil sl)
  | .empty, _ => by simp only [fromR]; exact capN_bare sl _ _ (zero_lt_tagBase) rfl
  | .nothing, _ => by simp only [fromR]; exact capN_bare sl _ _ (zero_lt_tagBase) rfl
  | .bump, _ => by simp only [fromR]; exact capN_bare sl _ _ (zero_lt_tagBase) rfl
  | .anchor _, _ => by simp only [fromR]; exact capN_bare sl _ _ (zero_lt_tagBase) rfl
  | .ref g ci, h => by
    rw [capR] at h
    simp only [fromR]
    exact capN_mk_of sl zero_lt_tagBase h (capNs_nil sl)
  | .alt o cs, h => by
    have hi := alt_inv sl h
    have hk := fromRs_caps cs hi.2
    rw [fromR]
    split
    · split
      · rename_i x hx
        rw [hx, capNs_cons] at hk
        simp only [Bool.and_eq_true] at hk
        exact hk.1
      · exact capN_fixShape sl (capN_mk_of sl zero_lt_tagBase rfl hk)
    · rename_i hnt
      exact capN_fixShape sl (capN_mk_of sl (not_isTag_lt hnt) rfl hk)
  | .cat o cs, h => by
    have hi := cat_inv sl h
    have hk := fromRs_caps cs hi.2
    rw [fromR]
    split
    · rename_i htag
      split
      · rename_i x hx
        rw [hx, capNs_cons] at hk
        simp only [Bool.and_eq_true] at hk
        exact capN_unwrap sl htag hi.1 hk.1
      · exact capN_fixShape sl (capN_mk_of sl zero_lt_tagBase rfl hk)
    · rename_i hnt
      exact capN_fixShape sl (capN_mk_of sl (not_isTag_lt hnt) rfl hk)
  | .loop lzy lo hi b, h => by
    rw [capR] at h
    have hb := fromR_caps b h
    simp only [fromR]
    refine capN_mk_of sl zero_lt_tagBase ?_ (by simp [capNs_cons, capNs_nil, hb])
    cases lzy <;> rfl
  | .cap g b, h => by
    rw [capR] at h
    simp only [Bool.and_eq_true] at h
    have hb := fromR_caps b h.2
    simp only [fromR]
    exact capN_mk_of sl zero_lt_tagBase h.1 (by simp [capNs_cons, capNs_nil, hb])
  | .look bh ng b, h => by
    rw [capR] at h
    have hb := fromR_caps b h
    simp only [fromR]
    refine capN_mk_of sl ?_ ?_ (by simp [capNs_cons, capNs_nil, hb])
    · cases bh
      · exact zero_lt_tagBase
      · exact n64_lt_tagBase
    · cases ng <;> rfl
  | .atomic b, h => by
    rw [capR] at h
    have hb := fromR_caps b h
    simp only [fromR]
    exact capN_mk_of sl zero_lt_tagBase rfl (by simp [capNs_cons, capNs_nil, hb])
  | .refCond g y n, h => by
    rw [capR] at h
    simp only [Bool.and_eq_true] at h
    have h1 := fromR_caps y h.1.2
    have h2 := fromR_caps n h.2
    simp only [fromR]
    exact capN_mk_of sl zero_lt_tagBase h.1.1 (by simp [capNs_cons, capNs_nil, h1, h2])
  | .exprCond c y n, h => by
    rw [capR] at h
    simp only [Bool.and_eq_true] at h
    have h0 := fromR_caps c h.1.1
    have h1 := fromR_caps y h.1.2
    have h2 := fromR_caps n h.2
    simp only [fromR]
    exact capN_mk_of sl zero_lt_tagBase rfl (by simp [capNs_cons, capNs_nil, h0, h1, h2])
theorem fromRs_caps : ∀ (rs : List RNode), CRs sl rs → capNs sl (fromRs rs) = true
  | [], _ => by simp [fromRs, capNs_nil]
  | x :: xs, h => by
    simp [fromRs, capNs_cons, fromR_caps x (CRs_head sl h), fromRs_caps xs (CRs_tail sl h)]
end

end
end RegexVerif.Reduce
