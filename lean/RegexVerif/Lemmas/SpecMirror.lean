/-
The mirror theorem for the specification semantics `Spec.m` (property C15): matching in direction
`rtl` on a text is the same as matching the mirrored pattern in direction `!rtl` on the reversed
text, with positions and captures reflected (`p ↦ n - p`, `(s, len) ↦ (n - (s + len), len)`).
-/
import RegexVerif.Lemmas.Spec

namespace RegexVerif.Spec

/-! ## definitions -/

/-- the reversed input: same oracle tables, reversed text, reflected start offset -/
def revEnv (e : Env) : Env := { e with text := e.text.reverse, textstart := e.n - e.textstart }

/-- reflect a state in a text of length `n`: position `p` becomes `n - p`, a captured span
    `[s, s+len)` becomes `[n-(s+len), n-s)` -/
def mirrorSt (n : Nat) (st : St) : St :=
  { pos := n - st.pos, caps := st.caps.map (fun c => (c.1, n - (c.2.1 + c.2.2), c.2.2)) }

/-- the anchor that holds at `n - p` of the reversed text exactly when the given one holds at `p` -/
def mirrorAnchor : Anchor → Anchor
  | .bol => .eol
  | .eol => .bol
  | .beginning => .end
  | .end => .beginning
  | .start => .start
  | .boundary => .boundary
  | .nonboundary => .nonboundary
  | .endz => .begz
  | .begz => .endz

/-- the mirrored pattern: concatenations swapped (`ab` read leftwards on the text is `ba` read
    rightwards on the reversed text), anchors mirrored, lookahead ↔ lookbehind, everything else
    structural. -/
def mirrorPat : Pat → Pat
  | .empty => .empty
  | .nothing => .nothing
  | .chr p => .chr p
  | .anchor a => .anchor (mirrorAnchor a)
  | .seq a b => .seq (mirrorPat b) (mirrorPat a)
  | .alt a b => .alt (mirrorPat a) (mirrorPat b)
  | .quant lzy lo hi body => .quant lzy lo hi (mirrorPat body)
  | .cap g body => .cap g (mirrorPat body)
  | .look behind neg body => .look (!behind) neg (mirrorPat body)
  | .atomic body => .atomic (mirrorPat body)
  | .ref g ci => .ref g ci
  | .refCond g yes no => .refCond g (mirrorPat yes) (mirrorPat no)
  | .exprCond c yes no => .exprCond (mirrorPat c) (mirrorPat yes) (mirrorPat no)

/-! ## involutions -/

@[simp] theorem revEnv_n (e : Env) : (revEnv e).n = e.n := by simp [revEnv, Env.n]

theorem revEnv_revEnv (e : Env) (h : e.textstart ≤ e.n) : revEnv (revEnv e) = e := by
  cases e
  simp only [revEnv, Env.n, List.reverse_reverse, List.length_reverse, Env.mk.injEq, and_true, true_and] at *
  omega

theorem mirrorAnchor_mirrorAnchor (a : Anchor) : mirrorAnchor (mirrorAnchor a) = a := by
  cases a <;> rfl

theorem mirrorPat_mirrorPat (p : Pat) : mirrorPat (mirrorPat p) = p := by
  induction p <;> simp_all [mirrorPat, mirrorAnchor_mirrorAnchor]

theorem mirrorSt_wf (n : Nat) (st : St) (h : st.wf n) : (mirrorSt n st).wf n := by
  refine ⟨by simp [mirrorSt], ?_⟩
  intro c hc
  simp only [mirrorSt, List.mem_map] at hc
  obtain ⟨d, hd, rfl⟩ := hc
  have := h.2 d hd
  simp only
  omega

theorem mirrorSt_mirrorSt (n : Nat) (st : St) (h : st.wf n) : mirrorSt n (mirrorSt n st) = st := by
  obtain ⟨pos, caps⟩ := st
  obtain ⟨h1, h2⟩ := h
  simp only [mirrorSt, List.map_map, St.mk.injEq]
  refine ⟨by simp only at h1; omega, ?_⟩
  have : ∀ c ∈ caps, ((fun c : Nat × Nat × Nat => (c.1, n - (c.2.1 + c.2.2), c.2.2)) ∘
      (fun c : Nat × Nat × Nat => (c.1, n - (c.2.1 + c.2.2), c.2.2))) c = id c := by
    intro c hc
    have := h2 c hc
    obtain ⟨g, s, l⟩ := c
    simp only [Function.comp, id, Prod.mk.injEq, true_and, and_true] at *
    omega
  rw [List.map_congr_left this, List.map_id]

theorem map_mirrorSt_mirrorSt (n : Nat) (l : List St) (h : ∀ st ∈ l, st.wf n) :
    (l.map (mirrorSt n)).map (mirrorSt n) = l := by
  rw [List.map_map]
  have : ∀ st ∈ l, (mirrorSt n ∘ mirrorSt n) st = id st := fun st hst => mirrorSt_mirrorSt n st (h st hst)
  rw [List.map_congr_left this, List.map_id]

/-! ## leaves -/

theorem Cls.mem_revEnv (e : Env) (ci : Bool) (c : Cls) (r : Nat) : c.mem (revEnv e) ci r = c.mem e ci r := by
  induction c with
  | base neg rs ns => rfl
  | diff a b iha ihb => simp only [Cls.mem, iha, ihb]

theorem Pred.test_revEnv (e : Env) (p : Pred) (r : Nat) : p.test (revEnv e) r = p.test e r := by
  cases p with
  | one c ci => rfl
  | notone c ci => rfl
  | set c ci => exact Cls.mem_revEnv e ci c r

/-- the rune before `n - p` in the reversed text is the rune after `p` -/
theorem before_revEnv (e : Env) (p : Nat) (hp : p ≤ e.n) :
    (if e.n - p = 0 then none else (revEnv e).text[e.n - p - 1]?) = e.text[p]? := by
  unfold Env.n at *
  by_cases h : e.text.length - p = 0
  · rw [if_pos h, List.getElem?_eq_none (by omega)]
  · rw [if_neg h]
    simp only [revEnv]
    rw [List.getElem?_reverse (by omega)]
    congr 1; omega

/-- the rune after `n - p` in the reversed text is the rune before `p` -/
theorem after_revEnv (e : Env) (p : Nat) (hp : p ≤ e.n) :
    (revEnv e).text[e.n - p]? = (if p = 0 then none else e.text[p - 1]?) := by
  unfold Env.n at *
  simp only [revEnv]
  by_cases h : p = 0
  · rw [if_pos h, List.getElem?_eq_none (by simp; omega)]
  · rw [if_neg h, List.getElem?_reverse (by omega)]
    congr 1; omega

theorem stepChar_mirror (e : Env) (rtl : Bool) (pos : Nat) (hp : pos ≤ e.n) :
    stepChar (revEnv e) (!rtl) (e.n - pos) = (stepChar e rtl pos).map (fun x => (x.1, e.n - x.2)) := by
  cases rtl with
  | true =>
    simp only [stepChar, Bool.not_true, Bool.false_eq_true, if_false, if_true]
    rw [after_revEnv e pos hp]
    by_cases h : pos = 0
    · simp [h]
    · simp only [if_neg h, Option.map_map]
      congr 1; funext r; simp only [Function.comp]; congr 1; omega
  | false =>
    simp only [stepChar, Bool.not_false, Bool.false_eq_true, if_false, if_true]
    have hb := before_revEnv e pos hp
    by_cases h : e.n - pos = 0
    · rw [if_pos h] at hb ⊢
      rw [← hb]; rfl
    · rw [if_neg h] at hb ⊢
      rw [hb, Option.map_map]
      rfl

theorem isWord_revEnv (e : Env) : (revEnv e).isWord = e.isWord := rfl

theorem anchorHolds_mirror (e : Env) (hts : e.textstart ≤ e.n) (a : Anchor) (p : Nat) (hp : p ≤ e.n) :
    anchorHolds (revEnv e) (mirrorAnchor a) (e.n - p) = anchorHolds e a p := by
  have hb := before_revEnv e p hp
  have ha := after_revEnv e p hp
  have hs : (revEnv e).textstart = e.n - e.textstart := rfl
  have h1 : (e.n - p == e.n) = (p == 0) := by rw [Bool.eq_iff_iff]; simp only [beq_iff_eq]; omega
  have h2 : (e.n - p == 0) = (p == e.n) := by rw [Bool.eq_iff_iff]; simp only [beq_iff_eq]; omega
  have h3 : (e.n - p == e.n - e.textstart) = (p == e.textstart) := by
    rw [Bool.eq_iff_iff]; simp only [beq_iff_eq]; omega
  have h4 : (e.n - p == 1) = (p + 1 == e.n) := by rw [Bool.eq_iff_iff]; simp only [beq_iff_eq]; omega
  have h5 : (e.n - p + 1 == e.n) = (p == 1) := by rw [Bool.eq_iff_iff]; simp only [beq_iff_eq]; omega
  cases a <;> simp only [mirrorAnchor, anchorHolds, revEnv_n, hb, ha, hs, h1, h2, h3, h4, h5, isWord_revEnv]
  · exact bne_comm
  · exact Bool.beq_comm

/-! ## slices and backreferences -/

theorem revSlice {α : Type} (l : List α) (s len : Nat) (h : s + len ≤ l.length) :
    (l.reverse.drop (l.length - (s + len))).take len = ((l.drop s).take len).reverse := by
  rw [List.drop_reverse, List.take_reverse, List.length_take]
  congr 1
  have h1 : l.length - (l.length - (s + len)) = s + len := by omega
  rw [h1, Nat.min_eq_left h, show s + len - len = s by omega, List.drop_take,
    show s + len - s = len by omega]

theorem sliceEq_mirror (e : Env) (ci : Bool) (s t len : Nat) (hs : s + len ≤ e.n) (ht : t + len ≤ e.n) :
    sliceEq (revEnv e) ci (e.n - (s + len)) (e.n - (t + len)) len = sliceEq e ci s t len := by
  unfold Env.n at hs ht
  have hpart : (revEnv e).partner = e.partner := rfl
  have heq : (revEnv e).eqCi = e.eqCi := rfl
  simp only [sliceEq, heq]
  simp only [revEnv, Env.n]
  rw [revSlice e.text s len hs, revSlice e.text t len ht]
  have hla : ((e.text.drop s).take len).length = len := by simp; omega
  have hlb : ((e.text.drop t).take len).length = len := by simp; omega
  rw [← List.reverse_zipWith (by rw [hla, hlb]), List.all_reverse, List.length_reverse, List.length_reverse]

theorem sliceEq_false_of_short (e : Env) (ci : Bool) (s t len : Nat) (h : e.n < t + len) (hl : 0 < len) :
    sliceEq e ci s t len = false := by
  cases hh : sliceEq e ci s t len with
  | false => rfl
  | true =>
    have := sliceEq_bound e ci s t len hh
    unfold Env.n at h; omega

theorem refMatch_mirror (e : Env) (ci rtl : Bool) (s len pos : Nat) (hs : s + len ≤ e.n) (hp : pos ≤ e.n) :
    refMatch (revEnv e) ci (!rtl) (e.n - (s + len)) len (e.n - pos)
      = (refMatch e ci rtl s len pos).map (fun q => e.n - q) := by
  cases rtl with
  | true =>
    simp only [refMatch, Bool.not_true, Bool.false_eq_true, if_false, if_true]
    by_cases hl : pos < len
    · rw [if_pos hl, sliceEq_false_of_short (revEnv e) ci _ _ len (by rw [revEnv_n]; omega) (by omega)]
      rfl
    · rw [if_neg hl]
      have := sliceEq_mirror e ci s (pos - len) len hs (by omega)
      rw [show pos - len + len = pos by omega] at this
      rw [this]
      split
      · simp only [Option.map_some, Option.some.injEq]; omega
      · rfl
  | false =>
    simp only [refMatch, Bool.not_false, Bool.false_eq_true, if_false, if_true]
    by_cases hl : e.n - pos < len
    · rw [if_pos hl, sliceEq_false_of_short e ci _ _ len (by omega) (by omega)]
      rfl
    · rw [if_neg hl]
      have := sliceEq_mirror e ci s pos len hs (by omega)
      rw [show e.n - pos - len = e.n - (pos + len) by omega, this]
      split
      · rfl
      · rfl

theorem hasCap_mirror (n : Nat) (caps : List (Nat × Nat × Nat)) (g : Nat) :
    hasCap (caps.map (fun c => (c.1, n - (c.2.1 + c.2.2), c.2.2))) g = hasCap caps g := by
  simp only [hasCap, List.any_map]; rfl

theorem lastCap_mirror (n : Nat) (caps : List (Nat × Nat × Nat)) (g : Nat) :
    lastCap (caps.map (fun c => (c.1, n - (c.2.1 + c.2.2), c.2.2))) g
      = (lastCap caps g).map (fun x => (n - (x.1 + x.2), x.2)) := by
  simp only [lastCap, ← List.map_reverse, List.find?_map, Option.map_map]; rfl

theorem lastCap_mem (caps : List (Nat × Nat × Nat)) (g s len : Nat) (h : lastCap caps g = some (s, len)) :
    ∃ g', (g', s, len) ∈ caps := by
  simp only [lastCap, Option.map_eq_some_iff] at h
  obtain ⟨c, hc, hceq⟩ := h
  have := List.mem_of_find?_eq_some hc
  rw [List.mem_reverse] at this
  exact ⟨c.1, by rw [← hceq]; exact this⟩

/-! ## loops -/

theorem flatMap_congr_mem {α β : Type} (l : List α) (F G : α → List β) (h : ∀ x ∈ l, F x = G x) :
    l.flatMap F = l.flatMap G := by
  induction l with
  | nil => rfl
  | cons a l ih =>
    simp only [List.flatMap_cons]
    rw [h a (by simp), ih (fun x hx => h x (by simp [hx]))]

/-- conjugating the body of a loop by a position-injective map `φ` conjugates the loop -/
theorem iter_map_conj (P : St → Prop) (φ : St → St) (f g : St → List St)
    (hP : ∀ st, P st → ∀ st' ∈ f st, P st')
    (hfg : ∀ st, P st → (f st).map φ = g (φ st))
    (hpos : ∀ st st', P st → P st' → ((φ st').pos == (φ st).pos) = (st'.pos == st.pos))
    (lzy : Bool) (lo : Nat) (hi : Option Nat) :
    ∀ (fuel cnt : Nat) (st : St), P st →
      (iter f lzy lo hi fuel cnt st).map φ = iter g lzy lo hi fuel cnt (φ st) := by
  intro fuel
  induction fuel with
  | zero =>
    intro cnt st _
    simp only [iter]
    split <;> rfl
  | succ fuel ih =>
    intro cnt st hst
    simp only [iter]
    have hstop : (if lo ≤ cnt then [st] else []).map φ = if lo ≤ cnt then [φ st] else [] := by
      split <;> rfl
    have hmore : (if canGo hi cnt = true then
          (f st).flatMap (fun st' => if (st'.pos == st.pos && decide (lo ≤ cnt + 1)) = true then [st']
            else iter f lzy lo hi fuel (cnt + 1) st') else []).map φ
        = if canGo hi cnt = true then
          (g (φ st)).flatMap (fun st' => if (st'.pos == (φ st).pos && decide (lo ≤ cnt + 1)) = true then [st']
            else iter g lzy lo hi fuel (cnt + 1) st') else [] := by
      split
      · rw [← hfg st hst, List.map_flatMap, List.flatMap_map]
        apply flatMap_congr_mem
        intro x hx
        have hPx := hP st hst x hx
        rw [hpos st x hst hPx]
        split
        · rfl
        · exact ih (cnt + 1) x hPx
      · rfl
    cases lzy
    · simp only [Bool.false_eq_true, if_false, List.map_append, hstop, hmore]
    · simp only [if_true, List.map_append, hstop, hmore]

theorem mirrorSt_pos_beq (n : Nat) (st st' : St) (h : st.pos ≤ n) (h' : st'.pos ≤ n) :
    ((mirrorSt n st').pos == (mirrorSt n st).pos) = (st'.pos == st.pos) := by
  rw [Bool.eq_iff_iff]; simp only [mirrorSt, beq_iff_eq]; omega

/-! ## the mirror theorem -/

/-- **mirror theorem** (image form): the reflected successes of `p` in direction `rtl` are the
    successes of the mirrored pattern in the opposite direction on the reversed text, in the same
    priority order. -/
theorem m_mirror_map (e : Env) (hts : e.textstart ≤ e.n) (p : Pat) : ∀ (rtl : Bool) (st : St), St.wf e.n st →
    (m e p rtl st).map (mirrorSt e.n) = m (revEnv e) (mirrorPat p) (!rtl) (mirrorSt e.n st) := by
  induction p with
  | empty => intro rtl st _; rfl
  | nothing => intro rtl st _; rfl
  | chr p =>
    intro rtl st h
    simp only [m, mirrorPat]
    rw [show (mirrorSt e.n st).pos = e.n - st.pos from rfl, stepChar_mirror e rtl st.pos h.1]
    cases stepChar e rtl st.pos with
    | none => rfl
    | some x =>
      obtain ⟨r, q⟩ := x
      simp only [Option.map_some, Pred.test_revEnv]
      split <;> rfl
  | anchor a =>
    intro rtl st h
    simp only [m, mirrorPat]
    rw [show (mirrorSt e.n st).pos = e.n - st.pos from rfl, anchorHolds_mirror e hts a st.pos h.1]
    split <;> rfl
  | seq a b iha ihb =>
    intro rtl st h
    cases rtl with
    | true =>
      simp only [m, mirrorPat, Bool.not_true, Bool.false_eq_true, if_false, if_true]
      rw [← show _ = m (revEnv e) (mirrorPat b) false _ from ihb true st h, List.map_flatMap, List.flatMap_map]
      exact flatMap_congr_mem _ _ _ (fun x hx => iha true x (m_wf e b true st h x hx))
    | false =>
      simp only [m, mirrorPat, Bool.not_false, Bool.false_eq_true, if_false, if_true]
      rw [← show _ = m (revEnv e) (mirrorPat a) true _ from iha false st h, List.map_flatMap, List.flatMap_map]
      exact flatMap_congr_mem _ _ _ (fun x hx => ihb false x (m_wf e a false st h x hx))
  | alt a b iha ihb =>
    intro rtl st h
    simp only [m, mirrorPat, List.map_append, iha rtl st h, ihb rtl st h]
  | quant lzy lo hi body ih =>
    intro rtl st h
    simp only [m, mirrorPat, revEnv_n]
    exact iter_map_conj (St.wf e.n) (mirrorSt e.n) _ _ (fun s hs => m_wf e body rtl s hs) (fun s hs => ih rtl s hs)
      (fun s s' hs hs' => mirrorSt_pos_beq e.n s s' hs.1 hs'.1) lzy lo hi _ 0 st h
  | cap g body ih =>
    intro rtl st h
    simp only [m, mirrorPat]
    rw [← ih rtl st h, List.map_map, List.map_map]
    apply List.map_congr_left
    intro y hy
    have hw := m_wf e body rtl st h y hy
    have h1 := h.1
    have h2 := hw.1
    simp only [Function.comp, mirrorSt, List.map_append, List.map_cons, List.map_nil, St.mk.injEq,
      List.append_cancel_left_eq, List.cons.injEq, Prod.mk.injEq, and_true, true_and]
    omega
  | look behind neg body ih =>
    intro rtl st h
    simp only [m, mirrorPat]
    rw [← ih behind st h]
    cases m e body behind st with
    | nil => cases neg <;> rfl
    | cons y ys => cases neg <;> rfl
  | atomic body ih =>
    intro rtl st h
    simp only [m, mirrorPat]
    rw [List.map_take, ih rtl st h]
  | ref g ci =>
    intro rtl st h
    simp only [m, mirrorPat]
    rw [show (mirrorSt e.n st).caps = st.caps.map (fun c => (c.1, e.n - (c.2.1 + c.2.2), c.2.2)) from rfl,
      lastCap_mirror]
    cases hl : lastCap st.caps g with
    | none => rfl
    | some x =>
      obtain ⟨s, len⟩ := x
      obtain ⟨g', hg'⟩ := lastCap_mem st.caps g s len hl
      have hs := h.2 _ hg'
      simp only [Option.map_some]
      rw [show (mirrorSt e.n st).pos = e.n - st.pos from rfl, refMatch_mirror e ci rtl s len st.pos hs h.1]
      cases refMatch e ci rtl s len st.pos with
      | none => rfl
      | some q => rfl
  | refCond g yes no ihy ihn =>
    intro rtl st h
    simp only [m, mirrorPat]
    rw [show (mirrorSt e.n st).caps = st.caps.map (fun c => (c.1, e.n - (c.2.1 + c.2.2), c.2.2)) from rfl,
      hasCap_mirror]
    split
    · exact ihy rtl st h
    · exact ihn rtl st h
  | exprCond c yes no ihc ihy ihn =>
    intro rtl st h
    simp only [m, mirrorPat]
    rw [← ihc rtl st h]
    cases hc : m e c rtl st with
    | nil => exact ihn rtl st h
    | cons y ys =>
      have hw := m_wf e c rtl st h y (by rw [hc]; simp)
      exact ihy rtl { pos := st.pos, caps := y.caps } ⟨h.1, hw.2⟩

/-- **mirror theorem**: matching `p` in direction `rtl` is matching the mirrored pattern in the
    opposite direction on the reversed text from the reflected state, results reflected back. -/
theorem m_mirror (e : Env) (hts : e.textstart ≤ e.n) (p : Pat) (rtl : Bool) (st : St) (h : St.wf e.n st) :
    m e p rtl st = (m (revEnv e) (mirrorPat p) (!rtl) (mirrorSt e.n st)).map (mirrorSt e.n) := by
  rw [← m_mirror_map e hts p rtl st h, map_mirrorSt_mirrorSt e.n _ (m_wf e p rtl st h)]

/-! ## attempts and find -/

theorem attempt_mirror (e : Env) (hts : e.textstart ≤ e.n) (p : Pat) (rtl : Bool) (i : Nat) (hi : i ≤ e.n) :
    attempt e p rtl i = (attempt (revEnv e) (mirrorPat p) (!rtl) (e.n - i)).map (mirrorSt e.n) := by
  unfold attempt
  rw [m_mirror e hts (.cap 0 p) rtl { pos := i, caps := [] } ⟨hi, by simp⟩, List.head?_map]
  rfl

theorem scanOrder_mirror (rtl : Bool) (start n : Nat) (hs : start ≤ n) :
    scanOrder rtl start n = (scanOrder (!rtl) (n - start) n).map (fun i => n - i) := by
  cases rtl with
  | true =>
    simp only [scanOrder, Bool.not_true, Bool.false_eq_true, if_false, if_true]
    apply List.ext_getElem
    · simp; omega
    · intro i h1 h2
      simp only [List.getElem_reverse, List.getElem_range, List.getElem_map, List.getElem_drop,
        List.length_range]
      simp only [List.length_reverse, List.length_range] at h1
      omega
  | false =>
    simp only [scanOrder, Bool.not_false, Bool.false_eq_true, if_false, if_true]
    apply List.ext_getElem
    · simp; omega
    · intro i h1 h2
      simp only [List.getElem_reverse, List.getElem_range, List.getElem_map, List.getElem_drop,
        List.length_range]
      simp only [List.length_drop, List.length_range] at h1
      omega

theorem mem_scanOrder_le (rtl : Bool) (start n i : Nat) (hs : start ≤ n) (h : i ∈ scanOrder rtl start n) :
    i ≤ n := by
  cases rtl with
  | true =>
    simp only [scanOrder, if_true, List.mem_reverse, List.mem_range] at h
    omega
  | false =>
    simp only [scanOrder, Bool.false_eq_true, if_false] at h
    have := List.mem_range.mp (List.mem_of_mem_drop h)
    omega

theorem findSome?_congr_mem {α β : Type} (l : List α) (F G : α → Option β) (h : ∀ x ∈ l, F x = G x) :
    l.findSome? F = l.findSome? G := by
  induction l with
  | nil => rfl
  | cons a l ih =>
    simp only [List.findSome?_cons]
    rw [h a (by simp), ih (fun x hx => h x (by simp [hx]))]

/-- **find mirror**: a find call in direction `rtl` from `start` is the find call for the mirrored
    pattern in the opposite direction on the reversed text from `n - start`, result reflected. -/
theorem find_mirror (e : Env) (hts : e.textstart ≤ e.n) (p : Pat) (rtl : Bool) (start : Nat) (hs : start ≤ e.n) :
    find e p rtl start = (find (revEnv e) (mirrorPat p) (!rtl) (e.n - start)).map (mirrorSt e.n) := by
  unfold find
  rw [scanOrder_mirror rtl start e.n hs, revEnv_n, List.findSome?_map, List.map_findSome?]
  apply findSome?_congr_mem
  intro i hi
  have hle := mem_scanOrder_le (!rtl) (e.n - start) e.n i (by omega) hi
  simp only [Function.comp]
  rw [attempt_mirror e hts p rtl (e.n - i) (by omega), show e.n - (e.n - i) = i by omega]

end RegexVerif.Spec
