/-
Lemmas about the scan-loop model (`RegexVerif.Model.Scan`).

The main result, `scan_eq_naive`, is the model-level content of property C03 ("search acceleration
never loses, adds or moves a match"): for a sound candidate finder, bump-along and minimum-length
cut-off, `Runner.scan` returns exactly what the naive scan (an attempt at every position in scan
order) returns. C07 and C06 use it to reason about the iteration on the naive scan.
-/
import RegexVerif.Model.Scan

namespace RegexVerif.Lemmas.Scan
open RegexVerif.Scan

/-- number of scan positions strictly ahead of `pos` -/
def dist (rtl : Bool) (n pos : Nat) : Nat := if rtl then pos else n - pos

/-! ### the naive scan -/

theorem mem_scanOrder (rtl : Bool) (n pos p : Nat) :
    p ∈ scanOrder rtl n pos ↔ if rtl then p ≤ pos else pos ≤ p ∧ p ≤ n := by
  cases rtl
  · simp [scanOrder, List.mem_range'_1]; omega
  · simp [scanOrder, List.mem_range]; omega

theorem scanOrder_step (rtl : Bool) (n pos : Nat) (h : pos ≤ n) :
    scanOrder rtl n pos = pos :: (if pos = stopPos rtl n then [] else scanOrder rtl n (bump rtl pos)) := by
  cases rtl
  · simp only [scanOrder, stopPos, bump, Bool.false_eq_true, if_false]
    have : n + 1 - pos = (n - pos) + 1 := by omega
    rw [this, List.range'_succ]
    by_cases hp : pos = n
    · subst hp; simp
    · simp only [hp, if_false]
      have : n - pos = n + 1 - (pos + 1) := by omega
      rw [this]
  · simp only [scanOrder, stopPos, bump, if_true]
    rw [List.range_succ, List.reverse_append]
    by_cases hp : pos = 0
    · subst hp; simp
    · simp only [hp, if_false]
      have : pos - 1 + 1 = pos := by omega
      rw [this]; simp

theorem naiveFrom_step (attempt : Nat → Option (Nat × Nat)) (rtl : Bool) (n pos : Nat) (h : pos ≤ n) :
    naiveFrom attempt rtl n pos =
      match attempt pos with
      | some m => some m
      | none => if pos = stopPos rtl n then none else naiveFrom attempt rtl n (bump rtl pos) := by
  unfold naiveFrom
  rw [scanOrder_step rtl n pos h]
  cases hA : attempt pos with
  | some m => simp [hA]
  | none =>
    by_cases hp : pos = stopPos rtl n
    · rw [if_pos hp, if_pos hp]; simp [hA]
    · simp [hA, hp]

theorem naiveFrom_eq_none (attempt : Nat → Option (Nat × Nat)) (rtl : Bool) (n pos : Nat)
    (h : ∀ p, p ∈ scanOrder rtl n pos → attempt p = none) : naiveFrom attempt rtl n pos = none := by
  unfold naiveFrom
  exact List.findSome?_eq_none_iff.mpr h

/-- a successful naive scan is a successful attempt at a scan position, all earlier ones failing -/
theorem naiveFrom_eq_some (attempt : Nat → Option (Nat × Nat)) (rtl : Bool) (n pos : Nat) (m : Nat × Nat)
    (h : naiveFrom attempt rtl n pos = some m) :
    ∃ p, p ∈ scanOrder rtl n pos ∧ attempt p = some m := by
  unfold naiveFrom at h
  obtain ⟨p, hp, hm⟩ := List.exists_of_findSome?_eq_some h
  exact ⟨p, hp, hm⟩

/-- positions at which every attempt fails can be skipped -/
theorem naiveFrom_skip (attempt : Nat → Option (Nat × Nat)) (rtl : Bool) (n : Nat) :
    ∀ (k pos q : Nat), pos ≤ n → q ≤ n →
      (if rtl then pos = q + k else q = pos + k) →
      (∀ p, (if rtl then q < p ∧ p ≤ pos else pos ≤ p ∧ p < q) → attempt p = none) →
      naiveFrom attempt rtl n pos = naiveFrom attempt rtl n q := by
  intro k
  induction k with
  | zero =>
    intro pos q _ _ hk _
    have : pos = q := by cases rtl <;> simp at hk <;> omega
    rw [this]
  | succ k ih =>
    intro pos q hpos hq hk hfail
    have hA : attempt pos = none := by
      apply hfail
      cases rtl <;> simp at hk ⊢ <;> omega
    have hns : pos ≠ stopPos rtl n := by
      cases rtl <;> simp [stopPos] at hk ⊢ <;> omega
    rw [naiveFrom_step attempt rtl n pos hpos, hA]
    simp only [hns, if_false]
    apply ih (bump rtl pos) q
    · cases rtl <;> simp [bump] at hk ⊢ <;> omega
    · exact hq
    · cases rtl <;> simp [bump] at hk ⊢ <;> omega
    · intro p hp
      apply hfail
      cases rtl <;> simp [bump] at hk hp ⊢ <;> omega

/-! ### the accelerated scan loop equals the naive scan -/

theorem tooShort_all_fail (rtl : Bool) (n L pos : Nat) (attempt : Nat → Option (Nat × Nat))
    (hS : AttemptShape rtl n attempt) (hM : MinLenSound rtl n L attempt) (hpos : pos ≤ n)
    (h : tooShort rtl n L pos = true) : ∀ p, p ∈ scanOrder rtl n pos → attempt p = none := by
  intro p hp
  rw [mem_scanOrder] at hp
  cases hA : attempt p with
  | none => rfl
  | some m =>
    exfalso
    obtain ⟨i, l⟩ := m
    have hpn : p ≤ n := by cases rtl <;> simp at hp <;> omega
    have h1 := hS p i l hpn hA
    have h2 := hM p i l hpn hA
    cases rtl <;> simp [tooShort] at h h1 h2 hp <;> omega

/-- The loop of `Runner.scan` started at `pos` finds exactly the first successful attempt at or after
    `pos` in scan order, provided the fuel covers the positions ahead. -/
theorem scanLoop_eq_naiveFrom (finder : Nat → Bool × Nat) (after : Nat → Nat) (attempt : Nat → Option (Nat × Nat))
    (rtl : Bool) (n L : Nat)
    (hS : AttemptShape rtl n attempt) (hF : FinderSound rtl n finder attempt)
    (hA : AfterSound rtl n after attempt) (hM : MinLenSound rtl n L attempt) :
    ∀ (fuel pos : Nat), pos ≤ n → dist rtl n pos < fuel →
      scanLoop finder after attempt rtl n L fuel pos = naiveFrom attempt rtl n pos := by
  intro fuel
  induction fuel with
  | zero => intro pos _ h; omega
  | succ fuel ih =>
    intro pos hpos hfuel
    rw [scanLoop]
    by_cases hts : tooShort rtl n L pos = true
    · rw [if_pos hts]
      exact (naiveFrom_eq_none attempt rtl n pos (tooShort_all_fail rtl n L pos attempt hS hM hpos hts)).symm
    · rw [if_neg hts]
      have hf := hF pos hpos
      cases hb : (finder pos).1 with
      | false =>
        -- no candidate up to and including q = (finder pos).2
        have hqn : (finder pos).2 ≤ n := by
          cases rtl <;> simp at hf <;> omega
        have hrange : ∀ p, (if rtl then (finder pos).2 ≤ p ∧ p ≤ pos else pos ≤ p ∧ p ≤ (finder pos).2) → attempt p = none := by
          intro p hp
          cases rtl
          · simp only [Bool.false_eq_true, if_false] at hf hp
            exact hf.2.2.2 hb p hp.1 hp.2
          · simp only [if_true] at hf hp
            exact hf.2.2 hb p hp.1 hp.2
        simp only [Bool.false_eq_true, if_false]
        by_cases hq : (finder pos).2 = stopPos rtl n
        · rw [if_pos hq]
          symm
          apply naiveFrom_eq_none
          intro p hp
          rw [mem_scanOrder] at hp
          apply hrange
          cases rtl <;> simp [stopPos] at hq hp ⊢ <;> omega
        · rw [if_neg hq]
          have hq' : bump rtl (finder pos).2 ≤ n ∧ dist rtl n (bump rtl (finder pos).2) < fuel := by
            cases rtl <;> simp [bump, dist, stopPos] at hf hq hfuel ⊢ <;> omega
          rw [ih _ hq'.1 hq'.2]
          symm
          apply naiveFrom_skip attempt rtl n
            (if rtl then pos - bump rtl (finder pos).2 else bump rtl (finder pos).2 - pos) pos _ hpos hq'.1
          · cases rtl <;> simp [bump, stopPos] at hf hq ⊢ <;> omega
          · intro p hp
            apply hrange
            cases rtl <;> simp [bump, stopPos] at hf hq hp ⊢ <;> omega
      | true =>
        simp only [if_true]
        -- skip to the candidate q
        have hqn : (finder pos).2 ≤ n := by
          cases rtl <;> simp at hf <;> omega
        have hskip : naiveFrom attempt rtl n pos = naiveFrom attempt rtl n (finder pos).2 := by
          apply naiveFrom_skip attempt rtl n (if rtl then pos - (finder pos).2 else (finder pos).2 - pos) pos _ hpos hqn
          · cases rtl <;> simp at hf ⊢ <;> omega
          · intro p hp
            cases rtl
            · simp only [Bool.false_eq_true, if_false] at hf hp
              exact hf.2.2.1 hb p hp.1 hp.2
            · simp only [if_true] at hf hp
              exact hf.2.1 hb p hp.1 hp.2
        rw [hskip]
        cases hq : attempt (finder pos).2 with
        | some m =>
          rw [naiveFrom_step attempt rtl n _ hqn, hq]
        | none =>
          have ha := hA _ hqn hq
          simp only []
          by_cases hst : after (finder pos).2 = stopPos rtl n
          · rw [if_pos hst]
            symm
            apply naiveFrom_eq_none
            intro p hp
            rw [mem_scanOrder] at hp
            by_cases hpq : p = (finder pos).2
            · rw [hpq]; exact hq
            · cases rtl
              · simp only [Bool.false_eq_true, if_false, stopPos] at ha hp hst
                exact ha.2.2 p (by omega) (by omega)
              · simp only [if_true, stopPos] at ha hp hst
                exact ha.2 p (by omega) (by omega)
          · rw [if_neg hst]
            have hq' : bump rtl (after (finder pos).2) ≤ n ∧ dist rtl n (bump rtl (after (finder pos).2)) < fuel := by
              cases rtl <;> simp [bump, dist, stopPos] at hf ha hst hfuel ⊢ <;> omega
            rw [ih _ hq'.1 hq'.2]
            symm
            apply naiveFrom_skip attempt rtl n
              (if rtl then (finder pos).2 - bump rtl (after (finder pos).2) else bump rtl (after (finder pos).2) - (finder pos).2)
              _ _ hqn hq'.1
            · cases rtl <;> simp [bump, stopPos] at ha hst ⊢ <;> omega
            · intro p hp
              by_cases hpq : p = (finder pos).2
              · rw [hpq]; exact hq
              · cases rtl
                · simp only [Bool.false_eq_true, if_false, bump, stopPos] at ha hp hst
                  exact ha.2.2 p (by omega) (by omega)
                · simp only [if_true, bump, stopPos] at ha hp hst
                  exact ha.2 p (by omega) (by omega)

/-- **Acceleration is transparent** (model-level content of C03). With a sound candidate finder,
    sound bump-along and a sound minimum length, `Runner.scan` started at `start` with previous match
    length `prevLen` returns exactly the result of the naive scan — an attempt at every position in
    scan order from `start` (one further when `prevLen = 0`) — and resumes at the match's end in
    scan direction. -/
theorem scan_eq_naive (finder : Nat → Bool × Nat) (after : Nat → Nat) (attempt : Nat → Option (Nat × Nat))
    (rtl : Bool) (n L : Nat)
    (hS : AttemptShape rtl n attempt) (hF : FinderSound rtl n finder attempt)
    (hA : AfterSound rtl n after attempt) (hM : MinLenSound rtl n L attempt)
    (start : Nat) (prevLen : Int) (hstart : start ≤ n) :
    scan finder after attempt start prevLen rtl n L = (naive attempt start prevLen rtl n).map (Hit.ofSpan rtl) := by
  have key := scanLoop_eq_naiveFrom finder after attempt rtl n L hS hF hA hM (n + 1)
  unfold scan naive
  by_cases hp : prevLen = 0
  · simp only [hp, if_true]
    by_cases hs : start = stopPos rtl n
    · simp [hs]
    · simp only [hs, if_false]
      rw [key]
      · cases rtl <;> simp [bump, stopPos] at hs ⊢ <;> omega
      · cases rtl <;> simp [bump, dist, stopPos] at hs ⊢ <;> omega
  · simp only [hp, if_false]
    rw [key _ hstart]
    cases rtl <;> simp [dist] <;> omega

/-- where the naive scan's hit lies: at a scan position at or after `start`, one further after an
    empty previous match -/
theorem naive_eq_some (attempt : Nat → Option (Nat × Nat)) (rtl : Bool) (n start : Nat) (prevLen : Int)
    (m : Nat × Nat) (hstart : start ≤ n) (h : naive attempt start prevLen rtl n = some m) :
    ∃ p, p ≤ n ∧ attempt p = some m ∧
      (if rtl then p + (if prevLen = 0 then 1 else 0) ≤ start else start + (if prevLen = 0 then 1 else 0) ≤ p) := by
  unfold naive at h
  by_cases hp : prevLen = 0
  · simp only [hp, if_true] at h ⊢
    by_cases hs : start = stopPos rtl n
    · simp [hs] at h
    · simp only [hs, if_false] at h
      obtain ⟨p, hmem, hm⟩ := naiveFrom_eq_some attempt rtl n _ m h
      rw [mem_scanOrder] at hmem
      refine ⟨p, ?_, hm, ?_⟩
      · cases rtl <;> simp [bump, stopPos] at hmem hs <;> omega
      · cases rtl <;> simp [bump, stopPos] at hmem hs ⊢ <;> omega
  · simp only [hp, if_false] at h ⊢
    obtain ⟨p, hmem, hm⟩ := naiveFrom_eq_some attempt rtl n _ m h
    rw [mem_scanOrder] at hmem
    refine ⟨p, ?_, hm, ?_⟩
    · cases rtl <;> simp at hmem <;> omega
    · cases rtl <;> simp at hmem ⊢ <;> omega

/-! ### one step of the iteration -/

theorem valid_textpos_le {rtl : Bool} {n : Nat} {h : Hit} (hv : h.Valid rtl n) : h.textpos ≤ n := by
  obtain ⟨h1, h2⟩ := hv
  rw [h2]; cases rtl <;> simp [scanEnd] <;> omega

/-- `scanAt` through the naive scan -/
theorem scanAt_eq_naive (E : Engine) (rtl : Bool) (n : Nat) (hE : E.Sound rtl n) (start : Nat) (prevLen : Int)
    (hstart : start ≤ n) :
    scanAt E rtl n start prevLen = (naive (E.attempt start) start prevLen rtl n).map (Hit.ofSpan rtl) :=
  scan_eq_naive _ _ _ rtl n _ (hE.shape start hstart) (hE.finder start hstart) (hE.after start hstart)
    (hE.minLen start hstart) start prevLen hstart

/-- what one scan returns: a valid hit whose scan-direction start is at or after `start`, one further
    when the previous match was empty -/
theorem scanAt_spec (E : Engine) (rtl : Bool) (n : Nat) (hE : E.Sound rtl n) (start : Nat) (prevLen : Int)
    (hstart : start ≤ n) (h : Hit) (hh : scanAt E rtl n start prevLen = some h) :
    h.Valid rtl n ∧
      (if rtl then scanStart rtl h.span + (if prevLen = 0 then 1 else 0) ≤ start
       else start + (if prevLen = 0 then 1 else 0) ≤ scanStart rtl h.span) := by
  rw [scanAt_eq_naive E rtl n hE start prevLen hstart] at hh
  cases hn : naive (E.attempt start) start prevLen rtl n with
  | none => simp [hn] at hh
  | some m =>
    simp only [hn, Option.map_some, Option.some.injEq] at hh
    obtain ⟨p, hpn, hm, hpos⟩ := naive_eq_some _ rtl n start prevLen m hstart hn
    obtain ⟨i, l⟩ := m
    have hs := hE.shape start hstart p i l hpn hm
    subst hh
    constructor
    · constructor
      · cases rtl <;> simp [Hit.ofSpan] at hs ⊢ <;> omega
      · simp [Hit.ofSpan]
    · cases rtl <;> simp [Hit.ofSpan, Hit.span, scanStart] at hs hpos ⊢ <;> omega

/-- scan positions strictly ahead of the start of `h` -/
def ahead (rtl : Bool) (n : Nat) (h : Hit) : Nat := dist rtl n (scanStart rtl h.span)

theorem before_trans {rtl : Bool} {a b c : Hit} (h1 : a.Before rtl b) (h2 : b.Before rtl c) : a.Before rtl c := by
  cases rtl <;> simp [Hit.Before] at h1 h2 ⊢ <;> omega

theorem before_span_ne {rtl : Bool} {a b : Hit} (h : a.Before rtl b) : a.span ≠ b.span := by
  intro he
  simp only [Hit.span, Prod.mk.injEq] at he
  cases rtl <;> simp [Hit.Before] at h <;> omega

/-- FindNextMatch: the next match is valid, starts strictly later in scan order and does not overlap -/
theorem nextMatch_spec (E : Engine) (rtl : Bool) (n : Nat) (hE : E.Sound rtl n) (m m' : Hit)
    (hv : m.Valid rtl n) (h : nextMatch E rtl n m = some m') : m'.Valid rtl n ∧ m.Before rtl m' := by
  obtain ⟨hv', hpos⟩ := scanAt_spec E rtl n hE m.textpos (m.len : Int) (valid_textpos_le hv) m' h
  refine ⟨hv', ?_⟩
  obtain ⟨h1, h2⟩ := hv
  obtain ⟨h1', _⟩ := hv'
  rw [h2] at hpos
  cases rtl
  · simp only [Bool.false_eq_true, if_false, scanStart, scanEnd, Hit.span, Hit.Before] at hpos ⊢
    by_cases hl : m.len = 0
    · simp [hl] at hpos ⊢; omega
    · simp [hl] at hpos; omega
  · simp only [if_true, scanStart, scanEnd, Hit.span, Hit.Before] at hpos ⊢
    by_cases hl : m.len = 0
    · simp [hl] at hpos ⊢; omega
    · simp [hl] at hpos; omega

theorem ahead_lt_of_before {rtl : Bool} {n : Nat} {m m' : Hit} (hv' : m'.Valid rtl n) (hb : m.Before rtl m') :
    ahead rtl n m' < ahead rtl n m := by
  obtain ⟨h1', _⟩ := hv'
  cases rtl <;> simp [Hit.Before, ahead, dist, scanStart, Hit.span] at hb ⊢ <;> omega

theorem iterFrom_none (E : Engine) (rtl : Bool) (n fuel : Nat) : iterFrom E rtl n fuel none = [] := by
  cases fuel <;> rfl

/-- the iteration from a valid match: every element is valid, later elements lie after earlier ones,
    and there are at most as many as scan positions from the first start on -/
theorem iterFrom_spec (E : Engine) (rtl : Bool) (n : Nat) (hE : E.Sound rtl n) :
    ∀ (fuel : Nat) (m : Hit), m.Valid rtl n →
      (∀ x, x ∈ iterFrom E rtl n fuel (some m) → x.Valid rtl n ∧ (x = m ∨ m.Before rtl x)) ∧
      (iterFrom E rtl n fuel (some m)).Pairwise (Hit.Before rtl) ∧
      (iterFrom E rtl n fuel (some m)).length ≤ ahead rtl n m + 1 := by
  intro fuel
  induction fuel with
  | zero => intro m _; simp [iterFrom]
  | succ fuel ih =>
    intro m hv
    rw [iterFrom]
    cases hnext : nextMatch E rtl n m with
    | none =>
      rw [iterFrom_none]
      refine ⟨?_, by simp, by simp⟩
      intro x hx
      simp only [List.mem_singleton] at hx
      subst hx
      exact ⟨hv, Or.inl rfl⟩
    | some m' =>
      obtain ⟨hv', hb⟩ := nextMatch_spec E rtl n hE m m' hv hnext
      obtain ⟨ih1, ih2, ih3⟩ := ih m' hv'
      have hall : ∀ x, x ∈ iterFrom E rtl n fuel (some m') → m.Before rtl x := by
        intro x hx
        rcases (ih1 x hx).2 with h | h
        · rw [h]; exact hb
        · exact before_trans hb h
      refine ⟨?_, ?_, ?_⟩
      · intro x hx
        simp only [List.mem_cons] at hx
        rcases hx with h | h
        · subst h; exact ⟨hv, Or.inl rfl⟩
        · exact ⟨(ih1 x h).1, Or.inr (hall x h)⟩
      · exact List.pairwise_cons.mpr ⟨hall, ih2⟩
      · have := ahead_lt_of_before hv' hb
        simp only [List.length_cons]
        omega

/-- more fuel than scan positions ahead changes nothing: the iteration has reached `nil` -/
theorem iterFrom_fuel (E : Engine) (rtl : Bool) (n : Nat) (hE : E.Sound rtl n) :
    ∀ (f f' : Nat) (m : Hit), m.Valid rtl n → ahead rtl n m < f → ahead rtl n m < f' →
      iterFrom E rtl n f (some m) = iterFrom E rtl n f' (some m) := by
  intro f
  induction f with
  | zero => intro f' m _ h; omega
  | succ f ih =>
    intro f' m hv hf hf'
    obtain ⟨g, rfl⟩ : ∃ g, f' = g + 1 := ⟨f' - 1, by omega⟩
    rw [iterFrom, iterFrom]
    cases hnext : nextMatch E rtl n m with
    | none => rw [iterFrom_none, iterFrom_none]
    | some m' =>
      obtain ⟨hv', hb⟩ := nextMatch_spec E rtl n hE m m' hv hnext
      have := ahead_lt_of_before hv' hb
      rw [ih g m' hv' (by omega) (by omega)]

theorem firstStart_le (rtl : Bool) (n : Nat) : firstStart rtl n ≤ n := by
  cases rtl <;> simp [firstStart]

theorem firstMatch_valid (E : Engine) (rtl : Bool) (n : Nat) (hE : E.Sound rtl n) (m : Hit)
    (h : firstMatch E rtl n = some m) : m.Valid rtl n :=
  (scanAt_spec E rtl n hE _ _ (firstStart_le rtl n) m h).1

theorem ahead_le (rtl : Bool) (n : Nat) (m : Hit) (hv : m.Valid rtl n) : ahead rtl n m ≤ n := by
  obtain ⟨h1, _⟩ := hv
  cases rtl <;> simp [ahead, dist, scanStart, Hit.span] <;> omega

/-! ### the find-all loops against the specification -/

theorem takeK_nil {α : Type} (k : Int) : takeK k ([] : List α) = [] := by
  unfold takeK; split <;> simp

theorem takeK_zero {α : Type} (l : List α) : takeK 0 l = [] := by
  simp [takeK]

theorem takeK_cons {α : Type} (k : Int) (x : α) (xs : List α) (hk : k ≠ 0) :
    takeK k (x :: xs) = x :: takeK (if k > 0 then k - 1 else k) xs := by
  unfold takeK
  by_cases h : k < 0
  · have : ¬ (k > 0) := by omega
    simp [h, this]
  · have hpos : k > 0 := by omega
    have h1 : ¬ (k - 1 < 0) := by omega
    have h2 : k.toNat = (k - 1).toNat + 1 := by omega
    simp only [h, hpos, h1, if_true, if_false]
    rw [h2, List.take_succ_cons]

theorem prevEndOf_of_dropped (rtl : Bool) (prev : Option Hit) (m : Hit)
    (h : m.len = 0 ∧ (m.index : Int) = prevEndOf rtl prev) : prevEndOf rtl prev = prevEndOf rtl (some m) := by
  obtain ⟨h1, h2⟩ := h
  rw [← h2]
  cases rtl <;> simp [prevEndOf, keptEnd, h1]

/-- `findAllRunesIndex` walks the FindNextMatch sequence in lock-step -/
theorem findAllLoop_eq (E : Engine) (rtl : Bool) (n : Nat) :
    ∀ (fuel start : Nat) (prevLen : Int) (prev : Option Hit) (k : Int),
      findAllLoop E rtl n fuel start prevLen (prevEndOf rtl prev) k =
        (takeK k (keepNonAdjacent rtl prev (iterFrom E rtl n fuel (scanAt E rtl n start prevLen)))).map
          fun m => (m.index, m.index + m.len) := by
  intro fuel
  induction fuel with
  | zero => intro start prevLen prev k; simp [findAllLoop, iterFrom, keepNonAdjacent, takeK_nil]
  | succ fuel ih =>
    intro start prevLen prev k
    rw [findAllLoop]
    by_cases hk : k = 0
    · simp [hk, takeK_zero]
    · rw [if_neg hk]
      cases hs : scanAt E rtl n start prevLen with
      | none => simp [iterFrom, keepNonAdjacent, takeK_nil]
      | some m =>
        simp only [iterFrom, keepNonAdjacent]
        by_cases hd : m.len = 0 ∧ (m.index : Int) = prevEndOf rtl prev
        · have hgo : ¬ (m.len ≠ 0 ∨ (m.index : Int) ≠ prevEndOf rtl prev) := by
            intro h; rcases h with h | h
            · exact h hd.1
            · exact h hd.2
          rw [if_neg hgo, if_pos hd, prevEndOf_of_dropped rtl prev m hd, ih]
          rfl
        · have hgo : m.len ≠ 0 ∨ (m.index : Int) ≠ prevEndOf rtl prev := by
            by_cases h1 : m.len = 0
            · right; intro h2; exact hd ⟨h1, h2⟩
            · left; exact h1
          rw [if_pos hgo, if_neg hd, takeK_cons _ _ _ hk]
          have : keptEnd rtl m = prevEndOf rtl (some m) := rfl
          rw [this, ih]
          rfl

/-- `forEachStringMatch` walks the FindNextMatch sequence in lock-step -/
theorem compatLoop_eq (E : Engine) (rtl : Bool) (n : Nat) :
    ∀ (fuel : Nat) (cur : Option Hit) (prev : Option Hit) (k : Int),
      compatLoop E rtl n fuel cur (prevEndOf rtl prev) k =
        takeK k (keepNonAdjacent rtl prev (iterFrom E rtl n fuel cur)) := by
  intro fuel
  induction fuel with
  | zero => intro cur prev k; simp [compatLoop, iterFrom, keepNonAdjacent, takeK_nil]
  | succ fuel ih =>
    intro cur prev k
    cases cur with
    | none => simp [compatLoop, iterFrom, keepNonAdjacent, takeK_nil]
    | some m =>
      rw [compatLoop]
      by_cases hk : k = 0
      · simp [hk, takeK_zero]
      · rw [if_neg hk]
        simp only [iterFrom, keepNonAdjacent]
        by_cases hd : m.len = 0 ∧ (m.index : Int) = prevEndOf rtl prev
        · have hgo : ¬ (m.len ≠ 0 ∨ (m.index : Int) ≠ prevEndOf rtl prev) := by
            intro h; rcases h with h | h
            · exact h hd.1
            · exact h hd.2
          rw [if_neg hgo, if_pos hd, prevEndOf_of_dropped rtl prev m hd, ih]
        · have hgo : m.len ≠ 0 ∨ (m.index : Int) ≠ prevEndOf rtl prev := by
            by_cases h1 : m.len = 0
            · right; intro h2; exact hd ⟨h1, h2⟩
            · left; exact h1
          rw [if_pos hgo, if_neg hd, takeK_cons _ _ _ hk]
          have hke : keptEnd rtl m = prevEndOf rtl (some m) := rfl
          by_cases hpos : k > 0
          · rw [if_pos hpos, if_pos hpos]
            by_cases h1 : k - 1 = 0
            · rw [if_pos h1, h1, takeK_zero]
            · rw [if_neg h1, hke, ih]
          · rw [if_neg hpos, if_neg hpos, hke, ih]

theorem findAll_eq_spec (E : Engine) (rtl : Bool) (n : Nat) (k : Int) :
    findAll E rtl n k = findAllSpec rtl k (iterate E rtl n) := by
  unfold findAll findAllSpec iterate firstMatch
  by_cases hk : k = 0
  · simp [hk, takeK_zero]
  · rw [if_neg hk]
    have := findAllLoop_eq E rtl n (n + 2) (firstStart rtl n) (-1) none k
    simp only [prevEndOf] at this
    rw [this]
    simp

theorem compatAll_eq_spec (E : Engine) (rtl : Bool) (n : Nat) (k : Int) :
    compatAll E rtl n k = findAllSpec rtl k (iterate E rtl n) := by
  unfold compatAll findAllSpec compatForEach iterate
  by_cases hk : k = 0
  · simp [hk, takeK_zero]
  · rw [if_neg hk]
    have := compatLoop_eq E rtl n (n + 2) (firstMatch E rtl n) none k
    simp only [prevEndOf] at this
    rw [this]
    simp

/-! ### Go's `allMatches` against the same specification (left-to-right, `\G`-free) -/

/-- the hit of the naive left-to-right scan from `pos` -/
def hitFrom (attempt : Nat → Option (Nat × Nat)) (n pos : Nat) : Option Hit :=
  (naiveFrom attempt false n pos).map (Hit.ofSpan false)

theorem naiveFrom_beyond (attempt : Nat → Option (Nat × Nat)) (n pos : Nat) (h : n < pos) :
    naiveFrom attempt false n pos = none := by
  apply naiveFrom_eq_none
  intro p hp
  rw [mem_scanOrder] at hp
  simp at hp; omega

theorem naiveFrom_ltr_spec (attempt : Nat → Option (Nat × Nat)) (n pos s l : Nat)
    (hS : AttemptShape false n attempt) (h : naiveFrom attempt false n pos = some (s, l)) :
    pos ≤ s ∧ s + l ≤ n ∧ naiveFrom attempt false n s = some (s, l) := by
  obtain ⟨p, hmem, hm⟩ := naiveFrom_eq_some attempt false n pos (s, l) h
  rw [mem_scanOrder] at hmem
  simp only [Bool.false_eq_true, if_false] at hmem
  have hs := hS p s l hmem.2 hm
  simp only [Bool.false_eq_true, if_false] at hs
  obtain ⟨rfl, hle⟩ := hs
  refine ⟨hmem.1, hle, ?_⟩
  rw [naiveFrom_step attempt false n s hmem.2, hm]

/-- for a `\G`-free left-to-right matcher a scan is the naive scan from `start`, one further after an
    empty previous match -/
theorem scanAt_ltr (E : Engine) (n : Nat) (hE : E.Sound false n) (attempt : Nat → Option (Nat × Nat))
    (hG : ∀ ts, E.attempt ts = attempt) (start : Nat) (prevLen : Int) (hstart : start ≤ n) :
    scanAt E false n start prevLen = hitFrom attempt n (start + (if prevLen = 0 then 1 else 0)) := by
  rw [scanAt_eq_naive E false n hE start prevLen hstart, hG]
  unfold naive hitFrom
  by_cases hp : prevLen = 0
  · simp only [hp, if_true, stopPos, Bool.false_eq_true, if_false, bump]
    by_cases hs : start = n
    · subst hs
      rw [naiveFrom_beyond attempt start (start + 1) (by omega)]
      simp
    · simp [hs]
  · simp [hp]

/-- the limit counter of the adapter (`k`, negative = unlimited) against the standard library's
    (`i < cap`, `cap = len+1` when unlimited) -/
def CntRel (n cap i pos : Nat) (k : Int) : Prop :=
  (0 ≤ k ∧ (cap : Int) - (i : Int) = k) ∨ (k < 0 ∧ n + 1 - pos ≤ cap - i)

/-! one step of each loop, as rewriting rules -/

theorem keepNonAdjacent_drop (rtl : Bool) (prev : Option Hit) (m : Hit) (rest : List Hit)
    (h : m.len = 0 ∧ (m.index : Int) = prevEndOf rtl prev) :
    keepNonAdjacent rtl prev (m :: rest) = keepNonAdjacent rtl (some m) rest := by
  rw [keepNonAdjacent, if_pos h]

theorem keepNonAdjacent_keep (rtl : Bool) (prev : Option Hit) (m : Hit) (rest : List Hit)
    (h : ¬ (m.len = 0 ∧ (m.index : Int) = prevEndOf rtl prev)) :
    keepNonAdjacent rtl prev (m :: rest) = m :: keepNonAdjacent rtl (some m) rest := by
  rw [keepNonAdjacent, if_neg h]

theorem stdLoop_stop (ff : Nat → Option (Nat × Nat)) (n cap g pos i : Nat) (pe : Int)
    (h : ¬ (i < cap ∧ pos ≤ n)) : stdLoop ff n cap g pos i pe = [] := by
  cases g with
  | zero => rfl
  | succ g => rw [stdLoop, if_neg h]

theorem stdLoop_none (ff : Nat → Option (Nat × Nat)) (n cap g pos i : Nat) (pe : Int)
    (h : ff pos = none) : stdLoop ff n cap g pos i pe = [] := by
  cases g with
  | zero => rfl
  | succ g => rw [stdLoop, h]; simp

theorem stdLoop_empty_adjacent (ff : Nat → Option (Nat × Nat)) (n cap g pos i : Nat) (pe : Int)
    (hi : i < cap) (hpos : pos ≤ n) (h : ff pos = some (pos, pos)) (hadj : (pos : Int) = pe) :
    stdLoop ff n cap (g + 1) pos i pe = stdLoop ff n cap g (pos + 1) i (pos : Int) := by
  have hpos' : (if pos < n then pos + 1 else n + 1) = pos + 1 := by split <;> omega
  rw [stdLoop, if_pos ⟨hi, hpos⟩, h]
  simp only [if_true, hpos', hadj]

theorem stdLoop_empty_new (ff : Nat → Option (Nat × Nat)) (n cap g pos i : Nat) (pe : Int)
    (hi : i < cap) (hpos : pos ≤ n) (h : ff pos = some (pos, pos)) (hadj : (pos : Int) ≠ pe) :
    stdLoop ff n cap (g + 1) pos i pe = (pos, pos) :: stdLoop ff n cap g (pos + 1) (i + 1) (pos : Int) := by
  have hpos' : (if pos < n then pos + 1 else n + 1) = pos + 1 := by split <;> omega
  rw [stdLoop, if_pos ⟨hi, hpos⟩, h]
  simp only [if_true, hpos', hadj, if_false]

theorem stdLoop_other (ff : Nat → Option (Nat × Nat)) (n cap g pos i s e : Nat) (pe : Int)
    (hi : i < cap) (hpos : pos ≤ n) (h : ff pos = some (s, e)) (he : e ≠ pos) :
    stdLoop ff n cap (g + 1) pos i pe = (s, e) :: stdLoop ff n cap g e (i + 1) (e : Int) := by
  rw [stdLoop, if_pos ⟨hi, hpos⟩, h]
  simp only [he, if_false]

theorem iterFrom_hit (E : Engine) (n : Nat) (hE : E.Sound false n) (attempt : Nat → Option (Nat × Nat))
    (hG : ∀ ts, E.attempt ts = attempt) (f pos s l : Nat) (hsl : s + l ≤ n)
    (hn : naiveFrom attempt false n pos = some (s, l)) :
    iterFrom E false n (f + 1) (hitFrom attempt n pos) =
      ⟨s, l, s + l⟩ :: iterFrom E false n f (hitFrom attempt n (s + l + (if l = 0 then 1 else 0))) := by
  have hnext : nextMatch E false n ⟨s, l, s + l⟩ = hitFrom attempt n (s + l + (if l = 0 then 1 else 0)) := by
    unfold nextMatch
    rw [scanAt_ltr E n hE attempt hG (s + l) _ hsl]
    by_cases hl : l = 0
    · simp [hl]
    · simp [hl]
  simp only [hitFrom, hn, Option.map_some, Hit.ofSpan, scanEnd, Bool.false_eq_true, if_false, iterFrom]
  rw [hnext]; rfl

theorem prevEndOf_ltr (a b c : Nat) : prevEndOf false (some ⟨a, b, c⟩) = ((a + b : Nat) : Int) := rfl

theorem cntRel_deliver {n cap i pos : Nat} {k : Int} (h : CntRel n cap i pos k) (hi : i < cap) (hpos : pos ≤ n)
    (pos' : Nat) (hp : pos < pos') : CntRel n cap (i + 1) pos' (if k > 0 then k - 1 else k) := by
  rcases h with h | h
  · left; have : k > 0 := by omega
    simp only [this, if_true]; omega
  · right; have : ¬ (k > 0) := by omega
    simp only [this, if_false]; exact ⟨h.1, by omega⟩

theorem cntRel_skip {n cap i pos : Nat} {k : Int} (h : CntRel n cap i pos k) (pos' : Nat) (hp : pos ≤ pos') :
    CntRel n cap i pos' k := by
  rcases h with h | h
  · exact Or.inl h
  · exact Or.inr ⟨h.1, by omega⟩

/-- The standard library's `allMatches` loop, run on "leftmost match at or after pos" of a
    left-to-right `\\G`-free matcher, delivers the FindNextMatch sequence minus adjacent empty matches,
    truncated — the same specification the regexp2 loops meet. (An empty match found beyond `pos` is
    delivered, then found again at its own position and ignored there; the regexp2 iteration finds it
    once.) -/
theorem stdLoop_eq (attempt : Nat → Option (Nat × Nat)) (n : Nat) (hS : AttemptShape false n attempt)
    (E : Engine) (hE : E.Sound false n) (hG : ∀ ts, E.attempt ts = attempt) (cap : Nat) :
    ∀ (d pos f g i : Nat) (prev : Option Hit) (k : Int),
      n + 1 - pos ≤ d → d < f → d < g → prevEndOf false prev ≤ (pos : Int) → CntRel n cap i pos k →
      stdLoop (findFromOf attempt n) n cap g pos i (prevEndOf false prev) =
        (takeK k (keepNonAdjacent false prev (iterFrom E false n f (hitFrom attempt n pos)))).map
          fun m => (m.index, m.index + m.len) := by
  -- beyond the input both sides are empty
  have beyond : ∀ (pos f g i : Nat) (prev : Option Hit) (k : Int), n < pos →
      stdLoop (findFromOf attempt n) n cap g pos i (prevEndOf false prev) =
        (takeK k (keepNonAdjacent false prev (iterFrom E false n f (hitFrom attempt n pos)))).map
          fun m => (m.index, m.index + m.len) := by
    intro pos f g i prev k hpos
    rw [stdLoop_stop _ _ _ _ _ _ _ (by omega)]
    simp [hitFrom, naiveFrom_beyond attempt n pos hpos, iterFrom_none, keepNonAdjacent, takeK_nil]
  intro d
  induction d with
  | zero =>
    intro pos f g i prev k hd _ _ _ _
    exact beyond pos f g i prev k (by omega)
  | succ d ih =>
    intro pos f g i prev k hd hf hg hpe hcnt
    by_cases hpos : pos ≤ n
    case neg => exact beyond pos f g i prev k (by omega)
    obtain ⟨g', rfl⟩ : ∃ g', g = g' + 1 := ⟨g - 1, by omega⟩
    obtain ⟨f', rfl⟩ : ∃ f', f = f' + 1 := ⟨f - 1, by omega⟩
    by_cases hi : i < cap
    case neg =>
      have hk : k = 0 := by
        rcases hcnt with h | h
        · omega
        · omega
      rw [stdLoop_stop _ _ _ _ _ _ _ (fun h => hi h.1), hk, takeK_zero]; rfl
    have hk : k ≠ 0 := by
      rcases hcnt with h | h
      · omega
      · omega
    cases hn : naiveFrom attempt false n pos with
    | none =>
      rw [stdLoop_none _ _ _ _ _ _ _ (by simp [findFromOf, hn])]
      simp [hitFrom, hn, iterFrom_none, keepNonAdjacent, takeK_nil]
    | some m =>
      obtain ⟨s, l⟩ := m
      obtain ⟨hps, hsl, hns⟩ := naiveFrom_ltr_spec attempt n pos s l hS hn
      have hff : findFromOf attempt n pos = some (s, s + l) := by simp [findFromOf, hn]
      rw [iterFrom_hit E n hE attempt hG f' pos s l hsl hn]
      by_cases he : s + l = pos
      · -- an empty match at pos
        have hl : l = 0 := by omega
        subst hl
        have hs : s = pos := by omega
        subst hs
        simp only [if_true, Nat.add_zero] at hff ⊢
        by_cases hadj : ((s : Nat) : Int) = prevEndOf false prev
        · -- right after the previous match: ignored by both
          rw [stdLoop_empty_adjacent _ _ _ _ _ _ _ hi hpos hff hadj,
            keepNonAdjacent_drop false prev ⟨s, 0, s⟩ _ ⟨rfl, hadj⟩]
          have h1 := ih (s + 1) f' g' i (some ⟨s, 0, s⟩) k (by omega) (by omega) (by omega)
            (by rw [prevEndOf_ltr]; omega) (cntRel_skip hcnt _ (by omega))
          rw [prevEndOf_ltr] at h1
          exact h1
        · rw [stdLoop_empty_new _ _ _ _ _ _ _ hi hpos hff hadj,
            keepNonAdjacent_keep false prev ⟨s, 0, s⟩ _ (fun h => hadj h.2), takeK_cons _ _ _ hk]
          have h1 := ih (s + 1) f' g' (i + 1) (some ⟨s, 0, s⟩) (if k > 0 then k - 1 else k) (by omega) (by omega) (by omega)
            (by rw [prevEndOf_ltr]; omega) (cntRel_deliver hcnt hi hpos _ (by omega))
          rw [prevEndOf_ltr] at h1
          simp only [List.map_cons, Nat.add_zero] at h1 ⊢
          rw [h1]
      · -- a match that ends after pos (an empty one then lies after pos)
        have hkeep : ¬ ((⟨s, l, s + l⟩ : Hit).len = 0 ∧ (((⟨s, l, s + l⟩ : Hit).index : Nat) : Int) = prevEndOf false prev) := by
          intro h
          have h1 : l = 0 := h.1
          have h2 : ((s : Nat) : Int) = prevEndOf false prev := h.2
          omega
        rw [stdLoop_other _ _ _ _ _ _ _ _ _ hi hpos hff he,
          keepNonAdjacent_keep false prev ⟨s, l, s + l⟩ _ hkeep, takeK_cons _ _ _ hk]
        simp only [List.map_cons]
        by_cases hl : l = 0
        · -- empty match at s > pos: the standard library finds it again at s and ignores it there
          subst hl
          simp only [if_true, Nat.add_zero] at hns ⊢
          have h1 := ih s (f' + 1) g' (i + 1) (some ⟨s, 0, s⟩) (if k > 0 then k - 1 else k) (by omega) (by omega) (by omega)
            (by rw [prevEndOf_ltr]; omega) (cntRel_deliver hcnt hi hpos _ (by omega))
          rw [iterFrom_hit E n hE attempt hG f' s s 0 (by omega) hns,
            keepNonAdjacent_drop false (some ⟨s, 0, s⟩) ⟨s, 0, s + 0⟩ _ ⟨rfl, by simp [prevEndOf, keptEnd]⟩] at h1
          rw [prevEndOf_ltr] at h1
          simp only [if_true, Nat.add_zero] at h1
          rw [h1]
        · simp only [hl, if_false, Nat.add_zero]
          have h1 := ih (s + l) f' g' (i + 1) (some ⟨s, l, s + l⟩) (if k > 0 then k - 1 else k) (by omega) (by omega) (by omega)
            (by rw [prevEndOf_ltr]; omega) (cntRel_deliver hcnt hi hpos _ (by omega))
          rw [prevEndOf_ltr] at h1
          rw [h1]

/-! ### concrete instances used by the `example`s of the property files: the tables of `a*` on "baa" -/

/-- left-to-right `a*` on "baa": attempt at 0 ↦ empty, at 1 ↦ "aa", at 2 ↦ "a", at 3 ↦ empty -/
def exL : Nat → Option (Nat × Nat)
  | 0 => some (0, 0) | 1 => some (1, 2) | 2 => some (2, 1) | 3 => some (3, 0) | _ => none

/-- right-to-left `a*` on "baa", indexed by the position the attempt starts at (the match's end) -/
def exR : Nat → Option (Nat × Nat)
  | 3 => some (1, 2) | 2 => some (1, 1) | 1 => some (1, 0) | 0 => some (0, 0) | _ => none

def exEngine (att : Nat → Option (Nat × Nat)) : Engine :=
  { finder := fun _ pos => (true, pos), after := fun _ q => q, attempt := fun _ => att, minLen := 0 }

theorem exEngine_sound (rtl : Bool) (n : Nat) (att : Nat → Option (Nat × Nat)) (h : AttemptShape rtl n att) :
    (exEngine att).Sound rtl n where
  shape := fun _ _ => h
  finder := by
    intro ts _ pos hpos
    cases rtl
    · exact ⟨Nat.le_refl _, hpos, fun _ p h1 h2 => absurd h2 (by simp [exEngine]; omega), fun h => by simp [exEngine] at h⟩
    · exact ⟨Nat.le_refl _, fun _ p h1 h2 => absurd h1 (by simp [exEngine]; omega), fun h => by simp [exEngine] at h⟩
  after := by
    intro ts _ q hq _
    cases rtl
    · exact ⟨Nat.le_refl _, hq, fun p h1 h2 => absurd h2 (by simp [exEngine]; omega)⟩
    · exact ⟨Nat.le_refl _, fun p h1 h2 => absurd h1 (by simp [exEngine]; omega)⟩
  minLen := by intro ts _ p i l _ _; simp [exEngine]

theorem exL_shape : AttemptShape false 3 exL := by
  intro p i l hp h
  match p, hp, h with
  | 0, _, h | 1, _, h | 2, _, h | 3, _, h => simp [exL] at h; simp; omega

theorem exR_shape : AttemptShape true 3 exR := by
  intro p i l hp h
  match p, hp, h with
  | 0, _, h | 1, _, h | 2, _, h | 3, _, h => simp [exR] at h; simp; omega

end RegexVerif.Lemmas.Scan
