/-
Joint J1, last part: `reduce`, `elim`, `finalOptimize`, `reduceRoot` keep `capN`; `toGo` turns `capN` into
`Writer.capsOk`.  See `Lemmas/ReduceCaps.lean`.
-/
import RegexVerif.Lemmas.ReduceCaps3

namespace RegexVerif.Reduce
open RegexVerif
open RegexVerif.RewriteDecisions (RNode CP LK)

section
variable (sl : Int → Bool)

/-- well-shaped and with good group numbers -/
def OC (x : Node) : Prop := okN x = true ∧ capN sl x = true

theorem capN_stripCi {x : Node} (h : capN sl x = true) : capN sl (stripCi x) = true := by
  unfold stripCi
  split
  · exact h
  · split
    · exact capN_withO sl h (by have := capN_o sl h; omega)
    · exact h

theorem capN_reduceGroup : ∀ (fuel : Nat) (u : Node), capN sl u = true → capN sl (reduceGroup fuel u) = true
  | 0, u, h => by simpa [reduceGroup] using h
  | f + 1, u, h => by
    rw [reduceGroup]
    split
    · split
      · rename_i k rest hk
        exact capN_reduceGroup f k (capN_head sl h hk)
      · exact h
    · exact h

theorem capQ_free {t : Nat} (h : t ≠ 13 ∧ t ≠ 33 ∧ t ≠ 28 ∧ t ≠ 29) (m n : Int) : capQ sl t m n = true :=
  capQ_other sl h.1 h.2.1 h.2.2.1 h.2.2.2 m n

theorem valid_bad (t ct : Nat) (ht : t = 26 ∨ t = 27) (hct : ct = 13 ∨ ct = 33 ∨ ct = 28 ∨ ct = 29) :
    (ct == t ||
      (if t == ntLoop then
         ct == ntOneloop || ct == ntOneloopatomic || ct == ntNotoneloop ||
         ct == ntNotoneloopatomic || ct == ntSetloop || ct == ntSetloopatomic
       else ct == ntOnelazy || ct == ntNotonelazy || ct == ntSetlazy)) = false := by
  rcases ht with ht | ht <;> subst ht <;> rcases hct with h1 | h1 | h1 | h1 <;> subst h1 <;> rfl

theorem capN_repWalk (t : Nat) (ht : t = 26 ∨ t = 27) (mn mx : Int) :
    ∀ (f : Nat) (u : Node), capN sl u = true → capN sl (repWalk t mn mx f u) = true
  | 0, u, h => by simpa [repWalk] using h
  | f + 1, u, h => by
    rw [repWalk]
    split
    · exact h
    · rename_i child rest hk
      have hc := capN_head sl h hk
      by_cases hct : child.t = 13 ∨ child.t = 33 ∨ child.t = 28 ∨ child.t = 29
      · have hv := valid_bad t child.t ht hct
        simp only [hv]
        exact h
      · have hmb : capN sl (repWalk t mn mx f (mulBounds child mn mx)) = true := by
          apply capN_repWalk t ht mn mx f
          unfold mulBounds
          exact capN_withMN sl hc (capQ_free sl (by omega) _ _)
        simp only []
        repeat' split
        all_goals first | exact h | exact hmb

theorem capN_reduceRep (fuel : Nat) {x : Node} (ht : x.t = 26 ∨ x.t = 27) (hx : capN sl x = true) :
    capN sl (reduceRep fuel x) = true := by
  have hgo : capN sl (reduceRep.go fuel x) = true := by
    unfold reduceRep.go
    simp only []
    have hu := capN_repWalk sl x.t ht x.m x.n fuel x hx
    generalize repWalk x.t x.m x.n fuel x = u at hu
    split
    · exact capN_bare sl _ _ (capN_o sl hx) rfl
    · split
      · rename_i child hk
        have hc := capN_head sl hu hk
        split
        · rename_i hct
          simp only [Bool.or_eq_true, beq_iff_eq, ntOne, ntNotone, ntSet] at hct
          generalize (u.t == ntLazyloop) = b
          cases child with
          | mk t o ch str set m n kids =>
            simp only [Node.t] at hct
            simp only [Node.withT, Node.withMN, Node.t]
            apply capN_mk_of sl (capN_o sl hc) _ (capN_kids sl hc)
            apply capQ_free
            cases b <;> simp only [if_true, if_false, Bool.false_eq_true] <;> omega
        · exact hu
      · exact hu
  unfold reduceRep
  split
  · rename_i c hk
    split
    · exact capN_head sl hx hk
    · exact hgo
  · exact hgo

theorem capN_reduceSet {x : Node} (hx : capN sl x = true) (ht : x.t = 11 ∨ x.t = 5 ∨ x.t = 8 ∨ x.t = 45) :
    capN sl (reduceSet x) = true := by
  unfold reduceSet
  split
  · exact capN_withT sl hx (capQ_free sl (by decide) _ _)
  · split
    · exact capN_mk_of sl (capN_o sl hx) (capQ_free sl (by omega) _ _) (capN_kids sl hx)
    · exact capN_mk_of sl (capN_o sl hx) (capQ_free sl (by omega) _ _) (capN_kids sl hx)
    · exact hx

theorem capN_makeLoopAtomic (h0 : sl 0 = true) {x : Node} (hok : okN x = true) (hx : capN sl x = true) :
    capN sl (makeLoopAtomic x) = true := by
  unfold makeLoopAtomic
  split
  · have h := fromR_caps sl _ (capR_makeLoopAtomic sl (toR_caps sl h0 x hok hx))
    generalize fromR (RewriteDecisions.makeLoopAtomic (toR x)) = y at h
    cases y with
    | mk t o ch str set m n ks =>
      exact capN_mk_of sl (capN_o sl hx) (capN_q sl h) (capN_kids sl h)
  · exact hx

theorem capN_innerAtomic : ∀ (f : Nat) (a : Node), capN sl a = true → capN sl (innerAtomic f a) = true
  | 0, a, h => by simpa [innerAtomic] using h
  | f + 1, a, h => by
    rw [innerAtomic]
    split
    · rename_i c hk
      split
      · exact capN_innerAtomic f c (capN_head sl h hk)
      · exact h
    · exact h

theorem capNs_single {x : Node} (h : capN sl x = true) : capNs sl [x] = true := by
  simp [capNs_cons, capNs_nil, h]

theorem capN_onLoopLast (orc : Orc) (cf : Nat) (g : Node → Node)
    (hgo : ∀ x, okN x = true → okN (g x) = true)
    (hg : ∀ x, okN x = true → capN sl x = true → capN sl (g x) = true) :
    ∀ (f : Nat) (body b' : Node), okN body = true → capN sl body = true → onLoopLast orc cf g f body = some b' →
      capN sl b' = true
  | 0, body, b', _, _, h => by simp [onLoopLast] at h
  | f + 1, body, b', hbo, hb, h => by
    rw [onLoopLast] at h
    split at h
    · split at h
      · rename_i k hk
        cases hr : onLoopLast orc cf g f k with
        | none => simp [hr] at h
        | some k' =>
          simp only [hr, Option.map_some, Option.some.injEq] at h
          rw [← h]
          have hk' := capN_onLoopLast orc cf g hgo hg f k k' (okN_head hbo hk) (capN_head sl hb hk) hr
          exact capN_withKids sl hb (capNs_single sl hk')
      · simp at h
    · split at h
      · split at h
        · split at h
          · simp only [Option.some.injEq] at h
            rw [← h]
            exact capN_withKids sl hb (capNs_mapLast' sl g hg _ (okN_kids hbo) (capN_kids sl hb))
          · simp at h
        · simp at h
      · simp at h

theorem capN_atomicWrap {o : Nat} (ho : o < tagBase) {inner : Node} (h : capN sl inner = true) :
    capN sl (.mk ntAtomic o 0 [] none 0 0 [inner]) = true :=
  capN_mk_of sl ho rfl (capNs_single sl h)

set_option maxHeartbeats 1600000 in
theorem reduce_step_caps (h0 : sl 0 = true) (orc : Orc) (on : Bool) (fuel : Nat)
    (ihr : ∀ (pa : Bool) (x : Node), okN x = true → capN sl x = true → capN sl (reduce orc on fuel pa x) = true)
    (ihe : ∀ (pa : Bool) (x : Node), okN x = true → capN sl x = true → capN sl (elim orc on fuel pa x) = true) :
    ∀ (pa : Bool) (x : Node), okN x = true → capN sl x = true → capN sl (reduce orc on (fuel + 1) pa x) = true := by
    have iho := reduce_elim_ok orc on fuel
    have hred : RedCaps sl (fun pa' r => toR (reduce orc on fuel pa' (fromR r))) := fun pa' r hr =>
      toR_caps sl h0 _ (iho.1 _ _ (fromR_ok r)) (ihr _ _ (fromR_ok r) (fromR_caps sl r hr))
    · intro pa x0 ho0 hc0
      have hx : okN (stripCi x0) = true := okN_stripCi ho0
      have hcx : capN sl (stripCi x0) = true := capN_stripCi sl hc0
      rw [reduce]
      simp only []
      generalize stripCi x0 = x at hx hcx
      have hkids := toRs_caps sl h0 x.kids (okN_kids hx) (capN_kids sl hcx)
      have hto := tagQ_of_lt sl (capN_o sl hcx)
      split
      · exact fromR_caps sl _ (capR_reduceAlt sl hred _ _ _ _ _ hto hkids)
      split
      · exact fromR_caps sl _ (capR_reduceCat sl _ _ hto hkids)
      split
      · have hia := okN_innerAtomic (fuel + 1) x hx
        have hiac := capN_innerAtomic sl (fuel + 1) x hcx
        generalize innerAtomic (fuel + 1) x = atomic at hia hiac
        split
        · rename_i child hk
          have hres := capR_reduceAtomic sl hred true on x.rtl (.atomic (toR child))
            (capR_atomic_of sl (toR_caps sl h0 child (okN_head hia hk) (capN_head sl hiac hk)))
          split
          · rename_i c' heq
            rw [heq] at hres
            have hc' := fromR_caps sl c' (atomic_inv sl hres)
            split
            · exact capN_withKids sl hiac (capNs_single sl hc')
            · exact capN_withKids sl hiac (capNs_single sl (ihe true _ (fromR_ok _) hc'))
          · exact fromR_caps sl _ hres
        · exact hcx
      split
      · exact capN_reduceGroup sl _ _ hcx
      split
      · rename_i hl
        apply capN_reduceRep sl _ _ hcx
        simpa [ntLoop, ntLazyloop] using hl
      split
      · have h1o := iho.2 pa x hx
        have h1 := ihe pa x hx hcx
        generalize elim orc on fuel pa x = x1 at h1 h1o
        split
        · split
          · apply capN_mk_of sl (capN_o sl h1) _ (capNs_nil sl)
            apply capQ_free
            split <;> decide
          · exact h1
        · exact h1
      split
      · rename_i hset
        apply capN_reduceSet sl hcx
        simp only [Bool.or_eq_true, beq_iff_eq, ntSet, ntSetloop, ntSetlazy, ntSetloopatomic] at hset
        rcases hset with ((h | h) | h) | h
        · exact Or.inl h
        · exact Or.inr (Or.inl h)
        · exact Or.inr (Or.inr (Or.inl h))
        · exact Or.inr (Or.inr (Or.inr h))
      split
      · have hkx := okN_kids hx
        have hkc := capN_kids sl hcx
        have hks : okNs (if x.kids.length == 2 then x.kids ++ [bareNode ntEmpty x.o] else x.kids) = true ∧
            capNs sl (if x.kids.length == 2 then x.kids ++ [bareNode ntEmpty x.o] else x.kids) = true := by
          split
          · refine ⟨by simp [okNs_append, hkx, okNs_cons, okNs_nil, okN_bare, ntEmpty, shapeOk], ?_⟩
            rw [capNs_append, hkc, capNs_single sl (capN_bare sl _ _ (capN_o sl hcx) rfl)]
            rfl
          · exact ⟨hkx, hkc⟩
        generalize (if x.kids.length == 2 then x.kids ++ [bareNode ntEmpty x.o] else x.kids) = ks at hks
        split
        · rename_i cond rest
          have h1 := hks.1
          have h2 := hks.2
          rw [okNs_cons] at h1
          rw [capNs_cons] at h2
          simp only [Bool.and_eq_true] at h1 h2
          apply capN_withKids sl hcx
          rw [capNs_cons, h2.2, Bool.and_true]
          have hcond : okN (if cond.t == ntPosLook && !cond.rtl then
              match cond.kids with | [c] => reduce orc on fuel false c | _ => cond else cond) = true ∧
              capN sl (if cond.t == ntPosLook && !cond.rtl then
              match cond.kids with | [c] => reduce orc on fuel false c | _ => cond else cond) = true := by
            split
            · split
              · rename_i c hck
                exact ⟨iho.1 false c (okN_head h1.1 hck), ihr false c (okN_head h1.1 hck) (capN_head sl h2.1 hck)⟩
              · exact ⟨h1.1, h2.1⟩
            · exact ⟨h1.1, h2.1⟩
          exact ihe false _ hcond.1 hcond.2
        · exact hcx
      split
      · split
        · apply capN_withKids sl hcx
          rw [capNs_append, capN_kids sl hcx, capNs_single sl (capN_bare sl _ _ (capN_o sl hcx) rfl)]
          rfl
        · exact hcx
      · exact hcx

theorem elim_step_caps (h0 : sl 0 = true) (orc : Orc) (on : Bool) (fuel : Nat)
    (ihr : ∀ (pa : Bool) (x : Node), okN x = true → capN sl x = true → capN sl (reduce orc on fuel pa x) = true)
    (ihe : ∀ (pa : Bool) (x : Node), okN x = true → capN sl x = true → capN sl (elim orc on fuel pa x) = true) :
    ∀ (pa : Bool) (x : Node), okN x = true → capN sl x = true → capN sl (elim orc on (fuel + 1) pa x) = true := by
    have iho := reduce_elim_ok orc on fuel
    · intro pa x hx hcx
      rw [elim]
      split
      · exact hcx
      split
      · exact capN_makeLoopAtomic sl h0 hx hcx
      split
      · split
        · rename_i c hk
          exact capN_withKids sl hcx (capNs_single sl (ihe _ c (okN_head hx hk) (capN_head sl hcx hk)))
        · exact hcx
      split
      · apply capN_withKids sl hcx
        apply capNs_mapLast' sl _ _ _ (okN_kids hx) (capN_kids sl hcx)
        intro existing heo he
        simp only []
        split
        · have hin_o := iho.1 true existing heo
          have hin := ihr true existing heo he
          have hw_o := iho.1 false _ (okN_atomicWrap existing.o hin_o)
          have hw := ihr false _ (okN_atomicWrap existing.o hin_o) (capN_atomicWrap sl (capN_o sl he) hin)
          exact ihe _ _ hw_o hw
        · exact ihe _ _ heo he
      split
      · exact capN_withKids sl hcx (capNs_map' sl _ _ (fun k hko hk => ihe _ k hko hk) (okN_kids hx) (capN_kids sl hcx))
      split
      · exact capN_withKids sl hcx (capNs_mapTail' sl _ (fun k hko hk => ihe _ k hko hk) _ (okN_kids hx) (capN_kids sl hcx))
      split
      · rename_i hl
        have h1o : okN (if x.t == ntLazyloop then x.withMN x.m x.m else x) = true := by
          split
          · exact okN_withMN hx _ _
          · exact hx
        have h1 : capN sl (if x.t == ntLazyloop then x.withMN x.m x.m else x) = true := by
          split
          · rename_i hlz
            apply capN_withMN sl hcx
            apply capQ_free
            have : x.t = 27 := by simpa [ntLazyloop] using hlz
            omega
          · exact hcx
        simp only []
        generalize (if x.t == ntLazyloop then x.withMN x.m x.m else x) = x1 at h1 h1o
        split
        · rename_i body hk
          split
          · exact capN_withKids sl h1 (capNs_single sl (ihe _ body (okN_head h1o hk) (capN_head sl h1 hk)))
          · split
            · rename_i body' hb
              have := capN_onLoopLast sl orc (fuel + 1) _ (fun l hl => iho.2 false l hl) (fun l hlo hl => ihe false l hlo hl)
                (fuel + 1) body body' (okN_head h1o hk) (capN_head sl h1 hk) hb
              exact capN_withKids sl h1 (capNs_single sl this)
            · exact h1
        · exact h1
      · exact hcx

/-- **`reduce()` and `eliminateEndingBacktracking` never invent a group number** -/
theorem reduce_elim_caps (h0 : sl 0 = true) (orc : Orc) (on : Bool) : ∀ (fuel : Nat),
    (∀ (pa : Bool) (x : Node), okN x = true → capN sl x = true → capN sl (reduce orc on fuel pa x) = true) ∧
    (∀ (pa : Bool) (x : Node), okN x = true → capN sl x = true → capN sl (elim orc on fuel pa x) = true)
  | 0 => ⟨fun _ _ _ h => by simpa [reduce] using h, fun _ _ _ h => by simpa [elim] using h⟩
  | fuel + 1 =>
    have ih := reduce_elim_caps h0 orc on fuel
    ⟨reduce_step_caps sl h0 orc on fuel ih.1 ih.2, elim_step_caps sl h0 orc on fuel ih.1 ih.2⟩

theorem capN_processNode (h0 : sl 0 = true) (orc : Orc) (cf : Nat) (sub : Node) (ctx : List Frame) :
    ∀ (f : Nat) (x : Node), okN x = true → capN sl x = true → capN sl (processNode orc cf sub ctx f x) = true
  | 0, x, _, h => by simpa [processNode] using h
  | f + 1, x, hx, hcx => by
    have ih := capN_processNode h0 orc cf sub ctx f
    have iho := okN_processNode orc cf sub ctx f
    rw [processNode]
    split
    · exact capN_withKids sl hcx (capNs_mapLast' sl _ (fun k hko hk => ih k hko hk) _ (okN_kids hx) (capN_kids sl hcx))
    · simp only []
      split
      · rename_i r heq
        split at heq
        · split at heq
          · rename_i body hk
            cases hr : onLoopLast orc cf (fun l => processNode orc cf sub ctx f l) cf body with
            | none => simp [hr] at heq
            | some b =>
              simp only [hr, Option.map_some, Option.some.injEq] at heq
              rw [← heq]
              have hb := capN_onLoopLast sl orc cf _ (fun l hl => iho l hl) (fun l hlo hl => ih l hlo hl) cf body b
                (okN_head hx hk) (capN_head sl hcx hk) hr
              exact capN_withKids sl hcx (capNs_single sl hb)
          · simp at heq
        · simp at heq
      · split
        · split
          · exact capN_makeLoopAtomic sl h0 hx hcx
          · exact hcx
        · split
          · split
            · rename_i hlz _
              have hleaf : shapeOk x.t 0 = true := by
                simp only [Bool.or_eq_true, beq_iff_eq, ntOnelazy, ntNotonelazy, ntSetlazy] at hlz
                rcases hlz with (h | h) | h <;> rw [h] <;> rfl
              have ht3 : shapeOk (x.t - 3) 0 = true := by
                simp only [Bool.or_eq_true, beq_iff_eq, ntOnelazy, ntNotonelazy, ntSetlazy] at hlz
                rcases hlz with (h | h) | h <;> rw [h] <;> rfl
              apply capN_makeLoopAtomic sl h0 (okN_retype hx (kids_nil_of_leaf hx hleaf) _ ht3)
              apply capN_withT sl hcx
              apply capQ_free
              simp only [Bool.or_eq_true, beq_iff_eq, ntOnelazy, ntNotonelazy, ntSetlazy] at hlz
              omega
            · exact hcx
          · split
            · exact capN_withKids sl hcx (capNs_map' sl _ _ (fun k hko hk => ih k hko hk) (okN_kids hx) (capN_kids sl hcx))
            · split
              · exact capN_withKids sl hcx
                  (capNs_mapTail' sl _ (fun k hko hk => ih k hko hk) _ (okN_kids hx) (capN_kids sl hcx))
              · exact hcx

theorem processPairs_caps (h0 : sl 0 = true) (orc : Orc) (cf : Nat) (ctx : List Frame) :
    ∀ (l : List Node), okNs l = true → capNs sl l = true → capNs sl (processPairs orc cf ctx l) = true
  | [], _, _ => by simp [processPairs, capNs_nil]
  | [x], _, h => by simp [processPairs, h]
  | x :: y :: rest, ho, h => by
    rw [okNs_cons] at ho
    rw [capNs_cons] at h
    simp only [Bool.and_eq_true] at h ho
    rw [processPairs, capNs_cons, capN_processNode sl h0 orc cf y _ cf x ho.1 h.1,
      processPairs_caps h0 orc cf ctx (y :: rest) ho.2 h.2]
    rfl

theorem faml_caps (h0 : sl 0 = true) (orc : Orc) (cf : Nat) : ∀ (f : Nat),
    (∀ (ctx : List Frame) (x : Node), okN x = true → capN sl x = true → capN sl (faml orc cf f ctx x) = true) ∧
    (∀ (ctx : List Frame) (t : Nat) (ks : List Node), okNs ks = true → capNs sl ks = true →
      capNs sl (famlKids orc cf f ctx t ks) = true)
  | 0 => ⟨fun _ _ _ h => by simpa [faml] using h, fun _ _ _ _ h => by simp [famlKids, h]⟩
  | f + 1 => by
    have ih := faml_caps h0 orc cf f
    have iho := faml_ok orc cf f
    refine ⟨?_, ?_⟩
    · intro ctx x hx hcx
      rw [faml]
      split
      · exact hcx
      · simp only []
        have hko := iho.2 ctx x.t x.kids (okN_kids hx)
        have hk := ih.2 ctx x.t x.kids (okN_kids hx) (capN_kids sl hcx)
        split
        · exact capN_withKids sl hcx (processPairs_caps sl h0 orc cf ctx _ hko.1 hk)
        · exact capN_withKids sl hcx hk
    · intro ctx t ks hko hks
      cases ks with
      | nil => simp [famlKids, capNs_nil]
      | cons k rest =>
        rw [okNs_cons] at hko
        rw [capNs_cons] at hks
        simp only [Bool.and_eq_true] at hks hko
        rw [famlKids, capNs_cons, ih.1 _ k hko.1 hks.1, ih.2 ctx t rest hko.2 hks.2]
        rfl

theorem capN_placeBump (h0 : sl 0 = true) (fuel : Nat) {x : Node} (hx : okN x = true) (hcx : capN sl x = true) :
    capN sl (placeBump fuel x) = true :=
  fromR_caps sl _ (capR_placeBump sl _ _ _ (toRSpine_caps sl h0 fuel x hx hcx))

theorem capN_finalOptimize (h0 : sl 0 = true) (orc : Orc) (on : Bool) (fuel : Nat) {root : Node} (h : okN root = true)
    (hc : capN sl root = true) : capN sl (finalOptimize orc on fuel root) = true := by
  unfold finalOptimize
  split
  · exact hc
  · simp only []
    have h1o := (faml_ok orc fuel fuel).1 [] root h
    have h1 := (faml_caps sl h0 orc fuel fuel).1 [] root h hc
    have h2o := (reduce_elim_ok orc on fuel).2 false _ h1o
    have h2 := (reduce_elim_caps sl h0 orc on fuel).2 false _ h1o h1
    generalize elim orc on fuel false (faml orc fuel fuel [] root) = r2 at h2 h2o
    split
    · rename_i c rest hk
      have hks := capN_kids sl h2
      have hkso := okN_kids h2o
      rw [hk, capNs_cons] at hks
      rw [hk, okNs_cons] at hkso
      simp only [Bool.and_eq_true] at hks hkso
      apply capN_withKids sl h2
      rw [capNs_cons, capN_placeBump sl h0 fuel hkso.1 hks.1, hks.2]
      rfl
    · exact h2

/-- `reduce()` on a node whose children are reduced, the node itself possibly a childless Concatenate / Alternate -/
theorem reduce_weak_caps (h0 : sl 0 = true) (orc : Orc) (on : Bool) (f : Nat) (pa : Bool) (x : Node)
    (hk : okNs x.kids = true) (hs : shapeOk x.t x.kids.length = true ∨ (x.t == 24 || x.t == 25) = true)
    (hc : capN sl x = true) : capN sl (reduce orc on (f + 1) pa x) = true := by
  rcases hs with hs | hs
  · exact (reduce_elim_caps sl h0 orc on (f + 1)).1 pa x (by rw [okN_iff]; simp [hs, hk]) hc
  · have ih := reduce_elim_caps sl h0 orc on f
    have iho := reduce_elim_ok orc on f
    have hred : RedCaps sl (fun pa' r => toR (reduce orc on f pa' (fromR r))) := fun pa' r hr =>
      toR_caps sl h0 _ (iho.1 _ _ (fromR_ok r)) (ih.1 _ _ (fromR_ok r) (fromR_caps sl r hr))
    rw [reduce]
    simp only []
    have ht := stripCi_t x
    have hkk := stripCi_kids x
    have hcy := capN_stripCi sl hc
    generalize stripCi x = y at ht hkk hcy
    have hkids := toRs_caps sl h0 y.kids (by rw [hkk]; exact hk) (capN_kids sl hcy)
    have hto := tagQ_of_lt sl (capN_o sl hcy)
    split
    · exact fromR_caps sl _ (capR_reduceAlt sl hred _ _ _ _ _ hto hkids)
    split
    · exact fromR_caps sl _ (capR_reduceCat sl _ _ hto hkids)
    · rename_i h1 h2
      exfalso
      simp only [ht, ntAlternate, ntConcatenate] at h1 h2
      simp only [Bool.or_eq_true] at hs
      rcases hs with h | h
      · exact h1 h
      · exact h2 h

mutual
theorem reduceKids_caps (h0 : sl 0 = true) (orc : Orc) (on : Bool) (f : Nat) : ∀ (x : Node), okRaw x = true → capN sl x = true →
    capN sl (reduceKids orc on (f + 1) x) = true
  | .mk t o ch str set m n kids, h, hc => by
    rw [okRaw] at h
    simp only [Bool.and_eq_true] at h
    rw [reduceKids]
    exact capN_mk_of sl (capN_o sl hc) (capN_q sl hc) (reduceList_caps h0 orc on f (t == ntAtomic) kids h.2 (capN_kids sl hc))
theorem reduceList_caps (h0 : sl 0 = true) (orc : Orc) (on : Bool) (f : Nat) (pa : Bool) : ∀ (l : List Node), okRaws l = true →
    capNs sl l = true → capNs sl (reduceList orc on (f + 1) pa l) = true
  | [], _, _ => by simp [reduceList, capNs_nil]
  | k :: ks, h, hc => by
    rw [okRaws] at h
    rw [capNs_cons] at hc
    simp only [Bool.and_eq_true] at h hc
    have hk := reduceKids_weak orc on f k h.1
    have hkc := reduceKids_caps h0 orc on f k h.1 hc.1
    have h2 := reduceList_caps h0 orc on f pa ks h.2 hc.2
    have hshape : shapeOk (reduceKids orc on (f + 1) k).t (reduceKids orc on (f + 1) k).kids.length = true ∨
        ((reduceKids orc on (f + 1) k).t == 24 || (reduceKids orc on (f + 1) k).t == 25) = true := by
      rw [hk.2.1, hk.2.2]
      cases k with
      | mk t o ch str set m n kids =>
        have h1 := h.1
        rw [okRaw] at h1
        simp only [Bool.and_eq_true, Bool.or_eq_true] at h1
        simp only [Node.t, Node.kids]
        rcases h1.1 with h3 | h3
        · exact Or.inl h3
        · exact Or.inr (by simpa using h3.1)
    have h1 := reduce_weak_caps sl h0 orc on f pa _ hk.1 hshape hkc
    rw [reduceList, capNs_cons, h1, h2]
    rfl
end

/-- **J1**: the reduced tree has only group numbers of the raw tree -/
theorem capN_reduceRoot (h0 : sl 0 = true) (orc : Orc) (on : Bool) {root : Node} (h : okRawTree root = true)
    (hc : capN sl root = true) : capN sl (reduceRoot orc on root) = true := by
  unfold okRawTree at h
  simp only [Bool.and_eq_true] at h
  unfold reduceRoot
  simp only []
  have hf : fuelFor root = (6 * nodeSize root + 63) + 1 := rfl
  rw [hf]
  have hk := reduceKids_weak orc on (6 * nodeSize root + 63) root h.1
  have hkc := reduceKids_caps sl h0 orc on (6 * nodeSize root + 63) root h.1 hc
  apply capN_finalOptimize sl h0 _ _ _ _ hkc
  rw [okN_iff, hk.2.1, hk.2.2]
  simp [h.2, hk.1]

end

/-! ### to the writer's predicate -/

open Writer in
theorem capsOkList_cons (cfg : Cfg) (cs : Nat) (g : GoNode) (gs : List GoNode) :
    capsOkList cfg cs (g :: gs) = (capsOk cfg cs g && capsOkList cfg cs gs) := by rw [capsOkList]

theorem capQ_13 {sl : Int → Bool} {m n : Int} (h : capQ sl 13 m n = true) : sl m = true := by
  simp only [capQ, show ((13 : Nat) == 13 || (13 : Nat) == 33) = true from rfl, if_true, Bool.and_eq_true] at h
  exact h.2
theorem capQ_33 {sl : Int → Bool} {m n : Int} (h : capQ sl 33 m n = true) : sl m = true := by
  simp only [capQ, show ((33 : Nat) == 13 || (33 : Nat) == 33) = true from rfl, if_true, Bool.and_eq_true] at h
  exact h.2
theorem capQ_28 {sl : Int → Bool} {m n : Int} (h : capQ sl 28 m n = true) :
    (if n == -1 then sl m else (m == -1 || sl m) && sl n) = true := by
  simp only [capQ, show ((28 : Nat) == 13 || (28 : Nat) == 33) = false from rfl, show ((28 : Nat) == 28) = true from rfl,
    if_true, Bool.false_eq_true, if_false, Bool.and_eq_true] at h
  exact h.2

set_option maxHeartbeats 1600000 in
open Writer in
theorem goOf_capsOk (cfg : Cfg) (cs : Nat) (t o ch : Nat) (str : List Nat) (set : Option Class.Class) (m n : Int)
    (gs : List GoNode) (hq : capQ (slotOk cfg cs) t m n = true) (hg : capsOkList cfg cs gs = true) :
    capsOk cfg cs (goOf t o ch str set m n gs) = true := by
  unfold goOf
  simp only []
  split
  · rw [capsOk]; exact hg
  split
  · rw [capsOk]; exact hg
  split
  · -- no children
    split
    · rw [capsOk]
    split
    · rw [capsOk]
    split
    · rw [capsOk]
    split
    · rw [capsOk]
    split
    · rw [capsOk]
    split
    · rename_i h13
      have : t = 13 := by simpa using h13
      subst this
      rw [capsOk]
      exact capQ_13 hq
    split
    · rw [capsOk]
    split
    · rw [capsOk]
    · rw [capsOk]
  · rename_i k
    have hk : capsOk cfg cs k = true := by simpa [capsOkList_cons, capsOkList] using hg
    split
    · rw [capsOk]; exact hk
    split
    · rw [capsOk]; exact hk
    split
    · rename_i h28
      have : t = 28 := by simpa using h28
      subst this
      rw [capsOk, hk, Bool.and_true]
      exact capQ_28 hq
    split
    · rw [capsOk]; exact hk
    split
    · rw [capsOk]; exact hk
    split
    · rw [capsOk]; exact hk
    split
    · rw [capsOk]; exact hk
    split
    · rename_i h33
      have : t = 33 := by simpa using h33
      subst this
      rw [capsOk, hk, Bool.and_true]
      exact capQ_33 hq
    · rw [capsOk]
  · rename_i k k2
    have hk : capsOk cfg cs k = true ∧ capsOk cfg cs k2 = true := by simpa [capsOkList_cons, capsOkList] using hg
    split
    · rename_i h33
      have : t = 33 := by simpa using h33
      subst this
      rw [capsOk, hk.1, hk.2, Bool.and_true, Bool.and_true]
      exact capQ_33 hq
    split
    · rw [capsOk, hk.1, hk.2]; rfl
    · rw [capsOk]
  · rename_i k k2 k3
    have hk : capsOk cfg cs k = true ∧ capsOk cfg cs k2 = true ∧ capsOk cfg cs k3 = true := by
      simpa [capsOkList_cons, capsOkList] using hg
    split
    · rw [capsOk, hk.1, hk.2.1, hk.2.2]; rfl
    · rw [capsOk]
  · rw [capsOk]

open Writer in
mutual
theorem toGo_capsOk (cfg : Cfg) (cs : Nat) : ∀ (x : Node), capN (slotOk cfg cs) x = true → capsOk cfg cs (toGo x) = true
  | .mk t o ch str set m n kids, h => by
    rw [toGo]
    exact goOf_capsOk cfg cs _ _ _ _ _ _ _ _ (capN_q _ h) (toGos_capsOk cfg cs kids (capN_kids _ h))
theorem toGos_capsOk (cfg : Cfg) (cs : Nat) : ∀ (l : List Node), capNs (slotOk cfg cs) l = true →
    capsOkList cfg cs (toGos l) = true
  | [], _ => by simp [toGos, capsOkList]
  | x :: xs, h => by
    rw [capNs_cons] at h
    simp only [Bool.and_eq_true] at h
    rw [toGos, capsOkList_cons, toGo_capsOk cfg cs x h.1, toGos_capsOk cfg cs xs h.2]
    rfl
end

/-- **J1, at the writer's interface**: if every node of the raw tree has good group numbers (`capN` with the
    writer's `slotOk`), group 0 has a slot, and the raw tree has the parser's shapes, then the reduced tree
    satisfies `Writer.capsOk` — for every oracle, rewrites on or off. -/
theorem reduceTree_capsOk (cfg : Writer.Cfg) (cs : Nat) (orc : Orc) (on : Bool) (t : Parser.RawTree)
    (h0 : Writer.slotOk cfg cs 0 = true) (hok : okRawTree (ofRaw t.root) = true)
    (hc : capN (Writer.slotOk cfg cs) (ofRaw t.root) = true) :
    Writer.capsOk cfg cs (reduceTree orc on t) = true := by
  unfold reduceTree
  exact toGo_capsOk cfg cs _ (capN_reduceRoot _ h0 orc on hok hc)

end RegexVerif.Reduce
