/-
Joint J2, assembly: one turn of `scanRegex`, the loop, `parseFuel`.  Result: the raw tree the parser returns satisfies
`shp` (= `Reduce.okRaw`), hence `Reduce.RawShapeOk`.  See `Lemmas/ParserShape2.lean` (the tree invariant) and
`Lemmas/ParserExact.lean` (after `(?(` the next turn opens the condition group).
-/
import RegexVerif.Lemmas.ParserShape2
import RegexVerif.Lemmas.ParserExact

namespace RegexVerif.Parser
open RegexVerif.EscapeParse (isSpaceCh isSpecialCh isQuantCh isDigitCh isTrueQuant isTrueBrace dropDigits)

variable {α β γ : Type}
variable (E : Env)

/-- the invariant with the position inside the pattern (what the scanners' specifications ask for) -/
def TreeInvP (s : PS) : Prop := TreeInv s ∧ s.pos ≤ E.pat.length
/-- … and with `NP` -/
def TNP (s : PS) : Prop := TN s ∧ s.pos ≤ E.pat.length
/-- the ExprCond under construction has its condition, or the next turn will open it -/
def NR (s : PS) : Prop := NP s ∨ Rew E s

theorem frame_group {s s' : PS} (h : s'.frame = s.frame) : s'.group = s.group := by
  simp only [PS.frame, Prod.mk.injEq] at h
  exact h.2.2.2.1

theorem NP_frame {s s' : PS} (h : s'.frame = s.frame) (hn : NP s) : NP s' := by
  unfold NP at *
  rw [frame_group h]
  exact hn

theorem not_NP {s : PS} (h : ¬ NP s) : s.group.t = .exprCond ∧ s.group.kids = [] := by
  unfold NP at h
  exact Classical.not_not.mp h

/-- a scanner with the common specification keeps the invariants -/
theorem tn_of_scans {m : M α} (h : Scans E m) : H (TNP E) m (fun _ => TN) :=
  H.of_wp (R := fun _ => True) (fun s hp =>
    wp_mono (h s hp.2) (fun _ _ hadv => ⟨TreeInv_frame hadv.frame hp.1.1, NP_frame hadv.frame hp.1.2⟩) (fun _ _ => trivial))

theorem leaf_dollar (o : Opts) :
    isLeafType (if o.m then NT.eol else if o.re2 ∨ o.e then NT.end_ else NT.endZ) = true := by
  split
  · rfl
  · split <;> rfl

attribute [local irreducible] H

theorem H_weakenT {m : M α} {Q : α → PS → Prop} (h : H TN m Q) : H (TNP E) m Q :=
  H.conseq h (fun _ hp => hp.1) (fun _ _ hq => hq)

theorem tn_leafUnit_after {r : RNode} (hr : Leaf r) (b : Bool) :
    H TN (do setUnit (some r); stepAfter E b) (fun _ => TN) :=
  tn_of (H_bindI (inv_setUnit (shp_leaf hr)) (fun _ => inv_stepAfter E b))
    (GP.bind' (gp_setUnit _) (fun _ => gp_stepAfter E b))

/-- `(`: a group is opened; an ExprCond comes with the rewound state -/
theorem inv_stepOpen (b : Bool) : H (TreeInvP E) (stepOpen E b) (fun _ s' => TreeInv s' ∧ NR E s') := by
  unfold stepOpen
  apply H.bind (Q1 := fun _ => TreeInvP E)
  · unfold pushOptions
    apply H_modify
    intro s h
    exact h
  · intro _
    apply H.bind (Q1 := fun r s1 => ((TreeInv s1 ∧ OptOpen r) ∧ (r = none → NP s1)) ∧ RewPost E r s1)
    · refine H_and (H_and (H_andRet ?_ (ret_scanGroupOpen E)) ?_) ?_
      · exact H.of_wp (R := fun _ => True) (fun s hp =>
          wp_mono (scans_scanGroupOpen E s hp.2) (fun _ _ hadv => TreeInv_frame hadv.frame hp.1) (fun _ _ => trivial))
      · unfold H
        intro s r s1 hp hm hnone
        by_cases hnp : NP s
        · have := scans_scanGroupOpen E s hp.2
          unfold wp at this
          rw [hm] at this
          exact NP_frame this.frame hnp
        · have hA := scanGroupOpen_some E
          unfold H at hA
          exact absurd hnone (hA s r s1 (not_NP hnp).1 hm)
      · exact H.conseq (scanGroupOpen_rew E) (fun _ _ => trivial) (fun _ _ h => h)
    · intro r
      cases r with
      | none =>
        dsimp only
        apply H.bind (Q1 := fun _ => TN)
        · refine H.conseq (tn_of inv_popKeepOptions gp_popKeepOptions) (fun s hp => ⟨hp.1.1.1, hp.1.2 rfl⟩) (fun _ _ h => h)
        · intro _
          exact H.pure (fun s hp => ⟨hp.1, Or.inl hp.2⟩)
      | some g =>
        dsimp only
        unfold H
        intro s a s' hp hm
        have hg : OpenNode g := hp.1.1.2 g rfl
        have hrew := hp.2 g rfl
        unfold pushGroup startGroup at hm
        simp only [bind, M.bind, modify, pure, M.pure, Res.ok.injEq] at hm
        obtain ⟨_, rfl⟩ := hm
        refine ⟨⟨open3_start _ hg, ⟨hp.1.1.1.2.1, ?_⟩⟩, ?_⟩
        · intro fr hfr
          rcases List.mem_cons.mp hfr with h | h
          · rw [h]; exact hp.1.1.1.1
          · exact hp.1.1.1.2.2 fr h
        · by_cases hge : g.t = .exprCond
          · exact Or.inr (hrew hge)
          · exact Or.inl (fun h => hge h.1)

theorem inv_stepClose (b : Bool) : H TN (stepClose E b) (fun _ => TN) := by
  unfold stepClose
  apply H.bind (Q1 := fun _ => TN) (tn_of inv_get gp_get)
  intro s0
  refine H.ite (fun _ => H.throw) (fun _ => ?_)
  apply H.bind inv_addGroup
  intro _
  apply H.bind (Q1 := fun _ => TN) inv_popGroup
  intro _
  apply H.bind (Q1 := fun _ => TN) (tn_of inv_popOptions gp_popOptions)
  intro _
  apply H.bind (Q1 := fun _ => TN) (tn_of inv_get gp_get)
  intro s1
  exact H.ite (fun _ => H.pure (fun _ h => h)) (fun _ => tn_of (inv_stepAfter E b) (gp_stepAfter E b))

/-- what `stepSwitch` is started with: the invariant, and either the ExprCond under construction has its condition or
    the special rune is the `(` that opens it -/
def SwPre (ch : Nat) (s : PS) : Prop := TreeInvP E s ∧ (NP s ∨ (ch = 40 ∧ s.ignoreNextParen = true))

theorem swPre_tnp {ch : Nat} (h : ch ≠ 40) {s : PS} (hp : SwPre E ch s) : TNP E s := by
  rcases hp.2 with hn | hn
  · exact ⟨⟨hp.1.1, hn⟩, hp.1.2⟩
  · exact absurd hn.1 h

theorem H_sw {ch : Nat} (h : ch ≠ 40) {m : M α} (hm : H (TNP E) m (fun _ => TN)) :
    H (SwPre E ch) m (fun _ s' => TreeInv s' ∧ NR E s') :=
  H.conseq hm (fun _ hp => swPre_tnp E h hp) (fun _ _ hq => ⟨hq.1, Or.inl hq.2⟩)

theorem inv_stepSwitch (o : Opts) (ch : Nat) (isQ wasPrev : Bool) :
    H (SwPre E ch) (stepSwitch E o ch isQ wasPrev) (fun _ s' => TreeInv s' ∧ NR E s') := by
  unfold stepSwitch
  refine H.ite (fun h => ?_) (fun _ => ?_)
  · -- `[`
    apply H_sw E (by omega)
    apply H.bind (tn_of_scans E (scans_scanCharSet E _ _))
    intro cc
    exact tn_leafUnit_after E (leaf_nodeSet E _ _) _
  refine H.ite (fun h40 => ?_) (fun h40 => ?_)
  · -- `(`
    apply H.bind (Q1 := fun b s' => SwPre E ch s' ∧ (b = true → s'.pos + 3 ≤ E.pat.length ∧ s'.ignoreNextParen ≠ true))
    · unfold H
      intro s b s' hp hm
      have := wp_stepIsPythonRef E o s (fun b s' => s' = s ∧ (b = true → s.pos + 3 ≤ E.pat.length)) (fun _ => True)
        (fun b hb => ⟨rfl, hb⟩)
      unfold wp at this
      rw [hm] at this
      obtain ⟨rfl, h3⟩ := this
      refine ⟨hp, fun hb => ⟨h3 hb, ?_⟩⟩
      intro hig
      rw [stepIsPythonRef_ignore E o _ hig] at hm
      simp only [Res.ok.injEq] at hm
      rw [← hm.1] at hb
      cases hb
    · intro b
      refine H.ite (fun hb => ?_) (fun _ => ?_)
      · apply H.bind (Q1 := fun nd s' => TN s' ∧ Leaf nd)
        · refine H_andRet ?_ (ret_scanPythonNamedBackref E)
          refine H.of_wp (R := fun _ => True) (fun s hp => ?_)
          have hb' := hp.2 hb
          have hnp : NP s := by
            rcases hp.1.2 with hn | hn
            · exact hn
            · exact absurd hn.2 hb'.2
          exact wp_mono (scans_scanPythonNamedBackref E s hb'.1)
            (fun _ _ hadv => ⟨TreeInv_frame hadv.frame hp.1.1.1, NP_frame hadv.frame hnp⟩) (fun _ _ => trivial)
        · intro nd
          apply H_pre'
          intro hnd
          exact H.conseq (tn_leafUnit_after E hnd _) (fun _ h => h) (fun _ _ hq => ⟨hq.1, Or.inl hq.2⟩)
      · exact H.conseq (inv_stepOpen E isQ) (fun _ hp => hp.1.1) (fun _ _ hq => hq)
  refine H.ite (fun h => ?_) (fun _ => ?_)
  · -- `|`
    apply H_sw E (by omega)
    apply H_weakenT
    apply H_bindI _ (fun _ => H_pureI)
    exact H_and (H.conseq inv_addAlternate (fun _ h => h.1) (fun _ _ h => h))
      (H.conseq np_addAlternate (fun _ h => h.2) (fun _ _ h => h))
  refine H.ite (fun h => ?_) (fun _ => ?_)
  · exact H_sw E (by omega) (H_weakenT E (inv_stepClose E isQ))
  refine H.ite (fun h => ?_) (fun _ => ?_)
  · -- backslash
    apply H_sw E (by omega)
    apply H.bind (Q1 := fun nd s' => TN s' ∧ Leaf nd)
    · exact H_andRet (tn_of_scans E (scans_scanBackslash E false)) (ret_scanBackslash E false)
    · intro nd
      apply H_pre'
      intro hnd
      exact tn_leafUnit_after E hnd _
  refine H.ite (fun h => ?_) (fun _ => ?_)
  · exact H_sw E (by omega) (H_weakenT E (tn_leafUnit_after E (leaf_mkNode (by split <;> rfl)) _))
  refine H.ite (fun h => ?_) (fun _ => ?_)
  · exact H_sw E (by omega) (H_weakenT E (tn_leafUnit_after E (leaf_mkNode (leaf_dollar o)) _))
  refine H.ite (fun h => ?_) (fun _ => ?_)
  · exact H_sw E (by omega) (H_weakenT E (tn_leafUnit_after E (leaf_dotNode E o) _))
  refine H.ite (fun h => ?_) (fun _ => ?_)
  · apply H_sw E (by omega)
    apply H_weakenT
    apply H.bind (Q1 := fun _ => TN) (tn_of inv_get gp_get)
    intro s0
    refine H.ite (fun _ => H.throw) (fun _ => ?_)
    exact tn_of (H_bindI inv_moveLeft (fun _ => inv_stepAfter E isQ)) (GP.bind' gp_moveLeft (fun _ => gp_stepAfter E isQ))
  · exact H.throw

theorem stepHead_atParen (s : PS) (h : E.pat[s.pos]? = some 40) :
    stepHead E s = .ok (40, false) { s with pos := s.pos + 1 } := by
  have hlt := (List.getElem?_eq_some_iff.mp h).1
  have hcr : E.pat.length - s.pos ≠ 0 := by omega
  have h1 : isSpecialCh 40 = true := by decide
  have h2 : isQuantCh 40 = false := by decide
  unfold stepHead
  simp [bind, M.bind, charsRight, rightChar, h, hcr, h1, h2, moveRight, modify, pure, M.pure]

/-- one turn keeps the invariants -/
theorem inv_scanStep (b : Bool) :
    H (fun s => TreeInvP E s ∧ NR E s) (scanStep E b) (fun _ s' => TreeInv s' ∧ NR E s') := by
  have hnp : H (TNP E) (scanStep E b) (fun _ s' => TreeInv s' ∧ NR E s') := by
    unfold scanStep
    apply H.bind (Q1 := fun run s' => TNP E s' ∧ (run.1 ≤ run.2 ∧ run.2 ≤ E.pat.length))
    · exact H.of_wp (R := fun _ => True) (fun s hp => wp_stepRun E s hp.2 _
        (fun sp ep p' _ h2 h3 h4 _ => ⟨⟨hp.1, h4⟩, h2, by dsimp only; omega⟩))
    · intro run
      apply H_pre'
      intro hrun
      apply H.bind (Q1 := fun _ => TNP E)
      · refine H.of_wp (R := fun _ => True) (fun s hp => wp_mono (wp_stepHead E s hp.2) ?_ (fun _ _ => trivial))
        intro r s' hcases
        rcases hcases with ⟨_, hs, _⟩ | ⟨_, hs, _⟩ | ⟨c, hc, _, _, hs⟩
        · rw [hs]; exact hp
        · rw [hs]; exact hp
        · rw [hs]
          have := (List.getElem?_eq_some_iff.mp hc).1
          exact ⟨hp.1, by dsimp only; omega⟩
      · intro hd
        apply H.bind (Q1 := fun _ => TNP E)
        · refine H.conseq (H_and (H_weakenT E (tn_of (inv_stepLiteral E run.1 run.2 hd.2 b) (gp_stepLiteral E _ _ _ _)))
            (H.of_wp (R := fun _ => True) (fun s (hp : TNP E s) =>
              wp_mono (wp_stepLiteral E run.1 run.2 hd.2 b s hrun.1 hrun.2)
                (fun _ s' hk => (show s'.pos ≤ E.pat.length by rw [hk.1.pos]; exact hp.2))
                (fun _ _ => trivial)))) (fun _ hp => hp) (fun _ _ hq => hq)
        · intro wasPrev
          apply H.bind (Q1 := fun _ => TNP E) H_opts
          intro o
          refine H.ite (fun _ => ?_) (fun _ => ?_)
          · exact H.pure (fun _ hp => ⟨hp.1.1, Or.inl hp.1.2⟩)
          refine H.ite (fun _ => ?_) (fun _ => ?_)
          · exact H.pure (fun _ hp => ⟨hp.1.1, Or.inl hp.1.2⟩)
          · exact H.conseq (inv_stepSwitch E o hd.1 hd.2 wasPrev) (fun _ hp => ⟨⟨hp.1.1, hp.2⟩, Or.inl hp.1.2⟩)
              (fun _ _ hq => hq)
  have hopen := inv_stepOpen E false
  unfold H at hnp hopen ⊢
  intro s r s' hp hm
  rcases hp.2 with hn | hrew
  · exact hnp s r s' ⟨⟨hp.1.1, hn⟩, hp.1.2⟩ hm
  · -- the turn after `(?(`: nothing is skipped, the `(` opens the condition group
    have hlt := (List.getElem?_eq_some_iff.mp hrew.2.1).1
    unfold scanStep at hm
    simp only [bind, M.bind, stepRun_atParen E s hrew.2, stepHead_atParen E s hrew.2.1, stepLiteral_same, opts] at hm
    unfold stepSwitch at hm
    simp only [show ¬((40 : Nat) = 33) by omega, show ¬((40 : Nat) = 32) by omega, show ¬((40 : Nat) = 91) by omega,
      if_false, if_true, bind, M.bind,
      stepIsPythonRef_ignore E _ { s with pos := s.pos + 1 } hrew.1, Bool.false_eq_true] at hm
    exact hopen { s with pos := s.pos + 1 } r s' ⟨hp.1.1, by dsimp only; omega⟩ hm

theorem np_of_root {s : PS} (hst : s.stack = []) (hr : RootInv s) : NP s := by
  unfold RootInv at hr
  rw [bottomGroup_nil hst] at hr
  intro h
  rw [hr.1] at h
  cases h.1

/-- **the tree `scanRegex` returns has the raw shape** -/
theorem shp_scanRegex (n : Nat) :
    H (fun s => s.pos ≤ E.pat.length ∧ s.unit = none ∧ s.optionsStack = [] ∧ s.stack = [] ∧ E.pat.length - s.pos < n)
      (scanRegex E n) (fun r _ => shp r = true) := by
  unfold scanRegex
  apply H.bind (Q1 := fun _ s => s.pos ≤ E.pat.length ∧ s.unit = none ∧ s.optionsStack = [] ∧ s.stack = [])
  · exact H.conseq H_opts (fun _ hp => ⟨hp.1, hp.2.1, hp.2.2.1, hp.2.2.2.1⟩) (fun _ _ h => h)
  intro o
  apply H.bind (Q1 := fun _ s => (TurnInv E s ∧ RootInv s) ∧ TreeInv s ∧ NR E s)
  · unfold startGroup
    apply H_modify
    intro s ⟨h1, h2, h3, h4⟩
    refine ⟨⟨⟨h1, h2, by simp [h3, h4]⟩, ?_⟩, ⟨open3_start _ ⟨rfl, rfl⟩, ?_, ?_⟩, Or.inl ?_⟩
    · unfold RootInv
      rw [bottomGroup_nil (by dsimp only; exact h4)]
      exact ⟨rfl, rfl, rfl⟩
    · dsimp only; rw [h2]; exact fun _ hx => nomatch hx
    · dsimp only; rw [h4]; exact fun _ hx => nomatch hx
    · intro h; cases h.1
  intro _
  apply H.bind (Q1 := fun _ s => RootInv s ∧ TreeInv s)
  · apply H_iter
    intro b
    apply H.bind (Q1 := fun cr s => ((TurnInv E s ∧ RootInv s) ∧ TreeInv s ∧ NR E s) ∧ cr = E.pat.length - s.pos)
    · unfold H
      intro s a s' hp hm
      unfold charsRight at hm
      cases hm
      exact ⟨hp, rfl⟩
    · intro cr
      refine H.ite (fun _ => ?_) (fun hcr => ?_)
      · exact H.pure (fun _ hp => ⟨hp.1.1.2, hp.1.2.1⟩)
      · have h1 : H (fun s => ((TurnInv E s ∧ RootInv s) ∧ TreeInv s ∧ NR E s) ∧ cr = E.pat.length - s.pos) (scanStep E b)
            (fun r s' => match r with | .inl _ => TurnInv E s' ∧ RootInv s' | .inr _ => RootInv s') := by
          refine H.of_wp (R := fun _ => True) (fun s hp => wp_mono
            (wp_and (wp_scanStep E b s (by have := hp.2; omega) hp.1.1.1.2.1 hp.1.1.1.2.2)
              (bg_scanStep E b s (by have := hp.2; omega) hp.1.1.1.2.2 hp.1.1.2)) ?_ (fun _ _ => trivial))
          intro r s' ⟨hr, hbg⟩
          have hroot : RootInv s' := by unfold RootInv; rw [hbg]; exact hp.1.1.2
          cases r with
          | inl _ => exact ⟨hr.1, hroot⟩
          | inr _ => exact hroot
        have h2 : H (fun s => ((TurnInv E s ∧ RootInv s) ∧ TreeInv s ∧ NR E s) ∧ cr = E.pat.length - s.pos) (scanStep E b)
            (fun _ s' => TreeInv s' ∧ NR E s') :=
          H.conseq (inv_scanStep E b) (fun _ hp => ⟨⟨hp.1.2.1, hp.1.1.1.1⟩, hp.1.2.2⟩) (fun _ _ hq => hq)
        refine H.conseq (H_and h1 h2) (fun _ hp => hp) ?_
        intro r s' ⟨hr1, hr2⟩
        cases r with
        | inl _ => exact ⟨hr1, hr2⟩
        | inr _ => exact ⟨hr1, hr2.1⟩
  intro _
  apply H.bind (Q1 := fun a s' => a = s' ∧ RootInv s' ∧ TreeInv s') H_get
  intro s1
  refine H.ite (fun _ => H.throw) (fun hemp => ?_)
  apply H.bind (Q1 := fun _ => TreeInvW)
  · refine H.conseq inv_addGroup ?_ (fun _ _ h => h)
    intro s hp
    refine ⟨hp.2.2, np_of_root ?_ hp.2.1⟩
    rw [← hp.1]
    cases hh : s1.stack with
    | nil => rfl
    | cons a l => simp [hh] at hemp
  intro _
  apply H.bind (Q1 := fun a s' => a = s' ∧ TreeInvW s') H_get
  intro s2
  unfold H
  intro s a s' hp hm
  revert hm
  cases hu : s2.unit with
  | none => intro hm; cases hm
  | some u =>
    intro hm
    change M.pure u s = _ at hm
    unfold M.pure at hm
    cases hm
    rw [hp.1] at hu
    exact hp.2.1 _ hu

/-- **the raw tree the parser returns has the raw shape** -/
theorem shp_parseFuel (n : Nat) (hn : E.pat.length < n) (t : RawTree) (h : parseFuel E n = .ok t) : shp t.root = true := by
  unfold parseFuel at h
  split at h <;> try (simp at h; done)
  rename_i tb s' hcc
  split at h <;> try (simp at h; done)
  rename_i root s'' hsr
  simp only [Outcome.ok.injEq] at h
  subst h
  have h2 := shp_scanRegex E n
  unfold H at h2
  exact h2 (resetState E tb) root s'' ⟨Nat.zero_le _, rfl, rfl, rfl, by simp only [resetState]; omega⟩ hsr

/-! ## To `RawShapeOk` -/

theorem shapeW_raw {t : NT} {k : Nat} (h : shapeW t k = true) :
    (Reduce.shapeOk t.toNat k || ((t.toNat == 24 || t.toNat == 25) && k == 0)) = true := by
  unfold shapeW at h
  cases t <;> simp [NT.toNat] at h ⊢ <;> first | exact h | omega | (rcases h with h | h <;> first | exact Or.inl h | omega)

theorem ofRaws_len : ∀ (l : List RNode), (Reduce.ofRaws l).length = l.length
  | [] => by simp [Reduce.ofRaws]
  | a :: l => by simp [Reduce.ofRaws, ofRaws_len l]

mutual
theorem okRaw_of_shp : ∀ (x : RNode), shp x = true → Reduce.okRaw (Reduce.ofRaw x) = true
  | .mk t o ch str set m n kids, h => by
    rw [shp] at h
    simp only [Bool.and_eq_true] at h
    rw [Reduce.ofRaw, Reduce.okRaw, okRaws_of_shps kids h.2, Bool.and_true, ofRaws_len]
    exact shapeW_raw h.1
theorem okRaws_of_shps : ∀ (l : List RNode), shps l = true → Reduce.okRaws (Reduce.ofRaws l) = true
  | [], _ => by simp [Reduce.ofRaws, Reduce.okRaws]
  | x :: xs, h => by
    rw [shps] at h
    simp only [Bool.and_eq_true] at h
    rw [Reduce.ofRaws, Reduce.okRaws, okRaw_of_shp x h.1, okRaws_of_shps xs h.2]
    rfl
end

/-- **J2**: the tree the parser returns has the node shapes the reducer assumes -/
theorem rawShapeOk_of_parse (t : RawTree) (h : parse E = .ok t) : Reduce.RawShapeOk t = true := by
  have hs := shp_parseFuel E _ (Nat.lt_succ_self _) t h
  have hroot := parseFuel_root E _ (Nat.lt_succ_self _) t h
  unfold Reduce.RawShapeOk Reduce.okRawTree
  rw [okRaw_of_shp t.root hs, Bool.true_and]
  cases hr : t.root with
  | mk tt o ch str set m n kids =>
    rw [hr] at hroot
    simp only [RNode.t, RNode.kids] at hroot
    simp only [Reduce.ofRaw, Reduce.Node.t, Reduce.Node.kids, ofRaws_len, hroot.1, hroot.2.2]
    rfl

end RegexVerif.Parser
