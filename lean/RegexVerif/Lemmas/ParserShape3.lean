/-
Joint J2, assembly: one turn of `scanRegex`, the loop, `parseFuel`.  Result: the raw tree the parser returns satisfies
the weak shape `shp`; with the residual condition `condsOK` (every ExprCond has its condition: at least two children)
it satisfies `Reduce.RawShapeOk`.  See `Lemmas/ParserShape2.lean`.
-/
import RegexVerif.Lemmas.ParserShape2

namespace RegexVerif.Parser
open RegexVerif.EscapeParse (isSpaceCh isSpecialCh isQuantCh isDigitCh isTrueQuant isTrueBrace dropDigits)

variable {α β γ : Type}
variable (E : Env)

/-- the invariant with the position inside the pattern (what the scanners' specifications ask for) -/
def TreeInvP (s : PS) : Prop := TreeInv s ∧ s.pos ≤ E.pat.length

theorem H_weaken {m : M α} {Q : α → PS → Prop} (h : H TreeInv m Q) : H (TreeInvP E) m Q :=
  H.conseq h (fun _ hp => hp.1) (fun _ _ hq => hq)

/-- a pure fact in the precondition -/
theorem H_pre {P : PS → Prop} {C : Prop} {m : M α} {Q : α → PS → Prop} (h : C → H P m Q) : H (fun s => P s ∧ C) m Q := by
  unfold H
  intro s a s' hp hm
  have := h hp.2
  unfold H at this
  exact this s a s' hp.1 hm

/-- a scanner with the common specification keeps the invariant -/
theorem inv_of_scans {m : M α} (h : Scans E m) : H (TreeInvP E) m (fun _ => TreeInv) :=
  H.of_wp (R := fun _ => True) (fun s hp =>
    wp_mono (h s hp.2) (fun _ _ hadv => TreeInv_frame hadv.frame hp.1) (fun _ _ => trivial))

attribute [local irreducible] H

theorem leaf_dollar (o : Opts) :
    isLeafType (if o.m then NT.eol else if o.re2 ∨ o.e then NT.end_ else NT.endZ) = true := by
  split
  · rfl
  · split <;> rfl

theorem inv_leafUnit_after {r : RNode} (hr : Leaf r) (b : Bool) :
    H TreeInv (do setUnit (some r); stepAfter E b) (fun _ => TreeInv) :=
  H_bindI (inv_setUnit (shp_leaf hr)) (fun _ => inv_stepAfter E b)

theorem inv_stepOpen (b : Bool) : H (TreeInvP E) (stepOpen E b) (fun _ => TreeInv) := by
  unfold stepOpen
  apply H.bind (Q1 := fun _ => TreeInvP E)
  · unfold pushOptions
    apply H_modify
    intro s h
    exact h
  · intro _
    apply H.bind (Q1 := fun r s' => TreeInv s' ∧ OptOpen r)
    · exact H_andRet (inv_of_scans E (scans_scanGroupOpen E)) (ret_scanGroupOpen E)
    · intro r
      apply H_pre
      intro hr
      cases r with
      | none =>
        dsimp only
        exact H_bindI inv_popKeepOptions (fun _ => H_pureI)
      | some g =>
        dsimp only
        exact H_bindI inv_pushGroup (fun _ => H_bindI (inv_startGroup (hr g rfl)) (fun _ => H_pureI))

theorem inv_stepClose (b : Bool) : H TreeInv (stepClose E b) (fun _ => TreeInv) := by
  unfold stepClose
  apply H_bindI inv_get
  intro s0
  apply H_iteI H.throw
  apply H.bind inv_addGroup
  intro _
  apply H.bind inv_popGroup
  intro _
  apply H_bindI inv_popOptions
  intro _
  apply H_bindI inv_get
  intro s1
  exact H_iteI H_pureI (inv_stepAfter E b)

theorem inv_stepSwitch (o : Opts) (ch : Nat) (isQ wasPrev : Bool) :
    H (TreeInvP E) (stepSwitch E o ch isQ wasPrev) (fun _ => TreeInv) := by
  unfold stepSwitch
  refine H.ite (fun _ => ?_) (fun _ => ?_)
  · -- `[`
    apply H.bind (inv_of_scans E (scans_scanCharSet E _ _))
    intro cc
    exact inv_leafUnit_after E (leaf_nodeSet E _ _) _
  refine H.ite (fun _ => ?_) (fun _ => ?_)
  · -- `(`
    apply H.bind (Q1 := fun b s' => TreeInvP E s' ∧ (b = true → s'.pos + 3 ≤ E.pat.length))
    · exact H.of_wp (R := fun _ => True) (fun s hp => wp_stepIsPythonRef E o s _ _ (fun b hb => ⟨hp, hb⟩))
    · intro b
      refine H.ite (fun hb => ?_) (fun _ => ?_)
      · apply H.bind (Q1 := fun nd s' => TreeInv s' ∧ Leaf nd)
        · refine H_andRet ?_ (ret_scanPythonNamedBackref E)
          exact H.of_wp (R := fun _ => True) (fun s hp =>
            wp_mono (scans_scanPythonNamedBackref E s (hp.2 hb)) (fun _ _ hadv => TreeInv_frame hadv.frame hp.1.1)
              (fun _ _ => trivial))
        · intro nd
          apply H_pre
          intro hnd
          exact inv_leafUnit_after E hnd _
      · exact H.conseq (inv_stepOpen E isQ) (fun _ hp => hp.1) (fun _ _ hq => hq)
  refine H.ite (fun _ => ?_) (fun _ => ?_)
  · -- `|`
    exact H_weaken E (H_bindI inv_addAlternate (fun _ => H_pureI))
  refine H.ite (fun _ => ?_) (fun _ => ?_)
  · exact H_weaken E (inv_stepClose E isQ)
  refine H.ite (fun _ => ?_) (fun _ => ?_)
  · -- backslash
    apply H.bind (Q1 := fun nd s' => TreeInv s' ∧ Leaf nd)
    · exact H_andRet (inv_of_scans E (scans_scanBackslash E false)) (ret_scanBackslash E false)
    · intro nd
      apply H_pre
      intro hnd
      exact inv_leafUnit_after E hnd _
  refine H.ite (fun _ => ?_) (fun _ => ?_)
  · exact H_weaken E (inv_leafUnit_after E (leaf_mkNode (by split <;> rfl)) _)
  refine H.ite (fun _ => ?_) (fun _ => ?_)
  · exact H_weaken E (inv_leafUnit_after E (leaf_mkNode (leaf_dollar o)) _)
  refine H.ite (fun _ => ?_) (fun _ => ?_)
  · exact H_weaken E (inv_leafUnit_after E (leaf_dotNode E o) _)
  refine H.ite (fun _ => ?_) (fun _ => ?_)
  · apply H_weaken
    apply H_bindI inv_get
    intro s0
    apply H_iteI H.throw
    exact H_bindI inv_moveLeft (fun _ => inv_stepAfter E isQ)
  · exact H.throw

/-- one turn keeps the invariant -/
theorem inv_scanStep (b : Bool) : H (TreeInvP E) (scanStep E b) (fun _ => TreeInv) := by
  unfold scanStep
  apply H.bind (Q1 := fun run s' => TreeInvP E s' ∧ (run.1 ≤ run.2 ∧ run.2 ≤ E.pat.length))
  · exact H.of_wp (R := fun _ => True) (fun s hp => wp_stepRun E s hp.2 _
      (fun sp ep p' _ h2 h3 h4 _ => ⟨⟨hp.1, h4⟩, h2, by dsimp only; omega⟩))
  · intro run
    apply H_pre
    intro hrun
    apply H.bind (Q1 := fun _ => TreeInvP E)
    · refine H.of_wp (R := fun _ => True) (fun s hp => wp_mono (wp_stepHead E s hp.2) ?_ (fun _ _ => trivial))
      intro r s' hcases
      rcases hcases with ⟨_, hs, _⟩ | ⟨_, hs, _⟩ | ⟨c, hc, _, _, hs⟩
      · rw [hs]; exact hp
      · rw [hs]; exact hp
      · rw [hs]
        have := (List.getElem?_eq_some_iff.mp hc).1
        exact ⟨hp.1, by dsimp only; omega⟩
    · intro hd
      apply H.bind (Q1 := fun _ => TreeInvP E)
      · refine H.conseq (H_and (H_weaken E (inv_stepLiteral E run.1 run.2 hd.2 b))
          (H.of_wp (R := fun _ => True) (fun s (hp : TreeInvP E s) =>
            wp_mono (wp_stepLiteral E run.1 run.2 hd.2 b s hrun.1 hrun.2) (fun _ s' hk => (show s'.pos ≤ E.pat.length by rw [hk.1.pos]; exact hp.2))
              (fun _ _ => trivial)))) (fun _ hp => hp) (fun _ _ hq => hq)
      · intro wasPrev
        apply H.bind (Q1 := fun _ => TreeInvP E)
        · unfold opts
          unfold H
          intro s a s' hp hm
          cases hm
          exact hp
        · intro o
          refine H.ite (fun _ => ?_) (fun _ => ?_)
          · exact H.pure (fun _ hp => hp.1)
          refine H.ite (fun _ => ?_) (fun _ => ?_)
          · exact H.pure (fun _ hp => hp.1)
          · exact inv_stepSwitch E o hd.1 hd.2 wasPrev

/-- **the tree `scanRegex` returns has the weak shape** -/
theorem shp_scanRegex (n : Nat) :
    H (fun s => s.pos ≤ E.pat.length ∧ s.unit = none ∧ s.optionsStack = [] ∧ s.stack = [] ∧ E.pat.length - s.pos < n)
      (scanRegex E n) (fun r _ => shp r = true) := by
  unfold scanRegex
  apply H.bind (Q1 := fun _ s => s.pos ≤ E.pat.length ∧ s.unit = none ∧ s.optionsStack = [] ∧ s.stack = [])
  · unfold opts
    unfold H
    intro s a s' hp hm
    cases hm
    exact ⟨hp.1, hp.2.1, hp.2.2.1, hp.2.2.2.1⟩
  intro o
  apply H.bind (Q1 := fun _ s => TurnInv E s ∧ TreeInv s)
  · unfold startGroup
    apply H_modify
    intro s ⟨h1, h2, h3, h4⟩
    refine ⟨⟨h1, h2, by simp [h3, h4]⟩, open3_start _ ⟨rfl, rfl⟩, ?_, ?_⟩
    · dsimp only; rw [h2]; exact fun _ hx => nomatch hx
    · dsimp only; rw [h4]; exact fun _ hx => nomatch hx
  intro _
  apply H.bind (Q1 := fun _ s => TreeInv s)
  · apply H_iter
    intro b
    apply H.bind (Q1 := fun cr s => (TurnInv E s ∧ TreeInv s) ∧ cr = E.pat.length - s.pos)
    · unfold charsRight
      unfold H
      intro s a s' hp hm
      cases hm
      exact ⟨hp, rfl⟩
    · intro cr
      refine H.ite (fun _ => ?_) (fun hcr => ?_)
      · exact H.pure (fun _ hp => hp.1.2)
      · have h1 : H (fun s => (TurnInv E s ∧ TreeInv s) ∧ cr = E.pat.length - s.pos) (scanStep E b)
            (fun r s' => match r with | .inl _ => TurnInv E s' ∧ E.pat.length - s'.pos < E.pat.length - cr.succ.pred + 1 + E.pat.length | .inr _ => True) := by
          refine H.of_wp (R := fun _ => True) (fun s hp => wp_mono (wp_scanStep E b s (by have := hp.2; omega) hp.1.1.2.1 hp.1.1.2.2) ?_ (fun _ _ => trivial))
          intro r s' hr
          cases r with
          | inl _ => exact ⟨hr.1, by omega⟩
          | inr _ => trivial
        have h2 : H (fun s => (TurnInv E s ∧ TreeInv s) ∧ cr = E.pat.length - s.pos) (scanStep E b) (fun _ => TreeInv) :=
          H.conseq (inv_scanStep E b) (fun _ hp => ⟨hp.1.2, hp.1.1.1⟩) (fun _ _ hq => hq)
        refine H.conseq (H_and h1 h2) (fun _ hp => hp) ?_
        intro r s' ⟨hr1, hr2⟩
        cases r with
        | inl _ => exact ⟨hr1.1, hr2⟩
        | inr _ => exact hr2
  intro _
  apply H.bind (Q1 := fun _ => TreeInv) inv_get
  intro s1
  refine H.ite (fun _ => H.throw) (fun _ => ?_)
  apply H.bind inv_addGroup
  intro _
  apply H.bind (Q1 := fun a s' => a = s' ∧ TreeInvW s') H_get
  intro s2
  unfold H
  intro s a s' hp hm
  revert hm
  cases hu : s2.unit with
  | none => intro hm; cases hm
  | some u =>
    intro hm
    change M.pure u s = _ at hm
    unfold M.pure at hm
    cases hm
    rw [hp.1] at hu
    exact hp.2.1 _ hu

/-- **the raw tree the parser returns has the weak shape** -/
theorem shp_parseFuel (n : Nat) (hn : E.pat.length < n) (t : RawTree) (h : parseFuel E n = .ok t) : shp t.root = true := by
  unfold parseFuel at h
  split at h <;> try (simp at h; done)
  rename_i tb s' hcc
  split at h <;> try (simp at h; done)
  rename_i root s'' hsr
  simp only [Outcome.ok.injEq] at h
  subst h
  have h2 := shp_scanRegex E n
  unfold H at h2
  exact h2 (resetState E tb) root s'' ⟨Nat.zero_le _, rfl, rfl, rfl, by simp only [resetState]; omega⟩ hsr

/-! ## From the weak shape to `RawShapeOk` -/

mutual
/-- every ExprCond node has its condition: at least two children -/
def condsOK : RNode → Bool
  | .mk t _ _ _ _ _ _ kids => (!(t == .exprCond) || decide (2 ≤ kids.length)) && condsOKs kids
def condsOKs : List RNode → Bool
  | [] => true
  | k :: ks => condsOK k && condsOKs ks
end

theorem shapeW_strong {t : NT} {k : Nat} (h : shapeW t k = true) (hc : (!(t == .exprCond) || decide (2 ≤ k)) = true) :
    (Reduce.shapeOk t.toNat k || ((t.toNat == 24 || t.toNat == 25) && k == 0)) = true := by
  unfold shapeW at h
  cases t <;> simp [NT.toNat] at h hc ⊢ <;> first | exact h | omega | (rcases h with h | h <;> first | exact Or.inl h | omega)

mutual
theorem okRaw_of_shp : ∀ (x : RNode), shp x = true → condsOK x = true → Reduce.okRaw (Reduce.ofRaw x) = true
  | .mk t o ch str set m n kids, h, hc => by
    rw [shp] at h
    rw [condsOK] at hc
    simp only [Bool.and_eq_true] at h hc
    rw [Reduce.ofRaw, Reduce.okRaw, okRaws_of_shps kids h.2 hc.2, Bool.and_true]
    have hl : (Reduce.ofRaws kids).length = kids.length := by
      clear h hc
      induction kids with
      | nil => simp [Reduce.ofRaws]
      | cons a l ih => simp [Reduce.ofRaws, ih]
    rw [hl]
    exact shapeW_strong h.1 hc.1
theorem okRaws_of_shps : ∀ (l : List RNode), shps l = true → condsOKs l = true → Reduce.okRaws (Reduce.ofRaws l) = true
  | [], _, _ => by simp [Reduce.ofRaws, Reduce.okRaws]
  | x :: xs, h, hc => by
    rw [shps] at h
    rw [condsOKs] at hc
    simp only [Bool.and_eq_true] at h hc
    rw [Reduce.ofRaws, Reduce.okRaws, okRaw_of_shp x h.1 hc.1, okRaws_of_shps xs h.2 hc.2]
    rfl
end

/-- **J2 up to the residual condition**: the tree the parser returns has the node shapes the reducer assumes, provided
    every ExprCond of it has its condition (at least two children) -/
theorem rawShapeOk_of_parse (t : RawTree) (h : parse E = .ok t) (hc : condsOK t.root = true) :
    Reduce.RawShapeOk t = true := by
  have hs := shp_parseFuel E _ (Nat.lt_succ_self _) t h
  have hroot := parseFuel_root E _ (Nat.lt_succ_self _) t h
  unfold Reduce.RawShapeOk Reduce.okRawTree
  rw [okRaw_of_shp t.root hs hc, Bool.true_and]
  cases hr : t.root with
  | mk tt o ch str set m n kids =>
    rw [hr] at hroot
    simp only [RNode.t, RNode.kids] at hroot
    have hl : (Reduce.ofRaws kids).length = kids.length := by
      clear hroot hr
      induction kids with
      | nil => simp [Reduce.ofRaws]
      | cons a l ih => simp [Reduce.ofRaws, ih]
    simp only [Reduce.ofRaw, Reduce.Node.t, Reduce.Node.kids, hl, hroot.1, hroot.2.2]
    rfl

end RegexVerif.Parser
