/-
The hypotheses of the chain theorem (`RawShapeOk`, `PrescanAgrees`: Lemmas/Chain.lean) follow from the decidable
`Parser.wfTree` — what the driver evaluates on every `ok` answer of leg Pr, and the statement `parse_wf` the parser
slice is after — together with two facts `wfTree` does not record: the shape of the capture tables (`TablesOk`) and
`M = 0` on Group nodes (`groupsZero`; `newRegexNode(NtGroup, …)` never sets `M`).
-/
import RegexVerif.Lemmas.Chain

namespace RegexVerif.Lemmas.Chain
open RegexVerif RegexVerif.Writer RegexVerif.Reduce

/-! ### the writer's slot map has values in `[0, Capsize)` -/

theorem mapSet_vals {B : Int} : ∀ (m : List (Int × Int)) (k v : Int), (∀ p ∈ m, 0 ≤ p.2 ∧ p.2 < B) → 0 ≤ v → v < B →
    ∀ p ∈ mapSet m k v, 0 ≤ p.2 ∧ p.2 < B
  | [], k, v, _, h0, h1 => by
    intro p hp
    simp only [mapSet, List.mem_singleton] at hp
    subst hp
    exact ⟨h0, h1⟩
  | (k', v') :: rest, k, v, hm, h0, h1 => by
    intro p hp
    rw [mapSet] at hp
    split at hp
    · rcases List.mem_cons.mp hp with h | h
      · subst h; exact ⟨h0, h1⟩
      · exact hm p h
    · split at hp
      · rcases List.mem_cons.mp hp with h | h
        · subst h; exact ⟨h0, h1⟩
        · exact hm p (List.mem_cons_of_mem _ h)
      · rcases List.mem_cons.mp hp with h | h
        · subst h; exact hm _ (List.mem_cons_self ..)
        · exact mapSet_vals rest k v (fun q hq => hm q (List.mem_cons_of_mem _ hq)) h0 h1 p h

theorem setSlots_vals {B : Int} : ∀ (l : List Int) (m : List (Int × Int)) (i : Nat), (∀ p ∈ m, 0 ≤ p.2 ∧ p.2 < B) →
    (i : Int) + l.length ≤ B → ∀ p ∈ setSlots m l i, 0 ≤ p.2 ∧ p.2 < B
  | [], m, i, hm, _ => by rw [setSlots]; exact hm
  | k :: ks, m, i, hm, hb => by
    rw [setSlots]
    simp only [List.length_cons] at hb
    exact setSlots_vals ks _ (i + 1) (mapSet_vals m k i hm (by omega) (by omega)) (by omega)

theorem mapGet_range {B : Int} (hB : 0 < B) (m : List (Int × Int)) (hm : ∀ p ∈ m, 0 ≤ p.2 ∧ p.2 < B) (k : Int) :
    0 ≤ mapGet m k ∧ mapGet m k < B := by
  unfold mapGet
  split
  · rename_i p hp
    exact hm p (List.mem_of_find?_eq_some hp)
  · exact ⟨Int.le_refl 0, hB⟩

/-! ### the table facts -/

/-- the capture tables as `assignNameSlots` leaves them, as far as the writer's slot map needs: group 0 is registered,
    every key is at most `MaxInt32`; without a `Capnumlist` every key is below `Captop` (dense numbering), with one
    it is not empty and `Captop` differs from its length (so the writer builds the sparse map) -/
def TablesOk (tb : Groups.Tables) : Bool :=
  tb.caps.contains 0 && tb.caps.all (fun k => decide (k ≤ Parser.maxInt32)) &&
  (match tb.capnumlist with
   | none => tb.caps.all (fun k => decide (k < tb.captop))
   | some l => !l.isEmpty && !(tb.captop == l.length))

/-- every registered group number maps to a slot -/
theorem slotOf_of_mem (t : Parser.RawTree) (h : TablesOk t.tables = true) (g : Nat) (hg : g ∈ t.tables.caps) :
    slotOf t (g : Int) = true := by
  simp only [TablesOk, Bool.and_eq_true] at h
  obtain ⟨⟨_, _⟩, h3⟩ := h
  have hne : ((g : Int) == -1) = false := by
    have : (g : Int) ≠ -1 := by omega
    simpa using this
  unfold slotOf slotOk mapCapnum mainCfg capsize writerCaps treeInfo
  simp only [hne, Bool.false_eq_true, if_false]
  cases hl : t.tables.capnumlist with
  | none =>
    rw [hl] at h3
    simp only [List.all_eq_true, decide_eq_true_eq] at h3
    have := h3 g hg
    simp only [Option.map_none, Bool.and_eq_true, decide_eq_true_eq]
    omega
  | some l =>
    rw [hl] at h3
    simp only [Bool.and_eq_true, Bool.not_eq_true', List.isEmpty_eq_false_iff, beq_eq_false_iff_ne, ne_eq] at h3
    have hlen : 0 < l.length := List.length_pos_iff.mpr h3.1
    have hneq : (((t.tables.captop : Nat) : Int) == (((l.map (fun (k : Nat) => (k : Int))).length : Nat) : Int)) = false := by
      have : ((t.tables.captop : Nat) : Int) ≠ ((l.length : Nat) : Int) := by omega
      simpa using this
    simp only [Option.map_some, hneq, Bool.false_eq_true, if_false, Bool.and_eq_true, decide_eq_true_eq]
    have hvals := setSlots_vals (B := ((l.length : Nat) : Int)) (l.map (fun (k : Nat) => (k : Int)))
      ((Groups.isort t.tables.caps).map (fun (k : Nat) => ((k : Int), (0 : Int)))) 0
      (by
        intro p hp
        rcases List.mem_map.mp hp with ⟨k, _, rfl⟩
        exact ⟨Int.le_refl 0, by omega⟩)
      (by simp)
    have := mapGet_range (B := ((l.length : Nat) : Int)) (by omega) _ hvals (g : Int)
    simp only [List.length_map, Int.toNat_natCast]
    exact this

/-! ### `wfTree` gives the two hypotheses -/

mutual
/-- every Group node has `M = 0` (`newRegexNode(NtGroup, opt)`) -/
def groupsZero : Parser.RNode → Bool
  | .mk t _ _ _ _ m _ kids => (!(t == .group) || m == 0) && groupsZeroL kids
def groupsZeroL : List Parser.RNode → Bool
  | [] => true
  | k :: ks => groupsZero k && groupsZeroL ks
end

theorem ofRaws_length : ∀ (l : List Parser.RNode), (ofRaws l).length = l.length
  | [] => by simp [ofRaws]
  | x :: xs => by simp [ofRaws, ofRaws_length xs]

theorem toMask_lt (o : Parser.Opts) : o.toMask < tagBase := by
  have h1 : (if o.i then 1 else 0) ≤ 1 := by split <;> omega
  have h2 : (if o.m then 2 else 0) ≤ 2 := by split <;> omega
  have h3 : (if o.n then 4 else 0) ≤ 4 := by split <;> omega
  have h4 : (if o.s then 16 else 0) ≤ 16 := by split <;> omega
  have h5 : (if o.x then 32 else 0) ≤ 32 := by split <;> omega
  have h6 : (if o.r then 64 else 0) ≤ 64 := by split <;> omega
  have h7 : (if o.e then 256 else 0) ≤ 256 := by split <;> omega
  have h8 : (if o.re2 then 512 else 0) ≤ 512 := by split <;> omega
  have h9 : (if o.u then 1024 else 0) ≤ 1024 := by split <;> omega
  unfold Parser.Opts.toMask tagBase
  omega

/-- the local condition of `wfTree` gives the shape the reducer assumes -/
theorem shape_of_nodeOk (caps : List Nat) (t : Parser.NT) (str : List Nat) (set : Option Class.Class) (m n : Int) (nk : Nat)
    (h : Parser.nodeOk caps t str set m n nk = true) :
    (shapeOk t.toNat nk || ((t.toNat == 24 || t.toNat == 25) && nk == 0)) = true ∧
    (t = .capture → shapeOk t.toNat nk = true) := by
  unfold Parser.nodeOk at h
  simp only [Bool.and_eq_true] at h
  have h1 := h.1.1.1.1.1
  cases t <;> simp [Parser.isLeafType, Parser.NT.toNat, shapeOk] at h1 ⊢ <;> omega

/-- the local condition of `wfTree` gives `capQ` with any slot test that accepts the registered numbers -/
theorem capQ_of_nodeOk (sl : Int → Bool) (caps : List Nat)
    (hsl : ∀ g ∈ caps, sl (g : Int) = true ∧ g ≤ Parser.maxInt32)
    (t : Parser.NT) (str : List Nat) (set : Option Class.Class) (m n : Int) (nk : Nat)
    (h : Parser.nodeOk caps t str set m n nk = true) (hz : (!(t == .group) || m == 0) = true) :
    capQ sl t.toNat m n = true := by
  unfold Parser.nodeOk at h
  simp only [Bool.and_eq_true] at h
  have hreg : ∀ (x : Int), (decide (0 ≤ x) && caps.contains x.toNat) = true → sl x = true ∧ 0 ≤ x ∧ x ≤ Reduce.maxInt32 := by
    intro x hx
    simp only [Bool.and_eq_true, decide_eq_true_eq, List.contains_iff_mem] at hx
    have := hsl _ hx.2
    have he : ((x.toNat : Nat) : Int) = x := by omega
    rw [he] at this
    refine ⟨this.1, hx.1, ?_⟩
    have h2 := this.2
    unfold Parser.maxInt32 at h2
    unfold Reduce.maxInt32
    omega
  have href := h.1.1.2
  have hcap := h.1.2
  by_cases h13 : t = .ref ∨ t = .backRefCond
  · have hc : (t.toNat == 13 || t.toNat == 33) = true := by rcases h13 with h | h <;> subst h <;> rfl
    have hr : (t == .ref || t == .backRefCond) = true := by rcases h13 with h | h <;> subst h <;> rfl
    simp only [hr, Bool.not_true, Bool.false_or] at href
    have := hreg m href
    simp only [capQ, hc, if_true, Bool.and_eq_true, decide_eq_true_eq]
    exact ⟨⟨this.2.1, this.2.2⟩, this.1⟩
  · by_cases h28 : t = .capture
    · subst h28
      simp only [show (Parser.NT.capture == Parser.NT.capture) = true from rfl, Bool.not_true, Bool.false_or, Bool.and_eq_true,
        Bool.or_eq_true, Bool.not_eq_true'] at hcap
      obtain ⟨⟨hm, hn⟩, hboth⟩ := hcap
      have hmax : (Reduce.maxInt32 : Int) = 2147483647 := rfl
      have hm' : m = -1 ∨ (sl m = true ∧ 0 ≤ m ∧ m ≤ Reduce.maxInt32) := by
        rcases hm with hm | hm
        · exact Or.inl (by simpa using hm)
        · exact Or.inr (hreg m (by simpa using hm))
      have hn' : n = -1 ∨ (sl n = true ∧ 0 ≤ n ∧ n ≤ Reduce.maxInt32) := by
        rcases hn with hn | hn
        · exact Or.inl (by simpa using hn)
        · exact Or.inr (hreg n (by simpa using hn))
      simp only [capQ, Parser.NT.toNat, show ((28 : Nat) == 13 || (28 : Nat) == 33) = false from rfl,
        show ((28 : Nat) == 28) = true from rfl, if_true, Bool.false_eq_true, if_false, Bool.and_eq_true, decide_eq_true_eq]
      refine ⟨⟨⟨⟨by omega, by omega⟩, by omega⟩, by omega⟩, ?_⟩
      rcases hn' with hn' | hn'
      · subst hn'
        simp only [show ((-1 : Int) == -1) = true from rfl, if_true]
        rcases hm' with hm' | hm'
        · subst hm'; simp at hboth
        · exact hm'.1
      · have hne : (n == -1) = false := by
          have : n ≠ -1 := by omega
          simpa using this
        simp only [hne, Bool.false_eq_true, if_false, Bool.and_eq_true, Bool.or_eq_true, beq_iff_eq]
        refine ⟨?_, hn'.1⟩
        rcases hm' with hm' | hm'
        · exact Or.inl hm'
        · exact Or.inr hm'.1
    · by_cases h29 : t = .group
      · subst h29
        simp only [show (Parser.NT.group == Parser.NT.group) = true from rfl, Bool.not_true, Bool.false_or] at hz
        simp only [capQ, Parser.NT.toNat, show ((29 : Nat) == 13 || (29 : Nat) == 33) = false from rfl,
          show ((29 : Nat) == 28) = false from rfl, show ((29 : Nat) == 29) = true from rfl, if_true, Bool.false_eq_true, if_false]
        exact hz
      · apply capQ_other <;> (cases t <;> simp_all [Parser.NT.toNat])

mutual
theorem raw_of_wfNode (sl : Int → Bool) (caps : List Nat) (hsl : ∀ g ∈ caps, sl (g : Int) = true ∧ g ≤ Parser.maxInt32) :
    ∀ (x : Parser.RNode), Parser.wfNode caps x = true → groupsZero x = true →
      okRaw (ofRaw x) = true ∧ capN sl (ofRaw x) = true
  | .mk t o ch str set m n kids, h, hz => by
    rw [Parser.wfNode] at h
    rw [groupsZero] at hz
    simp only [Bool.and_eq_true] at h hz
    have hk := raws_of_wfKids sl caps hsl kids h.2 hz.2
    have hs := shape_of_nodeOk caps t str set m n kids.length h.1
    have hq := capQ_of_nodeOk sl caps hsl t str set m n kids.length h.1 hz.1
    rw [ofRaw]
    refine ⟨?_, capN_mk_of sl (toMask_lt o) hq hk.2⟩
    rw [okRaw, ofRaws_length, hk.1, Bool.and_true]
    exact hs.1
theorem raws_of_wfKids (sl : Int → Bool) (caps : List Nat) (hsl : ∀ g ∈ caps, sl (g : Int) = true ∧ g ≤ Parser.maxInt32) :
    ∀ (l : List Parser.RNode), Parser.wfKids caps l = true → groupsZeroL l = true →
      okRaws (ofRaws l) = true ∧ capNs sl (ofRaws l) = true
  | [], _, _ => by simp [ofRaws, okRaws, capNs_nil]
  | x :: xs, h, hz => by
    rw [Parser.wfKids] at h
    rw [groupsZeroL] at hz
    simp only [Bool.and_eq_true] at h hz
    have h1 := raw_of_wfNode sl caps hsl x h.1 hz.1
    have h2 := raws_of_wfKids sl caps hsl xs h.2 hz.2
    rw [ofRaws, okRaws, capNs_cons, h1.1, h1.2, h2.1, h2.2]
    exact ⟨rfl, rfl⟩
end

/-- **`wfTree` gives J2 and J3.**  A raw tree that passes the decidable `Parser.wfTree` (evaluated by the driver on every
    `ok` answer of leg Pr; `parse_wf` is the statement that the parser only returns such trees), whose Group nodes have
    `M = 0` and whose capture tables have the shape `assignNameSlots` gives them, satisfies both hypotheses of the chain. -/
theorem chain_hyps_of_wfTree (t : Parser.RawTree) (hwf : Parser.wfTree t = true) (hz : groupsZero t.root = true)
    (htb : TablesOk t.tables = true) : RawShapeOk t = true ∧ PrescanAgrees t = true := by
  have hsl : ∀ g ∈ t.tables.caps, slotOf t (g : Int) = true ∧ g ≤ Parser.maxInt32 := by
    intro g hg
    refine ⟨slotOf_of_mem t htb g hg, ?_⟩
    simp only [TablesOk, Bool.and_eq_true, List.all_eq_true, decide_eq_true_eq] at htb
    exact htb.1.2 g hg
  simp only [Parser.wfTree, Bool.and_eq_true] at hwf
  obtain ⟨⟨⟨⟨hcap, _⟩, hnode⟩, h0⟩, _⟩ := hwf
  have hr := raw_of_wfNode (slotOf t) t.tables.caps hsl t.root hnode hz
  have h0' : slotOf t 0 = true := by
    have := (hsl 0 (by simpa using h0)).1
    simpa using this
  refine ⟨?_, ?_⟩
  · unfold RawShapeOk okRawTree
    rw [hr.1, Bool.true_and]
    cases hroot : t.root with
    | mk tt o ch str set m n kids =>
      rw [hroot] at hnode hcap
      rw [Parser.wfNode] at hnode
      simp only [Bool.and_eq_true] at hnode
      have htt : tt = .capture := by simpa [Parser.RNode.t] using hcap
      have := (shape_of_nodeOk _ _ _ _ _ _ _ hnode.1).2 htt
      simpa [ofRaw, Node.t, Node.kids, ofRaws_length] using this
  · unfold PrescanAgrees
    rw [h0', hr.2]
    rfl

end RegexVerif.Lemmas.Chain
