/-
Compiler correctness (C01 stage 3), part 1: the general lemmas about `Reach`, `Leads`, `Framed`, `Delivers`
(composition of code fragments) and about `CapRep` (what `Capture` / `uncapture` do to the denoted log).
-/
import RegexVerif.Model.Compile
import RegexVerif.Lemmas.VM
import RegexVerif.Lemmas.Writer
import RegexVerif.Lemmas.MatchBuilder
import RegexVerif.Lemmas.Spec

namespace RegexVerif.Compile
open RegexVerif.VM RegexVerif.Code RegexVerif.Writer RegexVerif.Spec RegexVerif

/-! ## reachability -/

theorem Reach.trans {p : Prog} {env : VM.Env} {a b c : VMState} (h1 : Reach p env a b) (h2 : Reach p env b c) :
    Reach p env a c := by
  induction h1 with
  | refl _ => exact h2
  | step hs _ ih => exact Reach.step hs (ih h2)

theorem Reach.single {p : Prog} {env : VM.Env} {s s' : VMState} {chk : Bool} (h : VM.step p env s = .next s' chk) :
    Reach p env s s' := Reach.step h (Reach.refl _)

theorem Leads.of_reach {X : Setup} {s s' : VMState} {Q : VMState → Prop} (h : Reach X.p X.env s s')
    (h2 : Leads X s' Q) : Leads X s Q := by
  obtain ⟨t, ht, hq⟩ := h2
  exact ⟨t, h.trans ht, hq⟩

theorem Leads.of_step {X : Setup} {s s' : VMState} {chk : Bool} {Q : VMState → Prop}
    (h : VM.step X.p X.env s = .next s' chk) (h2 : Leads X s' Q) : Leads X s Q :=
  Leads.of_reach (Reach.single h) h2

theorem Leads.here {X : Setup} {s : VMState} {Q : VMState → Prop} (h : Q s) : Leads X s Q := ⟨s, Reach.refl _, h⟩

theorem Leads.mono {X : Setup} {s : VMState} {Q Q' : VMState → Prop} (h : Leads X s Q) (hq : ∀ t, Q t → Q' t) :
    Leads X s Q' := by
  obtain ⟨t, ht, hqt⟩ := h
  exact ⟨t, ht, hq t hqt⟩

/-! ## frames -/

theorem Framed.append {p : Prog} {F G : List Int} (hF : Framed p F) (hG : Framed p G) : Framed p (F ++ G) := by
  induction hF with
  | nil => exact hG
  | cons c d rest hsz _ ih =>
    have : c :: (d ++ rest) ++ G = c :: (d ++ (rest ++ G)) := by simp
    rw [this]
    exact Framed.cons c d (rest ++ G) hsz ih

theorem Framed.one {p : Prog} (c : Int) (d : List Int) (h : VM.frameSize p c = some (d.length + 1)) :
    Framed p (c :: d) := by
  have := Framed.cons c d [] h Framed.nil
  simpa using this

/-- cutting back over whole frames -/
theorem cutFrames_framed {p : Prog} {F : List Int} (hF : Framed p F) :
    ∀ (T : List Int) (fuel : Nat), F.length ≤ fuel → VM.cutFrames p fuel F.length (F ++ T) = some T := by
  induction hF with
  | nil => intro T fuel _; cases fuel <;> simp [VM.cutFrames]
  | cons c d rest hsz _ ih =>
    intro T fuel hfuel
    cases fuel with
    | zero => simp at hfuel
    | succ fuel =>
      have hlen : (c :: (d ++ rest)).length = (d.length + rest.length) + 1 := by simp
      rw [hlen]
      simp only [List.cons_append, VM.cutFrames, hsz, List.append_assoc]
      have hc : d.length + 1 ≤ d.length + rest.length + 1 ∧
          d.length + 1 ≤ (d ++ (rest ++ T)).length + 1 := by simp
      rw [if_pos hc]
      have hd : (c :: (d ++ (rest ++ T))).drop (d.length + 1) = rest ++ T := by simp
      have hk : d.length + rest.length + 1 - (d.length + 1) = rest.length := by omega
      rw [hd, hk]
      exact ih T fuel (by simp at hfuel; omega)

/-! ## composing deliveries -/

theorem map_eq_flatMap_singleton {α β : Type} (f : α → β) (l : List α) : l.map f = l.flatMap (fun x => [f x]) := by
  induction l with
  | nil => rfl
  | cons x xs ih => simp [ih]

theorem flatMap_singleton_id {α : Type} (l : List α) : l.flatMap (fun x => [x]) = l := by
  induction l with
  | nil => rfl
  | cons x xs ih => simp [ih]


theorem Delivers.of_reach {X : Setup} {b : Nat} {T S S' : List Int} {C0 : List (Nat × Nat × Nat)} {rs : List St}
    {s s' : VMState} (h : Reach X.p X.env s s') (h2 : Delivers X b T S S' C0 rs s') : Delivers X b T S S' C0 rs s := by
  cases rs with
  | nil => exact Leads.of_reach h h2
  | cons r rs =>
    obtain ⟨F, hF, hl, hk⟩ := h2
    exact ⟨F, hF, Leads.of_reach h hl, hk⟩

theorem Delivers.of_step {X : Setup} {b : Nat} {T S S' : List Int} {C0 : List (Nat × Nat × Nat)} {rs : List St}
    {s s' : VMState} {chk : Bool} (h : VM.step X.p X.env s = .next s' chk) (h2 : Delivers X b T S S' C0 rs s') :
    Delivers X b T S S' C0 rs s := Delivers.of_reach (Reach.single h) h2

/-- the successes of a fragment entered above extra frames `F`, followed — once it is exhausted — by what the frames
    below deliver -/
theorem Delivers.append {X : Setup} {b : Nat} {T S S' Sm : List Int} {C0 C1 : List (Nat × Nat × Nat)}
    {F : List Int} (hF : Framed X.p F) {ys : List St} :
    ∀ (xs : List St) (s : VMState), Delivers X b (F ++ T) Sm S' C1 xs s →
      (∀ s'' v, FailAt X (F ++ T ++ [v]) Sm C1 s'' → Delivers X b T S S' C0 ys s'') →
      Delivers X b T S S' C0 (xs ++ ys) s := by
  intro xs
  induction xs with
  | nil =>
    intro s h1 h2
    obtain ⟨s', hr, v, hf⟩ := h1
    exact Delivers.of_reach hr (h2 s' v hf)
  | cons r xs ih =>
    intro s h1 h2
    obtain ⟨F2, hF2, hl, hk⟩ := h1
    refine ⟨F2 ++ F, hF2.append hF, ?_, ?_⟩
    · simpa only [List.append_assoc] using hl
    · intro s'' v hf
      exact ih s'' (hk s'' v (by simpa only [List.append_assoc] using hf)) h2

/-- sequencing: every success of the first fragment (ending at `mid`) is continued by the second fragment
    (ending at `b`), entered above the first one's frames -/
theorem Delivers.bind {X : Setup} {mid b : Nat} {T S Sm S' : List Int} {C0 : List (Nat × Nat × Nat)}
    {g : St → List St} :
    ∀ (rs : List St) (s : VMState), Delivers X mid T S Sm C0 rs s →
      (∀ r ∈ rs, ∀ (F : List Int) (s' : VMState) (v : Int), Framed X.p F → Entry X mid r.pos (F ++ T ++ [v]) Sm r.caps s' →
        Delivers X b (F ++ T) Sm S' r.caps (g r) s') →
      Delivers X b T S S' C0 (rs.flatMap g) s := by
  intro rs
  induction rs with
  | nil => intro s h1 _; exact h1
  | cons r rs ih =>
    intro s h1 h2
    obtain ⟨F, hF, ⟨s', hr, v, he⟩, hk⟩ := h1
    rw [List.flatMap_cons]
    refine Delivers.of_reach hr ?_
    refine Delivers.append hF (g r) s' (h2 r (by simp) F s' v hF he) ?_
    intro s'' v' hf
    exact ih s'' (hk s'' v' hf) (fun r' hr' => h2 r' (by simp [hr']))

/-- a fragment with exactly one success and no frames of its own -/
theorem Delivers.single {X : Setup} {b : Nat} {T S : List Int} {C0 : List (Nat × Nat × Nat)} {r : St} {s : VMState}
    {v : Int} (h : Leads X s (Entry X b r.pos (T ++ [v]) S C0)) (hc : r.caps = C0) : Delivers X b T S S C0 [r] s := by
  refine ⟨[], Framed.nil, h.mono (fun t ht => ⟨v, by simpa [hc] using ht⟩), ?_⟩
  intro s'' v' hf
  rw [hc] at hf
  exact Leads.here ⟨v', by simpa using hf⟩

theorem Delivers.cast {X : Setup} {b b' : Nat} {T S S' : List Int} {C0 : List (Nat × Nat × Nat)} {rs rs' : List St}
    {s : VMState} (h : Delivers X b T S S' C0 rs s) (hb : b = b') (hr : rs = rs') : Delivers X b' T S S' C0 rs' s := by
  subst hb; subst hr; exact h

/-- a failure, with the bottom slot it leaves -/
theorem Delivers.fail {X : Setup} {b : Nat} {T S S' : List Int} {C0 : List (Nat × Nat × Nat)} {s : VMState} {v : Int}
    (h : Leads X s (FailAt X (T ++ [v]) S C0)) : Delivers X b T S S' C0 [] s :=
  h.mono (fun t ht => ⟨v, ht⟩)

/-- a success followed by the rest: the shape of `Delivers` on a non-empty list -/
theorem Delivers.cons {X : Setup} {b : Nat} {T S S' : List Int} {C0 : List (Nat × Nat × Nat)} {r : St} {rs : List St}
    {s : VMState} {v : Int} (F : List Int) (hF : Framed X.p F) (h : Leads X s (Entry X b r.pos (F ++ T ++ [v]) S' r.caps))
    (hk : ∀ s'' v', FailAt X (F ++ T ++ [v']) S' r.caps s'' → Delivers X b T S S' C0 rs s'') :
    Delivers X b T S S' C0 (r :: rs) s := ⟨F, hF, h.mono (fun t ht => ⟨v, ht⟩), hk⟩

/-! ## captures -/

theorem slotLog_append (sl : Nat → Nat) (C D : List (Nat × Nat × Nat)) (c : Nat) :
    slotLog sl (C ++ D) c = slotLog sl C c ++ slotLog sl D c := by
  simp [slotLog, List.filter_append]

theorem slotLog_length (sl : Nat → Nat) (C : List (Nat × Nat × Nat)) (c : Nat) :
    (slotLog sl C c).length = 2 * (C.filter (fun x => sl x.1 == c)).length := by
  unfold slotLog
  induction C.filter (fun x => sl x.1 == c) with
  | nil => rfl
  | cons x xs ih => simp [List.flatMap_cons, ih]; omega

theorem capRep_init (sl : Nat → Nat) (N : Nat) : CapRep sl N { m := MatchBuilder.newMatch N, crawl := [] } [] := by
  have hcnt : ∀ c, MatchBuilder.cnt (MatchBuilder.newMatch N) c = 0 := by
    intro c
    simp [MatchBuilder.cnt, MatchBuilder.newMatch, List.getD_eq_getElem?_getD, List.getElem?_replicate]
    split <;> rfl
  have harr : ∀ c, MatchBuilder.arr (MatchBuilder.newMatch N) c = [] ∨ MatchBuilder.arr (MatchBuilder.newMatch N) c = [0, 0] := by
    intro c
    simp only [MatchBuilder.arr, MatchBuilder.newMatch, Lemmas.MatchBuilder.getD_set]
    split
    · right; rfl
    · left; simp [List.getD_eq_getElem?_getD, List.getElem?_replicate]; split <;> rfl
  refine ⟨by simp [MatchBuilder.newMatch], by simp [MatchBuilder.newMatch], rfl, by simp, ?_, ?_, ?_⟩
  · intro c _; simp [hcnt]
  · intro c _; simp [hcnt, slotLog]
  · intro c _
    rw [hcnt]
    rcases harr c with h | h <;> rw [h] <;> simp

/-- `Capture(slot, start, end)` appends the entry to the log -/
theorem capRep_capture {sl : Nat → Nat} {N : Nat} {R : MatchBuilder.Runner} {C : List (Nat × Nat × Nat)}
    (h : CapRep sl N R C) (g : Nat) (hg : sl g < N) (i j : Nat) :
    CapRep sl N (MatchBuilder.capture R (sl g) (i : Int) (j : Int)) (C ++ [(g, min i j, max i j - min i j)]) := by
  have hstart : (if (j : Int) < (i : Int) then ((j : Int), (i : Int)) else ((i : Int), (j : Int))) =
      (((min i j : Nat) : Int), ((max i j : Nat) : Int)) := by
    by_cases hji : j < i
    · have : (j : Int) < (i : Int) := by omega
      rw [if_pos this, Nat.min_eq_right (by omega), Nat.max_eq_left (by omega)]
    · have : ¬ (j : Int) < (i : Int) := by omega
      rw [if_neg this, Nat.min_eq_left (by omega), Nat.max_eq_right (by omega)]
  have hlen : ((max i j : Nat) : Int) - ((min i j : Nat) : Int) = ((max i j - min i j : Nat) : Int) := by
    have : min i j ≤ max i j := by omega
    omega
  have hcap : MatchBuilder.capture R (sl g) (i : Int) (j : Int) =
      { m := MatchBuilder.addMatch R.m (sl g) ((min i j : Nat) : Int) ((max i j - min i j : Nat) : Int),
        crawl := sl g :: R.crawl } := by
    unfold MatchBuilder.capture
    rw [hstart]
    simp only [hlen]
  rw [hcap, Lemmas.MatchBuilder.addMatch_eq]
  have hc : sl g < R.m.matchcount.length := by rw [h.mlen]; exact hg
  have hupd := fun c' => Lemmas.MatchBuilder.arr_update R.m (sl g)
    (Lemmas.MatchBuilder.addSlot (MatchBuilder.arr R.m (sl g)) (MatchBuilder.cnt R.m (sl g)) ((min i j : Nat) : Int)
      ((max i j - min i j : Nat) : Int)) (MatchBuilder.cnt R.m (sl g) + 1) R.m.balancing hc (by rw [h.alen, h.mlen]) c'
  have hs := Lemmas.MatchBuilder.addSlot_spec (MatchBuilder.arr R.m (sl g)) (MatchBuilder.cnt R.m (sl g))
    ((min i j : Nat) : Int) ((max i j - min i j : Nat) : Int) (h.room _ hg)
  refine ⟨by simp [h.mlen], by simp [h.alen], ?_, ?_, ?_, ?_, ?_⟩
  · simp [h.crawl]
  · intro x hx
    simp only [List.mem_append, List.mem_singleton] at hx
    rcases hx with hx | rfl
    · exact h.inr x hx
    · exact hg
  · intro c hcN
    rw [(hupd c).2]
    simp only [List.filter_append, List.length_append]
    by_cases hcc : c = sl g
    · subst hcc; simp [h.cnt _ hcN]
    · have : ¬ sl g = c := fun e => hcc e.symm
      simp [hcc, this, h.cnt c hcN]
  · intro c hcN
    rw [(hupd c).1, (hupd c).2, slotLog_append]
    by_cases hcc : c = sl g
    · subst hcc
      simp only [if_true]
      rw [hs.1, h.live _ hcN]
      simp [slotLog]
    · have : ¬ sl g = c := fun e => hcc e.symm
      simp only [hcc, if_false]
      rw [h.live c hcN]
      simp [slotLog, this]
  · intro c hcN
    rw [(hupd c).1, (hupd c).2]
    by_cases hcc : c = sl g
    · subst hcc; simp only [if_true]; exact hs.2
    · simp only [hcc, if_false]; exact h.room c hcN

/-- `uncapture()` removes the last entry of the log -/
theorem capRep_uncapture {sl : Nat → Nat} {N : Nat} {R : MatchBuilder.Runner} {C : List (Nat × Nat × Nat)}
    {x : Nat × Nat × Nat} (h : CapRep sl N R (C ++ [x])) :
    ∃ rest, R.crawl = sl x.1 :: rest ∧ CapRep sl N (MatchBuilder.uncapture R) C := by
  have hcrawl : R.crawl = sl x.1 :: (C.map (fun x => sl x.1)).reverse := by simp [h.crawl]
  refine ⟨_, hcrawl, ?_⟩
  have hx : sl x.1 < N := h.inr x (by simp)
  have hun : MatchBuilder.uncapture R = { m := MatchBuilder.removeMatch R.m (sl x.1), crawl := (C.map (fun x => sl x.1)).reverse } := by
    unfold MatchBuilder.uncapture; rw [hcrawl]
  rw [hun]
  have hcntx : MatchBuilder.cnt R.m (sl x.1) = (C.filter (fun y => sl y.1 == sl x.1)).length + 1 := by
    rw [h.cnt _ hx]; simp [List.filter_append]
  have hcnt' : ∀ c', MatchBuilder.cnt (MatchBuilder.removeMatch R.m (sl x.1)) c' =
      (if c' = sl x.1 then MatchBuilder.cnt R.m (sl x.1) - 1 else MatchBuilder.cnt R.m c') := by
    intro c'
    simp only [MatchBuilder.removeMatch, MatchBuilder.cnt, Lemmas.MatchBuilder.getD_set]
    by_cases hc : sl x.1 = c'
    · subst hc; simp [h.mlen, hx]
    · have h' : ¬ c' = sl x.1 := fun e => hc e.symm
      simp [hc, h']
  have harr' : ∀ c', MatchBuilder.arr (MatchBuilder.removeMatch R.m (sl x.1)) c' = MatchBuilder.arr R.m c' := fun _ => rfl
  refine ⟨by simp [MatchBuilder.removeMatch, h.mlen], by simp [MatchBuilder.removeMatch, h.alen], rfl,
    fun y hy => h.inr y (by simp [hy]), ?_, ?_, ?_⟩
  · intro c hcN
    rw [hcnt' c]
    by_cases hcc : c = sl x.1
    · subst hcc; simp only [if_true]; rw [hcntx]; simp
    · have hne : ¬ sl x.1 = c := fun e => hcc e.symm
      simp only [hcc, if_false]; rw [h.cnt c hcN]; simp [List.filter_append, hne]
  · intro c hcN
    rw [hcnt' c, harr' c]
    have hl := h.live c hcN
    rw [slotLog_append] at hl
    by_cases hcc : c = sl x.1
    · subst hcc
      simp only [if_true]
      have hlast : slotLog sl [x] (sl x.1) = [(x.2.1 : Int), (x.2.2 : Int)] := by simp [slotLog]
      rw [hlast] at hl
      have hlen := slotLog_length sl C (sl x.1)
      have : MatchBuilder.cnt R.m (sl x.1) - 1 = (C.filter (fun y => sl y.1 == sl x.1)).length := by rw [hcntx]; simp
      rw [this]
      have h2 : (MatchBuilder.arr R.m (sl x.1)).take (2 * (C.filter (fun y => sl y.1 == sl x.1)).length) =
          ((MatchBuilder.arr R.m (sl x.1)).take (2 * MatchBuilder.cnt R.m (sl x.1))).take
            (2 * (C.filter (fun y => sl y.1 == sl x.1)).length) := by
        rw [List.take_take]; congr 1; rw [hcntx]; omega
      rw [h2, hl, ← hlen, List.take_left']
      rfl
    · have hne : ¬ sl x.1 = c := fun e => hcc e.symm
      simp only [hcc, if_false]
      have : slotLog sl [x] c = [] := by simp [slotLog, hne]
      rw [this, List.append_nil] at hl
      exact hl
  · intro c hcN
    rw [hcnt' c, harr' c]
    have := h.room c hcN
    by_cases hcc : c = sl x.1
    · subst hcc; simp only [if_true]; exact ⟨by omega, this.2⟩
    · simp only [hcc, if_false]; exact this

end RegexVerif.Compile
