/-
Helper lemmas about the specification semantics `Spec.m`.
-/
import RegexVerif.Model.Spec

namespace RegexVerif.Spec

/-- a state is well-formed for a text of length `n`: position and every capture inside the text -/
def St.wf (n : Nat) (st : St) : Prop := st.pos ≤ n ∧ ∀ c ∈ st.caps, c.2.1 + c.2.2 ≤ n

/-- `iter` preserves any predicate the body preserves -/
theorem iter_preserves (P : St → Prop) (f : St → List St) (hf : ∀ st, P st → ∀ st' ∈ f st, P st')
    (lzy : Bool) (lo : Nat) (hi : Option Nat) :
    ∀ (fuel cnt : Nat) (st : St), P st → ∀ st' ∈ iter f lzy lo hi fuel cnt st, P st' := by
  intro fuel
  induction fuel with
  | zero =>
    intro cnt st hst st' hmem
    simp only [iter] at hmem
    split at hmem
    · simp at hmem; subst hmem; exact hst
    · simp at hmem
  | succ fuel ih =>
    intro cnt st hst st' hmem
    simp only [iter] at hmem
    have hstop : ∀ x ∈ (if lo ≤ cnt then [st] else []), P x := by
      intro x hx; split at hx
      · simp at hx; subst hx; exact hst
      · simp at hx
    have hmore : ∀ x ∈ (if canGo hi cnt = true then
        (f st).flatMap (fun st' => if (st'.pos == st.pos && decide (lo ≤ cnt + 1)) = true then [st']
          else iter f lzy lo hi fuel (cnt + 1) st') else []), P x := by
      intro x hx
      split at hx
      · rw [List.mem_flatMap] at hx
        obtain ⟨y, hy, hxy⟩ := hx
        have hPy := hf st hst y hy
        split at hxy
        · simp at hxy; subst hxy; exact hPy
        · exact ih (cnt + 1) y hPy x hxy
      · simp at hx
    split at hmem
    · rw [List.mem_append] at hmem
      rcases hmem with h | h
      · exact hstop _ h
      · exact hmore _ h
    · rw [List.mem_append] at hmem
      rcases hmem with h | h
      · exact hmore _ h
      · exact hstop _ h

theorem stepChar_le (e : Env) (rtl : Bool) (pos r pos' : Nat) (h : stepChar e rtl pos = some (r, pos')) :
    pos' ≤ e.n := by
  unfold stepChar at h
  split at h
  · split at h
    · simp at h
    · rename_i hpos
      cases hget : e.text[pos - 1]? with
      | none => simp [hget] at h
      | some x =>
        simp [hget] at h
        have := (List.getElem?_eq_some_iff.mp hget).1
        unfold Env.n; omega
  · cases hget : e.text[pos]? with
    | none => simp [hget] at h
    | some x =>
      simp [hget] at h
      have := (List.getElem?_eq_some_iff.mp hget).1
      unfold Env.n; omega

theorem sliceEq_bound (e : Env) (ci : Bool) (s t len : Nat) (h : sliceEq e ci s t len = true) :
    len = 0 ∨ t + len ≤ e.text.length := by
  unfold sliceEq at h
  simp only [Bool.and_eq_true, beq_iff_eq, List.length_take, List.length_drop] at h
  have hb := h.1.2
  omega

theorem refMatch_le (e : Env) (ci rtl : Bool) (s len pos pos' : Nat) (hpos : pos ≤ e.n)
    (h : refMatch e ci rtl s len pos = some pos') : pos' ≤ e.n := by
  unfold refMatch at h
  by_cases hr : rtl = true
  · simp only [hr, if_true] at h
    by_cases hl : pos < len
    · simp [hl] at h
    · simp only [hl, if_false] at h
      by_cases hs : sliceEq e ci s (pos - len) len = true
      · simp [hs] at h; omega
      · simp [hs] at h
  · simp only [hr] at h
    by_cases hs : sliceEq e ci s pos len = true
    · simp [hs] at h
      have := sliceEq_bound e ci s pos len hs
      unfold Env.n at *; omega
    · simp [hs] at h

/-- **well-formedness is preserved by every pattern** -/
theorem m_wf (e : Env) (p : Pat) : ∀ (rtl : Bool) (st : St), st.wf e.n → ∀ st' ∈ m e p rtl st, st'.wf e.n := by
  induction p with
  | empty => intro rtl st h st' hm; simp [m] at hm; subst hm; exact h
  | nothing => intro rtl st h st' hm; simp [m] at hm
  | chr p =>
    intro rtl st h st' hm
    simp only [m] at hm
    split at hm
    · rename_i r pos' hstep
      split at hm
      · simp at hm; subst hm
        exact ⟨stepChar_le e rtl st.pos r pos' hstep, h.2⟩
      · simp at hm
    · simp at hm
  | anchor a =>
    intro rtl st h st' hm
    simp only [m] at hm
    split at hm
    · simp at hm; subst hm; exact h
    · simp at hm
  | seq a b iha ihb =>
    intro rtl st h st' hm
    simp only [m] at hm
    split at hm
    · rw [List.mem_flatMap] at hm
      obtain ⟨y, hy, hxy⟩ := hm
      exact iha rtl y (ihb rtl st h y hy) st' hxy
    · rw [List.mem_flatMap] at hm
      obtain ⟨y, hy, hxy⟩ := hm
      exact ihb rtl y (iha rtl st h y hy) st' hxy
  | alt a b iha ihb =>
    intro rtl st h st' hm
    simp only [m, List.mem_append] at hm
    rcases hm with hm | hm
    · exact iha rtl st h st' hm
    · exact ihb rtl st h st' hm
  | quant lzy lo hi body ih =>
    intro rtl st h st' hm
    simp only [m] at hm
    exact iter_preserves (St.wf e.n) (m e body rtl) (fun s hs s' hs' => ih rtl s hs s' hs') lzy lo hi _ 0 st h st' hm
  | cap g body ih =>
    intro rtl st h st' hm
    simp only [m, List.mem_map] at hm
    obtain ⟨y, hy, rfl⟩ := hm
    have hw := ih rtl st h y hy
    refine ⟨hw.1, ?_⟩
    intro c hc
    simp only [List.mem_append, List.mem_singleton] at hc
    rcases hc with hc | hc
    · exact hw.2 c hc
    · subst hc
      have h1 := h.1
      have h2 := hw.1
      simp only
      omega
  | look behind neg body ih =>
    intro rtl st h st' hm
    simp only [m] at hm
    split at hm
    · split at hm
      · simp at hm; subst hm; exact h
      · simp at hm
    · rename_i y ys heq
      split at hm
      · simp at hm
      · simp at hm
        have hw := ih behind st h y (by rw [heq]; simp)
        rw [hm]
        exact ⟨h.1, hw.2⟩
  | atomic body ih =>
    intro rtl st h st' hm
    simp only [m] at hm
    exact ih rtl st h st' (List.mem_of_mem_take hm)
  | ref g ci =>
    intro rtl st h st' hm
    simp only [m] at hm
    split at hm
    · simp at hm
    · rename_i s len hl
      split at hm
      · rename_i pos' hr
        simp at hm; subst hm
        exact ⟨refMatch_le e ci rtl s len st.pos pos' h.1 hr, h.2⟩
      · simp at hm
  | refCond g yes no ihy ihn =>
    intro rtl st h st' hm
    simp only [m] at hm
    split at hm
    · exact ihy rtl st h st' hm
    · exact ihn rtl st h st' hm
  | exprCond c yes no ihc ihy ihn =>
    intro rtl st h st' hm
    simp only [m] at hm
    split at hm
    · rename_i y ys heq
      have hw := ihc rtl st h y (by rw [heq]; simp)
      exact ihy rtl { pos := st.pos, caps := y.caps } ⟨h.1, hw.2⟩ st' hm
    · exact ihn rtl st h st' hm

end RegexVerif.Spec
