/-
Soundness of the set-valued over-approximations of `Model/SetFacts.lean` against the specification
semantics `Spec.m`: first-character sets (both directions), fixed-offset sets, leading literal strings,
the leading positive lookahead.
-/
import RegexVerif.Model.SetFacts
import RegexVerif.Lemmas.Facts

namespace RegexVerif.SetFacts
open RegexVerif.Spec RegexVerif.Facts

/-! ### symbolic sets -/

theorem memPreds_append (e : Env) (S T : List Pred) (r : Nat) :
    memPreds e (S ++ T) r = (memPreds e S r || memPreds e T r) := by
  simp [memPreds, List.any_append]

theorem memPreds_left {e : Env} {S : List Pred} {r : Nat} (T : List Pred) (h : memPreds e S r = true) :
    memPreds e (S ++ T) r = true := by
  rw [memPreds_append, h]; simp

theorem memPreds_right {e : Env} {T : List Pred} {r : Nat} (S : List Pred) (h : memPreds e T r = true) :
    memPreds e (S ++ T) r = true := by
  rw [memPreds_append, h]; simp

theorem memPreds_single (e : Env) (p : Pred) (r : Nat) : memPreds e [p] r = p.test e r := by
  simp [memPreds]

/-- the rune a step consumes is the rune `charAt` names, and the step moves -/
theorem stepChar_charAt (e : Env) (rtl : Bool) (pos r pos' : Nat) (h : stepChar e rtl pos = some (r, pos')) :
    charAt e rtl pos = some r ∧ pos' ≠ pos := by
  unfold stepChar at h
  unfold charAt
  cases rtl
  · simp only [Bool.false_eq_true, if_false] at h ⊢
    cases hget : e.text[pos]? with
    | none => simp [hget] at h
    | some x =>
      simp [hget] at h
      obtain ⟨rfl, rfl⟩ := h
      simp
  · simp only [if_true] at h ⊢
    split at h
    · simp at h
    · rename_i hp
      cases hget : e.text[pos - 1]? with
      | none => simp [hget] at h
      | some x =>
        simp [hget] at h
        obtain ⟨rfl, rfl⟩ := h
        simp [hp]; omega

theorem fwd_ne {rtl : Bool} {a b c : Nat} (h1 : Fwd rtl a b) (h2 : Fwd rtl b c) (hne : b ≠ a) : c ≠ a := by
  cases rtl <;> simp [Fwd] at h1 h2 <;> omega

/-! ### the first character -/

/-- the invariant of `first`: a success either consumed nothing (allowed only when `nul`) or moved, and
    then the first character in scan direction belongs to `S` -/
def FirstOK (e : Env) (rtl : Bool) (S : List Pred) (nul : Bool) (st st' : St) : Prop :=
  (nul = true ∧ st'.pos = st.pos) ∨
  (st'.pos ≠ st.pos ∧ ∃ r, charAt e rtl st.pos = some r ∧ memPreds e S r = true)

theorem FirstOK.same (e : Env) (rtl : Bool) (S : List Pred) (st st' : St) (h : st'.pos = st.pos) :
    FirstOK e rtl S true st st' := Or.inl ⟨rfl, h⟩

theorem FirstOK.left {e : Env} {rtl : Bool} {S : List Pred} {n : Bool} {st st' : St}
    (h : FirstOK e rtl S n st st') (T : List Pred) (k : Bool) : FirstOK e rtl (S ++ T) (n || k) st st' := by
  rcases h with ⟨hn, hp⟩ | ⟨hp, r, hr, hm⟩
  · exact Or.inl ⟨by simp [hn], hp⟩
  · exact Or.inr ⟨hp, r, hr, memPreds_left T hm⟩

theorem FirstOK.right {e : Env} {rtl : Bool} {T : List Pred} {k : Bool} {st st' : St}
    (h : FirstOK e rtl T k st st') (S : List Pred) (n : Bool) : FirstOK e rtl (S ++ T) (n || k) st st' := by
  rcases h with ⟨hn, hp⟩ | ⟨hp, r, hr, hm⟩
  · exact Or.inl ⟨by simp [hn], hp⟩
  · exact Or.inr ⟨hp, r, hr, memPreds_right S hm⟩

/-- two parts matched one after the other in scan order -/
theorem firstOK_seq {e : Env} {rtl : Bool} {x y : Option (List Pred × Bool)} {S : List Pred} {nul : Bool}
    (h : seqFirst x y = some (S, nul)) {st st1 st' : St}
    (hx : ∀ s n, x = some (s, n) → FirstOK e rtl s n st st1)
    (hy : ∀ s n, y = some (s, n) → FirstOK e rtl s n st1 st')
    (hf0 : Fwd rtl st.pos st1.pos) (hf1 : Fwd rtl st1.pos st'.pos) : FirstOK e rtl S nul st st' := by
  unfold seqFirst at h
  cases x with
  | none => simp at h
  | some xs =>
    obtain ⟨s, b⟩ := xs
    have hx' := hx s b rfl
    cases b with
    | false =>
      simp at h
      obtain ⟨rfl, rfl⟩ := h
      rcases hx' with ⟨hn, _⟩ | ⟨hp, r, hr, hm⟩
      · simp at hn
      · exact Or.inr ⟨fwd_ne hf0 hf1 hp, r, hr, hm⟩
    | true =>
      cases y with
      | none => simp at h
      | some ys =>
        obtain ⟨t, n⟩ := ys
        have hy' := hy t n rfl
        simp at h
        obtain ⟨rfl, rfl⟩ := h
        rcases hx' with ⟨_, hp1⟩ | ⟨hp, r, hr, hm⟩
        · rcases hy' with ⟨hn, hp2⟩ | ⟨hp2, r, hr, hm⟩
          · exact Or.inl ⟨hn, by rw [hp2, hp1]⟩
          · rw [hp1] at hp2 hr
            exact Or.inr ⟨hp2, r, hr, memPreds_right s hm⟩
        · exact Or.inr ⟨fwd_ne hf0 hf1 hp, r, hr, memPreds_left t hm⟩

theorem firstOK_alt {e : Env} {rtl : Bool} {x y : Option (List Pred × Bool)} {S : List Pred} {nul : Bool}
    (h : altFirst x y = some (S, nul)) {st st' : St}
    (hxy : (∀ s n, x = some (s, n) → FirstOK e rtl s n st st') ∨ (∀ s n, y = some (s, n) → FirstOK e rtl s n st st')) :
    FirstOK e rtl S nul st st' := by
  unfold altFirst at h
  cases x with
  | none => simp at h
  | some xs =>
    cases y with
    | none => simp at h
    | some ys =>
      obtain ⟨s, m⟩ := xs
      obtain ⟨t, n⟩ := ys
      simp at h
      obtain ⟨rfl, rfl⟩ := h
      rcases hxy with hx | hy
      · exact (hx s m rfl).left t n
      · exact (hy t n rfl).right s m

/-- a chain of body iterations: nothing consumed only if the body is nullable or there is no iteration -/
theorem chain_first (e : Env) (rtl : Bool) (S : List Pred) (nb : Bool) (f : St → List St)
    (hf : ∀ s, ∀ y ∈ f s, Fwd rtl s.pos y.pos ∧ FirstOK e rtl S nb s y) :
    ∀ {j : Nat} {s s' : St}, Chain f j s s' → Fwd rtl s.pos s'.pos ∧ FirstOK e rtl S (nb || j == 0) s s' := by
  intro j s s' hc
  induction hc with
  | zero s => exact ⟨Fwd.refl _ _, Or.inl ⟨by simp, rfl⟩⟩
  | succ hy hrest ih =>
    rename_i j s y s'
    obtain ⟨h1, h2⟩ := hf _ _ hy
    obtain ⟨h3, h4⟩ := ih
    refine ⟨h1.trans h3, ?_⟩
    rcases h2 with ⟨hn, hp1⟩ | ⟨hp, r, hr, hm⟩
    · rcases h4 with ⟨_, hp2⟩ | ⟨hp2, r, hr, hm⟩
      · exact Or.inl ⟨by simp [hn], by rw [hp2, hp1]⟩
      · rw [hp1] at hp2 hr
        exact Or.inr ⟨hp2, r, hr, hm⟩
    · exact Or.inr ⟨fwd_ne h1 h3 hp, r, hr, hm⟩

theorem first_ok (e : Env) (p : Pat) :
    ∀ (rtl : Bool) (S : List Pred) (nul : Bool), first p rtl = some (S, nul) →
      ∀ (st : St), ∀ st' ∈ m e p rtl st, FirstOK e rtl S nul st st' := by
  induction p with
  | empty =>
    intro rtl S nul h st st' hm
    simp [first] at h; obtain ⟨rfl, rfl⟩ := h
    simp [m] at hm; subst hm; exact FirstOK.same _ _ _ _ _ rfl
  | nothing => intro rtl S nul h st st' hm; simp [m] at hm
  | chr p =>
    intro rtl S nul h st st' hm
    simp [first] at h; obtain ⟨rfl, rfl⟩ := h
    simp only [m] at hm
    split at hm
    · rename_i r pos' hstep
      split at hm
      · rename_i htest
        simp at hm; subst hm
        obtain ⟨hc, hne⟩ := stepChar_charAt e rtl st.pos r pos' hstep
        exact Or.inr ⟨hne, r, hc, by rw [memPreds_single]; exact htest⟩
      · simp at hm
    · simp at hm
  | anchor a =>
    intro rtl S nul h st st' hm
    simp [first] at h; obtain ⟨rfl, rfl⟩ := h
    simp only [m] at hm
    split at hm
    · simp at hm; subst hm; exact FirstOK.same _ _ _ _ _ rfl
    · simp at hm
  | seq a b iha ihb =>
    intro rtl S nul h st st' hm
    simp only [first] at h
    simp only [m] at hm
    cases rtl with
    | true =>
      simp only [if_true] at h hm
      rw [List.mem_flatMap] at hm
      obtain ⟨y, hy, hxy⟩ := hm
      exact firstOK_seq h (fun s n hs => ihb true s n hs st y hy) (fun s n hs => iha true s n hs y st' hxy)
        (m_fwd e b true st y hy) (m_fwd e a true y st' hxy)
    | false =>
      simp only [Bool.false_eq_true, if_false] at h hm
      rw [List.mem_flatMap] at hm
      obtain ⟨y, hy, hxy⟩ := hm
      exact firstOK_seq h (fun s n hs => iha false s n hs st y hy) (fun s n hs => ihb false s n hs y st' hxy)
        (m_fwd e a false st y hy) (m_fwd e b false y st' hxy)
  | alt a b iha ihb =>
    intro rtl S nul h st st' hm
    simp only [first] at h
    simp only [m, List.mem_append] at hm
    rcases hm with hm | hm
    · exact firstOK_alt h (Or.inl (fun s n hs => iha rtl s n hs st st' hm))
    · exact firstOK_alt h (Or.inr (fun s n hs => ihb rtl s n hs st st' hm))
  | quant lzy lo hi body ih =>
    intro rtl S nul h st st' hm
    simp only [first] at h
    cases hb : first body rtl with
    | none => simp [hb] at h
    | some sb =>
      obtain ⟨s, n⟩ := sb
      simp [hb] at h
      obtain ⟨rfl, rfl⟩ := h
      obtain ⟨j, hc, hlo, _⟩ := quant_chain e lzy lo hi body rtl st st' hm
      have := (chain_first e rtl s n (m e body rtl)
        (fun x y hy => ⟨m_fwd e body rtl x y hy, ih rtl s n hb x y hy⟩) hc).2
      rcases this with ⟨hn, hp⟩ | hr
      · refine Or.inl ⟨?_, hp⟩
        simp at hn ⊢
        rcases hn with hn | hn
        · exact Or.inl hn
        · exact Or.inr (by omega)
      · exact Or.inr hr
  | cap g body ih =>
    intro rtl S nul h st st' hm
    simp only [first] at h
    simp only [m, List.mem_map] at hm
    obtain ⟨y, hy, rfl⟩ := hm
    exact ih rtl S nul h st y hy
  | look behind neg body ih =>
    intro rtl S nul h st st' hm
    simp [first] at h; obtain ⟨rfl, rfl⟩ := h
    exact FirstOK.same _ _ _ _ _ (skippable_pos e (.look behind neg body) rfl rtl st st' hm)
  | atomic body ih =>
    intro rtl S nul h st st' hm
    simp only [first] at h
    simp only [m] at hm
    exact ih rtl S nul h st st' (List.mem_of_mem_take hm)
  | ref g ci => intro rtl S nul h; simp [first] at h
  | refCond g yes no ihy ihn =>
    intro rtl S nul h st st' hm
    simp only [first] at h
    simp only [m] at hm
    split at hm
    · exact firstOK_alt h (Or.inl (fun s n hs => ihy rtl s n hs st st' hm))
    · exact firstOK_alt h (Or.inr (fun s n hs => ihn rtl s n hs st st' hm))
  | exprCond c yes no ihc ihy ihn =>
    intro rtl S nul h st st' hm
    simp only [first] at h
    simp only [m] at hm
    split at hm
    · rename_i y ys heq
      exact firstOK_alt h (Or.inl (fun s n hs => ihy rtl s n hs { pos := st.pos, caps := y.caps } st' hm))
    · exact firstOK_alt h (Or.inr (fun s n hs => ihn rtl s n hs st st' hm))

/-! ### fixed widths and fixed offsets -/

theorem width_ok (e : Env) (p : Pat) (w : Nat) (h : width p = some w) (st st' : St)
    (hm : st' ∈ m e p false st) : st'.pos = st.pos + w := by
  unfold width at h
  split at h
  · rename_i hk
    simp at h; subst h
    have h1 := minLen_span e p false st st' hm
    have h2 := maxLen_span e p false st st' hm _ hk
    have h3 := m_fwd e p false st st' hm
    simp [span, Fwd] at h1 h2 h3
    omega
  · simp at h

/-- in a chain of iterations of fixed width `w`, iteration `i` starts `i * w` after the chain's start -/
theorem chain_nth (f : St → List St) (w : Nat) (hf : ∀ s, ∀ y ∈ f s, y.pos = s.pos + w) :
    ∀ {j : Nat} {s s' : St}, Chain f j s s' → ∀ i, i < j → ∃ si y, si.pos = s.pos + i * w ∧ y ∈ f si := by
  intro j s s' hc
  induction hc with
  | zero s => intro i hi; omega
  | succ hy hrest ih =>
    rename_i j s y s'
    intro i hi
    cases i with
    | zero => exact ⟨s, y, by simp, hy⟩
    | succ i =>
      obtain ⟨si, z, hp, hz⟩ := ih i (by omega)
      refine ⟨si, z, ?_, hz⟩
      rw [hp, hf _ _ hy, Nat.succ_mul]; omega

theorem chain_head {f : St → List St} {j : Nat} {s s' : St} (hc : Chain f j s s') (hj : 0 < j) :
    ∃ y, y ∈ f s := by
  cases hc with
  | zero => omega
  | succ hy _ => exact ⟨_, hy⟩

/-- the statement of `setAt`: the character `k` positions after the start exists and is in the set -/
def AtOK (e : Env) (S : List Pred) (pos k : Nat) : Prop :=
  ∃ r, e.text[pos + k]? = some r ∧ memPreds e S r = true

theorem atOK_both {e : Env} {x y : Option (List Pred)} {S : List Pred} {pos k : Nat} (h : both x y = some S)
    (hxy : (∀ s, x = some s → AtOK e s pos k) ∨ (∀ s, y = some s → AtOK e s pos k)) : AtOK e S pos k := by
  unfold both at h
  cases x with
  | none => simp at h
  | some s =>
    cases y with
    | none => simp at h
    | some t =>
      simp at h; subst h
      rcases hxy with hx | hy
      · obtain ⟨r, hr, hm⟩ := hx s rfl
        exact ⟨r, hr, memPreds_left t hm⟩
      · obtain ⟨r, hr, hm⟩ := hy t rfl
        exact ⟨r, hr, memPreds_right s hm⟩

theorem setAt_ok (e : Env) (p : Pat) :
    ∀ (k : Nat) (S : List Pred), setAt p k = some S →
      ∀ (st : St), ∀ st' ∈ m e p false st, AtOK e S st.pos k := by
  induction p with
  | empty => intro k S h; simp [setAt] at h
  | nothing => intro k S h; simp [setAt] at h
  | anchor a => intro k S h; simp [setAt] at h
  | look behind neg body ih => intro k S h; simp [setAt] at h
  | ref g ci => intro k S h; simp [setAt] at h
  | chr p =>
    intro k S h st st' hm
    simp only [setAt] at h
    split at h
    · rename_i hk
      simp at h; subst h; subst hk
      simp only [m] at hm
      split at hm
      · rename_i r pos' hstep
        split at hm
        · rename_i htest
          have := (stepChar_spec e false st.pos r pos' hstep).2.2 rfl
          exact ⟨r, by simpa using this.1, by rw [memPreds_single]; exact htest⟩
        · simp at hm
      · simp at hm
    · simp at h
  | seq a b iha ihb =>
    intro k S h st st' hm
    simp only [m, Bool.false_eq_true, if_false] at hm
    rw [List.mem_flatMap] at hm
    obtain ⟨y, hy, hxy⟩ := hm
    simp only [setAt] at h
    split at h
    · rename_i s hs
      simp at h; subst h
      exact iha k s hs st y hy
    · split at h
      · rename_i w hw
        split at h
        · rename_i hle
          have hp := width_ok e a w hw st y hy
          obtain ⟨r, hr, hm⟩ := ihb (k - w) S h y st' hxy
          refine ⟨r, ?_, hm⟩
          have : y.pos + (k - w) = st.pos + k := by omega
          rw [← this]; exact hr
        · simp at h
      · simp at h
  | alt a b iha ihb =>
    intro k S h st st' hm
    simp only [setAt] at h
    simp only [m, List.mem_append] at hm
    rcases hm with hm | hm
    · exact atOK_both h (Or.inl (fun s hs => iha k s hs st st' hm))
    · exact atOK_both h (Or.inr (fun s hs => ihb k s hs st st' hm))
  | quant lzy lo hi body ih =>
    intro k S h st st' hm
    obtain ⟨j, hc, hlo, _⟩ := quant_chain e lzy lo hi body false st st' hm
    simp only [setAt] at h
    split at h
    · simp at h
    · rename_i hlo0
      have hfirst : ∀ S', setAt body k = some S' → AtOK e S' st.pos k := by
        intro S' hS'
        obtain ⟨y, hy⟩ := chain_head hc (by omega)
        exact ih k S' hS' st y hy
      split at h
      · rename_i w hw
        split at h
        · rename_i hcond
          obtain ⟨si, y, hp, hy⟩ := chain_nth (m e body false) w
            (fun s y hy => width_ok e body w hw s y hy) hc (k / w) (by omega)
          obtain ⟨r, hr, hm⟩ := ih (k % w) S h si y hy
          refine ⟨r, ?_, hm⟩
          have : si.pos + k % w = st.pos + k := by
            have := Nat.div_add_mod k w
            rw [hp, Nat.mul_comm]; omega
          rw [← this]; exact hr
        · exact hfirst S h
      · exact hfirst S h
  | cap g body ih =>
    intro k S h st st' hm
    simp only [setAt] at h
    simp only [m, List.mem_map] at hm
    obtain ⟨y, hy, rfl⟩ := hm
    exact ih k S h st y hy
  | atomic body ih =>
    intro k S h st st' hm
    simp only [setAt] at h
    simp only [m] at hm
    exact ih k S h st st' (List.mem_of_mem_take hm)
  | refCond g yes no ihy ihn =>
    intro k S h st st' hm
    simp only [setAt] at h
    simp only [m] at hm
    split at hm
    · exact atOK_both h (Or.inl (fun s hs => ihy k s hs st st' hm))
    · exact atOK_both h (Or.inr (fun s hs => ihn k s hs st st' hm))
  | exprCond c yes no ihc ihy ihn =>
    intro k S h st st' hm
    simp only [setAt] at h
    simp only [m] at hm
    split at hm
    · rename_i y ys heq
      exact atOK_both h (Or.inl (fun s hs => ihy k s hs { pos := st.pos, caps := y.caps } st' hm))
    · exact atOK_both h (Or.inr (fun s hs => ihn k s hs st st' hm))

/-! ### leading strings -/

/-- the normalised text -/
def ntext (e : Env) (norm : Nat → Nat) : List Nat := e.text.map norm

/-- the invariant of `prefixes`: the normalised text at `i` starts with one of the strings, and when the
    analysis says "exact" that string is as long as what was consumed up to `j` -/
def PrefsOK (e : Env) (norm : Nat → Nat) (r : List (List Nat) × Bool) (i j : Nat) : Prop :=
  ∃ l ∈ r.1, l <+: (ntext e norm).drop i ∧ (r.2 = true → i + l.length = j)

theorem PrefsOK.trivial (e : Env) (norm : Nat → Nat) (i j : Nat) : PrefsOK e norm ([[]], false) i j :=
  ⟨[], by simp, List.nil_prefix, by simp⟩

theorem PrefsOK.nil_same (e : Env) (norm : Nat → Nat) (c : Bool) (i : Nat) : PrefsOK e norm ([[]], c) i i :=
  ⟨[], by simp, List.nil_prefix, fun _ => by simp⟩

theorem PrefsOK.weaken {e : Env} {norm : Nat → Nat} {L : List (List Nat)} {c : Bool} {i j : Nat}
    (h : PrefsOK e norm (L, c) i j) (k : Nat) : PrefsOK e norm (L, false) i k := by
  obtain ⟨l, hl, hp, _⟩ := h
  exact ⟨l, hl, hp, by simp⟩

theorem mem_cross {A B : List (List Nat)} {a b : List Nat} (ha : a ∈ A) (hb : b ∈ B) : a ++ b ∈ cross A B := by
  unfold cross
  rw [List.mem_flatMap]
  exact ⟨a, ha, List.mem_map.mpr ⟨b, hb, rfl⟩⟩

/-- a string at `i` followed by a string right behind it -/
theorem prefix_concat {t : List Nat} {i : Nat} {l1 l2 : List Nat} (h1 : l1 <+: t.drop i)
    (h2 : l2 <+: t.drop (i + l1.length)) : (l1 ++ l2) <+: t.drop i := by
  obtain ⟨u, hu⟩ := h1
  have : t.drop (i + l1.length) = u := by
    rw [← List.drop_drop, ← hu]; simp
  rw [this] at h2
  rw [← hu]
  exact (List.prefix_append_right_inj l1).mpr h2

theorem pureMem_ok (e : Env) (c : Cls) : ∀ (f : Nat → Bool), pureMem c = some f → ∀ r, c.mem e false r = f r := by
  induction c with
  | base neg rs ns =>
    intro f h r
    simp only [pureMem] at h
    split at h
    · rename_i hns
      simp at h; subst h
      have : ns = [] := by simpa using hns
      subst this
      simp [Cls.mem, inNames]
    · simp at h
  | diff a b iha ihb =>
    intro f h r
    simp only [pureMem] at h
    split at h
    · rename_i fa fb ha hb
      simp at h; subst h
      simp [Cls.mem, iha fa ha r, ihb fb hb r]
    · simp at h

theorem clsChars_ok (e : Env) (maxCount : Nat) (c : Cls) :
    ∀ (cs : List Nat), clsChars maxCount c = some cs → ∀ r, c.mem e false r = true → r ∈ cs := by
  induction c with
  | base neg rs ns =>
    intro cs h r ht
    simp only [clsChars] at h
    split at h
    · rename_i hc
      obtain ⟨hneg, hns, _⟩ := hc
      simp at h; subst h
      have : ns = [] := by simpa using hns
      subst this; subst hneg
      simp [Cls.mem, inNames, inRanges] at ht
      obtain ⟨a, b, hab, h1, h2⟩ := ht
      rw [List.mem_flatMap]
      refine ⟨(a, b), hab, ?_⟩
      rw [List.mem_range'_1]
      simp; omega
    · simp at h
  | diff a b iha ihb =>
    intro cs h r ht
    simp only [Cls.mem, Bool.and_eq_true, Bool.not_eq_true'] at ht
    simp only [clsChars] at h
    split at h
    · rename_i ca hca
      have hra := iha ca hca r ht.1
      split at h
      · rename_i g hg
        simp at h; subst h
        rw [List.mem_filter]
        refine ⟨hra, ?_⟩
        rw [← pureMem_ok e b g hg r, ht.2]; rfl
      · simp at h; subst h; exact hra
    · simp at h

theorem setChars_ok (e : Env) (maxCount : Nat) (pr : Pred) (cs : List Nat) (h : setChars maxCount pr = some cs)
    (r : Nat) (ht : pr.test e r = true) : r ∈ cs := by
  unfold setChars at h
  split at h
  · rename_i c
    simp at h; subst h
    simp [Pred.test] at ht
    simp [ht]
  · rename_i c
    exact clsChars_ok e maxCount c cs h r (by simpa [Pred.test] using ht)
  · simp at h

theorem normChars_mem (norm : Nat → Nat) (cs : List Nat) (r : Nat) (h : r ∈ cs) : norm r ∈ normChars norm cs := by
  unfold normChars
  rw [List.mem_eraseDups]
  exact List.mem_map.mpr ⟨r, h, rfl⟩

theorem text_step (e : Env) (norm : Nat → Nat) (i r : Nat) (h : e.text[i]? = some r) :
    [norm r] <+: (ntext e norm).drop i := by
  obtain ⟨hlt, hget⟩ := List.getElem?_eq_some_iff.mp h
  unfold ntext
  rw [← List.map_drop, List.drop_eq_getElem_cons hlt, hget]
  exact ⟨_, rfl⟩

/-- `n` of at least `n` iterations of a body whose strings `B` are exact -/
theorem power_ok (e : Env) (norm : Nat → Nat) (maxLen maxCount : Nat) (B : List (List Nat)) (f : St → List St)
    (hf : ∀ s, ∀ y ∈ f s, PrefsOK e norm (B, true) s.pos y.pos) :
    ∀ (n : Nat) {j : Nat} {s s' : St}, Chain f j s s' → n ≤ j →
      ∃ l ∈ (power maxLen maxCount B n).1, l <+: (ntext e norm).drop s.pos ∧
        ((power maxLen maxCount B n).2 = true → ∃ sn, s.pos + l.length = sn.pos ∧ Chain f (j - n) sn s') := by
  intro n
  induction n with
  | zero =>
    intro j s s' hc _
    exact ⟨[], by simp [power], List.nil_prefix, fun _ => ⟨s, by simp, by simpa using hc⟩⟩
  | succ n ih =>
    intro j s s' hc hn
    obtain ⟨l, hl, hp, hex⟩ := ih hc (by omega)
    simp only [power]
    split
    · rename_i hr2
      obtain ⟨sn, hsn, hcn⟩ := hex hr2
      obtain ⟨k, hk⟩ : ∃ k, j - n = k + 1 := ⟨j - n - 1, by omega⟩
      rw [hk] at hcn
      cases hcn with
      | succ hy hrest =>
        rename_i y
        obtain ⟨l2, hl2, hp2, hex2⟩ := hf _ _ hy
        split
        · refine ⟨l ++ l2, mem_cross hl hl2, prefix_concat hp (by rw [hsn]; exact hp2), fun _ => ⟨y, ?_, ?_⟩⟩
          · have := hex2 rfl
            simp only [List.length_append]; omega
          · have : j - (n + 1) = k := by omega
            rw [this]; exact hrest
        · exact ⟨l, hl, hp, by simp⟩
    · rename_i hr2
      exact ⟨l, hl, hp, fun h => absurd h hr2⟩

theorem chain_zero_eq {f : St → List St} {s s' : St} (hc : Chain f 0 s s') : s = s' := by
  cases hc; rfl

theorem prefixes_ok (e : Env) (norm : Nat → Nat) (maxLen : Nat) (p : Pat) :
    ∀ (maxCount : Nat) (st : St), ∀ st' ∈ m e p false st,
      PrefsOK e norm (prefixes norm maxLen maxCount p) st.pos st'.pos := by
  induction p with
  | empty => intro mc st st' hm; simp [m] at hm; subst hm; exact PrefsOK.nil_same _ _ _ _
  | nothing => intro mc st st' hm; simp [m] at hm
  | anchor a =>
    intro mc st st' hm
    simp only [m] at hm
    split at hm
    · simp at hm; subst hm; exact PrefsOK.nil_same _ _ _ _
    · simp at hm
  | look behind neg body ih =>
    intro mc st st' hm
    have := skippable_pos e (.look behind neg body) rfl false st st' hm
    rw [this]; exact PrefsOK.nil_same _ _ _ _
  | ref g ci => intro mc st st' _; exact PrefsOK.trivial _ _ _ _
  | refCond g yes no _ _ => intro mc st st' _; exact PrefsOK.trivial _ _ _ _
  | exprCond c yes no _ _ _ => intro mc st st' _; exact PrefsOK.trivial _ _ _ _
  | chr pr =>
    intro mc st st' hm
    simp only [prefixes]
    split
    · rename_i cs hcs
      simp only [m] at hm
      split at hm
      · rename_i r pos' hstep
        split at hm
        · rename_i htest
          simp at hm; subst hm
          have hs := (stepChar_spec e false st.pos r pos' hstep).2.2 rfl
          refine ⟨[norm r], List.mem_map.mpr ⟨norm r, normChars_mem norm cs r (setChars_ok e mc pr cs hcs r htest), rfl⟩,
            text_step e norm st.pos r hs.1, fun _ => ?_⟩
          simp [hs.2]
        · simp at hm
      · simp at hm
    · exact PrefsOK.trivial _ _ _ _
  | seq a b iha ihb =>
    intro mc st st' hm
    simp only [m, Bool.false_eq_true, if_false] at hm
    rw [List.mem_flatMap] at hm
    obtain ⟨y, hy, hxy⟩ := hm
    have ha := iha mc st y hy
    simp only [prefixes]
    split
    · rename_i hex
      obtain ⟨l1, hl1, hp1, he1⟩ := ha
      have hpos := he1 hex
      have hb := ihb (mc / (prefixes norm maxLen mc a).1.length) y st' hxy
      split
      · obtain ⟨l2, hl2, hp2, he2⟩ := hb
        refine ⟨l1 ++ l2, mem_cross hl1 hl2, prefix_concat hp1 (by rw [hpos]; exact hp2), fun h2 => ?_⟩
        have := he2 h2
        simp only [List.length_append]; omega
      · exact ⟨l1, hl1, hp1, by simp⟩
    · exact PrefsOK.weaken (c := (prefixes norm maxLen mc a).2) ha _
  | alt a b iha ihb =>
    intro mc st st' hm
    simp only [m, List.mem_append] at hm
    simp only [prefixes]
    split
    · rcases hm with hm | hm
      · obtain ⟨l, hl, hp, he⟩ := iha mc st st' hm
        exact ⟨l, List.mem_append_left _ hl, hp, fun h => he (by simp at h; exact h.1)⟩
      · obtain ⟨l, hl, hp, he⟩ := ihb mc st st' hm
        exact ⟨l, List.mem_append_right _ hl, hp, fun h => he (by simp at h; exact h.2)⟩
    · exact PrefsOK.trivial _ _ _ _
  | quant lzy lo hi body ih =>
    intro mc st st' hm
    obtain ⟨j, hc, hlo, hhi⟩ := quant_chain e lzy lo hi body false st st' hm
    simp only [prefixes]
    split
    · exact PrefsOK.trivial _ _ _ _
    · rename_i hlo0
      split
      · rename_i hex
        have hf : ∀ s, ∀ y ∈ m e body false s, PrefsOK e norm ((prefixes norm maxLen mc body).1, true) s.pos y.pos := by
          intro s y hy
          have := ih mc s y hy
          rw [← hex]; exact this
        obtain ⟨l, hl, hp, he⟩ := power_ok e norm maxLen mc _ (m e body false) hf (min lo maxLen) hc
          (by have := Nat.min_le_left lo maxLen; omega)
        refine ⟨l, hl, hp, fun h => ?_⟩
        simp at h
        obtain ⟨⟨h1, h2⟩, h3⟩ := h
        obtain ⟨sn, hsn, hcn⟩ := he h1
        have hj : j = lo := by have := hhi lo h3; omega
        have hmin : min lo maxLen = lo := Nat.min_eq_left h2
        rw [hmin, hj, Nat.sub_self] at hcn
        rw [hsn, chain_zero_eq hcn]
      · obtain ⟨y, hy⟩ := chain_head hc (by omega)
        exact PrefsOK.weaken (c := (prefixes norm maxLen mc body).2) (ih mc st y hy) _
  | cap g body ih =>
    intro mc st st' hm
    simp only [m, List.mem_map] at hm
    obtain ⟨y, hy, rfl⟩ := hm
    simpa [prefixes] using ih mc st y hy
  | atomic body ih =>
    intro mc st st' hm
    simp only [m] at hm
    simpa [prefixes] using ih mc st st' (List.mem_of_mem_take hm)

theorem rPrefix_mono (R : Nat → Nat → Bool) : ∀ (x l t : List Nat), rPrefix R x l = true → l <+: t → rPrefix R x t = true := by
  intro x
  induction x with
  | nil => intro l t _ _; simp [rPrefix]
  | cons a x ih =>
    intro l t h hp
    cases l with
    | nil => simp [rPrefix] at h
    | cons b l =>
      obtain ⟨u, hu⟩ := hp
      subst hu
      simp only [rPrefix, List.cons_append, Bool.and_eq_true] at h ⊢
      exact ⟨h.1, ih l (l ++ u) h.2 ⟨u, rfl⟩⟩

/-- a published string that equals the normalised text matches the text itself under any comparison
    `R` that accepts every rune against its representative -/
theorem rPrefix_norm (R : Nat → Nat → Bool) (norm : Nat → Nat) (hR : ∀ t, R (norm t) t = true) :
    ∀ (x t : List Nat), rPrefix (fun a b => a == b) x (t.map norm) = true → rPrefix R x t = true := by
  intro x
  induction x with
  | nil => intro t _; simp [rPrefix]
  | cons a x ih =>
    intro t h
    cases t with
    | nil => simp [rPrefix] at h
    | cons b t =>
      simp only [List.map_cons, rPrefix, Bool.and_eq_true, beq_iff_eq] at h ⊢
      exact ⟨by rw [h.1]; exact hR b, ih t h.2⟩

/-! ### the leading positive lookahead -/

theorem leadLook_ok (e : Env) (p : Pat) :
    ∀ (st : St), ∀ st' ∈ m e p false st,
      (∀ b k, leadLook p = (some b, k) → ∃ st0 : St, st0.pos = st.pos ∧ m e b false st0 ≠ []) ∧
      (leadLook p = (none, true) → st'.pos = st.pos) := by
  induction p with
  | empty => intro st st' hm; simp [m] at hm; subst hm; simp [leadLook]
  | nothing => intro st st' hm; simp [m] at hm
  | chr p => intro st st' _; simp [leadLook]
  | alt a b _ _ => intro st st' _; simp [leadLook]
  | ref g ci => intro st st' _; simp [leadLook]
  | refCond g yes no _ _ => intro st st' _; simp [leadLook]
  | exprCond c yes no _ _ _ => intro st st' _; simp [leadLook]
  | anchor a =>
    intro st st' hm
    simp only [m] at hm
    split at hm
    · simp at hm; subst hm; simp [leadLook]
    · simp at hm
  | look behind neg body ih =>
    intro st st' hm
    have hpos := skippable_pos e (.look behind neg body) rfl false st st' hm
    cases behind <;> cases neg <;> simp [leadLook, hpos]
    -- the positive lookahead itself
    refine ⟨st, rfl, ?_⟩
    simp only [m] at hm
    intro hnil
    rw [hnil] at hm
    simp at hm
  | cap g body ih =>
    intro st st' hm
    simp only [m, List.mem_map] at hm
    obtain ⟨y, hy, rfl⟩ := hm
    simpa [leadLook] using ih st y hy
  | atomic body ih =>
    intro st st' hm
    simp only [m] at hm
    simpa [leadLook] using ih st st' (List.mem_of_mem_take hm)
  | quant lzy lo hi body ih =>
    intro st st' hm
    obtain ⟨j, hc, hlo, _⟩ := quant_chain e lzy lo hi body false st st' hm
    simp only [leadLook]
    split
    · simp
    · rename_i hlo0
      obtain ⟨y, hy⟩ := chain_head hc (by omega)
      refine ⟨fun b k hb => ?_, by simp⟩
      simp at hb
      exact (ih st y hy).1 b (leadLook body).2 (by rw [← hb.1])
  | seq a b iha ihb =>
    intro st st' hm
    simp only [m, Bool.false_eq_true, if_false] at hm
    rw [List.mem_flatMap] at hm
    obtain ⟨y, hy, hxy⟩ := hm
    have ha := iha st y hy
    have hb := ihb y st' hxy
    simp only [leadLook]
    split
    · rename_i x kx hx
      refine ⟨fun b k hbk => ?_, by simp⟩
      simp at hbk
      obtain ⟨rfl, _⟩ := hbk
      exact ha.1 x kx hx
    · rename_i hx
      have hp := ha.2 hx
      refine ⟨fun b k hbk => ?_, fun hn => ?_⟩
      · obtain ⟨st0, h0, hne⟩ := hb.1 b k hbk
        exact ⟨st0, by rw [h0, hp], hne⟩
      · rw [hb.2 hn, hp]
    · simp

end RegexVerif.SetFacts
