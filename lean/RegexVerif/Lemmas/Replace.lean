/-
Helper lemmas for C09 (model `RegexVerif.Model.Replace`).
-/
import RegexVerif.Model.Replace

namespace RegexVerif.Lemmas.Replace
open RegexVerif RegexVerif.Replace

/-! ### slices -/

theorem slice_self (text : List Nat) (a : Nat) : slice text a a = [] := by
  simp [slice]

theorem slice_to_end (text : List Nat) (p : Nat) : slice text p text.length = text.drop p := by
  unfold slice
  apply List.take_of_length_le
  simp

theorem slice_zero_length (text : List Nat) : slice text 0 text.length = text := by
  rw [slice_to_end]; simp

theorem slice_zero (text : List Nat) (b : Nat) : slice text 0 b = text.take b := by
  simp [slice]

theorem take_append_take_drop {α : Type} (l : List α) (n m : Nat) :
    l.take n ++ (l.drop n).take m = l.take (n + m) := by
  induction l generalizing n with
  | nil => simp
  | cons x xs ih =>
    cases n with
    | zero => simp
    | succ k =>
      have : k + 1 + m = (k + m) + 1 := by omega
      simp [this, ih]

theorem slice_append (text : List Nat) (a b c : Nat) (hab : a ≤ b) (hbc : b ≤ c) :
    slice text a b ++ slice text b c = slice text a c := by
  unfold slice
  have h1 : text.drop b = (text.drop a).drop (b - a) := by
    rw [List.drop_drop]; congr 1; omega
  rw [h1, take_append_take_drop]
  congr 1; omega

theorem sliceLoop_ok (text : List Nat) (a b : Nat) (hb : b ≤ text.length) :
    sliceLoop text a b = some (slice text a b) := by
  unfold sliceLoop
  have : ¬ (a < b ∧ text.length < b) := by omega
  simp [this]

theorem sliceExpr_ok (text : List Nat) (a b : Nat) (hab : a ≤ b) (hb : b ≤ text.length) :
    sliceExpr text a b = some (slice text a b) := by
  unfold sliceExpr
  simp [hab, hb]

/-! ### validity -/

theorem validFrom_le (n : Nat) : ∀ (ms : List Match) (pos : Nat), validFrom n pos ms = true → pos ≤ n := by
  intro ms
  induction ms with
  | nil => intro pos h; simpa [validFrom] using h
  | cons m rest ih =>
    intro pos h
    simp only [validFrom, Bool.and_eq_true, decide_eq_true_eq] at h
    have := ih _ h.2
    omega

theorem validFrom_cons {n pos : Nat} {m : Match} {rest : List Match} (h : validFrom n pos (m :: rest) = true) :
    pos ≤ m.index ∧ m.index + m.len ≤ n ∧ validFrom n (m.index + m.len) rest = true := by
  simp only [validFrom, Bool.and_eq_true, decide_eq_true_eq] at h
  exact ⟨h.1, validFrom_le n rest _ h.2, h.2⟩

theorem validFrom_take (n : Nat) : ∀ (ms : List Match) (pos k : Nat), validFrom n pos ms = true →
    validFrom n pos (ms.take k) = true := by
  intro ms
  induction ms with
  | nil => intro pos k h; simpa using h
  | cons m rest ih =>
    intro pos k h
    cases k with
    | zero =>
      have := validFrom_le n _ _ h
      simp [validFrom, this]
    | succ k =>
      have hc := validFrom_cons h
      simp only [List.take_succ_cons, validFrom, Bool.and_eq_true, decide_eq_true_eq]
      exact ⟨hc.1, ih _ k hc.2.2⟩

theorem validFrom_snoc (n k : Nat) (m : Match) : ∀ (xs : List Match) (pos : Nat),
    validFrom k pos xs = true → k ≤ m.index → m.index + m.len ≤ n → validFrom n pos (xs ++ [m]) = true := by
  intro xs
  induction xs with
  | nil =>
    intro pos h hk hn
    have : pos ≤ k := by simpa [validFrom] using h
    simp [validFrom]; omega
  | cons x xs ih =>
    intro pos h hk hn
    have hc := validFrom_cons h
    simp only [List.cons_append, validFrom, Bool.and_eq_true, decide_eq_true_eq]
    exact ⟨hc.1, ih _ hc.2.2 hk hn⟩

theorem validDesc_cons {prior : Nat} {m : Match} {rest : List Match} (h : validDesc prior (m :: rest) = true) :
    m.index + m.len ≤ prior ∧ validDesc m.index rest = true := by
  simpa [validDesc] using h

theorem validDesc_take : ∀ (ms : List Match) (prior k : Nat), validDesc prior ms = true →
    validDesc prior (ms.take k) = true := by
  intro ms
  induction ms with
  | nil => intro prior k h; simp [validDesc]
  | cons m rest ih =>
    intro prior k h
    cases k with
    | zero => simp [validDesc]
    | succ k =>
      have hc := validDesc_cons h
      simp only [List.take_succ_cons, validDesc, Bool.and_eq_true, decide_eq_true_eq]
      exact ⟨hc.1, ih _ k hc.2⟩

/-- a descending sequence, read backwards, is an ascending one -/
theorem validDesc_reverse : ∀ (ms : List Match) (prior : Nat), validDesc prior ms = true →
    validFrom prior 0 ms.reverse = true := by
  intro ms
  induction ms with
  | nil => intro prior _; simp [validFrom]
  | cons m rest ih =>
    intro prior h
    have hc := validDesc_cons h
    rw [List.reverse_cons]
    exact validFrom_snoc prior m.index m rest.reverse 0 (ih _ hc.2) (Nat.le_refl _) hc.1

theorem takeCount_cons (count : Int) (hc : count ≠ 0) (m : Match) (rest : List Match) :
    takeCount count (m :: rest) = m :: takeCount (count - 1) rest := by
  unfold takeCount
  by_cases h : count < 0
  · have : count - 1 < 0 := by omega
    simp [h, this]
  · have h1 : ¬ (count - 1 < 0) := by omega
    have h2 : count.toNat = (count - 1).toNat + 1 := by omega
    rw [if_neg h, if_neg h1, h2, List.take_succ_cons]

theorem takeCount_one (m : Match) (rest : List Match) : takeCount 1 (m :: rest) = [m] := by
  simp [takeCount]

theorem takeCount_nil (count : Int) : takeCount count [] = [] := by
  unfold takeCount; split <;> simp

theorem takeCount_valid (n : Nat) (count : Int) (ms : List Match) (pos : Nat) (h : validFrom n pos ms = true) :
    validFrom n pos (takeCount count ms) = true := by
  unfold takeCount; split
  · exact h
  · exact validFrom_take n ms pos _ h

theorem takeCount_validDesc (count : Int) (ms : List Match) (prior : Nat) (h : validDesc prior ms = true) :
    validDesc prior (takeCount count ms) = true := by
  unfold takeCount; split
  · exact h
  · exact validDesc_take ms prior _ h

/-! ### the specification -/

theorem specBetween_snoc (text : List Nat) (f : Match → List Nat) (m : Match) (hi : Nat) :
    ∀ (xs : List Match) (pos : Nat),
      specBetween text f pos (xs ++ [m]) hi
        = specBetween text f pos xs m.index ++ f m ++ slice text (m.index + m.len) hi := by
  intro xs
  induction xs with
  | nil => intro pos; simp [specBetween]
  | cons x xs ih => intro pos; simp [specBetween, ih]

/-- substituting every match by its own text gives back the kept range -/
theorem specBetween_id (text : List Nat) (hi : Nat) : ∀ (ms : List Match) (pos : Nat),
    validFrom hi pos ms = true → specBetween text (matchText text) pos ms hi = slice text pos hi := by
  intro ms
  induction ms with
  | nil => intro pos _; simp [specBetween]
  | cons m rest ih =>
    intro pos h
    have hc := validFrom_cons h
    simp only [specBetween, ih _ hc.2.2, matchText]
    rw [slice_append text pos m.index (m.index + m.len) hc.1 (by omega), slice_append text pos _ hi (by omega) hc.2.1]

theorem spec_eq_interleave (text : List Nat) (f : Match → List Nat) : ∀ (ms : List Match) (pos : Nat),
    specBetween text f pos ms text.length = interleave (gaps text pos ms) (ms.map f) := by
  intro ms
  induction ms with
  | nil => intro pos; simp [specBetween, gaps, interleave, slice_to_end]
  | cons m rest ih => intro pos; simp [specBetween, gaps, interleave, ih]

theorem expand_self (text : List Nat) (m : Match) : expand [Piece.group 0] text m = matchText text m := by
  simp [expand, pieceText, groupText, groupSpan, matchText]

/-! ### the replace loops -/

theorem finishLTR_ok (text : List Nat) (prevat : Nat) (buf : List Nat) (h : prevat ≤ text.length) :
    finishLTR text prevat buf = some (buf ++ slice text prevat text.length) := by
  unfold finishLTR
  by_cases hlt : prevat < text.length
  · simp [hlt, sliceLoop_ok text prevat text.length (Nat.le_refl _)]
  · have : prevat = text.length := by omega
    subst this
    simp [slice_self]

theorem gapLoop_ok (text : List Nat) (prevat idx : Nat) (h : idx ≤ text.length) :
    (if idx ≠ prevat then sliceLoop text prevat idx else some []) = some (slice text prevat idx) := by
  by_cases he : idx = prevat
  · subst he; simp [slice_self]
  · simp [he, sliceLoop_ok text prevat idx h]

theorem loopLTR_spec (text : List Nat) (pieces : List Piece) : ∀ (ms : List Match) (prevat : Nat) (buf : List Nat) (count : Int),
    count ≠ 0 → validFrom text.length prevat ms = true →
    loopLTR text pieces ms prevat buf count
      = some (buf ++ specBetween text (expand pieces text) prevat (takeCount count ms) text.length) := by
  intro ms
  induction ms with
  | nil =>
    intro prevat buf count _ hv
    have := validFrom_le _ _ _ hv
    simp [loopLTR, takeCount_nil, specBetween, finishLTR_ok text prevat buf this]
  | cons m rest ih =>
    intro prevat buf count hc hv
    have hvc := validFrom_cons hv
    have hidx : m.index ≤ text.length := by omega
    simp only [loopLTR, gapLoop_ok text prevat m.index hidx]
    by_cases h1 : count - 1 = 0
    · have : count = 1 := by omega
      subst this
      simp [takeCount_one, specBetween, finishLTR_ok text _ _ hvc.2.1]
    · simp only [h1, if_false]
      rw [ih _ _ _ h1 hvc.2.2, takeCount_cons count hc]
      simp [specBetween]

theorem finishFuncLTR_ok (text : List Nat) (prevat : Nat) (buf : List Nat) (h : prevat ≤ text.length) :
    finishFuncLTR text prevat buf = some (buf ++ slice text prevat text.length) := by
  unfold finishFuncLTR
  by_cases hlt : prevat < text.length
  · simp [hlt, sliceExpr_ok text prevat text.length (by omega) (Nat.le_refl _)]
  · have : prevat = text.length := by omega
    subst this
    simp [slice_self]

theorem gapExpr_ok (text : List Nat) (prevat idx : Nat) (hp : prevat ≤ idx) (h : idx ≤ text.length) :
    (if idx ≠ prevat then sliceExpr text prevat idx else some []) = some (slice text prevat idx) := by
  by_cases he : idx = prevat
  · subst he; simp [slice_self]
  · simp [he, sliceExpr_ok text prevat idx hp h]

theorem loopFuncLTR_spec (text : List Nat) (ev : Match → List Nat) : ∀ (ms : List Match) (prevat : Nat) (buf : List Nat) (count : Int),
    count ≠ 0 → validFrom text.length prevat ms = true →
    loopFuncLTR text ev ms prevat buf count
      = some (buf ++ specBetween text ev prevat (takeCount count ms) text.length) := by
  intro ms
  induction ms with
  | nil =>
    intro prevat buf count _ hv
    have := validFrom_le _ _ _ hv
    simp [loopFuncLTR, takeCount_nil, specBetween, finishFuncLTR_ok text prevat buf this]
  | cons m rest ih =>
    intro prevat buf count hc hv
    have hvc := validFrom_cons hv
    have hidx : m.index ≤ text.length := by omega
    simp only [loopFuncLTR, gapExpr_ok text prevat m.index hvc.1 hidx]
    by_cases h1 : count - 1 = 0
    · have : count = 1 := by omega
      subst this
      simp [takeCount_one, specBetween, finishFuncLTR_ok text _ _ hvc.2.1]
    · simp only [h1, if_false]
      rw [ih _ _ _ h1 hvc.2.2, takeCount_cons count hc]
      simp [specBetween]

theorem finishRTL_ok (text : List Nat) (prevat : Nat) (al : List (List Nat)) (h : prevat ≤ text.length) :
    finishRTL text prevat al = some (slice text 0 prevat ++ al.reverse.flatten) := by
  unfold finishRTL
  by_cases hp : prevat > 0
  · simp [hp, sliceLoop_ok text 0 prevat h]
  · have : prevat = 0 := by omega
    subst this
    simp [slice_self]

theorem finishFuncRTL_ok (text : List Nat) (prevat : Nat) (al : List (List Nat)) (h : prevat ≤ text.length) :
    finishFuncRTL text prevat al = some (slice text 0 prevat ++ al.reverse.flatten) := by
  unfold finishFuncRTL
  by_cases hp : prevat > 0
  · simp [hp, sliceExpr_ok text 0 prevat (by omega) h]
  · have : prevat = 0 := by omega
    subst this
    simp [slice_self]

/-- the kept text right of a match, as pushed on the list by the right-to-left loops -/
theorem gapRTL_ok (text : List Nat) (stop prevat : Nat) (al : List (List Nat)) (hs : stop ≤ prevat) (hp : prevat ≤ text.length) :
    ∃ al1, (if stop ≠ prevat then (sliceExpr text stop prevat).map (fun g => al ++ [g]) else some al) = some al1
      ∧ al1.reverse.flatten = slice text stop prevat ++ al.reverse.flatten := by
  by_cases he : stop = prevat
  · subst he; exact ⟨al, by simp, by simp [slice_self]⟩
  · exact ⟨al ++ [slice text stop prevat], by simp [he, sliceExpr_ok text stop prevat hs hp], by simp⟩

theorem expandRTL_flatten (pieces : List Piece) (text : List Nat) (m : Match) (al : List (List Nat)) :
    (expandRTL pieces text m al).reverse.flatten = expand pieces text m ++ al.reverse.flatten := by
  simp [expandRTL, expand, List.flatMap_def]

theorem loopRTL_spec (text : List Nat) (pieces : List Piece) : ∀ (ms : List Match) (prevat : Nat) (al : List (List Nat)) (count : Int),
    count ≠ 0 → validDesc prevat ms = true → prevat ≤ text.length →
    loopRTL text pieces ms prevat al count
      = some (specBetween text (expand pieces text) 0 (takeCount count ms).reverse prevat ++ al.reverse.flatten) := by
  intro ms
  induction ms with
  | nil =>
    intro prevat al count _ _ hp
    simp [loopRTL, takeCount_nil, specBetween, finishRTL_ok text prevat al hp]
  | cons m rest ih =>
    intro prevat al count hc hv hp
    have hvc := validDesc_cons hv
    obtain ⟨al1, hal1, hflat⟩ := gapRTL_ok text (m.index + m.len) prevat al hvc.1 hp
    have hidx : m.index ≤ text.length := by omega
    simp only [loopRTL, hal1]
    by_cases h1 : count - 1 = 0
    · have : count = 1 := by omega
      subst this
      simp [takeCount_one, specBetween, finishRTL_ok text _ _ hidx, expandRTL_flatten, hflat]
    · simp only [h1, if_false]
      rw [ih _ _ _ h1 hvc.2 hidx, takeCount_cons count hc, List.reverse_cons, specBetween_snoc, expandRTL_flatten, hflat]
      simp

theorem loopFuncRTL_spec (text : List Nat) (ev : Match → List Nat) : ∀ (ms : List Match) (prevat : Nat) (al : List (List Nat)) (count : Int),
    count ≠ 0 → validDesc prevat ms = true → prevat ≤ text.length →
    loopFuncRTL text ev ms prevat al count
      = some (specBetween text ev 0 (takeCount count ms).reverse prevat ++ al.reverse.flatten) := by
  intro ms
  induction ms with
  | nil =>
    intro prevat al count _ _ hp
    simp [loopFuncRTL, takeCount_nil, specBetween, finishFuncRTL_ok text prevat al hp]
  | cons m rest ih =>
    intro prevat al count hc hv hp
    have hvc := validDesc_cons hv
    obtain ⟨al1, hal1, hflat⟩ := gapRTL_ok text (m.index + m.len) prevat al hvc.1 hp
    have hidx : m.index ≤ text.length := by omega
    simp only [loopFuncRTL, hal1]
    by_cases h1 : count - 1 = 0
    · have : count = 1 := by omega
      subst this
      simp [takeCount_one, specBetween, finishFuncRTL_ok text _ _ hidx, hflat]
    · simp only [h1, if_false]
      rw [ih _ _ _ h1 hvc.2 hidx, takeCount_cons count hc, List.reverse_cons, specBetween_snoc]
      simp [hflat]

/-! ### Split -/

theorem splitSpec_snoc (text : List Nat) (capf : Match → List (List Nat)) (m : Match) (hi : Nat) :
    ∀ (xs : List Match) (pos : Nat),
      splitSpec text capf pos (xs ++ [m]) hi
        = splitSpec text capf pos xs m.index ++ capf m ++ [slice text (m.index + m.len) hi] := by
  intro xs
  induction xs with
  | nil => intro pos; simp [splitSpec]
  | cons x xs ih => intro pos; simp [splitSpec, ih]

theorem take_toNat_cons (count : Int) (h : count > 0) (m : Match) (rest : List Match) :
    (m :: rest).take count.toNat = m :: rest.take (count - 1).toNat := by
  have : count.toNat = (count - 1).toNat + 1 := by omega
  rw [this, List.take_succ_cons]

theorem take_toNat_nonpos (count : Int) (h : ¬ count > 0) (ms : List Match) : ms.take count.toNat = [] := by
  have : count.toNat = 0 := by omega
  simp [this]

theorem splitLoop_ltr (text : List Nat) : ∀ (ms : List Match) (prior : Nat) (ret : List (List Nat)) (count : Int),
    validFrom text.length prior ms = true →
    splitLoop text false ms prior ret count
      = some (ret ++ splitSpec text (capTexts text) prior (ms.take count.toNat) text.length) := by
  intro ms
  induction ms with
  | nil =>
    intro prior ret count hv
    have := validFrom_le _ _ _ hv
    simp [splitLoop, splitFinish, splitSpec, sliceExpr_ok text prior text.length this (Nat.le_refl _)]
  | cons m rest ih =>
    intro prior ret count hv
    have hvc := validFrom_cons hv
    have hp := validFrom_le _ _ _ hv
    by_cases hc : count > 0
    · have hidx : m.index ≤ text.length := by omega
      simp only [splitLoop, hc, if_true, Bool.false_eq_true, if_false, sliceExpr_ok text prior m.index hvc.1 hidx]
      rw [ih _ _ _ hvc.2.2, take_toNat_cons count hc]
      simp [splitSpec]
    · rw [take_toNat_nonpos count hc]
      simp [splitLoop, hc, splitFinish, splitSpec, sliceExpr_ok text prior text.length hp (Nat.le_refl _)]

/-- group texts of a match as they end up right-to-left: reversed -/
def capTextsRev (text : List Nat) (m : Match) : List (List Nat) := (capTexts text m).reverse

theorem splitLoop_rtl (text : List Nat) : ∀ (ms : List Match) (prior : Nat) (ret : List (List Nat)) (count : Int),
    validDesc prior ms = true → prior ≤ text.length →
    splitLoop text true ms prior ret count
      = some (splitSpec text (capTextsRev text) 0 (ms.take count.toNat).reverse prior ++ ret.reverse) := by
  intro ms
  induction ms with
  | nil =>
    intro prior ret count _ hp
    simp [splitLoop, splitFinish, splitSpec, sliceExpr_ok text 0 prior (Nat.zero_le _) hp]
  | cons m rest ih =>
    intro prior ret count hv hp
    have hvc := validDesc_cons hv
    by_cases hc : count > 0
    · have hidx : m.index ≤ text.length := by omega
      simp only [splitLoop, hc, if_true, sliceExpr_ok text (m.index + m.len) prior hvc.1 hp]
      rw [ih _ _ _ hvc.2 hidx, take_toNat_cons count hc, List.reverse_cons, splitSpec_snoc]
      simp [capTextsRev]
    · rw [take_toNat_nonpos count hc]
      simp [splitLoop, hc, splitFinish, splitSpec, sliceExpr_ok text 0 prior (Nat.zero_le _) hp]

theorem rejoin_splitSpec (text : List Nat) (capf : Match → List (List Nat)) (skip : Match → Nat) (hi : Nat) :
    ∀ (ms : List Match) (pos : Nat), validFrom hi pos ms = true → (∀ m ∈ ms, (capf m).length = skip m) →
      rejoin text skip ms (splitSpec text capf pos ms hi) = slice text pos hi := by
  intro ms
  induction ms with
  | nil => intro pos _ _; simp [rejoin, splitSpec]
  | cons m rest ih =>
    intro pos hv hs
    have hvc := validFrom_cons hv
    have hm : (capf m).length = skip m := hs m (by simp)
    simp only [splitSpec, rejoin, ← hm, List.drop_left]
    rw [ih _ hvc.2.2 (fun x hx => hs x (by simp [hx])), matchText,
      slice_append text pos m.index (m.index + m.len) hvc.1 (by omega), slice_append text pos _ hi (by omega) hvc.2.1]

theorem interleave_splitSpec_nocap (text : List Nat) (capf : Match → List (List Nat)) (hi : Nat) :
    ∀ (ms : List Match) (pos : Nat), validFrom hi pos ms = true → (∀ m ∈ ms, capf m = []) →
      interleave (splitSpec text capf pos ms hi) (ms.map (matchText text)) = slice text pos hi := by
  intro ms
  induction ms with
  | nil => intro pos _ _; simp [interleave, splitSpec]
  | cons m rest ih =>
    intro pos hv hs
    have hvc := validFrom_cons hv
    have hm : capf m = [] := hs m (by simp)
    simp only [splitSpec, hm, List.nil_append, List.map_cons, interleave]
    rw [ih _ hvc.2.2 (fun x hx => hs x (by simp [hx])), matchText, List.append_assoc,
      slice_append text m.index (m.index + m.len) hi (by omega) hvc.2.1, slice_append text pos _ hi hvc.1 (by omega)]

/-! ### the scanner on text without `$` -/

theorem scanLoop_plain (isWord : Nat → Bool) (env : Env) : ∀ (rep : List Nat), dollar ∉ rep →
    scanLoop isWord env rep 0 = .ok (rep.map Tok.ch) := by
  intro rep
  induction rep with
  | nil => intro _; simp [scanLoop]
  | cons c rest ih =>
    intro h
    have hc : c ≠ dollar := by intro e; exact h (by simp [e])
    have hr : dollar ∉ rest := by intro e; exact h (by simp [e])
    simp [scanLoop, hc, ih hr]

theorem buildData_chars (env : Env) : ∀ (l sb : List Nat) (strings : List (List Nat)) (rules : List Int),
    buildData env (l.map Tok.ch) sb strings rules = buildData env [] (sb ++ l) strings rules := by
  intro l
  induction l with
  | nil => intro sb strings rules; simp
  | cons c rest ih => intro sb strings rules; simp [buildData, ih]

/-! ### the scanner: references are valid, the integer rules denote the scanned pieces -/

def RefOk (env : Env) : Tok → Prop
  | .ch _ => True
  | .ref n => (0 ≤ n → isCaptureSlot env n.toNat = true) ∧ (n < 0 → -4 ≤ n)

def NamesOk (env : Env) : Prop := ∀ name num, env.names.lookup name = some num → isCaptureSlot env num = true

theorem lookup_mem {α β : Type} [BEq α] : ∀ (l : List (α × β)) (a : α) (b : β), l.lookup a = some b → ∃ a', (a', b) ∈ l := by
  intro l
  induction l with
  | nil => intro a b h; simp at h
  | cons x xs ih =>
    intro a b h
    obtain ⟨k, v⟩ := x
    simp only [List.lookup] at h
    split at h
    · simp at h; subst h; exact ⟨k, by simp⟩
    · obtain ⟨a', h'⟩ := ih a b h; exact ⟨a', by simp [h']⟩

theorem envOk_names (env : Env) (h : envOk env = true) : NamesOk env ∧ isCaptureSlot env 0 = true := by
  simp only [envOk, Bool.and_eq_true, List.all_eq_true] at h
  refine ⟨?_, h.1⟩
  intro name num hl
  obtain ⟨a', hm⟩ := lookup_mem env.names name num hl
  exact h.2 (a', num) hm

theorem ecmaDigits_ok (env : Env) : ∀ (s : List Nat) (newcap pos : Nat) (best : Option (Nat × Nat)) r,
    (∀ b, best = some b → isCaptureSlot env b.1 = true) →
    ecmaDigits env s newcap pos best = some (some r) → isCaptureSlot env r.1 = true := by
  intro s
  induction s with
  | nil => intro newcap pos best r hb h; simp [ecmaDigits] at h; exact hb r h
  | cons c rest ih =>
    intro newcap pos best r hb h
    simp only [ecmaDigits] at h
    split at h
    · split at h
      · simp at h
      · refine ih _ _ _ r ?_ h
        intro b hbb
        split at hbb
        · rename_i hs; simp at hbb; subst hbb; exact hs
        · exact hb b hbb
    · simp at h; exact hb r h

theorem scanDollar_ok (isWord : Nat → Bool) (env : Env) (hn : NamesOk env) (h0 : isCaptureSlot env 0 = true) (s : List Nat) (tok : Tok) (k : Nat)
    (h : scanDollar isWord env s = .ok (tok, k)) : RefOk env tok := by
  unfold scanDollar at h
  split at h
  · simp [literalDollar] at h; obtain ⟨rfl, _⟩ := h; simp [RefOk]
  · simp only [] at h
    repeat' split at h
    all_goals (try (simp [literalDollar] at h))
    all_goals (try (obtain ⟨rfl, _⟩ := h))
    all_goals (try (simp_all [RefOk]; done))
    all_goals (rename_i heq hr; simp only [RefOk, Int.toNat_natCast]; refine ⟨fun _ => ?_, fun hneg => by omega⟩)
    · refine ecmaDigits_ok env _ _ _ _ (_, _) ?_ heq
      intro b hb
      split at hb
      · rename_i hs; simp at hb; subst hb; exact hs
      · simp at hb
    · exact hn _ _ heq

theorem scanLoop_ok (isWord : Nat → Bool) (env : Env) (hn : NamesOk env) (h0 : isCaptureSlot env 0 = true) :
    ∀ (s : List Nat) (skip : Nat) (toks : List Tok), scanLoop isWord env s skip = .ok toks → ∀ t ∈ toks, RefOk env t := by
  intro s
  induction s with
  | nil => intro skip toks h; cases skip <;> (simp [scanLoop] at h; subst h; simp)
  | cons c rest ih =>
    intro skip toks h
    cases skip with
    | succ k => simp only [scanLoop] at h; exact ih k toks h
    | zero =>
      simp only [scanLoop] at h
      split at h
      · split at h
        · simp at h
        · rename_i tok used hd
          split at h
          · simp at h
          · rename_i toks' hl
            simp at h; subst h
            intro t ht
            simp at ht
            rcases ht with rfl | ht
            · exact scanDollar_ok isWord env hn h0 _ _ _ hd
            · exact ih _ _ hl t ht
      · split at h
        · simp at h
        · rename_i toks' hl
          simp at h; subst h
          intro t ht
          simp at ht
          rcases ht with rfl | ht
          · simp [RefOk]
          · exact ih _ _ hl t ht

/-- what a rule integer can be -/
def RuleOk (env : Env) (r : Int) : Prop :=
  0 ≤ r ∨ (-4 ≤ r ∧ r ≤ -1) ∨ ∃ n, isCaptureSlot env n = true ∧ r = -5 - (slotOf env n : Int)

theorem buildData_rules (env : Env) : ∀ (toks : List Tok) (sb : List Nat) (strings : List (List Nat)) (rules : List Int),
    (∀ t ∈ toks, RefOk env t) → (∀ r ∈ rules, RuleOk env r) →
    ∀ r ∈ (buildData env toks sb strings rules).rules, RuleOk env r := by
  intro toks
  induction toks with
  | nil =>
    intro sb strings rules _ hr r hm
    simp only [buildData] at hm
    split at hm
    · simp at hm
      rcases hm with hm | rfl
      · exact hr r hm
      · left; omega
    · exact hr r hm
  | cons t rest ih =>
    intro sb strings rules ht hr
    cases t with
    | ch c => simp only [buildData]; exact ih _ _ _ (fun t h => ht t (by simp [h])) hr
    | ref n =>
      simp only [buildData]
      have hrefok : RefOk env (.ref n) := ht _ (by simp)
      have hnew : RuleOk env (-4 - 1 - (if 0 ≤ n then (slotOf env n.toNat : Int) else n)) := by
        by_cases hn : 0 ≤ n
        · right; right
          exact ⟨n.toNat, hrefok.1 hn, by simp [hn]⟩
        · right; left
          have := hrefok.2 (by omega)
          simp [hn]; omega
      by_cases hsb : sb ≠ []
      · simp only [if_pos hsb]
        refine ih _ _ _ (fun t h => ht t (by simp [h])) ?_
        intro r hm
        simp only [List.mem_append, List.mem_singleton] at hm
        rcases hm with (hm | hm) | hm
        · exact hr r hm
        · left; omega
        · rw [hm]; exact hnew
      · simp only [if_neg hsb]
        refine ih _ _ _ (fun t h => ht t (by simp [h])) ?_
        intro r hm
        simp only [List.mem_append, List.mem_singleton] at hm
        rcases hm with hm | hm
        · exact hr r hm
        · rw [hm]; exact hnew

/-- the piece a reference node stands for -/
def refPiece (env : Env) (n : Int) : Piece :=
  if 0 ≤ n then .group (slotOf env n.toNat)
  else if n = -1 then .leftPortion else if n = -2 then .rightPortion else if n = -3 then .lastGroup else .wholeString

/-- the pieces a token list stands for (`sb` = pending literal) -/
def piecesOf (env : Env) : List Tok → List Nat → List Piece
  | [], sb => if sb ≠ [] then [.lit sb] else []
  | .ch c :: rest, sb => piecesOf env rest (sb ++ [c])
  | .ref n :: rest, sb => (if sb ≠ [] then [.lit sb] else []) ++ refPiece env n :: piecesOf env rest []

def RulesWF (strings : List (List Nat)) (rules : List Int) : Prop := ∀ r ∈ rules, 0 ≤ r → r.toNat < strings.length

theorem decodeRule_append (strings ex : List (List Nat)) (r : Int) (h : 0 ≤ r → r.toNat < strings.length) :
    decodeRule (strings ++ ex) r = decodeRule strings r := by
  unfold decodeRule
  by_cases h0 : 0 ≤ r
  · simp [h0, List.getD_eq_getElem?_getD, List.getElem?_append_left (h h0)]
  · simp [h0]

theorem map_decodeRule_append (strings ex : List (List Nat)) (rules : List Int) (h : RulesWF strings rules) :
    rules.map (decodeRule (strings ++ ex)) = rules.map (decodeRule strings) := by
  apply List.map_congr_left
  intro r hr
  exact decodeRule_append strings ex r (h r hr)

theorem decodeRule_ref (env : Env) (strings : List (List Nat)) (n : Int) (h : RefOk env (.ref n)) :
    decodeRule strings (-4 - 1 - (if 0 ≤ n then (slotOf env n.toNat : Int) else n)) = refPiece env n := by
  unfold decodeRule refPiece
  by_cases hn : 0 ≤ n
  · have h1 : ¬ (0 : Int) ≤ -4 - 1 - (slotOf env n.toNat : Int) := by omega
    have h2 : -4 - 1 - (slotOf env n.toNat : Int) < -4 := by omega
    have h3 : (-5 - (-4 - 1 - (slotOf env n.toNat : Int))).toNat = slotOf env n.toNat := by omega
    simp only [hn, if_true, if_neg h1, if_pos h2, h3]
  · have hlo := h.2 (by omega)
    have : n = -1 ∨ n = -2 ∨ n = -3 ∨ n = -4 := by omega
    rcases this with rfl | rfl | rfl | rfl <;> simp

theorem buildData_pieces (env : Env) : ∀ (toks : List Tok) (sb : List Nat) (strings : List (List Nat)) (rules : List Int),
    (∀ t ∈ toks, RefOk env t) → RulesWF strings rules →
    (buildData env toks sb strings rules).pieces = rules.map (decodeRule strings) ++ piecesOf env toks sb := by
  intro toks
  induction toks with
  | nil =>
    intro sb strings rules _ hwf
    simp only [buildData, piecesOf]
    by_cases hsb : sb ≠ []
    · simp only [if_pos hsb, ReplacerData.pieces, List.map_append, map_decodeRule_append strings [sb] rules hwf]
      simp [decodeRule]
    · simp [if_neg hsb, ReplacerData.pieces]
  | cons t rest ih =>
    intro sb strings rules ht hwf
    cases t with
    | ch c => simp only [buildData, piecesOf]; exact ih _ _ _ (fun t h => ht t (by simp [h])) hwf
    | ref n =>
      have hrefok : RefOk env (.ref n) := ht _ (by simp)
      have hneg : ¬ (0 : Int) ≤ -4 - 1 - (if 0 ≤ n then (slotOf env n.toNat : Int) else n) := by
        by_cases hn : 0 ≤ n
        · simp only [hn, if_true]; omega
        · have := hrefok.2 (by omega); simp only [hn, if_false]; omega
      simp only [buildData, piecesOf]
      by_cases hsb : sb ≠ []
      · simp only [if_pos hsb]
        have hwf' : RulesWF (strings ++ [sb]) (rules ++ [(strings.length : Int)] ++ [-4 - 1 - (if 0 ≤ n then (slotOf env n.toNat : Int) else n)]) := by
          intro r hm h0
          simp only [List.mem_append, List.mem_singleton] at hm
          rcases hm with (hm | hm) | hm
          · have := hwf r hm h0; simp; omega
          · subst hm; simp
          · subst hm; exact absurd h0 hneg
        rw [ih _ _ _ (fun t h => ht t (by simp [h])) hwf']
        simp only [List.map_append, List.map_cons, List.map_nil, decodeRule_ref env _ n hrefok,
          map_decodeRule_append strings [sb] rules hwf]
        simp [decodeRule]
      · simp only [if_neg hsb]
        have hwf' : RulesWF strings (rules ++ [-4 - 1 - (if 0 ≤ n then (slotOf env n.toNat : Int) else n)]) := by
          intro r hm h0
          simp only [List.mem_append, List.mem_singleton] at hm
          rcases hm with hm | hm
          · exact hwf r hm h0
          · subst hm; exact absurd h0 hneg
        rw [ih _ _ _ (fun t h => ht t (by simp [h])) hwf']
        simp only [List.map_append, List.map_cons, List.map_nil, decodeRule_ref env _ n hrefok]
        simp

end RegexVerif.Lemmas.Replace
