/-
Helper lemmas for C19 (model `RegexVerif.Model.Escape`).
-/
import RegexVerif.Model.Escape

namespace RegexVerif.Lemmas.Escape
open RegexVerif RegexVerif.Escape

/-! ### helper lemmas -/

theorem hexDigit_hexChar (d : Nat) (h : d < 16) : hexDigit (hexChar d) = some d := by
  unfold hexDigit hexChar
  by_cases h10 : d < 10
  · have a : (48 ≤ 48 + d ∧ 48 + d ≤ 57) := by omega
    simp [h10, a]
  · have a : ¬ (48 ≤ 87 + d ∧ 87 + d ≤ 57) := by omega
    have b : (97 ≤ 87 + d ∧ 87 + d ≤ 102) := by omega
    simp [h10, a, b]; omega

theorem hexChar_ne_brace (d : Nat) (h : d < 16) : hexChar d ≠ 123 := by
  unfold hexChar; split <;> omega

theorem scanHex_hex2 (r : Nat) (h : r < 256) (rest : List Nat) :
    scanHex 2 0 (hex2 r ++ rest) = some (r, rest) := by
  have h1 : r / 16 < 16 := by omega
  have h2 : r % 16 < 16 := by omega
  simp only [hex2, scanHex, List.cons_append, List.nil_append, hexDigit_hexChar _ h1, hexDigit_hexChar _ h2]
  simp; omega

theorem scanHex_hex4 (r : Nat) (h : r < 65536) (rest : List Nat) :
    scanHex 4 0 (hex4 r ++ rest) = some (r, rest) := by
  have h1 : r / 4096 < 16 := by omega
  have h2 : r / 256 % 16 < 16 := by omega
  have h3 : r / 16 % 16 < 16 := by omega
  have h4 : r % 16 < 16 := by omega
  simp only [hex4, scanHex, List.cons_append, List.nil_append, hexDigit_hexChar _ h1, hexDigit_hexChar _ h2,
    hexDigit_hexChar _ h3, hexDigit_hexChar _ h4]
  simp; omega

/-- a rune the escape scanner returns as itself after a backslash (word-ness aside): not an octal
    digit and none of `x u a b e f n r t v c` -/
def plainAfterBackslash (c : Nat) : Bool :=
  !(decide (48 ≤ c ∧ c ≤ 55)) && !([120, 117, 97, 98, 101, 102, 110, 114, 116, 118, 99].contains c)

theorem scanCharEscape_plain (isWord : Nat → Bool) (c : Nat) (rest : List Nat)
    (hp : plainAfterBackslash c = true) (hw : isWord c = false) :
    scanCharEscape isWord (c :: rest) = some (c, rest) := by
  simp [plainAfterBackslash] at hp
  obtain ⟨h0, a1, a2, a3, a4, a5, a6, a7, a8, a9, a10, a11⟩ := hp
  have h0' : ¬ (48 ≤ c ∧ c ≤ 55) := by omega
  simp [scanCharEscape, h0', a1, a2, a3, a4, a5, a6, a7, a8, a9, a10, a11, hw]

theorem step_lit (isWord : Nat → Bool) (fuel c : Nat) (rest acc : List Nat) (h : c ≠ bslash) :
    unescapeFuel isWord (fuel + 1) true (c :: rest) acc = unescapeFuel isWord fuel true rest (c :: acc) := by
  simp [unescapeFuel, h]

theorem step_esc (isWord : Nat → Bool) (fuel r : Nat) (body rest acc : List Nat)
    (h : scanCharEscape isWord body = some (r, rest)) :
    unescapeFuel isWord (fuel + 2) true (bslash :: body) acc = unescapeFuel isWord fuel true rest (r :: acc) := by
  simp [unescapeFuel, h]

/-! ### obligations regenerated from the Go source (`Generated.Escape`) -/

/-- Every rune of the `meta` constant of escape.go, written after a backslash, is read back by
    the parser's escape scanner as itself (it is not an octal digit or an escape letter). -/
theorem meta_plain : Generated.metaChars.all plainAfterBackslash = true := by decide

/-- The backslash itself is escaped. -/
theorem meta_has_backslash : Generated.metaChars.contains bslash = true := by decide

/-- One escaped rune is read back as that rune, using at most two units of fuel. -/
theorem unescape_escapeRune (isPrint isWord : Nat → Bool)
    (hW : ∀ c, Generated.metaChars.contains c = true → isWord c = false)
    (r : Nat) (rest acc : List Nat) :
    ∃ k, k ≤ 2 ∧ ∀ fuel, unescapeFuel isWord (fuel + k) true (escapeRune isPrint r ++ rest) acc
        = unescapeFuel isWord fuel true rest (r :: acc) := by
  unfold escapeRune
  by_cases hp : isPrint r = true
  · by_cases hm : Generated.metaChars.contains r = true
    · refine ⟨2, by omega, fun fuel => ?_⟩
      have hplain : plainAfterBackslash r = true := by
        have := List.all_eq_true.mp meta_plain r (by simpa using hm)
        exact this
      simp only [hp, hm, if_true]
      exact step_esc isWord fuel r (r :: rest) rest acc (scanCharEscape_plain isWord r rest hplain (hW r hm))
    · refine ⟨1, by omega, fun fuel => ?_⟩
      have hne : r ≠ bslash := by
        intro h; subst h; exact hm meta_has_backslash
      simp only [hp, hm, if_true]
      exact step_lit isWord fuel r rest acc hne
  · simp only [hp]
    by_cases h7 : r = 7
    · subst h7; exact ⟨2, by omega, fun fuel => by simp [unescapeFuel, scanCharEscape, bslash]⟩
    by_cases h12 : r = 12
    · subst h12; exact ⟨2, by omega, fun fuel => by simp [unescapeFuel, scanCharEscape, bslash]⟩
    by_cases h10 : r = 10
    · subst h10; exact ⟨2, by omega, fun fuel => by simp [unescapeFuel, scanCharEscape, bslash]⟩
    by_cases h13 : r = 13
    · subst h13; exact ⟨2, by omega, fun fuel => by simp [unescapeFuel, scanCharEscape, bslash]⟩
    by_cases h9 : r = 9
    · subst h9; exact ⟨2, by omega, fun fuel => by simp [unescapeFuel, scanCharEscape, bslash]⟩
    by_cases h11 : r = 11
    · subst h11; exact ⟨2, by omega, fun fuel => by simp [unescapeFuel, scanCharEscape, bslash]⟩
    simp only [h7, h12, h10, h13, h9, h11, if_false]
    by_cases hx : r < 0x100
    · refine ⟨2, by omega, fun fuel => ?_⟩
      simp only [hx, if_true]
      have hs : scanCharEscape isWord (120 :: (hex2 r ++ rest)) = some (r, rest) := by
        have hb : hexChar (r / 16) ≠ 123 := hexChar_ne_brace _ (by omega)
        have := scanHex_hex2 r hx rest
        simp only [hex2, List.cons_append, List.nil_append] at this ⊢
        simp [scanCharEscape, hb, this]
      exact step_esc isWord fuel r _ rest acc hs
    · by_cases hu : r < 0x10000
      · refine ⟨2, by omega, fun fuel => ?_⟩
        simp only [hx, hu, if_true, if_false]
        have hs : scanCharEscape isWord (117 :: (hex4 r ++ rest)) = some (r, rest) := by
          simp [scanCharEscape, scanHex_hex4 r hu rest]
        exact step_esc isWord fuel r _ rest acc hs
      · refine ⟨1, by omega, fun fuel => ?_⟩
        simp only [hx, hu, if_false]
        exact step_lit isWord fuel r rest acc (by simp [bslash]; omega)

theorem escapeRune_length_pos (isPrint : Nat → Bool) (r : Nat) : 1 ≤ (escapeRune isPrint r).length := by
  unfold escapeRune hex2 hex4
  repeat' split
  all_goals simp

theorem escape_length (isPrint : Nat → Bool) (s : List Nat) : s.length ≤ (escape isPrint s).length := by
  induction s with
  | nil => simp [escape]
  | cons r s ih =>
    have := escapeRune_length_pos isPrint r
    simp only [escape, List.flatMap_cons, List.length_append, List.length_cons] at ih ⊢
    omega

theorem unescapeFuel_escape (isPrint isWord : Nat → Bool)
    (hW : ∀ c, Generated.metaChars.contains c = true → isWord c = false)
    (s : List Nat) : ∀ (acc : List Nat) (fuel : Nat), 2 * s.length + 1 ≤ fuel →
      unescapeFuel isWord fuel true (escape isPrint s) acc = some (acc.reverse ++ s) := by
  induction s with
  | nil =>
    intro acc fuel hf
    obtain ⟨f, rfl⟩ : ∃ f, fuel = f + 1 := ⟨fuel - 1, by omega⟩
    simp [escape, unescapeFuel]
  | cons r s ih =>
    intro acc fuel hf
    obtain ⟨k, hk, hstep⟩ := unescape_escapeRune isPrint isWord hW r (escape isPrint s) acc
    obtain ⟨f, rfl⟩ : ∃ f, fuel = f + k := ⟨fuel - k, by simp at hf; omega⟩
    have : escape isPrint (r :: s) = escapeRune isPrint r ++ escape isPrint s := by simp [escape]
    rw [this, hstep f, ih (r :: acc) f (by simp at hf; omega)]
    simp

end RegexVerif.Lemmas.Escape
